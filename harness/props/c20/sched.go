package c20

import (
	"fmt"
	"sort"
	"strings"
	"sync"
	"sync/atomic"
	"time"

	"github.com/anishathalye/porcupine"
	"github.com/zclconf/go-cty/cty"

	"verif/harness/core"
)

// Stage (c): schedules. G goroutines run programs of catalogue operations over
// ONE shared corpus of values, types and (never mutated) value sets; value sets
// that a goroutine mutates are private to it (fresh, or copies of shared ones).
// The worker is the -race build, so every unsynchronised write to memory that
// another goroutine touches is reported by the race detector (the orchestrator
// turns each distinct report into a violation).
//
// Two kinds of run alternate:
//   - bare: between the start barrier and the final join the harness performs NO
//     synchronisation at all (per-goroutine logs, monotonic-clock timestamps), so
//     the monitor adds no happens-before edge that could hide a race; overlap is
//     computed afterwards from the recorded intervals.
//   - instrumented: an atomic in-flight counter per shared object is incremented
//     around every operation (overlap events are counted when a goroutine enters
//     while another one is inside an operation on the same object) and timestamps
//     come from an atomic logical clock.
// The sequential baseline is computed AFTER the goroutines have finished, on a twin
// corpus built from the same random stream: neither the shared corpus nor any
// package-level state is touched by an operation before the concurrent phase, so
// a lazily written cache - inside a value or at package level - is first
// written concurrently.

type sop struct {
	op             int // index into ops; -1: private value set operation
	i0, i1         int
	t0, t1         int
	s0, s1         int
	k              uint64
	ps, pkind, mem int // private set index, operation kind, member index
}

func (s *sop) key() string {
	return fmt.Sprintf("%d|%d|%d|%d|%d|%d|%d|%d", s.op, s.i0, s.i1, s.t0, s.t1, s.s0, s.s1, s.k)
}

type srec struct {
	call, ret int64
	out       uint64
	outS      string // private set operations: outcome in model terms
	fails     []failure
}

const (
	pAdd = iota
	pRemove
	pHas
	pLength
	pValues
	pCopyShared // replace the private set by a copy of a shared (read-only) set
	pFreeze     // SetValFromValueSet, then keep mutating the private set
	nPrivKinds
)

const privSets = 3

type corpus struct {
	p      *vpool
	ety    []cty.Type    // element type per shared set
	pools  [][]cty.Value // member pool per shared set (index-aligned in twin corpora)
	poolIx []map[string]int
}

func buildCorpus(r *core.Rand, nv, nt, ns int) *corpus {
	c := &corpus{p: &vpool{}}
	c.p = buildPool(r, nv, nt, 0)
	for i := 0; i < ns; i++ {
		ety := memberTypes[i%len(memberTypes)]
		pool := memberPool(r, ety)
		s := cty.NewValueSet(ety)
		n := 2 + r.Intn(6)
		for j := 0; j < n; j++ {
			s.Add(pool[r.Intn(len(pool))])
		}
		ix := map[string]int{}
		for j, m := range pool {
			if _, dup := ix[valFP(m, true)]; !dup {
				ix[valFP(m, true)] = j
			}
		}
		c.p.sets = append(c.p.sets, s)
		c.ety = append(c.ety, ety)
		c.pools = append(c.pools, pool)
		c.poolIx = append(c.poolIx, ix)
	}
	return c
}

func (c *corpus) bind(s *sop) *opctx {
	x := &opctx{k: s.k, ptr: false}
	x.v[0], x.v[1] = c.p.vals[s.i0], c.p.vals[s.i1]
	x.t[0], x.t[1] = c.p.tys[s.t0], c.p.tys[s.t1]
	x.s[0], x.s[1] = c.p.sets[s.s0], c.p.sets[s.s1]
	return x
}

// runShared executes a catalogue operation on shared operands.
func (c *corpus) runShared(s *sop) (uint64, []failure) {
	x := c.bind(s)
	o := exec(&ops[s.op], x)
	for _, f := range x.later {
		core.Guard(f)
	}
	return core.HashString(o.pubFP(false)), x.fails
}

type privState struct {
	sets [privSets]cty.ValueSet
	src  [privSets]int // shared set whose member pool applies
	held []cty.Value   // values made from private sets (must never change)
	hfp  []string
}

func (c *corpus) newPriv() *privState {
	ps := &privState{}
	for i := range ps.sets {
		ps.src[i] = i % len(c.p.sets)
		ps.sets[i] = cty.NewValueSet(c.ety[ps.src[i]])
	}
	return ps
}

// runPriv executes an operation on a goroutine-private value set and returns
// its outcome in model terms (member = index into the shared member pool).
func (c *corpus) runPriv(ps *privState, s *sop) (out string, fails []failure) {
	j := s.ps
	set := ps.sets[j]
	pool := c.pools[ps.src[j]]
	m := pool[s.mem%len(pool)]
	g := core.Guard(func() {
		switch s.pkind {
		case pAdd:
			set.Add(m)
			out = fmt.Sprintf("len=%d", set.Length())
		case pRemove:
			set.Remove(m)
			out = fmt.Sprintf("len=%d", set.Length())
		case pHas:
			out = fmt.Sprintf("has=%t", set.Has(m))
		case pLength:
			out = fmt.Sprintf("len=%d", set.Length())
		case pValues:
			out = c.membersOf(ps.src[j], set.Values())
		case pCopyShared:
			src := s.s0 % len(c.p.sets)
			ps.src[j] = src
			ps.sets[j] = c.p.sets[src].Copy()
			out = c.membersOf(src, ps.sets[j].Values())
		case pFreeze:
			v := cty.SetValFromValueSet(set)
			if len(ps.held) < 64 {
				ps.held = append(ps.held, v)
				ps.hfp = append(ps.hfp, hookValFP(v)+valFP(v, true))
			}
			out = c.membersOf(ps.src[j], v.AsValueSlice())
		}
	})
	if g.Panicked {
		out = "panic: " + core.PanicClass(g.PanicMsg)
	}
	// values frozen out of private sets earlier must not have moved
	if s.pkind == pAdd || s.pkind == pRemove {
		for i, v := range ps.held {
			if now := hookValFP(v) + valFP(v, true); now != ps.hfp[i] {
				fails = append(fails, failure{"ValueSet.Add", "mutating a private value set changed a value made from a value set earlier", "private-set", firstDiff(ps.hfp[i], now)})
				ps.hfp[i] = now
			}
		}
	}
	return out, fails
}

func (c *corpus) membersOf(src int, vals []cty.Value) string {
	ix := c.poolIx[src]
	ids := make([]int, len(vals))
	for i, v := range vals {
		id, ok := ix[valFP(v, true)]
		if !ok {
			id = -1
		}
		ids[i] = id
	}
	sort.Ints(ids)
	return fmt.Sprint(ids)
}

// ---- sequential model of a private value set (documentation: members are
// distinct by Equals being known-true; a value with unknown parts is never
// equivalent to anything, so adding it always adds a member and it can be
// neither found nor removed).

type privIn struct {
	kind, mem int
	base      string // pCopyShared: the members of the shared set (in model terms)
}

type memberInfo struct {
	whollyKnown bool
	canon       int // first pool index that reports the same (duplicates in the pool are one member identity)
}

func modelStep(state string, in privIn, info []memberInfo) (string, string) {
	// state: sorted member indices, unknown members repeated, e.g. "[0 3 7 7]"
	var ids []int
	for _, f := range strings.Fields(strings.Trim(state, "[]")) {
		var n int
		fmt.Sscanf(f, "%d", &n)
		ids = append(ids, n)
	}
	m := info[in.mem%len(info)].canon
	has := false
	if info[m].whollyKnown {
		for _, id := range ids {
			if id == m {
				has = true
			}
		}
	}
	switch in.kind {
	case pAdd:
		if !has {
			ids = append(ids, m)
			sort.Ints(ids)
		}
		return fmt.Sprint(ids), fmt.Sprintf("len=%d", len(ids))
	case pRemove:
		if has {
			var n []int
			for _, id := range ids {
				if id != m {
					n = append(n, id)
				}
			}
			ids = n
		}
		if ids == nil {
			ids = []int{}
		}
		return fmt.Sprint(ids), fmt.Sprintf("len=%d", len(ids))
	case pHas:
		return state, fmt.Sprintf("has=%t", has)
	case pLength:
		return state, fmt.Sprintf("len=%d", len(ids))
	case pValues, pFreeze:
		if ids == nil {
			ids = []int{}
		}
		return state, fmt.Sprint(ids)
	case pCopyShared:
		return in.base, in.base
	}
	return state, "?"
}

type schedParams struct {
	G, N         int
	instrumented bool
	run          int
}

type schedStats struct {
	ops, overlapEvents, intervalOverlaps, maxInflight int64
	sharedOps, privOps                                int64
	distinctTuples, repeatedTuples                    int64
}

// runSchedule performs one run. It must be called from the worker's main goroutine.
func runSchedule(c *core.Ctx, caseIdx int64, r *core.Rand, sp schedParams) {
	c.Begin(caseIdx, func() string {
		return fmt.Sprintf("schedule run %d: G=%d goroutines x N=%d operations over one shared corpus (instrumented=%t)", sp.run, sp.G, sp.N, sp.instrumented)
	})
	seed := r.Uint64()
	nv, nt, ns := 300, 60, 18
	A := buildCorpus(core.NewRand(seed), nv, nt, ns) // shared by the goroutines
	B := buildCorpus(core.NewRand(seed), nv, nt, ns) // twin: sequential baseline only
	if len(A.p.vals) != len(B.p.vals) {
		c.Violate("harness", "twin corpora differ in size", "", "", fmt.Sprint(len(A.p.vals), len(B.p.vals)))
		return
	}
	// member information for the model, from the twin
	infos := make([][]memberInfo, ns)
	bases := make([]string, ns)
	for i := 0; i < ns; i++ {
		for _, m := range B.pools[i] {
			infos[i] = append(infos[i], memberInfo{m.IsWhollyKnown(), B.poolIx[i][valFP(m, true)]})
		}
		bases[i] = B.membersOf(i, B.p.sets[i].Values())
	}

	// programs
	nHot := 200 + r.Intn(200)
	newTuple := func(rr *core.Rand) sop {
		s := sop{op: rr.Intn(len(ops)), k: rr.Uint64()}
		s.i0, s.i1 = B.p.pickIdx(rr, &ops[s.op]) // chosen on the twin: the shared corpus stays untouched
		if rr.Chance(1, 2) && ops[s.op].same && s.i0+1 < len(B.p.vals) && B.p.vals[s.i0+1].Type().Equals(B.p.vals[s.i0].Type()) {
			s.i1 = s.i0 + 1 // the variant generated right after it
		}
		s.t0, s.t1 = rr.Intn(nt), rr.Intn(nt)
		s.s0, s.s1 = rr.Intn(ns), rr.Intn(ns)
		return s
	}
	// hot tuples: executed again and again by every goroutine. The first len(ops)
	// of them are one per catalogue operation, so that every operation runs on
	// shared operands in every run.
	hot := make([]sop, nHot)
	for i := range hot {
		hot[i] = newTuple(r)
		if i < len(ops) && hot[i].op != i {
			for try := 0; try < 50 && hot[i].op != i; try++ {
				t := newTuple(r)
				t.op = i
				t.i0, t.i1 = B.p.pickIdx(r, &ops[i])
				hot[i] = t
			}
		}
	}
	progs := make([][]sop, sp.G)
	for g := range progs {
		rr := r.Fork()
		progs[g] = make([]sop, sp.N)
		for i := range progs[g] {
			switch k := rr.Intn(100); {
			case k < 78:
				progs[g][i] = hot[rr.Intn(nHot)]
			case k < 84:
				progs[g][i] = newTuple(rr)
			default:
				progs[g][i] = sop{op: -1, ps: rr.Intn(privSets), pkind: rr.Weighted([]int{40, 15, 10, 5, 10, 8, 12}), mem: rr.Intn(64), s0: rr.Intn(ns)}
			}
		}
	}

	// snapshot of the shared corpus (internal state through the hooks: plain reads)
	snap := func() []string {
		out := make([]string, 0, len(A.p.vals)+len(A.p.tys)+len(A.p.sets))
		for _, v := range A.p.vals {
			out = append(out, hookValFP(v))
		}
		for _, t := range A.p.tys {
			out = append(out, hookTypeFP(t))
		}
		for _, s := range A.p.sets {
			out = append(out, hookSetFP(s))
		}
		return out
	}
	before := snap()

	// concurrent phase
	recs := make([][]srec, sp.G)
	for g := range recs {
		recs[g] = make([]srec, sp.N)
	}
	var inflV []int32
	var inflS []int32
	var clock int64
	overlaps := make([]int64, sp.G)
	maxInfl := make([]int32, sp.G)
	if sp.instrumented {
		inflV = make([]int32, len(A.p.vals))
		inflS = make([]int32, ns)
	}
	start := make(chan struct{})
	var wg sync.WaitGroup
	t0 := time.Now()
	for g := 0; g < sp.G; g++ {
		wg.Add(1)
		go func(g int) {
			defer wg.Done()
			prog, rec := progs[g], recs[g]
			priv := A.newPriv()
			var ov int64
			var mx int32
			<-start
			for i := range prog {
				s := &prog[i]
				if sp.instrumented {
					rec[i].call = atomic.AddInt64(&clock, 1)
					if s.op >= 0 {
						for j := 0; j < opNV[s.op]; j++ {
							if n := atomic.AddInt32(&inflV[[2]int{s.i0, s.i1}[j]], 1); n > 1 {
								ov++
								if n > mx {
									mx = n
								}
							}
						}
						if opNS[s.op] > 0 {
							if n := atomic.AddInt32(&inflS[s.s0], 1); n > 1 {
								ov++
							}
						}
					}
				} else {
					rec[i].call = int64(time.Since(t0))
				}
				if s.op >= 0 {
					rec[i].out, rec[i].fails = A.runShared(s)
				} else {
					rec[i].outS, rec[i].fails = A.runPriv(priv, s)
				}
				if sp.instrumented {
					if s.op >= 0 {
						for j := 0; j < opNV[s.op]; j++ {
							atomic.AddInt32(&inflV[[2]int{s.i0, s.i1}[j]], -1)
						}
						if opNS[s.op] > 0 {
							atomic.AddInt32(&inflS[s.s0], -1)
						}
					}
					rec[i].ret = atomic.AddInt64(&clock, 1)
				} else {
					rec[i].ret = int64(time.Since(t0))
				}
			}
			overlaps[g], maxInfl[g] = ov, mx
		}(g)
	}
	close(start)
	wg.Wait()
	wall := time.Since(t0)

	// sequential baseline on the twin corpus (once per distinct tuple: the operations are pure), computed AFTER the
	// concurrent phase: computed before it, the baseline warmed every lazily filled package-level cache (compiled
	// patterns, per-type tables, memos), so the goroutines only ever read it and an unsynchronised fill went unseen
	// (deliberate break: a map of compiled patterns in stdlib/regexp.go).
	base := map[string]uint64{}
	for g := range progs {
		for i := range progs[g] {
			s := &progs[g][i]
			if s.op < 0 {
				continue
			}
			k := s.key()
			if _, ok := base[k]; !ok {
				h, _ := B.runShared(s)
				base[k] = h
			}
		}
	}

	// ---- evaluation (single goroutine from here on)
	var st schedStats
	tag := fmt.Sprintf("sched:G=%02d:", sp.G)
	after := snap()
	for i := range before {
		if before[i] != after[i] {
			c.Count("clause-failed:shared-object-changed")
			c.Violate("shared corpus", "a shared object changed while goroutines used it", "", fmt.Sprintf("shared object #%d", i), firstDiff(before[i], after[i]))
		}
	}
	opCount := make([]int64, len(ops))
	seenTuple := map[string]int{}
	var hist []porcupine.Operation
	for g := range progs {
		for i := range progs[g] {
			s, rc := &progs[g][i], &recs[g][i]
			st.ops++
			c.Eval(1)
			if len(rc.fails) > 0 {
				report(c, rc.fails, describeSop(A, s))
			}
			if s.op >= 0 {
				st.sharedOps++
				opCount[s.op]++
				k := s.key()
				seenTuple[k]++
				c.Count("sched:baseline-comparisons")
				if want := base[k]; rc.out != want {
					c.Count("clause-failed:differs-from-sequential-baseline")
					c.Violate(ops[s.op].name, "result under concurrent use differs from the sequential baseline", "", describeSop(A, s),
						fmt.Sprintf("goroutine %d, operation %d: outcome hash %x, sequential baseline %x", g, i, rc.out, want))
				}
				hist = append(hist, porcupine.Operation{ClientId: g, Input: sharedIn{k}, Call: rc.call, Output: rc.out, Return: rc.ret})
			} else {
				st.privOps++
				c.Count("sched:op:private-valueset:" + []string{"Add", "Remove", "Has", "Length", "Values", "Copy-of-shared", "SetValFromValueSet"}[s.pkind])
				hist = append(hist, porcupine.Operation{ClientId: g, Input: privKeyIn{fmt.Sprintf("g%d/ps%d", g, s.ps), s}, Call: rc.call, Output: rc.outS, Return: rc.ret})
			}
		}
	}
	for i, n := range opCount {
		if n > 0 {
			c.CountN("sched:op:"+ops[i].name, n)
		}
	}
	for k, n := range seenTuple {
		st.distinctTuples++
		if n > 1 {
			st.repeatedTuples++
		}
		c.DistinctHash(core.HashString(fmt.Sprintf("sched|%d|%d|%s", seed, sp.G, k)), n > 1)
	}

	// overlap evidence
	if sp.instrumented {
		for g := range overlaps {
			st.overlapEvents += overlaps[g]
			if int64(maxInfl[g]) > st.maxInflight {
				st.maxInflight = int64(maxInfl[g])
			}
		}
		c.CountN("sched:overlap-events(atomic in-flight counters)", st.overlapEvents)
		c.CountN(tag+"overlap-events", st.overlapEvents)
	} else {
		st.intervalOverlaps = intervalOverlaps(progs, recs, len(A.p.vals))
		c.CountN("sched:interval-overlaps(same object, different goroutines, bare runs)", st.intervalOverlaps)
		c.CountN(tag+"interval-overlaps", st.intervalOverlaps)
	}
	if (sp.instrumented && st.overlapEvents == 0) || (!sp.instrumented && st.intervalOverlaps == 0) {
		c.Count("sched:runs-without-observed-overlap")
	}

	// porcupine: per-object partitions; an immutable object is a constant (write-once
	// register per (operation, operands)); a private value set follows the set model.
	model := porcupine.Model{
		Partition: func(h []porcupine.Operation) [][]porcupine.Operation {
			m := map[string][]porcupine.Operation{}
			var order []string
			for _, o := range h {
				var k string
				switch in := o.Input.(type) {
				case sharedIn:
					k = in.key
				case privKeyIn:
					k = in.part
				}
				if _, ok := m[k]; !ok {
					order = append(order, k)
				}
				m[k] = append(m[k], o)
			}
			out := make([][]porcupine.Operation, 0, len(m))
			for _, k := range order {
				out = append(out, m[k])
			}
			return out
		},
		Init: func() interface{} { return "" },
		Step: func(state, input, output interface{}) (bool, interface{}) {
			st := state.(string)
			switch in := input.(type) {
			case sharedIn:
				o := fmt.Sprintf("=%x", output.(uint64))
				if st == "" {
					return true, o
				}
				return st == o, st
			case privKeyIn:
				src := in.s.ps % ns // initial source of that private set
				cur := st
				if cur == "" {
					cur = fmt.Sprintf("%d;[]", src)
				}
				var srcNow int
				var members string
				if i := strings.IndexByte(cur, ';'); i >= 0 {
					fmt.Sscanf(cur[:i], "%d", &srcNow)
					members = cur[i+1:]
				}
				pin := privIn{kind: in.s.pkind, mem: in.s.mem}
				if in.s.pkind == pCopyShared {
					srcNow = in.s.s0 % ns
					pin.base = bases[srcNow]
				}
				pin.mem = in.s.mem % len(infos[srcNow])
				next, want := modelStep(members, pin, infos[srcNow])
				got := output.(string)
				return got == want, fmt.Sprintf("%d;%s", srcNow, next)
			}
			return false, st
		},
	}
	res := porcupine.CheckOperationsTimeout(model, hist, 90*time.Second)
	c.Count("sched:porcupine:" + string(res))
	c.CountN("sched:porcupine:operations-checked", int64(len(hist)))
	if res == porcupine.Illegal {
		// locate the partitions that are not linearizable
		parts := model.Partition(hist)
		n := 0
		for _, p := range parts {
			m2 := model
			m2.Partition = nil
			if !porcupine.CheckOperations(m2, p) && n < 3 {
				n++
				var lines []string
				for i, o := range p {
					if i < 12 {
						lines = append(lines, fmt.Sprintf("g%d [%d,%d] %v -> %v", o.ClientId, o.Call, o.Return, describeIn(A, o.Input), o.Output))
					}
				}
				site := "private ValueSet"
				if in, ok := p[0].Input.(sharedIn); ok {
					site = ops[opOfKey(in.key)].name
				}
				c.Count("clause-failed:history-not-linearizable")
				c.Violate(site, "recorded multi-goroutine history is not linearizable against the sequential model", "", strings.Join(lines, "\n"),
					fmt.Sprintf("porcupine: partition of %d operations has no linearization", len(p)))
			}
		}
	}

	c.Count("sched:runs")
	c.Count(tag + "runs")
	c.CountN("sched:ops", st.ops)
	c.CountN(tag+"ops", st.ops)
	c.CountN("sched:ops:on-shared-objects", st.sharedOps)
	c.CountN("sched:ops:on-private-valuesets", st.privOps)
	c.CountN("sched:distinct-(operation,operands)-tuples", st.distinctTuples)
	c.CountN("sched:tuples-executed-more-than-once", st.repeatedTuples)
	c.CountN("sched:concurrent-phase-ms", wall.Milliseconds())
	if sp.instrumented {
		c.Count("sched:runs:instrumented")
	} else {
		c.Count("sched:runs:bare")
	}
	if c.WantSample() {
		c.Sample(map[string]any{"stage": "schedule", "goroutines": sp.G, "ops_per_goroutine": sp.N, "instrumented": sp.instrumented,
			"overlap_events": st.overlapEvents, "interval_overlaps": st.intervalOverlaps, "max_in_flight_on_one_object": st.maxInflight,
			"porcupine": string(res), "distinct_tuples": st.distinctTuples, "concurrent_phase_ms": wall.Milliseconds(),
			"example_operation": describeSop(A, &hot[0])})
	}
}

// number of value / value-set operands each catalogue operation really uses
var opNV, opNS []int

func fillOpN() {
	for i := range ops {
		opNV = append(opNV, needsVals(&ops[i]))
		opNS = append(opNS, needsSets(&ops[i]))
	}
}

type sharedIn struct{ key string }
type privKeyIn struct {
	part string
	s    *sop
}

func opOfKey(k string) int {
	var n int
	fmt.Sscanf(k, "%d|", &n)
	return n
}

func describeIn(A *corpus, in interface{}) string {
	switch t := in.(type) {
	case sharedIn:
		return t.key
	case privKeyIn:
		return fmt.Sprintf("%s kind=%d mem=%d", t.part, t.s.pkind, t.s.mem)
	}
	return "?"
}

func describeSop(A *corpus, s *sop) string {
	if s.op < 0 {
		return fmt.Sprintf("private value set #%d: operation kind %d, member %d, shared source set %d", s.ps, s.pkind, s.mem, s.s0)
	}
	return describeOperands(&ops[s.op], A.bind(s))
}

// intervalOverlaps counts operations that started while an operation of
// another goroutine on the same shared value was in progress (bare runs: from
// the recorded monotonic-clock intervals).
func intervalOverlaps(progs [][]sop, recs [][]srec, nvals int) int64 {
	type iv struct {
		call, ret int64
		g         int
	}
	per := make([][]iv, nvals)
	for g := range progs {
		for i := range progs[g] {
			s := &progs[g][i]
			if s.op < 0 {
				continue
			}
			if opNV[s.op] == 0 {
				continue
			}
			per[s.i0] = append(per[s.i0], iv{recs[g][i].call, recs[g][i].ret, g})
			if s.i1 != s.i0 && opNV[s.op] > 1 {
				per[s.i1] = append(per[s.i1], iv{recs[g][i].call, recs[g][i].ret, g})
			}
		}
	}
	var n int64
	maxRet := make([]int64, len(progs))
	for _, l := range per {
		sort.Slice(l, func(a, b int) bool { return l[a].call < l[b].call })
		for i := range maxRet {
			maxRet[i] = -1
		}
		for _, x := range l {
			for g, mr := range maxRet {
				if g != x.g && mr >= x.call {
					n++
					break
				}
			}
			if x.ret > maxRet[x.g] {
				maxRet[x.g] = x.ret
			}
		}
	}
	return n
}
