package c20

import (
	"fmt"

	"github.com/zclconf/go-cty/cty"

	"verif/harness/core"
)

// Stage (b): purity. Every operation of the catalogue is executed purityReps
// times on the same operands inside one process. Go randomises the iteration
// order of every `range` over a map, so the repetitions explore the orders in
// which the library's loops over Go maps can run; a result that depends on
// that order shows up as two repetitions that disagree.

const purityReps = 8

// bindOperands fills an opctx for op from the pool (case stream r).
func bindOperands(r *core.Rand, p *vpool, op *opDef) *opctx {
	x := &opctx{ptr: true, k: r.Uint64()}
	i0, i1 := p.pickIdx(r, op)
	x.v[0], x.v[1] = p.vals[i0], p.vals[i1]
	if needsVals(op) >= 2 && r.Chance(2, 5) {
		// a fresh variant of the first operand: same type, members partly equal, partly different, partly undecided
		core.Guard(func() { x.v[1] = variant(r, x.v[0], 20+r.Intn(40)) })
	}
	x.t[0], x.t[1] = p.tys[r.Intn(len(p.tys))], p.tys[r.Intn(len(p.tys))]
	if r.Chance(1, 3) {
		x.t[0] = x.v[1].Type()
	}
	x.s[0], x.s[1] = p.sets[r.Intn(len(p.sets))], p.sets[r.Intn(len(p.sets))]
	return x
}

func (x *opctx) fresh() *opctx {
	return &opctx{v: x.v, t: x.t, s: x.s, k: x.k, ptr: x.ptr}
}

func purityClass(op *opDef, x *opctx) string {
	switch needsVals(op) {
	case 0:
		return ""
	case 1:
		return operandClass(x.v[0])
	}
	return operandClass(x.v[0]) + " / " + operandClass(x.v[1])
}

func purityCase(c *core.Ctx, idx int64, r *core.Rand, p *vpool) {
	op := &ops[r.Intn(len(ops))]
	x := bindOperands(r, p, op)
	runPurity(c, idx, op, x)
}

func runPurity(c *core.Ctx, idx int64, op *opDef, x *opctx) {
	desc := func() string { return describeOperands(op, x) }
	c.Begin(idx, desc)
	c.Count("purity:op:" + op.name)
	var o0 outcome
	var pub0, hook0 string
	panicked := false
	for rep := 0; rep < purityReps; rep++ {
		xr := x.fresh()
		o := exec(op, xr)
		c.Eval(1)
		for _, f := range xr.later {
			core.Guard(f)
		}
		if len(xr.fails) > 0 {
			report(c, xr.fails, desc())
			break
		}
		// Results are compared without capsule pointer identity: a decoder or
		// conversion that builds a fresh capsule payload per call is not impure.
		pub, hook := o.pubFP(false), o.hookFP()
		if outcomeHasCapsule(o) {
			hook = ""
		}
		if rep == 0 {
			o0, pub0, hook0 = o, pub, hook
			panicked = len(o.text) >= 6 && o.text[:6] == "panic:"
			continue
		}
		if pub != pub0 {
			c.Count("clause-failed:repetition-differs")
			c.Violate(op.name, "repeating the call on the same operands gave a different result", diffClass(op, xr, o0, o), desc(),
				fmt.Sprintf("repetition 0 and repetition %d disagree: %s", rep, firstDiff(pub0, pub)))
			break
		}
		rawDiff := false
		for i := range o.vals {
			if i < len(o0.vals) && o.vals[i] != cty.NilVal && o0.vals[i] != cty.NilVal && !hasCapsule(o.vals[i].Type()) {
				var eq bool
				if g := core.Guard(func() { eq = o0.vals[i].RawEquals(o.vals[i]) }); !g.Panicked && !eq {
					rawDiff = true
				}
			}
		}
		if rawDiff {
			c.Count("clause-failed:repetition-not-RawEquals")
			c.Violate(op.name, "repeating the call on the same operands gave a result that is not RawEquals to the first", purityClass(op, x), desc(),
				fmt.Sprintf("repetition %d; public fingerprints agree: %s", rep, pub))
			break
		}
		if hook != hook0 {
			c.Count("clause-failed:repetition-internal-state-differs")
			c.Violate(op.name, "repeating the call on the same operands gave a result with a different internal state", purityClass(op, x), desc(),
				fmt.Sprintf("repetition 0 and repetition %d: %s", rep, firstDiff(hook0, hook)))
			break
		}
	}
	c.Count("purity:cases")
	if panicked {
		c.Count("purity:outcome:panic")
	} else {
		c.Count("purity:outcome:result")
	}
	c.DistinctHash(core.HashString("purity|"+op.name+"|"+fmt.Sprint(x.k)+"|"+pub0), !panicked)
	if c.WantSample() && !panicked && idx%97 == 0 {
		c.Sample(map[string]any{"stage": "purity", "call": desc(), "result_fingerprint": clipS(pub0, 300), "repetitions": purityReps})
	}
}

func outcomeHasCapsule(o outcome) bool {
	for _, v := range o.vals {
		if v != cty.NilVal && hasCapsule(v.Type()) {
			return true
		}
	}
	for _, s := range o.sets {
		if hasCapsule(s.ElementType()) {
			return true
		}
	}
	return false
}

// diffClass is the narrow class of a repetition that disagreed: what the
// operation said about its own input (x.class), else the shape of the
// disagreement, else the operand classes.
func diffClass(op *opDef, x *opctx, a, b outcome) string {
	if x.class != "" {
		return x.class
	}
	if len(a.vals) == 1 && len(b.vals) == 1 && a.vals[0] != cty.NilVal && b.vals[0] != cty.NilVal &&
		a.vals[0].Type() == cty.Bool && b.vals[0].Type() == cty.Bool {
		ua, _ := a.vals[0].Unmark()
		ub, _ := b.vals[0].Unmark()
		if ua.IsKnown() != ub.IsKnown() {
			return "bool result known in one repetition, unknown in another"
		}
	}
	return purityClass(op, x)
}

func clipS(s string, n int) string {
	if len(s) > n {
		return s[:n] + "..."
	}
	return s
}
