package c20

import (
	"fmt"
	"strings"

	"github.com/zclconf/go-cty/cty"

	"verif/harness/core"
)

// Stage (a): histories. A history is a sequence of steps over a live set of
// values, types and value sets. After EVERY step both fingerprints (internal
// state through the verif hooks, reported state through the public API) of
// every live object are recomputed; a change in an object that the step does
// not own (only ValueSet.Add / Remove own their receiver) is a violation.

const (
	kVal = iota
	kType
	kSet
)

type lobj struct {
	kind int
	name string
	v    cty.Value
	t    cty.Type
	s    cty.ValueSet
	pool []cty.Value // candidate members (sets)
	pub  string
	hook string
	via  string // operation that created it
	from []string
	anc  map[string]bool // names of this object and of everything it was derived from, transitively
}

func (o *lobj) fps() (string, string) {
	switch o.kind {
	case kVal:
		return valFP(o.v, true), hookValFP(o.v)
	case kType:
		return typeFP(o.t), hookTypeFP(o.t)
	}
	return setFP(o.s, true), hookSetFP(o.s)
}

func (o *lobj) describe() string {
	switch o.kind {
	case kVal:
		return fmt.Sprintf("%s = %#v", o.name, o.v)
	case kType:
		return fmt.Sprintf("%s = %#v", o.name, o.t)
	}
	return fmt.Sprintf("%s = %s", o.name, describeSet(o.s))
}

type history struct {
	c       *core.Ctx
	r       *core.Rand
	live    []*lobj
	log     []string
	seq     int
	pending []func()
	pendDsc []string
	nMut    int
	nAcc    int
	failed  bool
}

func (h *history) add(o *lobj) *lobj {
	h.seq++
	o.name = fmt.Sprintf("%c%d", "vts"[o.kind], h.seq)
	o.anc = map[string]bool{o.name: true}
	for _, f := range o.from {
		for _, q := range h.live {
			if q.name == f {
				for a := range q.anc {
					o.anc[a] = true
				}
			}
		}
	}
	o.pub, o.hook = o.fps()
	h.live = append(h.live, o)
	return o
}

func (h *history) ofKind(kind int) []*lobj {
	var out []*lobj
	for _, o := range h.live {
		if o.kind == kind {
			out = append(out, o)
		}
	}
	return out
}

// evict keeps the live set within its bounds (<= 64 objects).
func (h *history) evict() {
	caps := [3]int{44, 8, 12}
	for kind := 0; kind < 3; kind++ {
		for {
			objs := h.ofKind(kind)
			if len(objs) <= caps[kind] {
				break
			}
			victim := objs[h.r.Intn(len(objs)-2)]
			for i, o := range h.live {
				if o == victim {
					h.live = append(h.live[:i], h.live[i+1:]...)
					break
				}
			}
		}
	}
}

// relation classifies how the changed object is related to the value set the
// step was allowed to change (ancestry through Copy / SetValFromValueSet / set algebra).
func relation(victim, owner *lobj) string {
	if owner == nil {
		return "step owns nothing"
	}
	for a := range owner.anc {
		if victim.anc[a] {
			return "shares ancestry with the mutated value set"
		}
	}
	return "unrelated to the mutated value set"
}

// check recomputes every fingerprint after a step. owner (may be nil) is the
// one object the step was allowed to change.
func (h *history) check(site, step string, owner *lobj) {
	h.log = append(h.log, step)
	for _, o := range h.live {
		pub, hook := o.fps()
		if o == owner {
			o.pub, o.hook = pub, hook
			continue
		}
		if pub == o.pub && hook == o.hook {
			continue
		}
		facet := "a step changed what an existing object reports"
		detail := firstDiff(o.pub, pub)
		if pub == o.pub {
			facet = "a step changed the internal state of an existing object"
			detail = firstDiff(o.hook, hook)
		}
		class := []string{"value", "type", "valueset"}[o.kind] + ": " + relation(o, owner)
		h.c.Count("clause-failed:history-" + []string{"value", "type", "valueset"}[o.kind] + "-changed")
		own := ""
		if owner != nil {
			own = "; the step owns " + owner.describe()
		}
		h.c.Violate(site, facet, class, h.witness(),
			fmt.Sprintf("after step %q the object %s (created by %s from %v) changed%s: %s", step, o.describe(), o.via, o.from, own, detail))
		o.pub, o.hook = pub, hook
		h.failed = true
	}
}

func (h *history) witness() string {
	lo := 0
	if len(h.log) > 60 {
		lo = len(h.log) - 60
	}
	return fmt.Sprintf("history of %d steps (last %d shown):\n%s", len(h.log), len(h.log)-lo, strings.Join(h.log[lo:], "\n"))
}

func (h *history) pickVal(p pred) *lobj {
	vs := h.ofKind(kVal)
	o := vs[h.r.Intn(len(vs))]
	if p != nil {
		for try := 0; try < 12; try++ {
			q := vs[h.r.Intn(len(vs))]
			if p(q.v) {
				return q
			}
		}
	}
	return o
}

func (h *history) pickSameType(a *lobj) *lobj {
	vs := h.ofKind(kVal)
	for try := 0; try < 12; try++ {
		q := vs[h.r.Intn(len(vs))]
		if q.v.Type().Equals(a.v.Type()) {
			return q
		}
	}
	return vs[h.r.Intn(len(vs))]
}

func runHistory(c *core.Ctx, idx int64, r *core.Rand) {
	h := &history{c: c, r: r}
	nSteps := 40 + r.Intn(161)
	c.Begin(idx, func() string {
		return fmt.Sprintf("history #%d (%d steps; regenerate with the same seed / batch / case)", idx, nSteps)
	})
	// initial live set
	for i := 0; i < 10; i++ {
		v := genValue(r)
		h.add(&lobj{kind: kVal, v: v, via: "generator"})
		if r.Chance(1, 2) {
			var w cty.Value
			if g := core.Guard(func() { w = variant(r, v, 25) }); !g.Panicked {
				h.add(&lobj{kind: kVal, v: w, via: "generator"})
			}
		}
	}
	for _, t := range []cty.Type{cty.Number, cty.String, cty.List(cty.String), cty.Set(cty.Number)} {
		h.add(&lobj{kind: kVal, v: genValueOf(r, t), via: "generator"})
	}
	for i := 0; i < 3; i++ {
		h.add(&lobj{kind: kType, t: genType(r, 1+r.Intn(3)), via: "generator"})
	}
	for i := 0; i < 3; i++ {
		s, pool := genValueSet(r)
		h.add(&lobj{kind: kSet, s: s, pool: pool, via: "generator"})
	}
	var kinds [6]int
	for step := 0; step < nSteps && !h.failed; step++ {
		k := r.Weighted([]int{45, 30, 10, 7, 5})
		kinds[k]++
		switch k {
		case 0:
			h.stepOp()
		case 1:
			h.stepSetMutate()
		case 2:
			h.stepSetDerive()
		case 3:
			h.stepPending()
		case 4:
			v := genValue(r)
			h.add(&lobj{kind: kVal, v: v, via: "generator"})
			h.check("generator", fmt.Sprintf("%s = generated value", h.live[len(h.live)-1].name), nil)
		}
		h.evict()
	}
	c.Count("history:histories")
	c.CountN("history:steps", int64(len(h.log)))
	c.CountN("history:steps:catalogue-operation", int64(kinds[0]))
	c.CountN("history:steps:valueset-add-remove", int64(kinds[1]))
	c.CountN("history:steps:valueset-derive", int64(kinds[2]))
	c.CountN("history:steps:delayed-mutation-of-go-data", int64(kinds[3]))
	c.DistinctHash(core.HashString("history|"+strings.Join(h.log, "\n")), h.nMut > 0 && h.nAcc > 0 && len(h.log) >= 20)
	if c.WantSample() && idx%29 == 0 {
		n := len(h.log)
		if n > 12 {
			n = 12
		}
		c.Sample(map[string]any{"stage": "history", "steps": len(h.log), "first_steps": h.log[:n]})
	}
}

// stepOp executes one catalogue operation on live operands; whatever it returns joins the live set.
func (h *history) stepOp() {
	r := h.r
	op := &ops[r.Intn(len(ops))]
	x := &opctx{ptr: true, k: r.Uint64()}
	var names []string
	a := h.pickVal(op.p0)
	b := h.pickVal(nil)
	if op.same {
		b = h.pickSameType(a)
	}
	x.v[0], x.v[1] = a.v, b.v
	ts := h.ofKind(kType)
	t0, t1 := ts[r.Intn(len(ts))], ts[r.Intn(len(ts))]
	x.t[0], x.t[1] = t0.t, t1.t
	ss := h.ofKind(kSet)
	s0, s1 := ss[r.Intn(len(ss))], ss[r.Intn(len(ss))]
	x.s[0], x.s[1] = s0.s, s1.s
	switch op.need {
	case "v":
		names = []string{a.name}
	case "vv":
		names = []string{a.name, b.name}
	case "vt":
		names = []string{a.name, t0.name}
	case "vvt":
		names = []string{a.name, b.name, t0.name}
	case "t":
		names = []string{t0.name}
	case "tt":
		names = []string{t0.name, t1.name}
	case "s":
		names = []string{s0.name}
	case "ss":
		names = []string{s0.name, s1.name}
	}
	o := exec(op, x)
	h.c.Eval(1)
	h.c.Count("history:op:" + op.name)
	h.nAcc++
	if len(x.fails) > 0 {
		step := fmt.Sprintf("%s[k=%d](%s)", op.name, x.k, strings.Join(names, ", "))
		h.log = append(h.log, step)
		report(h.c, x.fails, h.witness()+"\n"+describeOperands(op, x))
		h.failed = true
		return
	}
	var made []string
	for i, v := range o.vals {
		if v == cty.NilVal || i >= 4 {
			continue
		}
		made = append(made, h.add(&lobj{kind: kVal, v: v, via: op.name, from: names}).name)
	}
	for i, t := range o.tys {
		if t == cty.NilType || i >= 2 {
			continue
		}
		made = append(made, h.add(&lobj{kind: kType, t: t, via: op.name, from: names}).name)
	}
	for i, s := range o.sets {
		if i >= 2 {
			continue
		}
		pool := []cty.Value{cty.UnknownVal(s.ElementType()), cty.NullVal(s.ElementType()), cty.UnknownVal(s.ElementType())}
		core.Guard(func() { pool = append(pool, s.Values()...) })
		if op.need == "s" || op.need == "ss" {
			pool = append(pool, s0.pool...)
		}
		made = append(made, h.add(&lobj{kind: kSet, s: s, pool: pool, via: op.name, from: names}).name)
	}
	for i, f := range x.later {
		if len(h.pending) < 16 {
			h.pending = append(h.pending, f)
			h.pendDsc = append(h.pendDsc, fmt.Sprintf("delayed mutation #%d of Go data seen by %s(%s)", i, op.name, strings.Join(names, ", ")))
		}
	}
	res := o.text
	if len(res) > 40 {
		res = res[:40] + "..."
	}
	h.check(op.name, fmt.Sprintf("%s = %s[k=%d](%s) %s", strings.Join(made, ","), op.name, x.k, strings.Join(names, ", "), res), nil)
}

// stepSetMutate adds or removes a member of a live value set (the one object a step may change).
func (h *history) stepSetMutate() {
	r := h.r
	ss := h.ofKind(kSet)
	s := ss[r.Intn(len(ss))]
	if len(s.pool) == 0 {
		return
	}
	m := s.pool[r.Intn(len(s.pool))]
	if !m.Type().Equals(s.s.ElementType()) {
		m = cty.UnknownVal(s.s.ElementType())
	}
	h.nMut++
	h.c.Eval(1)
	if r.Chance(2, 3) {
		h.c.Count("history:op:ValueSet.Add")
		g := core.Guard(func() { s.s.Add(m) })
		h.check("ValueSet.Add", fmt.Sprintf("%s.Add(%#v)%s", s.name, m, panicNote(g)), s)
	} else {
		h.c.Count("history:op:ValueSet.Remove")
		g := core.Guard(func() { s.s.Remove(m) })
		h.check("ValueSet.Remove", fmt.Sprintf("%s.Remove(%#v)%s", s.name, m, panicNote(g)), s)
	}
}

func panicNote(g core.Outcome) string {
	if g.Panicked {
		return " -> panic: " + core.PanicClass(g.PanicMsg)
	}
	return ""
}

// stepSetDerive makes a new object from a live value set (or a set from a live value).
func (h *history) stepSetDerive() {
	r := h.r
	ss := h.ofKind(kSet)
	s := ss[r.Intn(len(ss))]
	h.c.Eval(1)
	switch r.Intn(5) {
	case 0, 1:
		h.c.Count("history:op:ValueSet.Copy")
		n := h.add(&lobj{kind: kSet, s: s.s.Copy(), pool: s.pool, via: "ValueSet.Copy", from: []string{s.name}})
		h.check("ValueSet.Copy", fmt.Sprintf("%s = %s.Copy()", n.name, s.name), nil)
	case 2:
		h.c.Count("history:op:cty.SetValFromValueSet")
		n := h.add(&lobj{kind: kVal, v: cty.SetValFromValueSet(s.s), via: "cty.SetValFromValueSet", from: []string{s.name}})
		h.check("cty.SetValFromValueSet", fmt.Sprintf("%s = SetValFromValueSet(%s)", n.name, s.name), nil)
	case 3:
		h.c.Count("history:op:Value.AsValueSet")
		v := h.pickVal(func(v cty.Value) bool { return v.Type().IsSetType() && v.IsKnown() && !v.IsNull() && !v.IsMarked() })
		var vs cty.ValueSet
		g := core.Guard(func() { vs = v.v.AsValueSet() })
		if g.Panicked {
			return
		}
		pool := []cty.Value{cty.UnknownVal(vs.ElementType()), cty.NullVal(vs.ElementType()), cty.UnknownVal(vs.ElementType())}
		pool = append(pool, vs.Values()...)
		for _, q := range ss {
			if q.s.ElementType().Equals(vs.ElementType()) {
				pool = append(pool, q.pool...)
				break
			}
		}
		n := h.add(&lobj{kind: kSet, s: vs, pool: pool, via: "Value.AsValueSet", from: []string{v.name}})
		h.check("Value.AsValueSet", fmt.Sprintf("%s = %s.AsValueSet()", n.name, v.name), nil)
	default:
		var o *lobj
		for _, q := range ss {
			if q != s && q.s.ElementType().Equals(s.s.ElementType()) {
				o = q
			}
		}
		if o == nil {
			o = s
		}
		name := []string{"Union", "Intersection", "Subtract", "SymmetricDifference"}[r.Intn(4)]
		h.c.Count("history:op:ValueSet." + name)
		var res cty.ValueSet
		switch name {
		case "Union":
			res = s.s.Union(o.s)
		case "Intersection":
			res = s.s.Intersection(o.s)
		case "Subtract":
			res = s.s.Subtract(o.s)
		default:
			res = s.s.SymmetricDifference(o.s)
		}
		n := h.add(&lobj{kind: kSet, s: res, pool: append(append([]cty.Value(nil), s.pool...), o.pool...), via: "ValueSet." + name, from: []string{s.name, o.name}})
		h.check("ValueSet."+name, fmt.Sprintf("%s = %s.%s(%s)", n.name, s.name, name, o.name), nil)
	}
}

// stepPending performs one delayed mutation of Go data that a constructor or
// accessor saw in an earlier step.
func (h *history) stepPending() {
	if len(h.pending) == 0 {
		return
	}
	i := h.r.Intn(len(h.pending))
	f, d := h.pending[i], h.pendDsc[i]
	h.pending = append(h.pending[:i], h.pending[i+1:]...)
	h.pendDsc = append(h.pendDsc[:i], h.pendDsc[i+1:]...)
	core.Guard(f)
	h.nMut++
	h.c.Count("history:op:delayed-mutation")
	h.check("delayed mutation of Go data", d, nil)
}
