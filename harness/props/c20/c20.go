// Package c20: values and types are immutable and safe to share between goroutines.
package c20

import (
	"verif/harness/core"
)

type Driver struct{}

func (Driver) ID() string { return "C20" }

func (Driver) Info() core.Info {
	return core.Info{
		Title: "values and types are immutable and safe to share between goroutines",
		Rule: "three stages over one catalogue of ~110 operations (operation methods, accessors whose Go result is then mutated, constructors whose Go argument is then mutated, " +
			"refinement builder reuse, walk/transform/paths, conversion, unification, JSON/msgpack, type algebra, 50 stdlib functions, ValueSet copy/algebra): " +
			"(a) histories of 40..200 steps over a live set of <=64 values/types/value sets (catalogue operations, ValueSet Add/Remove/Copy/Union/.../SetValFromValueSet/AsValueSet over collision-rich members, delayed mutation of Go data), " +
			"after every step the hook fingerprint and the public-API fingerprint of every live object are compared with the previous ones; " +
			"(b) every operation repeated 8 times in-process on the same operands (operands: generated values depth<=3 with unknown/null/marked/capsule parts, a same-typed variant of the first operand, twin NFC/NFD keys), results compared by public fingerprint, RawEquals and hook fingerprint; " +
			"(c) in the -race build, G in {2,4,8,16} goroutines run programs over one shared corpus (300 values, 60 types, 18 read-only value sets, global stdlib functions) with goroutine-private value sets; " +
			"every operation is recorded {goroutine, op, operands, call, return, result hash}, compared with a sequential baseline computed beforehand on a twin corpus, and the history is checked with porcupine " +
			"(partition per (object, operation): immutable objects are constants; private value sets follow a set model); race-detector reports become violations. " +
			"distinct = hash of (history text | operation, parameter, result | run, operation tuple); non-trivial = history with >=20 steps that contains both a mutation step and an accessor step | repetition that returned a result rather than a panic | tuple executed more than once in a schedule run",
		Assumptions: []string{
			"documented ownership transfers and read-only contracts are respected, not attacked: the big.Float given to NumberVal, the slice/maps given to Tuple/Object..., the maps/slices returned by AttributeTypes/OptionalAttributes/TupleElementTypes, a Path after it was put into a PathSet, Walk/Transform callback paths after the callback returned",
			"sharing one convert.Conversion closure between goroutines is out of scope (a fresh conversion is obtained for every call)",
			"sibling order of traversal (order of UnmarkDeepWithPaths entries) and the text of errors / panics are left free by the documentation; only the error/panic class is compared",
			"'all interleavings' is decided for the interleavings the Go scheduler produced in the recorded runs; the race detector reports a pair of conflicting accesses whenever both occurred in a run without a happens-before edge, independent of timing",
			"cty.Verif*Fingerprint hooks (build tag verif) dump the internal state faithfully and read-only",
			"numbers of the shared gen.NumberPool are the same Go objects in the shared corpus and in the twin corpus used for the sequential baseline",
		},
		MinNontrivial: 1500,
	}
}

func (Driver) Batches(tier string) int {
	if tier == "thorough" {
		return 64
	}
	return 16
}

func raceBatches(tier string) int {
	if tier == "thorough" {
		return 16
	}
	return 4
}

// IsRaceBatch: the last batches of a tier run in the -race build of the worker.
func (d Driver) IsRaceBatch(tier string, batch int) bool {
	return batch >= d.Batches(tier)-raceBatches(tier)
}

const (
	purityBase   = int64(1_000_000)
	corpusBase   = int64(1_000_000_000)
	scheduleBase = int64(2_000_000_000)
)

func (d Driver) Run(c *core.Ctx) {
	if d.IsRaceBatch(c.Tier, c.Batch) {
		runRaceBatch(c, c.Batch-(d.Batches(c.Tier)-raceBatches(c.Tier)))
		return
	}
	// stage (a)
	nh := int64(c.N(150, 600))
	for i := int64(0); i < nh; i++ {
		if !c.Want(i) {
			continue
		}
		runHistory(c, i, c.RNG(i))
	}
	// stage (b)
	np := int64(c.N(4000, 5000))
	var pool *vpool
	for i := int64(0); i < np; i++ {
		if !c.Want(purityBase + i) {
			continue
		}
		if pool == nil {
			pool = buildPool(c.BatchRNG("purity-pool"), 400, 40, 16)
		}
		purityCase(c, purityBase+i, c.RNG(purityBase+i), pool)
	}
	if c.Batch == 0 {
		runCorpus(c, corpusBase)
	}
}

// runRaceBatch: schedule runs of race batch j (goroutine count by j, bare and
// instrumented runs alternating, the first run of the process is a bare one).
func runRaceBatch(c *core.Ctx, j int) {
	G := []int{2, 4, 8, 16}[j%4]
	runs, n := 3, 2000
	if !c.Quick() {
		runs, n = 4, 8000
	}
	for run := 0; run < runs; run++ {
		idx := scheduleBase + int64(run)
		if !c.Want(idx) {
			continue
		}
		runSchedule(c, idx, c.RNG(idx), schedParams{G: G, N: n, instrumented: run%2 == 1, run: run})
	}
}
