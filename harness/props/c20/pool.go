package c20

import (
	"math/big"
	"sort"

	"github.com/zclconf/go-cty/cty"

	"verif/harness/core"
	"verif/harness/gen"
	"verif/harness/model"
)

// Generators for the objects the three stages work on. Everything is drawn from
// a core.Rand stream; nothing here depends on time or on map iteration order.

var typeOpts = gen.TypeOpts{Dynamic: true, Capsule: true, TwinKeys: true}

func genType(r *core.Rand, depth int) cty.Type {
	return gen.Type(r, depth, typeOpts).Cty()
}

func valueOpts(r *core.Rand) gen.ValueOpts {
	o := gen.ValueOpts{MaxLen: 3, TwinKeys: true, Refined: true}
	switch r.Intn(4) {
	case 0: // wholly known
	case 1:
		o.UnknownPct = 8
		o.NullPct = 5
	default:
		o.UnknownPct = 20
		o.NullPct = 8
	}
	o.SmallNums = r.Chance(2, 3)
	o.LongStr = r.Chance(1, 3)
	return o
}

// genValue draws a value: any type to depth 3 (dynamic, capsule and twin
// attribute names included), unknown / refined unknown / null parts, marks on
// some.
func genValue(r *core.Rand) cty.Value {
	if r.Chance(1, 25) {
		return tieSet(r)
	}
	ty := genType(r, 1+r.Intn(3))
	return genValueOf(r, ty)
}

// tieSet: a set of numbers (bare, or inside a list / object) that holds members which the canonical order cannot
// tell apart although they are different members: one exact value held at two precisions, whose shortest decimal
// texts differ (float64(0.1) at 53 and at 512 bits; float32(0.1) at 24 and at 53 bits). They sit in different hash
// buckets and compare neither less nor greater, so their relative position is decided by whatever order the
// buckets are visited in - which must be the same every time. (The shared generators keep such pairs out of sets
// because of known finding F-47; purity and immutability have to hold for them all the same.)
func tieSet(r *core.Rand) cty.Value {
	fs := []float64{0.1, 0.3, 1e-7, 123.456, 0.7, 2.2, 1.1, 5e-324}
	var ms []cty.Value
	for k, n := 0, 1+r.Intn(3); k < n; k++ {
		f := fs[r.Intn(len(fs))]
		if r.Chance(1, 4) {
			f32 := float64(float32(f))
			ms = append(ms, cty.NumberVal(new(big.Float).SetPrec(24).SetFloat64(f32)), cty.NumberFloatVal(f32))
		} else {
			ms = append(ms, cty.NumberFloatVal(f), cty.NumberFloatVal(f).Add(cty.MustParseNumberVal("0")))
		}
	}
	for k, n := 0, r.Intn(4); k < n; k++ {
		ms = append(ms, cty.NumberIntVal(int64(r.Intn(7)-3)))
	}
	for i := len(ms) - 1; i > 0; i-- {
		j := r.Intn(i + 1)
		ms[i], ms[j] = ms[j], ms[i]
	}
	set := cty.SetVal(ms)
	switch r.Intn(4) {
	case 0:
		return cty.ListVal([]cty.Value{set, cty.SetVal(ms[:1])})
	case 1:
		return cty.ObjectVal(map[string]cty.Value{"a": set, "b": cty.StringVal("x")})
	}
	return set
}

func genValueOf(r *core.Rand, ty cty.Type) cty.Value {
	v := gen.Value(r, ty, valueOpts(r))
	if r.Chance(1, 4) {
		v = gen.MarkSome(r, v, 50, 15)
	}
	return v
}

func sortedKeysV(m map[string]cty.Value) []string {
	ks := make([]string, 0, len(m))
	for k := range m {
		ks = append(ks, k)
	}
	sort.Strings(ks)
	return ks
}

// variant rebuilds v with some parts replaced by other values of the same type
// (known, unknown or null), so that (v, variant(v)) is a pair of equal-typed
// values that agree in some members, differ in others and are undecided in
// others: the input class in which an early exit from a loop over a Go map
// decides a result.
func variant(r *core.Rand, v cty.Value, pct int) cty.Value {
	u, marks := v.Unmark()
	out := variantU(r, u, pct)
	if len(marks) > 0 && r.Chance(2, 3) {
		out = out.WithMarks(marks)
	}
	return out
}

func variantU(r *core.Rand, u cty.Value, pct int) cty.Value {
	ty := u.Type()
	if ty == cty.DynamicPseudoType {
		return u
	}
	if r.Chance(pct, 100) {
		o := gen.ValueOpts{MaxLen: 3, TwinKeys: true, Refined: true, SmallNums: true}
		switch r.Intn(3) {
		case 0:
			return gen.Unknown(r, ty, r.Bool())
		case 1:
			if !ty.HasDynamicTypes() {
				return gen.Value(r, ty, o)
			}
		}
	}
	if !u.IsKnown() || u.IsNull() {
		return u
	}
	switch {
	case ty.IsListType() && u.LengthInt() > 0:
		es := u.AsValueSlice()
		for i := range es {
			es[i] = variant(r, es[i], pct)
		}
		if !cty.CanListVal(es) {
			return u
		}
		return cty.ListVal(es)
	case ty.IsTupleType() && u.LengthInt() > 0:
		es := u.AsValueSlice()
		for i := range es {
			es[i] = variant(r, es[i], pct)
		}
		return cty.TupleVal(es)
	case ty.IsMapType() && u.LengthInt() > 0:
		mm := u.AsValueMap()
		for _, k := range sortedKeysV(mm) {
			mm[k] = variant(r, mm[k], pct)
		}
		if !cty.CanMapVal(mm) {
			return u
		}
		return cty.MapVal(mm)
	case ty.IsObjectType() && u.LengthInt() > 0:
		mm := u.AsValueMap()
		for _, k := range sortedKeysV(mm) {
			mm[k] = variant(r, mm[k], pct)
		}
		return cty.ObjectVal(mm)
	}
	return u
}

// Element types for which collision-rich member pools exist. All unknown
// values hash alike and are never equivalent to anything, plain capsule values
// hash alike and are equal by identity only: such members share one hash bucket,
// which is where bucket slices grow in place.
var memberTypes = []cty.Type{cty.Number, cty.String, model.CapsuleA, cty.List(cty.Number), cty.Object(map[string]cty.Type{"a": cty.Number}), cty.Bool}

func memberPool(r *core.Rand, ety cty.Type) []cty.Value {
	var p []cty.Value
	nUnk := 3 + r.Intn(4)
	switch {
	case ety == cty.Number:
		for i := 0; i < 4; i++ {
			p = append(p, cty.NumberIntVal(int64(i)))
		}
		p = append(p, cty.NumberFloatVal(0.5), cty.NullVal(cty.Number))
		for i := 0; i < nUnk; i++ {
			p = append(p, cty.UnknownVal(cty.Number).Refine().NumberRangeLowerBound(cty.NumberIntVal(int64(i)), true).NewValue())
		}
		p = append(p, cty.UnknownVal(cty.Number))
	case ety == cty.String:
		for _, s := range []string{"", "a", "b", "\u00e9"} {
			p = append(p, cty.StringVal(s))
		}
		p = append(p, cty.NullVal(cty.String))
		for i := 0; i < nUnk; i++ {
			p = append(p, cty.UnknownVal(cty.String).Refine().StringPrefixFull(string(rune('a'+i))).NewValue())
		}
		p = append(p, cty.UnknownVal(cty.String))
	case ety.Equals(model.CapsuleA):
		for i := 0; i < 3+nUnk; i++ {
			p = append(p, model.NewCapA(i%3))
		}
		p = append(p, cty.NullVal(ety))
	case ety == cty.Bool:
		p = append(p, cty.True, cty.False, cty.NullVal(cty.Bool), cty.UnknownVal(cty.Bool), cty.UnknownVal(cty.Bool).RefineNotNull(), cty.UnknownVal(cty.Bool))
	case ety.IsListType():
		p = append(p, cty.ListValEmpty(cty.Number), cty.ListVal([]cty.Value{cty.NumberIntVal(1)}), cty.ListVal([]cty.Value{cty.NumberIntVal(1), cty.NumberIntVal(2)}), cty.NullVal(ety))
		for i := 0; i < nUnk; i++ {
			p = append(p, cty.UnknownVal(ety).Refine().CollectionLengthLowerBound(i).NewValue())
		}
		p = append(p, cty.ListVal([]cty.Value{cty.UnknownVal(cty.Number)}), cty.ListVal([]cty.Value{cty.UnknownVal(cty.Number)}))
	default: // object {a: number}
		for i := 0; i < 3; i++ {
			p = append(p, cty.ObjectVal(map[string]cty.Value{"a": cty.NumberIntVal(int64(i))}))
		}
		p = append(p, cty.NullVal(ety))
		for i := 0; i < nUnk; i++ {
			p = append(p, cty.UnknownVal(ety))
		}
		p = append(p, cty.ObjectVal(map[string]cty.Value{"a": cty.UnknownVal(cty.Number)}))
	}
	return p
}

// genValueSet draws a value set of one of the member types with 0..6 members.
func genValueSet(r *core.Rand) (cty.ValueSet, []cty.Value) {
	ety := memberTypes[r.Intn(len(memberTypes))]
	pool := memberPool(r, ety)
	s := cty.NewValueSet(ety)
	n := r.Intn(7)
	for i := 0; i < n; i++ {
		s.Add(pool[r.Intn(len(pool))])
	}
	return s, pool
}

// key pool for map / object constructors: an NFC and an NFD spelling of the same
// key, two non-normalised spellings of one further key, the empty key.
var conKeys = []string{"a", "b", "\u00e9", "e\u0301", "", "k", "e\u0301\u0323", "e\u0323\u0301"}

var stringsPool = []string{"", "a", "abc", "\u00e9", "e\u0301", "x,y", "hello world", "1", "true"}

func genTypeOpt(r *core.Rand, depth int, o gen.TypeOpts) cty.Type {
	return gen.Type(r, depth, o).Cty()
}
