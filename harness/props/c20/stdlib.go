package c20

import (
	"fmt"
	"strings"

	"github.com/zclconf/go-cty/cty"
	"github.com/zclconf/go-cty/cty/function"
	"github.com/zclconf/go-cty/cty/function/stdlib"
)

// Calls of the global stdlib Function objects (shared by every goroutine in the
// schedule stage). Whether a call succeeds is C11's business; here the outcome
// (value, error or panic class) only has to be the same every time.

type stdFn struct {
	name string
	f    function.Function
	p0   pred
	same bool
	args func(x *opctx) []cty.Value
}

func a1(x *opctx) []cty.Value { return []cty.Value{x.v[0]} }
func a2(x *opctx) []cty.Value { return []cty.Value{x.v[0], x.v[1]} }

func smallInt(x *opctx) cty.Value { return cty.NumberIntVal(int64(x.k % 3)) }

func strKey(x *opctx) cty.Value {
	return cty.StringVal(conKeys[int(x.k%uint64(len(conKeys)))])
}

func isStrList(v cty.Value) bool {
	t := v.Type()
	return (t.IsListType() || t.IsSetType()) && t.ElementType() == cty.String
}

func isListLike(v cty.Value) bool {
	t := v.Type()
	return t.IsListType() || t.IsTupleType() || t.IsSetType()
}

var stdFns = []stdFn{
	{"equal", stdlib.EqualFunc, nil, true, a2},
	{"equal", stdlib.EqualFunc, isKeyed, true, a2},
	{"notequal", stdlib.NotEqualFunc, nil, true, a2},
	{"coalesce", stdlib.CoalesceFunc, nil, true, a2},
	{"concat", stdlib.ConcatFunc, isSeq, true, a2},
	{"length", stdlib.LengthFunc, isIter, false, a1},
	{"lookup", stdlib.LookupFunc, isKeyed, false, func(x *opctx) []cty.Value { return []cty.Value{x.v[0], strKey(x), x.v[1]} }},
	{"merge", stdlib.MergeFunc, isKeyed, true, a2},
	{"merge", stdlib.MergeFunc, isKeyed, false, a2},
	{"keys", stdlib.KeysFunc, isKeyed, false, a1},
	{"values", stdlib.ValuesFunc, isKeyed, false, a1},
	{"setunion", stdlib.SetUnionFunc, isSet, true, a2},
	{"setintersection", stdlib.SetIntersectionFunc, isSet, true, a2},
	{"setsubtract", stdlib.SetSubtractFunc, isSet, true, a2},
	{"setsymmetricdifference", stdlib.SetSymmetricDifferenceFunc, isSet, true, a2},
	{"sethaselement", stdlib.SetHasElementFunc, isSet, false, a2},
	{"setproduct", stdlib.SetProductFunc, isListLike, false, a2},
	{"flatten", stdlib.FlattenFunc, isListLike, false, a1},
	{"sort", stdlib.SortFunc, isStrList, false, a1},
	{"distinct", stdlib.DistinctFunc, isSeq, false, a1},
	{"reverselist", stdlib.ReverseListFunc, isListLike, false, a1},
	{"compact", stdlib.CompactFunc, isStrList, false, a1},
	{"contains", stdlib.ContainsFunc, isListLike, false, a2},
	{"element", stdlib.ElementFunc, isSeq, false, func(x *opctx) []cty.Value { return []cty.Value{x.v[0], smallInt(x)} }},
	{"zipmap", stdlib.ZipmapFunc, isStrList, false, a2},
	{"coalescelist", stdlib.CoalesceListFunc, isSeq, true, a2},
	{"chunklist", stdlib.ChunklistFunc, isSeq, false, func(x *opctx) []cty.Value { return []cty.Value{x.v[0], cty.NumberIntVal(2)} }},
	{"slice", stdlib.SliceFunc, isSeq, false, func(x *opctx) []cty.Value { return []cty.Value{x.v[0], cty.Zero, smallInt(x)} }},
	{"index", stdlib.IndexFunc, isIndex, false, func(x *opctx) []cty.Value { return []cty.Value{x.v[0], indexKey(x)} }},
	{"hasindex", stdlib.HasIndexFunc, isIndex, false, func(x *opctx) []cty.Value { return []cty.Value{x.v[0], indexKey(x)} }},
	{"jsonencode", stdlib.JSONEncodeFunc, nil, false, a1},
	{"format", stdlib.FormatFunc, nil, false, func(x *opctx) []cty.Value { return []cty.Value{fmtSpec(x, "%v|%#v"), x.v[0], x.v[1]} }},
	{"formatlist", stdlib.FormatListFunc, isSeq, false, func(x *opctx) []cty.Value { return []cty.Value{fmtSpec(x, "%v-%v"), x.v[0], x.v[1]} }},
	{"join", stdlib.JoinFunc, isStrList, false, func(x *opctx) []cty.Value { return []cty.Value{cty.StringVal(","), x.v[0]} }},
	{"upper", stdlib.UpperFunc, isStr, false, a1},
	{"title", stdlib.TitleFunc, isStr, false, a1},
	{"strlen", stdlib.StrlenFunc, isStr, false, a1},
	{"reverse", stdlib.ReverseFunc, isStr, false, a1},
	{"substr", stdlib.SubstrFunc, isStr, false, func(x *opctx) []cty.Value { return []cty.Value{x.v[0], cty.Zero, smallInt(x)} }},
	{"split", stdlib.SplitFunc, isStr, false, func(x *opctx) []cty.Value { return []cty.Value{cty.StringVal(","), x.v[0]} }},
	{"replace", stdlib.ReplaceFunc, isStr, true, func(x *opctx) []cty.Value { return []cty.Value{x.v[0], cty.StringVal("a"), x.v[1]} }},
	{"min", stdlib.MinFunc, isNum, true, a2},
	{"max", stdlib.MaxFunc, isNum, true, a2},
	{"add", stdlib.AddFunc, isNum, true, a2},
	{"multiply", stdlib.MultiplyFunc, isNum, true, a2},
	{"divide", stdlib.DivideFunc, isNum, true, a2},
	{"int", stdlib.IntFunc, isNum, false, a1},
	{"ceil", stdlib.CeilFunc, isNum, false, a1},
	{"abs", stdlib.AbsoluteFunc, isNum, false, a1},
	{"signum", stdlib.SignumFunc, isNum, false, a1},
	{"and", stdlib.AndFunc, isBool, true, a2},
	{"not", stdlib.NotFunc, isBool, false, a1},
	// the rest of the standard library (session 4): every global Function object is shared by the goroutines of the
	// schedule stage, whatever it keeps inside (compiled patterns, tables, scratch buffers)
	{"or", stdlib.OrFunc, isBool, true, a2},
	{"subtract", stdlib.SubtractFunc, isNum, true, a2},
	{"modulo", stdlib.ModuloFunc, isNum, true, a2},
	{"negate", stdlib.NegateFunc, isNum, false, a1},
	{"floor", stdlib.FloorFunc, isNum, false, a1},
	{"log", stdlib.LogFunc, isNum, true, a2},
	{"pow", stdlib.PowFunc, isNum, false, func(x *opctx) []cty.Value { return []cty.Value{x.v[0], smallInt(x)} }},
	{"lessthan", stdlib.LessThanFunc, isNum, true, a2},
	{"lessthanorequalto", stdlib.LessThanOrEqualToFunc, isNum, true, a2},
	{"greaterthan", stdlib.GreaterThanFunc, isNum, true, a2},
	{"greaterthanorequalto", stdlib.GreaterThanOrEqualToFunc, isNum, true, a2},
	{"range", stdlib.RangeFunc, isNum, false, func(x *opctx) []cty.Value { return []cty.Value{smallInt(x), cty.NumberIntVal(int64(3 + x.k%5))} }},
	{"parseint", stdlib.ParseIntFunc, nil, false, func(x *opctx) []cty.Value {
		return []cty.Value{cty.StringVal(parseIntTexts[int(x.k%uint64(len(parseIntTexts)))]), cty.NumberIntVal(int64(2 + x.k%35))}
	}},
	{"lower", stdlib.LowerFunc, isStr, false, a1},
	{"chomp", stdlib.ChompFunc, isStr, false, a1},
	{"trimspace", stdlib.TrimSpaceFunc, isStr, false, a1},
	{"trim", stdlib.TrimFunc, isStr, true, a2},
	{"trimprefix", stdlib.TrimPrefixFunc, isStr, true, a2},
	{"trimsuffix", stdlib.TrimSuffixFunc, isStr, true, a2},
	{"indent", stdlib.IndentFunc, isStr, false, func(x *opctx) []cty.Value { return []cty.Value{smallInt(x), x.v[0]} }},
	{"regex", stdlib.RegexFunc, isStr, false, func(x *opctx) []cty.Value { return []cty.Value{rePattern(x), x.v[0]} }},
	{"regexall", stdlib.RegexAllFunc, isStr, false, func(x *opctx) []cty.Value { return []cty.Value{rePattern(x), x.v[0]} }},
	{"regexreplace", stdlib.RegexReplaceFunc, isStr, true, func(x *opctx) []cty.Value { return []cty.Value{x.v[0], rePattern(x), x.v[1]} }},
	{"jsondecode", stdlib.JSONDecodeFunc, nil, false, func(x *opctx) []cty.Value {
		// the JSON text of a shared value (or, for values JSON cannot carry, a fixed document)
		if r, err := stdlib.JSONEncodeFunc.Call([]cty.Value{deepUnmark(x.v[0])}); err == nil && r.IsKnown() {
			return []cty.Value{r}
		}
		return []cty.Value{cty.StringVal(jsonDocs[int(x.k%uint64(len(jsonDocs)))])}
	}},
	{"csvdecode", stdlib.CSVDecodeFunc, nil, false, func(x *opctx) []cty.Value { return []cty.Value{cty.StringVal(csvDocs[int(x.k%uint64(len(csvDocs)))])} }},
	{"formatdate", stdlib.FormatDateFunc, nil, false, func(x *opctx) []cty.Value {
		return []cty.Value{cty.StringVal(dateFormats[int(x.k%uint64(len(dateFormats)))]), cty.StringVal(timestamps[int((x.k/7)%uint64(len(timestamps)))])}
	}},
	{"timeadd", stdlib.TimeAddFunc, nil, false, func(x *opctx) []cty.Value {
		return []cty.Value{cty.StringVal(timestamps[int(x.k%uint64(len(timestamps)))]), cty.StringVal(durations[int((x.k/5)%uint64(len(durations)))])}
	}},
	{"assertnotnull", stdlib.AssertNotNullFunc, nil, false, a1},
	{"byteslen", stdlib.BytesLenFunc, nil, false, func(x *opctx) []cty.Value {
		return []cty.Value{stdlib.BytesVal([]byte(conKeys[int(x.k%uint64(len(conKeys)))]))}
	}},
	{"bytesslice", stdlib.BytesSliceFunc, nil, false, func(x *opctx) []cty.Value {
		return []cty.Value{stdlib.BytesVal([]byte("shared bytes " + conKeys[int(x.k%uint64(len(conKeys)))])), cty.Zero, smallInt(x)}
	}},
	{"tostring", toFns[0], nil, false, a1},
	{"tonumber", toFns[1], nil, false, a1},
	{"tolist(string)", toFns[2], nil, false, a1},
	{"toset(dynamic)", toFns[3], nil, false, a1},
	{"tomap(string)", toFns[4], nil, false, a1},
}

// conversion functions made once and shared, like an application's function table
var toFns = []function.Function{
	stdlib.MakeToFunc(cty.String), stdlib.MakeToFunc(cty.Number), stdlib.MakeToFunc(cty.List(cty.String)),
	stdlib.MakeToFunc(cty.Set(cty.DynamicPseudoType)), stdlib.MakeToFunc(cty.Map(cty.String)),
}

var parseIntTexts = []string{"0", "-17", "zz", "777", "1010", "ff", "-ff", "12345678901234567890123", "9", "Z9", ""}
var rePatterns = []string{"a+", "(?P<x>[a-z])(\\d*)", "^.", "é|e\u0301", "[[:upper:]]+", "(a)|(b)", "\\s*", "(", "x{2,3}", "(?i)k+"}
var jsonDocs = []string{`{"a":[1,2,{"b":null}],"é":true}`, `[1,"x",[]]`, `"s"`, `1e3`, `{"a":1,"a":2}`, `[`, `null`}
var csvDocs = []string{"a,b\n1,2\n3,4\n", "x\n", "a,a\n1,2\n", "a,b\n1\n", "\"q,1\",b\n\"x\"\"y\",z\n", ""}
var dateFormats = []string{"YYYY-MM-DD'T'hh:mm:ssZ", "EEEE, DD-MMM-YY hh:mm:ss ZZZ", "h:mm aa 'on' D MMMM YYYY", "'unterminated", "M/D/YY HH AA ZZZZZ", ""}
var timestamps = []string{"2006-01-02T15:04:05Z", "2020-02-29T23:59:59.75+05:30", "1999-12-31T00:00:00-11:00", "2006-01-02", "2038-01-19T03:14:08Z"}
var durations = []string{"1h", "-90m", "1.5s", "36h10m0.25s", "bogus", "2562047h"}

// rePattern: ten fixed patterns and, half of the time, one of 400 generated ones, so that anything keyed by the
// pattern text keeps meeting new keys while the goroutines run.
func rePattern(x *opctx) cty.Value {
	if (x.k>>20)&1 == 1 {
		return cty.StringVal(fmt.Sprintf("[a-k]{%d}|e+%d?", (x.k>>8)%20, (x.k>>13)%20))
	}
	return cty.StringVal(rePatterns[int(x.k%uint64(len(rePatterns)))])
}

func fmtSpec(x *opctx, base string) cty.Value {
	if (x.k>>21)&1 == 1 {
		return cty.StringVal(fmt.Sprintf("%s %d%%%%", base, (x.k>>9)%300))
	}
	return cty.StringVal(base)
}

func paramsFP(f function.Function) string {
	var sb strings.Builder
	fmt.Fprintf(&sb, "%q", f.Description())
	for _, p := range f.Params() {
		fmt.Fprintf(&sb, "|%s %q %s %t %t %t %t", p.Name, p.Description, typeFP(p.Type), p.AllowNull, p.AllowUnknown, p.AllowDynamicType, p.AllowMarked)
	}
	if vp := f.VarParam(); vp != nil {
		fmt.Fprintf(&sb, "|...%s %q %s", vp.Name, vp.Description, typeFP(vp.Type))
	}
	return sb.String()
}

func stdlibOps() []opDef {
	var out []opDef
	// the shared Function object itself: accessor results are mutated, a re-described copy is made
	out = append(out, opDef{name: "Function.Params", need: "v", run: func(x *opctx) outcome {
		var o outcome
		f := stdFns[int(x.k%uint64(len(stdFns)))].f
		first := paramsFP(f)
		o.addf("%s", first)
		ps := f.Params()
		vp := f.VarParam()
		for i := range ps {
			ps[i].Name, ps[i].Description, ps[i].Type, ps[i].AllowNull = "mutated", "mutated", cty.Bool, !ps[i].AllowNull
		}
		if vp != nil {
			vp.Name, vp.Type = "mutated", cty.Bool
		}
		descs := make([]string, len(ps))
		for i := range descs {
			descs[i] = "other description"
		}
		g := f.WithNewDescriptions("other", descs)
		o.addf("%s", paramsFP(g))
		if again := paramsFP(f); again != first {
			x.fail("Function.Params", "mutating the returned parameter descriptions (or re-describing a copy) changed what the function reports", "", firstDiff(first, again))
		}
		return o
	}})
	for _, sf := range stdFns {
		sf := sf
		out = append(out, opDef{name: "stdlib." + sf.name, need: "vv", p0: sf.p0, same: sf.same, run: func(x *opctx) outcome {
			var o outcome
			args := sf.args(x)
			rt, terr := sf.f.ReturnTypeForValues(args)
			o.addf("%s", errText(terr))
			if terr == nil {
				o.tys = append(o.tys, rt)
			}
			r, err := sf.f.Call(args)
			o.addf("%s", errText(err))
			if err == nil {
				o.vals = append(o.vals, r)
			}
			return o
		}})
	}
	return out
}
