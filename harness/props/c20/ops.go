package c20

import (
	"encoding/hex"
	"fmt"
	"sort"
	"strings"

	"github.com/zclconf/go-cty/cty"
	"github.com/zclconf/go-cty/cty/convert"
	ctyjson "github.com/zclconf/go-cty/cty/json"
	"github.com/zclconf/go-cty/cty/msgpack"

	"verif/harness/core"
	"verif/harness/gen"
)

// The operation catalogue shared by the three stages. An operation is a
// deterministic function of its operands (two values, two types, two value sets
// that it must treat as read-only, a small integer parameter). It never draws
// randomness and never keeps state, so that repeating it is meaningful (purity
// stage) and so that several goroutines may execute it on shared operands
// (schedule stage). Operations that receive Go data from an accessor mutate
// that data; operations that hand Go data to a constructor mutate it afterwards;
// both check on the spot that no library object changed (x.unchanged).

type failure struct{ site, facet, class, detail string }

type opctx struct {
	v     [2]cty.Value
	t     [2]cty.Type
	s     [2]cty.ValueSet
	k     uint64
	ptr   bool   // fingerprints include capsule pointer identity
	class string // narrow input class, set by an operation that recognises one
	fails []failure
	later []func() // pending mutations of Go data that a constructor / accessor has seen
}

func (x *opctx) fail(site, facet, class, detail string) {
	if len(x.fails) < 8 {
		x.fails = append(x.fails, failure{site, facet, class, detail})
	}
}

type outcome struct {
	text string
	vals []cty.Value
	tys  []cty.Type
	sets []cty.ValueSet
}

func (o *outcome) addf(format string, a ...any) { o.text += fmt.Sprintf(format, a...) + ";" }

func (o outcome) pubFP(ptr bool) string {
	var sb strings.Builder
	sb.WriteString(o.text)
	for _, v := range o.vals {
		sb.WriteString("|V:")
		sb.WriteString(valFP(v, ptr))
	}
	for _, t := range o.tys {
		sb.WriteString("|T:")
		sb.WriteString(typeFP(t))
	}
	for _, s := range o.sets {
		sb.WriteString("|S:")
		sb.WriteString(setFP(s, ptr))
	}
	return sb.String()
}

func (o outcome) hookFP() string {
	var sb strings.Builder
	for _, v := range o.vals {
		sb.WriteString("|V:")
		sb.WriteString(hookValFP(v))
	}
	for _, t := range o.tys {
		sb.WriteString("|T:")
		sb.WriteString(hookTypeFP(t))
	}
	for _, s := range o.sets {
		sb.WriteString("|S:")
		sb.WriteString(hookSetFP(s))
	}
	return sb.String()
}

// unchanged runs mutate and reports a failure if any watched library object
// reports something else, or has another internal state, afterwards.
func (x *opctx) unchanged(site, what string, vals []cty.Value, sets []cty.ValueSet, mutate func()) {
	pb := make([]string, 0, len(vals)+len(sets))
	hb := make([]string, 0, len(vals)+len(sets))
	for _, v := range vals {
		pb = append(pb, valFP(v, true))
		hb = append(hb, hookValFP(v))
	}
	for _, s := range sets {
		pb = append(pb, setFP(s, true))
		hb = append(hb, hookSetFP(s))
	}
	mutate()
	i := 0
	chk := func(pa, ha string) {
		if pa != pb[i] {
			x.fail(site, "mutating "+what+" changed what an existing value reports", "", firstDiff(pb[i], pa))
		} else if ha != hb[i] {
			x.fail(site, "mutating "+what+" changed the internal state of an existing value", "", firstDiff(hb[i], ha))
		}
		i++
	}
	for _, v := range vals {
		chk(valFP(v, true), hookValFP(v))
	}
	for _, s := range sets {
		chk(setFP(s, true), hookSetFP(s))
	}
}

type pred func(cty.Value) bool

func tyOf(v cty.Value) cty.Type { return v.Type() }

func isNum(v cty.Value) bool  { return tyOf(v) == cty.Number }
func isBool(v cty.Value) bool { return tyOf(v) == cty.Bool }
func isStr(v cty.Value) bool  { return tyOf(v) == cty.String }
func isSeq(v cty.Value) bool  { t := tyOf(v); return t.IsListType() || t.IsTupleType() }
func isKeyed(v cty.Value) bool {
	t := tyOf(v)
	return t.IsMapType() || t.IsObjectType()
}
func isSet(v cty.Value) bool  { return tyOf(v).IsSetType() }
func isObj(v cty.Value) bool  { return tyOf(v).IsObjectType() && len(tyOf(v).AttributeTypes()) > 0 }
func isColl(v cty.Value) bool { return tyOf(v).IsCollectionType() }
func isIter(v cty.Value) bool {
	t := tyOf(v)
	return t.IsCollectionType() || t.IsTupleType() || t.IsObjectType()
}
func isIndex(v cty.Value) bool {
	t := tyOf(v)
	return t.IsListType() || t.IsTupleType() || t.IsMapType()
}
func isMarked(v cty.Value) bool { return v.ContainsMarked() }
func isUnk(v cty.Value) bool    { return !v.IsKnown() && tyOf(v) != cty.DynamicPseudoType }
func hasUnk(v cty.Value) bool   { return !v.IsWhollyKnown() }

func knownNN(p pred) pred {
	return func(v cty.Value) bool {
		if !p(v) {
			return false
		}
		u, _ := v.Unmark()
		return u.IsKnown() && !u.IsNull()
	}
}

type opDef struct {
	name string // API entry point; used as the violation site
	need string // operand kinds: v, vv, vt, vvt, t, tt, s, ss
	p0   pred   // preference for the first value operand (nil: any)
	same bool   // the second value operand should have the type of the first
	run  func(x *opctx) outcome
}

func un(name string, p pred, f func(cty.Value) cty.Value) opDef {
	return opDef{name: name, need: "v", p0: p, run: func(x *opctx) outcome { return outcome{vals: []cty.Value{f(x.v[0])}} }}
}

func bin(name string, p pred, same bool, f func(a, b cty.Value) cty.Value) opDef {
	return opDef{name: name, need: "vv", p0: p, same: same, run: func(x *opctx) outcome { return outcome{vals: []cty.Value{f(x.v[0], x.v[1])}} }}
}

type injected string // a mark type of the harness, used when mutating mark sets

func deepUnmark(v cty.Value) cty.Value { u, _ := v.UnmarkDeep(); return u }

// walkPaths lists (copies of) the paths of v in Walk order.
func walkPaths(v cty.Value) []cty.Path {
	var ps []cty.Path
	cty.Walk(v, func(p cty.Path, _ cty.Value) (bool, error) {
		ps = append(ps, p.Copy())
		return true, nil
	})
	return ps
}

func errText(err error) string {
	if err == nil {
		return "ok"
	}
	// Which of several offending parts an error names is left free by the
	// documentation (sibling order), so only the fact is compared.
	return "err"
}

func sameTypeElems(x *opctx) []cty.Value {
	es := []cty.Value{x.v[0]}
	if x.v[1].Type().Equals(x.v[0].Type()) {
		es = append(es, x.v[1])
		if x.k&1 == 1 {
			es = append(es, x.v[0])
		}
	}
	return es
}

var ops []opDef

func init() {
	ops = []opDef{
		// ---- plain operation methods
		bin("Value.Equals", nil, true, cty.Value.Equals),
		bin("Value.Equals", hasUnk, true, cty.Value.Equals),
		bin("Value.Equals", isKeyed, true, cty.Value.Equals),
		bin("Value.NotEqual", nil, true, cty.Value.NotEqual),
		{name: "Value.RawEquals", need: "vv", same: true, run: func(x *opctx) outcome {
			var o outcome
			o.addf("%t", x.v[0].RawEquals(x.v[1]))
			return o
		}},
		bin("Value.Add", isNum, true, cty.Value.Add),
		bin("Value.Subtract", isNum, true, cty.Value.Subtract),
		bin("Value.Multiply", isNum, true, cty.Value.Multiply),
		bin("Value.Divide", isNum, true, cty.Value.Divide),
		bin("Value.Modulo", isNum, true, cty.Value.Modulo),
		bin("Value.LessThan", isNum, true, cty.Value.LessThan),
		bin("Value.GreaterThan", isNum, true, cty.Value.GreaterThan),
		bin("Value.LessThanOrEqualTo", isNum, true, cty.Value.LessThanOrEqualTo),
		bin("Value.GreaterThanOrEqualTo", isNum, true, cty.Value.GreaterThanOrEqualTo),
		bin("Value.And", isBool, true, cty.Value.And),
		bin("Value.Or", isBool, true, cty.Value.Or),
		un("Value.Negate", isNum, cty.Value.Negate),
		un("Value.Absolute", isNum, cty.Value.Absolute),
		un("Value.Not", isBool, cty.Value.Not),
		un("Value.Length", isColl, cty.Value.Length),
		un("Value.RefineNotNull", isUnk, cty.Value.RefineNotNull),
		un("cty.UnknownAsNull", hasUnk, cty.UnknownAsNull),
		{name: "Value.Index", need: "vv", p0: isIndex, run: func(x *opctx) outcome {
			return outcome{vals: []cty.Value{x.v[0].Index(indexKey(x))}}
		}},
		{name: "Value.HasIndex", need: "vv", p0: isIndex, run: func(x *opctx) outcome {
			return outcome{vals: []cty.Value{x.v[0].HasIndex(indexKey(x))}}
		}},
		{name: "Value.GetAttr", need: "v", p0: isObj, run: func(x *opctx) outcome {
			names := attrNames(x.v[0].Type())
			return outcome{vals: []cty.Value{x.v[0].GetAttr(names[int(x.k%uint64(len(names)))])}}
		}},
		{name: "Value.HasElement", need: "vv", p0: isSet, run: func(x *opctx) outcome {
			e := x.v[1]
			u := deepUnmark(x.v[0])
			if x.k&1 == 0 && u.IsKnown() && !u.IsNull() && u.LengthInt() > 0 {
				es := u.AsValueSlice()
				e = es[int((x.k>>1)%uint64(len(es)))]
			}
			return outcome{vals: []cty.Value{x.v[0].HasElement(e)}}
		}},
		{name: "Value.Hash", need: "v", run: func(x *opctx) outcome {
			var o outcome
			o.addf("%d", deepUnmark(x.v[0]).Hash())
			return o
		}},
		{name: "Value.GoString", need: "v", run: func(x *opctx) outcome {
			var o outcome
			if x.ptr || !hasCapsule(x.v[0].Type()) {
				o.addf("%s", x.v[0].GoString())
			}
			return o
		}},
		{name: "Value.Type", need: "v", run: func(x *opctx) outcome { return outcome{tys: []cty.Type{x.v[0].Type()}} }},
		{name: "Value.predicates", need: "v", run: func(x *opctx) outcome {
			v := x.v[0]
			var o outcome
			o.addf("known=%t null=%t wholly=%t whollyT=%t marked=%t contains=%t iter=%t", v.IsKnown(), v.IsNull(), v.IsWhollyKnown(), v.HasWhollyKnownType(), v.IsMarked(), v.ContainsMarked(), v.CanIterateElements())
			o.addf("samemarks=%t hasmark=%t", v.HasSameMarks(x.v[1]), v.HasMark(gen.Marks[int(x.k%3)]))
			return o
		}},
		{name: "Value.Range", need: "vv", p0: isUnk, run: func(x *opctx) outcome {
			var o outcome
			u, _ := x.v[0].Unmark()
			rng := u.Range()
			o.addf("nn=%t cbn=%t", rng.DefinitelyNotNull(), rng.CouldBeNull())
			o.tys = append(o.tys, rng.TypeConstraint())
			switch ty := u.Type(); {
			case ty == cty.Number:
				lo, li := rng.NumberLowerBound()
				hi, hiI := rng.NumberUpperBound()
				o.addf("%t %t", li, hiI)
				o.vals = append(o.vals, lo, hi)
			case ty == cty.String:
				o.addf("%q", rng.StringPrefix())
			case ty.IsCollectionType():
				o.addf("%d..%d", rng.LengthLowerBound(), rng.LengthUpperBound())
			}
			o.vals = append(o.vals, rng.Includes(x.v[1]))
			return o
		}},

		// ---- accessors whose result is then mutated
		{name: "Value.AsBigFloat", need: "v", p0: knownNN(isNum), run: func(x *opctx) outcome {
			var o outcome
			u, _ := x.v[0].Unmark()
			f := u.AsBigFloat()
			o.addf("%s", bigFP(f))
			x.unchanged("Value.AsBigFloat", "the returned big.Float", []cty.Value{x.v[0], u}, nil, func() {
				f.Neg(f)
				f.SetPrec(9)
				f.SetInt64(424242)
			})
			o.addf("%s", bigFP(u.AsBigFloat()))
			return o
		}},
		{name: "Value.AsString", need: "v", p0: knownNN(isStr), run: func(x *opctx) outcome {
			var o outcome
			u, _ := x.v[0].Unmark()
			o.addf("%q", u.AsString())
			return o
		}},
		{name: "Value.AsValueSlice", need: "v", p0: knownNN(isIter), run: func(x *opctx) outcome {
			var o outcome
			u, _ := x.v[0].Unmark()
			s := u.AsValueSlice()
			o.addf("n=%d", len(s))
			o.vals = append(o.vals, s...)
			x.unchanged("Value.AsValueSlice", "the returned slice", []cty.Value{x.v[0]}, nil, func() {
				for i := range s {
					s[i] = cty.StringVal("mutated")
				}
				s = append(s, cty.True)
			})
			o.vals = append(o.vals, u.AsValueSlice()...)
			return o
		}},
		{name: "Value.AsValueMap", need: "v", p0: knownNN(isKeyed), run: func(x *opctx) outcome {
			var o outcome
			u, _ := x.v[0].Unmark()
			m := u.AsValueMap()
			for _, k := range sortedKeysV(m) {
				o.addf("%q", k)
				o.vals = append(o.vals, m[k])
			}
			x.unchanged("Value.AsValueMap", "the returned map", []cty.Value{x.v[0]}, nil, func() {
				for k := range m {
					delete(m, k)
				}
				if m != nil {
					m["zz"] = cty.True
				}
			})
			m2 := u.AsValueMap()
			for _, k := range sortedKeysV(m2) {
				o.addf("%q", k)
				o.vals = append(o.vals, m2[k])
			}
			return o
		}},
		{name: "Value.AsValueSet", need: "v", p0: knownNN(isColl), run: func(x *opctx) outcome {
			var o outcome
			u, _ := x.v[0].Unmark()
			vs := u.AsValueSet()
			o.addf("%s", setFP(vs, x.ptr))
			x.unchanged("Value.AsValueSet", "the returned value set", []cty.Value{x.v[0]}, nil, func() {
				vs.Add(cty.UnknownVal(vs.ElementType()))
				vs.Add(cty.UnknownVal(vs.ElementType()))
				for _, m := range vs.Values() {
					if x.k&1 == 0 {
						vs.Remove(m)
					}
					break
				}
				vs.Add(cty.NullVal(vs.ElementType()))
			})
			o.sets = append(o.sets, vs, u.AsValueSet())
			return o
		}},
		{name: "Value.AsValueSet", need: "v", p0: knownNN(isSet), run: func(x *opctx) outcome {
			var o outcome
			u, _ := x.v[0].Unmark()
			vs := u.AsValueSet()
			o.addf("%s", setFP(vs, x.ptr))
			x.unchanged("Value.AsValueSet", "the returned value set", []cty.Value{x.v[0]}, nil, func() {
				vs.Add(cty.UnknownVal(vs.ElementType()))
				vs.Add(cty.UnknownVal(vs.ElementType()))
				for _, m := range vs.Values() {
					if x.k&1 == 0 {
						vs.Remove(m)
					}
					break
				}
				vs.Add(cty.NullVal(vs.ElementType()))
			})
			o.sets = append(o.sets, vs, u.AsValueSet())
			return o
		}},
		{name: "Value.Marks", need: "v", p0: isMarked, run: func(x *opctx) outcome {
			var o outcome
			m := x.v[0].Marks()
			o.addf("%s", marksFP(m))
			x.unchanged("Value.Marks", "the returned mark set", []cty.Value{x.v[0]}, nil, func() {
				for k := range m {
					delete(m, k)
				}
				if m != nil {
					m[injected("x")] = struct{}{}
				}
			})
			o.addf("%s", marksFP(x.v[0].Marks()))
			return o
		}},
		{name: "Value.Unmark", need: "v", p0: isMarked, run: func(x *opctx) outcome {
			var o outcome
			u, m := x.v[0].Unmark()
			o.addf("%s", marksFP(m))
			o.vals = append(o.vals, u)
			x.unchanged("Value.Unmark", "the returned mark set", []cty.Value{x.v[0], u}, nil, func() {
				for k := range m {
					delete(m, k)
				}
				if m != nil {
					m[injected("x")] = struct{}{}
				}
			})
			return o
		}},
		{name: "Value.UnmarkDeep", need: "v", p0: isMarked, run: func(x *opctx) outcome {
			var o outcome
			u, m := x.v[0].UnmarkDeep()
			o.addf("%s", marksFP(m))
			o.vals = append(o.vals, u)
			x.unchanged("Value.UnmarkDeep", "the returned mark set", []cty.Value{x.v[0], u}, nil, func() {
				for k := range m {
					delete(m, k)
				}
				m[injected("x")] = struct{}{}
			})
			return o
		}},
		{name: "Value.UnmarkDeepWithPaths", need: "v", p0: isMarked, run: func(x *opctx) outcome {
			var o outcome
			u, pvm := x.v[0].UnmarkDeepWithPaths()
			first := pvmFP(pvm)
			o.addf("%s", first)
			o.vals = append(o.vals, u)
			x.unchanged("Value.UnmarkDeepWithPaths", "the returned paths and mark sets", []cty.Value{x.v[0], u}, nil, func() {
				for i := range pvm {
					for k := range pvm[i].Marks {
						delete(pvm[i].Marks, k)
					}
					pvm[i].Marks[injected("x")] = struct{}{}
					for j := range pvm[i].Path {
						pvm[i].Path[j] = cty.GetAttrStep{Name: "mutated"}
					}
					pvm[i].Path = append(pvm[i].Path, cty.GetAttrStep{Name: "appended"})
				}
			})
			_, pvm2 := x.v[0].UnmarkDeepWithPaths()
			if again := pvmFP(pvm2); again != first {
				x.fail("Value.UnmarkDeepWithPaths", "mutating the returned paths and mark sets changed a later result", "", firstDiff(first, again))
			}
			// re-applying the recorded marks gives back the value
			o.vals = append(o.vals, u.MarkWithPaths(pvm2))
			return o
		}},
		{name: "Value.ElementIterator", need: "v", p0: knownNN(isIter), run: func(x *opctx) outcome {
			var o outcome
			u, _ := x.v[0].Unmark()
			for it := u.ElementIterator(); it.Next(); {
				k, e := it.Element()
				o.vals = append(o.vals, k, e)
			}
			n := 0
			u.ForEachElement(func(k, e cty.Value) bool { n++; return false })
			o.addf("n=%d", n)
			return o
		}},
		{name: "ValueSet.Values", need: "s", run: func(x *opctx) outcome {
			var o outcome
			vals := x.s[0].Values()
			o.addf("n=%d len=%d", len(vals), x.s[0].Length())
			o.vals = append(o.vals, vals...)
			x.unchanged("ValueSet.Values", "the returned slice", nil, []cty.ValueSet{x.s[0]}, func() {
				for i := range vals {
					vals[i] = cty.StringVal("mutated")
				}
				vals = append(vals, cty.True)
			})
			return o
		}},
		{name: "PathSet.List", need: "v", p0: isIter, run: func(x *opctx) outcome {
			var o outcome
			paths := walkPaths(x.v[0])
			if len(paths) > 12 {
				paths = paths[:12]
			}
			ps := cty.NewPathSet(paths...)
			l := ps.List()
			first := pathsFP(l)
			o.addf("%s", first)
			for i := range l {
				l[i] = cty.GetAttrPath("mutated")
			}
			l = append(l, nil)
			if again := pathsFP(ps.List()); again != first {
				x.fail("PathSet.List", "mutating the returned slice changed what the path set reports", "", firstDiff(first, again))
			}
			if len(paths) > 0 {
				o.addf("has=%t", ps.Has(paths[int(x.k%uint64(len(paths)))]))
			}
			return o
		}},

		// ---- constructors whose Go argument is mutated afterwards
		{name: "cty.ListVal", need: "vv", same: true, run: func(x *opctx) outcome {
			arg := sameTypeElems(x)
			out := cty.ListVal(arg)
			x.mutateSliceArg("cty.ListVal", arg, out)
			return outcome{vals: []cty.Value{out}}
		}},
		{name: "cty.SetVal", need: "vv", same: true, run: func(x *opctx) outcome {
			arg := sameTypeElems(x)
			out := cty.SetVal(arg)
			x.mutateSliceArg("cty.SetVal", arg, out)
			return outcome{vals: []cty.Value{out}}
		}},
		{name: "cty.TupleVal", need: "vv", run: func(x *opctx) outcome {
			arg := []cty.Value{x.v[0], x.v[1], x.v[0]}[:int(x.k%4)]
			out := cty.TupleVal(arg)
			x.mutateSliceArg("cty.TupleVal", arg, out)
			return outcome{vals: []cty.Value{out}}
		}},
		{name: "cty.MapVal", need: "vv", same: true, run: func(x *opctx) outcome {
			arg := keyedArg(x, x.v[1].Type().Equals(x.v[0].Type()))
			out := cty.MapVal(arg)
			x.mutateMapArg("cty.MapVal", arg, out)
			return outcome{vals: []cty.Value{out}}
		}},
		{name: "cty.ObjectVal", need: "vv", run: func(x *opctx) outcome {
			arg := keyedArg(x, true)
			out := cty.ObjectVal(arg)
			x.mutateMapArg("cty.ObjectVal", arg, out)
			return outcome{vals: []cty.Value{out}}
		}},
		{name: "Value.WithMarks", need: "v", run: func(x *opctx) outcome {
			m := cty.NewValueMarks(gen.Marks[int(x.k%3)])
			if x.k&4 != 0 {
				m[gen.Marks[int((x.k>>3)%3)]] = struct{}{}
			}
			out := x.v[0].WithMarks(m)
			x.unchanged("Value.WithMarks", "the mark set passed to the constructor", []cty.Value{out, x.v[0]}, nil, func() {
				for k := range m {
					delete(m, k)
				}
				m[injected("x")] = struct{}{}
			})
			return outcome{vals: []cty.Value{out, x.v[0].Mark(gen.Marks[int(x.k%3)]), out.WithSameMarks(x.v[0])}}
		}},
		{name: "Value.MarkWithPaths", need: "v", p0: isIter, run: func(x *opctx) outcome {
			paths := walkPaths(x.v[0])
			var pvm []cty.PathValueMarks
			for i, p := range paths {
				if (x.k>>uint(i%60))&1 == 1 && len(pvm) < 4 {
					pvm = append(pvm, cty.PathValueMarks{Path: p, Marks: cty.NewValueMarks(gen.Marks[i%3])})
				}
			}
			out := x.v[0].MarkWithPaths(pvm)
			x.unchanged("Value.MarkWithPaths", "the paths and mark sets passed in", []cty.Value{out, x.v[0]}, nil, func() {
				for i := range pvm {
					for k := range pvm[i].Marks {
						delete(pvm[i].Marks, k)
					}
					pvm[i].Marks[injected("x")] = struct{}{}
					for j := range pvm[i].Path {
						pvm[i].Path[j] = cty.GetAttrStep{Name: "mutated"}
					}
				}
			})
			return outcome{vals: []cty.Value{out}}
		}},
		{name: "cty.SetValFromValueSet", need: "vv", same: true, run: func(x *opctx) outcome {
			e0 := deepUnmark(x.v[0])
			ety := e0.Type()
			vs := cty.NewValueSet(ety)
			vs.Add(e0)
			if e1 := deepUnmark(x.v[1]); e1.Type().Equals(ety) {
				vs.Add(e1)
			}
			for i := 0; i < int(x.k%4); i++ {
				vs.Add(cty.UnknownVal(ety))
			}
			out := cty.SetValFromValueSet(vs)
			x.unchanged("cty.SetValFromValueSet", "the value set passed to the constructor", []cty.Value{out}, nil, func() {
				vs.Add(cty.UnknownVal(ety))
				vs.Remove(e0)
				vs.Add(cty.NullVal(ety))
			})
			x.later = append(x.later, func() { vs.Add(cty.UnknownVal(ety)); vs.Remove(cty.NullVal(ety)) })
			return outcome{vals: []cty.Value{out}} // vs stays harness-private: the delayed mutation owns it
		}},
		{name: "ValueSet.Copy", need: "s", run: func(x *opctx) outcome {
			// copies of one (read-only) set are private to whoever made them
			ety := x.s[0].ElementType()
			c1 := x.s[0].Copy()
			c2 := x.s[0].Copy()
			val := cty.SetValFromValueSet(c1)
			x.unchanged("ValueSet.Copy", "a copy of a value set", []cty.Value{val}, []cty.ValueSet{x.s[0], c2}, func() {
				c1.Add(cty.UnknownVal(ety))
				c1.Add(cty.NullVal(ety))
			})
			val1 := cty.SetValFromValueSet(c1)
			x.unchanged("ValueSet.Copy", "another copy of the same value set", []cty.Value{val, val1}, []cty.ValueSet{x.s[0], c1}, func() {
				c2.Add(cty.UnknownVal(ety))
				for _, m := range c2.Values() {
					c2.Remove(m)
					break
				}
				c2.Add(cty.UnknownVal(ety))
			})
			return outcome{vals: []cty.Value{val, val1}, sets: []cty.ValueSet{c1, c2}}
		}},
		{name: "ValueSet.algebra", need: "ss", run: func(x *opctx) outcome {
			var o outcome
			a, b := x.s[0], x.s[1]
			if !a.ElementType().Equals(b.ElementType()) {
				b = a
			}
			o.sets = append(o.sets, a.Union(b), a.Intersection(b), a.Subtract(b), a.SymmetricDifference(b))
			vals := b.Values()
			if len(vals) > 0 {
				o.addf("has=%t", a.Has(vals[int(x.k%uint64(len(vals)))]))
			}
			o.addf("len=%d", a.Length())
			u := o.sets[0]
			x.unchanged("ValueSet.Union", "the result of Union", nil, []cty.ValueSet{a, b}, func() {
				u.Add(cty.UnknownVal(u.ElementType()))
				for _, m := range u.Values() {
					u.Remove(m)
					break
				}
			})
			return o
		}},

		// ---- refinement builder
		{name: "Value.Refine", need: "v", p0: isUnk, run: func(x *opctx) outcome {
			v := x.v[0]
			ty := v.Type()
			var b *cty.RefinementBuilder
			// the builder works on a copy: refining must not touch the value it was obtained from
			x.unchanged("Value.Refine", "the builder obtained from Refine()", []cty.Value{v}, nil, func() {
				b = v.Refine()
				k := x.k
				if k&1 == 1 {
					b = b.NotNull()
				}
				switch {
				case ty == cty.Number:
					lo := int64((k>>1)%5) - 2
					if k&64 != 0 {
						b = b.NumberRangeLowerBound(cty.NumberIntVal(lo), k&128 != 0)
					}
					if k&256 != 0 {
						b = b.NumberRangeUpperBound(cty.NumberIntVal(lo+1+int64((k>>9)%3)), k&2048 != 0)
					}
				case ty == cty.String:
					if k&64 != 0 {
						b = b.StringPrefix(stringsPool[int((k>>7)%uint64(len(stringsPool)))])
					}
				case ty.IsCollectionType():
					lo := int((k >> 1) % 3)
					if k&64 != 0 {
						b = b.CollectionLengthLowerBound(lo)
					}
					if k&128 != 0 {
						b = b.CollectionLengthUpperBound(lo + int((k>>8)%3))
					}
				}
			})
			v1 := b.NewValue()
			// the builder is used further: neither the original nor the value already built may change
			x.unchanged("RefinementBuilder.NewValue", "the builder after NewValue (further refinement calls)", []cty.Value{v, v1}, nil, func() {
				o := core.Guard(func() {
					b.NotNull()
					switch {
					case ty == cty.Number:
						b.NumberRangeLowerBound(cty.NumberIntVal(3), true)
						b.NumberRangeUpperBound(cty.NumberIntVal(9), false)
					case ty == cty.String:
						b.StringPrefixFull("zz")
					case ty.IsCollectionType():
						b.CollectionLengthLowerBound(1)
						b.CollectionLengthUpperBound(7)
					}
				})
				_ = o // an inconsistent further refinement panics by contract; whatever was applied before counts
			})
			var v2 cty.Value
			core.Guard(func() { v2 = b.NewValue() })
			out := outcome{vals: []cty.Value{v1}}
			if v2 != cty.NilVal {
				out.vals = append(out.vals, v2)
			}
			return out
		}},

		{name: "Value.RefineWith", need: "v", p0: isUnk, run: func(x *opctx) outcome {
			// the callback keeps the builder it was given; the value RefineWith returned must not follow what is
			// done to that builder afterwards
			v := x.v[0]
			ty := v.Type()
			var kept *cty.RefinementBuilder
			var v1 cty.Value
			o := core.Guard(func() {
				v1 = v.RefineWith(func(b *cty.RefinementBuilder) *cty.RefinementBuilder {
					kept = b
					if x.k&1 == 1 {
						b = b.NotNull()
					}
					switch {
					case ty == cty.String && x.k&2 != 0:
						b = b.StringPrefixFull(stringsPool[int((x.k>>3)%uint64(len(stringsPool)))])
					case ty.IsCollectionType() && x.k&2 != 0:
						b = b.CollectionLengthLowerBound(int((x.k >> 3) % 3))
					case ty == cty.Number && x.k&2 != 0:
						b = b.NumberRangeLowerBound(cty.NumberIntVal(int64((x.k>>3)%5)-2), x.k&4 != 0)
					}
					return b
				})
			})
			if o.Panicked || kept == nil {
				return outcome{text: "refused;"}
			}
			x.unchanged("Value.RefineWith", "the builder kept by the RefineWith callback (further refinement calls)", []cty.Value{v, v1}, nil, func() {
				core.Guard(func() {
					kept.NotNull()
					switch {
					case ty == cty.Number:
						kept.NumberRangeLowerBound(cty.NumberIntVal(3), true)
						kept.NumberRangeUpperBound(cty.NumberIntVal(9), false)
					case ty == cty.String:
						kept.StringPrefixFull(v1.Range().StringPrefix() + "zz")
					case ty.IsCollectionType():
						kept.CollectionLengthLowerBound(v1.Range().LengthLowerBound() + 1)
						kept.CollectionLengthUpperBound(v1.Range().LengthLowerBound() + 7)
					}
				})
			})
			var v2 cty.Value
			core.Guard(func() { v2 = v.RefineNotNull() })
			out := outcome{vals: []cty.Value{v1}}
			if v2 != cty.NilVal {
				out.vals = append(out.vals, v2)
			}
			return out
		}},

		// ---- traversal
		{name: "cty.Walk", need: "v", run: func(x *opctx) outcome {
			var o outcome
			var sb strings.Builder
			cty.Walk(x.v[0], func(p cty.Path, v cty.Value) (bool, error) {
				sb.WriteString(pathFP(p))
				sb.WriteByte('=')
				sb.WriteString(valFP(v, x.ptr))
				sb.WriteByte('\n')
				return true, nil
			})
			o.text = sb.String()
			return o
		}},
		{name: "cty.Transform", need: "v", run: func(x *opctx) outcome {
			var o outcome
			id, err := cty.Transform(x.v[0], func(p cty.Path, v cty.Value) (cty.Value, error) { return v, nil })
			o.addf("%s", errText(err))
			o.vals = append(o.vals, id)
			mk, err := cty.Transform(x.v[0], func(p cty.Path, v cty.Value) (cty.Value, error) {
				if v.Type() == cty.String {
					return v.Mark(gen.Marks[int(x.k%3)]), nil
				}
				return v, nil
			})
			o.addf("%s", errText(err))
			o.vals = append(o.vals, mk)
			return o
		}},
		{name: "Path.Apply", need: "v", p0: isIter, run: func(x *opctx) outcome {
			var o outcome
			paths := walkPaths(x.v[0])
			p := paths[int(x.k%uint64(len(paths)))]
			r, err := p.Apply(deepUnmark(x.v[0]))
			o.addf("%s %s", pathFP(p), errText(err))
			if err == nil {
				o.vals = append(o.vals, r)
			}
			return o
		}},

		// ---- conversion (a fresh conversion every time: sharing one Conversion closure is out of scope)
		{name: "convert.Convert", need: "vt", run: func(x *opctx) outcome {
			var o outcome
			r, err := convert.Convert(x.v[0], x.t[0])
			o.addf("%s", errText(err))
			if err == nil {
				o.vals = append(o.vals, r)
			}
			return o
		}},
		{name: "convert.Convert", need: "vv", run: func(x *opctx) outcome {
			var o outcome
			r, err := convert.Convert(x.v[0], x.v[1].Type())
			o.addf("%s", errText(err))
			if err == nil {
				o.vals = append(o.vals, r)
			}
			return o
		}},
		{name: "convert.GetConversion", need: "vt", run: func(x *opctx) outcome {
			var o outcome
			conv := convert.GetConversion(x.v[0].Type(), x.t[0])
			if conv == nil {
				o.addf("none")
				return o
			}
			r, err := conv(x.v[0])
			o.addf("%s", errText(err))
			if err == nil {
				o.vals = append(o.vals, r)
			}
			return o
		}},
		{name: "convert.Unify", need: "vvt", run: func(x *opctx) outcome {
			var o outcome
			in := []cty.Value{x.v[0], x.v[1]}
			tys := []cty.Type{x.v[0].Type(), x.v[1].Type()}
			var ty cty.Type
			var convs []convert.Conversion
			if x.k&1 == 0 {
				ty, convs = convert.Unify(tys)
			} else {
				ty, convs = convert.UnifyUnsafe(tys)
			}
			if ty == cty.NilType {
				o.addf("none")
				return o
			}
			o.tys = append(o.tys, ty)
			for i, cv := range convs {
				if cv == nil {
					o.addf("nil")
					continue
				}
				r, err := cv(in[i])
				o.addf("%s", errText(err))
				if err == nil {
					o.vals = append(o.vals, r)
				}
			}
			return o
		}},

		// ---- codecs
		{name: "json.Marshal", need: "v", run: func(x *opctx) outcome {
			var o outcome
			u := deepUnmark(x.v[0])
			b, err := ctyjson.Marshal(u, u.Type())
			o.addf("%s %s", errText(err), b)
			if err == nil {
				back, err := ctyjson.Unmarshal(b, u.Type())
				o.addf("%s", errText(err))
				if err == nil {
					o.vals = append(o.vals, back)
				}
			}
			sj, err := ctyjson.SimpleJSONValue{Value: u}.MarshalJSON()
			o.addf("%s %s", errText(err), sj)
			return o
		}},
		{name: "msgpack.Marshal", need: "v", run: func(x *opctx) outcome {
			var o outcome
			u := deepUnmark(x.v[0])
			b, err := msgpack.Marshal(u, u.Type())
			if !x.ptr && hasCapsule(u.Type()) {
				return o
			}
			o.addf("%s %s", errText(err), hex.EncodeToString(b))
			if err == nil {
				back, err := msgpack.Unmarshal(b, u.Type())
				o.addf("%s", errText(err))
				if err == nil {
					o.vals = append(o.vals, back)
				}
			}
			return o
		}},
		{name: "json.MarshalType", need: "t", run: func(x *opctx) outcome {
			var o outcome
			b, err := ctyjson.MarshalType(x.t[0])
			o.addf("%s %s", errText(err), b)
			if err == nil {
				back, err := ctyjson.UnmarshalType(b)
				o.addf("%s", errText(err))
				if err == nil {
					o.tys = append(o.tys, back)
				}
			}
			return o
		}},

		// ---- types
		{name: "Type.Equals", need: "tt", run: func(x *opctx) outcome {
			var o outcome
			a, b := x.t[0], x.t[1]
			errs := a.TestConformance(b)
			o.addf("eq=%t eqr=%t conf=%d dyn=%t", a.Equals(b), b.Equals(a), len(errs), a.HasDynamicTypes())
			o.addf("%s|%s", a.FriendlyName(), a.FriendlyNameForConstraint())
			if x.ptr || !hasCapsule(a) {
				o.addf("%s", a.GoString())
			}
			return o
		}},
		{name: "Type.compose", need: "tt", run: func(x *opctx) outcome {
			var o outcome
			a, b := x.t[0], x.t[1]
			o.tys = append(o.tys, cty.List(a), cty.Set(a), cty.Map(b),
				cty.Tuple([]cty.Type{a, b}),
				cty.Object(map[string]cty.Type{"a": a, "\u00e9": b}),
				cty.ObjectWithOptionalAttrs(map[string]cty.Type{"a": a, "b": b}, []string{"b"}),
				a.WithoutOptionalAttributesDeep())
			o.vals = append(o.vals, cty.UnknownVal(a), cty.NullVal(b))
			return o
		}},
		{name: "Type.accessors", need: "t", run: func(x *opctx) outcome {
			var o outcome
			t := x.t[0]
			o.addf("prim=%t coll=%t list=%t set=%t map=%t tuple=%t obj=%t caps=%t", t.IsPrimitiveType(), t.IsCollectionType(), t.IsListType(), t.IsSetType(), t.IsMapType(), t.IsTupleType(), t.IsObjectType(), t.IsCapsuleType())
			switch {
			case t.IsCollectionType():
				o.tys = append(o.tys, t.ElementType())
			case t.IsTupleType():
				o.tys = append(o.tys, t.TupleElementTypes()...) // read-only by contract: not mutated
			case t.IsObjectType():
				for _, n := range attrNames(t) {
					o.addf("%q opt=%t", n, t.AttributeOptional(n))
					o.tys = append(o.tys, t.AttributeType(n))
				}
			}
			return o
		}},
	}
	ops = append(ops, stdlibOps()...)
	ops = append(ops, goctyOps()...)
	fillOpN()
}

func hasCapsule(t cty.Type) bool {
	switch {
	case t.IsCapsuleType():
		return true
	case t.IsCollectionType():
		return hasCapsule(t.ElementType())
	case t.IsTupleType():
		for _, e := range t.TupleElementTypes() {
			if hasCapsule(e) {
				return true
			}
		}
	case t.IsObjectType():
		for _, e := range t.AttributeTypes() {
			if hasCapsule(e) {
				return true
			}
		}
	}
	return false
}

func attrNames(t cty.Type) []string {
	ats := t.AttributeTypes()
	ns := make([]string, 0, len(ats))
	for n := range ats {
		ns = append(ns, n)
	}
	sort.Strings(ns)
	return ns
}

func indexKey(x *opctx) cty.Value {
	t := x.v[0].Type()
	switch {
	case t.IsListType() || t.IsTupleType():
		if x.k&8 != 0 {
			return cty.UnknownVal(cty.Number)
		}
		return cty.NumberIntVal(int64(x.k % 4))
	case t.IsMapType():
		if x.k&8 != 0 {
			return cty.UnknownVal(cty.String)
		}
		return cty.StringVal(conKeys[int(x.k%uint64(len(conKeys)))])
	}
	return x.v[1]
}

// keyedArg builds the Go map handed to MapVal / ObjectVal: keys from a pool that
// holds several spellings of one normalised key, values alternating between the
// two operands.
func keyedArg(x *opctx, both bool) map[string]cty.Value {
	m := map[string]cty.Value{}
	n := 1 + int(x.k%4)
	k := x.k >> 2
	norm := map[string]string{}
	for i := 0; i < n; i++ {
		key := conKeys[int(k%uint64(len(conKeys)))]
		k >>= 3
		if prev, ok := norm[cty.NormalizeString(key)]; ok && prev != key {
			x.class = "several spellings of one normalised key"
		}
		norm[cty.NormalizeString(key)] = key
		if both && i%2 == 1 {
			m[key] = x.v[1]
		} else {
			m[key] = x.v[0]
		}
	}
	return m
}

func (x *opctx) mutateSliceArg(site string, arg []cty.Value, out cty.Value) {
	if len(arg) == 0 {
		return
	}
	x.unchanged(site, "the slice passed to the constructor", []cty.Value{out}, nil, func() {
		arg[0] = cty.StringVal("mutated")
	})
	x.later = append(x.later, func() {
		for i := range arg {
			arg[i] = cty.NullVal(cty.Bool)
		}
	})
}

func (x *opctx) mutateMapArg(site string, arg map[string]cty.Value, out cty.Value) {
	x.unchanged(site, "the map passed to the constructor", []cty.Value{out}, nil, func() {
		for k := range arg {
			arg[k] = cty.StringVal("mutated")
			break
		}
		arg["added"] = cty.True
	})
	x.later = append(x.later, func() {
		for k := range arg {
			delete(arg, k)
		}
	})
}

func pvmFP(pvm []cty.PathValueMarks) string {
	ss := make([]string, len(pvm))
	for i, p := range pvm {
		ss[i] = pathFP(p.Path) + "=" + marksFP(p.Marks)
	}
	sort.Strings(ss) // sibling order of the traversal is left free by the documentation
	return strings.Join(ss, "\n")
}

func pathsFP(ps []cty.Path) string {
	ss := make([]string, len(ps))
	for i, p := range ps {
		ss[i] = pathFP(p)
	}
	sort.Strings(ss)
	return strings.Join(ss, "\n")
}
