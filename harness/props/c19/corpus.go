package c19

import (
	"math"

	"github.com/zclconf/go-cty/cty"

	"verif/harness/core"
	"verif/harness/gen"
	"verif/harness/mon"
)

// The fixed, seed-independent corpus. Written from reading cty/walk.go,
// path.go, path_set.go and marks.go: every branch of walk/transform (null,
// unknown, empty and non-empty sequence / map / object, marked containers),
// every branch of IndexStep.Apply / GetAttrStep.Apply and of HasIndex's key
// handling, and the hash collisions pathSetRules.Hash creates on purpose.
// Run in batch 0 on every run, with a fixed random stream per entry.

func m1(v cty.Value) cty.Value { return v.Mark(gen.Marks[0]) }
func m2(v cty.Value) cty.Value { return v.Mark(gen.Marks[1]) }
func m3(v cty.Value) cty.Value { return v.Mark(gen.Marks[2]) }

func obj(kv ...any) cty.Value {
	mm := map[string]cty.Value{}
	for i := 0; i+1 < len(kv); i += 2 {
		mm[kv[i].(string)] = kv[i+1].(cty.Value)
	}
	return cty.ObjectVal(mm)
}

func mp(kv ...any) cty.Value {
	mm := map[string]cty.Value{}
	for i := 0; i+1 < len(kv); i += 2 {
		mm[kv[i].(string)] = kv[i+1].(cty.Value)
	}
	return cty.MapVal(mm)
}

func lst(vs ...cty.Value) cty.Value { return cty.ListVal(vs) }
func set(vs ...cty.Value) cty.Value { return cty.SetVal(vs) }
func tup(vs ...cty.Value) cty.Value { return cty.TupleVal(vs) }

func str(s string) cty.Value { return cty.StringVal(s) }
func num(i int64) cty.Value  { return cty.NumberIntVal(i) }

func corpusValues() []cty.Value {
	negZero := cty.NumberFloatVal(math.Copysign(0, -1))
	deep := str("leaf")
	for i := 0; i < 3; i++ {
		deep = obj("a", lst(deep, deep), "b", mp("k", tup(deep)))
	}
	return []cty.Value{
		// leaves
		str("a"), cty.Zero, cty.True, m1(str("a")),
		cty.NullVal(cty.String), cty.NullVal(cty.List(cty.String)), cty.NullVal(cty.EmptyObject), cty.NullVal(cty.DynamicPseudoType), m1(cty.NullVal(cty.Map(cty.Bool))),
		cty.UnknownVal(cty.String), cty.UnknownVal(cty.List(cty.Number)), cty.UnknownVal(cty.Object(map[string]cty.Type{"a": cty.String})), cty.DynamicVal, m2(cty.DynamicVal),
		m1(cty.UnknownVal(cty.Set(cty.String))), cty.UnknownVal(cty.String).RefineNotNull(), cty.UnknownVal(cty.Tuple([]cty.Type{cty.String, cty.Number})),
		// empty containers, plain and marked (transform's "no deep transform" branches)
		cty.ListValEmpty(cty.String), cty.SetValEmpty(cty.Number), cty.MapValEmpty(cty.Bool), cty.EmptyObjectVal, cty.EmptyTupleVal,
		m1(cty.ListValEmpty(cty.String)), m1(cty.SetValEmpty(cty.Number)), m1(cty.MapValEmpty(cty.Bool)), m1(cty.EmptyObjectVal), m1(cty.EmptyTupleVal),
		lst(cty.ListValEmpty(cty.String), cty.ListValEmpty(cty.String)),
		// marked containers with marked members (1.9.0: panics on marked collections)
		m3(lst(m1(num(1)), m2(num(2)))),
		m3(tup(m1(num(1)), str("y"), m2(obj("x", cty.True)))),
		m3(mp("a", m1(str("b")), "x", m2(str("y")))),
		m3(set(str("a"), str("b"))),
		set(m1(str("a")), str("b")), // marks of members are hoisted to the set
		// 1.15.0: marks of an object must not be pushed down into its attributes
		m1(obj("a", str("x"), "b", m2(str("y")))),
		m1(obj("a", m1(str("x")))),
		obj("o", m1(obj("i", m2(obj("j", m3(str("z"))))))),
		m1(lst(m1(lst(m1(str("a")))))),
		lst(m1(mp("k", m2(lst(str("a"), m3(str("b"))))))),
		tup(m1(cty.NullVal(cty.String)), m2(cty.UnknownVal(cty.Number)), m3(cty.DynamicVal), m1(cty.ListValEmpty(cty.Bool))),
		// null and unknown members at every level
		lst(cty.NullVal(cty.String), cty.UnknownVal(cty.String), str("a")),
		mp("n", cty.NullVal(cty.List(cty.String)), "u", cty.UnknownVal(cty.List(cty.String)), "l", lst(str("a"))),
		obj("n", cty.NullVal(cty.EmptyObject), "u", cty.DynamicVal, "d", cty.NullVal(cty.DynamicPseudoType)),
		lst(cty.UnknownVal(cty.Number).Refine().NotNull().NumberRangeLowerBound(cty.Zero, true).NewValue(), num(1)),
		// sets: members addressed by themselves
		set(num(1), num(2), num(3)),
		set(lst(num(1)), lst(num(2), num(3))),
		set(obj("a", str("x"), "b", num(1)), obj("a", str("y"), "b", num(1))),
		set(set(str("a")), set(str("a"), str("b")), cty.SetValEmpty(cty.String)),
		set(tup(str("a"), cty.NullVal(cty.Number)), tup(str("a"), num(0))),
		set(str("a"), cty.UnknownVal(cty.String)),
		set(cty.UnknownVal(cty.String), cty.UnknownVal(cty.String).RefineNotNull()), // members cannot be told apart: counted, skipped
		set(cty.UnknownVal(cty.String), cty.UnknownVal(cty.String)), // whatever SetVal makes of two indistinguishable unknowns
		lst(set(cty.UnknownVal(cty.Number), num(1)), set(num(1), num(2))),
		set(cty.NullVal(cty.String), str("")),
		set(negZero, num(1)),
		set(cty.NumberFloatVal(0.12345678905), cty.MustParseNumberVal("0.123456789051")),
		set(mp("k", lst(str("a"))), mp("k", lst(str("b")), "l", lst(str("c")))),
		lst(set(num(1), num(2)), set(num(2), num(3))),
		obj("s", m1(set(obj("a", lst(str("p"), str("q")))))),
		// keys: twins and odd names
		mp("\u00e9", num(1), "", num(2), "0", num(3), "#", num(4)),
		obj("", str("empty"), "\u00e9", str("nfc"), "0", str("zero"), "#", str("hash"), "a.b", str("dot")),
		lst(lst(str("a"), str("b")), lst(str("c"))),
		tup(lst(num(1), num(2)), mp("a", num(1)), obj("a", num(1)), set(num(1)), tup()),
		cty.TupleVal([]cty.Value{cty.DynamicVal, cty.NullVal(cty.DynamicPseudoType), lst(cty.DynamicVal)}),
		deep,
		m2(deep),
	}
}

type applyEntry struct {
	root cty.Value
	path cty.Path
	name string
}

func corpusApply() []applyEntry {
	negZero := cty.NumberFloatVal(math.Copysign(0, -1))
	l := lst(str("a"), str("b"))
	t := tup(str("a"), num(1))
	m := mp("a", num(1), "\u00e9", num(2), "0", num(3))
	o := obj("a", l, "m", m, "\u00e9", t, "0", str("zero"))
	ix := func(k cty.Value) cty.Path { return cty.Path{}.Index(k) }
	var out []applyEntry
	add := func(name string, root cty.Value, p cty.Path) { out = append(out, applyEntry{root, p, "corpus:" + name}) }
	for _, seq := range []cty.Value{l, t, m1(l), m1(t), lst(m1(str("a")), str("b"))} {
		add("seq-0", seq, ix(num(0)))
		add("seq-1", seq, ix(num(1)))
		add("seq-float-1", seq, ix(cty.NumberFloatVal(1)))
		add("seq-parsed-1.0", seq, ix(cty.MustParseNumberVal("1.0")))
		add("seq-negzero", seq, ix(negZero))
		add("seq-len", seq, ix(num(2)))
		add("seq-negative", seq, ix(num(-1)))
		add("seq-fractional", seq, ix(cty.NumberFloatVal(0.5)))
		add("seq-1.0000000001", seq, ix(cty.MustParseNumberVal("1.0000000001")))
		add("seq-2^63", seq, ix(bigNum("9223372036854775808")))
		add("seq-2^64", seq, ix(bigNum("18446744073709551616")))
		add("seq-2^64+1", seq, ix(bigNum("18446744073709551617")))
		add("seq-+inf", seq, ix(cty.PositiveInfinity))
		add("seq--inf", seq, ix(cty.NegativeInfinity))
		add("seq-null-number-key", seq, ix(cty.NullVal(cty.Number)))
		add("seq-null-string-key", seq, ix(cty.NullVal(cty.String)))
		add("seq-null-dynamic-key", seq, ix(cty.NullVal(cty.DynamicPseudoType)))
		add("seq-string-key", seq, ix(str("0")))
		add("seq-bool-key", seq, ix(cty.True))
		add("seq-attr", seq, cty.GetAttrPath("0"))
		add("seq-one-more", seq, ix(num(0)).IndexInt(0))
		add("seq-one-more-attr", seq, ix(num(0)).GetAttr("a"))
	}
	for _, mv := range []cty.Value{m, m2(m), mp("a", m1(num(1)))} {
		add("map-a", mv, ix(str("a")))
		add("map-absent", mv, ix(str("b")))
		add("map-nfc", mv, ix(str("\u00e9")))
		add("map-nfd", mv, ix(str("é")))
		add("map-number-key", mv, ix(num(0)))
		add("map-null-string-key", mv, ix(cty.NullVal(cty.String)))
		add("map-null-number-key", mv, ix(cty.NullVal(cty.Number)))
		add("map-null-dynamic-key", mv, ix(cty.NullVal(cty.DynamicPseudoType)))
		add("map-attr", mv, cty.GetAttrPath("a"))
		add("map-list-key", mv, ix(lst(str("a"))))
	}
	add("emptymap-a", cty.MapValEmpty(cty.String), ix(str("a")))
	add("emptylist-0", cty.ListValEmpty(cty.String), ix(num(0)))
	add("emptytuple-0", cty.EmptyTupleVal, ix(num(0)))
	add("emptyobject-a", cty.EmptyObjectVal, cty.GetAttrPath("a"))
	for _, ov := range []cty.Value{o, m3(o)} {
		add("obj-empty-path", ov, cty.Path{})
		add("obj-a", ov, cty.GetAttrPath("a"))
		add("obj-a-1", ov, cty.GetAttrPath("a").IndexInt(1))
		add("obj-a-2", ov, cty.GetAttrPath("a").IndexInt(2))
		add("obj-m-a", ov, cty.GetAttrPath("m").IndexString("a"))
		add("obj-m-attr", ov, cty.GetAttrPath("m").GetAttr("a"))
		add("obj-nfc", ov, cty.GetAttrPath("\u00e9").IndexInt(1))
		add("obj-nfd", ov, cty.GetAttrPath("é"))
		add("obj-absent", ov, cty.GetAttrPath("zz"))
		add("obj-index-string", ov, ix(str("a")))
		add("obj-index-number", ov, ix(num(0)))
		add("obj-leaf-more", ov, cty.GetAttrPath("0").GetAttr("x"))
		add("obj-leaf-more-index", ov, cty.GetAttrPath("0").IndexInt(0))
		add("obj-leaf-more-string-index", ov, cty.GetAttrPath("0").IndexString("x"))
	}
	for _, nv := range []cty.Value{cty.NullVal(cty.List(cty.String)), cty.NullVal(cty.Map(cty.String)), cty.NullVal(cty.EmptyObject),
		cty.NullVal(cty.DynamicPseudoType), m1(cty.NullVal(cty.List(cty.String))), cty.NullVal(cty.Tuple([]cty.Type{cty.String}))} {
		add("null-empty-path", nv, cty.Path{})
		add("null-index", nv, ix(num(0)))
		add("null-string-index", nv, ix(str("a")))
		add("null-attr", nv, cty.GetAttrPath("a"))
	}
	add("null-member-more", lst(cty.NullVal(cty.List(cty.String))), ix(num(0)).IndexInt(0))
	add("null-attr-more", obj("a", cty.NullVal(cty.EmptyObject)), cty.GetAttrPath("a").GetAttr("b"))
	// steps into unknown values and sets: nothing demanded, but executed (a panic is reported)
	for _, uv := range []cty.Value{cty.UnknownVal(cty.List(cty.String)), cty.UnknownVal(cty.Map(cty.String)), cty.UnknownVal(cty.Tuple([]cty.Type{cty.String})),
		cty.UnknownVal(cty.Object(map[string]cty.Type{"a": cty.String})), cty.DynamicVal, m1(cty.UnknownVal(cty.List(cty.String)))} {
		add("unknown-index", uv, ix(num(0)))
		add("unknown-index-1", uv, ix(num(1)))
		add("unknown-string-index", uv, ix(str("a")))
		add("unknown-attr", uv, cty.GetAttrPath("a"))
		add("unknown-attr-absent", uv, cty.GetAttrPath("zz"))
	}
	add("unknown-member", lst(cty.UnknownVal(cty.String), str("a")), ix(num(0)))
	add("unknown-member-more", lst(cty.UnknownVal(cty.List(cty.String))), ix(num(0)).IndexInt(3))
	s := set(str("a"), str("b"))
	add("set-member-key", s, ix(str("a")))
	add("set-number-key", s, ix(num(0)))
	add("set-attr", s, cty.GetAttrPath("a"))
	add("set-of-numbers-member-key", set(num(0), num(1)), ix(num(0)))
	add("set-in-list", lst(s), ix(num(0)).Index(str("a")))
	// primitives
	add("string-index", str("abc"), ix(num(0)))
	add("string-attr", str("abc"), cty.GetAttrPath("a"))
	add("number-string-index", num(1), ix(str("a")))
	return out
}

// psHist builds a history from a compact description; paths are spelled with
// pool entries so that the canonical names come from the pools.
func pA(name string) mpath { return mpath{p: cty.GetAttrPath(name), canon: []string{"A:" + name}, exact: true} }

func pI(poolIdx int) mpath {
	k := keyPool[poolIdx]
	return mpath{p: cty.IndexPath(k.v), canon: []string{"I:" + k.canon}, exact: k.exact}
}

func cat(ps ...mpath) mpath {
	out := mpath{exact: true, p: cty.Path{}}
	for _, q := range ps {
		out.p = append(out.p, q.p...)
		out.canon = append(out.canon, q.canon...)
		out.exact = out.exact && q.exact
	}
	return out
}

func poolIdx(canon string, nth int) int {
	for i, k := range keyPool {
		if k.canon == canon {
			if nth == 0 {
				return i
			}
			nth--
		}
	}
	panic("no pool key " + canon)
}

func corpusHistories() [][]psOp {
	n0, n1, n1f, n1p, n2 := pI(poolIdx("n0", 0)), pI(poolIdx("n1", 0)), pI(poolIdx("n1", 1)), pI(poolIdx("n1", 2)), pI(poolIdx("n2", 0))
	negz := pI(poolIdx("n0", 1))
	sa, sb, sh, s0 := pI(poolIdx("sa", 0)), pI(poolIdx("sb", 0)), pI(poolIdx("s#", 0)), pI(poolIdx("s0", 0))
	nfc, nfd := pI(poolIdx("s\u00e9", 0)), pI(poolIdx("s\u00e9", 1))
	bT := pI(poolIdx("bT", 0))
	l1, l2 := pI(poolIdx("L[1]", 0)), pI(poolIdx("L[2]", 0))
	big, big1 := pI(poolIdx("n2^64", 0)), pI(poolIdx("n2^64+1", 0))
	nullN, nullS := pI(poolIdx("null", 0)), pI(poolIdx("null", 1))
	empty := mpath{p: cty.Path{}, exact: true}
	op := func(name string, a int, p mpath) psOp { return psOp{name: name, a: a, path: p} }
	bin := func(name string, dst, a, b int) psOp { return psOp{name: name, dst: dst, a: a, b: b} }
	cmp := func(name string, p, q mpath) psOp { return psOp{name: name, paths: []mpath{p, q}} }
	return [][]psOp{
		{ // every index step hashes as "#": an attribute named "#" shares the bucket
			op("Add", 0, pA("#")), op("Add", 0, n0), op("Has", 0, n1), op("Has", 0, pA("#")), op("Has", 0, sh), op("Add", 0, sh), op("Add", 0, n1),
			op("Remove", 0, n0), op("Has", 0, n0), op("Has", 0, n1), op("Has", 0, pA("#")), op("Remove", 0, pA("#")), op("Has", 0, sh), {name: "List", a: 0},
		},
		{ // two index steps collide with attribute "##" and with (attr "#", index)
			op("Add", 0, cat(n0, n1)), op("Add", 0, pA("##")), op("Add", 0, cat(pA("#"), n0)), op("Add", 0, cat(n0, pA("#"))), op("Add", 0, cat(pA("#"), pA("#"))),
			op("Has", 0, cat(n1, n0)), op("Has", 0, cat(n0, n1f)), op("Remove", 0, cat(n0, n1p)), op("Has", 0, pA("##")), op("Has", 0, cat(n0, n1)),
			op("Add", 1, cat(pA("a"), pA("b"))), op("Has", 1, pA("ab")), op("Add", 1, pA("ab")), op("Remove", 1, cat(pA("a"), pA("b"))), op("Has", 1, pA("ab")),
		},
		{ // several spellings of one key are one member
			op("Add", 0, n1), op("Add", 0, n1f), op("Add", 0, n1p), op("Add", 0, n0), op("Add", 0, negz), op("Add", 0, nfc), op("Add", 0, nfd),
			{name: "List", a: 0}, op("Remove", 0, n1p), op("Has", 0, n1), op("Remove", 0, negz), op("Has", 0, n0), op("Remove", 0, nfd), op("Has", 0, nfc), {name: "Empty", a: 0},
		},
		{ // keys of different types that print alike are different members
			op("Add", 0, n0), op("Add", 0, s0), op("Add", 0, pA("0")), op("Has", 0, s0), op("Remove", 0, s0), op("Has", 0, n0), op("Has", 0, pA("0")),
			op("Add", 0, bT), op("Add", 0, l1), op("Has", 0, l2), op("Add", 0, l2), op("Remove", 0, l1), op("Has", 0, l2),
			op("Add", 0, big), op("Has", 0, big1), op("Add", 0, big1), op("Remove", 0, big), op("Has", 0, big1),
			op("Add", 0, nullN), op("Has", 0, nullS), op("Add", 0, nullS), op("Remove", 0, nullN), op("Has", 0, nullS), op("Has", 0, n0),
		},
		{ // the empty path is a member like any other
			op("Has", 0, empty), op("Add", 0, empty), op("Has", 0, empty), {name: "Empty", a: 0}, op("Add", 0, empty), {name: "List", a: 0},
			op("Add", 1, n0), bin("Union", 2, 0, 1), bin("Intersection", 2, 2, 0), bin("Equal", 0, 2, 0), op("Remove", 0, empty), {name: "Empty", a: 0}, bin("Equal", 0, 2, 0),
		},
		{ // AddAllSteps adds every non-empty prefix
			op("AddAllSteps", 0, cat(pA("a"), n0, sa, pA("b"))), op("Has", 0, empty), op("Has", 0, pA("a")), op("Has", 0, cat(pA("a"), n0)), op("Has", 0, cat(pA("a"), n0, sa)),
			op("Has", 0, cat(pA("a"), n0, sa, pA("b"))), op("Has", 0, cat(n0, sa)), op("Remove", 0, cat(pA("a"), n0)), op("Has", 0, cat(pA("a"), n0, sa)),
			op("AddAllSteps", 0, cat(pA("a"), n0)), {name: "List", a: 0},
		},
		{ // binary operations on overlapping sets built with different spellings and in different orders
			{name: "NewPathSet", dst: 0, paths: []mpath{n0, n1, n2, sa}}, {name: "NewPathSet", dst: 1, paths: []mpath{sa, n2, n1f, negz}}, bin("Equal", 0, 0, 1), bin("Equal", 0, 1, 0),
			op("Add", 1, sb), bin("Equal", 0, 0, 1), bin("Union", 2, 0, 1), bin("Equal", 0, 2, 1), bin("Intersection", 2, 0, 1), bin("Equal", 0, 2, 0),
			bin("Subtract", 2, 1, 0), op("Has", 2, sb), bin("Subtract", 2, 0, 1), {name: "Empty", a: 2}, bin("SymmetricDifference", 2, 0, 1), op("Has", 2, sb), op("Has", 2, n0),
			bin("SymmetricDifference", 2, 1, 1), {name: "Empty", a: 2}, bin("Union", 0, 0, 0), bin("Intersection", 1, 1, 1), bin("Subtract", 1, 1, 1), {name: "Empty", a: 1},
		},
		{ // NewPathSet with duplicates; results of binary operations are independent of their operands
			{name: "NewPathSet", dst: 0, paths: []mpath{n1, n1f, n1p, n1}}, {name: "List", a: 0}, bin("Union", 1, 0, 0), op("Add", 1, n2), op("Has", 0, n2), op("Remove", 0, n1), op("Has", 1, n1),
			bin("Subtract", 2, 1, 0), op("Add", 0, sa), op("Has", 2, sa), op("Has", 1, sa),
		},
		{ // Path.Equals / HasPrefix
			cmp("Path.Equals", empty, empty), cmp("Path.Equals", empty, n0), cmp("Path.Equals", n1, n1f), cmp("Path.Equals", n1, n1p), cmp("Path.Equals", n0, s0),
			cmp("Path.Equals", pA("0"), s0), cmp("Path.Equals", nfc, nfd), cmp("Path.Equals", cat(pA("a"), n0), cat(pA("a"), n1)), cmp("Path.Equals", cat(pA("a"), n0), cat(pA("b"), n0)),
			cmp("Path.Equals", cat(n0, n1), cat(n0, n1f)), cmp("Path.Equals", big, big1), cmp("Path.Equals", nullN, nullS), cmp("Path.Equals", nullN, nullN), cmp("Path.Equals", l1, l2),
			cmp("Path.HasPrefix", cat(pA("a"), n0), pA("a")), cmp("Path.HasPrefix", cat(pA("a"), n0), empty), cmp("Path.HasPrefix", pA("a"), cat(pA("a"), n0)),
			cmp("Path.HasPrefix", cat(pA("a"), n0), cat(pA("a"), n1)), cmp("Path.HasPrefix", cat(pA("a"), n1, sa), cat(pA("a"), n1f)), cmp("Path.HasPrefix", empty, empty),
			cmp("Path.HasPrefix", pA("ab"), pA("a")),
		},
	}
}

func runCorpus(c *core.Ctx, base int64) {
	idx := base
	for k, v := range corpusValues() {
		idx++
		if !c.Want(idx) {
			continue
		}
		if msg := mon.WellFormed(v); msg != "" {
			panic("c19 corpus value " + wit(v) + " is ill-formed: " + msg)
		}
		c.Count("corpus:value-cases")
		// several random streams per entry: the members to replace / mark are drawn from them
		for rep := 0; rep < 4; rep++ {
			checkValue(c, idx, v, core.NewRand(core.HashString("c19-corpus-value")+uint64(k)*16+uint64(rep)))
		}
	}
	idx = base + 100_000
	for _, e := range corpusApply() {
		idx++
		if !c.Want(idx) {
			continue
		}
		c.Count("corpus:apply-cases")
		checkApply(c, idx, e.root, e.path, e.name, "corpus")
	}
	idx = base + 200_000
	for _, h := range corpusHistories() {
		idx++
		if !c.Want(idx) {
			continue
		}
		c.Count("corpus:pathset-histories")
		replayHistory(c, idx, h)
	}
}
