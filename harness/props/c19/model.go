package c19

import (
	"fmt"
	"math/big"
	"sort"
	"strconv"
	"strings"

	"github.com/zclconf/go-cty/cty"
	"golang.org/x/text/unicode/norm"

	"verif/harness/mon"
)

// The model of "the members of a value". It is written only with public
// accessors that are NOT the functions under test: Unmark (shallow), GetAttr,
// Index, LengthInt, AsValueMap, AsValueSlice, AttributeTypes. Walk, Transform,
// Path.Apply, UnmarkDeep*, MarkWithPaths and ElementIterator-in-walk-order are
// never used here.

type stepKind int

const (
	skAttr stepKind = iota // attribute of an object
	skIdx                  // position in a list or tuple
	skKey                  // key of a map
	skSet                  // member of a set (named by the member itself)
)

type mstep struct {
	kind stepKind
	name string // skAttr, skKey
	idx  int    // skIdx; for skSet the position in AsValueSlice order of the enumerated root
	elem cty.Value
}

func (s mstep) canon() string {
	switch s.kind {
	case skAttr:
		return "." + strconv.Quote(s.name)
	case skIdx:
		return "[" + strconv.Itoa(s.idx) + "]"
	case skKey:
		return "[" + strconv.Quote(s.name) + "]"
	default:
		return "{" + strconv.Itoa(s.idx) + "}"
	}
}

const rootCanon = "$"

type member struct {
	canon    string
	parent   string // canon of the parent ("" for the root)
	steps    []mstep
	val      cty.Value      // the member, carrying only its own marks
	anc      cty.ValueMarks // union of the marks of all strict ancestors
	underSet bool           // some step of the path is a set step
	inKind   string         // kind of the parent: root, object, list, tuple, map, set
}

type child struct {
	st  mstep
	val cty.Value
}

func kindOf(ty cty.Type) string {
	switch {
	case ty.IsObjectType():
		return "object"
	case ty.IsListType():
		return "list"
	case ty.IsTupleType():
		return "tuple"
	case ty.IsMapType():
		return "map"
	case ty.IsSetType():
		return "set"
	case ty == cty.DynamicPseudoType:
		return "dynamic"
	}
	return "primitive"
}

// children lists the direct members of v (none for null, unknown, primitive).
func children(v cty.Value) []child {
	u, _ := v.Unmark()
	if !u.IsKnown() || u.IsNull() {
		return nil
	}
	ty := u.Type()
	var out []child
	switch {
	case ty.IsObjectType():
		names := make([]string, 0, len(ty.AttributeTypes()))
		for n := range ty.AttributeTypes() {
			names = append(names, n)
		}
		sort.Strings(names)
		for _, n := range names {
			out = append(out, child{mstep{kind: skAttr, name: n}, u.GetAttr(n)})
		}
	case ty.IsListType() || ty.IsTupleType():
		n := u.LengthInt()
		for i := 0; i < n; i++ {
			out = append(out, child{mstep{kind: skIdx, idx: i}, u.Index(cty.NumberIntVal(int64(i)))})
		}
	case ty.IsMapType():
		if u.LengthInt() == 0 {
			return nil
		}
		mm := u.AsValueMap()
		keys := make([]string, 0, len(mm))
		for k := range mm {
			keys = append(keys, k)
		}
		sort.Strings(keys)
		for _, k := range keys {
			out = append(out, child{mstep{kind: skKey, name: k}, mm[k]})
		}
	case ty.IsSetType():
		if u.LengthInt() == 0 {
			return nil
		}
		for i, e := range u.AsValueSlice() {
			out = append(out, child{mstep{kind: skSet, idx: i, elem: e}, e})
		}
	}
	return out
}

// enumerate lists every member of root (root included) in model pre-order.
func enumerate(root cty.Value) []member {
	var out []member
	var rec func(v cty.Value, canon, parent string, steps []mstep, anc cty.ValueMarks, underSet bool, inKind string)
	rec = func(v cty.Value, canon, parent string, steps []mstep, anc cty.ValueMarks, underSet bool, inKind string) {
		out = append(out, member{canon: canon, parent: parent, steps: steps, val: v, anc: anc, underSet: underSet, inKind: inKind})
		u, own := v.Unmark()
		kids := children(v)
		if len(kids) == 0 {
			return
		}
		nanc := cty.ValueMarks{}
		for k := range anc {
			nanc[k] = struct{}{}
		}
		for k := range own {
			nanc[k] = struct{}{}
		}
		pk := kindOf(u.Type())
		for _, k := range kids {
			st := make([]mstep, len(steps)+1)
			copy(st, steps)
			st[len(steps)] = k.st
			rec(k.val, canon+k.st.canon(), canon, st, nanc, underSet || k.st.kind == skSet, pk)
		}
	}
	rec(root, rootCanon, "", nil, cty.ValueMarks{}, false, "root")
	return out
}

func attrTypes(ty cty.Type) map[string]cty.Type {
	if !ty.IsObjectType() {
		return nil
	}
	return ty.AttributeTypes()
}

// wholeIndex interprets a key as a list/tuple position: a known, non-null,
// unmarked whole number >= 0 that fits an int.
func wholeIndex(k cty.Value) (int, bool) {
	if k == cty.NilVal || k.IsMarked() || k.Type() != cty.Number || !k.IsKnown() || k.IsNull() {
		return 0, false
	}
	bf := k.AsBigFloat()
	if bf.IsInf() || !bf.IsInt() {
		return 0, false
	}
	i64, acc := bf.Int64()
	if acc != big.Exact || i64 < 0 || i64 > 1<<30 {
		return 0, false
	}
	return int(i64), true
}

func stringKey(k cty.Value) (string, bool) {
	if k == cty.NilVal || k.IsMarked() || k.Type() != cty.String || !k.IsKnown() || k.IsNull() {
		return "", false
	}
	return k.AsString(), true
}

// libCanon resolves a path reported by the library against root with the
// model and returns the canonical name of the member it addresses. Set steps
// are resolved by finding the unique member that is model-equal to the key.
// ambiguous is true if a set holds several members model-equal to the key
// (then nothing can be decided about that path).
func libCanon(root cty.Value, p cty.Path) (canon string, ambiguous bool, err error) {
	cur := root
	canon = rootCanon
	for i, raw := range p {
		u, _ := cur.Unmark()
		if !u.IsKnown() || u.IsNull() {
			return "", false, fmt.Errorf("step %d enters a null or unknown value", i)
		}
		ty := u.Type()
		switch st := raw.(type) {
		case cty.GetAttrStep:
			name := norm.NFC.String(st.Name) // attribute names are NFC-normalised
			if _, has := attrTypes(ty)[name]; !has {
				return "", false, fmt.Errorf("step %d: GetAttrStep %q on %s", i, st.Name, ty.FriendlyName())
			}
			canon += mstep{kind: skAttr, name: name}.canon()
			cur = u.GetAttr(name)
		case cty.IndexStep:
			switch {
			case ty.IsListType() || ty.IsTupleType():
				ix, ok := wholeIndex(st.Key)
				if !ok || ix >= u.LengthInt() {
					return "", false, fmt.Errorf("step %d: key %#v is not a position of a %s of length %d", i, st.Key, kindOf(ty), u.LengthInt())
				}
				canon += mstep{kind: skIdx, idx: ix}.canon()
				cur = u.Index(cty.NumberIntVal(int64(ix)))
			case ty.IsMapType():
				ks, ok := stringKey(st.Key)
				var ev cty.Value
				if ok {
					ev, ok = u.AsValueMap()[ks]
				}
				if !ok {
					return "", false, fmt.Errorf("step %d: key %#v is not a key of the map", i, st.Key)
				}
				canon += mstep{kind: skKey, name: ks}.canon()
				cur = ev
			case ty.IsSetType():
				if st.Key == cty.NilVal || st.Key.IsMarked() {
					return "", false, fmt.Errorf("step %d: set step with a nil or marked key", i)
				}
				found := -1
				var fe cty.Value
				if u.LengthInt() > 0 {
					for j, e := range u.AsValueSlice() {
						if mon.ModelEqual(e, st.Key) {
							if found >= 0 {
								return "", true, nil
							}
							found, fe = j, e
						}
					}
				}
				if found < 0 {
					return "", false, fmt.Errorf("step %d: key %#v is not a member of the set", i, st.Key)
				}
				canon += mstep{kind: skSet, idx: found}.canon()
				cur = fe
			default:
				return "", false, fmt.Errorf("step %d: IndexStep on %s", i, ty.FriendlyName())
			}
		default:
			return "", false, fmt.Errorf("step %d: unknown step type %T", i, raw)
		}
	}
	return canon, false, nil
}

// libPath builds the library path that addresses a model member, using the
// documented constructors.
func libPath(steps []mstep) cty.Path {
	p := cty.Path{}
	for _, s := range steps {
		switch s.kind {
		case skAttr:
			p = p.GetAttr(s.name)
		case skIdx:
			p = p.IndexInt(s.idx)
		case skKey:
			p = p.IndexString(s.name)
		case skSet:
			p = p.Index(s.elem)
		}
	}
	return p
}

// marksTreeDiff compares the marks at every position of two values that are
// already model-equal. "" = the same.
func marksTreeDiff(a, b cty.Value, at string) string {
	ua, ma := a.Unmark()
	ub, mb := b.Unmark()
	if !ma.Equal(mb) {
		return fmt.Sprintf("at %s marks %s vs %s", at, marksText(ma), marksText(mb))
	}
	ka, kb := children(ua), children(ub)
	if len(ka) == 0 || len(ka) != len(kb) {
		return ""
	}
	if ua.Type().IsSetType() {
		return "" // members of sets never carry marks
	}
	for i := range ka {
		if ka[i].st.canon() != kb[i].st.canon() {
			return ""
		}
		if d := marksTreeDiff(ka[i].val, kb[i].val, at+ka[i].st.canon()); d != "" {
			return d
		}
	}
	return ""
}

func marksText(m cty.ValueMarks) string {
	var s []string
	for k := range m {
		s = append(s, fmt.Sprint(k))
	}
	sort.Strings(s)
	return "{" + strings.Join(s, ",") + "}"
}

func unionMarks(ms ...cty.ValueMarks) cty.ValueMarks {
	out := cty.ValueMarks{}
	for _, m := range ms {
		for k := range m {
			out[k] = struct{}{}
		}
	}
	return out
}

// sameValue is the comparator for "the same member": documented equality of
// the payload plus identical marks at every position.
func sameValue(a, b cty.Value) string {
	if !mon.ModelEqual(a, b) {
		return "values differ"
	}
	return marksTreeDiff(a, b, rootCanon)
}

// plainNumber: a number whose set hash text is canonical (short, exactly
// representable, not negative zero).
func plainNumber(v cty.Value) bool {
	bf := v.AsBigFloat()
	if bf.IsInf() {
		return true
	}
	f, acc := bf.Float64()
	if acc != big.Exact {
		return false
	}
	if f == 0 && bf.Signbit() {
		return false
	}
	s := strconv.FormatFloat(f, 'e', -1, 64)
	mant := s
	if i := strings.IndexByte(s, 'e'); i >= 0 {
		mant = s[:i]
	}
	digits := 0
	for _, ch := range mant {
		if ch >= '0' && ch <= '9' {
			digits++
		}
	}
	return digits <= 9
}

// canonicalSets reports whether every set anywhere in v holds only members
// whose numbers are plain, so that the iteration order of a rebuilt set is
// fixed by the members alone (DESIGN 2.4: RawEquals is asserted only then).
func canonicalSets(v cty.Value) bool {
	return canonSets(v, false)
}

func canonSets(v cty.Value, inSet bool) bool {
	u, _ := v.Unmark()
	if !u.IsKnown() || u.IsNull() {
		return true
	}
	if u.Type() == cty.Number {
		return !inSet || plainNumber(u)
	}
	in := inSet || u.Type().IsSetType()
	for _, k := range children(u) {
		if !canonSets(k.val, in) {
			return false
		}
	}
	return true
}

func hasSet(v cty.Value) bool {
	u, _ := v.Unmark()
	if u.Type().IsSetType() {
		return true
	}
	for _, k := range children(u) {
		if hasSet(k.val) {
			return true
		}
	}
	return false
}

// rebuild is the model of "replace the member at steps by r and leave every
// other member alone", written with the value constructors.
func rebuild(v cty.Value, steps []mstep, r cty.Value) cty.Value {
	if len(steps) == 0 {
		return r
	}
	u, marks := v.Unmark()
	st := steps[0]
	var out cty.Value
	switch st.kind {
	case skAttr:
		mm := u.AsValueMap()
		mm[st.name] = rebuild(mm[st.name], steps[1:], r)
		out = cty.ObjectVal(mm)
	case skKey:
		mm := u.AsValueMap()
		mm[st.name] = rebuild(mm[st.name], steps[1:], r)
		out = cty.MapVal(mm)
	case skIdx:
		es := u.AsValueSlice()
		es[st.idx] = rebuild(es[st.idx], steps[1:], r)
		if u.Type().IsListType() {
			out = cty.ListVal(es)
		} else {
			out = cty.TupleVal(es)
		}
	case skSet:
		es := u.AsValueSlice()
		es[st.idx] = rebuild(es[st.idx], steps[1:], r)
		out = cty.SetVal(es)
	}
	if len(marks) > 0 {
		out = out.WithMarks(marks)
	}
	return out
}

// descend follows model steps (no set steps) and returns the member with its
// own marks only.
func descend(root cty.Value, steps []mstep) (cty.Value, bool) {
	cur := root
	for _, st := range steps {
		found := false
		for _, k := range children(cur) {
			if k.st.kind == st.kind && k.st.canon() == st.canon() {
				cur, found = k.val, true
				break
			}
		}
		if !found {
			return cty.NilVal, false
		}
	}
	return cur, true
}

func stateOf(v cty.Value) string {
	u, _ := v.Unmark()
	switch {
	case !u.IsKnown():
		return "unknown"
	case u.IsNull():
		return "null"
	}
	return "known"
}

// memberClass is the narrow input class used in violation signatures.
func memberClass(m *member) string {
	s := "in=" + m.inKind + "," + kindOf(m.val.Type()) + "," + stateOf(m.val)
	if m.val.IsMarked() {
		s += ",marked"
	}
	if len(m.anc) > 0 {
		s += ",marked-ancestor"
	}
	if m.underSet {
		s += ",under-set"
	}
	return s
}
