package c19

import (
	"fmt"

	"github.com/zclconf/go-cty/cty"

	"verif/harness/core"
	"verif/harness/gen"
	"verif/harness/mon"
)

// rec is one callback event: the path (copied inside the callback, as the
// documentation demands) and the value handed to the callback.
type rec struct {
	path cty.Path
	val  cty.Value
}

type spyTransformer struct {
	enter, exit []rec
	onEnter     func(cty.Path, cty.Value) cty.Value
	onExit      func(cty.Path, cty.Value) cty.Value
}

func (t *spyTransformer) Enter(p cty.Path, v cty.Value) (cty.Value, error) {
	t.enter = append(t.enter, rec{p.Copy(), v})
	if t.onEnter != nil {
		return t.onEnter(p, v), nil
	}
	return v, nil
}

func (t *spyTransformer) Exit(p cty.Path, v cty.Value) (cty.Value, error) {
	t.exit = append(t.exit, rec{p.Copy(), v})
	if t.onExit != nil {
		return t.onExit(p, v), nil
	}
	return v, nil
}

func wit(v cty.Value) string { return fmt.Sprintf("%#v", v) }

// checkVisits is the offline checker of one event log against the model
// enumeration. order is "pre" (parents first, root first) or "post" (children
// first, root last). It returns false if the log could not be interpreted.
func checkVisits(c *core.Ctx, site string, root cty.Value, model []member, evs []rec, order string) bool {
	byCanon := make(map[string]*member, len(model))
	for i := range model {
		byCanon[model[i].canon] = &model[i]
	}
	seen := make(map[string]int, len(model))
	w := wit(root)
	if len(evs) == 0 {
		c.Violate(site, "no callback at all", "", w, "event log is empty")
		return false
	}
	rootEv := evs[0]
	if order == "post" {
		rootEv = evs[len(evs)-1]
	}
	c.Count("clause:root-position")
	if len(rootEv.path) != 0 {
		c.Violate(site, "root is not visited "+map[string]string{"pre": "first", "post": "last"}[order], "", w,
			fmt.Sprintf("event has path %#v", rootEv.path))
	}
	ok := true
	for _, ev := range evs {
		canon, amb, err := libCanon(root, ev.path)
		if amb {
			c.Count("skipped:ambiguous-set-member")
			return false
		}
		if err != nil {
			c.Violate(site, "reported path does not name a member of the value", "", w, fmt.Sprintf("path %#v: %v", ev.path, err))
			ok = false
			continue
		}
		m := byCanon[canon]
		if m == nil {
			c.Violate(site, "reported path does not name a member of the value", "", w, fmt.Sprintf("path %#v resolves to %s which the model does not list", ev.path, canon))
			ok = false
			continue
		}
		seen[canon]++
		c.Count("clause:visit-checked")
		if seen[canon] == 2 {
			c.Violate(site, "member visited more than once", memberClass(m), w, fmt.Sprintf("path %#v (%s)", ev.path, canon))
		}
		if d := sameValue(ev.val, m.val); d != "" {
			c.Violate(site, "visited value is not the member at the reported path", memberClass(m), w,
				fmt.Sprintf("path %#v: callback got %#v, member is %#v (%s)", ev.path, ev.val, m.val, d))
		}
		if m.parent != "" {
			switch order {
			case "pre":
				if seen[m.parent] == 0 {
					c.Violate(site, "child visited before its parent", memberClass(m), w, fmt.Sprintf("path %#v (%s)", ev.path, canon))
				}
			case "post":
				if seen[m.parent] != 0 {
					c.Violate(site, "parent visited before its child", memberClass(m), w, fmt.Sprintf("path %#v (%s)", ev.path, canon))
				}
			}
		}
	}
	for i := range model {
		if seen[model[i].canon] == 0 {
			c.Violate(site, "member never visited", memberClass(&model[i]), w, fmt.Sprintf("member %s = %#v", model[i].canon, model[i].val))
			ok = false
		}
	}
	return ok
}

// equalAsIdentity checks "the result is the input": RawEquals when the sets of
// the input have canonical members, documented equality plus identical marks
// at every position otherwise.
func equalAsIdentity(c *core.Ctx, site, facet string, in, out cty.Value, canonical bool, extra string) {
	var raw bool
	o := core.Guard(func() { raw = out.RawEquals(in) })
	if o.Panicked {
		raw = false
	}
	if canonical {
		c.Count("identity:rawequals-asserted")
		if !raw {
			c.Violate(site, facet, "canonical-sets", wit(in), fmt.Sprintf("result %#v is not RawEquals the input%s", out, extra))
		}
		return
	}
	if raw {
		c.Count("identity:noncanonical-rawequals-held")
	} else {
		c.Count("identity:noncanonical-rawequals-differs")
	}
	if d := sameValue(out, in); d != "" {
		c.Violate(site, facet, "noncanonical-sets", wit(in), fmt.Sprintf("result %#v is not equal to the input (%s)%s", out, d, extra))
	}
}

func passive(c *core.Ctx, site string, v cty.Value, w string) {
	if msg := mon.WellFormed(v); msg != "" {
		c.CrossNote("C06", site+": "+msg, w)
	}
}

// checkValue runs every value clause of C19 on one root value.
func checkValue(c *core.Ctx, idx int64, v cty.Value, r *core.Rand) {
	w := wit(v)
	c.Begin(idx, func() string { return "value " + w })
	model := enumerate(v)
	canonical := canonicalSets(v)
	withSet := hasSet(v)
	marked := len(mon.DeepMarks(v)) > 0
	c.Distinct("value "+stableText(v, model), len(model) >= 2)
	c.Count("values")
	c.CountN("members", int64(len(model)))
	countMembers(c, model)
	if withSet {
		c.Count("class:has-set")
	}
	if marked {
		c.Count("class:has-marks")
	}
	if !v.IsWhollyKnown() {
		c.Count("class:has-unknown")
	}
	if !canonical {
		c.Count("class:noncanonical-set-members")
	}

	// ---- Walk -----------------------------------------------------------
	var evs []rec
	var werr error
	o := core.Guard(func() {
		werr = cty.Walk(v, func(p cty.Path, x cty.Value) (bool, error) {
			evs = append(evs, rec{p.Copy(), x})
			return true, nil
		})
	})
	c.Eval(1)
	c.Count("op:Walk")
	if o.Panicked {
		c.Violate("cty.Walk", "panic: "+core.PanicClass(o.PanicMsg), "", w, o.PanicMsg+"\n"+o.Stack)
		return
	}
	if werr != nil {
		c.Violate("cty.Walk", "error although the callback never returned one", "", w, werr.Error())
	}
	if !checkVisits(c, "cty.Walk", v, model, evs, "pre") {
		// Either ambiguous (nothing decidable) or already reported.
	}
	c.CountN("visits:Walk", int64(len(evs)))
	rt := &retained{}
	walkPaths := make([]cty.Path, len(evs))
	for i := range evs {
		walkPaths[i] = evs[i].path
	}
	rt.keepPaths("cty.Walk", walkPaths) // the copies made inside the callback must stay what they were

	// ---- Path.Apply on every reported path not crossing a set ------------
	byCanon := map[string]*member{}
	for i := range model {
		byCanon[model[i].canon] = &model[i]
	}
	for _, ev := range evs {
		canon, amb, err := libCanon(v, ev.path)
		if amb || err != nil {
			continue
		}
		m := byCanon[canon]
		if m == nil {
			continue
		}
		if m.underSet {
			c.Count("apply:skipped-crosses-set")
			continue
		}
		var got cty.Value
		var aerr error
		psnap := snapPath(ev.path)
		o := core.Guard(func() { got, aerr = ev.path.Apply(v) })
		c.Eval(1)
		c.Count("op:Path.Apply(reported)")
		argPath(c, "Path.Apply", w, psnap, ev.path)
		if o.Panicked {
			c.Violate("Path.Apply", "panic: "+core.PanicClass(o.PanicMsg), "reported-path,"+memberClass(m), w, fmt.Sprintf("path %#v: %s\n%s", ev.path, o.PanicMsg, o.Stack))
			continue
		}
		if aerr != nil {
			c.Violate("Path.Apply", "reported path fails to apply to the root", memberClass(m), w, fmt.Sprintf("path %#v: %v", ev.path, aerr))
			continue
		}
		if !mon.ModelEqual(mon.StripMarks(got), mon.StripMarks(ev.val)) {
			c.Violate("Path.Apply", "reported path applied to the root is not the visited member", memberClass(m), w,
				fmt.Sprintf("path %#v: Apply gave %#v, visited %#v", ev.path, got, ev.val))
			continue
		}
		_, gm := got.Unmark()
		_, own := ev.val.Unmark()
		need := unionMarks(m.anc, own)
		if !mon.MarksSubset(need, gm) {
			c.Violate("Path.Apply", "result lacks marks of the member or of its ancestors", memberClass(m), w,
				fmt.Sprintf("path %#v: Apply gave marks %s, member and ancestors carry %s", ev.path, marksText(gm), marksText(need)))
		} else if len(need) > 0 {
			if mon.MarksSubset(gm, need) {
				c.Count("apply:marks-exactly-ancestors+own")
			} else {
				c.Count("apply:marks-superset")
			}
		}
		// marks below the member are the member's
		if d := marksBelowDiff(got, ev.val); d != "" {
			c.Violate("Path.Apply", "marks inside the applied result differ from the visited member", memberClass(m), w, fmt.Sprintf("path %#v: %s", ev.path, d))
		}
	}

	// ---- identity Transform ---------------------------------------------
	var tevs []rec
	var tres cty.Value
	var terr error
	o = core.Guard(func() {
		tres, terr = cty.Transform(v, func(p cty.Path, x cty.Value) (cty.Value, error) {
			tevs = append(tevs, rec{p.Copy(), x})
			return x, nil
		})
	})
	c.Eval(1)
	c.Count("op:Transform(identity)")
	if o.Panicked {
		c.Violate("cty.Transform", "panic: "+core.PanicClass(o.PanicMsg), "identity", w, o.PanicMsg+"\n"+o.Stack)
	} else {
		if terr != nil {
			c.Violate("cty.Transform", "error although the callback never returned one", "", w, terr.Error())
		}
		passive(c, "cty.Transform", tres, w)
		equalAsIdentity(c, "cty.Transform", "identity transform does not return the input", v, tres, canonical, "")
		checkVisits(c, "cty.Transform", v, model, tevs, "post")
		c.CountN("visits:Transform", int64(len(tevs)))
		rt.keepValue("cty.Transform", tres)
		var tres2 cty.Value
		o2 := core.Guard(func() {
			tres2, _ = cty.Transform(v, func(p cty.Path, x cty.Value) (cty.Value, error) { return x, nil })
		})
		c.Eval(1)
		c.Count("clause:repeatable")
		if o2.Panicked || !rawSame(tres2, tres) {
			c.Violate("cty.Transform", facetNotRepeatable, "identity", w, fmt.Sprintf("first %#v, second %#v %s", tres, tres2, o2.PanicMsg))
		}
		c.Count("clause:same-path-set")
		if len(tevs) != len(evs) {
			c.Violate("cty.Transform", "identity transform visits a different number of paths than Walk", "", w, fmt.Sprintf("Walk %d, Transform %d", len(evs), len(tevs)))
		}
	}

	// ---- identity TransformWithTransformer ---------------------------------
	spy := &spyTransformer{}
	o = core.Guard(func() { tres, terr = cty.TransformWithTransformer(v, spy) })
	c.Eval(1)
	c.Count("op:TransformWithTransformer(identity)")
	if o.Panicked {
		c.Violate("cty.TransformWithTransformer", "panic: "+core.PanicClass(o.PanicMsg), "identity", w, o.PanicMsg+"\n"+o.Stack)
	} else {
		if terr != nil {
			c.Violate("cty.TransformWithTransformer", "error although the callbacks never returned one", "", w, terr.Error())
		}
		equalAsIdentity(c, "cty.TransformWithTransformer", "identity transform does not return the input", v, tres, canonical, "")
		checkVisits(c, "cty.TransformWithTransformer", v, model, spy.enter, "pre")
		checkVisits(c, "cty.TransformWithTransformer", v, model, spy.exit, "post")
		c.CountN("visits:Transformer.Enter", int64(len(spy.enter)))
		c.CountN("visits:Transformer.Exit", int64(len(spy.exit)))
	}

	// ---- replace one member ------------------------------------------------
	checkReplace(c, v, model, r, w)

	// ---- marks by path -----------------------------------------------------
	checkMarkPaths(c, v, model, r, w, canonical, rt)

	// ---- results returned earlier are still what they were ------------------
	rt.recheck(c, w)

	if c.WantSample() && len(model) >= 4 && marked {
		paths := make([]string, 0, len(evs))
		for _, ev := range evs {
			paths = append(paths, fmt.Sprintf("%#v", ev.path))
		}
		c.Sample(map[string]any{"value": w, "walk_paths": paths, "members": len(model)})
	}
}

// stableText is a printable form of v that does not depend on map iteration
// order (the %#v form of a mark set does): the unmarked value plus the marks of
// every member in model order. Used only for distinct counting.
func stableText(v cty.Value, model []member) string {
	s := wit(mon.StripMarks(v))
	for i := range model {
		if _, own := model[i].val.Unmark(); len(own) > 0 {
			s += "|" + model[i].canon + marksText(own)
		}
	}
	return s
}

// countMembers records what kinds of members the traversals were shown.
func countMembers(c *core.Ctx, model []member) {
	depth := 0
	for i := range model {
		m := &model[i]
		if len(m.steps) > depth {
			depth = len(m.steps)
		}
		c.Count("member-in:" + m.inKind)
		c.Count("member-kind:" + kindOf(m.val.Type()) + "," + stateOf(m.val))
		if m.val.IsMarked() {
			c.Count("member:marked")
			if len(m.anc) > 0 {
				c.Count("member:marked-under-marked-ancestor")
			}
			if u, _ := m.val.Unmark(); !u.IsKnown() || u.IsNull() {
				c.Count("member:marked-null-or-unknown")
			} else if len(children(u)) == 0 && kindOf(u.Type()) != "primitive" {
				c.Count("member:marked-empty-container")
			} else if len(children(u)) > 0 {
				c.Count("member:marked-nonempty-container")
			}
		} else if len(m.anc) > 0 {
			c.Count("member:unmarked-under-marked-ancestor")
		}
		if m.underSet {
			c.Count("member:under-set")
		}
	}
	c.Count(fmt.Sprintf("value-depth:%d", depth))
}

// marksBelowDiff compares the marks strictly below the top level.
func marksBelowDiff(a, b cty.Value) string {
	ua, _ := a.Unmark()
	ub, _ := b.Unmark()
	return marksTreeDiff(ua, ub, rootCanon)
}

// replacement draws a value of exactly the member's type.
func replacement(r *core.Rand, m *member) cty.Value {
	ty := m.val.Type()
	if ty == cty.DynamicPseudoType {
		if r.Bool() {
			return cty.DynamicVal
		}
		return cty.NullVal(cty.DynamicPseudoType)
	}
	if ty.HasDynamicTypes() {
		// a member whose static type still has placeholders: keep the type by
		// offering only a null or an unknown of exactly that type
		if r.Bool() {
			return cty.NullVal(ty)
		}
		return cty.UnknownVal(ty)
	}
	nv := gen.Value(r, ty, gen.ValueOpts{UnknownPct: 8, NullPct: 8, MaxLen: 3, SmallNums: true})
	if !m.underSet && r.Chance(1, 3) {
		nv = gen.MarkSome(r, nv, 50, 15)
	}
	return nv
}

func checkReplace(c *core.Ctx, v cty.Value, model []member, r *core.Rand, w string) {
	if len(model) == 0 {
		return
	}
	tries := 2
	if len(model) == 1 {
		tries = 1
	}
	for t := 0; t < tries; t++ {
		m := &model[r.Intn(len(model))]
		nv := replacement(r, m)
		if _, amb, _ := libCanon(v, libPath(m.steps)); amb {
			// the member sits in a set next to a member it cannot be told apart from
			// (two equal unknowns): no path names it, so it cannot be chosen
			c.Count("replace:skipped-ambiguous-set-member")
			continue
		}
		var expected cty.Value
		eo := core.Guard(func() { expected = rebuild(v, m.steps, nv) })
		if eo.Panicked {
			// the constructors themselves refuse this replacement: outside the domain
			c.Count("replace:skipped-constructors-refuse")
			continue
		}
		variant := r.Intn(3)
		site := []string{"cty.Transform", "cty.TransformWithTransformer", "cty.TransformWithTransformer"}[variant]
		vname := []string{"Transform callback", "Transformer.Exit", "Transformer.Enter"}[variant]
		hits := 0
		repl := func(p cty.Path, x cty.Value) cty.Value {
			canon, _, err := libCanon(v, p)
			if err == nil && canon == m.canon {
				hits++
				return nv
			}
			return x
		}
		var res cty.Value
		var err error
		o := core.Guard(func() {
			switch variant {
			case 0:
				res, err = cty.Transform(v, func(p cty.Path, x cty.Value) (cty.Value, error) { return repl(p, x), nil })
			case 1:
				res, err = cty.TransformWithTransformer(v, &spyTransformer{onExit: repl})
			case 2:
				res, err = cty.TransformWithTransformer(v, &spyTransformer{onEnter: repl})
			}
		})
		c.Eval(1)
		c.Count("op:replace via " + vname)
		detail := fmt.Sprintf("replace %s (path %#v) by %#v via %s", m.canon, libPath(m.steps), nv, vname)
		if o.Panicked {
			c.Violate(site, "panic: "+core.PanicClass(o.PanicMsg), "replace,"+memberClass(m), w, detail+": "+o.PanicMsg+"\n"+o.Stack)
			continue
		}
		if err != nil {
			c.Violate(site, "error although the callback never returned one", "replace", w, detail+": "+err.Error())
			continue
		}
		passive(c, site, res, w)
		c.Count("clause:replace-exactly-one")
		if m.underSet {
			c.Count("replace:under-set")
		}
		if hits != 1 {
			c.Violate(site, "callback did not see the member to replace exactly once", memberClass(m), w, fmt.Sprintf("%s: seen %d times", detail, hits))
			continue
		}
		if d := sameValue(res, expected); d != "" {
			c.Violate(site, "replacing one member disturbed another member or did not take effect", memberClass(m), w,
				fmt.Sprintf("%s: got %#v, expected %#v (%s)", detail, res, expected, d))
			continue
		}
		// direct reading of the clause for paths that can be followed again
		if !m.underSet {
			if got, ok := descend(res, m.steps); !ok {
				c.Violate(site, "replaced member cannot be found in the result", memberClass(m), w, detail)
			} else if d := sameValue(got, nv); d != "" {
				c.Violate(site, "member at the replaced path is not the replacement", memberClass(m), w, fmt.Sprintf("%s: found %#v (%s)", detail, got, d))
			}
		}
	}
}

func checkMarkPaths(c *core.Ctx, v cty.Value, model []member, r *core.Rand, w string, canonical bool, rt *retained) {
	// UnmarkDeepWithPaths
	var um cty.Value
	var pvm []cty.PathValueMarks
	o := core.Guard(func() { um, pvm = v.UnmarkDeepWithPaths() })
	c.Eval(1)
	c.Count("op:UnmarkDeepWithPaths")
	if o.Panicked {
		c.Violate("Value.UnmarkDeepWithPaths", "panic: "+core.PanicClass(o.PanicMsg), "", w, o.PanicMsg+"\n"+o.Stack)
		return
	}
	passive(c, "Value.UnmarkDeepWithPaths", um, w)
	c.Count("clause:unmark-deep-with-paths")
	rt.keepPVM("Value.UnmarkDeepWithPaths", pvm)
	rt.keepValue("Value.UnmarkDeepWithPaths", um)
	{
		// repeated: same unmarked value, same (path, marks) pairs (order among attributes is free)
		var umB cty.Value
		var pvmB []cty.PathValueMarks
		ob := core.Guard(func() { umB, pvmB = v.UnmarkDeepWithPaths() })
		c.Eval(1)
		c.Count("clause:repeatable")
		if ob.Panicked {
			c.Violate("Value.UnmarkDeepWithPaths", facetNotRepeatable, "panic", w, ob.PanicMsg)
		} else if !rawSame(umB, um) {
			c.Violate("Value.UnmarkDeepWithPaths", facetNotRepeatable, "value", w, fmt.Sprintf("first %#v, second %#v", um, umB))
		} else if d := pvmSetDiff(pvm, pvmB); d != "" {
			c.Violate("Value.UnmarkDeepWithPaths", facetNotRepeatable, "[]PathValueMarks", w, fmt.Sprintf("first %#v, second %#v: %s", pvm, pvmB, d))
		}
	}
	if left := mon.DeepMarks(um); len(left) > 0 {
		c.Violate("Value.UnmarkDeepWithPaths", "result still carries marks", "", w, fmt.Sprintf("result %#v", um))
	}
	if !mon.ModelEqual(um, v) {
		c.Violate("Value.UnmarkDeepWithPaths", "unmarked value differs from the input", "", w, fmt.Sprintf("result %#v", um))
	}
	// the reported (path, marks) pairs are exactly the marked members
	want := map[string]cty.ValueMarks{}
	byCanon := map[string]*member{}
	for i := range model {
		byCanon[model[i].canon] = &model[i]
		if _, own := model[i].val.Unmark(); len(own) > 0 {
			want[model[i].canon] = own
		}
	}
	gotSeen := map[string]bool{}
	for _, pm := range pvm {
		canon, amb, err := libCanon(v, pm.Path)
		if amb {
			c.Count("skipped:ambiguous-set-member")
			return
		}
		if err != nil {
			c.Violate("Value.UnmarkDeepWithPaths", "reported path does not name a member of the value", "", w, fmt.Sprintf("path %#v: %v", pm.Path, err))
			continue
		}
		if gotSeen[canon] {
			c.Violate("Value.UnmarkDeepWithPaths", "a path is reported twice", memberClass(byCanon[canon]), w, fmt.Sprintf("path %#v", pm.Path))
		}
		gotSeen[canon] = true
		wm, ok := want[canon]
		if !ok {
			c.Violate("Value.UnmarkDeepWithPaths", "marks reported for a member that carries none", "", w, fmt.Sprintf("path %#v marks %s", pm.Path, marksText(pm.Marks)))
		} else if !wm.Equal(pm.Marks) {
			c.Violate("Value.UnmarkDeepWithPaths", "marks reported for a path differ from the member's marks", memberClass(byCanon[canon]), w,
				fmt.Sprintf("path %#v: reported %s, member carries %s", pm.Path, marksText(pm.Marks), marksText(wm)))
		}
	}
	for canon, wm := range want {
		if !gotSeen[canon] {
			c.Violate("Value.UnmarkDeepWithPaths", "marked member is missing from the reported paths", memberClass(byCanon[canon]), w,
				fmt.Sprintf("member %s carries %s", canon, marksText(wm)))
		}
	}
	if len(want) > 0 {
		c.Count("unmark:values-with-marks")
		c.CountN("unmark:marked-members", int64(len(want)))
	}

	// UnmarkDeep: same value, union of all marks
	var um2 cty.Value
	var all cty.ValueMarks
	o = core.Guard(func() { um2, all = v.UnmarkDeep() })
	c.Eval(1)
	c.Count("op:UnmarkDeep")
	if o.Panicked {
		c.Violate("Value.UnmarkDeep", "panic: "+core.PanicClass(o.PanicMsg), "", w, o.PanicMsg+"\n"+o.Stack)
	} else {
		if len(mon.DeepMarks(um2)) > 0 || !mon.ModelEqual(um2, v) {
			c.Violate("Value.UnmarkDeep", "result is not the input without its marks", "", w, fmt.Sprintf("result %#v", um2))
		}
		if !all.Equal(mon.DeepMarks(v)) {
			c.Violate("Value.UnmarkDeep", "returned marks are not the union of all marks in the value", "", w,
				fmt.Sprintf("returned %s, value carries %s", marksText(all), marksText(mon.DeepMarks(v))))
		}
	}

	// MarkWithPaths(UnmarkDeepWithPaths(v)) restores v, in the reported order and shuffled
	orders := [][]cty.PathValueMarks{pvm}
	if len(pvm) > 1 {
		sh := make([]cty.PathValueMarks, len(pvm))
		for i, j := range r.Perm(len(pvm)) {
			sh[i] = pvm[j]
		}
		orders = append(orders, sh)
	}
	for oi, ord := range orders {
		extra := ""
		if oi == 1 {
			extra = " (path marks supplied in shuffled order)"
		}
		ordSnap := snapPVM(ord)
		var first cty.Value
		// the same retained slice is handed over twice: a caller may re-apply the marks it
		// collected as often as it likes
		for round := 0; round < 2; round++ {
			var back cty.Value
			o = core.Guard(func() { back = um.MarkWithPaths(ord) })
			c.Eval(1)
			c.Count("op:MarkWithPaths(round-trip)")
			if o.Panicked {
				c.Violate("Value.MarkWithPaths", "panic: "+core.PanicClass(o.PanicMsg), "round-trip", w, o.PanicMsg+"\n"+o.Stack)
				break
			}
			passive(c, "Value.MarkWithPaths", back, w)
			argPVM(c, "Value.MarkWithPaths", w+extra, ordSnap, ord)
			c.Count("clause:unmark-remark-round-trip")
			ex := extra
			if round == 1 {
				ex += " (second call with the same path marks)"
				c.Count("clause:repeatable")
				if !rawSame(back, first) {
					c.Violate("Value.MarkWithPaths", facetNotRepeatable, "round-trip", w, fmt.Sprintf("first %#v, second %#v%s", first, back, extra))
				}
			} else {
				first = back
				rt.keepValue("Value.MarkWithPaths", back)
			}
			equalAsIdentity(c, "Value.MarkWithPaths", "MarkWithPaths(UnmarkDeepWithPaths(v)) does not restore v", v, back, canonical, ex)
		}
	}

	// MarkWithPaths with caller-built paths marks exactly the named members
	var cands []*member
	for i := range model {
		if !model[i].underSet {
			cands = append(cands, &model[i])
		}
	}
	if len(cands) == 0 {
		return
	}
	k := 1 + r.Intn(3)
	add := map[string]cty.ValueMarks{}
	var req []cty.PathValueMarks
	for i := 0; i < k; i++ {
		m := cands[r.Intn(len(cands))]
		if _, dup := add[m.canon]; dup {
			continue
		}
		ms := cty.NewValueMarks(gen.Marks[r.Intn(3)])
		if r.Chance(1, 4) {
			ms[gen.Marks[r.Intn(3)]] = struct{}{}
		}
		add[m.canon] = ms
		req = append(req, cty.PathValueMarks{Path: libPath(m.steps), Marks: ms})
	}
	var mk cty.Value
	reqSnap := snapPVM(req)
	o = core.Guard(func() { mk = v.MarkWithPaths(req) })
	c.Eval(1)
	c.Count("op:MarkWithPaths(chosen)")
	if o.Panicked {
		c.Violate("Value.MarkWithPaths", "panic: "+core.PanicClass(o.PanicMsg), "chosen-paths", w, fmt.Sprintf("%#v: %s\n%s", req, o.PanicMsg, o.Stack))
		return
	}
	argPVM(c, "Value.MarkWithPaths", w, reqSnap, req)
	{
		var mk2 cty.Value
		o2 := core.Guard(func() { mk2 = v.MarkWithPaths(req) })
		c.Eval(1)
		c.Count("clause:repeatable")
		if o2.Panicked || !rawSame(mk2, mk) {
			c.Violate("Value.MarkWithPaths", facetNotRepeatable, "chosen-paths", w, fmt.Sprintf("request %#v: first %#v, second %#v %s", reqSnap, mk, mk2, o2.PanicMsg))
		}
		argPVM(c, "Value.MarkWithPaths", w, reqSnap, req)
	}
	passive(c, "Value.MarkWithPaths", mk, w)
	c.Count("clause:mark-exactly-named-members")
	if !mon.ModelEqual(mk, v) {
		c.Violate("Value.MarkWithPaths", "marking by path changed the value", "", w, fmt.Sprintf("request %#v: result %#v", req, mk))
		return
	}
	for _, m := range cands {
		got, ok := descend(mk, m.steps)
		if !ok {
			c.Violate("Value.MarkWithPaths", "member lost while marking by path", memberClass(m), w, fmt.Sprintf("request %#v: member %s", req, m.canon))
			continue
		}
		_, gm := got.Unmark()
		_, own := m.val.Unmark()
		wantM := unionMarks(own, add[m.canon])
		if !gm.Equal(wantM) {
			facet := "a member not named by any path changed its marks"
			if _, named := add[m.canon]; named {
				facet = "a member named by a path did not receive exactly the given marks"
			}
			c.Violate("Value.MarkWithPaths", facet, memberClass(m), w,
				fmt.Sprintf("request %#v: member %s has %s, expected %s", req, m.canon, marksText(gm), marksText(wantM)))
		}
	}
	wantAll := mon.DeepMarks(v)
	for _, ms := range add {
		wantAll = unionMarks(wantAll, ms)
	}
	if !mon.DeepMarks(mk).Equal(wantAll) {
		c.Violate("Value.MarkWithPaths", "marks appeared or vanished somewhere in the value", "", w,
			fmt.Sprintf("request %#v: result carries %s, expected %s", req, marksText(mon.DeepMarks(mk)), marksText(wantAll)))
	}
}
