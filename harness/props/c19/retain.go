package c19

import (
	"fmt"

	"github.com/zclconf/go-cty/cty"

	"verif/harness/core"
	"verif/harness/mon"
)

// Three general clauses that hold for every call the driver makes, because
// values, paths and mark sets are immutable by contract and the traversal
// functions are pure:
//
//	(a) arguments handed to the library are not changed by it;
//	(b) the same call repeated with the same (retained) arguments gives the same result;
//	(c) results returned earlier are not changed by later calls.
//
// All three are decided by taking a deep snapshot (paths step by step, mark
// sets member by member) before / at the time of a call and comparing later.
// The comparison does not use Path.Equals or ValueMarks.Equal (under test).

const (
	facetArgChanged    = "the library changed an argument handed to it"
	facetNotRepeatable = "the same call repeated with the same arguments gives another result"
	facetResultChanged = "a result returned earlier was changed by a later call"
)

func copyMarks(m cty.ValueMarks) cty.ValueMarks {
	if m == nil {
		return nil
	}
	out := make(cty.ValueMarks, len(m))
	for k := range m {
		out[k] = struct{}{}
	}
	return out
}

func marksSame(a, b cty.ValueMarks) bool {
	return len(a) == len(b) && mon.MarksSubset(a, b) && mon.MarksSubset(b, a)
}

// snapPath copies the steps of p (steps are plain structs holding immutable values).
func snapPath(p cty.Path) cty.Path {
	if p == nil {
		return nil
	}
	out := make(cty.Path, len(p))
	copy(out, p)
	return out
}

func snapPaths(ps []cty.Path) []cty.Path {
	out := make([]cty.Path, len(ps))
	for i, p := range ps {
		out[i] = snapPath(p)
	}
	return out
}

func stepSame(a, b cty.PathStep) bool {
	switch x := a.(type) {
	case cty.GetAttrStep:
		y, ok := b.(cty.GetAttrStep)
		return ok && x.Name == y.Name
	case cty.IndexStep:
		y, ok := b.(cty.IndexStep)
		if !ok {
			return false
		}
		if x.Key == cty.NilVal || y.Key == cty.NilVal {
			return x.Key == y.Key
		}
		same := false
		o := core.Guard(func() { same = x.Key.Type().Equals(y.Key.Type()) && x.Key.RawEquals(y.Key) })
		return !o.Panicked && same
	}
	return a == nil && b == nil
}

// pathDiff compares two paths step by step, exactly. "" = the same.
func pathDiff(snap, now cty.Path) string {
	if len(snap) != len(now) {
		return fmt.Sprintf("was %#v, is now %#v", snap, now)
	}
	for i := range snap {
		if !stepSame(snap[i], now[i]) {
			return fmt.Sprintf("step %d differs: was %#v, is now %#v", i, snap, now)
		}
	}
	return ""
}

func pathsDiff(snap, now []cty.Path) string {
	if len(snap) != len(now) {
		return fmt.Sprintf("had %d paths, has now %d", len(snap), len(now))
	}
	for i := range snap {
		if d := pathDiff(snap[i], now[i]); d != "" {
			return fmt.Sprintf("entry %d: %s", i, d)
		}
	}
	return ""
}

func snapPVM(in []cty.PathValueMarks) []cty.PathValueMarks {
	if in == nil {
		return nil
	}
	out := make([]cty.PathValueMarks, len(in))
	for i, e := range in {
		out[i] = cty.PathValueMarks{Path: snapPath(e.Path), Marks: copyMarks(e.Marks)}
	}
	return out
}

// pvmDiff compares entry by entry, in order. "" = the same.
func pvmDiff(snap, now []cty.PathValueMarks) string {
	if len(snap) != len(now) {
		return fmt.Sprintf("had %d entries, has now %d", len(snap), len(now))
	}
	for i := range snap {
		if d := pathDiff(snap[i].Path, now[i].Path); d != "" {
			return fmt.Sprintf("entry %d path: %s", i, d)
		}
		if !marksSame(snap[i].Marks, now[i].Marks) {
			return fmt.Sprintf("entry %d (%#v) marks: were %s, are now %s", i, snap[i].Path, marksText(snap[i].Marks), marksText(now[i].Marks))
		}
	}
	return ""
}

// pvmSetDiff compares two lists as sets of (path, marks): the order in which
// UnmarkDeepWithPaths reports the attributes of an object is not fixed.
func pvmSetDiff(a, b []cty.PathValueMarks) string {
	if len(a) != len(b) {
		return fmt.Sprintf("%d entries vs %d", len(a), len(b))
	}
	used := make([]bool, len(b))
outer:
	for _, x := range a {
		for j, y := range b {
			if !used[j] && pathDiff(x.Path, y.Path) == "" && marksSame(x.Marks, y.Marks) {
				used[j] = true
				continue outer
			}
		}
		return fmt.Sprintf("entry (%#v, %s) has no counterpart", x.Path, marksText(x.Marks))
	}
	return ""
}

// rawSame is RawEquals under a guard.
func rawSame(a, b cty.Value) bool {
	same := false
	o := core.Guard(func() { same = a.RawEquals(b) })
	return !o.Panicked && same
}

// retained is a list of "compare this again later" closures collected while a
// case runs; recheck runs them all at the end of the case (clause c).
type retained struct {
	checks []func() (site, class, detail string)
}

func (rt *retained) keepPVM(site string, got []cty.PathValueMarks) {
	snap := snapPVM(got)
	rt.checks = append(rt.checks, func() (string, string, string) { return site, "[]PathValueMarks", pvmDiff(snap, got) })
}

func (rt *retained) keepPaths(site string, got []cty.Path) {
	snap := snapPaths(got)
	rt.checks = append(rt.checks, func() (string, string, string) { return site, "[]Path", pathsDiff(snap, got) })
}

func (rt *retained) keepValue(site string, got cty.Value) {
	text := wit(got)
	rt.checks = append(rt.checks, func() (string, string, string) {
		if now := wit(got); now != text {
			return site, "Value", fmt.Sprintf("printed as %s when returned, prints as %s now", text, now)
		}
		return site, "Value", ""
	})
}

func (rt *retained) recheck(c *core.Ctx, w string) {
	for _, f := range rt.checks {
		site, class, d := f()
		c.Count("clause:earlier-result-unchanged")
		if d != "" {
			c.Violate(site, facetResultChanged, class, w, d)
		}
	}
	rt.checks = nil
}

// argPVM / argPath check clause (a) for one argument after a call.
func argPVM(c *core.Ctx, site, w string, snap, now []cty.PathValueMarks) {
	c.Count("clause:argument-unchanged")
	if d := pvmDiff(snap, now); d != "" {
		c.Violate(site, facetArgChanged, "[]PathValueMarks", w, d)
	}
}

func argPath(c *core.Ctx, site, w string, snap, now cty.Path) {
	c.Count("clause:argument-unchanged")
	if d := pathDiff(snap, now); d != "" {
		c.Violate(site, facetArgChanged, "Path", w, d)
	}
}

func argPaths(c *core.Ctx, site, w string, snap, now []cty.Path) {
	c.Count("clause:argument-unchanged")
	if d := pathsDiff(snap, now); d != "" {
		c.Violate(site, facetArgChanged, "[]Path", w, d)
	}
}
