package c19

import (
	"fmt"
	"math"
	"sort"
	"strings"

	"github.com/zclconf/go-cty/cty"

	"verif/harness/core"
)

// Path-set histories replayed against a model set of canonical path strings.
// Keys and attribute names come from fixed pools in which every entry carries
// its canonical name, assigned by hand from the documentation: numbers are the
// same key when they are the same number, strings when they are the same
// after NFC normalisation (cty strings are normalised on construction);
// attribute names are plain Go strings and are compared byte-wise.

type poolKey struct {
	v     cty.Value
	canon string
	exact bool // also usable for the Path.Equals clause ("exact equality")
}

var keyPool = []poolKey{
	{cty.NumberIntVal(0), "n0", true},
	{cty.NumberIntVal(1), "n1", true},
	{cty.NumberFloatVal(1), "n1", true},
	{cty.MustParseNumberVal("1"), "n1", true},
	{cty.NumberIntVal(2), "n2", true},
	{cty.NumberIntVal(-1), "n-1", true},
	{cty.NumberFloatVal(0.5), "n0.5", true},
	{cty.MustParseNumberVal("0.5"), "n0.5", true},
	{bigNum("18446744073709551616"), "n2^64", true},
	{bigNum("18446744073709551617"), "n2^64+1", true},
	{cty.NumberFloatVal(math.Copysign(0, -1)), "n0", false}, // -0 equals 0 (documented equality); not used for Path.Equals
	{cty.StringVal("a"), "sa", true},
	{cty.StringVal("b"), "sb", true},
	{cty.StringVal("#"), "s#", true},
	{cty.StringVal(""), "s", true},
	{cty.StringVal("0"), "s0", true},
	{cty.StringVal("\u00e9"), "s\u00e9", true},  // NFC
	{cty.StringVal("e\u0301"), "s\u00e9", true}, // NFD spelling: StringVal normalises it to the same key
	{cty.True, "bT", true},
	{cty.False, "bF", true},
	{cty.ListVal([]cty.Value{cty.NumberIntVal(1)}), "L[1]", true},
	{cty.ListVal([]cty.Value{cty.NumberIntVal(2)}), "L[2]", true},
	{cty.ObjectVal(map[string]cty.Value{"a": cty.StringVal("x")}), "O{a=x}", true},
	{cty.EmptyObjectVal, "O{}", true},
	// "nulls of any types are equal to one another" (Value.Equals): one key. Path.Equals is exact
	// (RawEquals) and tells the types apart, so these are not used for the Path.Equals clause.
	{cty.NullVal(cty.Number), "null", false},
	{cty.NullVal(cty.String), "null", false},
}

// attribute names; "#" and "ab" collide with other paths under pathSetRules.Hash
var attrPool = []string{"a", "b", "ab", "#", "", "0", "\u00e9", "e\u0301", "##"}

type mpath struct {
	p     cty.Path
	canon []string // one canonical name per step
	exact bool
}

// key is the canonical text of the path: every step followed by "/" (the empty
// path is ""), so that "is a prefix of" is the string prefix relation.
func (m mpath) key() string { return canonKey(m.canon) }

func canonKey(parts []string) string {
	var sb strings.Builder
	for _, s := range parts {
		sb.WriteString(s)
		sb.WriteString("/")
	}
	return sb.String()
}

func genPath(r *core.Rand) mpath {
	n := r.Weighted([]int{1, 4, 4, 3, 2})
	var out mpath
	out.exact = true
	out.p = cty.Path{}
	for i := 0; i < n; i++ {
		if r.Chance(2, 5) {
			a := attrPool[r.Intn(len(attrPool))]
			out.p = out.p.GetAttr(a)
			out.canon = append(out.canon, "A:"+a)
		} else {
			k := keyPool[r.Intn(len(keyPool))]
			out.p = out.p.Index(k.v)
			out.canon = append(out.canon, "I:"+k.canon)
			out.exact = out.exact && k.exact
		}
	}
	return out
}

// twin returns another spelling of the same path (other pool entries with the
// same canonical names), or the path itself.
func twin(r *core.Rand, m mpath) mpath {
	out := mpath{canon: m.canon, exact: m.exact, p: make(cty.Path, len(m.p))}
	copy(out.p, m.p)
	for i, cn := range m.canon {
		if !strings.HasPrefix(cn, "I:") {
			continue
		}
		var alts []poolKey
		for _, k := range keyPool {
			if "I:"+k.canon == cn {
				alts = append(alts, k)
			}
		}
		k := alts[r.Intn(len(alts))]
		out.p[i] = cty.IndexStep{Key: k.v}
		out.exact = out.exact && k.exact
	}
	return out
}

type modelSet map[string]bool

func (s modelSet) clone() modelSet {
	o := modelSet{}
	for k := range s {
		o[k] = true
	}
	return o
}

func (s modelSet) text() string {
	ks := make([]string, 0, len(s))
	for k := range s {
		if k == "" {
			k = "(empty path)"
		}
		ks = append(ks, k)
	}
	sort.Strings(ks)
	return "{" + strings.Join(ks, " , ") + "}"
}

func sameModel(a, b modelSet) bool {
	if len(a) != len(b) {
		return false
	}
	for k := range a {
		if !b[k] {
			return false
		}
	}
	return true
}

// canonOfLib re-derives the canonical name of a path returned by List by
// looking every step up in the pools.
func canonOfLib(p cty.Path) (string, bool) {
	var parts []string
	for _, raw := range p {
		switch st := raw.(type) {
		case cty.GetAttrStep:
			parts = append(parts, "A:"+st.Name)
		case cty.IndexStep:
			found := ""
			for _, k := range keyPool {
				if k.v.Type().Equals(st.Key.Type()) && k.v.RawEquals(st.Key) {
					found = k.canon
					break
				}
			}
			if found == "" {
				return "", false
			}
			parts = append(parts, "I:"+found)
		default:
			return "", false
		}
	}
	return canonKey(parts), true
}

type psOp struct {
	name    string
	dst     int
	a, b    int
	path    mpath
	paths   []mpath
}

func (o psOp) String() string {
	switch o.name {
	case "NewPathSet":
		s := make([]string, len(o.paths))
		for i, p := range o.paths {
			s[i] = fmt.Sprintf("%#v", p.p)
		}
		return fmt.Sprintf("S%d = NewPathSet(%s)", o.dst, strings.Join(s, ", "))
	case "Add", "AddAllSteps", "Remove", "Has":
		return fmt.Sprintf("S%d.%s(%#v)", o.a, o.name, o.path.p)
	case "Union", "Intersection", "Subtract", "SymmetricDifference":
		return fmt.Sprintf("S%d = S%d.%s(S%d)", o.dst, o.a, o.name, o.b)
	case "Equal":
		return fmt.Sprintf("S%d.Equal(S%d)", o.a, o.b)
	case "Path.Equals", "Path.HasPrefix":
		return fmt.Sprintf("%s(%#v, %#v)", o.name, o.paths[0].p, o.paths[1].p)
	}
	return fmt.Sprintf("S%d.%s()", o.a, o.name)
}

const nSets = 3

func genHistory(r *core.Rand) []psOp {
	np := 4 + r.Intn(7)
	pool := make([]mpath, np)
	for i := range pool {
		pool[i] = genPath(r)
	}
	pick := func() mpath {
		m := pool[r.Intn(len(pool))]
		if r.Chance(1, 3) {
			m = twin(r, m)
		}
		if r.Chance(1, 12) {
			m = genPath(r)
		}
		return m
	}
	n := 8 + r.Intn(25)
	ops := make([]psOp, 0, n)
	for i := 0; i < n; i++ {
		o := psOp{a: r.Intn(nSets), b: r.Intn(nSets), dst: r.Intn(nSets)}
		switch r.Weighted([]int{2, 8, 3, 5, 6, 1, 1, 2, 2, 2, 2, 3, 2, 2}) {
		case 0:
			o.name = "NewPathSet"
			k := r.Intn(4)
			for j := 0; j < k; j++ {
				o.paths = append(o.paths, pick())
			}
		case 1:
			o.name, o.path = "Add", pick()
		case 2:
			o.name, o.path = "AddAllSteps", pick()
			if len(o.path.p) == 0 {
				o.name = "Add" // AddAllSteps of the empty path is not specified by its documentation
			}
		case 3:
			o.name, o.path = "Remove", pick()
		case 4:
			o.name, o.path = "Has", pick()
		case 5:
			o.name = "List"
		case 6:
			o.name = "Empty"
		case 7:
			o.name = "Union"
		case 8:
			o.name = "Intersection"
		case 9:
			o.name = "Subtract"
		case 10:
			o.name = "SymmetricDifference"
		case 11:
			o.name = "Equal"
		case 12:
			o.name, o.paths = "Path.Equals", []mpath{pick(), pick()}
			if r.Bool() {
				o.paths[1] = twin(r, o.paths[0])
			}
		case 13:
			o.name, o.paths = "Path.HasPrefix", []mpath{pick(), pick()}
			if r.Bool() && len(o.paths[0].p) > 0 {
				t := twin(r, o.paths[0])
				k := r.Intn(len(t.p) + 1)
				o.paths[1] = mpath{p: t.p[:k], canon: t.canon[:k], exact: t.exact}
			}
		}
		ops = append(ops, o)
	}
	return ops
}

func histText(ops []psOp, upto int) string {
	var sb strings.Builder
	for i := 0; i <= upto && i < len(ops); i++ {
		sb.WriteString(ops[i].String())
		sb.WriteString("; ")
	}
	return sb.String()
}

// replayHistory runs the history on real PathSets and on the model side by
// side and compares every observable after every step.
func replayHistory(c *core.Ctx, idx int64, ops []psOp) {
	c.Begin(idx, func() string { return "pathset history: " + histText(ops, len(ops)) })
	binary := 0
	for _, o := range ops {
		switch o.name {
		case "Union", "Intersection", "Subtract", "SymmetricDifference", "Equal":
			binary++
		}
	}
	c.Distinct(histText(ops, len(ops)), len(ops) >= 3 && binary > 0)
	c.Count("histories")
	var real [nSets]cty.PathSet
	var model [nSets]modelSet
	for i := range real {
		real[i] = cty.NewPathSet()
		model[i] = modelSet{}
	}
	c.Eval(nSets)
	rt := &retained{}
	kept := 0
	defer func() { rt.recheck(c, "pathset history: "+histText(ops, len(ops))) }()
	for step, o := range ops {
		w := histText(ops, step)
		// clause (a): the paths handed to this step are not changed by it
		var argNow, argSnap []cty.Path
		if o.path.p != nil {
			argNow = append(argNow, o.path.p)
		}
		for _, q := range o.paths {
			argNow = append(argNow, q.p)
		}
		argSnap = snapPaths(argNow)
		site := "PathSet." + o.name
		if strings.HasPrefix(o.name, "Path.") || o.name == "NewPathSet" {
			site = o.name
			if o.name == "NewPathSet" {
				site = "cty.NewPathSet"
			}
		}
		var out core.Outcome
		c.Count("ps-op:" + o.name)
		c.Eval(1)
		switch o.name {
		case "NewPathSet":
			ps := make([]cty.Path, len(o.paths))
			ms := modelSet{}
			for i, p := range o.paths {
				ps[i] = p.p
				ms[p.key()] = true
			}
			out = core.Guard(func() { real[o.dst] = cty.NewPathSet(ps...) })
			model[o.dst] = ms
		case "Add":
			out = core.Guard(func() { real[o.a].Add(o.path.p) })
			model[o.a][o.path.key()] = true
		case "AddAllSteps":
			out = core.Guard(func() { real[o.a].AddAllSteps(o.path.p) })
			for k := 1; k <= len(o.path.canon); k++ {
				model[o.a][mpath{canon: o.path.canon[:k]}.key()] = true
			}
		case "Remove":
			out = core.Guard(func() { real[o.a].Remove(o.path.p) })
			delete(model[o.a], o.path.key())
		case "Has":
			var got bool
			out = core.Guard(func() { got = real[o.a].Has(o.path.p) })
			if !out.Panicked && got != model[o.a][o.path.key()] {
				c.Violate(site, "membership differs from the model set", "", w, fmt.Sprintf("Has = %v, model set %s", got, model[o.a].text()))
			}
			if !out.Panicked {
				var again bool
				o2 := core.Guard(func() { again = real[o.a].Has(o.path.p) })
				c.Eval(1)
				c.Count("clause:repeatable")
				if o2.Panicked || again != got {
					c.Violate(site, facetNotRepeatable, "", w, fmt.Sprintf("Has = %v, then %v %s", got, again, o2.PanicMsg))
				}
			}
		case "List":
			// compared for every set after every step, below; a few returned slices are retained
			// and must still hold the same paths when the history is over (clause c)
			var lst []cty.Path
			out = core.Guard(func() { lst = real[o.a].List() })
			if !out.Panicked && kept < 3 {
				rt.keepPaths("PathSet.List", lst)
				kept++
			}
		case "Empty":
			var got bool
			out = core.Guard(func() { got = real[o.a].Empty() })
			if !out.Panicked && got != (len(model[o.a]) == 0) {
				c.Violate(site, "emptiness differs from the model set", "", w, fmt.Sprintf("Empty = %v, model set %s", got, model[o.a].text()))
			}
		case "Union", "Intersection", "Subtract", "SymmetricDifference":
			var res cty.PathSet
			ma, mb := model[o.a], model[o.b]
			mr := modelSet{}
			switch o.name {
			case "Union":
				out = core.Guard(func() { res = real[o.a].Union(real[o.b]) })
				for k := range ma {
					mr[k] = true
				}
				for k := range mb {
					mr[k] = true
				}
			case "Intersection":
				out = core.Guard(func() { res = real[o.a].Intersection(real[o.b]) })
				for k := range ma {
					if mb[k] {
						mr[k] = true
					}
				}
			case "Subtract":
				out = core.Guard(func() { res = real[o.a].Subtract(real[o.b]) })
				for k := range ma {
					if !mb[k] {
						mr[k] = true
					}
				}
			case "SymmetricDifference":
				out = core.Guard(func() { res = real[o.a].SymmetricDifference(real[o.b]) })
				for k := range ma {
					if !mb[k] {
						mr[k] = true
					}
				}
				for k := range mb {
					if !ma[k] {
						mr[k] = true
					}
				}
			}
			if !out.Panicked {
				real[o.dst] = res
				model[o.dst] = mr
			}
		case "Equal":
			var got bool
			out = core.Guard(func() { got = real[o.a].Equal(real[o.b]) })
			if !out.Panicked && got != sameModel(model[o.a], model[o.b]) {
				c.Violate(site, "set equality differs from the model", "", w, fmt.Sprintf("Equal = %v, model sets %s and %s", got, model[o.a].text(), model[o.b].text()))
			}
			if !out.Panicked && sameModel(model[o.a], model[o.b]) {
				c.Count("ps:equal-true-cases")
			}
		case "Path.Equals":
			p, q := o.paths[0], o.paths[1]
			if !p.exact || !q.exact {
				c.Count("ps:path-equals-skipped-inexact-key-spelling")
				continue
			}
			var got bool
			out = core.Guard(func() { got = p.p.Equals(q.p) })
			if !out.Panicked && got != (p.key() == q.key()) {
				c.Violate(site, "path equality differs from the model", "", w, fmt.Sprintf("Equals = %v, canonical %q vs %q", got, p.key(), q.key()))
			}
			if p.key() == q.key() {
				c.Count("ps:path-equals-true-cases")
			}
		case "Path.HasPrefix":
			p, q := o.paths[0], o.paths[1]
			if !p.exact || !q.exact {
				c.Count("ps:path-equals-skipped-inexact-key-spelling")
				continue
			}
			var got bool
			out = core.Guard(func() { got = p.p.HasPrefix(q.p) })
			want := strings.HasPrefix(p.key(), q.key())
			if !out.Panicked && got != want {
				c.Violate(site, "prefix relation differs from the model", "", w, fmt.Sprintf("HasPrefix = %v, canonical %q vs %q", got, p.key(), q.key()))
			}
			if want {
				c.Count("ps:path-hasprefix-true-cases")
			}
		}
		if out.Panicked {
			c.Violate(site, "panic: "+core.PanicClass(out.PanicMsg), "", w, out.PanicMsg+"\n"+out.Stack)
			return
		}
		if len(argNow) > 0 {
			argPaths(c, site, w, argSnap, argNow)
		}
		// full state comparison of every set after every step
		for i := range real {
			var lst []cty.Path
			var empty bool
			lo := core.Guard(func() { lst = real[i].List(); empty = real[i].Empty() })
			c.Eval(2)
			if lo.Panicked {
				c.Violate("PathSet.List", "panic: "+core.PanicClass(lo.PanicMsg), "", w, lo.PanicMsg+"\n"+lo.Stack)
				return
			}
			if kept < 3 && len(lst) >= 2 && step%5 == 2 {
				rt.keepPaths("PathSet.List", lst)
				kept++
			}
			got := modelSet{}
			bad := false
			for _, p := range lst {
				cn, ok := canonOfLib(p)
				if !ok {
					c.Violate("PathSet.List", "lists a path that was never added", "", w, fmt.Sprintf("S%d lists %#v", i, p))
					bad = true
					continue
				}
				if got[cn] {
					c.Violate(site, "set lists the same path twice", "", w, fmt.Sprintf("after the last step S%d lists %q twice; model %s", i, cn, model[i].text()))
					bad = true
				}
				got[cn] = true
			}
			c.Count("clause:pathset-state-compared")
			if !bad && !sameModel(got, model[i]) {
				c.Violate(site, "set contents differ from the model set after the step", "", w,
					fmt.Sprintf("S%d holds %s, model %s", i, got.text(), model[i].text()))
				return
			}
			if empty != (len(model[i]) == 0) {
				c.Violate("PathSet.Empty", "emptiness differs from the model set", "", w, fmt.Sprintf("S%d Empty = %v, model %s", i, empty, model[i].text()))
			}
		}
	}
	if c.WantSample() && len(ops) >= 10 && binary >= 2 {
		c.Sample(map[string]any{"pathset_history": histText(ops, len(ops)), "final_model_sets": []string{model[0].text(), model[1].text(), model[2].text()}})
	}
}
