// Package c19: walk, transform and paths address exactly the members of a value.
//
// Files: retain.go (argument / repeatability / earlier-result snapshots), model.go (independent enumeration of "the members of a value"),
// walk.go (Walk / Transform / TransformWithTransformer / marks-by-path clauses),
// apply.go (Path.Apply succeeds iff every step names a member), pathset.go
// (PathSet / Path.Equals / Path.HasPrefix histories against a model set),
// corpus.go (fixed boundary cases, run in batch 0 on every run).
package c19

import (
	"fmt"

	"github.com/zclconf/go-cty/cty"

	"verif/harness/core"
	"verif/harness/gen"
	"verif/harness/mon"
)

type Driver struct{}

func (Driver) ID() string { return "C19" }

func (Driver) Info() core.Info {
	return core.Info{
		Title: "walk, transform and paths address exactly the members of a value",
		Rule: "three case families, chosen by case index. (a) value cases (6 of 10): a value of a generated type of depth<=4 (lists, sets, maps, tuples, objects, " +
			"twin/empty keys, dynamically typed members) with null, unknown (plain, refined, DynamicVal) and marked members at every depth; on it Walk, identity Transform, identity " +
			"TransformWithTransformer (Enter and Exit logs), Path.Apply of every reported path, replacement of 2 chosen members through each callback flavour, UnmarkDeep, " +
			"UnmarkDeepWithPaths, MarkWithPaths (round trip in reported and shuffled order; caller-built paths) are executed and every callback event is checked offline against an " +
			"independent enumeration of the members. (b) Path.Apply cases (2 of 10): a root (plain = wholly known unmarked; rich = unknown and marked members) and the path of one of its " +
			"members after ONE edit (none, index twin, prefix, one step more, wrong key, wrong step kind, index=len, negative, fractional, odd key). (c) path-set histories (2 of 10): 8-32 " +
			"operations on three PathSets over a pool of paths with colliding hashes and several spellings of the same key, compared with a model set after every step. " +
			"distinct = hash of the printed value / (root, path) / history; non-trivial = value with >=2 members / non-empty decidable path / history with >=3 steps and a binary operation",
		Assumptions: []string{
			"the model of 'members of a value' uses only shallow accessors (Unmark, GetAttr, Index, AsValueSlice, AsValueMap, LengthInt, AttributeTypes), which are trusted here (C02/C04 check them)",
			"'equal' is mon.ModelEqual plus identical marks at every position; RawEquals is additionally asserted for identity results (DESIGN 2.4)",
			"set members are matched to model members by documented equality; a value whose set holds two members that cannot be told apart (e.g. two unknowns) is counted and skipped",
			"not demanded: steps whose key is unknown or marked, steps into unknown values, steps into sets, sibling order of callbacks",
		},
		MinNontrivial: 10000,
	}
}

func (Driver) Batches(tier string) int {
	if tier == "thorough" {
		return 64
	}
	return 16
}

// walkRoot draws the root value of a value case. One case in ten takes the
// first draw as it is (leaves, nulls, unknowns and empty containers are roots
// too); the others redraw up to four times until the root has members.
func walkRoot(r *core.Rand) cty.Value {
	keepAny := r.Chance(1, 10)
	var v cty.Value
	for try := 0; try < 5; try++ {
		v = drawRoot(r)
		if keepAny || len(children(v)) > 0 {
			break
		}
	}
	return v
}

func drawRoot(r *core.Rand) cty.Value {
	depth := 1 + r.Intn(4)
	if r.Chance(2, 3) {
		depth = 3 + r.Intn(2)
	}
	to := gen.TypeOpts{TwinKeys: r.Chance(1, 4), NoSet: r.Chance(1, 3), Dynamic: r.Chance(1, 4)}
	ty := gen.Type(r, depth, to).Cty()
	vo := gen.ValueOpts{
		UnknownPct: []int{0, 5, 12}[r.Intn(3)],
		Refined:    r.Bool(),
		NullPct:    []int{0, 6, 12}[r.Intn(3)],
		MaxLen:     3,
		SmallNums:  r.Chance(2, 3),
		TwinKeys:   r.Chance(1, 4),
	}
	v := gen.Value(r, ty, vo)
	if r.Chance(2, 3) {
		v = gen.MarkSome(r, v, 25, []int{5, 15, 40}[r.Intn(3)])
	}
	return v
}

func (Driver) Run(c *core.Ctx) {
	n := int64(c.N(10000, 80000))
	for i := int64(0); i < n; i++ {
		if !c.Want(i) {
			continue
		}
		r := c.RNG(i)
		// The whole case runs under a guard: the value constructors used by the generators call the
		// traversal code themselves (SetVal -> UnmarkDeep -> transform), so a broken traversal can
		// panic before any monitored call is made. That is reported, not allowed to kill the worker.
		o := core.Guard(func() {
			switch k := i % 10; {
			case k < 6:
				v := walkRoot(r)
				if msg := mon.WellFormed(v); msg != "" {
					c.Count("generator:dropped-ill-formed")
					return
				}
				c.Count("family:value")
				checkValue(c, i, v, r)
			case k < 8:
				c.Count("family:apply")
				runApplyCase(c, i, r)
			default:
				c.Count("family:pathset-history")
				replayHistory(c, i, genHistory(r))
			}
		})
		if o.Panicked {
			c.Begin(i, func() string { return "case generation or checking panicked" })
			c.Violate("case-construction", "panic: "+core.PanicClass(o.PanicMsg), "", fmt.Sprintf("case %d of batch %d", i, c.Batch), o.PanicMsg+"\n"+o.Stack)
		}
	}
	if c.Batch == 0 {
		o := core.Guard(func() { runCorpus(c, 1_000_000_000) })
		if o.Panicked {
			c.Violate("case-construction", "panic: "+core.PanicClass(o.PanicMsg), "corpus", "fixed corpus", o.PanicMsg+"\n"+o.Stack)
		}
	}
}
