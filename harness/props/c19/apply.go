package c19

import (
	"fmt"
	"math"
	"math/big"

	"github.com/zclconf/go-cty/cty"
	"golang.org/x/text/unicode/norm"

	"verif/harness/core"
	"verif/harness/gen"
	"verif/harness/mon"
)

// applyVerdict is what the model says about one (root, path) pair.
type applyVerdict struct {
	val       cty.Value      // the addressed member (own marks only), if ok
	need      cty.ValueMarks // marks of the values passed through
	ok        bool           // every step names an existing member
	undecided string         // "" or the reason why the property says nothing
	why       string
	at        int    // index of the step that was refused or undecided
	into      string // what that step was applied to: list, tuple, map, object, set, primitive, null, unknown
}

// modelApply decides, from the documentation alone, whether every step of p
// names an existing member of root, and which member that is. Marks on the
// values passed through are collected in need (the result must carry them).
// undecided is set when the question is outside what the property states:
// a step indexes a set (the property excepts members of sets: paths cannot
// address them), a step enters an unknown value (its members do not exist
// yet), or a key is itself unknown or marked.
func modelApply(root cty.Value, p cty.Path) applyVerdict {
	cur := root
	res := applyVerdict{need: cty.ValueMarks{}, at: -1}
	refuse := func(i int, into, why string) applyVerdict {
		res.at, res.into, res.why = i, into, fmt.Sprintf("step %d: %s", i, why)
		return res
	}
	for i, raw := range p {
		u, own := cur.Unmark()
		for k := range own {
			res.need[k] = struct{}{}
		}
		if !u.IsKnown() {
			res.undecided = "enters-unknown"
			return refuse(i, "unknown", "enters an unknown value")
		}
		if u.IsNull() {
			return refuse(i, "null", "enters a null value")
		}
		ty := u.Type()
		kind := kindOf(ty)
		switch st := raw.(type) {
		case cty.GetAttrStep:
			if !ty.IsObjectType() {
				return refuse(i, kind, "attribute step on "+kind)
			}
			// attribute names are normalised to NFC by the type constructors and accessors (cty/object_type.go), as string keys are
			name := norm.NFC.String(st.Name)
			if _, has := ty.AttributeTypes()[name]; !has {
				return refuse(i, kind, fmt.Sprintf("no attribute %q", st.Name))
			}
			cur = u.GetAttr(name)
		case cty.IndexStep:
			if st.Key != cty.NilVal && (st.Key.IsMarked() || !st.Key.IsKnown()) {
				res.undecided = "unknown-or-marked-key"
				return refuse(i, kind, "unknown or marked key")
			}
			switch {
			case ty.IsSetType():
				res.undecided = "set-step"
				return refuse(i, kind, "indexes a set")
			case ty.IsListType() || ty.IsTupleType():
				ix, isIx := wholeIndex(st.Key)
				if !isIx || ix >= u.LengthInt() {
					return refuse(i, kind, fmt.Sprintf("key %#v is not a position of a %s of length %d", st.Key, kind, u.LengthInt()))
				}
				cur = u.AsValueSlice()[ix]
			case ty.IsMapType():
				ks, isStr := stringKey(st.Key)
				var ev cty.Value
				if isStr && u.LengthInt() > 0 {
					ev, isStr = u.AsValueMap()[ks]
				} else {
					isStr = false
				}
				if !isStr {
					return refuse(i, kind, fmt.Sprintf("key %#v is not a key of the map", st.Key))
				}
				cur = ev
			default:
				return refuse(i, kind, "index step on "+kind)
			}
		}
	}
	res.val, res.ok = cur, true
	return res
}

// keyClass names the kind of key of a step (for violation classes).
func keyClass(st cty.PathStep) string {
	is, isIndex := st.(cty.IndexStep)
	if !isIndex {
		return "attr"
	}
	k := is.Key
	switch {
	case k == cty.NilVal:
		return "nil-key"
	case k.IsMarked():
		return "marked-key"
	case !k.IsKnown():
		return "unknown-key"
	case k.IsNull():
		return "null-" + k.Type().FriendlyName() + "-key"
	case k.Type() == cty.String:
		return "string-key"
	case k.Type() == cty.Number:
		bf := k.AsBigFloat()
		switch {
		case bf.IsInf():
			return "infinite-key"
		case !bf.IsInt():
			return "fractional-key"
		case bf.Sign() < 0:
			return "negative-key"
		}
		if _, acc := bf.Int64(); acc != big.Exact {
			return "huge-key"
		}
		return "index-key"
	}
	return kindOf(k.Type()) + "-key"
}

// applyClass is the narrow input class of a Path.Apply case: the kind of key of
// the deciding step and what it was applied to.
func applyClass(p cty.Path, mv applyVerdict) string {
	if mv.ok || mv.at < 0 || mv.at >= len(p) {
		return "resolves"
	}
	return keyClass(p[mv.at]) + " into " + mv.into
}

func bigNum(s string) cty.Value {
	f, _, err := big.ParseFloat(s, 10, 512, big.ToNearestEven)
	if err != nil {
		panic(err)
	}
	return cty.NumberVal(f)
}

// oddKeys are keys that name no member of any generated collection.
var oddKeys = []struct {
	name string
	key  cty.Value
}{
	{"negative", cty.NumberIntVal(-1)},
	{"fractional", cty.NumberFloatVal(0.5)},
	{"huge-2^63", bigNum("9223372036854775808")},
	{"huge-2^64", bigNum("18446744073709551616")},
	{"+inf", cty.PositiveInfinity},
	{"-inf", cty.NegativeInfinity},
	{"bool-key", cty.True},
	{"null-key", cty.NullVal(cty.Number)},
	{"null-key", cty.NullVal(cty.String)},
	{"null-key", cty.NullVal(cty.DynamicPseudoType)},
	{"absent-string", cty.StringVal("no-such-key")},
	{"list-key", cty.ListVal([]cty.Value{cty.Zero})},
}

// indexTwins are other spellings of the whole number i.
func indexTwin(r *core.Rand, i int) cty.Value {
	switch r.Intn(4) {
	case 0:
		return cty.NumberFloatVal(float64(i))
	case 1:
		return cty.MustParseNumberVal(fmt.Sprintf("%d.0", i))
	case 2:
		if i == 0 {
			return cty.NumberFloatVal(math.Copysign(0, -1))
		}
		return cty.NumberIntVal(int64(i)).Add(cty.Zero)
	}
	return cty.NumberUIntVal(uint64(i))
}

// editPath makes the path invalid (or keeps it valid) by ONE edit and names the edit.
func editPath(r *core.Rand, root cty.Value, m *member) (cty.Path, string) {
	p := libPath(m.steps)
	kind := r.Intn(12)
	switch kind {
	case 0, 1:
		// valid as it is, possibly with another spelling of a numeric index
		for i, st := range m.steps {
			if st.kind == skIdx && r.Bool() {
				p[i] = cty.IndexStep{Key: indexTwin(r, st.idx)}
				return p, "valid-index-twin"
			}
		}
		return p, "valid"
	case 2:
		// valid prefix
		if len(p) == 0 {
			return p, "valid"
		}
		return p[:r.Intn(len(p))], "valid-prefix"
	case 3:
		// one step too many
		extra := []cty.PathStep{cty.GetAttrStep{Name: "a"}, cty.IndexStep{Key: cty.Zero}, cty.IndexStep{Key: cty.StringVal("a")},
			cty.GetAttrStep{Name: "zz"}, cty.IndexStep{Key: cty.StringVal("zz")}, cty.IndexStep{Key: cty.NumberIntVal(7)}}
		return append(p, extra[r.Intn(len(extra))]), "one-step-more"
	}
	if len(p) == 0 {
		return append(p, cty.GetAttrStep{Name: "zz"}), "one-step-more"
	}
	i := r.Intn(len(p))
	par, _ := descend(root, m.steps[:i])
	par, _ = par.Unmark()
	st := m.steps[i]
	switch kind {
	case 4:
		// wrong key of the right kind
		switch st.kind {
		case skAttr:
			p[i] = cty.GetAttrStep{Name: st.name + "_absent"}
		case skKey:
			p[i] = cty.IndexStep{Key: cty.StringVal(st.name + "_absent")}
		case skIdx:
			p[i] = cty.IndexStep{Key: cty.NumberIntVal(int64(par.LengthInt() + 1 + r.Intn(3)))}
		default:
			return p, "valid"
		}
		return p, "wrong-key"
	case 5:
		// wrong step kind, spelling the same name
		switch st.kind {
		case skAttr:
			p[i] = cty.IndexStep{Key: cty.StringVal(st.name)}
		case skKey:
			p[i] = cty.GetAttrStep{Name: st.name}
		case skIdx:
			if r.Bool() {
				p[i] = cty.IndexStep{Key: cty.StringVal(fmt.Sprint(st.idx))}
			} else {
				p[i] = cty.GetAttrStep{Name: fmt.Sprint(st.idx)}
			}
		default:
			p[i] = cty.GetAttrStep{Name: "a"}
		}
		return p, "wrong-step-kind"
	case 6:
		if st.kind == skIdx {
			p[i] = cty.IndexStep{Key: cty.NumberIntVal(int64(par.LengthInt()))}
			return p, "index=len"
		}
		p[i] = cty.IndexStep{Key: cty.Zero}
		return p, "number-key-on-" + []string{"object", "list", "map", "set"}[st.kind]
	case 7:
		p[i] = cty.IndexStep{Key: cty.NumberIntVal(-1 - int64(r.Intn(2)))}
		return p, "negative"
	case 8:
		base := 0
		if st.kind == skIdx {
			base = st.idx
		}
		p[i] = cty.IndexStep{Key: cty.NumberFloatVal(float64(base) + 0.5)}
		return p, "fractional"
	}
	ok := oddKeys[r.Intn(len(oddKeys))]
	p[i] = cty.IndexStep{Key: ok.key}
	return p, ok.name
}

// applyRoot draws the root of a Path.Apply case. plain roots are wholly known
// and unmarked (every path is decidable); rich roots carry unknown and marked
// members at every depth.
func applyRoot(r *core.Rand) (cty.Value, string) {
	depth := 2 + r.Intn(3)
	ty := gen.Type(r, depth, gen.TypeOpts{TwinKeys: r.Chance(1, 4), NoSet: r.Chance(1, 2)}).Cty()
	if r.Chance(3, 5) {
		return gen.Value(r, ty, gen.ValueOpts{NullPct: 8, MaxLen: 3, SmallNums: r.Bool(), TwinKeys: r.Chance(1, 4), NoTopNull: true}), "plain"
	}
	v := gen.Value(r, ty, gen.ValueOpts{NullPct: 6, UnknownPct: 8, Refined: r.Bool(), MaxLen: 3, SmallNums: r.Bool(), TwinKeys: r.Chance(1, 4), NoTopNull: true, NoTopUnk: true})
	return gen.MarkSome(r, v, 30, 15), "rich"
}

// checkApply: Path.Apply succeeds iff the model resolves every step, and then
// returns the member the model found (carrying the marks of the values passed
// through). Nothing is demanded where the model is undecided.
func checkApply(c *core.Ctx, idx int64, root cty.Value, p cty.Path, edit, rootClass string) {
	desc := func() string { return fmt.Sprintf("Path.Apply path=%#v root=%#v edit=%s", p, root, edit) }
	c.Begin(idx, desc)
	mv := modelApply(root, p)
	want, need, ok, undecided, why := mv.val, mv.need, mv.ok, mv.undecided, mv.why
	var got cty.Value
	var err error
	psnap := snapPath(p)
	o := core.Guard(func() { got, err = p.Apply(root) })
	c.Eval(1)
	c.Count("op:Path.Apply(iff)")
	argPath(c, "Path.Apply", desc(), psnap, p)
	if !o.Panicked {
		// repeated with the same path and root: same outcome
		var got2 cty.Value
		var err2 error
		o2 := core.Guard(func() { got2, err2 = p.Apply(root) })
		c.Eval(1)
		c.Count("clause:repeatable")
		if o2.Panicked || (err == nil) != (err2 == nil) || (err == nil && !rawSame(got, got2)) {
			c.Violate("Path.Apply", facetNotRepeatable, "", desc(), fmt.Sprintf("first (%#v, %v), second (%#v, %v) %s", got, err, got2, err2, o2.PanicMsg))
		}
	}
	if rootClass == "corpus" {
		c.Count("apply-edit:(corpus entry)")
	} else {
		c.Count("apply-edit:" + edit)
	}
	c.Count("apply-root:" + rootClass)
	c.Distinct(fmt.Sprintf("apply %#v | %s", p, stableText(root, enumerate(root))), len(p) > 0 && undecided == "")
	cls := applyClass(p, mv)
	c.Count("apply-class:" + cls)
	if undecided == "unknown-or-marked-key" {
		// not demanded at all (DESIGN: behaviour of steps whose key is unknown or marked)
		c.Count("apply:undecided-" + undecided)
		return
	}
	if o.Panicked {
		c.Violate("Path.Apply", "panic: "+core.PanicClass(o.PanicMsg), cls, desc(), fmt.Sprintf("model: resolves=%v %s\n%s\n%s", ok, why, o.PanicMsg, o.Stack))
		return
	}
	if undecided != "" {
		if err != nil {
			c.Count("apply:undecided-" + undecided + "-refused")
		} else {
			c.Count("apply:undecided-" + undecided + "-accepted")
		}
		return
	}
	switch {
	case ok && err != nil:
		c.Violate("Path.Apply", "fails although every step names an existing member", cls, desc(), "error: "+err.Error())
	case !ok && err == nil:
		c.Violate("Path.Apply", "succeeds although a step names no member", cls, desc(), fmt.Sprintf("returned %#v; model: %s", got, why))
	case ok:
		c.Count("apply:model-resolves")
		passive(c, "Path.Apply", got, desc())
		_, gm := got.Unmark()
		_, own := want.Unmark()
		needAll := unionMarks(need, own)
		switch {
		case !mon.ModelEqual(got, want):
			c.Violate("Path.Apply", "returns a value other than the addressed member", cls, desc(), fmt.Sprintf("returned %#v, member is %#v", got, want))
		case !mon.MarksSubset(needAll, gm):
			c.Violate("Path.Apply", "result lacks marks of the member or of its ancestors", cls, desc(),
				fmt.Sprintf("returned %#v carrying %s; member and the values passed through carry %s", got, marksText(gm), marksText(needAll)))
		case !mon.MarksSubset(gm, mon.DeepMarks(root)):
			c.Violate("Path.Apply", "result carries a mark found nowhere in the root", cls, desc(), fmt.Sprintf("returned %#v", got))
		default:
			if d := marksBelowDiff(got, want); d != "" {
				c.Violate("Path.Apply", "marks inside the applied result differ from the addressed member", cls, desc(), d)
			}
			if len(needAll) > 0 {
				c.Count("apply:result-carries-path-marks")
			}
		}
	default:
		c.Count("apply:model-refuses")
	}
	if c.WantSample() && !ok && len(p) > 1 {
		c.Sample(map[string]any{"root": wit(root), "path": fmt.Sprintf("%#v", p), "edit": edit, "model": why, "library_error": fmt.Sprint(err)})
	}
}

func runApplyCase(c *core.Ctx, idx int64, r *core.Rand) {
	root, rootClass := applyRoot(r)
	model := enumerate(root)
	m := &model[r.Intn(len(model))]
	// prefer deep members
	for t := 0; t < 4 && len(m.steps) < 2; t++ {
		m2 := &model[r.Intn(len(model))]
		if len(m2.steps) > len(m.steps) {
			m = m2
		}
	}
	p, edit := editPath(r, root, m)
	checkApply(c, idx, root, p, edit, rootClass)
}
