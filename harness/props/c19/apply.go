package c19

import (
	"fmt"
	"math"
	"math/big"

	"github.com/zclconf/go-cty/cty"

	"verif/harness/core"
	"verif/harness/gen"
	"verif/harness/mon"
)

// modelApply decides, from the documentation alone, whether every step of p
// names an existing member of the wholly known, unmarked root, and which
// member that is. undecided is true when a step indexes a set (the property
// excepts members of sets: paths cannot address them).
func modelApply(root cty.Value, p cty.Path) (val cty.Value, ok bool, undecided bool, why string) {
	cur := root
	for i, raw := range p {
		if cur.IsNull() {
			return cty.NilVal, false, false, fmt.Sprintf("step %d enters a null value", i)
		}
		ty := cur.Type()
		switch st := raw.(type) {
		case cty.GetAttrStep:
			if !ty.IsObjectType() {
				return cty.NilVal, false, false, fmt.Sprintf("step %d: attribute step on %s", i, kindOf(ty))
			}
			if _, has := ty.AttributeTypes()[st.Name]; !has {
				return cty.NilVal, false, false, fmt.Sprintf("step %d: no attribute %q", i, st.Name)
			}
			cur = cur.GetAttr(st.Name)
		case cty.IndexStep:
			switch {
			case ty.IsSetType():
				return cty.NilVal, false, true, fmt.Sprintf("step %d indexes a set", i)
			case ty.IsListType() || ty.IsTupleType():
				ix, isIx := wholeIndex(st.Key)
				if !isIx || ix >= cur.LengthInt() {
					return cty.NilVal, false, false, fmt.Sprintf("step %d: key %#v is not a position of a %s of length %d", i, st.Key, kindOf(ty), cur.LengthInt())
				}
				cur = cur.AsValueSlice()[ix]
			case ty.IsMapType():
				ks, isStr := stringKey(st.Key)
				var ev cty.Value
				if isStr && cur.LengthInt() > 0 {
					ev, isStr = cur.AsValueMap()[ks]
				} else {
					isStr = false
				}
				if !isStr {
					return cty.NilVal, false, false, fmt.Sprintf("step %d: key %#v is not a key of the map", i, st.Key)
				}
				cur = ev
			default:
				return cty.NilVal, false, false, fmt.Sprintf("step %d: index step on %s", i, kindOf(ty))
			}
		}
	}
	return cur, true, false, ""
}

func bigNum(s string) cty.Value {
	f, _, err := big.ParseFloat(s, 10, 512, big.ToNearestEven)
	if err != nil {
		panic(err)
	}
	return cty.NumberVal(f)
}

// oddKeys are keys that name no member of any generated collection.
var oddKeys = []struct {
	name string
	key  cty.Value
}{
	{"negative", cty.NumberIntVal(-1)},
	{"fractional", cty.NumberFloatVal(0.5)},
	{"huge-2^63", bigNum("9223372036854775808")},
	{"huge-2^64", bigNum("18446744073709551616")},
	{"+inf", cty.PositiveInfinity},
	{"-inf", cty.NegativeInfinity},
	{"bool-key", cty.True},
	{"null-key", cty.NullVal(cty.Number)},
	{"null-key", cty.NullVal(cty.String)},
	{"null-key", cty.NullVal(cty.DynamicPseudoType)},
	{"absent-string", cty.StringVal("no-such-key")},
	{"list-key", cty.ListVal([]cty.Value{cty.Zero})},
}

// indexTwins are other spellings of the whole number i.
func indexTwin(r *core.Rand, i int) cty.Value {
	switch r.Intn(4) {
	case 0:
		return cty.NumberFloatVal(float64(i))
	case 1:
		return cty.MustParseNumberVal(fmt.Sprintf("%d.0", i))
	case 2:
		if i == 0 {
			return cty.NumberFloatVal(math.Copysign(0, -1))
		}
		return cty.NumberIntVal(int64(i)).Add(cty.Zero)
	}
	return cty.NumberUIntVal(uint64(i))
}

// editPath makes the path invalid (or keeps it valid) by ONE edit and names the edit.
func editPath(r *core.Rand, root cty.Value, m *member) (cty.Path, string) {
	p := libPath(m.steps)
	kind := r.Intn(12)
	switch kind {
	case 0, 1:
		// valid as it is, possibly with another spelling of a numeric index
		for i, st := range m.steps {
			if st.kind == skIdx && r.Bool() {
				p[i] = cty.IndexStep{Key: indexTwin(r, st.idx)}
				return p, "valid-index-twin"
			}
		}
		return p, "valid"
	case 2:
		// valid prefix
		if len(p) == 0 {
			return p, "valid"
		}
		return p[:r.Intn(len(p))], "valid-prefix"
	case 3:
		// one step too many
		extra := []cty.PathStep{cty.GetAttrStep{Name: "a"}, cty.IndexStep{Key: cty.Zero}, cty.IndexStep{Key: cty.StringVal("a")},
			cty.GetAttrStep{Name: "zz"}, cty.IndexStep{Key: cty.StringVal("zz")}, cty.IndexStep{Key: cty.NumberIntVal(7)}}
		return append(p, extra[r.Intn(len(extra))]), "one-step-more"
	}
	if len(p) == 0 {
		return append(p, cty.GetAttrStep{Name: "zz"}), "one-step-more"
	}
	i := r.Intn(len(p))
	par, _ := descend(root, m.steps[:i])
	st := m.steps[i]
	switch kind {
	case 4:
		// wrong key of the right kind
		switch st.kind {
		case skAttr:
			p[i] = cty.GetAttrStep{Name: st.name + "_absent"}
		case skKey:
			p[i] = cty.IndexStep{Key: cty.StringVal(st.name + "_absent")}
		case skIdx:
			p[i] = cty.IndexStep{Key: cty.NumberIntVal(int64(par.LengthInt() + 1 + r.Intn(3)))}
		default:
			return p, "valid"
		}
		return p, "wrong-key"
	case 5:
		// wrong step kind, spelling the same name
		switch st.kind {
		case skAttr:
			p[i] = cty.IndexStep{Key: cty.StringVal(st.name)}
		case skKey:
			p[i] = cty.GetAttrStep{Name: st.name}
		case skIdx:
			if r.Bool() {
				p[i] = cty.IndexStep{Key: cty.StringVal(fmt.Sprint(st.idx))}
			} else {
				p[i] = cty.GetAttrStep{Name: fmt.Sprint(st.idx)}
			}
		default:
			p[i] = cty.GetAttrStep{Name: "a"}
		}
		return p, "wrong-step-kind"
	case 6:
		if st.kind == skIdx {
			p[i] = cty.IndexStep{Key: cty.NumberIntVal(int64(par.LengthInt()))}
			return p, "index=len"
		}
		p[i] = cty.IndexStep{Key: cty.Zero}
		return p, "number-key-on-" + []string{"object", "list", "map", "set"}[st.kind]
	case 7:
		p[i] = cty.IndexStep{Key: cty.NumberIntVal(-1 - int64(r.Intn(2)))}
		return p, "negative"
	case 8:
		base := 0
		if st.kind == skIdx {
			base = st.idx
		}
		p[i] = cty.IndexStep{Key: cty.NumberFloatVal(float64(base) + 0.5)}
		return p, "fractional"
	}
	ok := oddKeys[r.Intn(len(oddKeys))]
	p[i] = cty.IndexStep{Key: ok.key}
	return p, ok.name
}

func applyRoot(r *core.Rand) cty.Value {
	depth := 2 + r.Intn(3)
	ty := gen.Type(r, depth, gen.TypeOpts{TwinKeys: r.Chance(1, 4), NoSet: r.Chance(1, 2)}).Cty()
	return gen.Value(r, ty, gen.ValueOpts{NullPct: 8, MaxLen: 3, SmallNums: r.Bool(), TwinKeys: r.Chance(1, 4), NoTopNull: true})
}

// checkApply: for a wholly known unmarked root, Path.Apply succeeds iff the
// model resolves every step, and then returns the member the model found.
func checkApply(c *core.Ctx, idx int64, root cty.Value, p cty.Path, edit string) {
	desc := func() string { return fmt.Sprintf("Path.Apply path=%#v root=%#v edit=%s", p, root, edit) }
	c.Begin(idx, desc)
	want, ok, undecided, why := modelApply(root, p)
	var got cty.Value
	var err error
	o := core.Guard(func() { got, err = p.Apply(root) })
	c.Eval(1)
	c.Count("op:Path.Apply(iff)")
	c.Count("apply-edit:" + edit)
	c.Distinct(desc(), len(p) > 0)
	cls := edit
	if o.Panicked {
		c.Violate("Path.Apply", "panic: "+core.PanicClass(o.PanicMsg), cls, desc(), fmt.Sprintf("model: resolves=%v %s\n%s\n%s", ok, why, o.PanicMsg, o.Stack))
		return
	}
	if undecided {
		if err != nil {
			c.Count("apply:set-step-refused")
		} else {
			c.Count("apply:set-step-accepted")
		}
		return
	}
	switch {
	case ok && err != nil:
		c.Violate("Path.Apply", "fails although every step names an existing member", cls, desc(), "error: "+err.Error())
	case !ok && err == nil:
		c.Violate("Path.Apply", "succeeds although a step names no member", cls, desc(), fmt.Sprintf("returned %#v; model: %s", got, why))
	case ok:
		c.Count("apply:model-resolves")
		if got.IsMarked() || !mon.ModelEqual(got, want) {
			c.Violate("Path.Apply", "returns a value other than the addressed member", cls, desc(), fmt.Sprintf("returned %#v, member is %#v", got, want))
		}
	default:
		c.Count("apply:model-refuses")
	}
	if c.WantSample() && !ok && len(p) > 1 {
		c.Sample(map[string]any{"root": wit(root), "path": fmt.Sprintf("%#v", p), "edit": edit, "model": why, "library_error": fmt.Sprint(err)})
	}
}

func runApplyCase(c *core.Ctx, idx int64, r *core.Rand) {
	root := applyRoot(r)
	model := enumerate(root)
	m := &model[r.Intn(len(model))]
	// prefer deep members
	for t := 0; t < 2 && len(m.steps) < 2; t++ {
		m2 := &model[r.Intn(len(model))]
		if len(m2.steps) > len(m.steps) {
			m = m2
		}
	}
	p, edit := editPath(r, root, m)
	checkApply(c, idx, root, p, edit)
}
