package c06

import (
	"fmt"
	"reflect"
	"regexp"
	"strings"

	"github.com/zclconf/go-cty/cty"
	"github.com/zclconf/go-cty/cty/convert"
	"github.com/zclconf/go-cty/cty/gocty"
	ctyjson "github.com/zclconf/go-cty/cty/json"
	"github.com/zclconf/go-cty/cty/msgpack"
	"golang.org/x/text/unicode/norm"

	"verif/harness/core"
	"verif/harness/gen"
)

// codecValue draws an unmarked value without capsules (the codecs reject both).
func codecValue(r *core.Rand, unknowns bool) cty.Value {
	d := 1 + r.Intn(3)
	ty := gen.Type(r, d, gen.TypeOpts{Dynamic: true, TwinKeys: true}).Cty()
	o := valOpts(r)
	if !unknowns {
		o.UnknownPct = 0
	}
	return gen.Value(r, ty, o)
}

// exponents of four or more digits are clamped: a number like 1e999999999 decodes fine but makes every
// later decimal rendering (GoString, hashing, the model's equality) take minutes; big.Float.Parse (and so msgpack number strings and
// JSON strings converted to numbers) also accepts a BINARY exponent written with p / P ("27p564327421"), so those are clamped too
var reHugeExp = regexp.MustCompile(`([eEpP][+-]?)[0-9]{3,}`)

var jsonTokens = []string{"null", "true", "false", "0", "-0", "1e300", "1.5", `""`, "\"\u00e9\"", "\"e\u0301\"", "[]", "{}", `{"a":null}`, `[null]`, `"1"`, `"true"`, ",", ":", "[", "]", "{", "}"}

// mutateBytes applies 1..3 edits: bit flip, insert, delete, truncate, splice of
// a fragment of another encoding, token replacement (JSON) or NFD decomposition.
func mutateBytes(r *core.Rand, b, other []byte, isJSON bool) []byte {
	out := append([]byte{}, b...)
	for k, n := 0, 1+r.Intn(3); k < n; k++ {
		if len(out) == 0 {
			out = append(out, byte(r.Intn(256)))
			continue
		}
		p := r.Intn(len(out))
		switch r.Intn(8) {
		case 0:
			out[p] ^= 1 << uint(r.Intn(8))
		case 1:
			out = append(out[:p], append([]byte{byte(r.Intn(256))}, out[p:]...)...)
		case 2:
			out = append(out[:p], out[p+1:]...)
		case 3:
			out = out[:p]
		case 4:
			if len(other) > 0 {
				q := r.Intn(len(other))
				e := q + 1 + r.Intn(len(other)-q)
				out = append(out[:p], append(append([]byte{}, other[q:e]...), out[p:]...)...)
			}
		case 5:
			if isJSON {
				t := jsonTokens[r.Intn(len(jsonTokens))]
				out = append(out[:p], append([]byte(t), out[p:]...)...)
			} else {
				out[p] = []byte{0xc0, 0x90, 0x80, 0xa0, 0xd4, 0xc7, 0x92, 0x91, 0xc2, 0xcb, 0xca, 0xd3, 0xcf}[r.Intn(13)]
			}
		case 6:
			if isJSON {
				out = []byte(norm.NFD.String(string(out)))
			} else {
				out[p] = byte(r.Intn(256))
			}
		default:
			out[p] = byte(r.Intn(256))
		}
	}
	out = reHugeExp.ReplaceAll(out, []byte("${1}99"))
	if !isJSON {
		// array32 / map32 headers make the decoder pre-allocate by the claimed length (known, C17's subject);
		// keep them out so that this driver's workers are not killed by the memory limit
		for i := range out {
			if out[i] == 0xdd || out[i] == 0xdf {
				out[i] = 0xdc
			}
		}
	}
	return out
}

func constraintFor(r *core.Rand, ty cty.Type) cty.Type {
	switch r.Intn(4) {
	case 0:
		return cty.DynamicPseudoType
	case 1:
		return gen.DeriveConstraint(r, ty, 25)
	}
	return ty
}

func caseJSON(m *monitor, r *core.Rand) string {
	if r.Chance(1, 4) {
		return caseJSONWrapper(m, r)
	}
	v := codecValue(r, false)
	cons := constraintFor(r, v.Type())
	var b []byte
	var err error
	if !m.call("json.Marshal", func() { b, err = ctyjson.Marshal(v, cons) }) || err != nil {
		return "json(marshal failed) " + gs(v)
	}
	var other []byte
	core.Guard(func() { other, _ = ctyjson.Marshal(cty.UnknownAsNull(codecValue(r, false)), cty.DynamicPseudoType) })
	text := fmt.Sprintf("json %s as %#v", b, cons)
	decode := func(buf []byte, ty cty.Type, class string) {
		var out cty.Value
		var e error
		if m.call("json.Unmarshal", func() { out, e = ctyjson.Unmarshal(buf, ty) }) {
			if e == nil {
				m.see("json.Unmarshal", class, out, func() string { return fmt.Sprintf("%q as %#v", buf, ty) })
			} else if out != cty.NilVal {
				m.see("json.Unmarshal", class+" (value returned with an error)", out, func() string { return fmt.Sprintf("%q as %#v", buf, ty) })
			}
		}
		var ity cty.Type
		if m.call("json.ImpliedType", func() { ity, e = ctyjson.ImpliedType(buf) }) && e == nil {
			if m.call("json.Unmarshal", func() { out, e = ctyjson.Unmarshal(buf, ity) }) && e == nil {
				m.see("json.Unmarshal(ImpliedType)", class, out, func() string { return fmt.Sprintf("%q as implied %#v", buf, ity) })
			}
		}
		var sv ctyjson.SimpleJSONValue
		if m.call("json.SimpleJSONValue", func() { e = sv.UnmarshalJSON(buf) }) && e == nil {
			m.see("json.SimpleJSONValue.UnmarshalJSON", class, sv.Value, func() string { return fmt.Sprintf("%q", buf) })
		}
	}
	decode(b, cons, "valid encoding")
	if r.Chance(1, 3) {
		// the same document against a related constraint (different collection kinds, drifted primitives)
		decode(b, relatedTarget(r, v.Type(), 0).WithoutOptionalAttributesDeep(), "valid encoding, related constraint")
	}
	for k, n := 0, 1+r.Intn(3); k < n; k++ {
		mb := mutateBytes(r, b, other, true)
		decode(mb, cons, "mutated encoding")
		text += fmt.Sprintf(" | %q", mb)
	}
	return text
}

// caseJSONWrapper hand-builds the {"type":…,"value":…} wrapper the decoder
// accepts in dynamic positions; the type descriptor is data, so it may be any
// type MarshalType can write, including types with optional attributes.
func caseJSONWrapper(m *monitor, r *core.Rand) string {
	v := codecValue(r, false)
	wty := relatedTarget(r, v.Type(), 0)
	if wty == cty.DynamicPseudoType {
		wty = v.Type()
	}
	var tyJSON []byte
	var err error
	if o := core.Guard(func() { tyJSON, err = ctyjson.MarshalType(wty) }); o.Panicked || err != nil {
		return "jsonwrapper(type not serializable)"
	}
	valDoc := "null"
	switch r.Intn(5) {
	case 0:
	case 1:
		valDoc = []string{"[]", "{}", "[null]", `{"a":null}`, `""`, "0"}[r.Intn(6)]
	default:
		core.Guard(func() {
			if cv, e := convert.Convert(v, wty); e == nil {
				if b, e2 := ctyjson.Marshal(cty.UnknownAsNull(cv), cv.Type()); e2 == nil {
					valDoc = string(b)
				}
			}
		})
	}
	w := fmt.Sprintf(`{"type":%s,"value":%s}`, tyJSON, valDoc)
	if r.Chance(1, 4) {
		w = fmt.Sprintf(`{"value":%s,"type":%s}`, valDoc, tyJSON)
	}
	var doc string
	var cons cty.Type
	switch r.Intn(5) {
	case 0:
		doc, cons = "["+w+"]", cty.Tuple([]cty.Type{cty.DynamicPseudoType})
	case 1:
		doc, cons = `{"a":`+w+`}`, cty.Object(map[string]cty.Type{"a": cty.DynamicPseudoType})
	case 2:
		doc, cons = "["+w+","+w+"]", cty.List(cty.DynamicPseudoType)
	case 3:
		doc, cons = `{"k":`+w+`}`, cty.Map(cty.DynamicPseudoType)
	default:
		doc, cons = w, cty.DynamicPseudoType
	}
	cls := "dynamic wrapper, type descriptor plain"
	if strings.Contains(convClass(wty), "optional") {
		cls = "dynamic wrapper, type descriptor has optional attributes"
	}
	var out cty.Value
	if m.call("json.Unmarshal", func() { out, err = ctyjson.Unmarshal([]byte(doc), cons) }) && err == nil {
		m.see("json.Unmarshal", cls, out, func() string { return fmt.Sprintf("%s as %#v", doc, cons) })
	}
	return "jsonwrapper " + doc
}

func caseMsgpack(m *monitor, r *core.Rand) string {
	if r.Chance(1, 4) {
		return caseMsgpackWrapper(m, r)
	}
	v := codecValue(r, true)
	cons := constraintFor(r, v.Type())
	var b []byte
	var err error
	if !m.call("msgpack.Marshal", func() { b, err = msgpack.Marshal(v, cons) }) || err != nil {
		return "msgpack(marshal failed) " + gs(v)
	}
	var other []byte
	core.Guard(func() { other, _ = msgpack.Marshal(codecValue(r, true), cty.DynamicPseudoType) })
	text := fmt.Sprintf("msgpack %x as %#v", b, cons)
	decode := func(buf []byte, ty cty.Type, class string) {
		var out cty.Value
		var e error
		if m.call("msgpack.Unmarshal", func() { out, e = msgpack.Unmarshal(buf, ty) }) {
			if e == nil {
				m.see("msgpack.Unmarshal", class, out, func() string { return fmt.Sprintf("%x as %#v", buf, ty) })
			} else if out != cty.NilVal {
				m.see("msgpack.Unmarshal", class+" (value returned with an error)", out, func() string { return fmt.Sprintf("%x as %#v", buf, ty) })
			}
		}
		var ity cty.Type
		if m.call("msgpack.ImpliedType", func() { ity, e = msgpack.ImpliedType(buf) }) && e == nil {
			if m.call("msgpack.Unmarshal", func() { out, e = msgpack.Unmarshal(buf, ity) }) && e == nil {
				m.see("msgpack.Unmarshal(ImpliedType)", class, out, func() string { return fmt.Sprintf("%x as implied %#v", buf, ity) })
			}
		}
	}
	decode(b, cons, "valid encoding")
	if r.Chance(1, 3) {
		decode(b, relatedTarget(r, v.Type(), 0).WithoutOptionalAttributesDeep(), "valid encoding, related constraint")
	}
	for k, n := 0, 1+r.Intn(3); k < n; k++ {
		mb := mutateBytes(r, b, other, false)
		decode(mb, cons, "mutated encoding")
		text += fmt.Sprintf(" | %x", mb)
	}
	return text
}

// mpBin encodes a msgpack bin value.
func mpBin(b []byte) []byte {
	if len(b) < 256 {
		return append([]byte{0xc4, byte(len(b))}, b...)
	}
	return append([]byte{0xc5, byte(len(b) >> 8), byte(len(b))}, b...)
}

func caseMsgpackWrapper(m *monitor, r *core.Rand) string {
	v := codecValue(r, true)
	wty := relatedTarget(r, v.Type(), 0)
	if wty == cty.DynamicPseudoType {
		wty = v.Type()
	}
	var tyJSON []byte
	var err error
	if o := core.Guard(func() { tyJSON, err = ctyjson.MarshalType(wty) }); o.Panicked || err != nil || len(tyJSON) > 60000 {
		return "msgpackwrapper(type not serializable)"
	}
	val := []byte{0xc0}
	switch r.Intn(6) {
	case 0:
	case 1:
		val = [][]byte{{0x90}, {0x80}, {0xd4, 0, 0}, {0x91, 0xc0}, {0xa0}, {0x00}}[r.Intn(6)]
	default:
		core.Guard(func() {
			if cv, e := convert.Convert(v, wty); e == nil {
				if b, e2 := msgpack.Marshal(cv, cv.Type()); e2 == nil {
					val = b
				}
			}
		})
	}
	w := append([]byte{0x92}, append(mpBin(tyJSON), val...)...)
	var doc []byte
	var cons cty.Type
	switch r.Intn(4) {
	case 0:
		doc, cons = append([]byte{0x91}, w...), cty.Tuple([]cty.Type{cty.DynamicPseudoType})
	case 1:
		doc, cons = append([]byte{0x81, 0xa1, 'a'}, w...), cty.Object(map[string]cty.Type{"a": cty.DynamicPseudoType})
	case 2:
		doc, cons = append(append([]byte{0x92}, w...), w...), cty.List(cty.DynamicPseudoType)
	default:
		doc, cons = w, cty.DynamicPseudoType
	}
	cls := "dynamic wrapper, type descriptor plain"
	if strings.Contains(convClass(wty), "optional") {
		cls = "dynamic wrapper, type descriptor has optional attributes"
	}
	var out cty.Value
	if m.call("msgpack.Unmarshal", func() { out, err = msgpack.Unmarshal(doc, cons) }) && err == nil {
		m.see("msgpack.Unmarshal", cls, out, func() string { return fmt.Sprintf("%x (type descriptor %s) as %#v", doc, tyJSON, cons) })
	}
	return fmt.Sprintf("msgpackwrapper %x", doc)
}

// ---------------------------------------------------------------------------
// gocty

type gInner struct {
	Name string            `cty:"name"`
	Tags map[string]string `cty:"tags"`
	N    *int              `cty:"n"`
}

type gOuter struct {
	ID    string             `cty:"id"`
	Inner gInner             `cty:"inner"`
	List  []gInner           `cty:"list"`
	Flags []bool             `cty:"flags"`
	F     float64            `cty:"f"`
	Dyn   cty.Value          `cty:"dyn"`
	Ptr   *gInner            `cty:"ptr"`
	M     map[string][]int64 `cty:"m"`
}

var goTypes = []reflect.Type{
	reflect.TypeOf(""), reflect.TypeOf(int64(0)), reflect.TypeOf(uint8(0)), reflect.TypeOf(float64(0)), reflect.TypeOf(true),
	reflect.TypeOf([]string{}), reflect.TypeOf(map[string]int{}), reflect.TypeOf([]map[string]bool{}), reflect.TypeOf(map[string][]string{}),
	reflect.TypeOf(gInner{}), reflect.TypeOf(gOuter{}), reflect.TypeOf([]gInner{}), reflect.TypeOf(map[string]gInner{}),
	reflect.TypeOf((*string)(nil)), reflect.TypeOf((*gOuter)(nil)), reflect.TypeOf([2]int{}), gen.GoBigFloatType, gen.GoBigIntType, gen.GoCtyValueType,
	reflect.TypeOf([]cty.Value{}), reflect.TypeOf(map[string]cty.Value{}),
}

func caseGocty(m *monitor, r *core.Rand) string {
	gt := goTypes[r.Intn(len(goTypes))]
	gv := gen.GoValue(r, gt, gen.GoValueOpts{NilPct: 15})
	var ity cty.Type
	var err error
	if !m.call("gocty.ImpliedType", func() { ity, err = gocty.ImpliedType(gv.Interface()) }) || err != nil {
		return "gocty(no implied type) " + gt.String()
	}
	targets := []cty.Type{ity, cty.DynamicPseudoType}
	// list<->set<->tuple, map<->object variants of the implied type
	targets = append(targets, swapKinds(r, ity))
	text := fmt.Sprintf("gocty %s %v", gt, gv.Interface())
	for _, ty := range targets {
		ty := ty
		var out cty.Value
		if m.call("gocty.ToCtyValue", func() { out, err = gocty.ToCtyValue(gv.Interface(), ty) }) {
			if err == nil {
				m.see("gocty.ToCtyValue", "", out, func() string { return fmt.Sprintf("%s as %#v", text, ty) })
			} else if out != cty.NilVal {
				m.see("gocty.ToCtyValue", "value returned with an error", out, func() string { return fmt.Sprintf("%s as %#v", text, ty) })
			}
		}
	}
	// cty.Value as the Go target: the bridge stores the value it was given
	v := anyValue(r)
	var back cty.Value
	if m.call("gocty.FromCtyValue", func() { err = gocty.FromCtyValue(v, &back) }) && err == nil {
		m.see("gocty.FromCtyValue(*cty.Value)", "", back, func() string { return gs(v) })
	}
	return text
}

func swapKinds(r *core.Rand, ty cty.Type) cty.Type {
	switch {
	case ty.IsListType():
		e := swapKinds(r, ty.ElementType())
		if r.Bool() {
			return cty.Set(e)
		}
		return cty.Tuple([]cty.Type{e, e})
	case ty.IsSetType():
		return cty.List(swapKinds(r, ty.ElementType()))
	case ty.IsMapType():
		e := swapKinds(r, ty.ElementType())
		if r.Bool() {
			return cty.Object(map[string]cty.Type{"a": e, "\u00e9": e})
		}
		return cty.Map(e)
	case ty.IsObjectType():
		atys := map[string]cty.Type{}
		src := ty.AttributeTypes()
		for _, k := range sortedTypeNames(src) {
			atys[k] = swapKinds(r, src[k])
		}
		return cty.Object(atys)
	case ty.IsTupleType():
		ets := ty.TupleElementTypes()
		out := make([]cty.Type, len(ets))
		for i, e := range ets {
			out[i] = swapKinds(r, e)
		}
		return cty.Tuple(out)
	}
	if r.Chance(1, 8) {
		return cty.DynamicPseudoType
	}
	return ty
}
