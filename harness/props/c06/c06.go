// Package c06: every value the library returns is well-formed for its type.
//
// The driver owns a workload that drives as many value-returning API sites as it
// can reach from the shared generators, and attaches one oracle to every value
// that comes back: the two flavours of the well-formedness walk (hook = internal
// representation, mon.WellFormed = public accessors only) run side by side, plus
// a sweep over every accessor applicable to the value's type.
package c06

import (
	"fmt"
	"sort"

	"github.com/zclconf/go-cty/cty"

	"verif/harness/core"
	"verif/harness/gen"
)

type Driver struct{}

func (Driver) ID() string { return "C06" }

const (
	minSites       = 40  // a batch counts as an observation only if this many sites ...
	minPerSite     = 100 // ... produced at least this many values each in that batch
	corpusBase     = 1_000_000_000
	minNontrivialQ = 200000
)

func (Driver) Info() core.Info {
	return core.Info{
		Title: "every value the library returns is well-formed for its type",
		Rule: "case = one scenario of one workload family (constructors, refinement builders, mark operations, operation methods, ValueSet helpers, " +
			"convert.Convert/GetConversion/Unify to related targets incl. optional attributes and dynamic parts, ~80 stdlib functions + MakeToFunc, JSON and msgpack " +
			"decoders on valid and mutated encodings incl. hand-built dynamic wrappers, Transform/Walk/Path.Apply, gocty.ToCtyValue, call histories in which results " +
			"and predicted-type unknowns of one call are arguments of the next and all earlier values are re-walked after every step) over the shared generators " +
			"(types depth<=3 with dynamic parts, capsules, NFC/NFD twin names; values known/null/unknown/refined/marked at any depth; non-NFC strings and keys; " +
			"duplicate and marked set members); every cty.Value the library hands back (results, members yielded by iterators, bounds of ranges, callback arguments) " +
			"is validated by cty.VerifWellFormed + type dump (hook flavour), mon.WellFormed (public flavour) and an accessor sweep, and counted per API site. " +
			"distinct = hash of (family, inputs); non-trivial = the case returned at least one value AND its batch saw >= 40 API sites with >= 100 values each " +
			"(otherwise the batch contributes nothing and the run fails 'observed nothing')",
		Assumptions: []string{
			"a value the CALLER builds from a type with optional attributes (NullVal/UnknownVal/\u2026Empty of such a type, decoders given such a type) is outside the documented domain and is not generated; optional attributes appear only in conversion targets, MakeToFunc targets and in type descriptors inside encoded bytes",
			"the hook flavour is cty.VerifWellFormed plus a scan of cty.VerifTypeFingerprint for optional flags (VerifWellFormed alone does not look at the type of a null or unknown value)",
			"a panic of an operation method or constructor on misuse returns no value and is not this property's subject (counted as panicked:<site>)",
			"strings are valid UTF-8, floats are never NaN",
		},
		MinNontrivial: minNontrivialQ,
		MemLimitKB:    8 << 20, // 8 GiB of address space per worker: a runaway allocation kills that worker only
	}
}

func (Driver) Batches(tier string) int {
	return ownBatches(tier) + guestRounds(tier)*len(guestDrivers)
}

type family struct {
	name   string
	weight int
	run    func(m *monitor, r *core.Rand) string // returns the canonical case text
}

var families []family

func init() {
	families = []family{
		{"ctor", 10, caseCtor},
		{"refine", 6, caseRefine},
		{"marks", 8, caseMarks},
		{"ops", 14, caseOps},
		{"valueset", 4, caseValueSet},
		{"convert", 16, caseConvert},
		{"unify", 6, caseUnify},
		{"stdlib", 22, caseStdlib},
		{"json", 10, caseJSON},
		{"msgpack", 10, caseMsgpack},
		{"walk", 8, caseWalk},
		{"gocty", 5, caseGocty},
		{"history", 20, caseHistory},
	}
}

func (Driver) Run(c *core.Ctx) {
	if c.Batch >= ownBatches(c.Tier) {
		runGuest(c)
		return
	}
	m := newMonitor(c)
	weights := make([]int, len(families))
	for i, f := range families {
		weights[i] = f.weight
	}
	type rec struct {
		h  uint64
		nt bool
	}
	var recs []rec
	n := int64(c.N(100000, 600000))
	for i := int64(0); i < n; i++ {
		if !c.Want(i) {
			continue
		}
		r := c.RNG(i)
		f := families[r.Weighted(weights)]
		m.caseVals = 0
		m.curCase, m.lastFam = i, f.name
		desc := ""
		c.Begin(i, func() string {
			return fmt.Sprintf("family %s case %d (inputs are printed with the violation)", f.name, i)
		})
		o := core.Guard(func() { desc = f.run(m, r) })
		if o.Panicked {
			// a panic that escaped the per-call guards is a bug of this driver, not of the library
			c.Violate("driver", "unguarded panic in the workload", f.name, fmt.Sprintf("case %d", i), o.PanicMsg+"\n"+o.Stack)
			continue
		}
		c.Count("family:" + f.name)
		if m.caseVals == 0 {
			c.Count("family-no-values:" + f.name)
		}
		recs = append(recs, rec{core.HashString(f.name + "|" + desc), m.caseVals > 0})
		if c.WantSample() && m.caseVals > 3 && i%7 == 3 {
			c.Sample(map[string]any{"family": f.name, "case": clipS(desc, 700), "values_checked": m.caseVals})
		}
		if i%ringPeriod == ringPeriod-1 || i == n-1 {
			// values seen earlier (in any family) and the package-level values are walked again
			if o := core.Guard(m.recheckWindow); o.Panicked {
				c.Violate("driver", "unguarded panic in the workload", "window re-check", fmt.Sprintf("case %d", i), o.PanicMsg+"\n"+o.Stack)
			}
		}
	}
	if c.Batch == 0 {
		runCorpus(c, m, corpusBase)
	}
	// the coverage rule of the property: only a batch that saw enough sites observes anything
	ns, names := m.coverage(minPerSite)
	c.CountN("batch-sites>=100-values(sum over batches)", int64(ns))
	c.CountN("batch-sites-total(sum over batches)", int64(len(names)))
	ok := ns >= minSites
	if ok {
		c.Count("batches-meeting-the-40x100-rule")
	} else {
		c.Count("batches-below-the-40x100-rule")
	}
	for _, x := range recs {
		c.DistinctHash(x.h, x.nt && ok)
	}
}

func clipS(s string, n int) string {
	if len(s) > n {
		return s[:n] + "..."
	}
	return s
}

// ---------------------------------------------------------------------------
// shared input generators of the workload

var tyOpts = gen.TypeOpts{Dynamic: true, Capsule: true, TwinKeys: true}
var tyOptsPlain = gen.TypeOpts{TwinKeys: true}

// anyType draws a value type (no optional attributes).
func anyType(r *core.Rand) cty.Type {
	d := 1 + r.Intn(3)
	if r.Chance(1, 3) {
		return gen.Type(r, d, tyOptsPlain).Cty()
	}
	return gen.Type(r, d, tyOpts).Cty()
}

func valOpts(r *core.Rand) gen.ValueOpts {
	o := gen.ValueOpts{MaxLen: 3, TwinKeys: r.Bool(), LongStr: r.Bool(), SmallNums: r.Chance(1, 3)}
	switch r.Intn(4) {
	case 0: // wholly known
	case 1:
		o.UnknownPct, o.Refined = 15, true
	case 2:
		o.NullPct = 15
	default:
		o.UnknownPct, o.NullPct, o.Refined = 10, 10, r.Bool()
	}
	return o
}

// anyValueOf draws a value of ty: known / null / unknown / refined at any depth, sometimes marked.
func anyValueOf(r *core.Rand, ty cty.Type) cty.Value {
	v := gen.Value(r, ty, valOpts(r))
	if r.Chance(1, 4) {
		v = gen.MarkSome(r, v, 40, 15)
	}
	return v
}

func anyValue(r *core.Rand) cty.Value { return anyValueOf(r, anyType(r)) }

// unmarkedValue draws a value without marks.
func unmarkedValue(r *core.Rand, ty cty.Type) cty.Value { return gen.Value(r, ty, valOpts(r)) }

// knownValue draws a wholly known, non-null (at top) unmarked value.
func knownValue(r *core.Rand, ty cty.Type) cty.Value {
	return gen.Value(r, ty, gen.ValueOpts{MaxLen: 3, TwinKeys: r.Bool(), LongStr: r.Bool(), NoTopNull: true, NoTopUnk: true})
}

func gs(v cty.Value) string {
	if v == cty.NilVal {
		return "cty.NilVal"
	}
	if hugeNumber(v, 0) {
		return "<value holding a number with an astronomically large exponent, not printed>"
	}
	s := ""
	o := core.Guard(func() { s = fmt.Sprintf("%#v", v) })
	if o.Panicked {
		return "<unprintable: " + o.PanicMsg + ">"
	}
	return s
}

func gsAll(vs []cty.Value) string {
	s := "["
	for i, v := range vs {
		if i > 0 {
			s += ", "
		}
		s += gs(v)
	}
	return s + "]"
}

func gsMap(mm map[string]cty.Value) string {
	ks := make([]string, 0, len(mm))
	for k := range mm {
		ks = append(ks, k)
	}
	sort.Strings(ks)
	s := "{"
	for i, k := range ks {
		if i > 0 {
			s += ", "
		}
		s += fmt.Sprintf("%q: %s", k, gs(mm[k]))
	}
	return s + "}"
}

// call runs a library call under recover; a panic is counted, not judged.
func (m *monitor) call(site string, f func()) bool {
	m.c.Eval(1)
	o := core.Guard(f)
	if o.Panicked {
		m.c.Count("panicked:" + site)
		return false
	}
	return true
}
