package c06

import (
	"fmt"

	"github.com/zclconf/go-cty/cty"

	"verif/harness/core"
	"verif/harness/gen"
)

type binOp struct {
	name string
	f    func(a, b cty.Value) cty.Value
}

var numOps = []binOp{
	{"Add", func(a, b cty.Value) cty.Value { return a.Add(b) }},
	{"Subtract", func(a, b cty.Value) cty.Value { return a.Subtract(b) }},
	{"Multiply", func(a, b cty.Value) cty.Value { return a.Multiply(b) }},
	{"Divide", func(a, b cty.Value) cty.Value { return a.Divide(b) }},
	{"Modulo", func(a, b cty.Value) cty.Value { return a.Modulo(b) }},
	{"LessThan", func(a, b cty.Value) cty.Value { return a.LessThan(b) }},
	{"GreaterThan", func(a, b cty.Value) cty.Value { return a.GreaterThan(b) }},
	{"LessThanOrEqualTo", func(a, b cty.Value) cty.Value { return a.LessThanOrEqualTo(b) }},
	{"GreaterThanOrEqualTo", func(a, b cty.Value) cty.Value { return a.GreaterThanOrEqualTo(b) }},
}

var boolOps = []binOp{
	{"And", func(a, b cty.Value) cty.Value { return a.And(b) }},
	{"Or", func(a, b cty.Value) cty.Value { return a.Or(b) }},
}

var eqOps = []binOp{
	{"Equals", func(a, b cty.Value) cty.Value { return a.Equals(b) }},
	{"NotEqual", func(a, b cty.Value) cty.Value { return a.NotEqual(b) }},
}

// operand draws a value of ty in one of the states an operation may meet.
func operand(r *core.Rand, ty cty.Type) cty.Value {
	var v cty.Value
	switch r.Intn(10) {
	case 0:
		v = cty.UnknownVal(ty)
	case 1:
		v = gen.Unknown(r, ty, true)
	case 2:
		v = cty.DynamicVal
	case 3:
		v = cty.NullVal(ty)
	default:
		v = gen.Value(r, ty, valOpts(r))
	}
	if r.Chance(1, 5) {
		v = gen.MarkSome(r, v, 70, 20)
	}
	return v
}

func caseOps(m *monitor, r *core.Rand) string {
	switch r.Intn(9) {
	case 0, 1: // numeric
		a, b := operand(r, cty.Number), operand(r, cty.Number)
		wit := func() string { return gs(a) + ", " + gs(b) }
		for _, op := range numOps {
			var out cty.Value
			if m.call("Value."+op.name, func() { out = op.f(a, b) }) {
				m.see("Value."+op.name, "", out, wit)
			}
		}
		var n, ab cty.Value
		if m.call("Value.Negate", func() { n = a.Negate() }) {
			m.see("Value.Negate", "", n, wit)
		}
		if m.call("Value.Absolute", func() { ab = a.Absolute() }) {
			m.see("Value.Absolute", "", ab, wit)
		}
		return "num " + wit()
	case 2: // boolean
		a, b := operand(r, cty.Bool), operand(r, cty.Bool)
		wit := func() string { return gs(a) + ", " + gs(b) }
		for _, op := range boolOps {
			var out cty.Value
			if m.call("Value."+op.name, func() { out = op.f(a, b) }) {
				m.see("Value."+op.name, "", out, wit)
			}
		}
		var n cty.Value
		if m.call("Value.Not", func() { n = a.Not() }) {
			m.see("Value.Not", "", n, wit)
		}
		return "bool " + wit()
	case 3, 4: // equality over anything
		ty := anyType(r)
		a := operand(r, ty)
		var b cty.Value
		switch r.Intn(4) {
		case 0:
			b = a
		case 1:
			b = operand(r, anyType(r))
		default:
			b = operand(r, ty)
		}
		wit := func() string { return gs(a) + ", " + gs(b) }
		for _, op := range eqOps {
			var out cty.Value
			if m.call("Value."+op.name, func() { out = op.f(a, b) }) {
				m.see("Value."+op.name, "", out, wit)
			}
		}
		return "eq " + wit()
	case 5: // Index / HasIndex / Length on lists, maps, tuples
		var coll, key cty.Value
		ety := anyType(r)
		switch r.Intn(3) {
		case 0:
			coll = operand(r, cty.List(ety))
			key = operand(r, cty.Number)
			if r.Bool() {
				key = cty.NumberIntVal(int64(r.Intn(4)))
			}
		case 1:
			coll = operand(r, cty.Map(ety))
			key = operand(r, cty.String)
			if r.Bool() {
				key = cty.StringVal(gen.Key(r))
			}
		default:
			coll = operand(r, cty.Tuple([]cty.Type{ety, anyType(r)}))
			key = cty.NumberIntVal(int64(r.Intn(3)))
			if r.Chance(1, 4) {
				key = operand(r, cty.Number)
			}
		}
		wit := func() string { return gs(coll) + ", " + gs(key) }
		var a, b, c cty.Value
		if m.call("Value.Index", func() { a = coll.Index(key) }) {
			m.see("Value.Index", "", a, wit)
		}
		if m.call("Value.HasIndex", func() { b = coll.HasIndex(key) }) {
			m.see("Value.HasIndex", "", b, wit)
		}
		if m.call("Value.Length", func() { c = coll.Length() }) {
			m.see("Value.Length", "", c, wit)
		}
		return "index " + wit()
	case 6: // GetAttr
		ot := gen.ObjectType(r, 3, tyOpts)
		obj := operand(r, ot.Cty())
		names := ot.AttrNames()
		text := "getattr " + gs(obj)
		for _, n := range names {
			n := n
			var a cty.Value
			if m.call("Value.GetAttr", func() { a = obj.GetAttr(n) }) {
				m.see("Value.GetAttr", "", a, func() string { return gs(obj) + "." + n })
			}
		}
		return text
	case 7: // HasElement / Length on sets
		ety := gen.Type(r, 2, tyOpts).Cty()
		s := operand(r, cty.Set(ety))
		e := operand(r, ety)
		if su, _ := s.Unmark(); su.IsKnown() && !su.IsNull() && su.LengthInt() > 0 && r.Bool() {
			es := su.AsValueSlice()
			e = es[r.Intn(len(es))]
		}
		wit := func() string { return gs(s) + ", " + gs(e) }
		var a, b cty.Value
		if m.call("Value.HasElement", func() { a = s.HasElement(e) }) {
			m.see("Value.HasElement", "", a, wit)
		}
		if m.call("Value.Length", func() { b = s.Length() }) {
			m.see("Value.Length", "set", b, wit)
		}
		return "haselement " + wit()
	default: // operations with operands of arbitrary (often wrong) types: what comes back must still be well-formed
		a, b := operand(r, anyType(r)), operand(r, anyType(r))
		wit := func() string { return gs(a) + ", " + gs(b) }
		all := append(append(append([]binOp{}, numOps...), boolOps...), eqOps...)
		op := all[r.Intn(len(all))]
		var out cty.Value
		if m.call("Value."+op.name, func() { out = op.f(a, b) }) {
			m.see("Value."+op.name, "arbitrary operand types", out, wit)
		}
		var c, d, e cty.Value
		if m.call("Value.Index", func() { c = a.Index(b) }) {
			m.see("Value.Index", "arbitrary operand types", c, wit)
		}
		if m.call("Value.HasIndex", func() { d = a.HasIndex(b) }) {
			m.see("Value.HasIndex", "arbitrary operand types", d, wit)
		}
		if m.call("Value.Length", func() { e = a.Length() }) {
			m.see("Value.Length", "arbitrary operand types", e, wit)
		}
		return fmt.Sprintf("misc %s %s", op.name, wit())
	}
}
