package c06

import (
	"fmt"

	"github.com/zclconf/go-cty/cty"

	"verif/harness/core"
	"verif/harness/gen"
)

type enterExit struct {
	enter, exit func(cty.Path, cty.Value) (cty.Value, error)
}

func (t enterExit) Enter(p cty.Path, v cty.Value) (cty.Value, error) { return t.enter(p, v) }
func (t enterExit) Exit(p cty.Path, v cty.Value) (cty.Value, error)  { return t.exit(p, v) }

func pathText(p cty.Path) string {
	s := ""
	for _, st := range p {
		switch t := st.(type) {
		case cty.GetAttrStep:
			s += "." + t.Name
		case cty.IndexStep:
			s += "[" + gs(t.Key) + "]"
		}
	}
	return s
}

// sameTypeReplacement returns a value of v's type in another state.
func sameTypeReplacement(r *core.Rand, v cty.Value) cty.Value {
	ty := v.Type()
	switch r.Intn(5) {
	case 0:
		return cty.UnknownVal(ty)
	case 1:
		return cty.NullVal(ty)
	case 2:
		return v.Mark(gen.Marks[r.Intn(3)])
	case 3:
		if ty == cty.DynamicPseudoType {
			return v
		}
		return gen.Value(r, ty, valOpts(r))
	}
	return v
}

func caseWalk(m *monitor, r *core.Rand) string {
	v := anyValue(r)
	if r.Chance(1, 3) {
		v = gen.MarkSome(r, v, 30, 30)
	}
	wit := func() string { return gs(v) }
	// Walk: every value handed to the callback, and the paths for Path.Apply
	type pv struct {
		p cty.Path
	}
	var paths []cty.Path
	m.call("cty.Walk", func() {
		cty.Walk(v, func(p cty.Path, x cty.Value) (bool, error) {
			m.see("cty.Walk(callback value)", "", x, func() string { return gs(v) + " at " + pathText(p) })
			paths = append(paths, p.Copy())
			return true, nil
		})
	})
	for _, p := range paths {
		p := p
		if len(p) == 0 || !r.Chance(2, 3) {
			continue
		}
		var out cty.Value
		var err error
		if m.call("Path.Apply", func() { out, err = p.Apply(v) }) && err == nil {
			m.see("Path.Apply", "", out, func() string { return gs(v) + " path " + pathText(p) })
		}
		if m.call("Path.LastStep", func() { out, _, err = p.LastStep(v) }) && err == nil {
			m.see("Path.LastStep", "", out, func() string { return gs(v) + " path " + pathText(p) })
		}
	}
	// paths with unknown / foreign keys applied to the value
	for k := 0; k < 2; k++ {
		var p cty.Path
		for d, n := 0, 1+r.Intn(3); d < n; d++ {
			switch r.Intn(5) {
			case 0:
				p = p.GetAttr(gen.Key(r))
			case 1:
				p = p.IndexInt(r.Intn(3))
			case 2:
				p = p.IndexString(gen.Key(r))
			case 3:
				p = p.Index(cty.UnknownVal(cty.Number))
			default:
				p = p.Index(cty.UnknownVal(cty.String))
			}
		}
		var out cty.Value
		var err error
		if m.call("Path.Apply", func() { out, err = p.Apply(v) }) && err == nil {
			m.see("Path.Apply", "generated path", out, func() string { return gs(v) + " path " + pathText(p) })
		}
	}
	// Transform
	mode := r.Intn(5)
	var out cty.Value
	var err error
	cb := func(p cty.Path, x cty.Value) (cty.Value, error) {
		m.see("cty.Transform(callback value)", "", x, func() string { return gs(v) + " at " + pathText(p) })
		switch mode {
		case 0:
			return x, nil
		case 1:
			if r.Chance(1, 4) {
				return sameTypeReplacement(r, x), nil
			}
		case 2:
			if r.Chance(1, 3) {
				return x.Mark(gen.Marks[r.Intn(3)]), nil
			}
		case 3:
			if !x.IsKnown() {
				return cty.NullVal(x.Type()), nil
			}
		case 4:
			if r.Chance(1, 5) {
				u, _ := x.Unmark()
				return u, nil
			}
		}
		return x, nil
	}
	cls := fmt.Sprintf("callback mode %d", mode)
	if m.call("cty.Transform", func() { out, err = cty.Transform(v, cb) }) && err == nil {
		m.see("cty.Transform", cls, out, wit)
	}
	tr := enterExit{
		enter: func(p cty.Path, x cty.Value) (cty.Value, error) {
			m.see("cty.TransformWithTransformer(Enter value)", "", x, wit)
			if mode == 1 && r.Chance(1, 6) {
				return sameTypeReplacement(r, x), nil
			}
			return x, nil
		},
		exit: cb,
	}
	if m.call("cty.TransformWithTransformer", func() { out, err = cty.TransformWithTransformer(v, tr) }) && err == nil {
		m.see("cty.TransformWithTransformer", cls, out, wit)
	}
	return fmt.Sprintf("walk mode %d %s", mode, gs(v))
}
