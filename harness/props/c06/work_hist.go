package c06

// Histories: a value is checked when the library hands it back, but a value is
// also required to STAY what it was (values are immutable). A later call that
// writes into storage an earlier value shares - the element-type slice of a tuple
// type, the attribute map of an object type, the payload slice or map of a
// collection - leaves that earlier value with a payload that no longer fits its
// type. Nothing is wrong with what the later call returns, so a monitor that only
// looks at each value at the moment it is returned cannot see it.
//
// Two observation points are added here:
//
//   - the "history" workload family chains calls: the result of one stdlib /
//     convert / operation / constructor call (and an unknown of the type a function
//     predicts for the call) becomes an argument of the next one; every value that
//     took part (generated start values, values of the same type in another state,
//     arguments, results) is held, and after every step all held values are walked
//     again by both flavours. The step after which an earlier value stops being
//     well-formed is the site of the violation.
//   - a per-worker window over ALL families: every 16th well-formed value is kept
//     in a ring of 32 and the ring, plus the package-level values every caller
//     shares (cty.EmptyObjectVal, cty.EmptyTupleVal, cty.True, ...), is walked again
//     every 64 cases.

import (
	"fmt"
	"strings"

	"github.com/zclconf/go-cty/cty"
	"github.com/zclconf/go-cty/cty/convert"

	"verif/harness/core"
	"verif/harness/gen"
)

const (
	ringSize    = 32
	ringEvery   = 16 // every 16th well-formed value is kept
	ringPeriod  = 64 // cases between two re-checks of the ring
	maxHeld     = 14
	maxArgNodes = 40

	clsLaterStep = "earlier value of this history, well-formed when first seen, re-checked after this call"
	clsLaterRing = "well-formed when returned, re-checked after later calls of other cases"
)

type ringVal struct {
	v    cty.Value
	site string
	text string
	at   int64
	live bool
}

// remember offers a value that just passed the full check to the ring.
func (m *monitor) remember(site string, v cty.Value) {
	m.offered++
	if m.offered%ringEvery != 0 {
		return
	}
	slot := (m.offered / ringEvery) % ringSize
	m.ring[slot] = ringVal{v: v, site: site, text: gs(v), at: m.curCase, live: true}
	m.c.Count("window:values-kept")
}

var sharedValues = []struct {
	name string
	v    cty.Value
}{
	{"cty.EmptyObjectVal", cty.EmptyObjectVal},
	{"cty.EmptyTupleVal", cty.EmptyTupleVal},
	{"cty.True", cty.True},
	{"cty.False", cty.False},
	{"cty.Zero", cty.Zero},
	{"cty.PositiveInfinity", cty.PositiveInfinity},
	{"cty.NegativeInfinity", cty.NegativeInfinity},
	{"cty.DynamicVal", cty.DynamicVal},
}

var sharedDead = make([]bool, len(sharedValues))

// recheckWindow walks the ring and the package-level values again.
func (m *monitor) recheckWindow() {
	for i := range m.ring {
		rv := &m.ring[i]
		if !rv.live {
			continue
		}
		m.c.Count("window:re-checks")
		wit := func() string { return rv.text }
		pub, hk := m.verdict(rv.site, rv.v, false, wit)
		if pub == "" && hk == "" {
			continue
		}
		rv.live = false
		pre := fmt.Sprintf("well-formed when returned in case %d as %s; re-checked after case %d (last family run: %s); replay the whole batch, not the single case\nnow: ", rv.at, rv.text, m.curCase, m.lastFam)
		m.report(rv.site, clsLaterRing, rv.v, pub, hk, rv.text, pre, false)
	}
	m.recheckShared()
}

func (m *monitor) recheckShared() {
	for i, sv := range sharedValues {
		if sharedDead[i] {
			continue
		}
		m.c.Count("window:re-checks of package-level values")
		wit := func() string { return sv.name }
		pub, hk := m.verdict(sv.name, sv.v, false, wit)
		if pub == "" && hk == "" {
			continue
		}
		sharedDead[i] = true
		pre := fmt.Sprintf("package-level value %s re-checked after case %d (last family run: %s); replay the whole batch\nnow: ", sv.name, m.curCase, m.lastFam)
		m.report(sv.name, clsLaterRing, sv.v, pub, hk, sv.name, pre, false)
	}
}

// ---------------------------------------------------------------------------
// the history family

type heldVal struct {
	v      cty.Value
	origin string
	text   string
	dead   bool
}

type hist struct {
	m     *monitor
	r     *core.Rand
	held  []*heldVal
	poolN int
	log   []string
}

const (
	kSeq = iota
	kMap
	kStr
	kNum
	kBool
	kOther
)

func kindOfType(ty cty.Type) int {
	switch {
	case ty.IsListType(), ty.IsSetType(), ty.IsTupleType():
		return kSeq
	case ty.IsMapType(), ty.IsObjectType():
		return kMap
	case ty == cty.String:
		return kStr
	case ty == cty.Number:
		return kNum
	case ty == cty.Bool:
		return kBool
	}
	return kOther
}

func kindOf(v cty.Value) int { return kindOfType(v.Type()) }

// nodes counts the parts of v up to limit (arguments are kept small: sizes
// multiply along a chain, and resource use is not this property's subject).
func nodes(v cty.Value, limit int) (n int) {
	defer func() {
		if recover() != nil {
			n = limit + 1
		}
	}()
	u, _ := v.Unmark()
	n = 1
	if !u.IsKnown() || u.IsNull() {
		return n
	}
	ty := u.Type()
	switch {
	case ty == cty.String:
		return 1 + len(u.AsString())/16
	case ty.IsCollectionType() || ty.IsTupleType() || ty.IsObjectType():
		for it := u.ElementIterator(); it.Next(); {
			_, ev := it.Element()
			n += nodes(ev, limit-n)
			if n > limit {
				return n
			}
		}
	}
	return n
}

func (h *hist) hold(v cty.Value, origin string, checked bool) *heldVal {
	if v == cty.NilVal {
		return nil
	}
	if !checked {
		pub, hk := h.m.verdict("history", v, false, func() string { return origin })
		if pub != "" || hk != "" {
			// not well-formed to begin with (it is reported where it was made, if the library made it)
			h.m.c.Count("history:not-held(ill-formed at entry)")
			return nil
		}
	}
	e := &heldVal{v: v, origin: origin, text: gs(v)}
	if len(h.held) >= maxHeld {
		// replace one of the values that came later than the start values
		h.held[h.poolN+h.r.Intn(len(h.held)-h.poolN)] = e
		h.m.c.Count("history:held-value-replaced")
		return e
	}
	h.held = append(h.held, e)
	return e
}

// recheck walks every held value again after the call at site.
func (h *hist) recheck(site string) {
	for i, e := range h.held {
		if e.dead {
			continue
		}
		h.m.c.Count("history:re-checks")
		pub, hk := h.m.verdict(site, e.v, false, func() string { return e.text })
		if pub == "" && hk == "" {
			continue
		}
		e.dead = true
		pre := fmt.Sprintf("held value #%d (%s), well-formed before this step as %s\nnow: ", i, e.origin, e.text)
		h.m.report(site, clsLaterStep, e.v, pub, hk, h.text(), pre, false)
	}
}

func (h *hist) text() string { return strings.Join(h.log, "\n") }

// pick draws a held value that is small enough to be an argument; structural
// values are preferred (a chain over primitives shares nothing).
func (h *hist) pick() cty.Value {
	for try := 0; try < 6; try++ {
		e := h.held[h.r.Intn(len(h.held))]
		if e.dead || nodes(e.v, maxArgNodes) > maxArgNodes {
			continue
		}
		if k := kindOf(e.v); (k == kSeq || k == kMap) || try >= 3 {
			return e.v
		}
	}
	return cty.NilVal
}

func (h *hist) pickKind(k int) (cty.Value, bool) {
	for try := 0; try < 4; try++ {
		e := h.held[h.r.Intn(len(h.held))]
		if !e.dead && kindOf(e.v) == k && nodes(e.v, maxArgNodes) <= maxArgNodes {
			return e.v, true
		}
	}
	return cty.NilVal, false
}

// histStart draws a start value: mostly structural, tuples and objects first
// (their types own a slice / a map that other types and values can come to share).
func histStart(r *core.Rand) cty.Value {
	o := valOpts(r)
	o.SmallNums = true
	switch r.Intn(11) {
	case 0, 1, 2, 10:
		n := 2 + r.Intn(3)
		ts := make([]cty.Type, n)
		for i := range ts {
			ts[i] = elemType(r)
		}
		o.NoTopNull, o.NoTopUnk = true, true
		return gen.Value(r, cty.Tuple(ts), o)
	case 3, 4:
		return gen.Value(r, cty.List(elemType(r)), o)
	case 5:
		return gen.Value(r, gen.ObjectType(r, 2, tyOptsPlain).Cty(), o)
	case 6:
		return gen.Value(r, cty.Map(elemType(r)), o)
	case 7:
		return gen.Value(r, cty.Set(elemType(r)), o)
	}
	return anyValue(r)
}

// relative derives a value that shares v's type (the very same Type value, so
// whatever storage the type owns) or v's payload, in another state.
func relative(r *core.Rand, v cty.Value) (cty.Value, string) {
	ty := v.Type()
	switch r.Intn(8) {
	case 0, 1, 2:
		return cty.UnknownVal(ty), "cty.UnknownVal of the type of the previous value"
	case 3:
		return cty.NullVal(ty), "cty.NullVal of the type of the previous value"
	case 4:
		if ty == cty.DynamicPseudoType {
			return cty.DynamicVal, "cty.DynamicVal"
		}
		return gen.Unknown(r, ty, true), "refined unknown of the type of the previous value"
	case 5:
		return v.Mark(gen.Marks[r.Intn(3)]), "the previous value, marked"
	case 6:
		return cty.UnknownVal(ty).Mark(gen.Marks[r.Intn(3)]), "marked cty.UnknownVal of the type of the previous value"
	}
	return gen.Value(r, ty, valOpts(r)), "another generated value of the type of the previous value"
}

var fnByName = map[string]fnDef{}

// structFns: the functions that take a value of the kind and hand back a structure again, so that the
// chain goes on with a value whose type the library computed (listed twice: the ones that work on
// lists and tuples alike).
var structFns = map[int][]string{
	kSeq: {
		"slice", "slice", "concat", "concat", "reverselist", "reverselist", "flatten", "flatten", "chunklist", "chunklist",
		"distinct", "distinct", "coalescelist", "coalescelist", "setproduct", "setproduct", "compact", "sort", "zipmap",
		"setunion", "setintersection", "setsubtract", "setsymmetricdifference",
	},
	kMap: {"keys", "values", "merge", "merge", "lookup"},
	kStr: {"split", "regexall", "regex", "jsondecode", "csvdecode"},
	kNum: {"range"},
}

// fnsByKind: everything else a value of each kind can be passed to.
var fnsByKind = map[int][]string{
	kSeq: {
		"element", "index", "hasindex", "contains", "sethaselement", "length", "join", "formatlist", "jsonencode", "equal",
		"coalesce", "assertnotnull",
	},
	kMap: {"index", "hasindex", "length", "jsonencode", "equal", "notequal", "coalesce", "assertnotnull"},
	kStr: {
		"chomp", "lower", "upper", "title", "trimspace", "trim", "trimprefix", "trimsuffix", "replace", "regex_replace",
		"substr", "strlen", "reverse", "indent", "format", "join", "coalesce",
	},
	kNum:   {"abs", "add", "ceil", "floor", "int", "max", "min", "negate", "signum", "subtract", "coalesce", "format"},
	kBool:  {"and", "or", "not", "coalesce", "equal", "format"},
	kOther: {"assertnotnull", "jsonencode", "equal", "notequal", "coalesce", "length", "format"},
}

// functions whose first parameter takes a value of any type
var anyFirst = map[string]bool{"assertnotnull": true, "jsonencode": true, "equal": true, "notequal": true, "coalesce": true}

func init() {
	for _, fd := range fnTable {
		fnByName[fd.name] = fd
	}
	for _, tab := range []map[int][]string{structFns, fnsByKind} {
		for _, names := range tab {
			for _, n := range names {
				if _, ok := fnByName[n]; !ok {
					panic("c06: history names the unknown function " + n)
				}
			}
		}
	}
}

// seqLen is the length of a sequence as far as it is known (-1: not known).
func seqLen(v cty.Value) (n int) {
	defer func() {
		if recover() != nil {
			n = -1
		}
	}()
	u, _ := v.Unmark()
	if u.Type().IsTupleType() {
		return u.Type().Length()
	}
	if u.IsKnown() && !u.IsNull() && u.Type().IsCollectionType() {
		return u.LengthInt()
	}
	return -1
}

func caseHistory(m *monitor, r *core.Rand) string {
	h := &hist{m: m, r: r}
	for i, n := 0, 2+r.Intn(2); i < n; i++ {
		v := histStart(r)
		e := h.hold(v, "generated start value", false)
		if e == nil {
			continue
		}
		h.log = append(h.log, fmt.Sprintf("#%d = %s", len(h.held)-1, e.text))
		if r.Chance(3, 5) {
			var rel cty.Value
			var how string
			if core.Guard(func() { rel, how = relative(r, v) }).Panicked {
				continue
			}
			if e2 := h.hold(rel, how, false); e2 != nil {
				h.log = append(h.log, fmt.Sprintf("#%d = %s: %s", len(h.held)-1, how, e2.text))
			}
		}
	}
	if len(h.held) == 0 {
		return "history (no start value)"
	}
	h.poolN = len(h.held)
	cur := h.pick()
	for s, steps := 0, 4+r.Intn(5); s < steps; s++ {
		if cur == cty.NilVal {
			if cur = h.pick(); cur == cty.NilVal {
				break
			}
		}
		var outs []cty.Value
		switch x := r.Intn(20); {
		case x < 14:
			outs = h.stepStdlib(cur)
		case x < 16:
			outs = h.stepConvert(cur)
		case x < 17:
			outs = h.stepMember(cur)
		case x < 18:
			outs = h.stepCtor(cur)
		default:
			outs = h.stepState(cur)
		}
		m.c.Count("history:steps")
		cur = cty.NilVal
		if len(outs) > 0 && r.Chance(9, 10) {
			cur = outs[r.Intn(len(outs))]
			if nodes(cur, maxArgNodes) > maxArgNodes {
				cur = cty.NilVal
			}
		}
	}
	m.recheckShared()
	return "history " + h.text()
}

// result sees, holds and logs a value the step got back.
func (h *hist) result(site, class, how string, out cty.Value, outs *[]cty.Value) {
	if !h.m.see(site, class, out, h.text) {
		return
	}
	*outs = append(*outs, out)
	if !ownsStorage(out) {
		// a known or null primitive has nothing a later call could write into
		h.log[len(h.log)-1] += fmt.Sprintf("\n   -> (%s) %s", how, gs(out))
		return
	}
	if e := h.hold(out, how, true); e != nil {
		h.log[len(h.log)-1] += fmt.Sprintf("\n   -> (%s) %s", how, e.text)
	}
}

// ownsStorage: structural types own a slice or a map, structural payloads too, and an
// unknown value points to its refinements.
func ownsStorage(v cty.Value) bool {
	ty := v.Type()
	if ty.IsPrimitiveType() {
		u, _ := v.Unmark()
		return !u.IsKnown()
	}
	return true
}

func (h *hist) stepStdlib(cur cty.Value) (outs []cty.Value) {
	r, m := h.r, h.m
	k := kindOf(cur)
	var fd fnDef
	switch x := r.Intn(20); {
	case x < 15 && len(structFns[k]) > 0:
		fd = fnByName[structFns[k][r.Intn(len(structFns[k]))]]
	case x < 18:
		fd = fnByName[fnsByKind[k][r.Intn(len(fnsByKind[k]))]]
	default:
		fd = fnTable[r.Intn(len(fnTable))]
	}
	var args []cty.Value
	if o := core.Guard(func() { args = fd.args(r) }); o.Panicked {
		m.c.Count("stdlib:argument-generator-panicked")
		return nil
	}
	if len(args) == 0 {
		args = []cty.Value{cur}
	}
	placed := false
	fromWindow := make([]bool, len(args))
	for i := range args {
		fits := kindOf(args[i]) == k || (i == 0 && anyFirst[fd.name])
		switch {
		case fits && !placed:
			args[i], placed, fromWindow[i] = cur, true, true
		case placed && kindOf(args[i]) != kNum && r.Chance(1, 2):
			// further arguments of the same kind come from the window too
			if o, ok := h.pickKind(kindOf(args[i])); ok {
				args[i], fromWindow[i] = o, true
			}
		}
	}
	if placed {
		m.c.Count("history:stdlib-step with an earlier value as argument")
		if n := seqLen(cur); k == kSeq && n >= 0 {
			// numbers next to a sequence are positions in it or sizes: mostly draw them inside the sequence
			last, lastAt := -1, -1
			for i := range args {
				if args[i].Type() == cty.Number && args[i].IsKnown() && !args[i].IsNull() && !args[i].IsMarked() && r.Chance(7, 10) {
					x := r.Intn(n + 1)
					if x < last && r.Chance(3, 4) {
						// two positions are mostly a range: in order
						args[lastAt], x = cty.NumberIntVal(int64(x)), last
					}
					args[i] = cty.NumberIntVal(int64(x))
					last, lastAt = x, i
				}
			}
		}
	}
	// the states a caller may pass for any parameter, now and then
	for i := range args {
		if r.Chance(1, 4) {
			one := perturb(r, []cty.Value{args[i]})
			args[i], fromWindow[i] = one[0], false
		}
	}
	site := "stdlib." + fd.name
	h.log = append(h.log, fd.name+gsAll(args))
	fresh := 0
	for i, a := range args {
		// arguments are held too: a result may share their storage
		if kd := kindOf(a); (kd == kSeq || kd == kMap) && fresh < 2 && !fromWindow[i] {
			h.hold(a, "argument of "+fd.name, false)
			fresh++
		}
	}
	var out cty.Value
	var err error
	if m.call(site, func() { out, err = fd.fn.Call(args) }) && err == nil {
		m.c.Count("stdlib:ok")
		h.result(site, "history step", "result of "+fd.name, out, &outs)
	}
	var rty cty.Type
	if m.call(site, func() { rty, err = fd.fn.ReturnTypeForValues(args) }) && err == nil && rty != cty.NilType {
		var u cty.Value
		if m.call("cty.UnknownVal", func() { u = cty.UnknownVal(rty) }) {
			h.result(site, "unknown of the predicted return type", "unknown of the type "+fd.name+" predicts", u, &outs)
		}
	}
	h.recheck(site)
	return outs
}

func (h *hist) stepConvert(cur cty.Value) (outs []cty.Value) {
	r, m := h.r, h.m
	var target cty.Type
	if core.Guard(func() { target = relatedTarget(r, cur.Type(), 0) }).Panicked {
		return nil
	}
	h.log = append(h.log, fmt.Sprintf("convert.Convert(%s, %#v)", gs(cur), target))
	var out cty.Value
	var err error
	if m.call("convert.Convert", func() { out, err = convert.Convert(cur, target) }) && err == nil {
		h.result("convert.Convert", convClass(target), "result of convert.Convert", out, &outs)
	}
	h.recheck("convert.Convert")
	return outs
}

// stepMember reads members out of a held value (they share its payload).
func (h *hist) stepMember(cur cty.Value) (outs []cty.Value) {
	r, m := h.r, h.m
	u, _ := cur.Unmark()
	ty := u.Type()
	site := "Value.Index"
	h.log = append(h.log, "member of "+gs(cur))
	switch {
	case ty.IsObjectType():
		site = "Value.GetAttr"
		names := sortedTypeNames(ty.AttributeTypes())
		if len(names) > 0 {
			n := names[r.Intn(len(names))]
			var a cty.Value
			if m.call(site, func() { a = cur.GetAttr(n) }) {
				h.result(site, "history step", "GetAttr("+n+")", a, &outs)
			}
		}
	case ty.IsSetType():
		site = "Value.AsValueSlice"
		var es []cty.Value
		if m.call(site, func() { es = u.AsValueSlice() }) && len(es) > 0 {
			h.result(site, "history step", "member handed out by AsValueSlice", es[r.Intn(len(es))], &outs)
		}
	case ty.IsMapType():
		var a cty.Value
		key := cty.StringVal(gen.Key(r))
		if um, ok := knownKeys(u); ok && len(um) > 0 && r.Chance(3, 4) {
			key = cty.StringVal(um[r.Intn(len(um))])
		}
		if m.call(site, func() { a = cur.Index(key) }) {
			h.result(site, "history step", "Index("+gs(key)+")", a, &outs)
		}
	case ty.IsListType(), ty.IsTupleType():
		n := seqLen(u)
		if n < 1 {
			n = 1
		}
		key := cty.NumberIntVal(int64(r.Intn(n)))
		var a cty.Value
		if m.call(site, func() { a = cur.Index(key) }) {
			h.result(site, "history step", "Index("+gs(key)+")", a, &outs)
		}
	default:
		site = "Value.Length"
		var a cty.Value
		if m.call(site, func() { a = cur.Length() }) {
			h.result(site, "history step", "Length()", a, &outs)
		}
	}
	h.recheck(site)
	return outs
}

func knownKeys(u cty.Value) (ks []string, ok bool) {
	o := core.Guard(func() {
		if u.IsKnown() && !u.IsNull() {
			for k := range u.AsValueMap() {
				ks = append(ks, k)
			}
		}
	})
	if o.Panicked {
		return nil, false
	}
	sortStrings(ks)
	return ks, true
}

func sortStrings(ks []string) {
	for i := 1; i < len(ks); i++ {
		for j := i; j > 0 && ks[j] < ks[j-1]; j-- {
			ks[j], ks[j-1] = ks[j-1], ks[j]
		}
	}
}

// stepCtor puts held values into a new structure.
func (h *hist) stepCtor(cur cty.Value) (outs []cty.Value) {
	r, m := h.r, h.m
	other := cur
	if o := h.pick(); o != cty.NilVal {
		other = o
	}
	var site string
	var f func() cty.Value
	switch r.Intn(5) {
	case 0:
		site, f = "cty.TupleVal", func() cty.Value { return cty.TupleVal([]cty.Value{cur, other}) }
	case 1:
		site, f = "cty.ObjectVal", func() cty.Value { return cty.ObjectVal(map[string]cty.Value{"a": cur, "b": other}) }
	case 2:
		site, f = "cty.ListVal", func() cty.Value { return cty.ListVal([]cty.Value{cur, cur}) }
	case 3:
		site, f = "cty.MapVal", func() cty.Value { return cty.MapVal(map[string]cty.Value{"a": cur, "k": cur}) }
	default:
		site, f = "cty.SetVal", func() cty.Value { return cty.SetVal([]cty.Value{cur}) }
	}
	h.log = append(h.log, fmt.Sprintf("%s over %s and %s", site, gs(cur), gs(other)))
	var out cty.Value
	if m.call(site, func() { out = f() }) {
		h.result(site, "history step", "result of "+site, out, &outs)
	}
	h.recheck(site)
	return outs
}

// stepState derives a value of the same type in another state, or changes marks.
func (h *hist) stepState(cur cty.Value) (outs []cty.Value) {
	r, m := h.r, h.m
	var site string
	var f func() cty.Value
	switch r.Intn(7) {
	case 0, 1:
		site, f = "cty.UnknownVal", func() cty.Value { return cty.UnknownVal(cur.Type()) }
	case 2:
		site, f = "cty.NullVal", func() cty.Value { return cty.NullVal(cur.Type()) }
	case 3:
		mk := gen.Marks[r.Intn(3)]
		site, f = "Value.Mark", func() cty.Value { return cur.Mark(mk) }
	case 4:
		site, f = "Value.UnmarkDeep", func() cty.Value { u, _ := cur.UnmarkDeep(); return u }
	case 5:
		site, f = "cty.UnknownAsNull", func() cty.Value { return cty.UnknownAsNull(cur) }
	default:
		site, f = "Value.RefineNotNull", func() cty.Value { return cur.RefineNotNull() }
	}
	h.log = append(h.log, fmt.Sprintf("%s on %s", site, gs(cur)))
	var out cty.Value
	if m.call(site, func() { out = f() }) {
		h.result(site, "history step", "result of "+site, out, &outs)
	}
	h.recheck(site)
	return outs
}
