package c06

// Guest batches: the property quantifies over "every value produced while
// exploring any other property in this file". Every other driver validates the
// values the library hands back to it with the same two well-formedness walks
// and records a failure as a cross-property note for C06 (it never fails the
// other property). A guest batch runs one batch of another driver's quick
// workload inside a C06 worker and turns exactly those notes into C06
// violations, so that an ill-formed value reachable only through another
// driver's workload (call-protocol edge cases, refinement-builder histories,
// composed unification conversions, ...) is reported by this check.

import (
	"strings"

	"verif/harness/core"
	"verif/harness/props/c01"
	"verif/harness/props/c02"
	"verif/harness/props/c04"
	"verif/harness/props/c05"
	"verif/harness/props/c08"
	"verif/harness/props/c09"
	"verif/harness/props/c10"
	"verif/harness/props/c11"
	"verif/harness/props/c12"
	"verif/harness/props/c13"
	"verif/harness/props/c14"
	"verif/harness/props/c15"
	"verif/harness/props/c16"
	"verif/harness/props/c18"
	"verif/harness/props/c19"
)

var guestDrivers = []core.Driver{
	c01.Driver{}, c02.Driver{}, c04.Driver{}, c05.Driver{}, c08.Driver{}, c09.Driver{}, c10.Driver{}, c11.Driver{},
	c12.Driver{}, c13.Driver{}, c14.Driver{}, c15.Driver{}, c16.Driver{}, c18.Driver{}, c19.Driver{},
}

// guestRounds: how many batches of each guest driver's QUICK workload one run replays.
func guestRounds(tier string) int {
	if tier == "thorough" {
		return 8
	}
	return 2
}

func ownBatches(tier string) int {
	if tier == "thorough" {
		return 64
	}
	return 16
}

// guestOf maps a C06 batch index beyond the own batches to (driver, batch of that driver).
// Round 0 is always the guest's batch 0 (where every driver runs its fixed corpus); later
// rounds walk through the guest's other batches, shifted by the seed.
func guestOf(tier string, seed int64, batch int) (core.Driver, int) {
	g := batch - ownBatches(tier)
	d := guestDrivers[g%len(guestDrivers)]
	round := g / len(guestDrivers)
	nb := d.Batches("quick")
	if round == 0 || nb == 1 {
		return d, 0
	}
	s := int(seed % int64(nb-1))
	if s < 0 {
		s += nb - 1
	}
	return d, 1 + (s+round-1)%(nb-1)
}

func runGuest(c *core.Ctx) {
	d, b := guestOf(c.Tier, c.Seed, c.Batch)
	id := d.ID()
	res := c.RunGuest(d, "quick", b)
	c.Count("guest:" + id + ":batches")
	c.CountN("guest:"+id+":cases", res.Cases)
	c.CountN("guest:"+id+":monitored-library-calls", res.Evaluations)
	c.Eval(int(res.Evaluations))
	if res.Panicked {
		// the guest driver itself crashed: nothing was observed by this batch; say so, do not guess
		c.Count("guest:" + id + ":driver-panicked")
		c.Violate("guest:"+id, "the guest driver's workload panicked outside its own guards", id, "guest batch "+id, res.PanicMsg)
		return
	}
	for k, n := range res.CrossNotes {
		if !strings.HasPrefix(k, "C06: ") {
			continue
		}
		rest := strings.TrimPrefix(k, "C06: ")
		site, what := rest, ""
		if i := strings.Index(rest, ": "); i >= 0 {
			site, what = rest[:i], rest[i+2:]
		}
		c.SetCase(res.CrossCase[k])
		for j := int64(0); j < n && j < 3; j++ {
			c.Violate(site, "ill-formed value seen by the passive monitor of "+id+": "+what, "guest:"+id, res.CrossSample[k], k)
		}
	}
	// a guest case is one distinct non-trivial observation if the guest monitored at least one call
	if res.Evaluations > 0 {
		for i := int64(0); i < res.Cases; i++ {
			c.DistinctHash(core.HashString("guest|"+id+"|"+itoa(int64(b))+"|"+itoa(i)), true)
		}
	}
}

func itoa(n int64) string {
	if n == 0 {
		return "0"
	}
	neg := n < 0
	if neg {
		n = -n
	}
	var b [24]byte
	i := len(b)
	for n > 0 {
		i--
		b[i] = byte('0' + n%10)
		n /= 10
	}
	if neg {
		i--
		b[i] = '-'
	}
	return string(b[i:])
}
