package c06

import (
	"fmt"
	"strings"

	"github.com/zclconf/go-cty/cty"
	"github.com/zclconf/go-cty/cty/function"
	"github.com/zclconf/go-cty/cty/function/stdlib"
	ctyjson "github.com/zclconf/go-cty/cty/json"

	"verif/harness/core"
	"verif/harness/gen"
)

type fnDef struct {
	name string
	fn   function.Function
	args func(r *core.Rand) []cty.Value // nil: derive from the declared parameters
}

func smallInt(r *core.Rand) cty.Value { return cty.NumberIntVal(int64(r.Intn(6) - 1)) }

func numArg(r *core.Rand) cty.Value {
	switch r.Intn(4) {
	case 0:
		return gen.Number(r).V
	case 1:
		return gen.SmallNumber(r)
	}
	return smallInt(r)
}

func strArg(r *core.Rand) cty.Value {
	switch r.Intn(4) {
	case 0:
		return cty.StringVal(rawString(r))
	case 1:
		return cty.StringVal(gen.String(r, 10))
	case 2:
		return cty.StringVal([]string{"a,b,c", " hello world ", "foo\nbar\n", "x=1", "Hello", "a-b-a", "12", "ff", "\u00e9\u0301", "  ", "ab\r\n"}[r.Intn(11)])
	}
	return cty.StringVal(gen.SmallString(r))
}

func elemType(r *core.Rand) cty.Type {
	if r.Chance(1, 3) {
		return gen.Type(r, 2, tyOptsPlain).Cty()
	}
	return []cty.Type{cty.String, cty.Number, cty.Bool, cty.String}[r.Intn(4)]
}

func seqOf(r *core.Rand, ety cty.Type) cty.Value {
	o := valOpts(r)
	o.SmallNums = true
	switch r.Intn(5) {
	case 0:
		return gen.Value(r, cty.Set(ety), o)
	case 1:
		n := r.Intn(4)
		ts := make([]cty.Type, n)
		for i := range ts {
			ts[i] = ety
			if r.Chance(1, 4) {
				ts[i] = elemType(r)
			}
		}
		return gen.Value(r, cty.Tuple(ts), o)
	}
	return gen.Value(r, cty.List(ety), o)
}

func seqArg(r *core.Rand) cty.Value { return seqOf(r, elemType(r)) }

func mapOf(r *core.Rand, ety cty.Type) cty.Value {
	o := valOpts(r)
	if r.Chance(1, 3) {
		return gen.Value(r, gen.ObjectType(r, 2, tyOptsPlain).Cty(), o)
	}
	return gen.Value(r, cty.Map(ety), o)
}

func mapArg(r *core.Rand) cty.Value { return mapOf(r, elemType(r)) }

func setOf(r *core.Rand, ety cty.Type) cty.Value {
	o := valOpts(r)
	o.SmallNums = true
	return gen.Value(r, cty.Set(ety), o)
}

var timestamps = []string{"2017-11-22T00:00:00Z", "2020-02-29T23:59:59+01:00", "0001-01-01T00:00:00Z", "9999-12-31T23:59:59Z", "2017-11-22", "2017-11-22T00:00:00", "2006-01-02T15:04:05-07:00"}
var dateFormats = []string{"YYYY-MM-DD", "EEEE, DD-MMM-YY hh:mm:ss ZZZ", "h:mm aa 'on' D MMM", "'x''y'", "MMMM EEE", "YYYY'", "ZZZZZ", "q"}
var durations = []string{"1h", "-30m", "1h30m", "24h", "1.5s", "x", "87600h", ""}
var formats = []string{"%s", "%d", "%v", "%#v", "%q", "%5.2f", "%-8s|", "%t", "%x %X %o %b", "%e %g", "%%", "%[2]v %[1]v", "%s %s", "%+d", "%05d", "%.3s", "%j", "%z", "%", "%[3]d", "hello %s, you are %d", "%c"}
var patterns = []string{"a", "[a-z]+", "(a)(b)?", "(?P<x>[0-9]+)-(?P<y>[a-z]*)", "^$", ".", "(", "\\d+", "(?i)HELLO", "(a|b)*", "\u00e9", "\\s+", "(?P<n>a)"}
var jsonDocs = []string{`null`, `true`, `1`, `1.5e3`, "\"\u00e9\"", `[]`, `{}`, `[1,"a",null]`, `{"a":1,"b":[true,{"c":null}]}`, "{\"\u00e9\":1,\"e\u0301\":2}", `[[],[1]]`, `{"a":{"b":{"c":[1,2,3]}}}`, `1e400`, `[1,`, `{"a":1,"a":2}`, "\"\U0001f44d\"", "\"\u00e9\"", ` [ ] `, `-0`}
var csvDocs = []string{"a,b\n1,2\n", "a\n", "", "a,b\n1\n", "\u00e9,e\u0301\n1,2\n", "a,a\n1,2\n", "x,y,z\n\"q,1\",2,3\n4,5,6\n", "a,b\r\n1,2\r\n"}

func tupleOf(vs ...cty.Value) cty.Value { return cty.TupleVal(vs) }

var fnTable []fnDef

func init() {
	two := func(g func(*core.Rand) cty.Value) func(*core.Rand) []cty.Value {
		return func(r *core.Rand) []cty.Value { return []cty.Value{g(r), g(r)} }
	}
	one := func(g func(*core.Rand) cty.Value) func(*core.Rand) []cty.Value {
		return func(r *core.Rand) []cty.Value { return []cty.Value{g(r)} }
	}
	boolArg := func(r *core.Rand) cty.Value { return cty.BoolVal(r.Bool()) }
	pick := func(r *core.Rand, ss []string) cty.Value { return cty.StringVal(ss[r.Intn(len(ss))]) }
	varN := func(g func(*core.Rand) cty.Value, lo, hi int) func(*core.Rand) []cty.Value {
		return func(r *core.Rand) []cty.Value {
			n := lo + r.Intn(hi-lo+1)
			out := make([]cty.Value, n)
			for i := range out {
				out[i] = g(r)
			}
			return out
		}
	}
	sameTypeSets := func(r *core.Rand) []cty.Value {
		ety := elemType(r)
		n := 1 + r.Intn(3)
		out := make([]cty.Value, n)
		for i := range out {
			out[i] = setOf(r, ety)
			if r.Chance(1, 6) {
				out[i] = seqOf(r, ety)
			}
		}
		return out
	}
	fnTable = []fnDef{
		{"abs", stdlib.AbsoluteFunc, one(numArg)},
		{"add", stdlib.AddFunc, two(numArg)},
		{"and", stdlib.AndFunc, two(boolArg)},
		{"assertnotnull", stdlib.AssertNotNullFunc, func(r *core.Rand) []cty.Value { return []cty.Value{anyValue(r)} }},
		{"byteslen", stdlib.BytesLenFunc, func(r *core.Rand) []cty.Value { return []cty.Value{stdlib.BytesVal([]byte(gen.String(r, 6)))} }},
		{"bytesslice", stdlib.BytesSliceFunc, func(r *core.Rand) []cty.Value {
			return []cty.Value{stdlib.BytesVal([]byte("hello world")), smallInt(r), cty.NumberIntVal(int64(r.Intn(12)))}
		}},
		{"csvdecode", stdlib.CSVDecodeFunc, func(r *core.Rand) []cty.Value { return []cty.Value{pick(r, csvDocs)} }},
		{"ceil", stdlib.CeilFunc, one(numArg)},
		{"chomp", stdlib.ChompFunc, one(strArg)},
		{"chunklist", stdlib.ChunklistFunc, func(r *core.Rand) []cty.Value { return []cty.Value{seqArg(r), smallInt(r)} }},
		{"coalesce", stdlib.CoalesceFunc, func(r *core.Rand) []cty.Value {
			ety := elemType(r)
			n := 1 + r.Intn(3)
			out := make([]cty.Value, n)
			for i := range out {
				out[i] = anyValueOf(r, ety)
				if r.Chance(1, 3) {
					out[i] = cty.NullVal(ety)
				}
				if r.Chance(1, 6) {
					out[i] = anyValue(r)
				}
			}
			return out
		}},
		{"coalescelist", stdlib.CoalesceListFunc, varN(seqArg, 1, 3)},
		{"compact", stdlib.CompactFunc, func(r *core.Rand) []cty.Value { return []cty.Value{seqOf(r, cty.String)} }},
		{"concat", stdlib.ConcatFunc, varN(seqArg, 1, 3)},
		{"contains", stdlib.ContainsFunc, func(r *core.Rand) []cty.Value {
			ety := elemType(r)
			return []cty.Value{seqOf(r, ety), anyValueOf(r, ety)}
		}},
		{"distinct", stdlib.DistinctFunc, one(seqArg)},
		{"divide", stdlib.DivideFunc, two(numArg)},
		{"element", stdlib.ElementFunc, func(r *core.Rand) []cty.Value { return []cty.Value{seqArg(r), numArg(r)} }},
		{"equal", stdlib.EqualFunc, func(r *core.Rand) []cty.Value {
			ty := anyType(r)
			return []cty.Value{anyValueOf(r, ty), anyValueOf(r, ty)}
		}},
		{"flatten", stdlib.FlattenFunc, func(r *core.Rand) []cty.Value {
			return []cty.Value{tupleOf(seqArg(r), anyValue(r), seqArg(r))}
		}},
		{"floor", stdlib.FloorFunc, one(numArg)},
		{"formatdate", stdlib.FormatDateFunc, func(r *core.Rand) []cty.Value { return []cty.Value{pick(r, dateFormats), pick(r, timestamps)} }},
		{"format", stdlib.FormatFunc, func(r *core.Rand) []cty.Value {
			out := []cty.Value{pick(r, formats)}
			for k, n := 0, r.Intn(3); k < n; k++ {
				switch r.Intn(4) {
				case 0:
					out = append(out, numArg(r))
				case 1:
					out = append(out, strArg(r))
				default:
					out = append(out, anyValue(r))
				}
			}
			return out
		}},
		{"formatlist", stdlib.FormatListFunc, func(r *core.Rand) []cty.Value {
			out := []cty.Value{pick(r, formats)}
			for k, n := 0, r.Intn(3); k < n; k++ {
				if r.Bool() {
					out = append(out, seqArg(r))
				} else {
					out = append(out, anyValue(r))
				}
			}
			return out
		}},
		{"greaterthan", stdlib.GreaterThanFunc, two(numArg)},
		{"greaterthanorequalto", stdlib.GreaterThanOrEqualToFunc, two(numArg)},
		{"hasindex", stdlib.HasIndexFunc, func(r *core.Rand) []cty.Value {
			if r.Bool() {
				return []cty.Value{mapArg(r), cty.StringVal(gen.Key(r))}
			}
			return []cty.Value{seqArg(r), numArg(r)}
		}},
		{"indent", stdlib.IndentFunc, func(r *core.Rand) []cty.Value { return []cty.Value{smallInt(r), strArg(r)} }},
		{"index", stdlib.IndexFunc, func(r *core.Rand) []cty.Value {
			if r.Bool() {
				return []cty.Value{mapArg(r), cty.StringVal(gen.Key(r))}
			}
			return []cty.Value{seqArg(r), smallInt(r)}
		}},
		{"int", stdlib.IntFunc, one(numArg)},
		{"jsondecode", stdlib.JSONDecodeFunc, func(r *core.Rand) []cty.Value {
			if r.Chance(1, 3) {
				v, _ := anyValue(r).UnmarkDeep()
				if b, err := ctyjson.Marshal(cty.UnknownAsNull(v), v.Type()); err == nil {
					return []cty.Value{cty.StringVal(string(b))}
				}
			}
			return []cty.Value{pick(r, jsonDocs)}
		}},
		{"jsonencode", stdlib.JSONEncodeFunc, func(r *core.Rand) []cty.Value { return []cty.Value{anyValue(r)} }},
		{"join", stdlib.JoinFunc, func(r *core.Rand) []cty.Value {
			out := []cty.Value{strArg(r)}
			for k, n := 0, r.Intn(3); k < n; k++ {
				out = append(out, seqOf(r, cty.String))
			}
			return out
		}},
		{"keys", stdlib.KeysFunc, one(mapArg)},
		{"length", stdlib.LengthFunc, func(r *core.Rand) []cty.Value {
			if r.Bool() {
				return []cty.Value{mapArg(r)}
			}
			return []cty.Value{seqArg(r)}
		}},
		{"lessthan", stdlib.LessThanFunc, two(numArg)},
		{"lessthanorequalto", stdlib.LessThanOrEqualToFunc, two(numArg)},
		{"log", stdlib.LogFunc, two(numArg)},
		{"lookup", stdlib.LookupFunc, func(r *core.Rand) []cty.Value {
			ety := elemType(r)
			return []cty.Value{mapOf(r, ety), cty.StringVal(gen.Key(r)), anyValueOf(r, ety)}
		}},
		{"lower", stdlib.LowerFunc, one(strArg)},
		{"max", stdlib.MaxFunc, varN(numArg, 1, 4)},
		{"merge", stdlib.MergeFunc, func(r *core.Rand) []cty.Value {
			ety := elemType(r)
			n := r.Intn(4)
			out := make([]cty.Value, n)
			for i := range out {
				out[i] = mapOf(r, ety)
			}
			return out
		}},
		{"min", stdlib.MinFunc, varN(numArg, 1, 4)},
		{"modulo", stdlib.ModuloFunc, two(numArg)},
		{"multiply", stdlib.MultiplyFunc, two(numArg)},
		{"negate", stdlib.NegateFunc, one(numArg)},
		{"notequal", stdlib.NotEqualFunc, func(r *core.Rand) []cty.Value {
			ty := anyType(r)
			return []cty.Value{anyValueOf(r, ty), anyValueOf(r, ty)}
		}},
		{"not", stdlib.NotFunc, one(boolArg)},
		{"or", stdlib.OrFunc, two(boolArg)},
		{"parseint", stdlib.ParseIntFunc, func(r *core.Rand) []cty.Value {
			return []cty.Value{pick(r, []string{"12", "ff", "-101", "zz", "", "7fffffffffffffffffff", "+1", "1.5"}), cty.NumberIntVal(int64([]int{2, 10, 16, 36, 1, 62, 63, 0}[r.Intn(8)]))}
		}},
		{"pow", stdlib.PowFunc, two(numArg)},
		{"range", stdlib.RangeFunc, varN(numArg, 1, 3)},
		{"regexall", stdlib.RegexAllFunc, func(r *core.Rand) []cty.Value { return []cty.Value{pick(r, patterns), strArg(r)} }},
		{"regex", stdlib.RegexFunc, func(r *core.Rand) []cty.Value { return []cty.Value{pick(r, patterns), strArg(r)} }},
		{"regex_replace", stdlib.RegexReplaceFunc, func(r *core.Rand) []cty.Value { return []cty.Value{strArg(r), pick(r, patterns), strArg(r)} }},
		{"replace", stdlib.ReplaceFunc, func(r *core.Rand) []cty.Value { return []cty.Value{strArg(r), strArg(r), strArg(r)} }},
		{"reverse", stdlib.ReverseFunc, one(strArg)},
		{"reverselist", stdlib.ReverseListFunc, one(seqArg)},
		{"sethaselement", stdlib.SetHasElementFunc, func(r *core.Rand) []cty.Value {
			ety := elemType(r)
			return []cty.Value{setOf(r, ety), anyValueOf(r, ety)}
		}},
		{"setintersection", stdlib.SetIntersectionFunc, sameTypeSets},
		{"setproduct", stdlib.SetProductFunc, varN(seqArg, 1, 3)},
		{"setsubtract", stdlib.SetSubtractFunc, func(r *core.Rand) []cty.Value {
			ety := elemType(r)
			return []cty.Value{setOf(r, ety), setOf(r, ety)}
		}},
		{"setsymmetricdifference", stdlib.SetSymmetricDifferenceFunc, sameTypeSets},
		{"setunion", stdlib.SetUnionFunc, sameTypeSets},
		{"signum", stdlib.SignumFunc, one(numArg)},
		{"slice", stdlib.SliceFunc, func(r *core.Rand) []cty.Value { return []cty.Value{seqArg(r), smallInt(r), smallInt(r)} }},
		{"sort", stdlib.SortFunc, func(r *core.Rand) []cty.Value { return []cty.Value{seqOf(r, cty.String)} }},
		{"split", stdlib.SplitFunc, func(r *core.Rand) []cty.Value { return []cty.Value{strArg(r), strArg(r)} }},
		{"strlen", stdlib.StrlenFunc, one(strArg)},
		{"substr", stdlib.SubstrFunc, func(r *core.Rand) []cty.Value { return []cty.Value{strArg(r), smallInt(r), smallInt(r)} }},
		{"subtract", stdlib.SubtractFunc, two(numArg)},
		{"timeadd", stdlib.TimeAddFunc, func(r *core.Rand) []cty.Value { return []cty.Value{pick(r, timestamps), pick(r, durations)} }},
		{"title", stdlib.TitleFunc, one(strArg)},
		{"trim", stdlib.TrimFunc, two(strArg)},
		{"trimprefix", stdlib.TrimPrefixFunc, two(strArg)},
		{"trimspace", stdlib.TrimSpaceFunc, one(strArg)},
		{"trimsuffix", stdlib.TrimSuffixFunc, two(strArg)},
		{"upper", stdlib.UpperFunc, one(strArg)},
		{"values", stdlib.ValuesFunc, one(mapArg)},
		{"zipmap", stdlib.ZipmapFunc, func(r *core.Rand) []cty.Value {
			ks := seqOf(r, cty.String)
			if r.Chance(1, 3) {
				ks = cty.ListVal([]cty.Value{cty.StringVal(rawString(r)), cty.StringVal(rawString(r)), cty.StringVal("\u00e9")})
			}
			return []cty.Value{ks, seqArg(r)}
		}},
	}
}

// perturb replaces arguments by the states a caller may pass for any parameter.
func perturb(r *core.Rand, args []cty.Value) []cty.Value {
	for i := range args {
		switch r.Intn(14) {
		case 0:
			args[i] = cty.UnknownVal(args[i].Type())
		case 1:
			u, _ := args[i].Unmark()
			args[i] = gen.AdmittingUnknown(r, u, true, false)
		case 2:
			args[i] = cty.DynamicVal
		case 3:
			args[i] = cty.NullVal(args[i].Type())
		case 4:
			args[i] = args[i].Mark(gen.Marks[r.Intn(3)])
		case 5:
			args[i] = gen.MarkSome(r, args[i], 30, 30)
		}
	}
	return args
}

func caseStdlib(m *monitor, r *core.Rand) string {
	if r.Chance(1, 10) {
		return caseMakeTo(m, r)
	}
	fd := fnTable[r.Intn(len(fnTable))]
	var args []cty.Value
	if o := core.Guard(func() {
		if r.Chance(1, 12) {
			args = genericArgs(r, fd.fn)
		} else {
			args = fd.args(r)
		}
		args = perturb(r, args)
	}); o.Panicked {
		m.c.Count("stdlib:argument-generator-panicked")
		return "stdlib " + fd.name + " (argument generator panicked)"
	}
	site := "stdlib." + fd.name
	wit := func() string { return fd.name + gsAll(args) }
	var out cty.Value
	var err error
	if m.call(site, func() { out, err = fd.fn.Call(args) }) {
		if err == nil {
			m.c.Count("stdlib:ok")
			m.see(site, "", out, wit)
		} else {
			m.c.Count("stdlib:error")
			if out != cty.NilVal {
				m.see(site, "value returned with an error", out, wit)
			}
		}
	}
	// the predicted type must not carry optional attributes either (it becomes the type of the unknown result)
	var rty cty.Type
	if m.call(site, func() { rty, err = fd.fn.ReturnTypeForValues(args) }) && err == nil && rty != cty.NilType {
		var u cty.Value
		if m.call("cty.UnknownVal", func() { u = cty.UnknownVal(rty) }) {
			m.see(site, "unknown of the predicted return type", u, wit)
		}
	}
	return wit()
}

// genericArgs draws arguments from the declared parameter types only.
func genericArgs(r *core.Rand, f function.Function) []cty.Value {
	var out []cty.Value
	one := func(ty cty.Type) cty.Value {
		if ty == cty.Number {
			// never a large whole number: indent(2^32, s) and friends allocate by the number they are given
			// (resource use is C11/C17's subject; here it only gets the worker killed)
			v := gen.SmallNumber(r)
			if r.Chance(1, 4) {
				v = cty.NumberIntVal(int64(r.Intn(2001) - 1000))
			}
			if r.Chance(1, 6) {
				v = gen.Unknown(r, cty.Number, true)
			}
			return v
		}
		return anyValueOf(r, ty)
	}
	for _, p := range f.Params() {
		out = append(out, one(p.Type))
	}
	if vp := f.VarParam(); vp != nil {
		for k, n := 0, r.Intn(4); k < n; k++ {
			out = append(out, one(vp.Type))
		}
	}
	return out
}

// caseMakeTo drives stdlib.MakeToFunc with targets that convert accepts,
// including targets with optional attributes.
func caseMakeTo(m *monitor, r *core.Rand) string {
	v := anyValue(r)
	target := relatedTarget(r, v.Type(), 0)
	args := perturb(r, []cty.Value{v})
	f := stdlib.MakeToFunc(target)
	wit := func() string { return fmt.Sprintf("MakeToFunc(%#v)(%s)", target, gs(args[0])) }
	var out cty.Value
	var err error
	if m.call("stdlib.MakeToFunc", func() { out, err = f.Call(args) }) && err == nil {
		cls := "target plain"
		if strings.Contains(convClass(target), "optional") {
			cls = clsTargOpt
		}
		m.see("stdlib.MakeToFunc", cls, out, wit)
	}
	return wit()
}
