package c06

import (
	"fmt"
	"math"
	"math/big"

	"github.com/zclconf/go-cty/cty"
	"github.com/zclconf/go-cty/cty/convert"
	"github.com/zclconf/go-cty/cty/function"
	"github.com/zclconf/go-cty/cty/function/stdlib"
	ctyjson "github.com/zclconf/go-cty/cty/json"
	"github.com/zclconf/go-cty/cty/msgpack"

	"verif/harness/core"
	"verif/harness/gen"
	"verif/harness/model"
)

type corpusCase struct {
	site, class, wit string
	f                func() (cty.Value, error)
}

const (
	clsWrapOpt = "dynamic wrapper, type descriptor has optional attributes"
	clsTargOpt = "target has optional attributes"
	nfd        = "e\u0301"
	nfc        = "\u00e9"
)

func conv(v cty.Value, ty cty.Type) func() (cty.Value, error) {
	return func() (cty.Value, error) { return convert.Convert(v, ty) }
}

func jsonDec(doc string, ty cty.Type) func() (cty.Value, error) {
	return func() (cty.Value, error) { return ctyjson.Unmarshal([]byte(doc), ty) }
}

func mpDec(doc []byte, ty cty.Type) func() (cty.Value, error) {
	return func() (cty.Value, error) { return msgpack.Unmarshal(doc, ty) }
}

func mpWrap(tyJSON string, val ...byte) []byte {
	return append([]byte{0x92}, append(mpBin([]byte(tyJSON)), val...)...)
}

func val(f func() cty.Value) func() (cty.Value, error) {
	return func() (cty.Value, error) { return f(), nil }
}

func call(f function.Function, args ...cty.Value) func() (cty.Value, error) {
	return func() (cty.Value, error) { return f.Call(args) }
}

// corpus is the fixed, seed-independent list of boundary cases written from
// reading value_init.go, marks.go, the convert package, the two decoders and
// the stdlib; it holds the witness of every defect this check found or that was
// listed for it (F-06, F-31), so a repaired defect is re-detected if it returns.
func corpus() []corpusCase {
	optA := cty.ObjectWithOptionalAttrs(map[string]cty.Type{"a": cty.String}, []string{"a"})
	optNested := cty.ObjectWithOptionalAttrs(map[string]cty.Type{"a": optA, "b": cty.Number}, []string{"a"})
	m1 := gen.Marks[0]
	m2 := gen.Marks[1]
	cs := []corpusCase{
		// --- F-06: JSON dynamic wrapper whose type descriptor carries optional attributes
		{"json.Unmarshal", clsWrapOpt, `{"type":["object",{"a":"string"},["a"]],"value":null} as dynamic`,
			jsonDec(`{"type":["object",{"a":"string"},["a"]],"value":null}`, cty.DynamicPseudoType)},
		{"json.Unmarshal", clsWrapOpt, `{"type":["list",["object",{"a":"string"},["a"]]],"value":[]} as dynamic`,
			jsonDec(`{"type":["list",["object",{"a":"string"},["a"]]],"value":[]}`, cty.DynamicPseudoType)},
		{"json.Unmarshal", clsWrapOpt, `{"type":["map",["object",{"a":"string"},["a"]]],"value":{"k":null}} as dynamic`,
			jsonDec(`{"type":["map",["object",{"a":"string"},["a"]]],"value":{"k":null}}`, cty.DynamicPseudoType)},
		{"json.Unmarshal", clsWrapOpt, `{"type":["object",{"a":"string"},["a"]],"value":{"a":"x"}} as dynamic (known object)`,
			jsonDec(`{"type":["object",{"a":"string"},["a"]],"value":{"a":"x"}}`, cty.DynamicPseudoType)},
		{"json.Unmarshal", clsWrapOpt, `[wrapper] as tuple(dynamic)`,
			jsonDec(`[{"type":["set",["object",{"a":"string"},["a"]]],"value":[]}]`, cty.Tuple([]cty.Type{cty.DynamicPseudoType}))},
		// --- the msgpack twin of F-06
		{"msgpack.Unmarshal", clsWrapOpt, `[bin ["object",{"a":"string"},["a"]], nil] as dynamic`,
			mpDec(mpWrap(`["object",{"a":"string"},["a"]]`, 0xc0), cty.DynamicPseudoType)},
		{"msgpack.Unmarshal", clsWrapOpt, `[bin ["object",{"a":"string"},["a"]], unknown] as dynamic`,
			mpDec(mpWrap(`["object",{"a":"string"},["a"]]`, 0xd4, 0, 0), cty.DynamicPseudoType)},
		{"msgpack.Unmarshal", clsWrapOpt, `[bin ["list",["object",{"a":"string"},["a"]]], []] as dynamic`,
			mpDec(mpWrap(`["list",["object",{"a":"string"},["a"]]]`, 0x90), cty.DynamicPseudoType)},
		{"msgpack.Unmarshal", clsWrapOpt, `[bin ["map",["object",{"a":"string"},["a"]]], {}] as dynamic`,
			mpDec(mpWrap(`["map",["object",{"a":"string"},["a"]]]`, 0x80), cty.DynamicPseudoType)},
		// --- F-31 (fixed in 2c0914e): map -> object, missing optional attribute whose type has optionals itself
		{"convert.Convert", clsTargOpt, `MapVal{b:1} -> object{a?:object{a?:string}, b:number}`,
			conv(cty.MapVal(map[string]cty.Value{"b": cty.NumberIntVal(1)}), optNested)},
		{"convert.Convert", clsTargOpt, `MapValEmpty(number) -> object{a?:object{a?:string}}`,
			conv(cty.MapValEmpty(cty.Number), cty.ObjectWithOptionalAttrs(map[string]cty.Type{"a": optA}, []string{"a"}))},
		// --- conversion targets with optional attributes: every input state and every container
		{"convert.Convert", clsTargOpt, `EmptyObjectVal -> object{a?:string}`, conv(cty.EmptyObjectVal, optA)},
		{"convert.Convert", clsTargOpt, `NullVal(EmptyObject) -> object{a?:string}`, conv(cty.NullVal(cty.EmptyObject), optA)},
		{"convert.Convert", clsTargOpt, `UnknownVal(EmptyObject) -> object{a?:string}`, conv(cty.UnknownVal(cty.EmptyObject), optA)},
		{"convert.Convert", clsTargOpt, `DynamicVal -> object{a?:string}`, conv(cty.DynamicVal, optA)},
		{"convert.Convert", clsTargOpt, `NullVal(Dynamic) -> object{a?:string}`, conv(cty.NullVal(cty.DynamicPseudoType), optA)},
		{"convert.Convert", clsTargOpt, `marked null -> object{a?:string}`, conv(cty.NullVal(cty.EmptyObject).Mark(m1), optA)},
		{"convert.Convert", clsTargOpt, `{} -> object{a?:object{a?:string}, b:number} (fails: b missing)`, conv(cty.EmptyObjectVal, optNested)},
		{"convert.Convert", clsTargOpt, `{b:1} -> object{a?:object{a?:string}, b:number}`,
			conv(cty.ObjectVal(map[string]cty.Value{"b": cty.NumberIntVal(1)}), optNested)},
		{"convert.Convert", clsTargOpt, `{a:null,b:1} -> nested optional`,
			conv(cty.ObjectVal(map[string]cty.Value{"a": cty.NullVal(cty.EmptyObject), "b": cty.NumberIntVal(1)}), optNested)},
		{"convert.Convert", clsTargOpt, `{a:unknown,b:1} -> nested optional`,
			conv(cty.ObjectVal(map[string]cty.Value{"a": cty.UnknownVal(cty.EmptyObject), "b": cty.NumberIntVal(1)}), optNested)},
		{"convert.Convert", clsTargOpt, `{a:DynamicVal,b:1} -> nested optional`,
			conv(cty.ObjectVal(map[string]cty.Value{"a": cty.DynamicVal, "b": cty.NumberIntVal(1)}), optNested)},
		{"convert.Convert", clsTargOpt, `ListValEmpty(EmptyObject) -> list(object{a?:string})`, conv(cty.ListValEmpty(cty.EmptyObject), cty.List(optA))},
		{"convert.Convert", clsTargOpt, `SetValEmpty(EmptyObject) -> set(object{a?:string})`, conv(cty.SetValEmpty(cty.EmptyObject), cty.Set(optA))},
		{"convert.Convert", clsTargOpt, `MapValEmpty(EmptyObject) -> map(object{a?:string})`, conv(cty.MapValEmpty(cty.EmptyObject), cty.Map(optA))},
		{"convert.Convert", clsTargOpt, `EmptyTupleVal -> list(object{a?:string})`, conv(cty.EmptyTupleVal, cty.List(optA))},
		{"convert.Convert", clsTargOpt, `EmptyTupleVal -> set(object{a?:string})`, conv(cty.EmptyTupleVal, cty.Set(optA))},
		{"convert.Convert", clsTargOpt, `EmptyObjectVal -> map(object{a?:string})`, conv(cty.EmptyObjectVal, cty.Map(optA))},
		{"convert.Convert", clsTargOpt, `UnknownVal(list({})) -> set(object{a?:string})`, conv(cty.UnknownVal(cty.List(cty.EmptyObject)), cty.Set(optA))},
		{"convert.Convert", clsTargOpt, `[null {}] -> list(object{a?:string})`,
			conv(cty.ListVal([]cty.Value{cty.NullVal(cty.EmptyObject)}), cty.List(optA))},
		{"convert.Convert", clsTargOpt, `[unknown {}, {}] -> set(object{a?:string})`,
			conv(cty.ListVal([]cty.Value{cty.UnknownVal(cty.EmptyObject), cty.EmptyObjectVal}), cty.Set(optA))},
		{"convert.Convert", clsTargOpt, `tuple(null {}, {}) -> list(object{a?:string})`,
			conv(cty.TupleVal([]cty.Value{cty.NullVal(cty.EmptyObject), cty.EmptyObjectVal}), cty.List(optA))},
		{"convert.Convert", clsTargOpt, `tuple({}) -> tuple(object{a?:string})`,
			conv(cty.TupleVal([]cty.Value{cty.NullVal(cty.EmptyObject)}), cty.Tuple([]cty.Type{optA}))},
		{"convert.Convert", clsTargOpt, `map{k: null {}} -> map(object{a?:string})`,
			conv(cty.MapVal(map[string]cty.Value{"k": cty.NullVal(cty.EmptyObject)}), cty.Map(optA))},
		{"convert.Convert", clsTargOpt, `object{k: null {}} -> map(object{a?:string})`,
			conv(cty.ObjectVal(map[string]cty.Value{"k": cty.NullVal(cty.EmptyObject), "j": cty.EmptyObjectVal}), cty.Map(optA))},
		{"convert.Convert", clsTargOpt, `map{k: {}} -> object{k: object{a?:string}, z?: list(object{a?:string})}`,
			conv(cty.MapVal(map[string]cty.Value{"k": cty.EmptyObjectVal}), cty.ObjectWithOptionalAttrs(map[string]cty.Type{"k": optA, "z": cty.List(optA)}, []string{"z"}))},
		{"convert.Convert", clsTargOpt, `value of the stripped target type passes through`,
			conv(cty.NullVal(cty.Object(map[string]cty.Type{"a": cty.String})), optA)},
		{"convert.Convert", clsTargOpt + "+dynamic", `{a: {}} -> object{a: dynamic, b?: dynamic}`,
			conv(cty.ObjectVal(map[string]cty.Value{"a": cty.EmptyObjectVal}), cty.ObjectWithOptionalAttrs(map[string]cty.Type{"a": cty.DynamicPseudoType, "b": cty.DynamicPseudoType}, []string{"b"}))},
		// --- stdlib.MakeToFunc with a target that has optional attributes
		{"stdlib.MakeToFunc", clsTargOpt, `MakeToFunc(object{a?:string})(UnknownVal(EmptyObject))`, call(stdlib.MakeToFunc(optA), cty.UnknownVal(cty.EmptyObject))},
		{"stdlib.MakeToFunc", clsTargOpt, `MakeToFunc(object{a?:string})(DynamicVal)`, call(stdlib.MakeToFunc(optA), cty.DynamicVal)},
		{"stdlib.MakeToFunc", clsTargOpt, `MakeToFunc(object{a?:string})({})`, call(stdlib.MakeToFunc(optA), cty.EmptyObjectVal)},
		{"stdlib.MakeToFunc", clsTargOpt, `MakeToFunc(object{a?:string})(null {})`, call(stdlib.MakeToFunc(optA), cty.NullVal(cty.EmptyObject))},
		{"stdlib.MakeToFunc", clsTargOpt, `MakeToFunc(object{a?:string})(marked unknown)`, call(stdlib.MakeToFunc(optA), cty.UnknownVal(cty.EmptyObject).Mark(m1))},
		{"stdlib.MakeToFunc", clsTargOpt, `MakeToFunc(list(object{a?:string}))(unknown tuple)`, call(stdlib.MakeToFunc(cty.List(optA)), cty.UnknownVal(cty.EmptyTuple))},
		// --- normalisation at every entry point
		{"cty.StringVal", "", `StringVal(NFD e-acute)`, val(func() cty.Value { return cty.StringVal(nfd) })},
		{"cty.MapVal", "", `MapVal with NFC and NFD twin keys`, val(func() cty.Value {
			return cty.MapVal(map[string]cty.Value{nfd: cty.NumberIntVal(1), nfc: cty.NumberIntVal(2)})
		})},
		{"cty.ObjectVal", "", `ObjectVal with NFC and NFD twin names`, val(func() cty.Value {
			return cty.ObjectVal(map[string]cty.Value{nfd: cty.NumberIntVal(1), nfc: cty.StringVal("x")})
		})},
		{"json.Unmarshal", "valid encoding", `{"é":"é"} as map(string)`, jsonDec(`{"`+nfd+`":"`+nfd+`"}`, cty.Map(cty.String))},
		{"json.Unmarshal", "valid encoding", `{"é":"x"} as object{é}`, jsonDec(`{"`+nfd+`":"x"}`, cty.Object(map[string]cty.Type{nfc: cty.String}))},
		{"json.Unmarshal", "valid encoding", "\"e\u0301\" (escaped) as string", jsonDec("\"e\u0301\"", cty.String)},
		{"json.Unmarshal", "valid encoding", `wrapper with NFD attribute name in the type`, jsonDec(`{"type":["object",{"`+nfd+`":"string"}],"value":{"`+nfd+`":"`+nfd+`"}}`, cty.DynamicPseudoType)},
		{"msgpack.Unmarshal", "valid encoding", `str NFD as string`, mpDec([]byte{0xa3, 'e', 0xcc, 0x81}, cty.String)},
		{"msgpack.Unmarshal", "valid encoding", `{NFD: NFD} as map(string)`, mpDec([]byte{0x81, 0xa3, 'e', 0xcc, 0x81, 0xa3, 'e', 0xcc, 0x81}, cty.Map(cty.String))},
		{"msgpack.Unmarshal", "valid encoding", `{NFD: 1, NFC: 2} as map(number)`, mpDec([]byte{0x82, 0xa3, 'e', 0xcc, 0x81, 0x01, 0xa2, 0xc3, 0xa9, 0x02}, cty.Map(cty.Number))},
		{"msgpack.Unmarshal", "valid encoding", `refined unknown string with an NFD prefix`, mpDec([]byte{0xc7, 0x06, 0x0c, 0x81, 0x02, 0xa3, 'e', 0xcc, 0x81}, cty.String)},
		{"RefinementBuilder.NewValue", "", `StringPrefixFull(NFD)`, val(func() cty.Value { return cty.UnknownVal(cty.String).Refine().StringPrefixFull(nfd).NewValue() })},
		{"RefinementBuilder.NewValue", "", `StringPrefix("e") then StringPrefix(NFD + "x")`, val(func() cty.Value {
			return cty.UnknownVal(cty.String).Refine().StringPrefix("e").StringPrefixFull(nfd + "x").NewValue()
		})},
		{"stdlib.zipmap", "", `zipmap([NFD, NFC], [1, 2])`, call(stdlib.ZipmapFunc, cty.ListVal([]cty.Value{cty.StringVal(nfd), cty.StringVal(nfc)}), cty.TupleVal([]cty.Value{cty.NumberIntVal(1), cty.NumberIntVal(2)}))},
		{"stdlib.jsondecode", "", `jsondecode({"NFD": "NFD"})`, call(stdlib.JSONDecodeFunc, cty.StringVal(`{"`+nfd+`":"`+nfd+`"}`))},
		{"stdlib.csvdecode", "", `csvdecode with NFD header`, call(stdlib.CSVDecodeFunc, cty.StringVal(nfd+","+nfc+"x\n1,2\n"))},
		{"stdlib.regex", "", `regex named group NFD input`, call(stdlib.RegexFunc, cty.StringVal("(?P<x>e)(?P<y>.)"), cty.StringVal(nfd))},
		{"stdlib.substr", "", `substr splits a grapheme`, call(stdlib.SubstrFunc, cty.StringVal("a"+nfd+"b"), cty.NumberIntVal(1), cty.NumberIntVal(1))},
		{"stdlib.split", "", `split on a combining mark`, call(stdlib.SplitFunc, cty.StringVal("\u0301"), cty.StringVal("ae\u0301b"))},
		{"stdlib.join", "", `join lone combining marks`, call(stdlib.JoinFunc, cty.StringVal("\u0301"), cty.ListVal([]cty.Value{cty.StringVal("e"), cty.StringVal("e")}))},
		{"stdlib.format", "", `format %s%s of e and a combining mark`, call(stdlib.FormatFunc, cty.StringVal("%s%s"), cty.StringVal("e"), cty.StringVal("\u0301"))},
		{"stdlib.reverse", "", `reverse of NFD-composable text`, call(stdlib.ReverseFunc, cty.StringVal("\u0301e"))},
		{"stdlib.trimprefix", "", `trimprefix leaves a lone combining mark`, call(stdlib.TrimPrefixFunc, cty.StringVal("a\u0301e\u0301"), cty.StringVal("a"))},
		{"stdlib.replace", "", `replace creates a composable pair`, call(stdlib.ReplaceFunc, cty.StringVal("ex\u0301"), cty.StringVal("x"), cty.StringVal(""))},
		{"stdlib.regex_replace", "", `regex_replace creates a composable pair`, call(stdlib.RegexReplaceFunc, cty.StringVal("ex\u0301"), cty.StringVal("x"), cty.StringVal(""))},
		{"stdlib.title", "", `title`, call(stdlib.TitleFunc, cty.StringVal("e\u0301 \u01c6"))},
		{"stdlib.upper", "", `upper`, call(stdlib.UpperFunc, cty.StringVal("\u00df \u01c6 \u0149"))},
		{"stdlib.chomp", "", `chomp`, call(stdlib.ChompFunc, cty.StringVal("e\u0301\r\n"))},
		{"stdlib.indent", "", `indent`, call(stdlib.IndentFunc, cty.NumberIntVal(2), cty.StringVal("a\n\u0301b"))},
		{"stdlib.jsonencode", "", `jsonencode`, call(stdlib.JSONEncodeFunc, cty.MapVal(map[string]cty.Value{nfc: cty.StringVal(nfd)}))},
		// --- marks: one layer, never inside a set
		{"Value.Mark", "", `Mark of a marked value`, val(func() cty.Value { return cty.StringVal("a").Mark(m1).Mark(m2).Mark(m1) })},
		{"Value.WithMarks", "", `WithMarks on a marked value`, val(func() cty.Value {
			return cty.StringVal("a").Mark(m1).WithMarks(cty.NewValueMarks(m2), cty.NewValueMarks())
		})},
		{"Value.WithMarks", "", `WithMarks(empty set) on an unmarked value`, val(func() cty.Value { return cty.StringVal("a").WithMarks(cty.NewValueMarks()) })},
		{"Value.WithSameMarks", "", `WithSameMarks(marked, unmarked)`, val(func() cty.Value {
			return cty.StringVal("a").Mark(m1).WithSameMarks(cty.True.Mark(m2), cty.False)
		})},
		{"cty.SetVal", "", `SetVal of marked members and a member with a nested mark`, val(func() cty.Value {
			return cty.SetVal([]cty.Value{
				cty.ListVal([]cty.Value{cty.StringVal("a").Mark(m1)}),
				cty.ListVal([]cty.Value{cty.StringVal("b")}).Mark(m2),
			})
		})},
		{"cty.SetVal", "", `SetVal that is then marked again`, val(func() cty.Value {
			return cty.SetVal([]cty.Value{cty.StringVal("a").Mark(m1)}).Mark(m2)
		})},
		{"convert.Convert", "target plain", `list with marked members -> set`,
			conv(cty.ListVal([]cty.Value{cty.StringVal("a").Mark(m1), cty.StringVal("a")}), cty.Set(cty.String))},
		{"convert.Convert", "target plain", `tuple with marked members -> set(string)`,
			conv(cty.TupleVal([]cty.Value{cty.StringVal("a").Mark(m1), cty.NumberIntVal(1).Mark(m2)}), cty.Set(cty.String))},
		{"convert.Convert", "target plain", `marked list -> set of marked`,
			conv(cty.ListVal([]cty.Value{cty.StringVal("a").Mark(m1)}).Mark(m2), cty.Set(cty.String))},
		{"stdlib.setunion", "", `setunion with marked sets`, call(stdlib.SetUnionFunc, cty.SetVal([]cty.Value{cty.StringVal("a").Mark(m1)}), cty.SetVal([]cty.Value{cty.StringVal("b")}).Mark(m2))},
		{"stdlib.distinct", "", `distinct with marked members`, call(stdlib.DistinctFunc, cty.ListVal([]cty.Value{cty.StringVal("a").Mark(m1), cty.StringVal("a")}))},
		{"stdlib.flatten", "", `flatten with marked inner`, call(stdlib.FlattenFunc, cty.TupleVal([]cty.Value{cty.ListVal([]cty.Value{cty.StringVal("a")}).Mark(m1), cty.SetVal([]cty.Value{cty.StringVal("b")})}))},
		{"cty.Transform", "callback mode 2", `Transform marks the members of a set`, func() (cty.Value, error) {
			return cty.Transform(cty.SetVal([]cty.Value{cty.StringVal("a"), cty.StringVal("b")}), func(p cty.Path, v cty.Value) (cty.Value, error) {
				return v.Mark(m1), nil
			})
		}},
		// --- sets: duplicates by documented equality
		{"cty.SetVal", "", `SetVal(0, -0)`, val(func() cty.Value { return cty.SetVal([]cty.Value{cty.Zero, cty.NumberFloatVal(math.Copysign(0, -1))}) })},
		{"cty.SetVal", "", `SetVal(0.12345678905 float, parsed)`, val(func() cty.Value {
			return cty.SetVal([]cty.Value{cty.NumberFloatVal(0.12345678905), cty.MustParseNumberVal("0.12345678905")})
		})},
		{"cty.SetVal", "", `SetVal(3 at three precisions)`, val(func() cty.Value {
			return cty.SetVal([]cty.Value{cty.NumberIntVal(3), cty.NumberFloatVal(3), cty.MustParseNumberVal("3"), cty.NumberVal(new(big.Float).SetPrec(24).SetInt64(3))})
		})},
		{"cty.SetVal", "", `SetVal(NFD, NFC)`, val(func() cty.Value { return cty.SetVal([]cty.Value{cty.StringVal(nfd), cty.StringVal(nfc)}) })},
		{"cty.SetVal", "", `SetVal of two equal capsule B values`, val(func() cty.Value { return cty.SetVal([]cty.Value{model.NewCapB(1), model.NewCapB(1)}) })},
		{"convert.Convert", "target plain", `list("1", 1 as string…) -> set(number) coalesces`,
			conv(cty.ListVal([]cty.Value{cty.StringVal("1"), cty.StringVal("1.0"), cty.StringVal("01")}), cty.Set(cty.Number))},
		{"convert.Convert", "target plain", `set("true","TRUE"?) -> set(bool)`,
			conv(cty.SetVal([]cty.Value{cty.StringVal("true"), cty.StringVal("1")}), cty.Set(cty.Bool))},
		{"stdlib.setproduct", "", `setproduct of sets with equal numbers at different precision`, call(stdlib.SetProductFunc,
			cty.SetVal([]cty.Value{cty.NumberIntVal(1), cty.NumberFloatVal(1)}), cty.SetVal([]cty.Value{cty.MustParseNumberVal("1")}))},
		// --- dynamic placeholder only where documented
		{"cty.ListVal", "", `ListVal(DynamicVal, "a")`, val(func() cty.Value { return cty.ListVal([]cty.Value{cty.DynamicVal, cty.StringVal("a")}) })},
		{"cty.ListVal", "", `ListVal(null dynamic, DynamicVal)`, val(func() cty.Value {
			return cty.ListVal([]cty.Value{cty.NullVal(cty.DynamicPseudoType), cty.DynamicVal})
		})},
		{"cty.MapVal", "", `MapVal(a: DynamicVal, b: 1)`, val(func() cty.Value {
			return cty.MapVal(map[string]cty.Value{"a": cty.DynamicVal, "b": cty.NumberIntVal(1)})
		})},
		{"cty.SetVal", "", `SetVal(DynamicVal, "a")`, val(func() cty.Value { return cty.SetVal([]cty.Value{cty.DynamicVal, cty.StringVal("a")}) })},
		{"cty.UnknownAsNull", "", `UnknownAsNull(list with DynamicVal)`, val(func() cty.Value {
			return cty.UnknownAsNull(cty.ListVal([]cty.Value{cty.DynamicVal, cty.DynamicVal}))
		})},
		{"convert.Convert", "target plain+dynamic", `tuple("a", 1, DynamicVal) -> list(dynamic)`,
			conv(cty.TupleVal([]cty.Value{cty.StringVal("a"), cty.NumberIntVal(1), cty.DynamicVal}), cty.List(cty.DynamicPseudoType))},
		{"convert.Convert", "target plain+dynamic", `tuple(DynamicVal, DynamicVal) -> set(dynamic)`,
			conv(cty.TupleVal([]cty.Value{cty.DynamicVal, cty.DynamicVal}), cty.Set(cty.DynamicPseudoType))},
		{"convert.Convert", "target plain+dynamic", `{} -> map(dynamic)`, conv(cty.EmptyObjectVal, cty.Map(cty.DynamicPseudoType))},
		{"convert.Convert", "target plain+dynamic", `() -> list(dynamic)`, conv(cty.EmptyTupleVal, cty.List(cty.DynamicPseudoType))},
		{"convert.Convert", "target plain+dynamic", `null tuple -> list(dynamic)`, conv(cty.NullVal(cty.Tuple([]cty.Type{cty.String, cty.Number})), cty.List(cty.DynamicPseudoType))},
		{"convert.Convert", "target plain+dynamic", `unknown object -> map(dynamic)`, conv(cty.UnknownVal(cty.Object(map[string]cty.Type{"a": cty.String, "b": cty.Bool})), cty.Map(cty.DynamicPseudoType))},
		{"json.Unmarshal", "valid encoding", `[] as list(dynamic)`, jsonDec(`[]`, cty.List(cty.DynamicPseudoType))},
		{"json.Unmarshal", "valid encoding", `null as list(dynamic)`, jsonDec(`null`, cty.List(cty.DynamicPseudoType))},
		{"msgpack.Unmarshal", "valid encoding", `unknown as list(dynamic)`, mpDec([]byte{0xd4, 0, 0}, cty.List(cty.DynamicPseudoType))},
		{"msgpack.Unmarshal", "valid encoding", `nil as dynamic`, mpDec([]byte{0xc0}, cty.DynamicPseudoType)},
		{"stdlib.coalesce", "", `coalesce(null dynamic, DynamicVal)`, call(stdlib.CoalesceFunc, cty.NullVal(cty.DynamicPseudoType), cty.DynamicVal)},
		{"stdlib.merge", "", `merge()`, call(stdlib.MergeFunc)},
		{"stdlib.merge", "", `merge(null object, {a:1})`, call(stdlib.MergeFunc, cty.NullVal(cty.EmptyObject), cty.ObjectVal(map[string]cty.Value{"a": cty.NumberIntVal(1)}))},
		{"stdlib.concat", "", `concat((), ())`, call(stdlib.ConcatFunc, cty.EmptyTupleVal, cty.EmptyTupleVal)},
		{"stdlib.lookup", "", `lookup(map, "x", DynamicVal)`, call(stdlib.LookupFunc, cty.MapVal(map[string]cty.Value{"a": cty.StringVal("b")}), cty.StringVal("x"), cty.DynamicVal)},
		// --- refinements on the wrong kind / inconsistent
		{"RefinementBuilder.NewValue", "", `exclusive equal bounds (F-04 shape, now refused)`, val(func() cty.Value {
			return cty.UnknownVal(cty.Number).Refine().NumberRangeLowerBound(cty.NumberIntVal(1), false).NumberRangeUpperBound(cty.NumberIntVal(1), false).NewValue()
		})},
		{"RefinementBuilder.NewValue", "", `inclusive equal bounds collapse to a known number`, val(func() cty.Value {
			return cty.UnknownVal(cty.Number).Refine().NotNull().NumberRangeInclusive(cty.NumberIntVal(1), cty.NumberIntVal(1)).NewValue()
		})},
		{"RefinementBuilder.NewValue", "", `length 0 list collapses to a known empty list`, val(func() cty.Value {
			return cty.UnknownVal(cty.List(cty.String)).Refine().NotNull().CollectionLength(0).NewValue()
		})},
		{"RefinementBuilder.NewValue", "", `length 0 set of dynamic`, val(func() cty.Value {
			return cty.UnknownVal(cty.Set(cty.DynamicPseudoType)).Refine().NotNull().CollectionLength(0).NewValue()
		})},
		{"RefinementBuilder.NewValue", "", `Null() gives a null`, val(func() cty.Value { return cty.UnknownVal(cty.Map(cty.Bool)).Refine().Null().NewValue() })},
		{"RefinementBuilder.NewValue", "", `marked unknown refined`, val(func() cty.Value {
			return cty.UnknownVal(cty.String).Mark(m1).Refine().NotNull().StringPrefix("x-").NewValue()
		})},
		{"RefinementBuilder.NewValue", "", `infinite bounds`, val(func() cty.Value {
			return cty.UnknownVal(cty.Number).Refine().NumberRangeLowerBound(cty.NegativeInfinity, true).NumberRangeUpperBound(cty.PositiveInfinity, false).NewValue()
		})},
		{"RefinementBuilder.NewValue", "", `inclusive bounds parsed 0.3 .. float64 0.3: equal by documented equality, lower > upper exactly (tolerated, noted for C05)`, val(func() cty.Value {
			return cty.UnknownVal(cty.Number).Refine().NumberRangeLowerBound(cty.MustParseNumberVal("0.3"), true).NumberRangeUpperBound(cty.NumberFloatVal(0.3), true).NewValue()
		})},
		{"Value.Add", "", `refined + refined`, val(func() cty.Value {
			a := cty.UnknownVal(cty.Number).Refine().NotNull().NumberRangeInclusive(cty.NumberIntVal(1), cty.NumberIntVal(2)).NewValue()
			return a.Add(a)
		})},
		{"Value.Multiply", "", `refined * infinity-bounded`, val(func() cty.Value {
			a := cty.UnknownVal(cty.Number).Refine().NotNull().NumberRangeLowerBound(cty.Zero, true).NewValue()
			b := cty.UnknownVal(cty.Number).Refine().NotNull().NumberRangeUpperBound(cty.NumberIntVal(-1), true).NewValue()
			return a.Multiply(b)
		})},
		{"Value.Length", "", `Length of a set with unknown members`, val(func() cty.Value {
			return cty.SetVal([]cty.Value{cty.UnknownVal(cty.String), cty.StringVal("a")}).Length()
		})},
		{"Value.Length", "", `Length of a refined unknown list`, val(func() cty.Value {
			return cty.UnknownVal(cty.List(cty.String)).Refine().CollectionLengthLowerBound(1).CollectionLengthUpperBound(2).NewValue().Length()
		})},
		// --- numbers
		{"cty.NumberFloatVal", "", `NumberFloatVal(+Inf)`, val(func() cty.Value { return cty.NumberFloatVal(math.Inf(1)) })},
		{"cty.NumberVal", "", `NumberVal(-0 at 24 bits)`, val(func() cty.Value { return cty.NumberVal(new(big.Float).SetPrec(24).Neg(new(big.Float))) })},
		{"Value.Divide", "", `1/0`, val(func() cty.Value { return cty.NumberIntVal(1).Divide(cty.Zero) })},
		{"Value.Modulo", "", `Inf % 2`, val(func() cty.Value { return cty.PositiveInfinity.Modulo(cty.NumberIntVal(2)) })},
		// --- capsules
		{"convert.Convert", "target plain", `capsule null -> string (no conversion)`, conv(cty.NullVal(model.CapsuleA), cty.String)},
		{"cty.ListVal", "", `list of capsules with a null`, val(func() cty.Value { return cty.ListVal([]cty.Value{model.NewCapA(1), cty.NullVal(model.CapsuleA)}) })},
	}
	// a refined unknown encoded for one type, decoded against every other kind of type:
	// the refinement kind must match the type of whatever comes back
	refined := []cty.Value{
		cty.UnknownVal(cty.String).Refine().NotNull().StringPrefixFull(nfd + "x").NewValue(),
		cty.UnknownVal(cty.Number).Refine().NotNull().NumberRangeLowerBound(cty.NumberIntVal(1), true).NumberRangeUpperBound(cty.MustParseNumberVal("2.5"), false).NewValue(),
		cty.UnknownVal(cty.List(cty.String)).Refine().CollectionLengthLowerBound(1).CollectionLengthUpperBound(3).NewValue(),
		cty.UnknownVal(cty.Bool).RefineNotNull(),
		cty.UnknownVal(cty.Set(cty.Number)).Refine().NotNull().CollectionLengthUpperBound(2).NewValue(),
	}
	against := []cty.Type{cty.String, cty.Number, cty.Bool, cty.List(cty.String), cty.Set(cty.Number), cty.Map(cty.Bool), cty.EmptyObject,
		cty.Tuple([]cty.Type{cty.String}), cty.DynamicPseudoType, cty.List(cty.DynamicPseudoType)}
	for _, rv := range refined {
		var enc []byte
		var err error
		if o := core.Guard(func() { enc, err = msgpack.Marshal(rv, rv.Type()) }); o.Panicked || err != nil {
			continue
		}
		for _, ty := range against {
			cs = append(cs, corpusCase{"msgpack.Unmarshal", "valid encoding, related constraint",
				fmt.Sprintf("refined unknown %#v (bytes %x) decoded as %#v", rv, enc, ty), mpDec(enc, ty)})
		}
	}
	return cs
}

func runCorpus(c *core.Ctx, m *monitor, base int64) {
	for i, cc := range corpus() {
		idx := base + int64(i)
		if !c.Want(idx) {
			continue
		}
		cc := cc
		c.Begin(idx, func() string { return "corpus: " + cc.site + ": " + cc.wit })
		var out cty.Value
		var err error
		o := core.Guard(func() { out, err = cc.f() })
		c.Eval(1)
		c.Count("corpus:cases")
		switch {
		case o.Panicked:
			c.Count("corpus:panicked")
		case err != nil:
			c.Count("corpus:error")
			if out != cty.NilVal {
				m.see(cc.site, cc.class+" (value returned with an error)", out, func() string { return "corpus: " + cc.wit })
			}
		default:
			m.see(cc.site, cc.class, out, func() string { return "corpus: " + cc.wit })
		}
		c.DistinctHash(core.HashString("corpus|"+cc.site+cc.wit), false)
	}
}
