package c06

import (
	"fmt"
	"sort"
	"strings"

	"github.com/zclconf/go-cty/cty"
	"golang.org/x/text/unicode/norm"

	"verif/harness/core"
	"verif/harness/model"
	"verif/harness/mon"
)

// monitor is the C06 oracle: every value handed to see() is validated by both
// flavours of the well-formedness walk (hook = internal representation,
// public = accessors only) plus an accessor sweep, and counted per API site.
type monitor struct {
	c     *core.Ctx
	sites map[string]int64 // values checked per API site in this batch
	// case bookkeeping
	caseVals int
	caseDesc func() string
	// window of earlier values that are re-checked after later calls (work_hist.go)
	ring    [ringSize]ringVal
	offered int64 // well-formed values offered to the ring so far
	curCase int64
	lastFam string
}

func newMonitor(c *core.Ctx) *monitor { return &monitor{c: c, sites: map[string]int64{}} }

// clauseOf maps the message of either flavour to the canonical name of the
// oracle clause that failed (the facet of the violation).
func clauseOf(msg string) string {
	has := func(s string) bool { return strings.Contains(msg, s) }
	switch {
	case msg == "":
		return ""
	case has("NilVal returned"), has(": NilType"):
		return "nil value or nil type"
	case has("accessor panicked"):
		return "an accessor applicable to the type panicked"
	case has("more than one layer of marks"), has("marker nested directly"):
		return "more than one layer of marks"
	case has("marker with empty mark set"):
		return "marker with an empty mark set"
	case has("optional-attribute annotations"), has("carries optional attributes"):
		return "type carries optional-attribute annotations"
	case has("dynamic pseudo-type"), has("for DynamicPseudoType"):
		return "known non-null value of the dynamic pseudo-type"
	case has("refinement on DynamicPseudoType"), has("refinement on"), has("illegal tristate"), has("unknown refinement kind"):
		return "refinement kind does not match the type"
	case has("numeric bound"):
		return "refinement bound is not a known unmarked number"
	case has("empty range"), has("empty numeric range"):
		return "refinement with an empty numeric range"
	case has("length bounds"):
		return "refinement with bad length bounds"
	case has("refinement prefix"):
		return "refinement prefix is not NFC"
	case has("nil big.Float"), has("nil *big.Float"):
		return "number with nil payload"
	case has("nil *unknownType"), has(" payload is "):
		return "payload Go kind does not match the type"
	case has("map key"):
		return "map key is not NFC"
	case has("attribute name"):
		return "attribute name is not NFC"
	case has("is not NFC-normalized"), has("is not normalized"):
		return "string is not NFC"
	case has("list iterator key"):
		return "list iterator keys are not 0..n-1"
	case has("element type"), has("set member type"), has("attribute type"):
		return "member type differs from the declared type"
	case has("LengthInt"):
		return "length disagrees with the iterator"
	case has("is marked"), has("marker where none is allowed"), has("contains a marker"):
		return "set holds a marked member"
	case has("duplicate members"), has("two equivalent members"):
		return "set holds duplicate members"
	case has("set rules"):
		return "set rules are for another element type"
	case has("empty bucket"):
		return "set has an empty bucket"
	case has("member hashes to"):
		return "set member sits in the wrong bucket"
	case has("tuple has"), has("tuple payload has"):
		return "tuple length differs from the type"
	case has("undeclared attribute"), has("object iterator yields"), has("object payload has"):
		return "object attribute set differs from the type"
	case has("capsule value with nil payload"):
		return "capsule with nil payload"
	case has("unsupported type"):
		return "unsupported type"
	}
	return "other: " + core.PanicClass(msg)
}

// sharedClauses are the clauses both flavours are able to see; when exactly one
// flavour reports one of them the disagreement itself is reported.
var sharedClauses = map[string]bool{
	"more than one layer of marks":                    true,
	"type carries optional-attribute annotations":     true,
	"known non-null value of the dynamic pseudo-type": true,
	"string is not NFC":                               true,
	"map key is not NFC":                              true,
	"set holds a marked member":                       true,
	"tuple length differs from the type":              true,
	"refinement with an empty numeric range":          true,
	"refinement with bad length bounds":               true,
	"refinement prefix is not NFC":                    true,
	"number with nil payload":                         true,
}

// typeFPHasOptional scans a cty.VerifTypeFingerprint dump for an attribute that
// is flagged optional ("name"?:), skipping quoted names.
func typeFPHasOptional(fp []byte) bool {
	inq := false
	for i := 0; i < len(fp); i++ {
		ch := fp[i]
		if inq {
			if ch == '\\' {
				i++
			} else if ch == '"' {
				inq = false
				if i+1 < len(fp) && fp[i+1] == '?' {
					return true
				}
			}
			continue
		}
		if ch == '"' {
			inq = true
		}
	}
	return false
}

// hookFlavour is the internal-representation flavour: cty.VerifWellFormed plus
// a scan of the internal type dump for optional-attribute flags (VerifWellFormed
// itself only looks at the types of known, non-null object payloads).
func hookFlavour(v cty.Value) (msg string) {
	defer func() {
		if p := recover(); p != nil {
			msg = fmt.Sprintf("hook panicked: %v", p)
		}
	}()
	if err := cty.VerifWellFormed(v); err != nil {
		return err.Error()
	}
	if typeFPHasOptional(cty.VerifTypeFingerprint(v.Type())) {
		return ": value's type carries optional attributes (type dump)"
	}
	return ""
}

// typeNamesNFC checks attribute names at every depth of a type (the value walk
// only sees names of known objects).
func typeNamesNFC(ty cty.Type) string {
	switch {
	case ty.IsCollectionType():
		return typeNamesNFC(ty.ElementType())
	case ty.IsTupleType():
		for _, et := range ty.TupleElementTypes() {
			if s := typeNamesNFC(et); s != "" {
				return s
			}
		}
	case ty.IsObjectType():
		for k, at := range ty.AttributeTypes() {
			if k != norm.NFC.String(k) {
				return fmt.Sprintf("attribute name %q in the type is not NFC-normalized", k)
			}
			if s := typeNamesNFC(at); s != "" {
				return s
			}
		}
		for k := range ty.OptionalAttributes() {
			if _, ok := ty.AttributeTypes()[k]; !ok {
				return fmt.Sprintf("undeclared attribute %q in the optional set", k)
			}
		}
	}
	return ""
}

// accessorSweep calls every accessor that is applicable to v's type and state
// and reports the first panic. It goes beyond mon.WellFormed (which calls the
// accessors it needs for its own walk): GoString, Range on every unmarked part,
// AsValueSlice/Map/Set, Index/HasIndex for every key the iterator yields, Length,
// Unmark/UnmarkDeep/Marks, IsWhollyKnown.
func accessorSweep(v cty.Value) (msg string) {
	defer func() {
		if p := recover(); p != nil {
			msg = fmt.Sprintf("accessor panicked in sweep: %v", p)
		}
	}()
	if !hugeNumber(v, 0) {
		_ = v.GoString() // (printing a number with an astronomically large exponent takes minutes; not this property's subject)
	}
	_ = v.Type().GoString()
	_ = v.Type().FriendlyName()
	_ = v.IsWhollyKnown()
	_ = v.ContainsMarked()
	_ = v.HasWhollyKnownType()
	ud, _ := v.UnmarkDeep()
	if ud.ContainsMarked() {
		return "UnmarkDeep result still contains marks"
	}
	return sweep(v, 0)
}

func sweep(v cty.Value, depth int) string {
	u, mk := v.Unmark()
	if v.IsMarked() != (len(mk) > 0) {
		return fmt.Sprintf("IsMarked %v but Unmark returns %d marks", v.IsMarked(), len(mk))
	}
	_ = v.Marks()
	ty := u.Type()
	rng := u.Range()
	if !rng.TypeConstraint().Equals(ty) {
		return fmt.Sprintf("Range().TypeConstraint() %#v differs from Type() %#v", rng.TypeConstraint(), ty)
	}
	_ = rng.DefinitelyNotNull()
	if !u.IsKnown() || u.IsNull() {
		return ""
	}
	switch {
	case ty == cty.Number:
		_ = u.AsBigFloat().Sign()
	case ty.IsCollectionType() || ty.IsTupleType():
		n := u.LengthInt()
		ln := u.Length()
		if !ln.IsKnown() || ln.IsNull() || ln.Type() != cty.Number {
			// a set with unknown members has an unknown length
			if !(ty.IsSetType() && !u.IsWhollyKnown()) {
				return fmt.Sprintf("Length() of a known collection is %#v", ln)
			}
		} else if g, _ := ln.AsBigFloat().Int64(); int(g) != n {
			return fmt.Sprintf("Length() %#v disagrees with LengthInt() %d", ln, n)
		}
		if ty.IsSetType() {
			if u.AsValueSet().Length() != n {
				return "AsValueSet length disagrees with LengthInt"
			}
		}
		if ty.IsMapType() {
			am := u.AsValueMap()
			for k := range am {
				// the iterator re-normalises the keys it yields (StringVal); AsValueMap hands out the stored ones
				if k != norm.NFC.String(k) {
					return fmt.Sprintf("map key %q is not NFC-normalized (AsValueMap)", k)
				}
			}
			if len(am) != n {
				return "AsValueMap length disagrees with LengthInt"
			}
		} else if len(u.AsValueSlice()) != n {
			return "AsValueSlice length disagrees with LengthInt"
		}
		for it := u.ElementIterator(); it.Next(); {
			k, ev := it.Element()
			if !ty.IsSetType() {
				hi := u.HasIndex(k)
				if !hi.IsKnown() || hi.False() {
					return fmt.Sprintf("HasIndex(%#v) is %#v for a key the iterator yields", k, hi)
				}
				iv := u.Index(k)
				if !iv.Type().Equals(ev.Type()) {
					return fmt.Sprintf("Index(%#v) has type %#v, iterator element %#v", k, iv.Type(), ev.Type())
				}
			}
			if depth < 6 {
				if s := sweep(ev, depth+1); s != "" {
					return s
				}
			}
		}
	case ty.IsObjectType():
		if len(u.AsValueMap()) != len(ty.AttributeTypes()) {
			return "AsValueMap size disagrees with the attribute types"
		}
		for name := range ty.AttributeTypes() {
			if !ty.HasAttribute(name) {
				return "HasAttribute false for a declared attribute"
			}
			if depth < 6 {
				if s := sweep(u.GetAttr(name), depth+1); s != "" {
					return s
				}
			}
		}
	case ty.IsCapsuleType():
		_ = u.EncapsulatedValue()
	}
	return ""
}

// hugeNumber reports whether v holds a number whose binary exponent is so large
// that printing it in decimal is infeasible.
func hugeNumber(v cty.Value, depth int) (huge bool) {
	defer func() {
		if recover() != nil {
			huge = false
		}
	}()
	u, _ := v.Unmark()
	if !u.IsKnown() || u.IsNull() || depth > 8 {
		return false
	}
	ty := u.Type()
	switch {
	case ty == cty.Number:
		f := u.AsBigFloat()
		if f.IsInf() {
			return false
		}
		e := f.MantExp(nil)
		return e > 40000 || e < -40000
	case ty == cty.DynamicPseudoType || ty.IsPrimitiveType() || ty.IsCapsuleType():
		return false
	}
	for it := u.ElementIterator(); it.Next(); {
		_, ev := it.Element()
		if hugeNumber(ev, depth+1) {
			return true
		}
	}
	return false
}

// emptyOnlyByPrecision reports whether every unknown number in v whose range is
// empty under exact comparison has inclusive bounds that are equal under the
// documented number equality.
func emptyOnlyByPrecision(v cty.Value, depth int) (ok bool) {
	defer func() {
		if recover() != nil {
			ok = false
		}
	}()
	u, _ := v.Unmark()
	if u.IsNull() || depth > 8 {
		return true
	}
	ty := u.Type()
	if !u.IsKnown() {
		if ty != cty.Number {
			return true
		}
		rng := u.Range()
		lo, loInc := rng.NumberLowerBound()
		hi, hiInc := rng.NumberUpperBound()
		if !lo.IsKnown() || !hi.IsKnown() || lo.IsNull() || hi.IsNull() {
			return true
		}
		lf, hf := lo.AsBigFloat(), hi.AsBigFloat()
		c := lf.Cmp(hf)
		if c < 0 || (c == 0 && loInc && hiInc) {
			return true // not empty
		}
		return c > 0 && loInc && hiInc && model.NumEqualDoc(lf, hf)
	}
	if ty.IsCollectionType() || ty.IsTupleType() || ty.IsObjectType() {
		for it := u.ElementIterator(); it.Next(); {
			_, ev := it.Element()
			if !emptyOnlyByPrecision(ev, depth+1) {
				return false
			}
		}
	}
	return true
}

func stateOf(v cty.Value) string {
	u, _ := v.Unmark()
	s := ""
	if v.IsMarked() {
		s = "marked "
	}
	switch {
	case !u.IsKnown():
		return s + "unknown"
	case u.IsNull():
		return s + "null"
	}
	return s + "known"
}

// verdict runs the two flavours of the well-formedness walk on v and returns
// their messages ("" = silent). With sweep the public flavour goes on (if it is
// silent so far) to the attribute names of the type and the accessor sweep; a
// re-check of a value that passed the full check before uses the two walks only.
func (m *monitor) verdict(site string, v cty.Value, sweep bool, wit func() string) (pub, hk string) {
	// public flavour: mon.WellFormed, then (if silent) the checks that need more of the public API than that walk uses
	pub = mon.WellFormed(v)
	if v != cty.NilVal {
		hk = hookFlavour(v)
		if pub == "" && sweep {
			if pub = typeNamesNFC(v.Type()); pub == "" {
				pub = accessorSweep(v)
			}
		}
	}
	const emptyRange = "refinement with an empty numeric range"
	if clauseOf(pub) == emptyRange || clauseOf(hk) == emptyRange {
		// Both shared walks compare the two bounds exactly. The library compares numbers by its documented
		// equality (same shortest decimal text), under which NumberFloatVal(0.3) and ParseNumberVal("0.3") are
		// the same number, so [parsed 0.3, float 0.3] is the one-point range {0.3}, not an empty one. The
		// property says nothing about refinement ranges (C05 does); such a range is tolerated and counted.
		if emptyOnlyByPrecision(v, 0) {
			m.c.Count("tolerated:numeric range whose inclusive bounds are equal by documented equality but not exactly")
			m.c.CrossNote("C05", site+": inclusive numeric bounds equal by documented equality, lower > upper exactly", wit())
			if clauseOf(pub) == emptyRange {
				pub = ""
			}
			if clauseOf(hk) == emptyRange {
				hk = ""
			}
		}
	}
	return pub, hk
}

// report turns the messages of the two flavours into violations at site. pre is
// put in front of the detail (for a re-check: which earlier value this is about).
// disagree: also report a shared clause that only one flavour saw.
func (m *monitor) report(site, class string, v cty.Value, pub, hk, w, pre string, disagree bool) {
	state := "NilVal"
	if v != cty.NilVal {
		state = stateOf(v)
	}
	verb := "returned"
	if pre != "" {
		verb = "is"
	}
	detail := fmt.Sprintf("%s%s (%s) %s\npublic-API flavour: %q\nhook flavour: %q", pre, verb, state, gs(v), pub, hk)
	pc, hc := clauseOf(pub), clauseOf(hk)
	if strings.HasPrefix(pc, "other") {
		pc = "accessor results are inconsistent with each other"
	}
	if pc != "" {
		m.c.Count("ill-formed(public):" + pc)
		m.c.Violate(site, pc, class, w, detail)
	}
	if hc != "" {
		m.c.Count("ill-formed(hook):" + hc)
		if hc != pc {
			m.c.Violate(site, hc, class, w, detail)
		}
	}
	if disagree && (pc == "") != (hc == "") {
		one, who := pc, "public-API flavour only"
		if one == "" {
			one, who = hc, "hook flavour only"
		}
		if sharedClauses[one] {
			m.c.Count("flavours-disagree:" + one)
			m.c.Violate(site, "the two flavours of the well-formedness walk disagree", one+" ("+who+")", w, detail)
		}
	}
}

// see validates one value returned by the library at API site `site`. class is
// the narrow input class of the call (fixed text chosen by the workload branch);
// wit builds the printable inputs lazily.
func (m *monitor) see(site, class string, v cty.Value, wit func() string) bool {
	m.sites[site]++
	m.caseVals++
	m.c.Count("site:" + site)
	pub, hk := m.verdict(site, v, true, wit)
	if pub == "" && hk == "" {
		m.remember(site, v)
		return true
	}
	m.report(site, class, v, pub, hk, wit(), "", true)
	return false
}

// seeAll validates a slice of values from one site.
func (m *monitor) seeAll(site, class string, vs []cty.Value, wit func() string) {
	for _, v := range vs {
		m.see(site, class, v, wit)
	}
}

// coverage reports how many sites produced at least min values in this batch.
func (m *monitor) coverage(min int64) (n int, names []string) {
	for k, cnt := range m.sites {
		if cnt >= min {
			n++
		}
		names = append(names, k)
	}
	sort.Strings(names)
	return
}
