package c06

import (
	"fmt"
	"math/big"

	"github.com/zclconf/go-cty/cty"

	"verif/harness/core"
	"verif/harness/gen"
	"verif/harness/model"
)

// rawString draws a string that is valid UTF-8 but frequently NOT NFC (NFD
// twins, lone combining marks, Hangul jamo sequences).
func rawString(r *core.Rand) string {
	switch r.Intn(6) {
	case 0:
		return []string{"e\u0301", "s\u0323\u0307", "\u1100\u1161", "\u1100\u1161\u11a8", "=\u0338", "A\u030a", "\u212b", "\u2126", "a\u0327\u0301", "\u0958"}[r.Intn(10)]
	case 1:
		return gen.SmallString(r)
	case 2:
		return gen.Key(r)
	}
	return gen.String(r, 8)
}

// membersOf draws n members for a collection constructor: values of one type,
// optionally with dynamic-typed unknowns / nulls mixed in, marks, duplicates.
func membersOf(r *core.Rand, ety cty.Type, n int, forSet bool) []cty.Value {
	es := make([]cty.Value, 0, n)
	var first cty.Value
	for i := 0; i < n; i++ {
		var e cty.Value
		switch {
		case i > 0 && r.Chance(1, 5):
			e = es[r.Intn(len(es))] // exact duplicate
		case i > 0 && first.Type().Equals(cty.Number) && r.Chance(1, 4):
			e = sameNumberOtherPrecision(r, first)
		default:
			e = gen.Value(r, ety, valOpts(r))
		}
		if i == 0 {
			first = e
			ety = e.Type() // members share the first member's concrete type
			if ety == cty.DynamicPseudoType {
				ety = cty.String
			}
		}
		if !e.Type().Equals(ety) && e.Type() != cty.DynamicPseudoType {
			e = gen.Value(r, ety, valOpts(r))
		}
		if r.Chance(1, 6) {
			e = gen.MarkSome(r, e, 50, 20)
		}
		es = append(es, e)
	}
	if r.Chance(1, 8) {
		es[r.Intn(len(es))] = cty.DynamicVal
	}
	if r.Chance(1, 10) {
		es[r.Intn(len(es))] = cty.NullVal(cty.DynamicPseudoType)
	}
	return es
}

func sameNumberOtherPrecision(r *core.Rand, v cty.Value) cty.Value {
	u, _ := v.Unmark()
	if !u.IsKnown() || u.IsNull() || u.Type() != cty.Number {
		return v
	}
	f := u.AsBigFloat()
	switch r.Intn(3) {
	case 0:
		g := new(big.Float).SetPrec(64).Set(f)
		return cty.NumberVal(g)
	case 1:
		if f.IsInf() {
			return v
		}
		pv, err := cty.ParseNumberVal(f.Text('g', -1))
		if err == nil {
			return pv
		}
		return v
	}
	return u.Add(cty.Zero)
}

func caseCtor(m *monitor, r *core.Rand) string {
	switch r.Intn(16) {
	case 0: // numbers
		i := r.Int63() - r.Int63()
		var a, b, c, d, e cty.Value
		f := gen.GoFloat64(r)
		bf := gen.GoBigFloat(r)
		m.call("cty.NumberIntVal", func() { a = cty.NumberIntVal(i) })
		m.see("cty.NumberIntVal", "", a, func() string { return fmt.Sprint(i) })
		m.call("cty.NumberUIntVal", func() { b = cty.NumberUIntVal(uint64(i)) })
		m.see("cty.NumberUIntVal", "", b, func() string { return fmt.Sprint(uint64(i)) })
		if m.call("cty.NumberFloatVal", func() { c = cty.NumberFloatVal(f) }) {
			m.see("cty.NumberFloatVal", "", c, func() string { return fmt.Sprint(f) })
		}
		if m.call("cty.NumberVal", func() { d = cty.NumberVal(bf) }) {
			m.see("cty.NumberVal", "", d, func() string { return bf.Text('g', -1) })
		}
		m.call("cty.BoolVal", func() { e = cty.BoolVal(i&1 == 0) })
		m.see("cty.BoolVal", "", e, func() string { return fmt.Sprint(i&1 == 0) })
		return fmt.Sprintf("numbers %d %v %s", i, f, bf.Text('g', 20))
	case 1: // parsed numbers
		var s string
		switch r.Intn(5) {
		case 0:
			s = gen.GoBigFloat(r).Text('g', -1)
		case 1:
			s = gen.GoBigInt(r).String()
		case 2:
			s = fmt.Sprintf("%d.%de%d", r.Intn(100), r.Intn(1000), r.Intn(80)-40)
		case 3:
			s = []string{"", "0x10", "1e", "Inf", "-Inf", "+1", " 1", "1_000", "NaN", "0b11", "1e4000", ".5", "5."}[r.Intn(13)]
		default:
			s = gen.String(r, 5)
		}
		var v cty.Value
		var err error
		if m.call("cty.ParseNumberVal", func() { v, err = cty.ParseNumberVal(s) }) && err == nil {
			m.see("cty.ParseNumberVal", "", v, func() string { return fmt.Sprintf("%q", s) })
		} else if err != nil && v != cty.NilVal {
			m.see("cty.ParseNumberVal", "error result", v, func() string { return fmt.Sprintf("%q", s) })
		}
		if m.call("cty.MustParseNumberVal", func() { v = cty.MustParseNumberVal(s) }) {
			m.see("cty.MustParseNumberVal", "", v, func() string { return fmt.Sprintf("%q", s) })
		}
		return "parse " + s
	case 2: // strings
		s := rawString(r)
		var v cty.Value
		m.call("cty.StringVal", func() { v = cty.StringVal(s) })
		m.see("cty.StringVal", "", v, func() string { return fmt.Sprintf("%q", s) })
		return fmt.Sprintf("string %q", s)
	case 3: // objects with raw attribute names
		n := r.Intn(5)
		attrs := map[string]cty.Value{}
		text := ""
		for i := 0; i < n; i++ {
			k := rawString(r)
			attrs[k] = anyValue(r)
			text += fmt.Sprintf("%q=%s;", k, gs(attrs[k]))
		}
		var v cty.Value
		if m.call("cty.ObjectVal", func() { v = cty.ObjectVal(attrs) }) {
			m.see("cty.ObjectVal", "", v, func() string { return gsMap(attrs) })
		}
		return "object " + text
	case 4: // tuples
		n := r.Intn(5)
		es := make([]cty.Value, n)
		for i := range es {
			es[i] = anyValue(r)
		}
		var v cty.Value
		if m.call("cty.TupleVal", func() { v = cty.TupleVal(es) }) {
			m.see("cty.TupleVal", "", v, func() string { return gsAll(es) })
		}
		return "tuple " + gsAll(es)
	case 5: // lists
		es := membersOf(r, anyType(r), 1+r.Intn(4), false)
		var v cty.Value
		if m.call("cty.ListVal", func() { v = cty.ListVal(es) }) {
			m.see("cty.ListVal", "", v, func() string { return gsAll(es) })
		}
		return "list " + gsAll(es)
	case 6: // maps with raw keys
		ety := anyType(r)
		es := membersOf(r, ety, 1+r.Intn(4), false)
		mm := map[string]cty.Value{}
		for _, e := range es {
			mm[rawString(r)] = e
		}
		var v cty.Value
		if m.call("cty.MapVal", func() { v = cty.MapVal(mm) }) {
			m.see("cty.MapVal", "", v, func() string { return gsMap(mm) })
		}
		return "map " + gsMap(mm)
	case 7, 8: // sets: duplicates, marked members, unknown members
		es := membersOf(r, anyType(r), 1+r.Intn(5), true)
		var v cty.Value
		if m.call("cty.SetVal", func() { v = cty.SetVal(es) }) {
			m.see("cty.SetVal", "", v, func() string { return gsAll(es) })
		}
		return "set " + gsAll(es)
	case 9: // empties
		ety := anyType(r)
		var a, b, c cty.Value
		m.call("cty.ListValEmpty", func() { a = cty.ListValEmpty(ety) })
		m.see("cty.ListValEmpty", "", a, func() string { return ety.GoString() })
		m.call("cty.MapValEmpty", func() { b = cty.MapValEmpty(ety) })
		m.see("cty.MapValEmpty", "", b, func() string { return ety.GoString() })
		m.call("cty.SetValEmpty", func() { c = cty.SetValEmpty(ety) })
		m.see("cty.SetValEmpty", "", c, func() string { return ety.GoString() })
		return "empties " + ety.GoString()
	case 10: // null / unknown / dynamic
		ty := anyType(r)
		var a, b cty.Value
		m.call("cty.NullVal", func() { a = cty.NullVal(ty) })
		m.see("cty.NullVal", "", a, func() string { return ty.GoString() })
		m.call("cty.UnknownVal", func() { b = cty.UnknownVal(ty) })
		m.see("cty.UnknownVal", "", b, func() string { return ty.GoString() })
		m.see("cty.DynamicVal", "", cty.DynamicVal, func() string { return "" })
		return "null/unknown " + ty.GoString()
	case 11: // capsules
		var a, b cty.Value
		x := r.Intn(4)
		m.call("cty.CapsuleVal", func() { a = model.NewCapA(x) })
		m.see("cty.CapsuleVal", "", a, func() string { return fmt.Sprint("capA ", x) })
		m.call("cty.CapsuleVal", func() { b = model.NewCapB(x) })
		m.see("cty.CapsuleVal", "", b, func() string { return fmt.Sprint("capB ", x) })
		es := []cty.Value{b, model.NewCapB(x), model.NewCapB(x + 1)}
		var s cty.Value
		if m.call("cty.SetVal", func() { s = cty.SetVal(es) }) {
			m.see("cty.SetVal", "capsule members", s, func() string { return gsAll(es) })
		}
		return fmt.Sprint("capsule ", x)
	case 12: // UnknownAsNull
		v := anyValue(r)
		if r.Chance(2, 3) {
			v, _ = v.UnmarkDeep()
		}
		var out cty.Value
		if m.call("cty.UnknownAsNull", func() { out = cty.UnknownAsNull(v) }) {
			m.see("cty.UnknownAsNull", "", out, func() string { return gs(v) })
		}
		return "unknownasnull " + gs(v)
	case 13: // members yielded by iterators and As* accessors of constructed values
		v := anyValue(r)
		if u, _ := v.Unmark(); !(u.IsKnown() && !u.IsNull() && (u.Type().IsCollectionType() || u.Type().IsTupleType() || u.Type().IsObjectType())) {
			ety := anyType(r)
			cts := []cty.Type{cty.List(ety), cty.Set(ety), cty.Map(ety), cty.Tuple([]cty.Type{ety, cty.String}), cty.Object(map[string]cty.Type{"a": ety, "b": cty.Number})}
			v = knownValue(r, cts[r.Intn(len(cts))])
			if r.Chance(1, 4) {
				v = gen.MarkSome(r, v, 0, 30)
			}
		}
		u, _ := v.Unmark()
		if u.IsKnown() && !u.IsNull() && (u.Type().IsCollectionType() || u.Type().IsTupleType() || u.Type().IsObjectType()) {
			m.call("Value.ElementIterator", func() {
				for it := u.ElementIterator(); it.Next(); {
					k, e := it.Element()
					m.see("ElementIterator.Element(key)", "", k, func() string { return gs(v) })
					m.see("ElementIterator.Element(value)", "", e, func() string { return gs(v) })
				}
			})
			if u.Type().IsMapType() || u.Type().IsObjectType() {
				m.call("Value.AsValueMap", func() {
					for _, e := range u.AsValueMap() {
						m.see("Value.AsValueMap", "", e, func() string { return gs(v) })
					}
				})
			} else {
				m.call("Value.AsValueSlice", func() { m.seeAll("Value.AsValueSlice", "", u.AsValueSlice(), func() string { return gs(v) }) })
			}
		}
		return "members " + gs(v)
	case 14: // nested construction: collection of constructed collections
		inner := membersOf(r, anyType(r), 1+r.Intn(3), false)
		var l cty.Value
		if !m.call("cty.ListVal", func() { l = cty.ListVal(inner) }) {
			return "nested(panicked) " + gsAll(inner)
		}
		m.see("cty.ListVal", "", l, func() string { return gsAll(inner) })
		outer := []cty.Value{l, l}
		if r.Bool() {
			outer = append(outer, cty.UnknownVal(l.Type()), cty.NullVal(l.Type()))
		}
		var s, mp cty.Value
		if m.call("cty.SetVal", func() { s = cty.SetVal(outer) }) {
			m.see("cty.SetVal", "nested", s, func() string { return gsAll(outer) })
		}
		mm := map[string]cty.Value{rawString(r): l, rawString(r): l}
		if m.call("cty.MapVal", func() { mp = cty.MapVal(mm) }) {
			m.see("cty.MapVal", "nested", mp, func() string { return gsMap(mm) })
		}
		return "nested " + gsAll(inner)
	default: // NormalizeString is not a value, but StringVal of it must be a fixpoint
		s := rawString(r)
		n := cty.NormalizeString(s)
		var a, b cty.Value
		m.call("cty.StringVal", func() { a = cty.StringVal(n) })
		m.call("cty.StringVal", func() { b = cty.StringVal(a.AsString() + s) })
		m.see("cty.StringVal", "", a, func() string { return fmt.Sprintf("%q", n) })
		m.see("cty.StringVal", "", b, func() string { return fmt.Sprintf("%q", a.AsString()+s) })
		return fmt.Sprintf("normalize %q", s)
	}
}

// ---------------------------------------------------------------------------
// refinements

func caseRefine(m *monitor, r *core.Rand) string {
	ty := anyType(r)
	if r.Chance(1, 2) {
		ty = []cty.Type{cty.Number, cty.String, cty.List(cty.String), cty.Set(cty.Number), cty.Map(cty.Bool), cty.Bool, cty.EmptyObject}[r.Intn(7)]
	}
	var base cty.Value
	switch r.Intn(4) {
	case 0:
		base = unmarkedValue(r, ty) // possibly known: refining a known value validates it
	case 1:
		base = gen.Unknown(r, ty, true)
	default:
		base = cty.UnknownVal(ty)
	}
	if r.Chance(1, 8) {
		base = base.Mark(gen.Marks[r.Intn(3)])
	}
	text := gs(base) + ".Refine()"
	var out cty.Value
	ok := m.call("RefinementBuilder.NewValue", func() {
		b := base.Refine()
		bty := base.Type()
		for k, n := 0, 1+r.Intn(4); k < n; k++ {
			// mostly a method that is legal for the type; sometimes any method (misuse panics and returns nothing)
			var choice int
			switch {
			case r.Chance(1, 8):
				choice = r.Intn(11)
			case bty == cty.Number:
				choice = []int{0, 2, 3, 4, 2, 3}[r.Intn(6)]
			case bty == cty.String:
				choice = []int{0, 5, 6, 5}[r.Intn(4)]
			case bty.IsCollectionType():
				choice = []int{0, 7, 8, 9}[r.Intn(4)]
			default:
				choice = []int{0, 0, 1}[r.Intn(3)]
			}
			switch choice {
			case 0:
				b = b.NotNull()
				text += ".NotNull()"
			case 1:
				b = b.Null()
				text += ".Null()"
			case 2:
				v := gen.Number(r).V
				if r.Bool() {
					v = cty.NumberIntVal(int64(r.Intn(6) - 8))
				}
				if r.Chance(1, 10) {
					v = v.Mark(gen.Marks[0])
				}
				inc := r.Bool()
				text += fmt.Sprintf(".NumberRangeLowerBound(%s,%v)", gs(v), inc)
				b = b.NumberRangeLowerBound(v, inc)
			case 3:
				v := gen.Number(r).V
				if r.Bool() {
					v = cty.NumberIntVal(int64(r.Intn(6) + 3))
				}
				inc := r.Bool()
				text += fmt.Sprintf(".NumberRangeUpperBound(%s,%v)", gs(v), inc)
				b = b.NumberRangeUpperBound(v, inc)
			case 4:
				lo, hi := gen.SmallNumber(r), gen.SmallNumber(r)
				if lo.GreaterThan(hi).True() && r.Chance(3, 4) {
					lo, hi = hi, lo
				}
				text += fmt.Sprintf(".NumberRangeInclusive(%s,%s)", gs(lo), gs(hi))
				b = b.NumberRangeInclusive(lo, hi)
			case 5:
				s := rawString(r)
				text += fmt.Sprintf(".StringPrefix(%q)", s)
				b = b.StringPrefix(s)
			case 6:
				s := rawString(r)
				text += fmt.Sprintf(".StringPrefixFull(%q)", s)
				b = b.StringPrefixFull(s)
			case 7:
				n := r.Intn(3)
				text += fmt.Sprintf(".CollectionLengthLowerBound(%d)", n)
				b = b.CollectionLengthLowerBound(n)
			case 8:
				n := 2 + r.Intn(4)
				if r.Chance(1, 6) {
					n = r.Intn(3) - 1
				}
				text += fmt.Sprintf(".CollectionLengthUpperBound(%d)", n)
				b = b.CollectionLengthUpperBound(n)
			case 9:
				n := r.Intn(4)
				text += fmt.Sprintf(".CollectionLength(%d)", n)
				b = b.CollectionLength(n)
			default:
				b = b.NotNull()
				text += ".NotNull()"
			}
		}
		out = b.NewValue()
	})
	wit := func() string { return text + ".NewValue()" }
	if ok {
		m.see("RefinementBuilder.NewValue", "", out, wit)
		// the values a range hands back
		u, _ := out.Unmark()
		if u.Type() == cty.Number {
			m.call("ValueRange.NumberLowerBound", func() {
				lo, _ := u.Range().NumberLowerBound()
				hi, _ := u.Range().NumberUpperBound()
				m.see("ValueRange.NumberLowerBound", "", lo, wit)
				m.see("ValueRange.NumberUpperBound", "", hi, wit)
			})
		}
		probe := unmarkedValue(r, u.Type())
		var inc cty.Value
		if m.call("ValueRange.Includes", func() { inc = u.Range().Includes(probe) }) {
			m.see("ValueRange.Includes", "", inc, func() string { return wit() + " Includes " + gs(probe) })
		}
		var nn, rw cty.Value
		if m.call("Value.RefineNotNull", func() { nn = out.RefineNotNull() }) {
			m.see("Value.RefineNotNull", "", nn, wit)
		}
		if m.call("Value.RefineWith", func() {
			rw = out.RefineWith(func(b *cty.RefinementBuilder) *cty.RefinementBuilder { return b.NotNull() })
		}) {
			m.see("Value.RefineWith", "", rw, wit)
		}
	}
	return text
}

// ---------------------------------------------------------------------------
// marks

func caseMarks(m *monitor, r *core.Rand) string {
	v := anyValue(r)
	if r.Bool() {
		v = gen.MarkSome(r, v, 60, 25)
	}
	wit := func() string { return gs(v) }
	var a, b, c, d, e cty.Value
	mk := gen.Marks[r.Intn(3)]
	if m.call("Value.Mark", func() { a = v.Mark(mk).Mark(gen.Marks[r.Intn(3)]) }) {
		m.see("Value.Mark", "", a, wit)
	}
	ms1 := cty.NewValueMarks(gen.Marks[r.Intn(3)])
	ms2 := cty.NewValueMarks()
	if r.Bool() {
		ms2 = cty.NewValueMarks(gen.Marks[r.Intn(3)], gen.Marks[r.Intn(3)])
	}
	if m.call("Value.WithMarks", func() { b = v.WithMarks(ms1, ms2) }) {
		m.see("Value.WithMarks", "", b, wit)
	}
	if m.call("Value.WithMarks", func() { b = v.WithMarks(ms2) }) {
		m.see("Value.WithMarks", "possibly empty mark set", b, wit)
	}
	other := anyValue(r)
	if m.call("Value.WithSameMarks", func() { c = v.WithSameMarks(other, a) }) {
		m.see("Value.WithSameMarks", "", c, func() string { return gs(v) + " with marks of " + gs(other) })
	}
	if m.call("Value.Unmark", func() { d, _ = a.Unmark() }) {
		m.see("Value.Unmark", "", d, wit)
	}
	if m.call("Value.UnmarkDeep", func() { e, _ = a.UnmarkDeep() }) {
		m.see("Value.UnmarkDeep", "", e, wit)
	}
	var f cty.Value
	var pvm []cty.PathValueMarks
	if m.call("Value.UnmarkDeepWithPaths", func() { f, pvm = a.UnmarkDeepWithPaths() }) {
		m.see("Value.UnmarkDeepWithPaths", "", f, wit)
		var g cty.Value
		if m.call("Value.MarkWithPaths", func() { g = f.MarkWithPaths(pvm) }) {
			m.see("Value.MarkWithPaths", "", g, wit)
		}
		if len(pvm) > 0 && r.Bool() {
			// apply the marks twice and to an already marked value: still one layer
			if m.call("Value.MarkWithPaths", func() { g = a.MarkWithPaths(pvm).MarkWithPaths(pvm) }) {
				m.see("Value.MarkWithPaths", "applied to a marked value", g, wit)
			}
		}
	}
	// a marked member handed to the collection constructors
	es := []cty.Value{a, c}
	var t, s cty.Value
	if m.call("cty.TupleVal", func() { t = cty.TupleVal(es) }) {
		m.see("cty.TupleVal", "marked members", t, func() string { return gsAll(es) })
	}
	if a.Type().Equals(c.Type()) {
		if m.call("cty.SetVal", func() { s = cty.SetVal(es) }) {
			m.see("cty.SetVal", "marked members", s, func() string { return gsAll(es) })
		}
		var l cty.Value
		if m.call("cty.ListVal", func() { l = cty.ListVal(es) }) {
			m.see("cty.ListVal", "marked members", l, func() string { return gsAll(es) })
		}
	}
	return "marks " + gs(v) + " " + fmt.Sprint(mk) + gs(other)
}

// ---------------------------------------------------------------------------
// ValueSet helpers

func caseValueSet(m *monitor, r *core.Rand) string {
	ety := gen.Type(r, 1+r.Intn(2), tyOptsPlain).Cty()
	// A ValueSet is the one place where the caller hands members to a set one at a time. Members a set cannot hold
	// (marked at the outermost level, marked further down) are offered as well: Add / Has / Remove may refuse them
	// (they panic, which is counted and not judged) but what the set hands out afterwards must still be a proper set.
	markedPct := 0
	if r.Chance(1, 3) {
		markedPct = 25
	}
	mk := func() (cty.ValueSet, string) {
		s := cty.NewValueSet(ety)
		text := ""
		for k, n := 0, r.Intn(6); k < n; k++ {
			e := gen.Value(r, ety, gen.ValueOpts{MaxLen: 2, SmallNums: true, NullPct: 8, UnknownPct: 5})
			cls := ""
			if r.Intn(100) < markedPct {
				switch r.Intn(3) {
				case 0:
					e, cls = e.Mark(gen.Marks[r.Intn(3)]), "member marked at its outermost level"
				case 1:
					e, cls = gen.MarkSome(r, e, 0, 60), "member possibly marked below its outermost level"
				default:
					e, cls = gen.MarkSome(r, e, 50, 40), "member possibly marked at any level"
				}
			}
			site, sign := "ValueSet.Add", "+"
			var f func()
			switch x := r.Intn(12); {
			case x < 2:
				site, sign, f = "ValueSet.Remove", "-", func() { s.Remove(e) }
			case x < 4:
				site, sign, f = "ValueSet.Has", "?", func() { _ = s.Has(e) }
			default:
				f = func() { s.Add(e) }
				if r.Chance(1, 4) {
					f = func() { s.Add(e); s.Add(e) } // the same member twice is one member
				}
			}
			text += sign + gs(e)
			if m.call(site, f) && cls != "" && e.ContainsMarked() {
				// the set took a member it cannot hold as it is: look at what it holds now
				m.c.Count("valueset:" + site + " accepted a " + cls)
				var sv cty.Value
				here := text
				if m.call("cty.SetValFromValueSet", func() { sv = cty.SetValFromValueSet(s) }) {
					m.see(site, cls, sv, func() string { return fmt.Sprintf("NewValueSet(%#v) %s", ety, here) })
				}
			}
		}
		return s, text
	}
	a, ta := mk()
	b, tb := mk()
	wit := func() string { return fmt.Sprintf("NewValueSet(%#v) %s ; %s", ety, ta, tb) }
	var v cty.Value
	if m.call("cty.SetValFromValueSet", func() { v = cty.SetValFromValueSet(a) }) {
		m.see("cty.SetValFromValueSet", "", v, wit)
	}
	m.call("ValueSet.Values", func() {
		vals := a.Values()
		m.seeAll("ValueSet.Values", "", vals, wit)
		for _, x := range vals {
			if x.ContainsMarked() {
				m.c.Count("ill-formed(public):set holds a marked member")
				m.c.Violate("ValueSet.Values", "set holds a marked member", "", wit(), "Values() hands out the member "+gs(x))
				break
			}
		}
	})
	for _, op := range []struct {
		name string
		f    func() cty.ValueSet
	}{
		{"ValueSet.Union", func() cty.ValueSet { return a.Union(b) }},
		{"ValueSet.Intersection", func() cty.ValueSet { return a.Intersection(b) }},
		{"ValueSet.Subtract", func() cty.ValueSet { return a.Subtract(b) }},
		{"ValueSet.SymmetricDifference", func() cty.ValueSet { return a.SymmetricDifference(b) }},
	} {
		var rs cty.ValueSet
		var sv cty.Value
		if m.call(op.name, func() { rs = op.f(); sv = cty.SetValFromValueSet(rs) }) {
			m.see(op.name, "", sv, wit)
		}
	}
	// AsValueSet of a set value and back
	if v != cty.NilVal {
		var back cty.Value
		if m.call("Value.AsValueSet", func() { back = cty.SetValFromValueSet(v.AsValueSet()) }) {
			m.see("Value.AsValueSet", "", back, wit)
		}
	}
	// the value set lives on after a set value was taken from it: it is enumerated, grows, is wrapped again, shrinks.
	// The set value taken earlier is looked at again afterwards: still a proper set, and its accessors still agree
	// with one another (length = number of members handed out, every member handed out is a member).
	if v != cty.NilVal {
		m.call("ValueSet history", func() {
			_ = a.Values()
			for _, x := range b.Values() {
				if !x.ContainsMarked() {
					a.Add(x)
				}
			}
			_ = a.Values()
			later := cty.SetValFromValueSet(a)
			_ = later.LengthInt()
			_ = later.AsValueSlice()
			for i, x := range a.Values() {
				if i%2 == 0 {
					a.Remove(x)
				}
			}
			_ = a.Values()
		})
		m.see("cty.SetValFromValueSet", "set value taken earlier, looked at again after the value set changed", v, wit)
		m.call("Value.AsValueSlice", func() {
			u, _ := v.Unmark()
			if !u.IsKnown() || u.IsNull() {
				return
			}
			es := u.AsValueSlice()
			if len(es) != u.LengthInt() {
				m.c.Violate("cty.SetValFromValueSet", "accessors of one set value disagree", "set value taken earlier, looked at again after the value set changed", wit(),
					fmt.Sprintf("LengthInt() = %d, AsValueSlice() hands out %d members: %#v", u.LengthInt(), len(es), es))
				return
			}
			for _, e := range es {
				if he := u.HasElement(e); e.IsWhollyKnown() && he.IsKnown() && he.False() {
					m.c.Violate("cty.SetValFromValueSet", "accessors of one set value disagree", "set value taken earlier, looked at again after the value set changed", wit(),
						fmt.Sprintf("AsValueSlice() hands out %#v, HasElement answers False", e))
					return
				}
			}
		})
	}
	// AsValueSet of a list or map (it adds the members one by one), also one whose members are marked
	if r.Chance(1, 3) {
		var es []cty.Value
		for k, n := 0, 1+r.Intn(3); k < n; k++ {
			e := gen.Value(r, ety, gen.ValueOpts{MaxLen: 2, SmallNums: true, NullPct: 8, UnknownPct: 5})
			if r.Chance(1, 3) {
				e = gen.MarkSome(r, e, 60, 30)
			}
			es = append(es, e)
		}
		var coll, back cty.Value
		ctor := "cty.ListVal"
		if m.call(ctor, func() {
			if r.Bool() {
				coll = cty.ListVal(es)
			} else {
				ctor = "cty.MapVal"
				mm := map[string]cty.Value{}
				for i, e := range es {
					mm[[]string{"a", "b", "k"}[i%3]] = e
				}
				coll = cty.MapVal(mm)
			}
		}) {
			w2 := func() string { return "AsValueSet of " + gs(coll) }
			if m.call("Value.AsValueSet", func() { back = cty.SetValFromValueSet(coll.AsValueSet()) }) {
				m.see("Value.AsValueSet", "of a list or map", back, w2)
			}
		}
	}
	return "valueset " + wit()
}
