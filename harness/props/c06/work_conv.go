package c06

import (
	"fmt"
	"sort"

	"github.com/zclconf/go-cty/cty"
	"github.com/zclconf/go-cty/cty/convert"

	"verif/harness/core"
	"verif/harness/gen"
	"verif/harness/model"
)

var optTyOpts = gen.TypeOpts{Dynamic: true, Optional: true, Capsule: true, TwinKeys: true}

// relatedTarget derives a conversion target from a source type such that a
// conversion is likely to exist: kinds are swapped where cty converts between
// them, primitives drift towards string, sub-trees become the dynamic
// placeholder, objects lose attributes and gain OPTIONAL ones (whose own types
// may again carry optional attributes).
func relatedTarget(r *core.Rand, ty cty.Type, depth int) cty.Type {
	if r.Chance(1, 14) {
		return cty.DynamicPseudoType
	}
	if depth > 4 {
		return ty
	}
	switch {
	case ty == cty.DynamicPseudoType:
		if r.Bool() {
			return ty
		}
		return gen.Type(r, 2, optTyOpts).Cty()
	case ty.IsPrimitiveType():
		switch r.Intn(6) {
		case 0:
			return cty.String
		case 1:
			return []cty.Type{cty.Bool, cty.Number, cty.String}[r.Intn(3)]
		}
		return ty
	case ty.IsCapsuleType():
		if r.Chance(1, 4) {
			return cty.String
		}
		return ty
	case ty.IsListType(), ty.IsSetType():
		e := relatedTarget(r, ty.ElementType(), depth+1)
		switch r.Intn(5) {
		case 0, 1:
			return cty.List(e)
		case 2, 3:
			return cty.Set(e)
		}
		if ty.IsListType() {
			return cty.List(e)
		}
		return cty.Set(e)
	case ty.IsMapType():
		e := relatedTarget(r, ty.ElementType(), depth+1)
		if r.Chance(1, 3) {
			return objectTargetFromNames(r, []string{"a", "b", "c", "k", "\u00e9", ""}, func(string) cty.Type {
				return relatedTarget(r, ty.ElementType(), depth+1)
			}, depth)
		}
		return cty.Map(e)
	case ty.IsTupleType():
		ets := ty.TupleElementTypes()
		switch r.Intn(5) {
		case 0:
			if len(ets) > 0 {
				return cty.List(relatedTarget(r, ets[0], depth+1))
			}
			return cty.List(cty.DynamicPseudoType)
		case 1:
			return cty.List(cty.DynamicPseudoType)
		case 2:
			if len(ets) > 0 {
				return cty.Set(relatedTarget(r, ets[r.Intn(len(ets))], depth+1))
			}
			return cty.Set(cty.DynamicPseudoType)
		}
		out := make([]cty.Type, len(ets))
		for i, e := range ets {
			out[i] = relatedTarget(r, e, depth+1)
		}
		return cty.Tuple(out)
	case ty.IsObjectType():
		atys := ty.AttributeTypes()
		if r.Chance(1, 5) {
			if len(atys) == 0 || r.Bool() {
				return cty.Map(cty.DynamicPseudoType)
			}
			names := sortedTypeNames(atys)
			return cty.Map(relatedTarget(r, atys[names[r.Intn(len(names))]], depth+1))
		}
		names := sortedTypeNames(atys)
		return objectTargetFromNames(r, names, func(n string) cty.Type {
			if at, ok := atys[n]; ok {
				return relatedTarget(r, at, depth+1)
			}
			return gen.Type(r, 2, optTyOpts).Cty()
		}, depth)
	}
	return ty
}

func sortedTypeNames(m map[string]cty.Type) []string {
	ks := make([]string, 0, len(m))
	for k := range m {
		ks = append(ks, k)
	}
	sort.Strings(ks)
	return ks
}

// objectTargetFromNames builds an object target over (most of) the given names
// plus new attributes; new ones are always optional, existing ones sometimes.
func objectTargetFromNames(r *core.Rand, names []string, tyOf func(string) cty.Type, depth int) cty.Type {
	atys := map[string]cty.Type{}
	var opt []string
	for _, n := range names {
		if r.Chance(1, 6) {
			continue // dropped (object->object allows extra source attributes)
		}
		atys[n] = tyOf(n)
		if r.Chance(1, 3) {
			opt = append(opt, n)
		}
	}
	for k, n := 0, r.Intn(3); k < n; k++ {
		name := []string{"a", "b", "c", "k", "new", "zz", "\u00e9"}[r.Intn(7)]
		if _, ok := atys[name]; ok {
			continue
		}
		// a new attribute the source lacks must be optional for the conversion to exist
		var t cty.Type
		switch r.Intn(4) {
		case 0:
			t = cty.ObjectWithOptionalAttrs(map[string]cty.Type{"x": cty.String, "y": cty.List(cty.Number)}, []string{"y"})
		case 1:
			t = cty.List(cty.ObjectWithOptionalAttrs(map[string]cty.Type{"x": cty.Bool}, []string{"x"}))
		default:
			t = gen.Type(r, 2, optTyOpts).Cty()
		}
		atys[name] = t
		opt = append(opt, name)
	}
	if len(opt) == 0 {
		return cty.Object(atys)
	}
	return cty.ObjectWithOptionalAttrs(atys, opt)
}

func convClass(target cty.Type) string {
	tn := model.TNodeOf(target)
	s := "target plain"
	if model.HasOptional(tn) {
		s = "target has optional attributes"
	}
	if model.HasDynamic(tn) {
		s += "+dynamic"
	}
	return s
}

func caseConvert(m *monitor, r *core.Rand) string {
	v := anyValue(r)
	if r.Chance(1, 6) {
		v = operand(r, anyType(r))
	}
	var target cty.Type
	if r.Chance(1, 5) {
		target = gen.Type(r, 1+r.Intn(3), optTyOpts).Cty()
	} else {
		target = relatedTarget(r, v.Type(), 0)
	}
	cls := convClass(target)
	wit := func() string { return fmt.Sprintf("%s -> %#v", gs(v), target) }
	var out cty.Value
	var err error
	if m.call("convert.Convert", func() { out, err = convert.Convert(v, target) }) {
		if err == nil {
			m.c.Count("convert:ok")
			m.see("convert.Convert", cls, out, wit)
			// converting the result again (to the same target and to a second related one)
			var again cty.Value
			var e2 error
			if m.call("convert.Convert", func() { again, e2 = convert.Convert(out, target) }) && e2 == nil {
				m.see("convert.Convert", cls+" (second pass)", again, wit)
			}
			t2 := relatedTarget(r, out.Type(), 0)
			if m.call("convert.Convert", func() { again, e2 = convert.Convert(out, t2) }) && e2 == nil {
				m.see("convert.Convert", convClass(t2), again, func() string { return fmt.Sprintf("%s -> %#v", gs(out), t2) })
			}
		} else {
			m.c.Count("convert:error")
			if out != cty.NilVal {
				// a value next to an error is not promised to mean anything, but it is still a value the library returned
				m.see("convert.Convert", cls+" (value returned with an error)", out, wit)
			}
		}
	}
	// the two-step API
	var conv convert.Conversion
	site := "convert.GetConversionUnsafe"
	if r.Bool() {
		site = "convert.GetConversion"
	}
	if m.call(site, func() {
		if site == "convert.GetConversion" {
			conv = convert.GetConversion(v.Type(), target)
		} else {
			conv = convert.GetConversionUnsafe(v.Type(), target)
		}
	}) && conv != nil {
		// the conversion is for v's type: apply it to v and to other values of that type (null, unknown, DynamicVal)
		ins := []cty.Value{v, cty.NullVal(v.Type()), cty.UnknownVal(v.Type()), cty.DynamicVal, gen.Unknown(r, v.Type(), true).Mark(gen.Marks[0])}
		for _, in := range ins {
			in := in
			var o2 cty.Value
			var e2 error
			if m.call(site, func() { o2, e2 = conv(in) }) && e2 == nil {
				m.see(site, cls, o2, func() string { return fmt.Sprintf("%s -> %#v", gs(in), target) })
			}
		}
	}
	return "convert " + wit()
}

func caseUnify(m *monitor, r *core.Rand) string {
	n := 2 + r.Intn(3)
	vs := make([]cty.Value, n)
	tys := make([]cty.Type, n)
	base := anyType(r)
	for i := range vs {
		var ty cty.Type
		switch r.Intn(4) {
		case 0:
			ty = anyType(r)
		case 1:
			ty = base
		default:
			ty = relatedTarget(r, base, 1).WithoutOptionalAttributesDeep()
		}
		vs[i] = anyValueOf(r, ty)
		if r.Chance(1, 8) {
			vs[i] = cty.DynamicVal
		}
		tys[i] = vs[i].Type()
	}
	site := "convert.Unify"
	if r.Bool() {
		site = "convert.UnifyUnsafe"
	}
	var uty cty.Type
	var convs []convert.Conversion
	wit := func() string { return fmt.Sprintf("%s(%#v) applied to %s", site, tys, gsAll(vs)) }
	if !m.call(site, func() {
		if site == "convert.Unify" {
			uty, convs = convert.Unify(tys)
		} else {
			uty, convs = convert.UnifyUnsafe(tys)
		}
	}) || uty == cty.NilType {
		m.c.Count("unify:none")
		return "unify " + wit()
	}
	m.c.Count("unify:ok")
	if model.HasOptional(model.TNodeOf(uty)) {
		m.c.Violate(site, "type carries optional-attribute annotations", "unified type", wit(), fmt.Sprintf("unified type %#v", uty))
	}
	outs := make([]cty.Value, 0, n)
	for i, v := range vs {
		out := v
		if i < len(convs) && convs[i] != nil {
			var err error
			i := i
			if !m.call(site, func() { out, err = convs[i](v) }) || err != nil {
				continue
			}
			m.see(site, "conversion returned by unification", out, wit)
		}
		outs = append(outs, out)
	}
	// the unified values are meant to live in one collection
	if len(outs) > 0 {
		var l cty.Value
		if m.call("cty.ListVal", func() { l = cty.ListVal(outs) }) {
			m.see("cty.ListVal", "unified members", l, func() string { return gsAll(outs) })
		}
		var u cty.Value
		var err error
		if m.call("convert.Convert", func() { u, err = convert.Convert(cty.TupleVal(vs), cty.List(cty.DynamicPseudoType)) }) && err == nil {
			m.see("convert.Convert", "tuple to list of dynamic (unifying)", u, wit)
		}
		if m.call("convert.Convert", func() { u, err = convert.Convert(cty.TupleVal(vs), cty.Set(cty.DynamicPseudoType)) }) && err == nil {
			m.see("convert.Convert", "tuple to set of dynamic (unifying)", u, wit)
		}
		mm := map[string]cty.Value{}
		for i, v := range vs {
			mm[[]string{"a", "b", "c", "k", "x"}[i%5]] = v
		}
		if m.call("convert.Convert", func() { u, err = convert.Convert(cty.ObjectVal(mm), cty.Map(cty.DynamicPseudoType)) }) && err == nil {
			m.see("convert.Convert", "object to map of dynamic (unifying)", u, wit)
		}
	}
	return "unify " + wit()
}
