package c16

import (
	"bytes"
	"fmt"
	"strings"
	"sync"

	"github.com/zclconf/go-cty/cty"
	"github.com/zclconf/go-cty/cty/msgpack"

	"verif/harness/core"
	"verif/harness/gen"
)

// History monitor: a Marshal result is the caller's to keep. The last
// histLen results are retained exactly as returned, next to a private copy
// taken at once; after every later Marshal call each retained slice is
// compared with its copy, and now and then an evicted result is decoded and
// compared with the decoding of its copy. This observes what a single
// Marshal -> Unmarshal pair cannot: a result that shares storage with a later
// call (pooled or reused buffers).

const histLen = 8

type held struct {
	ret  []byte // exactly what Marshal returned
	own  []byte // private copy taken before any other library call
	con  cty.Type
	desc string
	idx  int64
}

type history struct {
	ring    []held
	evicted int
}

var hist history

func cloneBytes(b []byte) []byte { return append([]byte(nil), b...) }

// check compares every retained result with its copy; site names the call that just returned.
func (h *history) check(c *core.Ctx, after string) {
	for i := range h.ring {
		e := &h.ring[i]
		c.Count("clause:retained-marshal-result-unchanged-by-a-later-call")
		if !bytes.Equal(e.ret, e.own) {
			c.Violate("msgpack.Marshal", "bytes returned earlier were changed by a later library call", "history/"+after, e.desc,
				fmt.Sprintf("result of case %d, retained as returned: now %s, at return %s", e.idx, hexBytes(e.ret), hexBytes(e.own)))
			e.ret = e.own // report once
		}
	}
}

// retain adds a result; the evicted one is decoded now and then.
func (h *history) retain(c *core.Ctx, idx int64, ret, own []byte, con cty.Type, desc string) {
	h.ring = append(h.ring, held{ret: ret, own: own, con: con, desc: desc, idx: idx})
	if len(h.ring) <= histLen {
		return
	}
	e := h.ring[0]
	h.ring = h.ring[1:]
	h.evicted++
	// The caller is done with this result and re-uses the slice it was given, as the owner of returned bytes may:
	// it writes over them and appends into their storage. If the library still shares that storage (a package-level
	// constant handed out, a pooled buffer), later Marshal results are corrupted and their round trips fail.
	defer func(b []byte) {
		for i := range b {
			b[i] = 0xc1 // never a valid msgpack lead byte
		}
		_ = append(b[:0], 0xc1, 0xc1, 0xc1, 0xc1)
	}(e.ret)
	if h.evicted%4 != 0 {
		return
	}
	var g1, g2 cty.Value
	var e1, e2 error
	o1 := core.Guard(func() { g1, e1 = msgpack.Unmarshal(e.ret, e.con) })
	o2 := core.Guard(func() { g2, e2 = msgpack.Unmarshal(e.own, e.con) })
	c.Eval(2)
	c.Count("clause:retained-marshal-result-decodes-like-its-copy")
	same := o1.Panicked == o2.Panicked && (e1 == nil) == (e2 == nil)
	if same && !o1.Panicked && e1 == nil {
		same = g1.Type().Equals(g2.Type()) && (&differ{quiet: true}).diff(g2, g1, "") == nil && (&differ{quiet: true}).diff(g1, g2, "") == nil
	}
	if !same {
		c.Violate("msgpack.Unmarshal", "a retained Marshal result decodes differently from its copy", "history/late-decode", e.desc,
			fmt.Sprintf("retained %s (err %v), copy %s (err %v)", hexBytes(e.ret), e1, hexBytes(e.own), e2))
	}
}

// decoys are marshalled between a Marshal call and the use of its result:
// short and long, so that a shared buffer is overwritten whatever its size.
var decoys = []cty.Value{
	cty.StringVal("zz"),
	cty.StringVal(strings.Repeat("decoy-", 60)),
	cty.TupleVal([]cty.Value{cty.True, cty.NumberIntVal(-1), cty.UnknownVal(cty.String)}),
	cty.StringVal(strings.Repeat("Z", 5000)),
	cty.NullVal(cty.Bool),
}

// heldAcrossLaterMarshal: bs (with its copy own) must survive another Marshal call.
func heldAcrossLaterMarshal(c *core.Ctx, idx int64, bs, own []byte, class string, desc func() string) bool {
	d := decoys[int((idx+int64(len(bs)))%int64(len(decoys)))]
	var db []byte
	core.Guard(func() { db, _ = msgpack.Marshal(d, d.Type()) })
	c.Eval(1)
	c.Count("clause:marshal-result-survives-the-next-marshal-call")
	hist.check(c, "decoy-marshal")
	if !bytes.Equal(bs, own) {
		c.Violate("msgpack.Marshal", "bytes returned by Marshal were changed by the next Marshal call", class, desc(),
			fmt.Sprintf("at return %s, after marshalling %#v (%d bytes): %s", hexBytes(own), d.Type(), len(db), hexBytes(bs)))
		return false
	}
	return true
}

// concurrentStage: four goroutines marshal disjoint sets of values many times,
// keeping every result as returned; afterwards each result is compared with the
// sequential baseline. The verdict is taken from the results only.
func concurrentStage(c *core.Ctx, idx int64) {
	r := c.RNG(idx)
	type item struct {
		v    cty.Value
		con  cty.Type
		base []byte
	}
	var items []item
	for len(items) < 32 {
		v, _ := genCase(c, r)
		con := v.Type()
		if r.Bool() {
			con = gen.DeriveConstraint(r, con, 20)
		}
		var b []byte
		var err error
		o := core.Guard(func() { b, err = msgpack.Marshal(v, con) })
		c.Eval(1)
		if o.Panicked || err != nil {
			continue
		}
		items = append(items, item{v, con, cloneBytes(b)})
	}
	c.Begin(idx, func() string {
		return fmt.Sprintf("concurrent stage: 4 goroutines x 8 values x 25 rounds, first value %#v", items[0].v)
	})
	const workers, rounds = 4, 25
	type res struct {
		item int
		ret  []byte
		bad  string
	}
	out := make([][]res, workers)
	var wg sync.WaitGroup
	for w := 0; w < workers; w++ {
		wg.Add(1)
		go func(w int) {
			defer wg.Done()
			for k := 0; k < rounds; k++ {
				for i := w; i < len(items); i += workers {
					var b []byte
					var err error
					o := core.Guard(func() { b, err = msgpack.Marshal(items[i].v, items[i].con) })
					switch {
					case o.Panicked:
						out[w] = append(out[w], res{item: i, bad: "panic: " + o.PanicMsg})
					case err != nil:
						out[w] = append(out[w], res{item: i, bad: "error: " + err.Error()})
					default:
						out[w] = append(out[w], res{item: i, ret: b})
					}
				}
			}
		}(w)
	}
	wg.Wait()
	bad := 0
	for w := range out {
		for _, x := range out[w] {
			c.Eval(1)
			c.Count("clause:concurrent-marshal-results-equal-the-sequential-baseline")
			if x.bad != "" || !bytes.Equal(x.ret, items[x.item].base) {
				bad++
				if bad <= 2 {
					c.Violate("msgpack.Marshal", "result obtained next to concurrent callers differs from the sequential result", "concurrent", describe(items[x.item].v, items[x.item].con, "conc"),
						fmt.Sprintf("sequential %s, concurrent %s %s", hexBytes(items[x.item].base), hexBytes(x.ret), x.bad))
				}
			}
		}
	}
	c.Distinct(fmt.Sprintf("conc/%d/%#v", idx, items[0].v), true)
}
