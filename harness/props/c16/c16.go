// Package c16: MessagePack encoding round-trips values, including unknown ones.
package c16

import (
	"fmt"
	"math/big"
	"sort"
	"strings"

	"github.com/zclconf/go-cty/cty"
	"github.com/zclconf/go-cty/cty/msgpack"

	"verif/harness/core"
	"verif/harness/gen"
	"verif/harness/model"
	"verif/harness/mon"
)

type Driver struct{}

func (Driver) ID() string { return "C16" }

func (Driver) Info() core.Info {
	return core.Info{
		Title: "MessagePack encoding round-trips values, including unknown ones",
		Rule: "round-trip case = (unmarked, capsule-free value of a generated type of depth<=3 (thorough: <=4) with nulls, empty collections and unknown values at any depth; " +
			"unknown values unrefined, DynamicVal, or refined with not-null, numeric bounds drawn from every number class (int64, around 2^53/2^63/2^64, whole float64 above 2^53, float64/float32 bit patterns, " +
			"512-bit decimals, 64-bit quotients, magnitudes beyond float64, infinities; inclusive and exclusive), string prefixes of 0, 1, ~255, 256, 257, 300, 512, 1000 bytes with a multi-byte sequence or a " +
			"multi-code-point cluster across the encoder's cut at byte 255 (safe and full), length bounds from {0,1,2,3,5,255,256,65535,65536,2^31,MaxInt-1,MaxInt}; known numbers from the shared pool plus fresh ones of the same classes; " +
			"constraint in {exact type, random placeholder replacement, root placeholder or heavy replacement}) classified k0..k3; each case runs Marshal -> (ImpliedType, observed only) -> Unmarshal with the same constraint -> " +
			"type comparison -> part-wise comparison (known parts, number fidelity by class, range subsumption and nothing-invented for unknown parts, decoded.Equals(sample) for samples the original range admits). " +
			"marked case = the same value with marks at the top and/or nested: Marshal must return an error. " +
			"distinct = hash of (value, constraint); non-trivial = every stage up to the final comparison was executed on an in-domain input",
		Assumptions: []string{
			"cty.Number is documented as numbers representable with 512 bits of binary precision: numbers (and bounds) with a wider mantissa are executed but not compared",
			"a numeric bound that is neither whole nor an exact float64 may come back as another number that is equal by the documented equality (the property's own standard for such numbers); it is counted, not reported",
			"an infinite numeric bound on its own side (-Inf lower, +Inf upper) is the same as no bound",
			"class k3 (placeholder below a null, unknown or empty part, or members of one collection resolving to different types): the decoded type is compared with the type the wire format can carry; the loss itself is reported under its own class so that a listed finding masks nothing else",
			"strings are valid UTF-8; capsule types are not generated (outside the property)",
		},
		MinNontrivial: 5000,
	}
}

func (Driver) Batches(tier string) int {
	if tier == "thorough" {
		return 64
	}
	return 16
}

const (
	markBase   = int64(200_000_000)
	concBase   = int64(300_000_000)
	corpusBase = int64(1_000_000_000)
)

func (Driver) Run(c *core.Ctx) {
	hist = history{}
	nv := int64(c.N(5000, 94000)) // x3 constraints: 40 k x 3 quick, 6 M x 3 thorough over all batches
	nm := int64(c.N(300, 3000))
	for i := int64(0); i < nv; i++ {
		if !c.Want(i) {
			continue
		}
		r := c.RNG(i)
		v, cls := genCase(c, r)
		for _, k := range cls {
			c.Count("gen:" + k)
		}
		t := v.Type()
		cons := []cty.Type{t, gen.DeriveConstraint(r, t, 20)}
		if r.Chance(1, 4) {
			cons = append(cons, cty.DynamicPseudoType)
		} else {
			cons = append(cons, gen.DeriveConstraintBelowRoot(r, t, 50))
		}
		for _, con := range cons {
			roundTrip(c, i, v, con)
		}
	}
	for j := int64(0); j < nm; j++ {
		idx := markBase + j
		if !c.Want(idx) {
			continue
		}
		r := c.RNG(idx)
		v, _ := genCase(c, r)
		mv, how := placeMarks(r, v)
		t := v.Type()
		var con cty.Type
		switch r.Intn(3) {
		case 0:
			con = t
		case 1:
			con = gen.DeriveConstraint(r, t, 25)
		default:
			con = gen.DeriveConstraintBelowRoot(r, t, 50)
		}
		markedCase(c, idx, mv, con, how)
	}
	for k := int64(0); k < int64(c.N(2, 8)); k++ {
		if c.Want(concBase + k) {
			concurrentStage(c, concBase+k)
		}
	}
	if c.Batch == 0 {
		runCorpus(c, corpusBase)
	}
}

// ------------------------------------------------------------------ constraint classes

// resolve returns the type the wire format can carry for the part v (of type
// t) written against constraint c: the wrapper at a placeholder carries the
// part's exact type, but only if the placeholder is reached, i.e. every
// ancestor is known, non-null and (for collections) non-empty. lossy is set
// when a placeholder introduced by c sits below such a hollow ancestor; mixed
// is set when the members of one collection resolve to different types.
type resolver struct{ lossy, mixed bool }

func hollow(v cty.Value) bool { return v == cty.NilVal || !v.IsKnown() || v.IsNull() }

func (w *resolver) resolve(v cty.Value, t, c cty.Type, below bool) cty.Type {
	if c == cty.DynamicPseudoType {
		if t == cty.DynamicPseudoType {
			return t
		}
		if below {
			w.lossy = true
			return c
		}
		return t
	}
	switch {
	case t.IsListType() || t.IsSetType() || t.IsMapType():
		wrap := cty.List
		if t.IsSetType() {
			wrap = cty.Set
		} else if t.IsMapType() {
			wrap = cty.Map
		}
		if below || hollow(v) || v.LengthInt() == 0 {
			return wrap(w.resolve(cty.NilVal, t.ElementType(), c.ElementType(), true))
		}
		var first cty.Type
		n := 0
		for it := v.ElementIterator(); it.Next(); {
			_, ev := it.Element()
			rt := w.resolve(ev, t.ElementType(), c.ElementType(), false)
			if n == 0 {
				first = rt
			} else if !rt.Equals(first) {
				w.mixed = true
			}
			n++
		}
		return wrap(first)
	case t.IsTupleType():
		tes, ces := t.TupleElementTypes(), c.TupleElementTypes()
		out := make([]cty.Type, len(tes))
		h := below || hollow(v)
		var parts []cty.Value
		if !h {
			for it := v.ElementIterator(); it.Next(); {
				_, ev := it.Element()
				parts = append(parts, ev)
			}
		}
		for i := range tes {
			if h {
				out[i] = w.resolve(cty.NilVal, tes[i], ces[i], true)
			} else {
				out[i] = w.resolve(parts[i], tes[i], ces[i], false)
			}
		}
		return cty.Tuple(out)
	case t.IsObjectType():
		tas, cas := t.AttributeTypes(), c.AttributeTypes()
		out := make(map[string]cty.Type, len(tas))
		h := below || hollow(v)
		names := make([]string, 0, len(tas))
		for k := range tas {
			names = append(names, k)
		}
		sort.Strings(names)
		for _, k := range names {
			if h {
				out[k] = w.resolve(cty.NilVal, tas[k], cas[k], true)
			} else {
				out[k] = w.resolve(v.GetAttr(k), tas[k], cas[k], false)
			}
		}
		return cty.Object(out)
	}
	return t
}

// classify returns the constraint class of (v, c) (c derived from v's type by
// placeholder replacement), the type the wire can carry and whether members of
// one collection resolve to different types.
//
//	k0  the constraint is the value's exact type
//	k1  the placeholder sits at the root
//	k2  placeholders only at positions reached through known, non-null, non-empty parts
//	k3  some placeholder sits below a null, unknown or empty part, or members of one
//	    collection resolve to different types
func classify(v cty.Value, c cty.Type) (class string, carried cty.Type, mixed bool) {
	t := v.Type()
	if c.Equals(t) {
		return "k0", t, false
	}
	if c == cty.DynamicPseudoType {
		return "k1", t, false
	}
	w := &resolver{}
	res := w.resolve(v, t, c, false)
	if w.lossy || w.mixed || !res.Equals(t) {
		return "k3", res, w.mixed
	}
	return "k2", res, false
}

// ------------------------------------------------------------------ the oracle

func describe(v cty.Value, con cty.Type, class string) string {
	return fmt.Sprintf("value %s against constraint %#v [%s]", clipStr(fmt.Sprintf("%#v", v), 4000), con, class)
}

func hexBytes(b []byte) string {
	if len(b) > 200 {
		return fmt.Sprintf("%x...(%d bytes)", b[:200], len(b))
	}
	return fmt.Sprintf("%x", b)
}

func countInputShape(c *core.Ctx, v cty.Value) {
	visitParts(v, func(p cty.Value) {
		switch {
		case !p.IsKnown():
			c.Count("input:unknown-part")
		case p.IsNull():
			c.Count("input:null-part")
		case p.Type().IsCollectionType() && p.LengthInt() == 0:
			c.Count("input:empty-collection")
		}
	})
}

// diffClass narrows the class of a difference that is about one number: the
// number's wire class becomes part of the signature.
func diffClass(class string, d *rtDiff) string {
	if d != nil && d.num != nil {
		return class + "/" + numClassOf(d.num)
	}
	return class
}

// errClass is a stable class for an error message.
func errClass(err error) string { return core.PanicClass(err.Error()) }

// roundTrip is the oracle for one (value, constraint) pair of the property's domain.
func roundTrip(c *core.Ctx, idx int64, v cty.Value, con cty.Type) {
	class, carried, mixed := classify(v, con)
	desc := func() string { return describe(v, con, class) }
	c.Begin(idx, desc)
	c.Count("class:" + class)
	if class == "k0" {
		countInputShape(c, v)
	}
	if v.IsWhollyKnown() {
		c.Count("input:wholly-known")
	} else {
		c.Count("input:with-unknown-parts")
	}
	var bs []byte
	var err error
	o := core.Guard(func() { bs, err = msgpack.Marshal(v, con) })
	c.Eval(1)
	if o.Panicked {
		c.Distinct(desc(), false)
		c.Violate("msgpack.Marshal", "panic: "+core.PanicClass(o.PanicMsg), class, desc(), o.PanicMsg+"\n"+o.Stack)
		return
	}
	c.Count("clause:marshal-succeeds")
	if err != nil {
		c.Distinct(desc(), false)
		c.Violate("msgpack.Marshal", "error for an unmarked capsule-free value that conforms to the constraint", class+"/"+errClass(err), desc(), err.Error())
		return
	}
	own := cloneBytes(bs)
	hist.check(c, "marshal")
	impliedTypeObservation(c, v, con, bs, desc)
	if !heldAcrossLaterMarshal(c, idx, bs, own, class, desc) {
		c.Distinct(desc(), false)
		return
	}
	hist.retain(c, idx, bs, own, con, desc())

	var got cty.Value
	o = core.Guard(func() { got, err = msgpack.Unmarshal(bs, con) })
	c.Eval(1)
	sub := class
	if mixed {
		sub = class + "/members-resolve-to-different-types"
	}
	if o.Panicked {
		c.Distinct(desc(), false)
		c.Violate("msgpack.Unmarshal", "panic: "+core.PanicClass(o.PanicMsg), sub, desc(), "bytes "+hexBytes(bs)+"\n"+o.PanicMsg+"\n"+o.Stack)
		return
	}
	c.Count("clause:unmarshal-accepts-the-encoders-output")
	if err != nil {
		c.Distinct(desc(), false)
		if !mixed {
			sub = class + "/" + errClass(err)
		}
		c.Violate("msgpack.Unmarshal", "error on the encoder's own output", sub, desc(), "bytes "+hexBytes(bs)+"; "+err.Error())
		return
	}
	c.Distinct(desc(), true)
	if w := mon.WellFormed(got); w != "" {
		c.CrossNote("C06", "msgpack.Unmarshal: "+w, desc())
	}
	if e := cty.VerifWellFormed(got); e != nil {
		c.CrossNote("C06", "msgpack.Unmarshal (hook): "+core.PanicClass(e.Error()), desc())
	}
	if got.IsMarked() {
		c.Violate("msgpack.Unmarshal", "decoded value is marked", class, desc(), fmt.Sprintf("decoded %#v", got))
		return
	}
	c.Count("clause:decoded-type-is-the-original-type")
	d := &differ{c: c}
	sameType := got.Type().Equals(v.Type()) && model.TypeEq(model.TNodeOf(got.Type()), model.TNodeOf(v.Type()))
	if !sameType {
		if class == "k3" && !mixed && got.Type().Equals(carried) {
			// the loss the format itself imposes: reported under its own class, then the parts are still compared
			c.Count("k3:decoded-type-is-exactly-what-the-wire-can-carry")
			c.Violate("msgpack.Unmarshal", "decoded value has another type than the original", "k3/type-lost-exactly-where-the-format-cannot-carry-it", desc(),
				fmt.Sprintf("original type %#v, decoded type %#v", v.Type(), got.Type()))
			d.lossy = true
		} else {
			c.Violate("msgpack.Unmarshal", "decoded value has another type than the original", sub, desc(),
				fmt.Sprintf("original type %#v, decoded type %#v, type the wire can carry %#v; bytes %s", v.Type(), got.Type(), carried, hexBytes(bs)))
			return
		}
	}
	c.Count("clause:decoded-parts-match-the-original")
	if x := d.diff(v, got, ""); x != nil {
		c.Violate("msgpack.Unmarshal", "decoded value differs from the original: "+x.kind, diffClass(class, x), desc(),
			fmt.Sprintf("%s; decoded %s; bytes %s", x.String(), clipStr(fmt.Sprintf("%#v", got), 2000), hexBytes(bs)))
	}
	if c.WantSample() && class != "k0" && !v.IsWhollyKnown() {
		c.Sample(map[string]any{"value": clipStr(fmt.Sprintf("%#v", v), 400), "constraint": fmt.Sprintf("%#v", con), "class": class,
			"msgpack_hex": hexBytes(bs), "decoded": clipStr(fmt.Sprintf("%#v", got), 400)})
	}
}

// markedCase: a value with marks anywhere is rejected with an error.
func markedCase(c *core.Ctx, idx int64, v cty.Value, con cty.Type, how string) {
	desc := func() string {
		return fmt.Sprintf("marked (%s) value %s against constraint %#v", how, clipStr(fmt.Sprintf("%#v", v), 4000), con)
	}
	c.Begin(idx, desc)
	c.Count("marked:" + how)
	var bs []byte
	var err error
	o := core.Guard(func() { bs, err = msgpack.Marshal(v, con) })
	c.Eval(1)
	hist.check(c, "marshal(marked)")
	c.Count("clause:marked-value-is-an-error")
	c.Distinct(desc(), true)
	switch {
	case o.Panicked:
		c.Violate("msgpack.Marshal", "panic: "+core.PanicClass(o.PanicMsg), "marked/"+how, desc(), o.PanicMsg+"\n"+o.Stack)
	case err == nil:
		c.Violate("msgpack.Marshal", "marked value was encoded without an error", "marked/"+how, desc(), "bytes "+hexBytes(bs))
	case len(bs) != 0:
		c.Violate("msgpack.Marshal", "error returned together with bytes", "marked/"+how, desc(), fmt.Sprintf("err %v, bytes %s", err, hexBytes(bs)))
	default:
		if !strings.Contains(err.Error(), "mark") {
			c.Count("marked:error-does-not-mention-marks")
		}
	}
}

// ------------------------------------------------------------------ ImpliedType (observed, not part of the statement)

// structural returns the type msgpack.ImpliedType is documented to give for the
// encoding of v against con, or ok=false when the encoding holds a dynamic
// wrapper (whose type descriptor is a msgpack bin value ImpliedType does not map).
// A number may be written as a number or as a string: numAsString lists both.
func structural(v cty.Value, con cty.Type, alt bool) (*model.TNode, bool) {
	if con == cty.DynamicPseudoType && v.Type() != cty.DynamicPseudoType {
		return nil, false
	}
	if !v.IsKnown() || v.IsNull() {
		return model.TDynamic, true
	}
	ty := v.Type()
	switch {
	case ty == cty.Number:
		f := v.AsBigFloat()
		_, acc := f.Int64()
		if f.IsInf() || acc == big.Exact || (!f.IsInt() && isExactFloat64(f)) {
			return model.TNumber, true
		}
		if alt {
			return model.TNumber, true
		}
		return model.TString, true
	case ty.IsPrimitiveType():
		return model.TNodeOf(ty), true
	case ty.IsListType() || ty.IsSetType() || ty.IsTupleType():
		var es []*model.TNode
		i := 0
		for it := v.ElementIterator(); it.Next(); {
			_, ev := it.Element()
			ec := cty.DynamicPseudoType
			if ty.IsTupleType() {
				ec = con.TupleElementTypes()[i]
			} else {
				ec = con.ElementType()
			}
			e, ok := structural(ev, ec, alt)
			if !ok {
				return nil, false
			}
			es = append(es, e)
			i++
		}
		return model.TupleOf(es...), true
	case ty.IsMapType() || ty.IsObjectType():
		attrs := map[string]*model.TNode{}
		for it := v.ElementIterator(); it.Next(); {
			k, ev := it.Element()
			var ec cty.Type
			if ty.IsObjectType() {
				ec = con.AttributeType(k.AsString())
			} else {
				ec = con.ElementType()
			}
			e, ok := structural(ev, ec, alt)
			if !ok {
				return nil, false
			}
			attrs[k.AsString()] = e
		}
		return model.ObjectOf(attrs), true
	}
	return nil, false
}

func impliedTypeObservation(c *core.Ctx, v cty.Value, con cty.Type, bs []byte, desc func() string) {
	var ity cty.Type
	var err error
	o := core.Guard(func() { ity, err = msgpack.ImpliedType(bs) })
	c.Eval(1)
	if o.Panicked {
		c.Violate("msgpack.ImpliedType", "panic: "+core.PanicClass(o.PanicMsg), "encoders-own-output", desc(), "bytes "+hexBytes(bs)+"\n"+o.PanicMsg+"\n"+o.Stack)
		return
	}
	want, ok := structural(v, con, false)
	if !ok {
		c.Count("impliedtype:encoding-holds-a-dynamic-wrapper(error-or-type-not-compared)")
		return
	}
	c.Count("impliedtype:compared-with-the-structural-type")
	if err != nil {
		c.CrossNote("C16-aux", "msgpack.ImpliedType: error on a wrapper-free encoding: "+errClass(err), desc())
		return
	}
	got := model.TNodeOf(ity)
	if model.TypeEq(got, want) {
		return
	}
	if alt, _ := structural(v, con, true); alt != nil && model.TypeEq(got, alt) {
		return
	}
	c.CrossNote("C16-aux", "msgpack.ImpliedType: implied type differs from the structural type", desc()+fmt.Sprintf(" implied %#v, structural %s", ity, want))
}
