package c16

import (
	"fmt"
	"math"
	"math/big"
	"sort"
	"strings"
	"unicode/utf8"

	"github.com/zclconf/go-cty/cty"

	"verif/harness/core"
	"verif/harness/gen"
)

// ------------------------------------------------------------------ numbers

// numCase is a number with the class it was drawn from (reported in the counters).
type numCase struct {
	v     cty.Value
	class string
}

func pow2(k int, prec uint) *big.Float {
	x := new(big.Float).SetPrec(prec).SetInt64(1)
	return x.SetMantExp(x, k)
}

func bigAdd(a *big.Float, d int64) *big.Float {
	prec := a.Prec()
	if prec < 512 {
		prec = 512
	}
	return new(big.Float).SetPrec(prec).Add(a, new(big.Float).SetInt64(d))
}

// wideWhole returns a whole number with more than 512 significant bits, held at
// its full precision (what gocty produces for a *big.Int).
func wideWhole(r *core.Rand) *big.Float {
	bits := 520 + r.Intn(200)
	i := new(big.Int).SetInt64(1)
	for i.BitLen() < bits {
		i.Lsh(i, 61)
		i.Or(i, new(big.Int).SetUint64(r.Uint64()>>3))
	}
	i.SetBit(i, 0, 1) // odd: every bit is significant
	if r.Bool() {
		i.Neg(i)
	}
	return new(big.Float).SetInt(i)
}

// freshNumber draws a number from the classes the encoder distinguishes:
// int64, beyond int64, whole float64 above 2^53, float64 fractions, float32,
// decimals parsed at 512 bits, quotients held at 64 bits, very small and very
// large magnitudes, whole numbers wider than the parser's 512 bits.
func freshNumber(r *core.Rand) numCase {
	switch r.Intn(16) {
	case 0:
		return numCase{cty.NumberIntVal(int64(r.Uint64())), "int64:random"}
	case 1:
		// around the int64 / uint64 limits, at several precisions
		base := []*big.Float{pow2(63, 512), pow2(64, 512), new(big.Float).Neg(pow2(63, 512)), new(big.Float).Neg(pow2(64, 512)), pow2(53, 512), pow2(62, 512)}[r.Intn(6)]
		return numCase{cty.NumberVal(bigAdd(base, int64(r.Intn(7)-3))), "whole:around-2^53/2^63/2^64"}
	case 2:
		return numCase{cty.NumberUIntVal(r.Uint64() | 1<<63), "whole:uint64-above-int64"}
	case 3:
		// whole float64 above 2^53: the shortest text is not the exact integer
		e := 16 + r.Intn(292)
		f, _ := new(big.Float).SetString(fmt.Sprintf("%d.%de%d", 1+r.Intn(9), r.Intn(1000), e))
		x, _ := f.Float64()
		if r.Bool() {
			x = -x
		}
		return numCase{cty.NumberFloatVal(x), "whole:float64-above-2^53"}
	case 4:
		x := math.Float64frombits(r.Uint64())
		for math.IsNaN(x) || math.IsInf(x, 0) {
			x = math.Float64frombits(r.Uint64())
		}
		return numCase{cty.NumberFloatVal(x), "float64:random-bits"}
	case 5:
		x := float64(math.Float32frombits(uint32(r.Uint64())))
		for math.IsNaN(x) || math.IsInf(x, 0) {
			x = float64(math.Float32frombits(uint32(r.Uint64())))
		}
		return numCase{cty.NumberFloatVal(x), "float32:random-bits"}
	case 6:
		// float64 fraction held at 512 bits (float path, comes back at 53 bits)
		x := float64(r.Intn(1<<20)-(1<<19)) / float64(int64(1)<<uint(1+r.Intn(30)))
		return numCase{cty.NumberVal(new(big.Float).SetPrec(512).SetFloat64(x)), "float64-exact:held-at-512-bits"}
	case 7, 8:
		// decimal text parsed at 512 bits
		nd := 1 + r.Intn(60)
		var b strings.Builder
		if r.Bool() {
			b.WriteByte('-')
		}
		for i := 0; i < nd; i++ {
			b.WriteByte(byte('0' + r.Intn(10)))
			if i == 0 && nd > 1 && r.Bool() {
				b.WriteByte('.')
			}
		}
		if r.Bool() {
			fmt.Fprintf(&b, "e%d", r.Intn(101)-50)
		}
		s := b.String()
		s = strings.TrimSuffix(s, ".")
		v, err := cty.ParseNumberVal(s)
		if err != nil {
			return numCase{cty.MustParseNumberVal("0.1"), "decimal:512-bit"}
		}
		return numCase{v, "decimal:512-bit"}
	case 9:
		// quotient of two int64 held at 64 bits: neither whole nor a float64
		a, b := int64(r.Intn(2000)-1000), int64(1+r.Intn(999))
		return numCase{cty.NumberIntVal(a).Divide(cty.NumberIntVal(b)), "quotient:64-bit"}
	case 10:
		// magnitude beyond float64, both directions
		if r.Bool() {
			return numCase{cty.MustParseNumberVal(fmt.Sprintf("%d.%de-%d", 1+r.Intn(9), r.Intn(100), 330+r.Intn(120))), "decimal:below-float64-range"}
		}
		return numCase{cty.NumberVal(bigAdd(pow2(1030+r.Intn(900), 512), 0)), "whole:above-float64-range"}
	case 11:
		// whole number at a low precision
		p := []uint{24, 40, 53, 64, 100}[r.Intn(5)]
		x := new(big.Float).SetPrec(p).SetUint64(r.Uint64() | 1)
		x.SetMantExp(x, r.Intn(200))
		return numCase{cty.NumberVal(x), "whole:low-precision-mantissa"}
	case 12:
		if r.Chance(1, 3) {
			return numCase{cty.NumberVal(wideWhole(r)), "whole:wider-than-512-bits"}
		}
		// whole with up to 512 significant bits
		i := new(big.Int).SetUint64(r.Uint64())
		for k := r.Intn(7); k > 0; k-- {
			i.Lsh(i, 64)
			i.Or(i, new(big.Int).SetUint64(r.Uint64()))
		}
		return numCase{cty.NumberVal(new(big.Float).SetPrec(512).SetInt(i)), "whole:up-to-512-bits"}
	case 13:
		return numCase{[]cty.Value{cty.PositiveInfinity, cty.NegativeInfinity, cty.NumberFloatVal(math.Inf(1)), cty.NumberFloatVal(math.Inf(-1)),
			cty.NumberVal(new(big.Float).SetPrec(512).SetInf(true))}[r.Intn(5)], "infinity"}
	case 14:
		// decimal text of about 1 KiB: as a bound it lands around the decoder's limit for a refinements blob
		if r.Bool() {
			d := 940 + r.Intn(160)
			sign := []string{"", "-"}[r.Intn(2)]
			if r.Bool() {
				return numCase{cty.MustParseNumberVal(fmt.Sprintf("%s%de%d", sign, 1+r.Intn(9), d)), "whole:text-near-1KiB"}
			}
			return numCase{cty.MustParseNumberVal(fmt.Sprintf("%s%de-%d", sign, 1+r.Intn(9), d)), "decimal:text-near-1KiB"}
		}
	}
	nc := gen.Number(r)
	return numCase{nc.V, "pool:" + nc.Class}
}

// numClassOf classifies any known number by what the wire format must do with it.
func numClassOf(f *big.Float) string {
	switch {
	case f.IsInf():
		return "infinity"
	case f.IsInt():
		if _, acc := f.Int64(); acc == big.Exact {
			return "whole,int64"
		}
		if wholeTextInexact(f) {
			return "whole,beyond-int64,shortest-text-inexact"
		}
		if f.MinPrec() > 512 {
			return "whole,beyond-int64,wider-than-512-bits"
		}
		return "whole,beyond-int64"
	}
	if _, acc := f.Float64(); acc == big.Exact {
		return "fraction,float64-exact"
	}
	if f.MinPrec() > 512 {
		return "fraction,wider-than-512-bits"
	}
	return "fraction,other"
}

// wholeTextInexact: f is whole and its shortest round-trip text (at f's own
// precision) denotes another integer. The input class of F-32.
func wholeTextInexact(f *big.Float) bool {
	if f.IsInf() || !f.IsInt() {
		return false
	}
	want, _ := f.Int(nil)
	got, ok := new(big.Int).SetString(f.Text('f', -1), 10)
	return !ok || got.Cmp(want) != 0
}

// ------------------------------------------------------------------ strings

var clusters = []string{"é", "é", "👍🏽", "👨‍👩", "각", "각", "🇩🇪", "1️⃣", "\r\n", "ṩ", "ṩ", "≠", "中", "ß", "a", "-", "/"}

// prefixString draws a string to be used as a known prefix. Long ones place a
// multi-byte sequence or a multi-code-point cluster across the encoder's limit
// (256 bytes; it cuts at byte 255).
func prefixString(r *core.Rand) (string, string) {
	switch r.Intn(10) {
	case 0:
		return "", "prefix:empty"
	case 1:
		return clusters[r.Intn(len(clusters))], "prefix:one-cluster"
	case 2, 3:
		return gen.String(r, 8), "prefix:short"
	case 4:
		return gen.SmallString(r) + "-", "prefix:short"
	}
	target := []int{255, 256, 257, 1000, 254, 300, 512}[r.Intn(7)]
	var b strings.Builder
	// filler up to a few bytes before byte 255, then a cluster across it
	off := 255 - r.Intn(12)
	mode := r.Intn(3)
	for b.Len() < off {
		switch mode {
		case 0:
			b.WriteByte("abcxyz09-_/. "[r.Intn(13)])
		case 1:
			b.WriteString(gen.String(r, 4))
		default:
			b.WriteString(clusters[r.Intn(len(clusters))])
		}
	}
	s := b.String()
	// trim back to at most off bytes on a rune boundary, then pad with ASCII to exactly off
	for len(s) > off {
		_, sz := utf8.DecodeLastRuneInString(s)
		s = s[:len(s)-sz]
	}
	s += strings.Repeat("q", off-len(s))
	s += clusters[r.Intn(len(clusters))]
	for len(s) < target {
		if mode == 0 {
			s += "w"
		} else {
			s += clusters[r.Intn(len(clusters))]
		}
	}
	cl := "prefix:long(<=256)"
	if len(s) > 256 {
		cl = "prefix:long(>256)"
	}
	return s, cl
}

// ------------------------------------------------------------------ unknowns

var lengthBounds = []int{0, 1, 2, 3, 5, 255, 256, 65535, 65536, 1 << 31, math.MaxInt - 1, math.MaxInt}

// refinedUnknown draws an unknown value of type ty "refined in every way".
// part (may be NilVal) is the known value being replaced: with chance the
// refinements are made true of it, otherwise they are arbitrary but consistent.
// The refinement classes used are returned for the counters.
func refinedUnknown(r *core.Rand, ty cty.Type, part cty.Value) (cty.Value, []string) {
	if ty == cty.DynamicPseudoType {
		return cty.DynamicVal, []string{"unknown:dynamic"}
	}
	if r.Chance(1, 5) {
		return cty.UnknownVal(ty), []string{"unknown:unrefined"}
	}
	if part != cty.NilVal && part.IsKnown() && !part.IsNull() && r.Chance(1, 3) {
		if ty != cty.Number {
			return gen.AdmittingUnknown(r, part, true, false), []string{"unknown:refined-true-of-the-replaced-part"}
		}
		// numbers: the part itself or a neighbour as a bound (gen.AdmittingUnknown builds
		// 576-bit neighbours, which are outside the documented 512-bit domain)
		f := part.AsBigFloat()
		if !f.IsInf() && f.MinPrec() <= 512 {
			var tv cty.Value
			o := core.Guard(func() {
				b := cty.UnknownVal(ty).Refine()
				if r.Bool() {
					b = b.NotNull()
				}
				if r.Chance(2, 3) {
					if r.Bool() {
						b = b.NumberRangeLowerBound(cty.NumberVal(new(big.Float).Copy(f)), true)
					} else {
						b = b.NumberRangeLowerBound(cty.NumberVal(bigAdd(f, -int64(1+r.Intn(1000)))), r.Bool())
					}
				}
				if r.Chance(2, 3) {
					if r.Bool() {
						b = b.NumberRangeUpperBound(cty.NumberVal(new(big.Float).Copy(f)), true)
					} else {
						b = b.NumberRangeUpperBound(cty.NumberVal(bigAdd(f, int64(1+r.Intn(1000)))), r.Bool())
					}
				}
				tv = b.NewValue()
			})
			if !o.Panicked {
				return tv, []string{"unknown:refined-true-of-the-replaced-part"}
			}
		}
	}
	var cls []string
	var out cty.Value
	o := core.Guard(func() {
		b := cty.UnknownVal(ty).Refine()
		if r.Bool() {
			b = b.NotNull()
			cls = append(cls, "refine:not-null")
		}
		switch {
		case ty == cty.Number:
			var lo, hi *numCase
			if r.Chance(2, 3) {
				n := freshNumber(r)
				lo = &n
			}
			if r.Chance(2, 3) {
				n := freshNumber(r)
				hi = &n
			}
			loInc, hiInc := r.Bool(), r.Bool()
			if lo != nil && hi != nil {
				c := lo.v.AsBigFloat().Cmp(hi.v.AsBigFloat())
				if c > 0 {
					lo, hi = hi, lo
				} else if c == 0 {
					loInc, hiInc = true, true
				}
			}
			if lo != nil {
				b = b.NumberRangeLowerBound(lo.v, loInc)
				cls = append(cls, "refine:lower-bound:"+lo.class)
			}
			if hi != nil {
				b = b.NumberRangeUpperBound(hi.v, hiInc)
				cls = append(cls, "refine:upper-bound:"+hi.class)
			}
		case ty == cty.String:
			if r.Chance(4, 5) {
				p, cl := prefixString(r)
				if r.Bool() {
					b = b.StringPrefixFull(p)
					cls = append(cls, "refine:"+cl+",full")
				} else {
					b = b.StringPrefix(p)
					cls = append(cls, "refine:"+cl+",safe")
				}
			}
		case ty.IsCollectionType():
			var lo, hi = -1, -1
			if r.Chance(2, 3) {
				lo = lengthBounds[r.Intn(len(lengthBounds))]
			}
			if r.Chance(2, 3) {
				hi = lengthBounds[r.Intn(len(lengthBounds))]
			}
			if lo >= 0 && hi >= 0 && lo > hi {
				lo, hi = hi, lo
			}
			if lo == math.MaxInt && hi < 0 {
				lo-- // a lower bound of MaxInt alone is an exact length too
			}
			if lo == hi && lo > 3 {
				// a not-null list whose length is known exactly becomes a known list of
				// that many unknown elements (2^31 of them exhaust memory): keep the bounds apart
				if lo == math.MaxInt {
					lo--
				} else {
					hi++
				}
			}
			if lo >= 0 {
				b = b.CollectionLengthLowerBound(lo)
				cls = append(cls, fmt.Sprintf("refine:length>=%s", lenName(lo)))
			}
			if hi >= 0 {
				b = b.CollectionLengthUpperBound(hi)
				cls = append(cls, fmt.Sprintf("refine:length<=%s", lenName(hi)))
			}
		}
		out = b.NewValue()
	})
	if o.Panicked {
		return cty.UnknownVal(ty), []string{"unknown:unrefined(builder-refused:" + core.PanicClass(o.PanicMsg) + ")"}
	}
	if len(cls) == 0 {
		cls = []string{"unknown:trivially-refined"}
	}
	return out, cls
}

func lenName(n int) string {
	switch {
	case n == math.MaxInt:
		return "MaxInt"
	case n == math.MaxInt-1:
		return "MaxInt-1"
	case n >= 1<<31:
		return "2^31"
	case n >= 65536:
		return "65536"
	case n >= 255:
		return fmt.Sprint(n)
	case n > 3:
		return "4..254"
	}
	return fmt.Sprint(n)
}

// ------------------------------------------------------------------ rewriting

// rewriter rebuilds a value through the constructors only. f is called
// pre-order on every part; locked tells it that the part's type must not change
// (it sits somewhere below a list, set or map, whose members share one type).
type rewriter func(part cty.Value, locked bool) (cty.Value, bool)

func rewriteParts(v cty.Value, locked bool, f rewriter) cty.Value {
	if nv, ok := f(v, locked); ok {
		return nv
	}
	if v.IsMarked() || !v.IsKnown() || v.IsNull() {
		return v
	}
	ty := v.Type()
	switch {
	case ty.IsListType() || ty.IsSetType():
		if v.LengthInt() == 0 {
			return v
		}
		var es []cty.Value
		for it := v.ElementIterator(); it.Next(); {
			_, ev := it.Element()
			es = append(es, rewriteParts(ev, true, f))
		}
		if ty.IsSetType() {
			return cty.SetVal(es)
		}
		return cty.ListVal(es)
	case ty.IsMapType():
		if v.LengthInt() == 0 {
			return v
		}
		mm := map[string]cty.Value{}
		var ks []string
		for it := v.ElementIterator(); it.Next(); {
			k, ev := it.Element()
			mm[k.AsString()] = ev
			ks = append(ks, k.AsString())
		}
		sort.Strings(ks)
		for _, k := range ks {
			mm[k] = rewriteParts(mm[k], true, f)
		}
		return cty.MapVal(mm)
	case ty.IsTupleType():
		if v.LengthInt() == 0 {
			return v
		}
		var es []cty.Value
		for it := v.ElementIterator(); it.Next(); {
			_, ev := it.Element()
			es = append(es, rewriteParts(ev, locked, f))
		}
		return cty.TupleVal(es)
	case ty.IsObjectType():
		ats := ty.AttributeTypes()
		if len(ats) == 0 {
			return v
		}
		names := make([]string, 0, len(ats))
		for k := range ats {
			names = append(names, k)
		}
		sort.Strings(names)
		mm := map[string]cty.Value{}
		for _, k := range names {
			mm[k] = rewriteParts(v.GetAttr(k), locked, f)
		}
		return cty.ObjectVal(mm)
	}
	return v
}

// visitParts calls f on every part of v (pre-order), without rebuilding.
func visitParts(v cty.Value, f func(p cty.Value)) {
	f(v)
	if v.IsMarked() || !v.IsKnown() || v.IsNull() {
		return
	}
	ty := v.Type()
	if ty.IsCollectionType() || ty.IsTupleType() || ty.IsObjectType() {
		for it := v.ElementIterator(); it.Next(); {
			_, ev := it.Element()
			visitParts(ev, f)
		}
	}
}

// genCase draws a value of the property's domain: unmarked, capsule-free,
// nulls and unknown values (refined in every way) at any depth. It returns the
// value and the classes of what was put into it.
func genCase(c *core.Ctx, r *core.Rand) (cty.Value, []string) {
	var cls []string
	depth := 1 + r.Intn(3)
	if !c.Quick() {
		depth = 1 + r.Intn(4)
	}
	var ty cty.Type
	switch r.Intn(8) {
	case 0:
		ty = cty.Number
	case 1:
		ty = cty.String
	case 2:
		ty = []cty.Type{cty.List(cty.Number), cty.Set(cty.Number), cty.Map(cty.Number), cty.Tuple([]cty.Type{cty.Number, cty.Number}),
			cty.List(cty.String), cty.Set(cty.String), cty.Map(cty.String)}[r.Intn(7)]
	default:
		ty = gen.Type(r, depth, gen.TypeOpts{Dynamic: r.Chance(1, 3), TwinKeys: r.Bool()}).Cty()
	}
	vo := gen.ValueOpts{MaxLen: 3, LongStr: true, TwinKeys: r.Bool(), NullPct: []int{0, 5, 15}[r.Intn(3)], SmallNums: r.Chance(1, 8)}
	v := gen.Value(r, ty, vo)

	// fresh numbers in place of some pooled ones
	freshPct := []int{0, 30, 70}[r.Intn(3)]
	unkPct := []int{0, 10, 25, 50}[r.Intn(4)]
	inSet := 0
	var walk func(v cty.Value, locked bool) cty.Value
	walk = func(v cty.Value, locked bool) cty.Value {
		return rewriteParts(v, locked, func(p cty.Value, locked bool) (cty.Value, bool) {
			if unkPct > 0 && r.Chance(unkPct, 100) {
				if !locked && r.Chance(1, 10) {
					cls = append(cls, "unknown:dynamic(type-changing)")
					return cty.DynamicVal, true
				}
				u, ucls := refinedUnknown(r, p.Type(), p)
				cls = append(cls, ucls...)
				return u, true
			}
			if p.IsKnown() && !p.IsNull() && p.Type() == cty.Number && freshPct > 0 && inSet == 0 && r.Chance(freshPct, 100) {
				return freshNumber(r).v, true
			}
			if p.IsKnown() && !p.IsNull() && p.Type().IsSetType() && p.LengthInt() > 0 {
				// members of a set are rebuilt without fresh numbers (they were de-duplicated by model equality)
				inSet++
				var es []cty.Value
				for it := p.ElementIterator(); it.Next(); {
					_, ev := it.Element()
					es = append(es, walk(ev, true))
				}
				inSet--
				return cty.SetVal(es), true
			}
			return cty.NilVal, false
		})
	}
	v = walk(v, false)
	return v, cls
}

// placeMarks returns v with at least one mark somewhere.
func placeMarks(r *core.Rand, v cty.Value) (cty.Value, string) {
	switch r.Intn(3) {
	case 0:
		return v.Mark(gen.Marks[r.Intn(len(gen.Marks))]), "mark:top"
	}
	m := gen.MarkSome(r, v, 5, 30)
	found := false
	visitMarked(m, &found)
	if !found {
		return v.Mark(gen.Marks[r.Intn(len(gen.Marks))]), "mark:top"
	}
	if m.IsMarked() {
		return m, "mark:top+nested"
	}
	return m, "mark:nested-only"
}

func visitMarked(v cty.Value, found *bool) {
	if v.IsMarked() {
		*found = true
		return
	}
	if !v.IsKnown() || v.IsNull() {
		return
	}
	ty := v.Type()
	if ty.IsCollectionType() || ty.IsTupleType() || ty.IsObjectType() {
		for it := v.ElementIterator(); it.Next(); {
			_, ev := it.Element()
			visitMarked(ev, found)
			if *found {
				return
			}
		}
	}
}
