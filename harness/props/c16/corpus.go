package c16

import (
	"fmt"
	"math"
	"math/big"
	"strings"

	"github.com/zclconf/go-cty/cty"

	"verif/harness/core"
	"verif/harness/gen"
)

// The corpus is fixed and seed-independent. It runs in batch 0 of every run and
// holds boundary cases written from reading cty/msgpack/*.go plus the witness of
// every genuine defect found by this driver (fixed or listed), so that a
// repaired defect is re-detected if it ever returns.
//
// Case indices: corpusBase + 1000*entry + constraint number (round trips),
// corpusBase + 900_000_000 + k (marked).

func n(i int64) cty.Value   { return cty.NumberIntVal(i) }
func s(x string) cty.Value  { return cty.StringVal(x) }
func f(x float64) cty.Value { return cty.NumberFloatVal(x) }
func p(x string) cty.Value  { return cty.MustParseNumberVal(x) }

func obj(kv ...any) cty.Value {
	m := map[string]cty.Value{}
	for i := 0; i+1 < len(kv); i += 2 {
		m[kv[i].(string)] = kv[i+1].(cty.Value)
	}
	return cty.ObjectVal(m)
}

func mp(kv ...any) cty.Value {
	m := map[string]cty.Value{}
	for i := 0; i+1 < len(kv); i += 2 {
		m[kv[i].(string)] = kv[i+1].(cty.Value)
	}
	return cty.MapVal(m)
}

func objT(kv ...any) cty.Type {
	m := map[string]cty.Type{}
	for i := 0; i+1 < len(kv); i += 2 {
		m[kv[i].(string)] = kv[i+1].(cty.Type)
	}
	return cty.Object(m)
}

func list(vs ...cty.Value) cty.Value { return cty.ListVal(vs) }
func set(vs ...cty.Value) cty.Value  { return cty.SetVal(vs) }
func tup(vs ...cty.Value) cty.Value  { return cty.TupleVal(vs) }
func unk(t cty.Type) cty.Value       { return cty.UnknownVal(t) }

type entry struct {
	v     cty.Value
	extra []cty.Type // constraints in addition to the exact type and every single-placeholder constraint
}

// tryBuild runs a refinement builder expression; a refused combination is skipped.
func tryBuild(fn func() cty.Value) (v cty.Value, ok bool) {
	o := core.Guard(func() { v = fn() })
	return v, !o.Panicked
}

func corpusEntries() []entry {
	var es []entry
	add := func(v cty.Value, extra ...cty.Type) { es = append(es, entry{v, extra}) }
	dyn := cty.DynamicPseudoType
	num := cty.Number

	// --- numbers: the shared pool; F-32 witnesses; msgpack integer format boundaries
	var nums []cty.Value
	for _, nc := range gen.NumberPool() {
		nums = append(nums, nc.V)
	}
	// F-32 / F-98 (fixed by a832804, c16-whole-number-text.patch): whole numbers whose shortest round-trip text denotes another integer
	for _, x := range []float64{1e23, 1e300, -1e300, 1e22, 1e21, 9007199254740993, 1 << 53, (1 << 53) + 2, 1.2345678901234567e40, math.MaxFloat64, -math.MaxFloat64,
		math.MaxFloat32, 4.611686018427388e18, 9.223372036854776e18, -9.223372036854776e18, -9.223372036854778e18, 1.8446744073709552e19, 123456789012345680000} {
		nums = append(nums, f(x))
	}
	nums = append(nums,
		cty.NumberVal(new(big.Float).SetPrec(24).SetFloat64(16777216*1e10)), // whole, 24-bit mantissa
		cty.NumberVal(pow2(600, 512)), cty.NumberVal(pow2(600, 53)), cty.NumberVal(pow2(2000, 512)),
		cty.NumberVal(new(big.Float).SetPrec(64).SetUint64(math.MaxUint64)),
		cty.NumberVal(new(big.Float).SetPrec(100).Add(pow2(99, 100), big.NewFloat(1))), // 2^99+1 at 100 bits
		p("1e300"), p("123456789012345678901234567890123456789012345678901234567890"),
		p("1e-400"), p("-2.5e-350"), p("1e-600"), // below the float64 range: string path
		n(1).Divide(n(3)), n(-22).Divide(n(7)), // 64-bit quotients
		f(0.1).Add(f(0.2)), f(math.SmallestNonzeroFloat64), f(-math.SmallestNonzeroFloat64), f(math.Nextafter(1, 2)),
		cty.NumberVal(new(big.Float).SetPrec(512).SetFloat64(0.1)), // float64 0.1 held at 512 bits: float path
	)
	for k := 0; k <= 64; k++ {
		for _, d := range []int64{-1, 0, 1} {
			x := bigAdd(pow2(k, 512), d)
			nums = append(nums, cty.NumberVal(x), cty.NumberVal(new(big.Float).Neg(x)))
		}
	}
	for _, x := range nums {
		add(x)
	}
	// the same numbers as bounds of an unknown number
	for i, x := range nums {
		x := x
		if v, ok := tryBuild(func() cty.Value { return unk(num).Refine().NumberRangeLowerBound(x, i%2 == 0).NewValue() }); ok {
			add(v)
		}
		if v, ok := tryBuild(func() cty.Value {
			return unk(num).Refine().NotNull().NumberRangeUpperBound(x, i%2 == 1).NewValue()
		}); ok {
			add(v)
		}
	}
	// both bounds; equal bounds; bounds whose text is long
	for _, pr := range [][2]cty.Value{{n(0), n(0)}, {n(-1), n(1)}, {f(0.5), f(0.5)}, {p("0.1"), p("0.2")}, {n(math.MinInt64), n(math.MaxInt64)},
		{cty.NumberVal(new(big.Float).SetPrec(512).SetFloat64(1e300)), f(1e300)}, // F-98: the same number at 512 and 53 bits came back as lower > upper (decoder panic)
		{f(-1e300), f(1e300)}, {f(-math.MaxFloat64), f(math.MaxFloat64)}, {cty.NumberVal(pow2(600, 512)), cty.NumberVal(pow2(601, 512))},
		{p("1e-600"), p("2e-600")},                                       // F-96 (fixed by 0e54857): each bound is ~600 bytes of text, together above the decoder's 1 KiB limit
		{cty.NumberVal(pow2(2000, 512)), cty.NumberVal(pow2(2001, 512))}, // the same with whole numbers
		{p("1e-400"), p("1e-399")}, {cty.NegativeInfinity, n(5)}, {n(5), cty.PositiveInfinity}, {cty.NegativeInfinity, cty.PositiveInfinity},
		{f(math.Inf(-1)), f(math.Inf(1))}, {n(1).Divide(n(3)), n(2).Divide(n(3))}} {
		pr := pr
		for inc := 0; inc < 4; inc++ {
			inc := inc
			if v, ok := tryBuild(func() cty.Value {
				return unk(num).Refine().NumberRangeLowerBound(pr[0], inc&1 == 0).NumberRangeUpperBound(pr[1], inc&2 == 0).NewValue()
			}); ok {
				add(v)
			}
		}
	}
	// --- size of the refinements blob around the decoder's limit (1024 bytes, map header included): a bound
	// whose text has d digits takes d+6 bytes (key, array header, str16 header, flag). Every total from well
	// below to well above the limit is produced: one bound alone / with not-null / lower or upper / whole,
	// negative and small-magnitude numbers, and two bounds that only fit one at a time. Marshal -> Unmarshal
	// must succeed for each (a dropped bound is a sound approximation, an error is not).
	for d := 985; d <= 1045; d++ {
		for _, x := range []cty.Value{p(fmt.Sprintf("1e%d", d)), p(fmt.Sprintf("-1e%d", d)), p(fmt.Sprintf("1e-%d", d)), p(fmt.Sprintf("-3e-%d", d))} {
			x := x
			for variant := 0; variant < 4; variant++ {
				variant := variant
				if v, ok := tryBuild(func() cty.Value {
					b := unk(num).Refine()
					if variant&1 == 1 {
						b = b.NotNull()
					}
					if variant&2 == 0 {
						return b.NumberRangeLowerBound(x, d%2 == 0).NewValue()
					}
					return b.NumberRangeUpperBound(x, d%2 == 1).NewValue()
				}); ok {
					add(v)
				}
			}
		}
	}
	for hiDigits := 470; hiDigits <= 550; hiDigits++ {
		lo, hi := p("-1e500"), p(fmt.Sprintf("1e%d", hiDigits))
		for _, nn := range []bool{false, true} {
			nn := nn
			if v, ok := tryBuild(func() cty.Value {
				b := unk(num).Refine()
				if nn {
					b = b.NotNull()
				}
				return b.NumberRangeLowerBound(lo, true).NumberRangeUpperBound(hi, false).NewValue()
			}); ok {
				add(v)
			}
		}
	}
	// a lower bound of +Inf / an upper bound of -Inf are real constraints
	if v, ok := tryBuild(func() cty.Value {
		return unk(num).Refine().NumberRangeLowerBound(cty.PositiveInfinity, true).NewValue()
	}); ok {
		add(v)
	}
	if v, ok := tryBuild(func() cty.Value { return unk(num).Refine().NumberRangeUpperBound(f(math.Inf(-1)), true).NewValue() }); ok {
		add(v)
	}
	// outside the documented domain (mantissa wider than 512 bits): executed, not compared
	three400 := new(big.Int).Exp(big.NewInt(3), big.NewInt(400), nil)
	add(cty.NumberVal(new(big.Float).SetInt(three400)))
	add(cty.NumberVal(new(big.Float).SetPrec(640).Add(pow2(600, 640), big.NewFloat(1))))

	// --- strings and keys
	add(s(""))
	add(s("é"))                        // NFC
	add(s("é"))                        // NFD (normalized by StringVal)
	add(s(strings.Repeat("a", 31)))    // fixstr limit
	add(s(strings.Repeat("a", 32)))    // str8
	add(s(strings.Repeat("é", 128)))   // 256 bytes: str16
	add(s(strings.Repeat("👍🏽", 9000))) // 72000 bytes: str32
	add(mp("", s("x"), "é", s("y"), "long-key", cty.NullVal(cty.String)))
	add(obj("", n(1), "é", s("y")))

	// --- string prefixes across the encoder's limit (256 bytes, cut at byte 255)
	for off := 246; off <= 258; off++ {
		for ci, cl := range clusters {
			pre := strings.Repeat("a", off) + cl + strings.Repeat("-", 12)
			if (off+ci)%2 == 0 {
				if v, ok := tryBuild(func() cty.Value { return unk(cty.String).Refine().StringPrefixFull(pre).NewValue() }); ok {
					add(v)
				}
			} else {
				if v, ok := tryBuild(func() cty.Value { return unk(cty.String).Refine().NotNull().StringPrefix(pre).NewValue() }); ok {
					add(v)
				}
			}
		}
	}
	for _, ln := range []int{0, 1, 2, 254, 255, 256, 257, 1000, 1017, 1018, 1019, 1024, 5000} {
		pre := strings.Repeat("x", ln)
		if v, ok := tryBuild(func() cty.Value { return unk(cty.String).Refine().StringPrefixFull(pre).NewValue() }); ok {
			add(v)
		}
		if v, ok := tryBuild(func() cty.Value { return unk(cty.String).Refine().NotNull().StringPrefixFull(pre + "-").NewValue() }); ok {
			add(v, dyn)
		}
	}
	// a long run of combining marks: the whole prefix is one cluster
	if v, ok := tryBuild(func() cty.Value {
		return unk(cty.String).Refine().StringPrefixFull("e" + strings.Repeat("́", 300)).NewValue()
	}); ok {
		add(v)
	}

	// --- length bounds
	for _, ct := range []cty.Type{cty.List(cty.String), cty.Set(num), cty.Map(cty.Bool)} {
		ct := ct
		for _, lo := range lengthBounds {
			for _, hi := range lengthBounds {
				lo, hi := lo, hi
				if lo > hi {
					continue
				}
				if v, ok := tryBuild(func() cty.Value {
					return unk(ct).Refine().CollectionLengthLowerBound(lo).CollectionLengthUpperBound(hi).NewValue()
				}); ok {
					add(v)
				}
			}
		}
		if v, ok := tryBuild(func() cty.Value { return unk(ct).Refine().NotNull().NewValue() }); ok {
			add(v)
		}
	}

	// --- unknown and null values of every kind of type, alone and nested
	o2 := objT("a", cty.Set(cty.Bool), "b", num)
	for _, t := range []cty.Type{cty.Bool, num, cty.String, cty.List(num), cty.Set(cty.String), cty.Map(cty.Bool), cty.EmptyTuple, cty.EmptyObject,
		cty.Tuple([]cty.Type{num, cty.String}), o2, cty.List(o2), cty.Map(cty.List(cty.String))} {
		add(unk(t))
		add(unk(t).RefineNotNull())
		add(cty.NullVal(t))
		add(tup(unk(t), cty.NullVal(t), unk(t).RefineNotNull()))
		add(obj("a", unk(t), "b", cty.NullVal(t)))
		add(list(unk(t), cty.NullVal(t)))
		add(mp("k", unk(t).RefineNotNull(), "n", cty.NullVal(t)))
		if !t.IsMapType() {
			add(set(unk(t).RefineNotNull(), cty.NullVal(t)))
		}
	}
	add(cty.DynamicVal)
	add(cty.NullVal(dyn))
	add(tup(cty.DynamicVal, cty.NullVal(dyn), n(1)))
	add(obj("a", cty.DynamicVal, "b", cty.NullVal(dyn)))
	add(list(tup(cty.DynamicVal), tup(cty.DynamicVal))) // a list whose element type itself has a placeholder
	add(list(tup(cty.NullVal(dyn)), tup(cty.DynamicVal)))
	add(mp("a", obj("x", cty.DynamicVal)))

	// --- F-33 / F-97 (panic fixed by ec9cf26; the remaining error is listed as F-116b): the encoder's own output
	// for a collection whose members resolve to different types
	add(list(mp("a", n(1)), cty.MapValEmpty(num)), cty.List(cty.Map(dyn)))
	add(set(mp("a", n(1)), cty.MapValEmpty(num)), cty.Set(cty.Map(dyn)))
	add(mp("x", list(s("a")), "y", cty.ListValEmpty(cty.String)), cty.Map(cty.List(dyn)))
	add(list(list(n(1)), cty.NullVal(cty.List(num))), cty.List(cty.List(dyn)))
	add(list(set(n(1)), unk(cty.Set(num))), cty.List(cty.Set(dyn)))
	add(list(obj("a", list(n(1))), obj("a", cty.ListValEmpty(num))), cty.List(objT("a", cty.List(dyn))))
	// --- F-34 (listed as F-116a): the format cannot carry the type below a null / unknown / empty part
	add(cty.NullVal(objT("a", cty.Set(cty.Bool))), objT("a", cty.Set(dyn)))
	add(cty.ListValEmpty(cty.String), cty.List(dyn))
	add(unk(cty.List(cty.String)), cty.List(dyn))
	add(unk(cty.Map(num)).RefineNotNull(), cty.Map(dyn))
	add(tup(cty.NullVal(cty.Tuple([]cty.Type{num}))), cty.Tuple([]cty.Type{cty.Tuple([]cty.Type{dyn})}))
	add(obj("a", cty.MapValEmpty(cty.Bool), "b", n(1)), objT("a", cty.Map(dyn), "b", dyn))

	// --- placeholders reached through known parts (k2) with every kind of payload
	add(list(n(1), unk(num), cty.NullVal(num)), cty.List(dyn))
	add(set(s("a"), unk(cty.String).RefineNotNull()), cty.Set(dyn))
	add(mp("a", tup(n(1), s("x")), "b", tup(unk(num), cty.NullVal(cty.String))), cty.Map(dyn), cty.Map(cty.Tuple([]cty.Type{dyn, dyn})))
	add(obj("a", list(f(1e300)), "b", unk(cty.List(num)).RefineNotNull()), objT("a", dyn, "b", dyn))

	// --- msgpack container format boundaries
	for _, ln := range []int{15, 16, 17, 65535, 65536} {
		bs := make([]cty.Value, ln)
		for i := range bs {
			bs[i] = cty.BoolVal(i%3 == 0)
		}
		add(cty.ListVal(bs))
	}
	{
		m := map[string]cty.Value{}
		for i := 0; i < 17; i++ {
			m[strings.Repeat("k", i+1)] = n(int64(i))
		}
		add(cty.MapVal(m))
		add(cty.ObjectVal(m))
	}
	return es
}

func markedEntries() []cty.Value {
	m := gen.Marks
	return []cty.Value{
		n(1).Mark(m[0]),
		unk(cty.Number).Mark(m[0]),
		cty.NullVal(cty.String).Mark(m[1]),
		cty.DynamicVal.Mark(m[2]),
		list(s("a").Mark(m[0]), s("b")),
		mp("a", n(1), "b", n(2).Mark(m[0])),
		tup(n(1), obj("x", unk(cty.String).Mark(m[1]))),
		obj("a", list(n(1)).Mark(m[0])),
		set(n(1), n(2)).Mark(m[0]),
		cty.ListValEmpty(cty.String).Mark(m[0]),
		obj("a", n(1)).Mark(m[0]).Mark(m[1]),
		tup(cty.EmptyObjectVal.Mark(m[2])),
	}
}

func runCorpus(c *core.Ctx, base int64) {
	es := corpusEntries()
	for ei, e := range es {
		t := e.v.Type()
		cons := []cty.Type{t}
		cons = append(cons, gen.SinglePlaceholderConstraints(t)...)
		cons = append(cons, e.extra...)
		seen := map[string]bool{}
		for ci, con := range cons {
			key := con.GoString()
			if seen[key] {
				continue
			}
			seen[key] = true
			idx := base + int64(ei)*1000 + int64(ci)
			if !c.Want(idx) {
				continue
			}
			c.Count("corpus:round-trip")
			roundTrip(c, idx, e.v, con)
		}
	}
	for k, v := range markedEntries() {
		idx := base + 900_000_000 + int64(k)
		u, _ := v.UnmarkDeep()
		for ci, con := range []cty.Type{u.Type(), cty.DynamicPseudoType} {
			if !c.Want(idx*2 + int64(ci)) {
				continue
			}
			c.Count("corpus:marked")
			markedCase(c, idx*2+int64(ci), v, con, "corpus")
		}
	}
}
