package c16

import (
	"fmt"
	"math"
	"math/big"
	"sort"
	"strings"

	"github.com/zclconf/go-cty/cty"

	"verif/harness/core"
	"verif/harness/model"
)

// rtDiff is the first difference between an original value and what the round
// trip returned for it.
type rtDiff struct {
	path   string
	kind   string // short and stable: part of the oracle clause in the report
	detail string
	orig   cty.Value
	num    *big.Float // the original number or bound the difference is about (nil if none)
}

func (d *rtDiff) String() string {
	if d == nil {
		return ""
	}
	return fmt.Sprintf("at %q: %s: %s", d.path, d.kind, d.detail)
}

// differ decides the round-trip relation of C16 part by part:
//
//   - same type (in lossy mode a decoded type that only has placeholders where
//     the original type is concrete is let through: used for class k3 after the
//     root type has been compared with the type the wire format can carry);
//   - known parts: null iff null; bools and strings identical; lists, tuples,
//     maps and objects member-wise; sets as sets (a one-to-one correspondence);
//   - numbers: infinities by sign; whole numbers and exact float64 values
//     numerically identical (Cmp == 0); every other number equal by the
//     documented equality;
//   - unknown parts stay unknown, known parts stay known; the decoded range
//     subsumes the original range and nothing is invented; sampled concrete
//     values the original admits are not excluded by the decoded value's Equals.
type differ struct {
	c     *core.Ctx
	lossy bool
	quiet bool // no counters (used while searching set correspondences)
}

func (d *differ) count(k string) {
	if !d.quiet && d.c != nil {
		d.c.Count(k)
	}
}

func (d *differ) diff(a, b cty.Value, path string) *rtDiff {
	mk := func(kind, format string, args ...any) *rtDiff {
		return &rtDiff{path: path, kind: kind, detail: fmt.Sprintf(format, args...), orig: a}
	}
	if b.IsMarked() {
		return mk("decoded-part-is-marked", "decoded %#v", b)
	}
	if !a.Type().Equals(b.Type()) {
		if !(d.lossy && model.Conforms(model.TNodeOf(a.Type()), model.TNodeOf(b.Type()))) {
			return mk("type", "original part has type %#v, decoded part has type %#v", a.Type(), b.Type())
		}
	}
	if !a.IsKnown() {
		if b.IsKnown() {
			return mk("unknown-became-known", "original %#v, decoded %#v", a, b)
		}
		return d.unknownDiff(a, b, path)
	}
	if !b.IsKnown() {
		return mk("known-became-unknown", "original %#v, decoded %#v", a, b)
	}
	if a.IsNull() || b.IsNull() {
		if a.IsNull() != b.IsNull() {
			return mk("nullness", "original %#v, decoded %#v", a, b)
		}
		d.count("part:null")
		return nil
	}
	ty := a.Type()
	switch {
	case ty == cty.Bool:
		d.count("part:bool")
		if a.True() != b.True() {
			return mk("bool", "original %#v, decoded %#v", a, b)
		}
	case ty == cty.String:
		d.count("part:string")
		if a.AsString() != b.AsString() {
			return mk("string", "original %q, decoded %q", a.AsString(), b.AsString())
		}
	case ty == cty.Number:
		fa, fb := a.AsBigFloat(), b.AsBigFloat()
		cl := numClassOf(fa)
		d.count("part:number:" + cl)
		mkn := func(kind, format string, args ...any) *rtDiff {
			x := mk(kind, format, args...)
			x.num = fa
			return x
		}
		if fa.MinPrec() > 512 {
			// outside the documented domain of cty.Number (512 bits of precision): nothing is demanded
			d.count("out-of-domain:number-wider-than-512-bits(not-compared)")
			break
		}
		switch {
		case fa.IsInf() || fb.IsInf():
			if !(fa.IsInf() && fb.IsInf() && fa.Sign() == fb.Sign()) {
				return mkn("number:infinity", "original %#v, decoded %#v", a, b)
			}
		case fa.IsInt():
			d.count("clause:whole-number-numerically-identical")
			if fa.Cmp(fb) != 0 {
				return mkn("number:whole", "original %s, decoded %s", clipStr(fa.Text('f', 0), 700), clipStr(fb.Text('f', 0), 700))
			}
		case isExactFloat64(fa):
			d.count("clause:exact-float64-numerically-identical")
			if fa.Cmp(fb) != 0 {
				return mkn("number:float64-exact", "original %s, decoded %s", fa.Text('g', 40), fb.Text('g', 40))
			}
		default:
			d.count("clause:other-number-equal")
			if !model.NumEqualDoc(fa, fb) {
				return mkn("number:other", "original %s, decoded %s", fa.Text('g', 60), fb.Text('g', 60))
			}
		}
	case ty.IsListType() || ty.IsTupleType():
		if ty.IsListType() {
			d.count("part:list")
		} else {
			d.count("part:tuple")
		}
		if a.LengthInt() != b.LengthInt() {
			return mk("length", "original length %d, decoded length %d", a.LengthInt(), b.LengthInt())
		}
		as, bs := a.AsValueSlice(), b.AsValueSlice()
		for i := range as {
			if x := d.diff(as[i], bs[i], fmt.Sprintf("%s[%d]", path, i)); x != nil {
				return x
			}
		}
	case ty.IsMapType() || ty.IsObjectType():
		if ty.IsMapType() {
			d.count("part:map")
		} else {
			d.count("part:object")
		}
		am, bm := a.AsValueMap(), b.AsValueMap()
		if len(am) != len(bm) {
			return mk("keys", "original has %d keys, decoded has %d", len(am), len(bm))
		}
		ks := make([]string, 0, len(am))
		for k := range am {
			ks = append(ks, k)
		}
		sort.Strings(ks)
		for _, k := range ks {
			bv, ok := bm[k]
			if !ok {
				return mk("keys", "key %q missing in the decoded value", k)
			}
			if x := d.diff(am[k], bv, fmt.Sprintf("%s[%q]", path, k)); x != nil {
				return x
			}
		}
	case ty.IsSetType():
		d.count("part:set")
		as, bs := a.AsValueSlice(), b.AsValueSlice()
		if len(as) != len(bs) {
			return mk("set-members", "original has %d members, decoded has %d: %#v vs %#v", len(as), len(bs), a, b)
		}
		q := &differ{c: d.c, lossy: d.lossy, quiet: true}
		if !q.matchMembers(as, bs, make([]bool, len(bs)), 0) {
			// pair off the members that do correspond; report the difference between what is left
			usedB := make([]bool, len(bs))
			var restA []cty.Value
			for _, x := range as {
				found := false
				for j, y := range bs {
					if !usedB[j] && q.diff(x, y, "") == nil {
						usedB[j], found = true, true
						break
					}
				}
				if !found {
					restA = append(restA, x)
				}
			}
			var restB []cty.Value
			for j, y := range bs {
				if !usedB[j] {
					restB = append(restB, y)
				}
			}
			// the assignment of the remaining members with the fewest differing pairs tells
			// which member changed (<= 5 remaining members: at most 120 assignments)
			if n := len(restA); n == len(restB) && n <= 5 {
				perm := make([]int, n)
				for i := range perm {
					perm[i] = i
				}
				var bestDiff *rtDiff
				bestBad := n + 1
				var rec func(k int)
				rec = func(k int) {
					if k == n {
						bad := 0
						var first *rtDiff
						for i := 0; i < n; i++ {
							if md := q.diff(restA[i], restB[perm[i]], fmt.Sprintf("%s{%d}", path, i)); md != nil {
								bad++
								if first == nil || (first.num == nil && md.num != nil) {
									first = md
								}
							}
						}
						if bad < bestBad {
							bestBad, bestDiff = bad, first
						}
						return
					}
					for j := k; j < n; j++ {
						perm[k], perm[j] = perm[j], perm[k]
						rec(k + 1)
						perm[k], perm[j] = perm[j], perm[k]
					}
				}
				rec(0)
				if bestDiff != nil {
					return bestDiff
				}
			}
			if len(restA) > 0 {
				return &rtDiff{path: path + "{}", kind: "set-members", orig: restA[0],
					detail: fmt.Sprintf("member %#v has no counterpart in the decoded set %#v", restA[0], b)}
			}
			return mk("set-members", "no one-to-one correspondence between %#v and %#v", a, b)
		}
		// count the members' parts once, along the found correspondence
		if !d.quiet {
			used := make([]bool, len(bs))
			for _, x := range as {
				for j, y := range bs {
					if !used[j] && q.diff(x, y, "") == nil {
						used[j] = true
						if md := d.diff(x, y, path+"{}"); md != nil {
							return md
						}
						break
					}
				}
			}
		}
	case ty.IsCapsuleType():
		return mk("capsule", "capsule values are outside the property")
	}
	return nil
}

// matchMembers decides whether every member of as can be paired with its own member of bs such that the pair
// shows no difference: a maximum bipartite matching over the compatibility matrix (augmenting paths), so that a
// set whose members do NOT all correspond costs n^2 comparisons plus a cubic search instead of a backtracking
// search over assignments (43 unknown members with one narrowed bound kept a worker busy beyond the watchdog).
func (d *differ) matchMembers(as, bs []cty.Value, used []bool, _ int) bool {
	n := len(as)
	ok := make([][]bool, n)
	for i := range as {
		ok[i] = make([]bool, len(bs))
		any := false
		for j := range bs {
			if !used[j] && d.diff(as[i], bs[j], "") == nil {
				ok[i][j], any = true, true
			}
		}
		if !any {
			return false
		}
	}
	owner := make([]int, len(bs))
	for j := range owner {
		owner[j] = -1
	}
	var try func(i int, seen []bool) bool
	try = func(i int, seen []bool) bool {
		for j := range bs {
			if !ok[i][j] || seen[j] {
				continue
			}
			seen[j] = true
			if owner[j] < 0 || try(owner[j], seen) {
				owner[j] = i
				return true
			}
		}
		return false
	}
	for i := 0; i < n; i++ {
		if !try(i, make([]bool, len(bs))) {
			return false
		}
	}
	for j, o := range owner {
		if o >= 0 {
			used[j] = true
		}
	}
	return true
}

func isExactFloat64(f *big.Float) bool {
	_, acc := f.Float64()
	return acc == big.Exact
}

// bound is one numeric bound as read through the range accessors.
type bound struct {
	has bool
	f   *big.Float
	n   model.Num
	inc bool
}

func readBounds(v cty.Value) (lo, hi bound, err error) {
	defer func() {
		if p := recover(); p != nil {
			err = fmt.Errorf("range accessor panicked: %v", p)
		}
	}()
	vr := v.Range()
	l, li := vr.NumberLowerBound()
	h, hi2 := vr.NumberUpperBound()
	if l.IsKnown() && !l.IsNull() {
		f := l.AsBigFloat()
		if !(f.IsInf() && f.Sign() < 0) { // -Inf as a lower bound = unset
			lo = bound{true, f, model.NumOf(f), li}
		}
	}
	if h.IsKnown() && !h.IsNull() {
		f := h.AsBigFloat()
		if !(f.IsInf() && f.Sign() > 0) {
			hi = bound{true, f, model.NumOf(f), hi2}
		}
	}
	return
}

// boundSameNumber: the decoded bound is the original bound as far as the
// property promises number fidelity: numerically identical, or - for a bound
// that is neither whole nor an exact float64 - equal by the documented equality
// ("every other number comes back equal").
func boundSameNumber(a, b *big.Float) (identical, equalOnly bool) {
	if a.IsInf() || b.IsInf() {
		return a.IsInf() && b.IsInf() && a.Sign() == b.Sign(), false
	}
	if a.Cmp(b) == 0 {
		return true, false
	}
	if !a.IsInt() && !isExactFloat64(a) && model.NumEqualDoc(a, b) {
		return false, true
	}
	return false, false
}

func (d *differ) unknownDiff(a, b cty.Value, path string) *rtDiff {
	mk := func(kind, format string, args ...any) *rtDiff {
		return &rtDiff{path: path, kind: kind, detail: fmt.Sprintf(format, args...), orig: a}
	}
	ty := a.Type()
	if ty == cty.DynamicPseudoType {
		d.count("part:unknown:dynamic")
		return nil
	}
	ra, e1 := model.RangeOf(a)
	rb, e2 := model.RangeOf(b)
	if e1 != nil {
		return mk("unknown:range-accessor-panicked-on-original", "%v", e1)
	}
	if e2 != nil {
		return mk("unknown:range-accessor-panicked", "%v", e2)
	}
	show := func() string { return fmt.Sprintf("original range {%s}, decoded range {%s}", ra, rb) }
	approx := false
	// nullness
	d.count("clause:unknown:nullness")
	switch {
	case rb.Null == model.TriFalse && ra.Null != model.TriFalse:
		return mk("unknown:invented-not-null", "%s", show())
	case rb.Null == model.TriTrue && ra.Null != model.TriTrue:
		return mk("unknown:invented-null", "%s", show())
	case rb.Null != ra.Null:
		approx = true
		d.count("range:not-null-dropped(approximation)")
	}
	switch {
	case ty == cty.Number:
		d.count("part:unknown:number")
		alo, ahi, e1 := readBounds(a)
		blo, bhi, e2 := readBounds(b)
		if e1 != nil || e2 != nil {
			return mk("unknown:range-accessor-panicked", "%v %v", e1, e2)
		}
		for _, side := range []struct {
			name   string
			ao, bo bound
			dir    int
		}{{"lower", alo, blo, -1}, {"upper", ahi, bhi, +1}} {
			d.count("clause:unknown:" + side.name + "-bound")
			switch {
			case side.bo.has && !side.ao.has:
				return mk("unknown:invented-"+side.name+"-bound", "%s", show())
			case !side.bo.has && side.ao.has:
				approx = true
				d.count("range:" + side.name + "-bound-dropped(approximation)")
			case side.bo.has && side.ao.f.MinPrec() > 512:
				d.count("out-of-domain:bound-wider-than-512-bits(not-compared)")
			case side.bo.has:
				d.count("bound:" + side.name + ":" + numClassOf(side.ao.f))
				ident, eq := boundSameNumber(side.ao.f, side.bo.f)
				switch {
				case ident || eq:
					if eq {
						d.count("bound:equal-by-documented-equality-but-not-identical")
					}
					if side.ao.inc && !side.bo.inc {
						x := mk("unknown:narrowed-"+side.name+"-bound", "inclusive became exclusive: %s", show())
						x.num = side.ao.f
						return x
					}
					if side.ao.inc != side.bo.inc {
						approx = true
						d.count("range:exclusive-became-inclusive(approximation)")
					}
				default:
					c := side.bo.n.Cmp(side.ao.n) * side.dir // >0: decoded bound lies outside the original one (wider)
					if c < 0 {
						x := mk("unknown:narrowed-"+side.name+"-bound", "%s", show())
						x.num = side.ao.f
						return x
					}
					approx = true
					d.count("range:" + side.name + "-bound-widened(approximation)")
				}
			}
		}
	case ty == cty.String:
		d.count("part:unknown:string")
		d.count("clause:unknown:prefix")
		switch {
		case rb.Prefix != "" && ra.Prefix == "":
			return mk("unknown:invented-prefix", "%s", show())
		case !strings.HasPrefix(ra.Prefix, rb.Prefix):
			return mk("unknown:prefix-is-not-a-prefix-of-the-original", "original prefix %q (%d bytes), decoded prefix %q (%d bytes)", ra.Prefix, len(ra.Prefix), rb.Prefix, len(rb.Prefix))
		case len(rb.Prefix) < len(ra.Prefix):
			approx = true
			if len(ra.Prefix) > 256 {
				d.count("range:prefix-shortened(original>256-bytes)")
			} else {
				d.count("range:prefix-shortened(original<=256-bytes)")
			}
		}
	case ty.IsCollectionType():
		d.count("part:unknown:collection")
		d.count("clause:unknown:length-bounds")
		switch {
		case rb.MinLen != 0 && ra.MinLen == 0, rb.MaxLen != math.MaxInt && ra.MaxLen == math.MaxInt:
			return mk("unknown:invented-length-bound", "%s", show())
		case rb.MinLen > ra.MinLen || rb.MaxLen < ra.MaxLen:
			return mk("unknown:narrowed-length-bound", "%s", show())
		case rb.MinLen != ra.MinLen || rb.MaxLen != ra.MaxLen:
			approx = true
			d.count("range:length-bound-widened(approximation)")
		}
	default:
		d.count("part:unknown:other")
	}
	if approx {
		d.count("range:approximated")
	} else {
		d.count("range:identical")
	}
	// second observation point: the decoded value's own Equals must not exclude
	// a concrete value the original range admits.
	if !d.quiet && a.Type().Equals(b.Type()) {
		for _, s := range samplesFor(a, ra) {
			var res cty.Value
			o := core.Guard(func() { res = b.Equals(s) })
			if d.c != nil {
				d.c.Eval(1)
			}
			d.count("clause:unknown:decoded-Equals-does-not-exclude-an-admitted-sample")
			if o.Panicked {
				return mk("unknown:Equals-panicked-on-decoded", "sample %#v: %s", s, o.PanicMsg)
			}
			if res.IsKnown() && !res.IsNull() && res.Type() == cty.Bool && res.False() {
				// the original must not exclude it either (else the sample choice is wrong)
				var ores cty.Value
				oo := core.Guard(func() { ores = a.Equals(s) })
				if !oo.Panicked && ores.IsKnown() && ores.False() {
					d.count("sample:also-excluded-by-the-original(ignored)")
					continue
				}
				if s.Type() == cty.Number {
					// Value.GreaterThanOrEqualTo is GreaterThan.Or(Equals), and Equals compares fractions by
					// their shortest text at each number's own precision: a sample numerically identical to
					// an inclusive bound but held at another precision is "excluded". That is a property of
					// the core comparison, not of the codec; retry with the decoded bound itself as the sample.
					if alt, ok := sameNumberAsInclusiveBound(b, s); ok {
						var r2 cty.Value
						o2 := core.Guard(func() { r2 = b.Equals(alt) })
						if !o2.Panicked && !(r2.IsKnown() && r2.False()) {
							d.count("sample:excluded-only-because-of-its-precision(core-comparison,cross-note)")
							if d.c != nil {
								d.c.CrossNote("C02", "Value.GreaterThanOrEqualTo/LessThanOrEqualTo: a number numerically identical to the other operand but held at another precision is neither greater nor equal",
									fmt.Sprintf("%#v vs bound of %#v", s, b))
							}
							continue
						}
					}
				}
				return mk("unknown:decoded-excludes-an-admitted-value", "sample %#v is admitted by the original %#v but decoded.Equals(sample) is False; decoded %#v", s, a, b)
			}
		}
	}
	return nil
}

// sameNumberAsInclusiveBound: s is numerically identical (Cmp == 0) to an
// inclusive bound of the unknown number u; returns that bound.
func sameNumberAsInclusiveBound(u, s cty.Value) (cty.Value, bool) {
	lo, hi, err := readBounds(u)
	if err != nil {
		return cty.NilVal, false
	}
	f := s.AsBigFloat()
	for _, bd := range []bound{lo, hi} {
		if bd.has && bd.inc && bd.f.Cmp(f) == 0 {
			return cty.NumberVal(bd.f), true
		}
	}
	return cty.NilVal, false
}

// samplesFor returns concrete values that the range ra (of the original
// unknown value a) admits: the bounds themselves when inclusive, neighbours
// inside the bounds, a continuation of the prefix, an empty collection.
func samplesFor(a cty.Value, ra model.Range) []cty.Value {
	ty := a.Type()
	var out []cty.Value
	add := func(v cty.Value) { out = append(out, v) }
	switch {
	case ty == cty.Number:
		lo, hi, err := readBounds(a)
		if err != nil {
			return nil
		}
		cand := []*big.Float{new(big.Float)}
		for _, bd := range []bound{lo, hi} {
			if bd.has && bd.f.MinPrec() > 512 {
				return nil // bound outside the documented domain: nothing is compared
			}
		}
		for _, bd := range []bound{lo, hi} {
			if bd.has && !bd.f.IsInf() {
				cand = append(cand, bd.f, bigAdd(bd.f, 1), bigAdd(bd.f, -1))
			}
		}
		if lo.has && hi.has && !lo.f.IsInf() && !hi.f.IsInf() && lo.f.Cmp(hi.f) != 0 {
			// (not for a one-point range: the "midpoint" would be the bound itself held at 600 bits, a number
			// whose shortest decimal text differs from the bound's, i.e. a question for known finding F-47 and not
			// for the codec, which may replace a bound by a number EQUAL to it: false alarm at seed 2 once the
			// shared pool had 53-bit numbers outside the float64 range, which travel as 17-digit text)
			mid := new(big.Float).SetPrec(600).Add(lo.f, hi.f)
			mid.Quo(mid, big.NewFloat(2))
			cand = append(cand, mid)
		}
		for _, f := range cand {
			if ra.AdmitsNum(model.NumOf(f)) {
				add(cty.NumberVal(f))
			}
		}
	case ty == cty.String:
		add(cty.StringVal(ra.Prefix))
		add(cty.StringVal(ra.Prefix + "a"))
	case ty.IsCollectionType() && !ty.ElementType().HasDynamicTypes():
		if ra.AdmitsLen(0) {
			switch {
			case ty.IsListType():
				add(cty.ListValEmpty(ty.ElementType()))
			case ty.IsSetType():
				add(cty.SetValEmpty(ty.ElementType()))
			default:
				add(cty.MapValEmpty(ty.ElementType()))
			}
		}
	}
	return out
}

func clipStr(s string, n int) string {
	if len(s) <= n {
		return s
	}
	return s[:n] + fmt.Sprintf("...(+%d bytes)", len(s)-n)
}
