// Package c08: type conversion is conformant, total where safe, idempotent, never panics.
package c08

import (
	"fmt"
	"strings"

	"github.com/zclconf/go-cty/cty"
	"github.com/zclconf/go-cty/cty/convert"

	"verif/harness/core"
	"verif/harness/gen"
	m "verif/harness/model"
	"verif/harness/mon"
)

type Driver struct{}

func (Driver) ID() string { return "C08" }

func (Driver) Info() core.Info {
	return core.Info{
		Title: "type conversion is conformant, total where safe, idempotent, never panics",
		Rule: "case = (value, target type). Values: typed generator to depth 3 (known, null, unknown incl. refined, marked, at every depth; collision-rich number pool incl. whole float64 values above 2^53; " +
			"strings that do / do not parse as numbers and bools; capsule values with and without conversion callbacks). Targets: derived from the value's own type by 1..3 node-level derivations at random positions " +
			"(list/set/tuple and map/object kind changes, primitive changes, dropped / added-optional / added-required / marked-optional attributes incl. nested optional object types, placeholders, capsule targets, unrelated parts), " +
			"the own type, unrelated types, a few fixed targets. Every case runs GetConversion, GetConversionUnsafe, Convert, both returned conversions, a second Convert of the result, the inverse Convert for lossless pairs, and the " +
			"conversion obtained for a dynamic source, every member of a compound result against the conversion of that member alone, and (half of the offered pairs) each returned conversion function on 3 values in sequence plus the first again against freshly obtained functions; half of the cases are pairs (known value, admitting weakening of it) converted to the same target and compared with mon.Admits. " +
			"Plus: every ordered pair of a fixed 47-type pool x 5..8 fixed values per source type (exhaustive), every tuple/object type of 2..3 members from a 21-type pool against 7 collection targets with placeholder element types (exhaustive; known value next to the unknown value of the type), a fixed catalogue x every single-position weakening, and a corpus with the witnesses of F-29..F-32. " +
			"distinct = hash of (value, target); non-trivial = a conversion to a type other than the value's own was offered and succeeded",
		Assumptions: []string{
			"'equal' is mon.ModelEqual (documented equality; whole numbers compared exactly; unknowns by type and range; marks ignored); for values that are not wholly known the round trip must give a value that admits the original (mon.Admits)",
			"'already of that type' is read as: the value's type conforms to the target (equal after dropping optional annotations, placeholders matching anything); idempotence is the same clause applied to a conversion result",
			"'lossless' is a structural predicate over (type of the value, type of the result) written from docs/convert.md (number/bool->string, set->list, tuple->list, object->map, same-kind members, added optional attributes); a round trip is demanded only where GetConversionUnsafe offers the inverse (list->tuple is in the docs chart but not implemented: counted, not judged)",
			"placeholder clause: positions are paired as docs/convert.md pairs them; nothing is demanded where the input has no type information at a position (empty tuple/object, absent optional attribute)",
			"the relational clause uses typed weakenings below the top level (a DynamicVal member changes the source TYPE, hence legitimately the chosen conversion) and any admitting unknown, including DynamicVal, at top level",
			"a conversion function is only applied to values whose type is exactly the source type it was requested for, or to any value when requested for DynamicPseudoType (the documented domain)",
			"cty.NilType / cty.NilVal are not types / values; strings are valid UTF-8",
		},
		MinNontrivial: 20000,
	}
}

func (Driver) Batches(tier string) int {
	if tier == "thorough" {
		return 64
	}
	return 16
}

const (
	siteConvert = "convert.Convert"
	siteSafe    = "convert.GetConversion"
	siteUnsafe  = "convert.GetConversionUnsafe"
	siteDynSrc  = "convert.GetConversionUnsafe(dynamic source)"

	fSafeNotUnsafe = "GetConversion offers a conversion that GetConversionUnsafe does not"
	fNilVal        = "conversion returned NilVal without an error"
	fConform       = "result type does not conform to the requested type"
	fOptional      = "result type carries optional-attribute annotations"
	fPlaceholder   = "result type keeps a placeholder the input had resolved"
	fIdentityOwn   = "conversion to the value's own type is not the identity"
	fIdentityConf  = "conversion to a type the value already conforms to is not the identity"
	fIdentityFail  = "conversion to a type the value already conforms to fails"
	fIdemDiff      = "second application gives a different result"
	fIdemFail      = "second application fails"
	fRoundDiff     = "round trip through the inverse conversion gives a different value"
	fRoundFail     = "inverse conversion fails on the conversion's own result"
	fUnkKnown      = "unknown input gave a known result"
	fNullNotNull   = "null input gave a result that is not null"
	fUnkNullFail   = "conversion is offered but fails on an unknown or null input"
	fAdmit         = "result for the weakened input does not admit the result for the admitted input"
	fSafeErr       = "safe conversion to a placeholder-free target returned an error"
)

// convStrings: string leaves that matter to string->number / string->bool.
var convStrings = []string{"1", "0", "true", "false", "1.5", "-0", "-1", "1e3", "1E3", "0x10", " 1", "1 ", "TRUE", "False", "tRuE", ".5", "5.", "+1", "1_000", "",
	"Inf", "-Inf", "+Inf", "NaN", "nan", "infinity", "1e400", "1e-400", "100000000000000000000000", "99999999999999991611392", "0.1", "0.10", "1.0", "01", "0b1", "0o7", "1/2", "٣", "1e", "e1", "--1",
	"12345678901234567890123456789012345678901234567890123456789012345678901234567890123456789012345678901234567890123456789012345678901234567890123456789012345678901234567890.5"}

// retouch replaces some string leaves by conversion-relevant strings.
func retouch(r *core.Rand, v cty.Value, pct int) cty.Value {
	if v.IsMarked() {
		u, mk := v.Unmark()
		return retouch(r, u, pct).WithMarks(mk)
	}
	if !v.IsKnown() || v.IsNull() {
		return v
	}
	ty := v.Type()
	switch {
	case ty == cty.String:
		if r.Chance(pct, 100) {
			return cty.StringVal(convStrings[r.Intn(len(convStrings))])
		}
	case ty.IsListType() && v.LengthInt() > 0:
		es := v.AsValueSlice()
		for i := range es {
			es[i] = retouch(r, es[i], pct)
		}
		return cty.ListVal(es)
	case ty.IsSetType() && v.LengthInt() > 0:
		es := v.AsValueSlice()
		for i := range es {
			es[i] = retouch(r, es[i], pct)
		}
		return cty.SetVal(es)
	case ty.IsMapType() && v.LengthInt() > 0:
		mm := v.AsValueMap()
		for _, k := range sortedKeys(mm) {
			mm[k] = retouch(r, mm[k], pct)
		}
		return cty.MapVal(mm)
	case ty.IsTupleType() && v.LengthInt() > 0:
		es := v.AsValueSlice()
		for i := range es {
			es[i] = retouch(r, es[i], pct)
		}
		return cty.TupleVal(es)
	case ty.IsObjectType() && v.LengthInt() > 0:
		mm := v.AsValueMap()
		for _, k := range sortedKeys(mm) {
			mm[k] = retouch(r, mm[k], pct)
		}
		return cty.ObjectVal(mm)
	}
	return v
}

func sortedKeys(mm map[string]cty.Value) []string {
	ks := make([]string, 0, len(mm))
	for k := range mm {
		ks = append(ks, k)
	}
	for i := 1; i < len(ks); i++ {
		for j := i; j > 0 && ks[j] < ks[j-1]; j-- {
			ks[j], ks[j-1] = ks[j-1], ks[j]
		}
	}
	return ks
}

// genSource draws a source value. known=true: no unknown parts (nulls allowed).
func genSource(r *core.Rand, known bool) cty.Value {
	depth := 2 + r.Intn(2)
	tn := gen.Type(r, depth, gen.TypeOpts{Dynamic: r.Chance(1, 3), Capsule: r.Chance(1, 8)})
	vo := gen.ValueOpts{MaxLen: 3, SmallNums: r.Chance(1, 3), LongStr: r.Chance(1, 4), Refined: true}
	vo.NullPct = []int{0, 0, 6, 15}[r.Intn(4)]
	if !known {
		vo.UnknownPct = []int{0, 8, 20}[r.Intn(3)]
	}
	v := gen.Value(r, tn.Cty(), vo)
	if r.Chance(1, 2) {
		v = retouch(r, v, 60)
	}
	return v
}

func typeText(t cty.Type) string { return m.TNodeOf(t).String() }

type outcome struct {
	val     cty.Value
	err     error
	ran     bool // the call was made and returned (no panic)
	offered bool
}

func (o outcome) ok() bool { return o.ran && o.err == nil && o.val != cty.NilVal }

// checkPair runs every single-value clause on (v, Tn) and returns the outcome
// of Convert.
func checkPair(c *core.Ctx, r *core.Rand, v cty.Value, Tn *m.TNode, label string) outcome {
	T := buildType(Tn)
	vu, _ := v.Unmark()
	Sty := vu.Type()
	S := m.TNodeOf(Sty)
	desc := func() string { return fmt.Sprintf("Convert(%#v, %s) [%s]", v, Tn, label) }
	cls := pairClass(S, Tn, v)
	c.Count("kinds:" + S.K.String() + ">" + Tn.K.String())
	c.Count("value:" + valueClass(v))
	if v.IsMarked() {
		c.Count("value:marked-top")
	}
	if i := strings.Index(label, ":"); i > 0 {
		c.Count("derive:(" + label[:i] + ")")
	} else {
		for _, l := range strings.Split(label, "+") {
			c.Count("derive:" + l)
		}
	}
	if m.HasOptional(Tn) {
		c.Count("target:has-optional")
	}
	if m.HasDynamic(Tn) {
		c.Count("target:has-placeholder")
	}

	// --- lookups
	var safe, unsafe convert.Conversion
	if o := core.Guard(func() { safe = convert.GetConversion(Sty, T) }); o.Panicked {
		c.Violate(siteSafe, "panic: "+core.PanicClass(o.PanicMsg), cls, desc(), o.PanicMsg+"\n"+o.Stack)
	}
	if o := core.Guard(func() { unsafe = convert.GetConversionUnsafe(Sty, T) }); o.Panicked {
		c.Violate(siteUnsafe, "panic: "+core.PanicClass(o.PanicMsg), cls, desc(), o.PanicMsg+"\n"+o.Stack)
	}
	c.Eval(2)
	switch {
	case safe != nil:
		c.Count("offered:safe")
	case unsafe != nil:
		c.Count("offered:unsafe-only")
	default:
		c.Count("offered:none")
	}
	if safe != nil && unsafe == nil {
		// the lookups do not see the value: class = kinds and target features only
		c.Violate(siteSafe, fSafeNotUnsafe, typeClass(S, Tn), desc(), "GetConversion != nil, GetConversionUnsafe == nil")
	}
	c.Count("clause:safe-implies-unsafe")

	// --- Convert
	var out outcome
	out.offered = unsafe != nil
	o := core.Guard(func() { out.val, out.err = convert.Convert(v, T) })
	c.Eval(1)
	if o.Panicked {
		c.Violate(siteConvert, "panic: "+core.PanicClass(o.PanicMsg), cls, desc(), o.PanicMsg+"\n"+o.Stack)
	} else {
		out.ran = true
	}
	switch {
	case !out.ran:
		c.Count("outcome:panic")
	case out.err != nil && unsafe == nil:
		c.Count("outcome:no-conversion")
	case out.err != nil:
		c.Count("outcome:error")
	default:
		c.Count("outcome:ok")
	}
	own := m.TypeEq(S, m.StripOptional(Tn))
	conformsAlready := m.Conforms(S, Tn)
	c.Distinct(desc(), out.ok() && !own && unsafe != nil)

	if out.ran {
		checkResult(c, siteConvert, v, S, Tn, out.val, out.err, desc, cls, true)
	}

	// --- unknown / null input: an offered conversion never fails
	topUnkNull := !vu.IsKnown() || vu.IsNull()
	if topUnkNull && out.ran && (unsafe != nil || conformsAlready) {
		c.Count("clause:unknown-or-null-input-succeeds")
		if out.err != nil {
			c.Violate(siteConvert, fUnkNullFail, cls, desc(), "error: "+out.err.Error())
		}
	}

	// --- identity
	if out.ran && conformsAlready {
		facetDiff, facetName := fIdentityConf, "clause:identity-conforming-target"
		if own {
			facetDiff, facetName = fIdentityOwn, "clause:identity-own-type"
		}
		c.Count(facetName)
		if out.err != nil {
			c.Violate(siteConvert, fIdentityFail, cls, desc(), "error: "+out.err.Error())
		} else if out.val != cty.NilVal {
			same, how := sameOrAdmits(out.val, v)
			if !same {
				p, k := firstDiffKnownParts(out.val, v)
				c.Violate(siteConvert, facetDiff, cls+" diff:"+k, desc(), fmt.Sprintf("result %#v differs at %s (%s) %s", out.val, p, k, how))
			} else {
				c.Count("identity:" + how)
			}
		}
	}

	if out.ok() {
		res := out.val
		ru, _ := res.Unmark()
		rt := m.TNodeOf(ru.Type())
		checkMemberwise(c, v, S, Tn, res, desc, cls)
		// --- idempotence
		var res2 cty.Value
		var err2 error
		o := core.Guard(func() { res2, err2 = convert.Convert(res, T) })
		c.Eval(1)
		c.Count("clause:idempotence")
		switch {
		case o.Panicked:
			c.Violate(siteConvert, "panic: "+core.PanicClass(o.PanicMsg), cls+" second-application", desc(), fmt.Sprintf("Convert(%#v, same target): %s\n%s", res, o.PanicMsg, o.Stack))
		case err2 != nil:
			c.Violate(siteConvert, fIdemFail, cls, desc(), fmt.Sprintf("first result %#v; second application: %v", res, err2))
		case res2 == cty.NilVal:
			c.Violate(siteConvert, fNilVal, cls+" second-application", desc(), fmt.Sprintf("first result %#v", res))
		default:
			if w := mon.WellFormed(res2); w != "" {
				c.CrossNote("C06", siteConvert+": "+w, desc())
			}
			same, how := sameOrAdmits(res2, res)
			if !same {
				p, k := firstDiffKnownParts(res2, res)
				c.Violate(siteConvert, fIdemDiff, cls+" diff:"+k, desc(), fmt.Sprintf("first %#v; second %#v; differ at %s (%s) %s", res, res2, p, k, how))
			} else {
				c.Count("idempotence:" + how)
			}
		}

		// --- round trip for lossless pairs
		if !m.TypeEq(S, rt) && lossless(S, rt) {
			var inv convert.Conversion
			oi := core.Guard(func() { inv = convert.GetConversionUnsafe(ru.Type(), Sty) })
			c.Eval(1)
			if oi.Panicked {
				c.Violate(siteUnsafe, "panic: "+core.PanicClass(oi.PanicMsg), cls+" inverse", desc(), oi.PanicMsg+"\n"+oi.Stack)
			} else if inv == nil {
				c.Count("roundtrip:no-inverse-offered:" + rt.K.String() + ">" + S.K.String())
			} else {
				var back cty.Value
				var errb error
				ob := core.Guard(func() { back, errb = convert.Convert(res, Sty) })
				c.Eval(1)
				c.Count("clause:round-trip")
				c.Count("roundtrip:" + S.K.String() + ">" + rt.K.String() + ">" + S.K.String())
				switch {
				case ob.Panicked:
					c.Violate(siteConvert, "panic: "+core.PanicClass(ob.PanicMsg), cls+" inverse", desc(), fmt.Sprintf("Convert(%#v, %s): %s\n%s", res, S, ob.PanicMsg, ob.Stack))
				case errb != nil:
					c.Violate(siteConvert, fRoundFail, cls, desc(), fmt.Sprintf("forward result %#v; Convert back to %s: %v", res, S, errb))
				case back == cty.NilVal:
					c.Violate(siteConvert, fNilVal, cls+" inverse", desc(), fmt.Sprintf("forward result %#v", res))
				case vu.IsWhollyKnown():
					if !mon.ModelEqual(back, v) {
						p, k := firstDiff(back, v, "")
						c.Violate(siteConvert, fRoundDiff, "leaf:"+k, desc(), fmt.Sprintf("forward %#v; back %#v; differs from the original at %s (%s)", res, back, p, k))
					}
				case hasSetHoldingUnknown(v):
					c.Count("roundtrip:not-judged:set-holding-unknown")
				default:
					c.Count("roundtrip:judged-by-admits")
					if why := mon.Admits(back, collapse(v)); why != "" {
						cl := "not-wholly-known: " + admitClass(why)
						if _, k := firstDiffKnownParts(back, v); k != "" {
							cl = "leaf:" + k
						}
						c.Violate(siteConvert, fRoundDiff, cl, desc(), fmt.Sprintf("forward %#v; back %#v; %s", res, back, why))
					}
				}
			}
		}
	}

	// --- the returned conversion functions
	noDyn := !m.HasDynamic(Tn)
	if safe != nil {
		var rs cty.Value
		var es error
		os := core.Guard(func() { rs, es = safe(v) })
		c.Eval(1)
		if os.Panicked {
			c.Violate(siteSafe, "panic: "+core.PanicClass(os.PanicMsg), cls+" applied", desc(), os.PanicMsg+"\n"+os.Stack)
		} else {
			checkResult(c, siteSafe, v, S, Tn, rs, es, desc, cls, true)
			if noDyn {
				c.Count("clause:safe-total")
				if es != nil {
					c.Violate(siteSafe, fSafeErr, cls, desc(), "error: "+es.Error())
				}
			} else {
				c.Count("safe:placeholder-target-not-judged")
				if es != nil {
					// outside the statement (target has placeholders); C09 decides whether
					// the type chosen by late unification is one the members convert to
					c.Count("safe:placeholder-target-returned-error")
					c.CrossNote("C09", "safe conversion to a target with placeholders returned an error: "+S.K.String()+">"+Tn.K.String(), desc()+": "+es.Error())
				}
			}
			if es == nil && out.ran && out.err != nil {
				c.Count("note:Convert-fails-where-the-safe-conversion-succeeds")
			}
		}
		// further values of the same source type
		if noDyn && r != nil && !m.HasDynamic(S) && !hasOwnCapsule(S) {
			for k := 0; k < 2; k++ {
				vo := gen.ValueOpts{MaxLen: 3, Refined: true, NullPct: []int{0, 10, 25}[r.Intn(3)], UnknownPct: []int{0, 10, 25}[r.Intn(3)], LongStr: r.Bool()}
				x := gen.Value(r, Sty, vo)
				if r.Bool() {
					x = retouch(r, x, 60)
				}
				xu, _ := x.Unmark()
				if !m.TypeEq(m.TNodeOf(xu.Type()), S) {
					continue
				}
				var rx cty.Value
				var ex error
				ox := core.Guard(func() { rx, ex = safe(x) })
				c.Eval(1)
				c.Count("clause:safe-total")
				c.Count("safe:extra-value")
				xd := func() string { return fmt.Sprintf("GetConversion(%s, %s)(%#v) [%s]", S, Tn, x, label) }
				xc := pairClass(S, Tn, x)
				if ox.Panicked {
					c.Violate(siteSafe, "panic: "+core.PanicClass(ox.PanicMsg), xc+" applied", xd(), ox.PanicMsg+"\n"+ox.Stack)
					continue
				}
				if ex != nil {
					c.Violate(siteSafe, fSafeErr, xc, xd(), "error: "+ex.Error())
				}
				checkResult(c, siteSafe, x, S, Tn, rx, ex, xd, xc, true)
			}
		}
	}
	if unsafe != nil {
		var rs cty.Value
		var es error
		os := core.Guard(func() { rs, es = unsafe(v) })
		c.Eval(1)
		if os.Panicked {
			c.Violate(siteUnsafe, "panic: "+core.PanicClass(os.PanicMsg), cls+" applied", desc(), os.PanicMsg+"\n"+os.Stack)
		} else {
			checkResult(c, siteUnsafe, v, S, Tn, rs, es, desc, cls, true)
		}
	}
	// --- results do not depend on earlier calls of the same conversion function
	if r != nil && (safe != nil || unsafe != nil) && !m.HasDynamic(S) && !hasOwnCapsule(S) && r.Chance(1, 2) {
		vals := []cty.Value{v}
		for k := 0; k < 2; k++ {
			vo := gen.ValueOpts{MaxLen: 3, Refined: true, NullPct: []int{0, 0, 10}[r.Intn(3)], UnknownPct: []int{0, 0, 10}[r.Intn(3)], NoTopNull: true, NoTopUnk: true}
			x := gen.Value(r, Sty, vo)
			xu, _ := x.Unmark()
			if m.TypeEq(m.TNodeOf(xu.Type()), S) {
				vals = append(vals, x)
			}
		}
		if unsafe != nil {
			checkReuse(c, siteUnsafe, func() convert.Conversion { return convert.GetConversionUnsafe(Sty, T) }, vals, S, Tn, label)
		}
		if safe != nil {
			checkReuse(c, siteSafe, func() convert.Conversion { return convert.GetConversion(Sty, T) }, vals, S, Tn, label)
		}
	}
	// --- a conversion requested for a dynamic source accepts any value
	if r == nil || r.Chance(1, 3) {
		var dc convert.Conversion
		od := core.Guard(func() { dc = convert.GetConversionUnsafe(cty.DynamicPseudoType, T) })
		c.Eval(1)
		if od.Panicked {
			c.Violate(siteDynSrc, "panic: "+core.PanicClass(od.PanicMsg), cls, desc(), od.PanicMsg+"\n"+od.Stack)
		} else if dc != nil {
			var rs cty.Value
			var es error
			os := core.Guard(func() { rs, es = dc(v) })
			c.Eval(1)
			c.Count("clause:dynamic-source-conversion")
			if os.Panicked {
				c.Violate(siteDynSrc, "panic: "+core.PanicClass(os.PanicMsg), cls+" applied", desc(), os.PanicMsg+"\n"+os.Stack)
			} else {
				checkResult(c, siteDynSrc, v, S, Tn, rs, es, desc, cls, unsafe != nil || conformsAlready)
			}
		}
	}
	return out
}

func typeClass(S, T *m.TNode) string {
	s := S.K.String() + ">" + T.K.String()
	if m.HasOptional(T) {
		s += " opt"
	}
	if m.HasDynamic(T) {
		s += " dyn"
	}
	return s
}

func hasOwnCapsule(t *m.TNode) bool {
	switch t.K {
	case m.KCapsule:
		return t.Capsule == "capC" || t.Capsule == "capD"
	case m.KList, m.KSet, m.KMap:
		return hasOwnCapsule(t.Elem)
	case m.KTuple:
		for _, e := range t.Elems {
			if hasOwnCapsule(e) {
				return true
			}
		}
	case m.KObject:
		for _, a := range t.Attrs {
			if hasOwnCapsule(a) {
				return true
			}
		}
	}
	return false
}

// checkResult: clauses on one (result, error) pair of one conversion call.
func checkResult(c *core.Ctx, site string, v cty.Value, S, Tn *m.TNode, res cty.Value, err error, desc func() string, cls string, judgePlaceholders bool) {
	if err != nil {
		return
	}
	if res == cty.NilVal {
		c.Violate(site, fNilVal, cls, desc(), "returned cty.NilVal, nil")
		return
	}
	if w := mon.WellFormed(res); w != "" {
		c.CrossNote("C06", site+": "+w, desc())
	}
	if e := cty.VerifWellFormed(res); e != nil {
		c.CrossNote("C06", site+" (hook): "+e.Error(), desc())
	}
	ru, _ := res.Unmark()
	rt := m.TNodeOf(ru.Type())
	c.Count("clause:result-type")
	if m.HasOptional(rt) {
		c.Violate(site, fOptional, cls, desc(), fmt.Sprintf("result %#v of type %s", res, rt))
	}
	if !m.Conforms(rt, m.StripOptional(Tn)) {
		c.Violate(site, fConform, cls, desc(), fmt.Sprintf("result %#v of type %s", res, rt))
	} else if m.HasDynamic(Tn) && judgePlaceholders {
		c.Count("clause:placeholder-resolved")
		if w := dynDemand(S, Tn, rt, ""); w != "" {
			c.Violate(site, fPlaceholder, cls, desc(), fmt.Sprintf("result %#v of type %s; %s", res, rt, w))
		}
	}
	vu, _ := v.Unmark()
	switch {
	case !vu.IsKnown():
		c.Count("clause:unknown-stays-unknown")
		if ru.IsKnown() && lengthOnly(ru) {
			c.Count("unknown-result:collapsed-to-length-only-collection")
		} else if ru.IsKnown() {
			c.Violate(site, fUnkKnown, cls, desc(), fmt.Sprintf("result %#v", res))
		}
	case vu.IsNull():
		c.Count("clause:null-stays-null")
		if !ru.IsKnown() || !ru.IsNull() {
			c.Violate(site, fNullNotNull, cls, desc(), fmt.Sprintf("result %#v", res))
		}
	}
}

func admitClass(why string) string {
	switch {
	case strings.Contains(why, "does not conform"):
		return "type"
	case strings.Contains(why, "definitely-not-null"), strings.Contains(why, "nullness"), strings.Contains(why, "definitely null"):
		return "nullness"
	case strings.Contains(why, "outside abstract bounds"):
		return "bounds"
	case strings.Contains(why, "prefix"):
		return "prefix"
	case strings.Contains(why, "length"), strings.Contains(why, "members"), strings.Contains(why, "key count"):
		return "length"
	case strings.Contains(why, "does not subsume"):
		return "range"
	case strings.Contains(why, "known abstract"):
		return "known-part-differs"
	case strings.Contains(why, "is known"):
		return "known-vs-unknown"
	}
	return "other"
}

// checkRelational converts a value and an admitting weakening of it to the same
// target and demands that the weakened run's result admits the other's.
func checkRelational(c *core.Ctx, r *core.Rand, conc, abs cty.Value, Tn *m.TNode, label string) {
	oc := checkPair(c, r, conc, Tn, label)
	oa := checkPair(c, r, abs, Tn, label+"+weakened")
	au, _ := abs.Unmark()
	top := "nested"
	if !au.IsKnown() {
		top = "top"
	}
	desc := func() string {
		return fmt.Sprintf("Convert(%#v, %s) vs weakened Convert(%#v, same) [%s]", conc, Tn, abs, label)
	}
	switch {
	case au.IsWhollyKnown():
		// the refinements pinned the weakening down to a known value: two known
		// inputs, nothing is claimed about them here
		c.Count("relational:not-judged:weakening-collapsed-to-known")
	case hasNegZero(conc):
		c.Count("relational:not-judged:negative-zero")
	case oa.ok() && oc.ok():
		c.Count("clause:relational-admits:" + top)
		if why := mon.Admits(oa.val, oc.val); why != "" {
			cu, _ := conc.Unmark()
			c.Violate(siteConvert, fAdmit, admitClass(why)+" "+top+" "+pairClass(m.TNodeOf(cu.Type()), Tn, abs), desc(),
				fmt.Sprintf("concrete result %#v; weakened result %#v; %s", oc.val, oa.val, why))
		}
	case oa.ran && oc.ok():
		c.Count("relational:weakened-fails-concrete-succeeds:" + top)
		if c.Verbose {
			fmt.Printf("NOTE weakened fails: %s: %v\n", desc(), oa.err)
		}
	case oa.ok():
		c.Count("relational:concrete-fails-weakened-succeeds")
	default:
		c.Count("relational:both-fail")
	}
}

func (Driver) Run(c *core.Ctx) {
	n := int64(c.N(50000, 270000)) // x16 = 160 k cases (240 k pairs) quick, x64 = 5.8 M cases thorough
	for i := int64(0); i < n; i++ {
		if !c.Want(i) {
			continue
		}
		r := c.RNG(i)
		if r.Bool() {
			v := genSource(r, false)
			if r.Chance(1, 4) {
				v = gen.MarkSome(r, v, 30, 10)
			}
			vu, _ := v.Unmark()
			Tn, label := deriveTarget(r, m.TNodeOf(vu.Type()))
			c.Begin(i, func() string { return fmt.Sprintf("Convert(%#v, %s) [%s]", v, Tn, label) })
			c.Count("mode:single")
			o := checkPair(c, r, v, Tn, label)
			if c.WantSample() && o.ok() && o.offered {
				c.Sample(map[string]any{"value": fmt.Sprintf("%#v", v), "target": Tn.String(), "derivation": label, "result": fmt.Sprintf("%#v", o.val)})
			}
			continue
		}
		conc := genSource(r, true)
		var abs cty.Value
		switch r.Intn(10) {
		case 0:
			abs = cty.DynamicVal
		case 1, 2:
			abs, _ = gen.Weaken(r, conc, gen.WeakenOpts{Refined: true, TypedOnly: true, ForceTop: true})
		default:
			abs, _ = gen.Weaken(r, conc, gen.WeakenOpts{Pct: 10 + r.Intn(30), Refined: r.Chance(3, 4), TypedOnly: true, ForceOne: true, InflateSets: true})
		}
		cu, _ := conc.Unmark()
		Tn, label := deriveTarget(r, m.TNodeOf(cu.Type()))
		c.Begin(i, func() string {
			return fmt.Sprintf("Convert(%#v, %s) vs weakened Convert(%#v, same) [%s]", conc, Tn, abs, label)
		})
		c.Count("mode:relational")
		checkRelational(c, r, conc, abs, Tn, label)
	}
	runPairs(c, 1_000_000_000)
	runStructural(c, 4_000_000_000)
	if c.Batch == 0 {
		runCorpus(c, 2_000_000_000)
		runCatalogue(c, 3_000_000_000)
	}
}
