package c08

import (
	"fmt"
	"sort"

	"github.com/zclconf/go-cty/cty"

	m "verif/harness/model"
	"verif/harness/mon"
)

// buildType is TNode.Cty() extended with this driver's own capsule types.
func buildType(t *m.TNode) cty.Type {
	switch t.K {
	case m.KList:
		return cty.List(buildType(t.Elem))
	case m.KSet:
		return cty.Set(buildType(t.Elem))
	case m.KMap:
		return cty.Map(buildType(t.Elem))
	case m.KTuple:
		ts := make([]cty.Type, len(t.Elems))
		for i, e := range t.Elems {
			ts[i] = buildType(e)
		}
		return cty.Tuple(ts)
	case m.KObject:
		mm := make(map[string]cty.Type, len(t.Attrs))
		for k, a := range t.Attrs {
			mm[k] = buildType(a)
		}
		if len(t.Opt) > 0 {
			var opt []string
			for k := range t.Opt {
				opt = append(opt, k)
			}
			sort.Strings(opt)
			return cty.ObjectWithOptionalAttrs(mm, opt)
		}
		return cty.Object(mm)
	case m.KCapsule:
		switch t.Capsule {
		case "capC":
			return CapsuleC
		case "capD":
			return CapsuleD
		}
	}
	return t.Cty()
}

// lossless is the structural predicate "converting a value of type in to type
// res keeps all of its information", judged on the type the conversion really
// produced (res = type of the result), so that placeholders and unification do
// not have to be modelled. Written from docs/convert.md: number->string and
// bool->string are the safe primitive conversions; set->list keeps the members;
// structural->collection keeps members when the member conversions do; object
// conversion keeps information when no attribute is dropped. NOT lossless:
// anything->set from list/tuple (coalescing, order), string->number/bool,
// dropped attributes, map->object (keys may be skipped), capsules.
func lossless(in, res *m.TNode) bool {
	if m.HasDynamic(in) {
		return false // the value's own type is not fully decided
	}
	if m.TypeEq(in, res) {
		return true
	}
	switch {
	case in.K == m.KNumber && res.K == m.KString, in.K == m.KBool && res.K == m.KString:
		return true
	case in.K == m.KList && res.K == m.KList, in.K == m.KSet && res.K == m.KSet, in.K == m.KMap && res.K == m.KMap, in.K == m.KSet && res.K == m.KList:
		return lossless(in.Elem, res.Elem)
	case in.K == m.KTuple && res.K == m.KList:
		for _, e := range in.Elems {
			if !lossless(e, res.Elem) {
				return false
			}
		}
		return true
	case in.K == m.KObject && res.K == m.KMap:
		for _, a := range in.Attrs {
			if !lossless(a, res.Elem) {
				return false
			}
		}
		return true
	case in.K == m.KTuple && res.K == m.KTuple:
		if len(in.Elems) != len(res.Elems) {
			return false
		}
		for i := range in.Elems {
			if !lossless(in.Elems[i], res.Elems[i]) {
				return false
			}
		}
		return true
	case in.K == m.KObject && res.K == m.KObject:
		// every input attribute must survive; attributes only the result has are
		// the filled-in nulls of optional attributes (dropped again on the way back)
		for k, a := range in.Attrs {
			ra, ok := res.Attrs[k]
			if !ok || !lossless(a, ra) {
				return false
			}
		}
		return true
	}
	return false
}

// dynDemand checks "the result type is free of placeholders the input already
// resolved". in = type of the input value, out = requested type, res = type of
// the result (already known to conform to out). Positions are matched the way
// docs/convert.md pairs them: same-kind members pairwise, tuple members / object
// attributes against the one element type of a collection. Where the input has
// nothing at a position (empty tuple/object, absent optional attribute, map
// element standing for an optional attribute) nothing is demanded.
// Returns "" or the path of the offending placeholder.
func dynDemand(in, out, res *m.TNode, path string) string {
	if !m.HasDynamic(out) || !m.HasDynamic(res) {
		return ""
	}
	if in.K == m.KDynamic {
		return ""
	}
	if out.K == m.KDynamic {
		if !m.HasDynamic(in) {
			return fmt.Sprintf("%s: input type %s has no placeholder, result type %s has", path, in, res)
		}
		return ""
	}
	if out.K != res.K {
		return "" // conformance clause reports that
	}
	switch out.K {
	case m.KList, m.KSet:
		switch in.K {
		case m.KList, m.KSet:
			return dynDemand(in.Elem, out.Elem, res.Elem, path+"[]")
		case m.KTuple:
			if len(in.Elems) == 0 {
				return ""
			}
			// all members of the result share one type, so a position resolved
			// by any member is resolved in the result
			for _, e := range in.Elems {
				if m.HasDynamic(e) || !m.TypeEq(e, in.Elems[0]) {
					// one undecided member leaves the common element type undecided, and
					// members of different types resolve it only through unification,
					// whose choice is C09's subject
					return ""
				}
			}
			for i, e := range in.Elems {
				if w := dynDemand(e, out.Elem, res.Elem, fmt.Sprintf("%s[%d>]", path, i)); w != "" {
					return w
				}
			}
			return ""
		}
	case m.KMap:
		switch in.K {
		case m.KMap:
			return dynDemand(in.Elem, out.Elem, res.Elem, path+"[]")
		case m.KObject:
			if len(in.Attrs) == 0 {
				return ""
			}
			first := in.Attrs[in.AttrNames()[0]]
			for _, a := range in.Attrs {
				if m.HasDynamic(a) || !m.TypeEq(a, first) {
					return ""
				}
			}
			for _, k := range in.AttrNames() {
				if w := dynDemand(in.Attrs[k], out.Elem, res.Elem, path+"."+k+">"); w != "" {
					return w
				}
			}
			return ""
		}
	case m.KTuple:
		if in.K == m.KTuple && len(in.Elems) == len(out.Elems) && len(res.Elems) == len(out.Elems) {
			for i := range out.Elems {
				if w := dynDemand(in.Elems[i], out.Elems[i], res.Elems[i], fmt.Sprintf("%s[%d]", path, i)); w != "" {
					return w
				}
			}
		}
	case m.KObject:
		for _, k := range out.AttrNames() {
			ra, ok := res.Attrs[k]
			if !ok {
				continue
			}
			switch in.K {
			case m.KObject:
				if ia, ok := in.Attrs[k]; ok {
					if w := dynDemand(ia, out.Attrs[k], ra, path+"."+k); w != "" {
						return w
					}
				}
			case m.KMap:
				if !out.Opt[k] {
					if w := dynDemand(in.Elem, out.Attrs[k], ra, path+"."+k); w != "" {
						return w
					}
				}
			}
		}
	}
	return ""
}

// valueClass names the most specific feature of a value that conversions
// special-case.
func valueClass(v cty.Value) string {
	v, _ = v.Unmark()
	if !v.IsKnown() {
		return "unknown"
	}
	if v.IsNull() {
		return "null"
	}
	var setUnk, unk, null, empty bool
	var walk func(v cty.Value)
	walk = func(v cty.Value) {
		v, _ = v.Unmark()
		if !v.IsKnown() {
			unk = true
			return
		}
		if v.IsNull() {
			null = true
			return
		}
		ty := v.Type()
		if ty.IsSetType() && !v.IsWhollyKnown() {
			setUnk = true
		}
		if ty.IsCollectionType() || ty.IsTupleType() || ty.IsObjectType() {
			if v.LengthInt() == 0 {
				empty = true
			}
			for it := v.ElementIterator(); it.Next(); {
				_, e := it.Element()
				walk(e)
			}
		}
	}
	walk(v)
	switch {
	case setUnk:
		return "set-holding-unknown"
	case unk:
		return "unknown-member"
	case null:
		return "null-member"
	case empty:
		return "empty-part"
	}
	return "known"
}

func hasSetHoldingUnknown(v cty.Value) bool { return valueClass(v) == "set-holding-unknown" }

// pairClass is the input class used in violation signatures: kinds of source
// and target, the value class, and which special features the target carries.
func pairClass(S, T *m.TNode, v cty.Value) string {
	s := S.K.String() + ">" + T.K.String() + " " + valueClass(v)
	if m.HasOptional(T) {
		s += " opt"
	}
	if m.HasDynamic(T) {
		s += " dyn"
	}
	return s
}

// firstDiff describes the first position where two values differ under model
// equality (used for the class and detail of round-trip / identity failures).
func firstDiff(a, b cty.Value, path string) (string, string) {
	a, _ = a.Unmark()
	b, _ = b.Unmark()
	if lenientDiff && !b.IsKnown() {
		return "", ""
	}
	if !a.Type().Equals(b.Type()) {
		return path, "type"
	}
	if !a.IsKnown() || !b.IsKnown() {
		if mon.ModelEqual(a, b) {
			return "", ""
		}
		if a.IsKnown() != b.IsKnown() {
			return path, "known-vs-unknown"
		}
		return path, "unknown-range"
	}
	if a.IsNull() || b.IsNull() {
		if a.IsNull() == b.IsNull() {
			return "", ""
		}
		return path, "nullness"
	}
	ty := a.Type()
	switch {
	case ty.IsListType() || ty.IsTupleType():
		if a.LengthInt() != b.LengthInt() {
			return path, "length"
		}
		as, bs := a.AsValueSlice(), b.AsValueSlice()
		for i := range as {
			if p, k := firstDiff(as[i], bs[i], fmt.Sprintf("%s[%d]", path, i)); k != "" {
				return p, k
			}
		}
		return "", ""
	case ty.IsMapType() || ty.IsObjectType():
		am, bm := a.AsValueMap(), b.AsValueMap()
		if len(am) != len(bm) {
			return path, "length"
		}
		ks := make([]string, 0, len(am))
		for k := range am {
			ks = append(ks, k)
		}
		sort.Strings(ks)
		for _, k := range ks {
			bv, ok := bm[k]
			if !ok {
				return path, "keys"
			}
			if p, kd := firstDiff(am[k], bv, fmt.Sprintf("%s[%q]", path, k)); kd != "" {
				return p, kd
			}
		}
		return "", ""
	}
	if mon.ModelEqual(a, b) {
		return "", ""
	}
	if ty.IsSetType() {
		// pair up the members that have no equal on the other side
		as, bs := a.AsValueSlice(), b.AsValueSlice()
		var ua, ub []cty.Value
		for _, x := range as {
			if !hasEqual(bs, x) {
				ua = append(ua, x)
			}
		}
		for _, y := range bs {
			if !hasEqual(as, y) {
				ub = append(ub, y)
			}
		}
		if len(as) == len(bs) && len(ua) > 0 && len(ua) == len(ub) {
			if p, k := firstDiff(ua[0], ub[0], path+"{}"); k != "" {
				return p, k
			}
		}
		return path, "set-members"
	}
	switch {
	case ty == cty.Number:
		fa, fb := a.AsBigFloat(), b.AsBigFloat()
		if fa.IsInt() && fb.IsInt() {
			return path, fmt.Sprintf("whole-number(prec %d vs %d)", fa.Prec(), fb.Prec())
		}
		return path, "number"
	case ty == cty.String:
		return path, "string"
	case ty == cty.Bool:
		return path, "bool"
	case ty.IsCapsuleType():
		return path, "capsule"
	}
	return path, "other"
}

// lenientDiff makes firstDiff ignore positions where the second value is unknown
// (single-threaded use only: set around one call).
var lenientDiff bool

func firstDiffKnownParts(a, b cty.Value) (string, string) {
	lenientDiff = true
	defer func() { lenientDiff = false }()
	return firstDiff(a, b, "")
}

func hasEqual(vs []cty.Value, x cty.Value) bool {
	for _, y := range vs {
		if mon.ModelEqual(x, y) {
			return true
		}
	}
	return false
}

// lengthOnly reports whether v is a known value that carries no information
// beyond its length: what RefinementBuilder.NewValue returns instead of an
// unknown collection whose length is known exactly (documented collapse).
func lengthOnly(v cty.Value) bool {
	v, _ = v.Unmark()
	if !v.IsKnown() || v.IsNull() || !v.Type().IsCollectionType() {
		return false
	}
	n := v.LengthInt()
	switch {
	case v.Type().IsMapType():
		return n == 0
	case v.Type().IsSetType() && n > 1:
		return false
	}
	for it := v.ElementIterator(); it.Next(); {
		_, e := it.Element()
		if e.IsKnown() {
			return false
		}
	}
	return true
}

// sameOrAdmits is 'equal' for the identity / idempotence clauses: model
// equality, and for a reference value that is not wholly known also "got is an
// approximation of ref" (a second pass over an unknown may lose precision, never
// gain or change information).
func sameOrAdmits(got, ref cty.Value) (bool, string) {
	if mon.ModelEqual(got, ref) {
		return true, "equal"
	}
	ru, _ := ref.Unmark()
	if ru.IsWhollyKnown() {
		return false, ""
	}
	if why := mon.Admits(got, collapse(ref)); why != "" {
		return false, why
	}
	return true, "admits"
}

// hasUnknownOfUnitType: v holds an unknown value of a type that has exactly one
// non-null value (the empty object / tuple type). A conversion of such an unknown
// may legitimately come back known.
func hasUnknownOfUnitType(v cty.Value) bool {
	v, _ = v.Unmark()
	ty := v.Type()
	if !v.IsKnown() {
		return ty.Equals(cty.EmptyObject) || ty.Equals(cty.EmptyTuple)
	}
	if v.IsNull() {
		return false
	}
	if ty.IsCollectionType() || ty.IsTupleType() || ty.IsObjectType() {
		for it := v.ElementIterator(); it.Next(); {
			_, e := it.Element()
			if hasUnknownOfUnitType(e) {
				return true
			}
		}
	}
	return false
}

// collapse rewrites every unknown part of v whose refinements pin it down to a
// single shape into that shape: a definitely-not-null unknown of the empty
// object / tuple type becomes the one value of that type, a definitely-not-null
// unknown collection of exactly known length n becomes a collection of n unknown
// members (maps only for n == 0). RefinementBuilder.NewValue performs the same
// rewriting for lists, empty collections and one-element sets, so conversion
// results arrive in this form; the comparand is brought into it too before
// "approximates" is decided.
func collapse(v cty.Value) cty.Value {
	if v.IsMarked() {
		u, mk := v.Unmark()
		return collapse(u).WithMarks(mk)
	}
	ty := v.Type()
	if !v.IsKnown() {
		if ty == cty.DynamicPseudoType {
			return v
		}
		rng := v.Range()
		if !rng.DefinitelyNotNull() {
			return v
		}
		switch {
		case ty.Equals(cty.EmptyObject):
			return cty.EmptyObjectVal
		case ty.Equals(cty.EmptyTuple):
			return cty.EmptyTupleVal
		case ty.IsCollectionType():
			lo, hi := rng.LengthLowerBound(), rng.LengthUpperBound()
			if lo != hi || lo > 4096 {
				return v
			}
			es := make([]cty.Value, lo)
			for i := range es {
				es[i] = cty.UnknownVal(ty.ElementType())
			}
			switch {
			case lo == 0 && ty.IsListType():
				return cty.ListValEmpty(ty.ElementType())
			case lo == 0 && ty.IsSetType():
				return cty.SetValEmpty(ty.ElementType())
			case lo == 0 && ty.IsMapType():
				return cty.MapValEmpty(ty.ElementType())
			case ty.IsListType():
				return cty.ListVal(es)
			case ty.IsSetType():
				return cty.SetVal(es)
			}
		}
		return v
	}
	if v.IsNull() || !(ty.IsCollectionType() || ty.IsTupleType() || ty.IsObjectType()) || v.LengthInt() == 0 {
		return v
	}
	switch {
	case ty.IsListType(), ty.IsSetType(), ty.IsTupleType():
		es := v.AsValueSlice()
		for i := range es {
			es[i] = collapse(es[i])
		}
		switch {
		case ty.IsListType():
			return cty.ListVal(es)
		case ty.IsSetType():
			return cty.SetVal(es)
		}
		return cty.TupleVal(es)
	case ty.IsMapType(), ty.IsObjectType():
		mm := v.AsValueMap()
		for k, e := range mm {
			mm[k] = collapse(e)
		}
		if ty.IsMapType() {
			return cty.MapVal(mm)
		}
		return cty.ObjectVal(mm)
	}
	return v
}

// hasNegZero: v holds a negative zero somewhere. -0 and 0 are equal numbers
// with different texts, so a refinement that collapses to the known bound 0
// stands for a -0 it "admits"; the relational clause is not judged then.
func hasNegZero(v cty.Value) bool {
	v, _ = v.Unmark()
	if !v.IsKnown() || v.IsNull() {
		return false
	}
	ty := v.Type()
	if ty == cty.Number {
		f := v.AsBigFloat()
		return f.Sign() == 0 && f.Signbit()
	}
	if ty.IsCollectionType() || ty.IsTupleType() || ty.IsObjectType() {
		for it := v.ElementIterator(); it.Next(); {
			_, e := it.Element()
			if hasNegZero(e) {
				return true
			}
		}
	}
	return false
}
