package c08

import (
	"fmt"
	"math"
	"math/big"

	"github.com/zclconf/go-cty/cty"

	"verif/harness/core"
	"verif/harness/gen"
	m "verif/harness/model"
)

type corpusEntry struct {
	note string
	v    cty.Value
	T    *m.TNode
}

func nv(i int64) cty.Value           { return cty.NumberIntVal(i) }
func sv(x string) cty.Value          { return cty.StringVal(x) }
func lv(vs ...cty.Value) cty.Value   { return cty.ListVal(vs) }
func setv(vs ...cty.Value) cty.Value { return cty.SetVal(vs) }
func tv(vs ...cty.Value) cty.Value   { return cty.TupleVal(vs) }
func ov(kv ...any) cty.Value {
	mm := map[string]cty.Value{}
	for i := 0; i+1 < len(kv); i += 2 {
		mm[kv[i].(string)] = kv[i+1].(cty.Value)
	}
	return cty.ObjectVal(mm)
}
func mv(kv ...any) cty.Value {
	mm := map[string]cty.Value{}
	for i := 0; i+1 < len(kv); i += 2 {
		mm[kv[i].(string)] = kv[i+1].(cty.Value)
	}
	return cty.MapVal(mm)
}

var (
	tS, tN, tB, tD = m.TString, m.TNumber, m.TBool, m.TDynamic
)

// corpus: boundary cases written from reading cty/convert, the shapes the
// CHANGELOG records as past defects, and the witnesses of F-29, F-30, F-31
// (repaired in /repo) and F-32, so that a regression is reported again.
func corpus() []corpusEntry {
	mark := gen.Marks[0]
	unkS, unkN := cty.UnknownVal(cty.String), cty.UnknownVal(cty.Number)
	es := []corpusEntry{
		// --- F-29 (fixed by e224147): unknown-length shortcut used the source element type
		{"F-29 design witness", setv(lv(sv("1"), unkS), cty.ListValEmpty(cty.String)), m.ListOf(m.SetOf(tB))},
		{"F-29 set(map) holding unknown -> list(object)", setv(mv("a", unkS)), m.ListOf(obj("a", tS))},
		{"F-29 set(number) holding unknown -> list(string)", setv(nv(1), unkN), m.ListOf(tS)},
		{"F-29 nested in tuple", tv(setv(unkN)), m.ListOf(m.ListOf(tS))},
		{"F-29 empty list, nested placeholder", cty.ListValEmpty(cty.Map(cty.String)), m.ListOf(m.MapOf(tD))},
		{"F-29 empty set, nested placeholder", cty.SetValEmpty(cty.Map(cty.String)), m.SetOf(m.MapOf(tD))},
		{"F-29 empty map, nested placeholder", cty.MapValEmpty(cty.List(cty.String)), m.MapOf(m.ListOf(tD))},
		{"F-29 unknown list, nested placeholder", cty.UnknownVal(cty.List(cty.Map(cty.String))), m.ListOf(m.MapOf(tD))},
		{"F-29 set holding unknown -> list, nested placeholder", setv(mv("a", unkS)), m.ListOf(m.MapOf(tD))},
		// --- F-30 (fixed by e65a809): dynamicReplace with mismatching kinds
		{"F-30 design witness", cty.UnknownVal(cty.Map(cty.Set(cty.Bool))), obj("a?", obj("a", tS, "c", tS))},
		{"F-30 null map(set) -> object with optional object", cty.NullVal(cty.Map(cty.Set(cty.Bool))), obj("a?", obj("a", tS, "c", tS))},
		{"F-30 unknown map(tuple()) -> optional tuple attribute", cty.UnknownVal(cty.Map(cty.EmptyTuple)), obj("a?", m.TupleOf(tS))},
		{"F-30 null map(tuple()) -> optional tuple attribute", cty.NullVal(cty.Map(cty.EmptyTuple)), obj("a?", m.TupleOf(tS, tD))},
		{"F-30 unknown map(string) -> optional tuple attribute", cty.UnknownVal(cty.Map(cty.String)), obj("a?", m.TupleOf(tD))},
		{"F-30 unknown map(list) -> optional object with placeholder", cty.UnknownVal(cty.Map(cty.List(cty.String))), obj("a?", obj("b", tD))},
		{"F-30 nested in a list", lv(cty.UnknownVal(cty.Map(cty.Set(cty.Bool)))), m.ListOf(obj("a?", obj("a", tS)))},
		// --- F-31 (fixed by 2c0914e): map -> object, absent optional attribute whose type has optionals
		{"F-31 absent optional attribute with nested optionals", mv("x", sv("1")), obj("a?", obj("b?", tS))},
		{"F-31 with a present attribute", mv("x", sv("1")), obj("x", tS, "a?", m.ListOf(obj("b?", tS)))},
		{"F-31 in a list", lv(mv("x", sv("1"))), m.ListOf(obj("a?", obj("b?", tS, "c", tN)))},
		{"F-31 empty map", cty.MapValEmpty(cty.String), obj("a?", obj("b?", tS))},
		// --- F-32: whole float64 values above 2^53 through number -> string -> number
		{"F-32 1e300", cty.NumberFloatVal(1e300), tS},
		{"F-32 1e23", cty.NumberFloatVal(1e23), tS},
		{"F-32 -1e300", cty.NumberFloatVal(-1e300), tS},
		{"F-32 MaxFloat64", cty.NumberFloatVal(math.MaxFloat64), tS},
		{"F-32 2^53+2", cty.NumberFloatVal(9007199254740994), tS},
		{"F-32 in a list", lv(cty.NumberFloatVal(1e23), nv(1)), m.ListOf(tS)},
		{"F-32 in an object -> map", ov("a", cty.NumberFloatVal(1e300), "b", sv("x")), m.MapOf(tS)},
		{"F-32 set of two numbers with one shortest text", setv(cty.NumberFloatVal(1e23), cty.MustParseNumberVal("100000000000000000000000")), m.SetOf(tS)},
		{"number pool: MaxInt64", nv(math.MaxInt64), tS},
		{"number pool: MaxUint64", cty.NumberUIntVal(math.MaxUint64), tS},
		{"number pool: 2^600", cty.NumberVal(new(big.Float).SetMantExp(new(big.Float).SetPrec(512).SetInt64(1), 600)), tS},
		{"number pool: 0.1 float", cty.NumberFloatVal(0.1), tS},
		{"number pool: 0.1 parsed", cty.MustParseNumberVal("0.1"), tS},
		{"number pool: denormal", cty.NumberFloatVal(math.SmallestNonzeroFloat64), tS},
		{"number pool: -0", cty.NumberFloatVal(math.Copysign(0, -1)), tS},
		{"number pool: +Inf", cty.PositiveInfinity, tS},
		{"number pool: -Inf", cty.NegativeInfinity, tS},
		{"number pool: fresh +Inf", cty.NumberFloatVal(math.Inf(1)), tS},
		{"number -> bool", nv(1), tB},
		{"bool -> number", cty.True, tN},
		// --- strings
		{"string Inf -> number", sv("Inf"), tN},
		{"string NaN -> number", sv("NaN"), tN},
		{"string 1e400 -> number", sv("1e400"), tN},
		{"string hex -> number", sv("0x10"), tN},
		{"string TRUE -> bool", sv("TRUE"), tB},
		{"string 1 -> bool", sv("1"), tB},
		{"unknown string with prefix -> number", cty.UnknownVal(cty.String).Refine().StringPrefix("1").NotNull().NewValue(), tN},
		{"unknown number with bounds -> string", cty.UnknownVal(cty.Number).Refine().NumberRangeLowerBound(nv(1), true).NotNull().NewValue(), tS},
		// --- CHANGELOG 1.14.2 / 1.12.x / 1.11.x / 1.8.x shapes: optional attributes with null, unknown, empty
		{"empty map -> map(object with optional)", cty.MapValEmpty(cty.Object(map[string]cty.Type{"a": cty.String})), m.MapOf(obj("a", tS, "b?", tS))},
		{"empty object -> map(object with optional)", cty.EmptyObjectVal, m.MapOf(obj("a", tS, "b?", tS))},
		{"empty tuple -> list(object with optional)", cty.EmptyTupleVal, m.ListOf(obj("a", tS, "b?", tS))},
		{"empty tuple -> set(object with optional)", cty.EmptyTupleVal, m.SetOf(obj("a", tS, "b?", tS))},
		{"empty list -> list(object with optional)", cty.ListValEmpty(cty.Object(map[string]cty.Type{"a": cty.String})), m.ListOf(obj("a", tS, "b?", tS))},
		{"empty set -> set(object with nested optional)", cty.SetValEmpty(cty.Object(map[string]cty.Type{"a": cty.EmptyObject})), m.SetOf(obj("a", obj("b?", tS)))},
		{"empty list -> set(list(object optional))", cty.ListValEmpty(cty.List(cty.EmptyObject)), m.SetOf(m.ListOf(obj("b?", tS)))},
		{"unknown map -> object, element disagrees with optional attribute", cty.UnknownVal(cty.Map(cty.String)), obj("a?", m.ListOf(tS))},
		{"known map -> object, element disagrees with absent optional attribute", mv("b", sv("x")), obj("a?", m.ListOf(tS), "b", tS)},
		{"known map -> object, element disagrees with present optional attribute", mv("a", sv("x")), obj("a?", m.ListOf(tS))},
		{"map with null element -> object", mv("a", cty.NullVal(cty.String)), obj("a", tN, "b?", tS)},
		{"null object -> object with optional", cty.NullVal(cty.Object(map[string]cty.Type{"a": cty.String})), obj("a", tS, "b?", obj("c?", tN))},
		{"null attribute -> nested optional", ov("a", cty.NullVal(cty.EmptyObject)), obj("a", obj("b?", tS))},
		{"null member of list -> object optional", lv(cty.NullVal(cty.EmptyObject)), m.ListOf(obj("b?", tS))},
		{"null member of tuple -> list(object optional)", tv(cty.NullVal(cty.EmptyObject), cty.EmptyObjectVal), m.ListOf(obj("b?", tS))},
		{"null member of tuple -> set(object optional)", tv(cty.NullVal(cty.EmptyObject)), m.SetOf(obj("b?", tS))},
		{"null member of tuple -> tuple(object optional)", tv(cty.NullVal(cty.EmptyObject)), m.TupleOf(obj("b?", tS))},
		{"null member of map -> map(object optional)", mv("k", cty.NullVal(cty.EmptyObject)), m.MapOf(obj("b?", tS))},
		{"null attribute -> map(object optional)", ov("k", cty.NullVal(cty.EmptyObject)), m.MapOf(obj("b?", tS))},
		{"unknown object -> object with optional placeholder", cty.UnknownVal(cty.Object(map[string]cty.Type{"a": cty.String})), obj("a", tD, "b?", tD)},
		{"null -> dynamic keeps the type", cty.NullVal(cty.String), tD},
		{"unknown list -> list(dynamic) keeps the type", cty.UnknownVal(cty.List(cty.String)), m.ListOf(tD)},
		{"null dynamic -> string", cty.NullVal(cty.DynamicPseudoType), tS},
		{"DynamicVal -> object with optional", cty.DynamicVal, obj("a?", obj("b?", tS))},
		{"DynamicVal -> list(dynamic)", cty.DynamicVal, m.ListOf(tD)},
		{"null dynamic -> object with optional", cty.NullVal(cty.DynamicPseudoType), obj("a?", obj("b?", tS))},
		// --- CHANGELOG 1.0.x..1.8.x: unification inside structural -> collection
		{"tuple with dynamic null member -> list(string)", tv(cty.NullVal(cty.DynamicPseudoType), sv("a")), m.ListOf(tS)},
		{"tuple with dynamic null member -> set(dynamic)", tv(cty.NullVal(cty.DynamicPseudoType), sv("a")), m.SetOf(tD)},
		{"tuple with dynamic null member -> list(dynamic)", tv(cty.NullVal(cty.DynamicPseudoType), sv("a"), nv(1)), m.ListOf(tD)},
		{"tuple of only dynamic nulls -> list(dynamic)", tv(cty.NullVal(cty.DynamicPseudoType), cty.NullVal(cty.DynamicPseudoType)), m.ListOf(tD)},
		{"tuple with DynamicVal -> list(dynamic)", tv(cty.DynamicVal, sv("a")), m.ListOf(tD)},
		{"tuple of DynamicVal -> set(dynamic)", tv(cty.DynamicVal, cty.DynamicVal), m.SetOf(tD)},
		{"tuple of objects -> list(object with placeholder)", tv(ov("a", nv(1)), ov("a", sv("x"))), m.ListOf(obj("a", tD))},
		{"tuple of objects -> list(map(dynamic))", tv(ov("a", nv(1)), ov("b", sv("x"))), m.ListOf(m.MapOf(tD))},
		{"tuple without common type -> list(dynamic)", tv(sv("a"), lv(sv("b"))), m.ListOf(tD)},
		{"tuple without common type -> set(dynamic)", tv(sv("a"), ov("a", sv("b"))), m.SetOf(tD)},
		{"object without common type -> map(dynamic)", ov("a", sv("a"), "b", lv(sv("b"))), m.MapOf(tD)},
		{"object of maps -> map(map(string))", ov("a", mv("x", nv(1)), "b", mv("y", sv("s"))), m.MapOf(m.MapOf(tS))},
		{"object of objects -> map(map(dynamic))", ov("a", ov("x", nv(1)), "b", ov("y", sv("s"))), m.MapOf(m.MapOf(tD))},
		{"object of tuple and list -> map(list(dynamic))", ov("a", tv(nv(1)), "b", lv(sv("s"))), m.MapOf(m.ListOf(tD))},
		{"map of lists -> map(set(dynamic))", mv("a", lv(sv("x"), sv("x"))), m.MapOf(m.SetOf(tD))},
		{"tuple of tuples -> list(list(dynamic))", tv(tv(nv(1)), tv(sv("a"))), m.ListOf(m.ListOf(tD))},
		{"tuple of list and tuple -> list(dynamic)", tv(lv(nv(1)), tv(sv("a"))), m.ListOf(tD)},
		{"tuple of empty and non-empty tuples -> list(dynamic)", tv(cty.EmptyTupleVal, tv(sv("a"))), m.ListOf(tD)},
		{"object with null and list -> map(dynamic)", ov("a", cty.NullVal(cty.DynamicPseudoType), "b", lv(sv("x"))), m.MapOf(tD)},
		{"F-108b unknown tuple(tuple(string), set(bool)) -> list(set(dynamic))", cty.UnknownVal(cty.Tuple([]cty.Type{cty.Tuple([]cty.Type{cty.String, cty.String}), cty.Set(cty.Bool)})), m.ListOf(m.SetOf(tD))},
		{"F-108b known tuple(tuple(string), set(bool)) -> list(set(dynamic))", tv(tv(sv("x"), sv("a")), setv(cty.False, cty.True)), m.ListOf(m.SetOf(tD))},
		// --- F-108a: map -> object, optional attribute with a placeholder (absent key gives a null of the placeholder type)
		{"F-108a known map, absent optional placeholder attribute", mv("b", cty.True), obj("a?", tD, "b?", tD, "c?", tS)},
		{"F-108a unknown map", cty.UnknownVal(cty.Map(cty.Bool)), obj("a?", tD, "b?", tD, "c?", tS)},
		{"F-108a unknown list of maps", cty.UnknownVal(cty.List(cty.Map(cty.Bool))), m.ListOf(obj("a?", tD))},
		{"F-108a empty list of maps", cty.ListValEmpty(cty.Map(cty.Bool)), m.ListOf(obj("a?", tD))},
		// --- F-108c: offered as safe but not as unsafe (unification in unsafe mode fails where safe mode succeeds)
		{"F-108c tuple(list(bool), tuple(number), tuple(dynamic)) -> list(dynamic)", cty.NullVal(cty.Tuple([]cty.Type{cty.List(cty.Bool), cty.Tuple([]cty.Type{cty.Number}), cty.Tuple([]cty.Type{cty.DynamicPseudoType})})), m.ListOf(tD)},
		{"F-108c known value", tv(lv(cty.True), tv(nv(1)), tv(cty.DynamicVal)), m.ListOf(tD)},
		{"F-108c -> set(dynamic)", tv(lv(cty.True), tv(nv(1)), tv(cty.DynamicVal)), m.SetOf(tD)},
		{"F-108c object -> map(dynamic)", ov("a", lv(cty.True), "b", tv(nv(1)), "c", tv(cty.DynamicVal)), m.MapOf(tD)},
		{"F-108c seed-7 witness", cty.NullVal(cty.Tuple([]cty.Type{cty.Tuple([]cty.Type{cty.Number}), cty.Tuple([]cty.Type{cty.DynamicPseudoType, cty.DynamicPseudoType}), cty.List(cty.Bool)})), m.ListOf(tD)},
		// --- members of one collection share a type, not their keys: each member converts as it does alone
		{"list of maps with different keys -> list(object, optional + required)", lv(mv("a", sv("x"), "b", sv("y")), mv("a", sv("z")), mv("a", sv("w"), "c", sv("v"))), m.ListOf(obj("a", tS, "b?", tS, "c?", tS))},
		{"set of maps with different keys -> set(object)", setv(mv("a", sv("x"), "b", sv("y")), mv("a", sv("z"))), m.SetOf(obj("a", tS, "b?", tS))},
		{"map of maps with different keys -> map(object)", mv("p", mv("a", sv("1"), "b", sv("2")), "q", mv("a", sv("3"))), m.MapOf(obj("a", tN, "b?", tN))},
		{"tuple of maps with different keys -> list(object)", tv(mv("a", sv("x"), "b", sv("y")), mv("a", sv("z"))), m.ListOf(obj("a", tS, "b?", tS))},
		{"object of maps with different keys -> map(object)", ov("p", mv("a", sv("x"), "b", sv("y")), "q", mv("a", sv("z"))), m.MapOf(obj("a", tS, "b?", tS))},
		{"list of maps, later one lacks a required attribute", lv(mv("a", sv("x"), "b", sv("y")), mv("a", sv("z"))), m.ListOf(obj("a", tS, "b", tS))},
		{"list of maps -> set(object)", lv(mv("b", cty.True), mv("a", cty.False)), m.SetOf(obj("a?", tB, "b?", tB))},
		{"list of objects with nulls -> list(object with optional)", lv(ov("a", sv("x"), "b", cty.NullVal(cty.String)), ov("a", cty.NullVal(cty.String), "b", sv("y"))), m.ListOf(obj("a", tS, "b", tS, "c?", tN))},
		{"list of lists of maps -> list(list(object))", lv(lv(mv("a", sv("x"), "b", sv("y"))), lv(mv("a", sv("z")))), m.ListOf(m.ListOf(obj("a", tS, "b?", tS)))},
		{"list -> tuple (docs chart: unsafe)", lv(sv("a")), m.TupleOf(tS)},
		{"set -> tuple (docs chart: unsafe)", setv(sv("a")), m.TupleOf(tS)},
		// --- sets
		{"set holding unknown -> set(string)", setv(nv(1), unkN), m.SetOf(tS)},
		{"list with duplicates -> set", lv(sv("a"), sv("a")), m.SetOf(tS)},
		{"list that coalesces after conversion -> set(number)", lv(sv("1"), sv("1.0"), sv("01")), m.SetOf(tN)},
		{"unknown list with lower bound 2 -> set", cty.UnknownVal(cty.List(cty.String)).Refine().CollectionLengthLowerBound(2).NewValue(), m.SetOf(tS)},
		{"unknown set with bounds -> list", cty.UnknownVal(cty.Set(cty.String)).Refine().CollectionLengthLowerBound(2).CollectionLengthUpperBound(3).NewValue(), m.ListOf(tS)},
		{"unknown tuple -> set", cty.UnknownVal(cty.Tuple([]cty.Type{cty.String, cty.String})), m.SetOf(tS)},
		{"unknown tuple -> list", cty.UnknownVal(cty.Tuple([]cty.Type{cty.String, cty.Number})).RefineNotNull(), m.ListOf(tS)},
		{"unknown object -> map", cty.UnknownVal(cty.Object(map[string]cty.Type{"a": cty.String, "b": cty.Number})), m.MapOf(tD)},
		{"unknown empty tuple -> set", cty.UnknownVal(cty.EmptyTuple), m.SetOf(tS)},
		// --- marks
		{"marked top", sv("1").Mark(mark), tN},
		{"marked member of list -> set", lv(sv("a").Mark(mark), sv("b")), m.SetOf(tS)},
		{"marked member of tuple -> set", tv(sv("a").Mark(mark), nv(1)), m.SetOf(tS)},
		{"marked member of object -> map", ov("a", sv("a").Mark(mark), "b", nv(1)), m.MapOf(tS)},
		{"marked map element -> object", mv("a", sv("1").Mark(mark)), obj("a", tN, "b?", tS)},
		{"marked unknown -> list", cty.UnknownVal(cty.Set(cty.String)).Mark(mark), m.ListOf(tS)},
		{"marked null -> object optional", cty.NullVal(cty.EmptyObject).Mark(mark), obj("a?", obj("b?", tS))},
		{"marked DynamicVal in tuple -> list", tv(cty.DynamicVal.Mark(mark), sv("a")), m.ListOf(tS)},
		// --- capsules
		{"capC -> string", newCapC(7), tS},
		{"capC -> number", newCapC(7), tN},
		{"capC -> bool (no callback)", newCapC(7), tB},
		{"capC -> capC", newCapC(7), capCNode},
		{"capC -> capD (ConversionTo of the target)", newCapC(7), capDNode},
		{"capD -> capC (ConversionFrom of the source)", newCapD(7), capCNode},
		{"capA -> capC (neither side)", m.NewCapA(1), capCNode},
		{"string -> capC", sv("12"), capCNode},
		{"string -> capC failing", sv("x"), capCNode},
		{"number -> capC", nv(3), capCNode},
		{"null string -> capC", cty.NullVal(cty.String), capCNode},
		{"unknown string -> capC", cty.UnknownVal(cty.String), capCNode},
		{"marked string -> capC", sv("12").Mark(mark), capCNode},
		{"null capC -> string", cty.NullVal(CapsuleC), tS},
		{"unknown capC -> string", cty.UnknownVal(CapsuleC), tS},
		{"list(capC) -> list(string)", lv(newCapC(1), newCapC(2)), m.ListOf(tS)},
		{"list(capC) -> set(string)", lv(newCapC(1), newCapC(1)), m.SetOf(tS)},
		{"tuple(capC, string) -> list(string)", tv(newCapC(1), sv("x")), m.ListOf(tS)},
		{"tuple(capC, string) -> list(dynamic)", tv(newCapC(1), sv("x")), m.ListOf(tD)},
		{"object with capC -> map(string)", ov("a", newCapC(1), "b", nv(2)), m.MapOf(tS)},
		{"list(string) -> list(capC)", lv(sv("1"), sv("2")), m.ListOf(capCNode)},
		{"capC -> dynamic", newCapC(1), tD},
		{"DynamicVal -> capC", cty.DynamicVal, capCNode},
	}
	return es
}

func runCorpus(c *core.Ctx, base int64) {
	for i, e := range corpus() {
		idx := base + int64(i)
		if !c.Want(idx) {
			continue
		}
		e := e
		c.Begin(idx, func() string { return fmt.Sprintf("corpus %q: Convert(%#v, %s)", e.note, e.v, e.T) })
		c.Count("mode:corpus")
		checkPair(c, nil, e.v, e.T, "corpus: "+e.note)
	}
}

// catalogue: (known value, target) pairs; every single-position weakening of the
// value (typed unknowns of the whole refinement menu) is converted next to it.
func catalogue() []corpusEntry {
	return []corpusEntry{
		{"list with duplicates -> set", lv(sv("a"), sv("a")), m.SetOf(tS)},
		{"list of numbers with duplicates -> set(string)", lv(nv(1), nv(2), nv(2)), m.SetOf(tS)},
		{"list -> list(number)", lv(sv("1"), sv("2")), m.ListOf(tN)},
		{"tuple -> list(string)", tv(sv("a"), nv(1)), m.ListOf(tS)},
		{"tuple -> list(dynamic)", tv(sv("a"), nv(1)), m.ListOf(tD)},
		{"tuple -> set(string)", tv(sv("a"), sv("a"), nv(1)), m.SetOf(tS)},
		{"tuple -> tuple", tv(sv("1"), nv(1)), m.TupleOf(tN, tD)},
		{"object -> map(string)", ov("a", sv("x"), "b", nv(1)), m.MapOf(tS)},
		{"object -> map(dynamic)", ov("a", sv("x"), "b", nv(1)), m.MapOf(tD)},
		{"object -> smaller object", ov("a", sv("x"), "b", nv(1)), obj("a", tS)},
		{"object -> object with optional", ov("a", sv("x"), "b", nv(1)), obj("a", tS, "b", tS, "c?", obj("d?", tB))},
		{"map -> object", mv("a", sv("1"), "b", sv("2")), obj("a", tN, "b?", tN, "c?", tS)},
		{"map -> object with optional placeholder attributes (F-108a)", mv("b", cty.True), obj("a?", tD, "b?", tD, "c?", tS)},
		{"tuple holding a map -> tuple(object with optional placeholder) (F-108a)", tv(sv("x"), cty.MapValEmpty(cty.Bool)), m.TupleOf(tD, obj("c?", tD))},
		{"list of maps -> list(object with optional placeholder) (F-108a)", lv(mv("b", cty.True)), m.ListOf(obj("a?", tD, "b", tB))},
		{"map -> map(number)", mv("a", sv("1"), "b", sv("2")), m.MapOf(tN)},
		{"set -> list(number)", setv(sv("1"), sv("2")), m.ListOf(tN)},
		{"set -> set(number)", setv(sv("1"), sv("2")), m.SetOf(tN)},
		{"set -> list", setv(nv(1), nv(2), nv(3)), m.ListOf(tN)},
		{"list of lists -> list(set)", lv(lv(sv("a"), sv("a")), cty.ListValEmpty(cty.String)), m.ListOf(m.SetOf(tS))},
		{"list of lists -> set(list)", lv(lv(sv("a")), lv(sv("a"))), m.SetOf(m.ListOf(tS))},
		{"nested object -> map(list(string))", ov("a", lv(nv(1), nv(2)), "b", tv(sv("x"))), m.MapOf(m.ListOf(tS))},
		{"nested object -> object", ov("a", lv(nv(1), nv(1)), "b", tv(sv("x"))), obj("a", m.SetOf(tN), "b", m.ListOf(tS))},
		{"number -> string", nv(5), tS},
		{"string -> number", sv("5"), tN},
		{"string -> bool", sv("true"), tB},
		{"bool -> string", cty.True, tS},
		{"list of objects -> list(object optional)", lv(ov("a", sv("x")), ov("a", sv("y"))), m.ListOf(obj("a", tS, "b?", tN))},
		{"map of lists -> map(set)", mv("a", lv(sv("x"), sv("y"), sv("x"))), m.MapOf(m.SetOf(tS))},
		{"tuple of tuples -> list(list(dynamic))", tv(tv(nv(1)), tv(sv("a"))), m.ListOf(m.ListOf(tD))},
		{"object of objects -> map(map(dynamic))", ov("a", ov("x", nv(1)), "b", ov("x", sv("s"))), m.MapOf(m.MapOf(tD))},
		// F-108b: members are converted first and unified afterwards; the type predicted for an unknown input must follow
		{"tuple(tuple(string), set(bool)) -> list(set(dynamic))", tv(tv(sv("x"), sv("a")), setv(cty.False, cty.True)), m.ListOf(m.SetOf(tD))},
		{"object(tuple(string), set(bool)) -> map(set(dynamic))", ov("a", tv(sv("x")), "b", setv(cty.True)), m.MapOf(m.SetOf(tD))},
		{"tuple(tuple(number), list(bool)) -> list(list(dynamic))", tv(tv(nv(1)), lv(cty.True)), m.ListOf(m.ListOf(tD))},
		{"tuple(object, map(bool)) -> list(map(dynamic))", tv(ov("a", sv("x")), mv("a", cty.True)), m.ListOf(m.MapOf(tD))},
		{"value -> dynamic", ov("a", lv(sv("x")), "b", nv(1)), tD},
		{"object -> object with placeholder attribute", ov("a", lv(sv("x")), "b", nv(1)), obj("a", tD, "b", tS)},
	}
}

func runCatalogue(c *core.Ctx, base int64) {
	var idx int64
	for _, e := range catalogue() {
		ws := gen.SinglePositionWeakenings(e.v, false)
		for _, w := range ws {
			idx++
			if !c.Want(base + idx) {
				continue
			}
			e, w := e, w
			label := "catalogue: " + e.note + " @" + w.Path
			c.Begin(base+idx, func() string {
				return fmt.Sprintf("Convert(%#v, %s) vs weakened Convert(%#v, same) [%s]", e.v, e.T, w.V, label)
			})
			c.Count("mode:catalogue")
			checkRelational(c, nil, e.v, w.V, e.T, label)
		}
	}
	c.Exhaustive(fmt.Sprintf("every single-position weakening (whole refinement menu, typed) of the %d catalogue values, converted next to the known value", len(catalogue())))
	c.BulkDistinct(idx)
}
