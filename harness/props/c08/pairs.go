package c08

import (
	"fmt"

	"github.com/zclconf/go-cty/cty"
	"github.com/zclconf/go-cty/cty/convert"

	"verif/harness/core"
	"verif/harness/gen"
	m "verif/harness/model"
)

func obj(kv ...any) *m.TNode {
	t := &m.TNode{K: m.KObject, Attrs: map[string]*m.TNode{}}
	for i := 0; i+1 < len(kv); i += 2 {
		k := kv[i].(string)
		if len(k) > 1 && k[len(k)-1] == '?' {
			k = k[:len(k)-1]
			setOpt(t, k)
		}
		t.Attrs[k] = kv[i+1].(*m.TNode)
	}
	return t
}

// poolTypes: the fixed type pool whose ordered pairs are enumerated completely.
// Types carrying optional annotations are used as targets only.
func poolTypes() []*m.TNode {
	S, N, B, D := m.TString, m.TNumber, m.TBool, m.TDynamic
	return []*m.TNode{
		S, N, B, D, capANode, capCNode, capDNode,
		m.ListOf(S), m.ListOf(N), m.ListOf(B), m.ListOf(D),
		m.SetOf(S), m.SetOf(N), m.SetOf(D),
		m.MapOf(S), m.MapOf(N), m.MapOf(B), m.MapOf(D),
		m.TupleOf(), m.TupleOf(S), m.TupleOf(N, S), m.TupleOf(D), m.TupleOf(S, B, N),
		obj(), obj("a", S), obj("a", N, "b", S), obj("a", D), obj("a", S, "b", B, "c", N),
		obj("a", S, "b?", N), obj("a?", S), obj("a?", D), obj("a?", obj("b?", S)), obj("a", N, "c?", m.ListOf(obj("b?", B))),
		m.ListOf(m.ListOf(S)), m.ListOf(obj("a", S)), m.ListOf(obj("a", S, "b?", N)), m.MapOf(m.ListOf(N)), m.SetOf(m.TupleOf(S)),
		m.ListOf(m.MapOf(D)), m.MapOf(obj("a?", S)), obj("a", m.ListOf(S)), m.TupleOf(m.ListOf(N), m.ListOf(S)), m.TupleOf(m.TupleOf(N), m.TupleOf(S)),
		m.SetOf(m.SetOf(B)), m.MapOf(m.MapOf(S)), m.ListOf(capCNode), obj("a", obj("a", N), "b", obj("a", S)),
	}
}

// exact builds a known value whose type is exactly t; placeholders get dyn.
func exact(t *m.TNode, dyn cty.Value, salt int) cty.Value {
	switch t.K {
	case m.KBool:
		return cty.BoolVal(salt%2 == 0)
	case m.KNumber:
		return cty.NumberIntVal(int64(salt))
	case m.KString:
		return cty.StringVal([]string{"1", "a", "true"}[salt%3])
	case m.KDynamic:
		return dyn
	case m.KCapsule:
		switch t.Capsule {
		case "capC":
			return newCapC(salt)
		case "capD":
			return newCapD(salt)
		case "capB":
			return m.NewCapB(salt)
		}
		return m.NewCapA(salt)
	case m.KList:
		return cty.ListVal([]cty.Value{exact(t.Elem, dyn, salt), exact(t.Elem, dyn, salt+1)})
	case m.KSet:
		return cty.SetVal([]cty.Value{exact(t.Elem, dyn, salt), exact(t.Elem, dyn, salt+1)})
	case m.KMap:
		return cty.MapVal(map[string]cty.Value{"a": exact(t.Elem, dyn, salt), "k": exact(t.Elem, dyn, salt+1)})
	case m.KTuple:
		es := make([]cty.Value, len(t.Elems))
		for i, e := range t.Elems {
			es[i] = exact(e, dyn, salt+i)
		}
		return cty.TupleVal(es)
	case m.KObject:
		mm := map[string]cty.Value{}
		for i, k := range t.AttrNames() {
			mm[k] = exact(t.Attrs[k], dyn, salt+i)
		}
		return cty.ObjectVal(mm)
	}
	panic("exact: bad kind")
}

func emptyOf(ty cty.Type) (cty.Value, bool) {
	switch {
	case ty.IsListType():
		return cty.ListValEmpty(ty.ElementType()), true
	case ty.IsSetType():
		return cty.SetValEmpty(ty.ElementType()), true
	case ty.IsMapType():
		return cty.MapValEmpty(ty.ElementType()), true
	}
	return cty.NilVal, false
}

// fixedValues: seed-independent values of source type S.
func fixedValues(S *m.TNode) []cty.Value {
	ty := buildType(S)
	var vs []cty.Value
	vs = append(vs, cty.NullVal(ty), cty.UnknownVal(ty))
	if S.K != m.KDynamic {
		vs = append(vs, cty.UnknownVal(ty).RefineNotNull())
	}
	if e, ok := emptyOf(ty); ok {
		vs = append(vs, e)
		vs = append(vs, cty.UnknownVal(ty).Refine().CollectionLengthLowerBound(2).CollectionLengthUpperBound(3).NewValue())
	}
	if S.K == m.KDynamic {
		return vs
	}
	if m.HasDynamic(S) || hasOwnCapsule(S) {
		vs = append(vs, exact(S, cty.DynamicVal, 1))
		if m.HasDynamic(S) {
			vs = append(vs, exact(S, cty.NullVal(cty.DynamicPseudoType), 1))
		}
		return vs
	}
	r := core.NewRand(core.HashString("c08-pool:" + S.String()))
	vs = append(vs, exact(S, cty.DynamicVal, 1))
	vs = append(vs, retouch(r, gen.Value(r, ty, gen.ValueOpts{MaxLen: 3, NoTopNull: true, NoTopUnk: true}), 70))
	vs = append(vs, gen.Value(r, ty, gen.ValueOpts{MaxLen: 3, NullPct: 40, NoTopNull: true, NoTopUnk: true}))
	vs = append(vs, gen.Value(r, ty, gen.ValueOpts{MaxLen: 3, UnknownPct: 40, Refined: true, NoTopNull: true, NoTopUnk: true}))
	return vs
}

// runPairs enumerates every ordered pair (source, target) of the pool with the
// fixed values of the source; split between batches.
func runPairs(c *core.Ctx, base int64) {
	pool := poolTypes()
	var idx int64
	for _, S := range pool {
		if m.HasOptional(S) {
			continue
		}
		vals := fixedValues(S)
		for ti, T := range pool {
			// one conversion function applied to all fixed values of the source type in sequence
			ridx := int64(500_000_000) + idx + int64(ti)
			if c.Mine(ridx) && c.Want(base+ridx) {
				S, T := S, T
				Sty, Tty := buildType(S), buildType(T)
				c.Begin(base+ridx, func() string { return fmt.Sprintf("reuse of the conversion %s -> %s on its fixed values", S, T) })
				c.Count("mode:pool-pair-reuse")
				checkReuse(c, siteUnsafe, func() convert.Conversion { return convert.GetConversionUnsafe(Sty, Tty) }, sameTyped(vals, Sty), S, T, "pool-pair")
				checkReuse(c, siteSafe, func() convert.Conversion { return convert.GetConversion(Sty, Tty) }, sameTyped(vals, Sty), S, T, "pool-pair")
			}
			for _, v := range vals {
				idx++
				if !c.Mine(idx) || !c.Want(base+idx) {
					continue
				}
				v, T := v, T
				label := "pool-pair"
				c.Begin(base+idx, func() string { return fmt.Sprintf("Convert(%#v, %s) [%s]", v, T, label) })
				c.Count("mode:pool-pair")
				checkPair(c, nil, v, T, label)
			}
		}
	}
	if c.Batch == 0 {
		c.Exhaustive(fmt.Sprintf("every ordered (source, target) pair of the %d-type pool (sources: the %d without optional annotations) x the fixed values of the source type", len(pool), countSources(pool)))
	}
}

func countSources(pool []*m.TNode) int {
	n := 0
	for _, S := range pool {
		if !m.HasOptional(S) {
			n++
		}
	}
	return n
}

// memberPool: member types for the structural -> collection enumeration.
func memberPool() []*m.TNode {
	S, N, B, D := m.TString, m.TNumber, m.TBool, m.TDynamic
	return []*m.TNode{S, N, B, D, m.ListOf(B), m.ListOf(S), m.ListOf(D), m.SetOf(N), m.SetOf(B), m.MapOf(B), m.MapOf(D),
		m.TupleOf(N), m.TupleOf(D), m.TupleOf(D, D), m.TupleOf(S, B), m.TupleOf(S, S), m.TupleOf(), obj("a", N), obj("a", D), obj(), obj("a", m.ListOf(D))}
}

// runStructural enumerates every tuple / object type with 2 or 3 members drawn
// from memberPool against collection targets with a placeholder element type:
// the lookups (safe implies unsafe, no panic) for every pair, and for every
// offered pair a known value next to the unknown value of the same type
// (the type predicted for the unknown must admit what the known one converts to).
func runStructural(c *core.Ctx, base int64) {
	pool := memberPool()
	D := m.TDynamic
	var idx int64
	for _, a := range pool {
		for _, b := range pool {
			for ci := -1; ci < len(pool); ci++ {
				ms := []*m.TNode{a, b}
				if ci >= 0 {
					ms = append(ms, pool[ci])
				}
				S1 := m.TupleOf(ms...)
				S2 := &m.TNode{K: m.KObject, Attrs: map[string]*m.TNode{}}
				for i, e := range ms {
					S2.Attrs[string(rune('a'+i))] = e
				}
				for _, pr := range [][2]*m.TNode{{S1, m.ListOf(D)}, {S1, m.SetOf(D)}, {S2, m.MapOf(D)}, {S1, m.ListOf(m.ListOf(D))}, {S1, m.ListOf(m.SetOf(D))}, {S2, m.MapOf(m.MapOf(D))}, {S2, m.MapOf(m.ListOf(D))}} {
					idx++
					if !c.Mine(idx) || !c.Want(base+idx) {
						continue
					}
					S, T := pr[0], pr[1]
					conc := exact(S, cty.DynamicVal, 1)
					abs := cty.UnknownVal(buildType(S))
					label := "structural-enum"
					c.Begin(base+idx, func() string {
						return fmt.Sprintf("Convert(%#v, %s) vs weakened Convert(%#v, same) [%s]", conc, T, abs, label)
					})
					c.Count("mode:structural-enum")
					checkRelational(c, nil, conc, abs, T, label)
				}
			}
		}
	}
	if c.Batch == 0 {
		c.Exhaustive(fmt.Sprintf("every tuple / object type of 2 or 3 members from a %d-type pool x 7 collection targets with placeholder element types: lookups, one known value and the unknown value of the type", len(pool)))
	}
}

// sameTyped keeps the values whose type is exactly ty (the documented domain of
// a conversion function requested for ty).
func sameTyped(vs []cty.Value, ty cty.Type) []cty.Value {
	var out []cty.Value
	for _, v := range vs {
		u, _ := v.Unmark()
		if u.Type().Equals(ty) {
			out = append(out, v)
		}
	}
	return out
}
