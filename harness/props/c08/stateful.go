package c08

import (
	"fmt"

	"github.com/zclconf/go-cty/cty"
	"github.com/zclconf/go-cty/cty/convert"

	"verif/harness/core"
	m "verif/harness/model"
	"verif/harness/mon"
)

const (
	fMember       = "member of the result differs from the conversion of that member alone"
	fMemberNull   = "attribute without a counterpart in the input is not null in the result"
	fMemberReq    = "conversion succeeded although the map has no element for a required attribute"
	fMemberLen    = "result has another number of members than the input"
	fReuseOutcome = "a conversion function applied again disagrees with a freshly obtained one (error vs result)"
	fReuseDiff    = "a conversion function applied again gives another result than a freshly obtained one"
)

type memberPair struct {
	in    cty.Value
	want  *m.TNode
	got   cty.Value
	where string
}

func elemsOf(v cty.Value) []cty.Value {
	var es []cty.Value
	for it := v.ElementIterator(); it.Next(); {
		_, e := it.Element()
		es = append(es, e)
	}
	return es
}

func mapOf(v cty.Value) map[string]cty.Value {
	mm := map[string]cty.Value{}
	for it := v.ElementIterator(); it.Next(); {
		k, e := it.Element()
		mm[k.AsString()] = e
	}
	return mm
}

// sameConversionResult: two results for the same input value.
func sameConversionResult(a, b cty.Value) bool {
	if mon.ModelEqual(a, b) {
		return true
	}
	au, _ := a.Unmark()
	bu, _ := b.Unmark()
	if au.IsWhollyKnown() && bu.IsWhollyKnown() {
		return false
	}
	return mon.Admits(a, collapse(b)) == "" || mon.Admits(b, collapse(a)) == ""
}

// checkMemberwise: compound conversions are derived from the conversions of
// their members (docs/convert.md, "Conversion Charts"), so every member of a
// successful result must be what that member converts to on its own (taken on
// to the result's member type where late unification chose one), an attribute
// the input has nothing for must be null, and a map lacking a required attribute
// must not convert. Judged for known, non-null values whose result is known.
func checkMemberwise(c *core.Ctx, v cty.Value, S, Tn *m.TNode, res cty.Value, desc func() string, cls string) {
	vu, _ := v.Unmark()
	ru, _ := res.Unmark()
	if !vu.IsKnown() || vu.IsNull() || !ru.IsKnown() || ru.IsNull() || Tn.K == m.KDynamic {
		return
	}
	rt := m.TNodeOf(ru.Type())
	if rt.K != Tn.K {
		return
	}
	var pairs []memberPair
	asSet := false
	switch {
	case (S.K == m.KList || S.K == m.KTuple || S.K == m.KSet) && (Tn.K == m.KList || Tn.K == m.KSet):
		if S.K == m.KSet && !vu.IsWhollyKnown() {
			return
		}
		ins, outs := elemsOf(vu), elemsOf(ru)
		asSet = Tn.K == m.KSet || S.K == m.KSet
		if !asSet && len(ins) != len(outs) {
			c.Violate(siteConvert, fMemberLen, cls, desc(), fmt.Sprintf("input %d members, result %#v", len(ins), res))
			return
		}
		for i, e := range ins {
			p := memberPair{in: e, want: Tn.Elem, where: fmt.Sprintf("[%d]", i)}
			if !asSet {
				p.got = outs[i]
			}
			pairs = append(pairs, p)
		}
		if asSet {
			checkMembersAsSet(c, pairs, outs, rt, res, desc, cls)
			return
		}
	case S.K == m.KTuple && Tn.K == m.KTuple:
		ins, outs := elemsOf(vu), elemsOf(ru)
		if len(ins) != len(outs) || len(ins) != len(Tn.Elems) {
			return
		}
		for i, e := range ins {
			pairs = append(pairs, memberPair{e, Tn.Elems[i], outs[i], fmt.Sprintf("[%d]", i)})
		}
	case (S.K == m.KMap || S.K == m.KObject) && Tn.K == m.KMap:
		ins, outs := mapOf(vu), mapOf(ru)
		if len(ins) != len(outs) {
			c.Violate(siteConvert, fMemberLen, cls, desc(), fmt.Sprintf("input %d members, result %#v", len(ins), res))
			return
		}
		for _, k := range sortedKeys(ins) {
			o, ok := outs[k]
			if !ok {
				c.Violate(siteConvert, fMemberLen, cls, desc(), fmt.Sprintf("key %q missing in result %#v", k, res))
				return
			}
			pairs = append(pairs, memberPair{ins[k], Tn.Elem, o, fmt.Sprintf("[%q]", k)})
		}
	case (S.K == m.KMap || S.K == m.KObject) && Tn.K == m.KObject:
		ins, outs := mapOf(vu), mapOf(ru)
		for _, k := range Tn.AttrNames() {
			o, ok := outs[k]
			if !ok {
				return // conformance clause reports that
			}
			in, has := ins[k]
			if has {
				pairs = append(pairs, memberPair{in, Tn.Attrs[k], o, "." + k})
				continue
			}
			c.Count("clause:memberwise-absent-attribute")
			ou, _ := o.Unmark()
			if S.K == m.KMap && !Tn.Opt[k] {
				c.Violate(siteConvert, fMemberReq, cls, desc(), fmt.Sprintf("attribute %q; result %#v", k, res))
			} else if !ou.IsKnown() || !ou.IsNull() {
				c.Violate(siteConvert, fMemberNull, cls, desc(), fmt.Sprintf("attribute %q is %#v in result %#v", k, o, res))
			}
		}
	default:
		return
	}
	for _, p := range pairs {
		ref, ok := memberRef(c, p, desc, cls)
		if !ok {
			continue
		}
		c.Count("clause:memberwise")
		if !sameConversionResult(p.got, ref) {
			pth, k := firstDiffKnownParts(p.got, ref)
			c.Violate(siteConvert, fMember, cls+" diff:"+k, desc(), fmt.Sprintf("member %s: in the result %#v, converted alone %#v (differ at %s); whole result %#v", p.where, p.got, ref, pth, res))
		}
	}
}

// memberRef converts one member on its own: to the wanted member type, then on
// to the type the member has in the result when that differs (late unification).
func memberRef(c *core.Ctx, p memberPair, desc func() string, cls string) (cty.Value, bool) {
	var ref cty.Value
	var err error
	o := core.Guard(func() { ref, err = convert.Convert(p.in, buildType(p.want)) })
	c.Eval(1)
	if o.Panicked {
		c.Violate(siteConvert, "panic: "+core.PanicClass(o.PanicMsg), cls+" member alone", desc(), fmt.Sprintf("Convert(%#v, %s): %s\n%s", p.in, p.want, o.PanicMsg, o.Stack))
		return cty.NilVal, false
	}
	if err != nil || ref == cty.NilVal {
		c.Count("memberwise:not-judged:member-alone-fails")
		return cty.NilVal, false
	}
	if p.got != cty.NilVal {
		gu, _ := p.got.Unmark()
		fu, _ := ref.Unmark()
		if !m.TypeEq(m.TNodeOf(gu.Type()), m.TNodeOf(fu.Type())) {
			var ref2 cty.Value
			o := core.Guard(func() { ref2, err = convert.Convert(ref, gu.Type()) })
			c.Eval(1)
			if o.Panicked || err != nil || ref2 == cty.NilVal {
				c.Count("memberwise:not-judged:no-way-to-the-unified-type")
				return cty.NilVal, false
			}
			c.Count("memberwise:taken-on-to-unified-type")
			ref = ref2
		}
	}
	return ref, true
}

// checkMembersAsSet: the result is a set (or came from one): every converted
// member must be in the result and every result member must be one of them.
func checkMembersAsSet(c *core.Ctx, pairs []memberPair, outs []cty.Value, rt *m.TNode, res cty.Value, desc func() string, cls string) {
	ety := buildType(rt.Elem)
	var refs []cty.Value
	for _, p := range pairs {
		ref, ok := memberRef(c, p, desc, cls)
		if !ok {
			return
		}
		fu, _ := ref.Unmark()
		if !fu.Type().Equals(ety) {
			var ref2 cty.Value
			var err error
			o := core.Guard(func() { ref2, err = convert.Convert(ref, ety) })
			c.Eval(1)
			if o.Panicked || err != nil || ref2 == cty.NilVal {
				c.Count("memberwise:not-judged:no-way-to-the-unified-type")
				return
			}
			ref = ref2
		}
		fu, _ = ref.Unmark()
		if !fu.IsWhollyKnown() {
			c.Count("memberwise:not-judged:set-with-unknown-member")
			return
		}
		refs = append(refs, ref)
	}
	for _, o := range outs {
		if !o.IsWhollyKnown() {
			c.Count("memberwise:not-judged:set-with-unknown-member")
			return
		}
	}
	c.Count("clause:memberwise-as-set")
	for i, ref := range refs {
		if !hasEqual(outs, ref) {
			c.Violate(siteConvert, fMember, cls+" diff:set-members", desc(), fmt.Sprintf("member %s converted alone is %#v, not in the result %#v", pairs[i].where, ref, res))
			return
		}
	}
	for _, o := range outs {
		if !hasEqual(refs, o) {
			c.Violate(siteConvert, fMember, cls+" diff:set-members", desc(), fmt.Sprintf("result member %#v is the conversion of no input member; result %#v", o, res))
			return
		}
	}
}

// checkReuse: a conversion function is applied to several values of its source
// type in sequence and then to the first one again; every result must be what a
// freshly obtained conversion function gives for that value alone (results do not
// depend on earlier calls).
func checkReuse(c *core.Ctx, site string, get func() convert.Conversion, vals []cty.Value, S, Tn *m.TNode, label string) {
	if len(vals) < 2 {
		return
	}
	var conv convert.Conversion
	if o := core.Guard(func() { conv = get() }); o.Panicked || conv == nil {
		return
	}
	seq := append(append([]cty.Value{}, vals...), vals[0])
	for i, x := range seq {
		x := x
		var r1, r2 cty.Value
		var e1, e2 error
		desc := func() string {
			return fmt.Sprintf("%s(%s, %s) applied to %d values in sequence, call %d: %#v [%s]", site, S, Tn, len(seq), i+1, x, label)
		}
		cls := pairClass(S, Tn, x) + " reuse"
		o1 := core.Guard(func() { r1, e1 = conv(x) })
		var fresh convert.Conversion
		o2 := core.Guard(func() { fresh = get(); r2, e2 = fresh(x) })
		c.Eval(3)
		if o1.Panicked {
			c.Violate(site, "panic: "+core.PanicClass(o1.PanicMsg), cls, desc(), o1.PanicMsg+"\n"+o1.Stack)
			return
		}
		if o2.Panicked {
			return // reported where the fresh call is the case itself
		}
		c.Count("clause:reuse-independent-of-earlier-calls")
		switch {
		case (e1 == nil) != (e2 == nil):
			c.Violate(site, fReuseOutcome, cls, desc(), fmt.Sprintf("reused: %#v, %v; fresh: %#v, %v", r1, e1, r2, e2))
			return
		case e1 == nil && r1 != cty.NilVal && r2 != cty.NilVal && !sameConversionResult(r1, r2):
			p, k := firstDiffKnownParts(r1, r2)
			c.Violate(site, fReuseDiff, cls+" diff:"+k, desc(), fmt.Sprintf("reused: %#v; fresh: %#v; differ at %s", r1, r2, p))
			return
		}
	}
}
