package c08

import (
	"fmt"
	"reflect"
	"strconv"

	"github.com/zclconf/go-cty/cty"
)

// capC is a capsule type that offers conversions in both directions (string and
// number <-> capC), so that conversion_capsule.go is exercised. The callbacks are
// strict: the convert package promises to hand them only known, non-null,
// unmarked values of the type they were asked for; anything else makes them
// panic, which the no-panic clause then reports.
type capC struct{ X int }

var CapsuleC cty.Type

// CapsuleD converts from/to CapsuleC only (capsule <-> capsule path).
type capD struct{ X int }

var CapsuleD cty.Type

func init() {
	CapsuleC = cty.CapsuleWithOps("capC", reflect.TypeOf(capC{}), &cty.CapsuleOps{
		GoString:     func(v interface{}) string { return fmt.Sprintf("capC(%d)", v.(*capC).X) },
		TypeGoString: func(reflect.Type) string { return "capC" },
		Equals:       func(a, b interface{}) cty.Value { return cty.BoolVal(a.(*capC).X == b.(*capC).X) },
		RawEquals:    func(a, b interface{}) bool { return a.(*capC).X == b.(*capC).X },
		HashKey:      func(v interface{}) string { return fmt.Sprintf("capC:%d", v.(*capC).X) },
		// called with the DESTINATION type
		ConversionFrom: func(dst cty.Type) func(interface{}, cty.Path) (cty.Value, error) {
			switch {
			case dst == cty.String:
				return func(raw interface{}, p cty.Path) (cty.Value, error) {
					return cty.StringVal(strconv.Itoa(raw.(*capC).X)), nil
				}
			case dst == cty.Number:
				return func(raw interface{}, p cty.Path) (cty.Value, error) {
					return cty.NumberIntVal(int64(raw.(*capC).X)), nil
				}
			}
			return nil
		},
		// called with the SOURCE type
		ConversionTo: func(src cty.Type) func(cty.Value, cty.Path) (interface{}, error) {
			strict := func(v cty.Value, want cty.Type) {
				if v.IsMarked() || !v.IsKnown() || v.IsNull() || !v.Type().Equals(want) {
					panic(fmt.Sprintf("capC ConversionTo callback handed a value it was not promised: %#v", v))
				}
			}
			switch {
			case src == cty.String:
				return func(v cty.Value, p cty.Path) (interface{}, error) {
					strict(v, cty.String)
					x, err := strconv.Atoi(v.AsString())
					if err != nil {
						return nil, p.NewErrorf("not a capC")
					}
					return internC(x), nil
				}
			case src == cty.Number:
				return func(v cty.Value, p cty.Path) (interface{}, error) {
					strict(v, cty.Number)
					f := v.AsBigFloat()
					if !f.IsInt() {
						return nil, p.NewErrorf("not a capC")
					}
					i, acc := f.Int64()
					if acc != 0 || i > 1<<30 || i < -(1<<30) {
						return nil, p.NewErrorf("not a capC")
					}
					return internC(int(i)), nil
				}
			}
			return nil
		},
	})
	CapsuleD = cty.CapsuleWithOps("capD", reflect.TypeOf(capD{}), &cty.CapsuleOps{
		GoString:     func(v interface{}) string { return fmt.Sprintf("capD(%d)", v.(*capD).X) },
		TypeGoString: func(reflect.Type) string { return "capD" },
		ConversionFrom: func(dst cty.Type) func(interface{}, cty.Path) (cty.Value, error) {
			if dst.Equals(CapsuleC) {
				return func(raw interface{}, p cty.Path) (cty.Value, error) {
					return cty.CapsuleVal(CapsuleC, internC(raw.(*capD).X)), nil
				}
			}
			return nil
		},
		ConversionTo: func(src cty.Type) func(cty.Value, cty.Path) (interface{}, error) {
			if src.Equals(CapsuleC) {
				return func(v cty.Value, p cty.Path) (interface{}, error) {
					if v.IsMarked() || !v.IsKnown() || v.IsNull() || !v.Type().Equals(CapsuleC) {
						panic(fmt.Sprintf("capD ConversionTo callback handed a value it was not promised: %#v", v))
					}
					return internD(v.EncapsulatedValue().(*capC).X), nil
				}
			}
			return nil
		},
	})
}

// Encapsulated pointers are interned per payload, so that pointer identity
// (what mon.ModelEqual uses for capsule types it does not know) coincides with
// the value equality these types declare. Workers are single-threaded.
var internedC = map[int]*capC{}
var internedD = map[int]*capD{}

func internC(x int) *capC {
	if p, ok := internedC[x]; ok {
		return p
	}
	p := &capC{x}
	internedC[x] = p
	return p
}

func internD(x int) *capD {
	if p, ok := internedD[x]; ok {
		return p
	}
	p := &capD{x}
	internedD[x] = p
	return p
}

func newCapC(x int) cty.Value { return cty.CapsuleVal(CapsuleC, internC(x)) }
func newCapD(x int) cty.Value { return cty.CapsuleVal(CapsuleD, internD(x)) }
