package c08

import (
	"strings"

	"verif/harness/core"
	"verif/harness/gen"
	m "verif/harness/model"
)

var capCNode = &m.TNode{K: m.KCapsule, Capsule: "capC"}
var capDNode = &m.TNode{K: m.KCapsule, Capsule: "capD"}
var capANode = &m.TNode{K: m.KCapsule, Capsule: "capA"}
var capBNode = &m.TNode{K: m.KCapsule, Capsule: "capB"}

var attrPool = []string{"a", "b", "c", "k", "x", "long-key"}

func countNodes(t *m.TNode) int {
	n := 1
	switch t.K {
	case m.KList, m.KSet, m.KMap:
		n += countNodes(t.Elem)
	case m.KTuple:
		for _, e := range t.Elems {
			n += countNodes(e)
		}
	case m.KObject:
		for _, k := range t.AttrNames() {
			n += countNodes(t.Attrs[k])
		}
	}
	return n
}

func cloneObj(t *m.TNode) *m.TNode {
	n := &m.TNode{K: m.KObject, Attrs: map[string]*m.TNode{}}
	for k, a := range t.Attrs {
		n.Attrs[k] = a
	}
	if len(t.Opt) > 0 {
		n.Opt = map[string]bool{}
		for k := range t.Opt {
			n.Opt[k] = true
		}
	}
	return n
}

func setOpt(t *m.TNode, k string) {
	if t.Opt == nil {
		t.Opt = map[string]bool{}
	}
	t.Opt[k] = true
}

// smallType draws a small type for added attributes / replaced members; may
// carry optional attributes and placeholders of its own.
func smallType(r *core.Rand) *m.TNode {
	switch r.Intn(12) {
	case 0:
		return m.TDynamic
	case 1:
		return m.ObjectOf(map[string]*m.TNode{"a": m.TString, "c": m.TNumber}, "c")
	case 2:
		return m.ListOf(m.ObjectOf(map[string]*m.TNode{"b": m.TBool}, "b"))
	case 3:
		return m.MapOf(m.TDynamic)
	case 4:
		return m.TupleOf(m.TString, m.TDynamic)
	case 5:
		return m.SetOf(m.TString)
	case 6:
		return gen.Type(r, 2, gen.TypeOpts{Dynamic: true, Optional: true})
	}
	return []*m.TNode{m.TString, m.TNumber, m.TBool}[r.Intn(3)]
}

// mutateNode applies one node-level derivation to t (whose children are already
// rebuilt) and returns the new node and a label.
func mutateNode(r *core.Rand, t *m.TNode) (*m.TNode, string) {
	// derivations available for every kind
	switch r.Intn(14) {
	case 0, 1:
		return m.TDynamic, "placeholder"
	case 2:
		if r.Chance(1, 3) {
			return []*m.TNode{capCNode, capANode, capBNode, capDNode}[r.Intn(4)], "capsule-target"
		}
	case 3:
		if r.Chance(1, 3) {
			return gen.Type(r, 2, gen.TypeOpts{Dynamic: true, Optional: true, Capsule: true}), "unrelated-part"
		}
	}
	switch t.K {
	case m.KBool:
		if r.Chance(3, 4) {
			return m.TString, "bool>string"
		}
		return m.TNumber, "bool>number"
	case m.KNumber:
		if r.Chance(3, 4) {
			return m.TString, "number>string"
		}
		return m.TBool, "number>bool"
	case m.KString:
		if r.Bool() {
			return m.TNumber, "string>number"
		}
		return m.TBool, "string>bool"
	case m.KDynamic:
		return smallType(r), "dynamic>type"
	case m.KCapsule:
		return []*m.TNode{m.TString, m.TNumber, capCNode, capDNode, m.TBool}[r.Intn(5)], "capsule>other"
	case m.KList:
		switch r.Intn(6) {
		case 0, 1, 2:
			return m.SetOf(t.Elem), "list>set"
		case 3:
			n := r.Intn(4)
			es := make([]*m.TNode, n)
			for i := range es {
				es[i] = t.Elem
			}
			return m.TupleOf(es...), "list>tuple"
		case 4:
			return m.MapOf(t.Elem), "list>map"
		}
		return m.ListOf(m.TDynamic), "elem-placeholder"
	case m.KSet:
		switch r.Intn(6) {
		case 0, 1, 2, 3:
			return m.ListOf(t.Elem), "set>list"
		case 4:
			return m.TupleOf(t.Elem), "set>tuple"
		}
		return m.SetOf(m.TDynamic), "elem-placeholder"
	case m.KMap:
		switch r.Intn(6) {
		case 0, 1, 2, 3:
			o := &m.TNode{K: m.KObject, Attrs: map[string]*m.TNode{}}
			n := r.Intn(4)
			for i := 0; i < n; i++ {
				k := attrPool[r.Intn(len(attrPool))]
				switch r.Intn(5) {
				case 0:
					o.Attrs[k] = smallType(r)
				case 1:
					o.Attrs[k] = m.TDynamic
				default:
					o.Attrs[k] = t.Elem
				}
				if r.Chance(1, 2) {
					setOpt(o, k)
				}
			}
			return o, "map>object"
		case 4:
			return m.ListOf(t.Elem), "map>list"
		}
		return m.MapOf(m.TDynamic), "elem-placeholder"
	case m.KTuple:
		var e *m.TNode
		switch {
		case len(t.Elems) > 0 && r.Chance(2, 5):
			e = t.Elems[r.Intn(len(t.Elems))]
		case r.Chance(1, 3):
			e = m.TDynamic
		case r.Chance(1, 2):
			e = m.TString
		default:
			e = smallType(r)
		}
		switch r.Intn(8) {
		case 0, 1, 2:
			return m.ListOf(e), "tuple>list"
		case 3, 4:
			return m.SetOf(e), "tuple>set"
		case 5:
			if len(t.Elems) > 0 {
				return m.TupleOf(t.Elems[:len(t.Elems)-1]...), "tuple-shorter"
			}
			return m.TupleOf(m.TString), "tuple-longer"
		case 6:
			es := append(append([]*m.TNode{}, t.Elems...), smallType(r))
			return m.TupleOf(es...), "tuple-longer"
		}
		return m.MapOf(e), "tuple>map"
	case m.KObject:
		names := t.AttrNames()
		switch r.Intn(10) {
		case 0, 1:
			var e *m.TNode
			switch {
			case len(names) > 0 && r.Chance(2, 5):
				e = t.Attrs[names[r.Intn(len(names))]]
			case r.Chance(1, 3):
				e = m.TDynamic
			case r.Chance(1, 2):
				e = m.TString
			default:
				e = smallType(r)
			}
			return m.MapOf(e), "object>map"
		case 2, 3:
			if len(names) > 0 {
				o := cloneObj(t)
				k := names[r.Intn(len(names))]
				delete(o.Attrs, k)
				delete(o.Opt, k)
				return o, "drop-attr"
			}
		case 4, 5, 6:
			o := cloneObj(t)
			n := 1 + r.Intn(2)
			for i := 0; i < n; i++ {
				k := attrPool[r.Intn(len(attrPool))]
				if _, ok := o.Attrs[k]; ok {
					continue
				}
				o.Attrs[k] = smallType(r)
				setOpt(o, k)
			}
			return o, "add-optional"
		case 7:
			if len(names) > 0 {
				o := cloneObj(t)
				setOpt(o, names[r.Intn(len(names))])
				return o, "mark-optional"
			}
		case 8:
			o := cloneObj(t)
			for _, k := range attrPool {
				if _, ok := o.Attrs[k]; !ok {
					o.Attrs[k] = smallType(r)
					return o, "add-required"
				}
			}
		}
		o := cloneObj(t)
		k := attrPool[r.Intn(len(attrPool))]
		if _, ok := o.Attrs[k]; !ok {
			o.Attrs[k] = smallType(r)
		}
		setOpt(o, k)
		return o, "add-optional"
	}
	return m.TDynamic, "placeholder"
}

// rebuild walks t in preorder; nodes whose preorder index is in pick get a
// node-level derivation after their children have been rebuilt.
func rebuild(r *core.Rand, t *m.TNode, ctr *int, pick map[int]bool, labels *[]string) *m.TNode {
	me := *ctr
	*ctr++
	var n *m.TNode
	switch t.K {
	case m.KList, m.KSet, m.KMap:
		n = &m.TNode{K: t.K, Elem: rebuild(r, t.Elem, ctr, pick, labels)}
	case m.KTuple:
		n = &m.TNode{K: m.KTuple, Elems: make([]*m.TNode, len(t.Elems))}
		for i, e := range t.Elems {
			n.Elems[i] = rebuild(r, e, ctr, pick, labels)
		}
	case m.KObject:
		n = &m.TNode{K: m.KObject, Attrs: map[string]*m.TNode{}}
		for _, k := range t.AttrNames() {
			n.Attrs[k] = rebuild(r, t.Attrs[k], ctr, pick, labels)
		}
	default:
		n = t
	}
	if pick[me] {
		var l string
		n, l = mutateNode(r, n)
		*labels = append(*labels, l)
	}
	return n
}

// deriveTarget derives a target type from the type S of the value.
func deriveTarget(r *core.Rand, S *m.TNode) (*m.TNode, string) {
	switch k := r.Intn(20); {
	case k == 0:
		return S, "own-type"
	case k == 1:
		return gen.Type(r, 3, gen.TypeOpts{Dynamic: true, Optional: true, Capsule: true}), "unrelated"
	case k == 2:
		return []*m.TNode{m.TDynamic, m.TString, m.TNumber, m.TBool, capCNode, m.ListOf(m.TDynamic), m.MapOf(m.TDynamic), m.SetOf(m.TDynamic),
			m.ListOf(m.TString), m.MapOf(m.TString), m.TupleOf(), m.ObjectOf(map[string]*m.TNode{})}[r.Intn(12)], "fixed-target"
	}
	n := countNodes(S)
	k := 1 + r.Weighted([]int{5, 3, 2})
	pick := map[int]bool{}
	for i := 0; i < k; i++ {
		pick[r.Intn(n)] = true
	}
	var labels []string
	ctr := 0
	T := rebuild(r, S, &ctr, pick, &labels)
	return T, strings.Join(labels, "+")
}
