package c05

// Decimal twins (one decimal text held at 53 and at 512 bits, and a value
// exactly between the two) as numeric bounds and as candidates.
//
// The sequence model steps on exactly representable numbers only, so a fault
// that appears only when a bound and a candidate are "the same number" under
// documented equality (same shortest decimal text) but differ exactly was out
// of its reach. This enumeration states bounds drawn from a twin triple on an
// unknown number and asks Includes / Equals about every member of the triple.
//
// Oracle (exact interval arithmetic on the big.Float values, which is what the
// builder itself and LessThan / GreaterThan use):
//   - a candidate the interval admits must not get Includes == False, and
//     Equals must not answer False for it;
//   - a candidate the interval excludes must not get Includes == True, EXCEPT
//     when it lies beyond an INCLUSIVE bound that is the same number under
//     documented equality: Value.LessThanOrEqualTo is documented to hold for
//     two such numbers, so the library counts it as "on the bound". That case
//     is left free (counted, not judged): it is the number-identity question of
//     known finding F-47, not a refinement question.

import (
	"fmt"
	"math/big"

	"github.com/zclconf/go-cty/cty"

	"verif/harness/core"
)

var twinTexts = []string{"0.1", "0.3", "1.00000000001", "-0.7", "123.456", "1e-7"}

type twinBound struct {
	v   cty.Value
	inc bool
	txt string
}

func runTwinBounds(c *core.Ctx, base int64) {
	idx := base
	type pair struct {
		d      string
		pa, pb uint
	}
	var pairs []pair
	for _, d := range twinTexts {
		pairs = append(pairs, pair{d, 512, 53})
	}
	for _, d := range twinTexts[:3] {
		pairs = append(pairs, pair{d, 512, 100}, pair{d, 53, 24}, pair{d, 64, 200})
	}
	at := func(d string, prec uint) (cty.Value, string) {
		f, _, err := big.ParseFloat(d, 10, prec, big.ToNearestEven)
		if err != nil {
			panic(err)
		}
		switch prec {
		case 512:
			return cty.MustParseNumberVal(d), fmt.Sprintf("cty.MustParseNumberVal(%q)", d)
		case 53:
			f64, _ := f.Float64()
			return cty.NumberFloatVal(f64), fmt.Sprintf("cty.NumberFloatVal(%v)", f64)
		}
		return cty.NumberVal(f), fmt.Sprintf("%s@%dbits", d, prec)
	}
	for _, pr := range pairs {
		d := pr.d
		a, aT := at(d, pr.pa)
		b, bT := at(d, pr.pb)
		cmp := a.AsBigFloat().Cmp(b.AsBigFloat())
		if cmp == 0 {
			continue
		}
		lo, hi := a, b
		loT, hiT := aT, bT
		if cmp > 0 {
			lo, hi, loT, hiT = b, a, hiT, loT
		}
		m := new(big.Float).SetPrec(700).Add(lo.AsBigFloat(), hi.AsBigFloat())
		m.Quo(m, big.NewFloat(2))
		mid := cty.NumberVal(m)
		vals := []cty.Value{lo, mid, hi}
		txts := []string{loT, "midpoint(" + d + ")", hiT}
		var bounds []twinBound
		for i := range vals {
			bounds = append(bounds, twinBound{vals[i], true, txts[i]}, twinBound{vals[i], false, txts[i]})
		}
		none := twinBound{}
		lows := append([]twinBound{none}, bounds...)
		ups := append([]twinBound{none}, bounds...)
		for _, nn := range []bool{false, true} {
			for _, l := range lows {
				for _, h := range ups {
					if l.v == cty.NilVal && h.v == cty.NilVal {
						continue
					}
					idx++
					if !c.Want(idx) {
						continue
					}
					twinCase(c, idx, nn, l, h, vals, txts, twinBound{}, false)
					// the same constraints reached in two refinement sessions: an earlier session stated a strictly
					// looser bound from the same triple on one side, a later session (Refine() on the refined value)
					// states the rest. The looser bound changes nothing about what is admitted.
					for _, pre := range bounds {
						if l.v != cty.NilVal && pre.v.AsBigFloat().Cmp(l.v.AsBigFloat()) < 0 {
							idx++
							if c.Want(idx) {
								twinCase(c, idx, nn, l, h, vals, txts, pre, false)
							}
						}
						if h.v != cty.NilVal && pre.v.AsBigFloat().Cmp(h.v.AsBigFloat()) > 0 {
							idx++
							if c.Want(idx) {
								twinCase(c, idx, nn, l, h, vals, txts, pre, true)
							}
						}
					}
				}
			}
		}
	}
	c.Exhaustive("decimal twins as numeric bounds: 6 texts x {53-bit, midpoint, 512-bit} (3 texts also at 100/512, 24/53, 200/64 bits) x lower/upper/both x inclusive/exclusive x with/without not-null, every member of the triple as candidate")
}

func twinCase(c *core.Ctx, idx int64, nn bool, l, h twinBound, vals []cty.Value, txts []string, pre twinBound, preUpper bool) {
	desc := "cty.UnknownVal(cty.Number).Refine()"
	if pre.v != cty.NilVal {
		if preUpper {
			desc += fmt.Sprintf(".NumberRangeUpperBound(%s, %v)", pre.txt, pre.inc)
		} else {
			desc += fmt.Sprintf(".NumberRangeLowerBound(%s, %v)", pre.txt, pre.inc)
		}
		desc += ".NewValue().Refine()"
	}
	if nn {
		desc += ".NotNull()"
	}
	if l.v != cty.NilVal {
		desc += fmt.Sprintf(".NumberRangeLowerBound(%s, %v)", l.txt, l.inc)
	}
	if h.v != cty.NilVal {
		desc += fmt.Sprintf(".NumberRangeUpperBound(%s, %v)", h.txt, h.inc)
	}
	desc += ".NewValue()"
	c.Begin(idx, func() string { return desc })
	var u cty.Value
	o := core.Guard(func() {
		b := cty.UnknownVal(cty.Number).Refine()
		if pre.v != cty.NilVal {
			if preUpper {
				b = b.NumberRangeUpperBound(pre.v, pre.inc)
			} else {
				b = b.NumberRangeLowerBound(pre.v, pre.inc)
			}
			b = b.NewValue().Refine()
			c.Count("twin-bounds:two-sessions")
		}
		if nn {
			b = b.NotNull()
		}
		if l.v != cty.NilVal {
			b = b.NumberRangeLowerBound(l.v, l.inc)
		}
		if h.v != cty.NilVal {
			b = b.NumberRangeUpperBound(h.v, h.inc)
		}
		u = b.NewValue()
	})
	c.Eval(1)
	c.Count("twin-bounds:cases")
	// is the interval empty under exact comparison?
	empty := false
	if l.v != cty.NilVal && h.v != cty.NilVal {
		k := l.v.AsBigFloat().Cmp(h.v.AsBigFloat())
		empty = k > 0 || (k == 0 && !(l.inc && h.inc))
	}
	if o.Panicked {
		if !empty {
			c.Violate("RefinementBuilder.NumberRange*", "consistent constraints rejected", "decimal-twin-bounds", desc, o.PanicMsg)
		}
		c.Count("twin-bounds:rejected")
		c.Distinct(desc, true)
		return
	}
	c.Distinct(desc, true)
	if empty {
		// an empty exact interval whose two bounds are the same number by documented equality is the F-47 question; not judged here
		c.Count("twin-bounds:empty-exactly-but-accepted(not judged)")
		return
	}
	if u.IsKnown() {
		// collapsed: legal only for [x, x] inclusive with not-null
		ok := nn && l.v != cty.NilVal && h.v != cty.NilVal && l.inc && h.inc && l.v.AsBigFloat().Cmp(h.v.AsBigFloat()) == 0
		if !ok {
			c.Violate("RefinementBuilder.NewValue", "result became known although it does not admit exactly what the constraints admit", "decimal-twin-bounds", desc, fmt.Sprintf("result %#v", u))
		}
		c.Count("twin-bounds:collapsed")
		return
	}
	rng := u.Range()
	// the reported bounds are exactly the stated ones (exact comparison, inclusiveness included): with two
	// sessions that is the tighter, later one
	for _, side := range []struct {
		b     twinBound
		name  string
		read  func() (cty.Value, bool)
		other string
	}{
		{l, "lower", rng.NumberLowerBound, "NumberLowerBound"},
		{h, "upper", rng.NumberUpperBound, "NumberUpperBound"},
	} {
		if side.b.v == cty.NilVal {
			continue
		}
		var got cty.Value
		var gotInc bool
		o := core.Guard(func() { got, gotInc = side.read() })
		c.Eval(1)
		c.Count("twin-bounds:reported-bound-checked")
		switch {
		case o.Panicked:
			c.Violate("ValueRange."+side.other, "panic: "+core.PanicClass(o.PanicMsg), "decimal-twin-bounds", desc, o.PanicMsg)
		case got == cty.NilVal || !got.IsKnown() || got.IsNull() || got.AsBigFloat().Cmp(side.b.v.AsBigFloat()) != 0 || gotInc != side.b.inc:
			c.Violate("Value.Range", "reported range differs from what the stated constraints imply", side.name+"-bound/decimal-twin-bounds", desc,
				fmt.Sprintf("stated %s bound %s (inclusive=%v, exact value %s); reported %#v (inclusive=%v)", side.name, side.b.txt, side.b.inc, side.b.v.AsBigFloat().Text('g', 40), got, gotInc))
		}
	}
	for i, p := range vals {
		pf := p.AsBigFloat()
		admitted, free := true, false
		side := func(b twinBound, sign int) {
			if b.v == cty.NilVal {
				return
			}
			k := pf.Cmp(b.v.AsBigFloat()) * sign // > 0: beyond the bound
			if k > 0 || (k == 0 && !b.inc) {
				admitted = false
				if k > 0 && b.inc && p.Equals(b.v).True() {
					free = true
				}
			}
		}
		side(l, -1)
		side(h, 1)
		pw := desc + "   candidate " + txts[i]
		var inc, eq cty.Value
		o := core.Guard(func() { inc = rng.Includes(p) })
		c.Eval(1)
		switch {
		case o.Panicked:
			c.Violate("ValueRange.Includes", "panic: "+core.PanicClass(o.PanicMsg), "decimal-twin-bounds", pw, o.PanicMsg)
		case !inc.IsKnown():
			c.Count("twin-bounds:includes:unknown")
		case inc.False() && admitted:
			c.Violate("ValueRange.Includes", "answers False for a value the constraints admit", "number/decimal-twin-bounds", pw, fmt.Sprintf("range of %#v", u))
		case inc.True() && !admitted && !free:
			c.Violate("ValueRange.Includes", "answers True for a value the constraints exclude", "number/decimal-twin-bounds", pw, fmt.Sprintf("range of %#v", u))
		case inc.True() && !admitted && free:
			c.Count("twin-bounds:beyond-an-inclusive-bound-of-the-same-decimal-text(not judged)")
		default:
			c.Count("twin-bounds:includes:agrees")
		}
		o = core.Guard(func() { eq = u.Equals(p) })
		c.Eval(1)
		switch {
		case o.Panicked:
			c.CrossNote("C01", "Value.Equals panicked on a refined value: "+core.PanicClass(o.PanicMsg), pw)
		case eq.IsKnown() && eq.False() && admitted:
			c.Violate("Value.Equals", "answers False for a value the constraints admit", "number/decimal-twin-bounds", pw, fmt.Sprintf("refined value %#v", u))
		case eq.IsKnown() && eq.True():
			c.Violate("Value.Equals", "answers True although the refined value is still unknown", "number/decimal-twin-bounds", pw, fmt.Sprintf("refined value %#v", u))
		}
	}
}
