package c05

import (
	"fmt"
	"strings"
	"unicode/utf8"

	"github.com/zclconf/go-cty/cty"
	"github.com/zclconf/go-cty/cty/ctystrings"
	"golang.org/x/text/unicode/norm"

	"verif/harness/core"
	"verif/harness/gen"
)

// safePrefix runs ctystrings.SafeKnownPrefix under recover.
func safePrefix(c *core.Ctx, p string) (q string, ok bool) {
	out := core.Guard(func() { q = ctystrings.SafeKnownPrefix(p) })
	c.Eval(1)
	if out.Panicked {
		c.Violate("ctystrings.SafeKnownPrefix", "panic: "+core.PanicClass(out.PanicMsg), "", fmt.Sprintf("SafeKnownPrefix(%q)", p), out.PanicMsg+"\n"+out.Stack)
		return "", false
	}
	return q, true
}

// cutClass names the code points on both sides of the cut: the last code point
// of the given prefix and the first of the continuation.
func cutClass(p, cont string) string {
	l, _ := utf8.DecodeLastRuneInString(p)
	f, _ := utf8.DecodeRuneInString(cont)
	ls, fs := "none", "none"
	if p != "" {
		ls = fmt.Sprintf("%U", l)
	}
	if cont != "" {
		fs = fmt.Sprintf("%U", f)
	}
	return "cut:" + ls + "|" + fs
}

// alphaStrings returns every string of at most n code points over Alphabet41,
// shortest first.
func alphaStrings(n int) []string {
	out := []string{""}
	lvl := []string{""}
	for k := 0; k < n; k++ {
		var next []string
		for _, s := range lvl {
			for _, r := range gen.Alphabet41 {
				next = append(next, s+string(r))
			}
		}
		out = append(out, next...)
		lvl = next
	}
	return out
}

// prefixState is what is computed once per given prefix p.
type prefixState struct {
	p, q string
	rng  cty.ValueRange
	ok   bool
}

func preparePrefix(c *core.Ctx, p string) (ps prefixState) {
	ps.p = p
	q, ok := safePrefix(c, p)
	if !ok {
		return
	}
	ps.q = q
	nfcP := norm.NFC.String(p)
	if len(q) < len(nfcP) {
		c.Count("prefix:trimmed")
	} else {
		c.Count("prefix:kept-whole")
	}
	if q != "" {
		c.Count("prefix:safe-part-nonempty")
	}
	var v cty.Value
	out := core.Guard(func() {
		v = cty.UnknownVal(cty.String).Refine().StringPrefix(p).NewValue()
		ps.rng = v.Range()
	})
	c.Eval(2)
	if out.Panicked {
		c.Violate("RefinementBuilder.StringPrefix", "consistent constraint rejected", core.PanicClass(out.PanicMsg), fmt.Sprintf("cty.UnknownVal(cty.String).Refine().StringPrefix(%q).NewValue()", p), out.PanicMsg+"\n"+out.Stack)
		return
	}
	if got := ps.rng.StringPrefix(); got != q {
		c.Violate("Value.Range", "reported range differs from what the stated constraints imply", "prefix", fmt.Sprintf("cty.UnknownVal(cty.String).Refine().StringPrefix(%q).NewValue()", p),
			fmt.Sprintf("StringPrefix() = %q, SafeKnownPrefix = %q", got, q))
		return
	}
	ps.ok = true
	return
}

// checkPair: the continuation-safety clause for one (prefix, continuation) pair.
// NFC comes straight from golang.org/x/text/unicode/norm.
func checkPair(c *core.Ctx, ps *prefixState, cont string) (composing bool) {
	full := ps.p + cont
	nfc := norm.NFC.String(full)
	if !strings.HasPrefix(nfc, ps.q) {
		c.Violate("ctystrings.SafeKnownPrefix", "safe prefix is not a byte prefix of the normalized extended string", cutClass(ps.p, cont),
			fmt.Sprintf("SafeKnownPrefix(%q) with continuation %q", ps.p, cont), fmt.Sprintf("safe prefix %q; NFC(prefix+continuation) = %q", ps.q, nfc))
	}
	var inc cty.Value
	out := core.Guard(func() { inc = ps.rng.Includes(cty.StringVal(full)) })
	if out.Panicked {
		c.Violate("ValueRange.Includes", "panic: "+core.PanicClass(out.PanicMsg), "string", fmt.Sprintf("UnknownVal(String).Refine().StringPrefix(%q) / StringVal(%q)", ps.p, full), out.PanicMsg)
	} else if inc.IsKnown() && inc.False() {
		c.Violate("ValueRange.Includes", "answers False for an extension of the prefix given to the safe constructor", cutClass(ps.p, cont),
			fmt.Sprintf("cty.UnknownVal(cty.String).Refine().StringPrefix(%q).NewValue().Range().Includes(cty.StringVal(%q))", ps.p, full), fmt.Sprintf("recorded prefix %q; NFC(value) = %q", ps.q, nfc))
	}
	return len(nfc) != len(full) || nfc != full
}

// runPrefixEnumeration: every (p, c) with |p| <= maxP, |c| <= maxC code points
// over the 41-code-point alphabet; prefixes are split between the batches.
func runPrefixEnumeration(c *core.Ctx, base int64, maxP, maxC int) {
	ps := alphaStrings(maxP)
	cs := alphaStrings(maxC)
	var pairs, composing, mine int64
	for i, p := range ps {
		idx := base + int64(i)
		if !c.Mine(int64(i)) || !c.Want(idx) {
			continue
		}
		p := p
		c.Begin(idx, func() string {
			return fmt.Sprintf("prefix %q x every continuation of at most %d code points over Alphabet41", p, maxC)
		})
		st := preparePrefix(c, p)
		if !st.ok {
			continue
		}
		mine++
		for _, cont := range cs {
			if checkPair(c, &st, cont) {
				composing++
			}
		}
		pairs += int64(len(cs))
	}
	c.Eval(int(pairs)) // one Includes per pair (SafeKnownPrefix once per prefix, counted there)
	c.BulkDistinct(pairs)
	c.CountN("prefix:enumerated-prefixes", mine)
	c.CountN("prefix:enumerated-pairs", pairs)
	c.CountN("prefix:pairs-whose-concatenation-is-not-already-NFC", composing)
	c.CountN("clause:continuation-safe(byte-prefix-of-NFC)", pairs)
	c.CountN("clause:continuation-safe(Includes-not-False)", pairs)
	c.Exhaustive(fmt.Sprintf("all (prefix, continuation) pairs over the 41-code-point alphabet with |prefix| <= %d and |continuation| <= %d code points (%d x %d pairs over all batches)", maxP, maxC, len(ps), len(cs)))
}

// runPrefixSampled: long prefix / continuation pairs drawn from the full
// string generator (alphabet + extra code points).
func runPrefixSampled(c *core.Ctx, base int64, n int) {
	for i := int64(0); i < int64(n); i++ {
		idx := base + i
		if !c.Want(idx) {
			continue
		}
		r := c.RNG(idx)
		p := gen.String(r, 10)
		k := 1 + r.Intn(6)
		conts := make([]string, k)
		for j := range conts {
			conts[j] = gen.String(r, 5)
		}
		if r.Chance(1, 6) {
			// a long prefix that ends in a long run of combining marks (of several combining classes), continued
			// by more marks: an analysis that looks only at a bounded tail of the prefix sees no boundary at all
			marks := []rune{0x0301, 0x0323, 0x0327, 0x0338, 0x0308, 0x031B}
			b := []rune(gen.String(r, 6))
			for n := r.Intn(60); n > 0; n-- {
				b = append(b, rune('a'+r.Intn(26)))
			}
			b = append(b, []rune{'x', 'e', '=', 0x1100, 'o'}[r.Intn(5)])
			for n := 1 + r.Intn(45); n > 0; n-- {
				b = append(b, marks[r.Intn(len(marks))])
			}
			p = string(b)
			for j := range conts {
				cb := []rune{marks[r.Intn(len(marks))]}
				for n := r.Intn(4); n > 0; n-- {
					cb = append(cb, marks[r.Intn(len(marks))])
				}
				conts[j] = string(cb) + gen.String(r, 3)
			}
			c.Count("prefix:sampled-long-mark-runs")
		}
		c.Begin(idx, func() string { return fmt.Sprintf("prefix %q x continuations %q", p, conts) })
		st := preparePrefix(c, p)
		if !st.ok {
			continue
		}
		comp := false
		for _, cont := range conts {
			if checkPair(c, &st, cont) {
				comp = true
			}
			c.Eval(1)
			c.Count("prefix:sampled-pairs")
		}
		c.Distinct(fmt.Sprintf("%q|%q", p, conts), comp || st.q != "")
	}
}
