package c05

import (
	"fmt"
	"math"
	"math/big"
	"strings"

	"github.com/zclconf/go-cty/cty"
	"golang.org/x/text/unicode/norm"

	"verif/harness/core"
	"verif/harness/model"
	"verif/harness/mon"
)

// ---------------------------------------------------------------------------
// receivers, probes

type receiver struct {
	label string
	class string // "unknown", "known", "known-null", "known-partly-unknown", "dynamic"
	v     cty.Value
	st    model.C05State
}

func unkRecv(ty cty.Type) receiver {
	class := "unknown"
	if ty == cty.DynamicPseudoType {
		class = "dynamic"
	}
	return receiver{fmt.Sprintf("cty.UnknownVal(%#v)", ty), class, cty.UnknownVal(ty), model.C05UnknownState(ty)}
}

func nullRecv(ty cty.Type) receiver {
	return receiver{fmt.Sprintf("cty.NullVal(%#v)", ty), "known-null", cty.NullVal(ty), model.C05KnownState(ty, true, model.Num{}, "", 0, 0)}
}

func numRecv(v cty.Value, label string) receiver {
	return receiver{label, "known", v, model.C05KnownState(cty.Number, false, model.NumOf(v.AsBigFloat()), "", 0, 0)}
}

func strRecv(s string) receiver {
	return receiver{fmt.Sprintf("cty.StringVal(%q)", s), "known", cty.StringVal(s), model.C05KnownState(cty.String, false, model.Num{}, s, 0, 0)}
}

// collRecv: a known non-null collection whose possible lengths are lenMin..lenMax
// (they differ only for sets that hold unknown members).
func collRecv(v cty.Value, lenMin, lenMax int) receiver {
	class := "known"
	if !v.IsWhollyKnown() {
		class = "known-partly-unknown"
	}
	return receiver{fmt.Sprintf("%#v", v), class, v, model.C05KnownState(v.Type(), false, model.Num{}, "", lenMin, lenMax)}
}

func otherRecv(v cty.Value) receiver {
	return receiver{fmt.Sprintf("%#v", v), "known", v, model.C05KnownState(v.Type(), false, model.Num{}, "", 0, 0)}
}

func numProbe(f *big.Float) model.C05Probe {
	return model.C05Probe{V: cty.NumberVal(f), N: model.NumOf(f)}
}

func numProbeV(v cty.Value) model.C05Probe {
	return model.C05Probe{V: v, N: model.NumOf(v.AsBigFloat())}
}

func strProbe(s string) model.C05Probe {
	return model.C05Probe{V: cty.StringVal(s), S: norm.NFC.String(s)}
}

// collProbe builds a wholly known collection of n members conforming to ty.
func collProbe(ty cty.Type, n int) model.C05Probe {
	ety := ty.ElementType()
	mk := func(i int) cty.Value {
		switch {
		case ety == cty.Number:
			return cty.NumberIntVal(int64(i))
		case ety == cty.Bool:
			return cty.BoolVal(i%2 == 0)
		}
		return cty.StringVal(fmt.Sprintf("e%d", i))
	}
	var v cty.Value
	switch {
	case n == 0 && ty.IsListType():
		v = cty.ListValEmpty(elemOrString(ety))
	case n == 0 && ty.IsSetType():
		v = cty.SetValEmpty(elemOrString(ety))
	case n == 0:
		v = cty.MapValEmpty(elemOrString(ety))
	case ty.IsMapType():
		m := map[string]cty.Value{}
		for i := 0; i < n; i++ {
			m[fmt.Sprintf("k%d", i)] = mk(i)
		}
		v = cty.MapVal(m)
	default:
		es := make([]cty.Value, n)
		for i := range es {
			es[i] = mk(i)
		}
		if ty.IsListType() {
			v = cty.ListVal(es)
		} else {
			v = cty.SetVal(es)
		}
	}
	return model.C05Probe{V: v, Len: n}
}

func elemOrString(ety cty.Type) cty.Type {
	if ety == cty.DynamicPseudoType {
		return cty.String
	}
	return ety
}

func nullProbe(ty cty.Type) model.C05Probe { return model.C05Probe{V: cty.NullVal(ty), IsNull: true} }

func wrongTypeProbe(ty cty.Type) model.C05Probe {
	if ty == cty.Bool {
		return model.C05Probe{V: cty.StringVal("x"), WrongType: true}
	}
	return model.C05Probe{V: cty.True, WrongType: true}
}

// ---------------------------------------------------------------------------
// observation of a value through the public range accessors

type obs struct {
	known          bool
	v              cty.Value // unmarked
	notNull        bool
	lo, hi         model.Num
	loInc, hiInc   bool
	prefix         string
	minLen, maxLen int
	err            string
	kind           model.C05Kind
}

func observe(c *core.Ctx, val cty.Value, kind model.C05Kind) (o obs) {
	v, _ := val.Unmark()
	o.v = v
	o.kind = kind
	o.known = v.IsKnown()
	o.lo, o.hi = model.Num{Inf: -1}, model.Num{Inf: 1}
	o.loInc, o.hiInc = true, true
	o.maxLen = math.MaxInt
	out := core.Guard(func() {
		rng := v.Range()
		c.Eval(1)
		o.notNull = rng.DefinitelyNotNull()
		if rng.CouldBeNull() == o.notNull {
			o.err = "CouldBeNull and DefinitelyNotNull give the same answer"
			return
		}
		if !rng.TypeConstraint().Equals(v.Type()) {
			o.err = fmt.Sprintf("range type constraint %#v differs from the value's type %#v", rng.TypeConstraint(), v.Type())
			return
		}
		if v.IsKnown() && v.IsNull() {
			return
		}
		switch kind {
		case model.C05Num:
			lo, li := rng.NumberLowerBound()
			hi, hinc := rng.NumberUpperBound()
			for _, b := range []cty.Value{lo, hi} {
				if !b.IsKnown() || b.IsNull() || b.IsMarked() || b.Type() != cty.Number {
					o.err = fmt.Sprintf("numeric bound accessor returned %#v", b)
					return
				}
			}
			o.lo, o.loInc = model.NumOf(lo.AsBigFloat()), li
			o.hi, o.hiInc = model.NumOf(hi.AsBigFloat()), hinc
		case model.C05Str:
			o.prefix = rng.StringPrefix()
		case model.C05Coll:
			o.minLen, o.maxLen = rng.LengthLowerBound(), rng.LengthUpperBound()
		}
	})
	if out.Panicked {
		o.err = "range accessor panicked: " + out.PanicMsg
	}
	return
}

func (o obs) String() string {
	if o.err != "" {
		return "error: " + o.err
	}
	if o.known {
		return fmt.Sprintf("known %#v", o.v)
	}
	r := model.C05Range{Lo: o.lo, Hi: o.hi, LoInc: o.loInc, HiInc: o.hiInc, Prefix: o.prefix, MinLen: o.minLen, MaxLen: o.maxLen}
	if o.notNull {
		r.Null = model.TriFalse
	}
	return r.Show(o.kind)
}

// admits: does the observed value (by its reported range, or by itself when it
// is known) admit the probe?
func (o obs) admits(kind model.C05Kind, p model.C05Probe) bool {
	if !model.Conforms(model.TNodeOf(p.V.Type()), model.TNodeOf(o.v.Type())) {
		return false
	}
	if o.known {
		// Only results of refining an unknown receiver get here, and only after
		// collapseDiff has verified their shape: null, one number, or a collection
		// of exactly n unconstrained unknown members (mon.Admits is deliberately
		// too weak for sets: it would let the empty set pass for a one-member set).
		if o.v.IsNull() || p.IsNull {
			return o.v.IsNull() && p.IsNull
		}
		switch kind {
		case model.C05Num:
			return model.NumOf(o.v.AsBigFloat()).Cmp(p.N) == 0
		case model.C05Coll:
			return o.v.LengthInt() == p.Len
		}
		return mon.Admits(o.v, p.V) == ""
	}
	if p.IsNull {
		return !o.notNull
	}
	switch kind {
	case model.C05Num:
		r := model.C05Range{Lo: o.lo, Hi: o.hi, LoInc: o.loInc, HiInc: o.hiInc}
		return r.AdmitsNum(p.N)
	case model.C05Str:
		return strings.HasPrefix(p.S, o.prefix)
	case model.C05Coll:
		return p.Len >= o.minLen && p.Len <= o.maxLen
	}
	return true
}

// rangeDiff compares the reported range of an unknown result with the model.
func rangeDiff(o obs, st *model.C05State) (class, detail string) {
	r := st.R
	if r.Null == model.TriTrue {
		return "nullness", "the constraints say definitely null but the result is an unknown value (an unknown value's range cannot say that)"
	}
	if o.notNull != (r.Null == model.TriFalse) {
		return "nullness", fmt.Sprintf("DefinitelyNotNull=%t, constraints imply %t", o.notNull, r.Null == model.TriFalse)
	}
	switch st.Kind {
	case model.C05Num:
		if o.lo.Cmp(r.Lo) != 0 || o.loInc != r.LoInc {
			cl := "lower-bound"
			if r.Lo.Inf < 0 && !r.LoInc && o.lo.Inf < 0 {
				cl = "lower-bound:exclusive-negative-infinity-dropped"
			}
			return cl, fmt.Sprintf("lower bound reported (%s, inclusive=%t), constraints imply (%s, inclusive=%t)", o.lo, o.loInc, r.Lo, r.LoInc)
		}
		if o.hi.Cmp(r.Hi) != 0 || o.hiInc != r.HiInc {
			cl := "upper-bound"
			if r.Hi.Inf > 0 && !r.HiInc && o.hi.Inf > 0 {
				cl = "upper-bound:exclusive-positive-infinity-dropped"
			}
			return cl, fmt.Sprintf("upper bound reported (%s, inclusive=%t), constraints imply (%s, inclusive=%t)", o.hi, o.hiInc, r.Hi, r.HiInc)
		}
	case model.C05Str:
		if o.prefix != r.Prefix {
			return "prefix", fmt.Sprintf("prefix reported %q, constraints imply %q", o.prefix, r.Prefix)
		}
	case model.C05Coll:
		if o.minLen != r.MinLen {
			return "length-lower", fmt.Sprintf("length lower bound reported %d, constraints imply %d", o.minLen, r.MinLen)
		}
		if o.maxLen != r.MaxLen {
			return "length-upper", fmt.Sprintf("length upper bound reported %d, constraints imply %d", o.maxLen, r.MaxLen)
		}
	}
	return "", ""
}

func isPlainUnknown(c *core.Ctx, v cty.Value, ty cty.Type) bool {
	if v.IsKnown() || v.IsMarked() || !v.Type().Equals(ty) {
		return false
	}
	if ty == cty.DynamicPseudoType {
		return v == cty.DynamicVal
	}
	kind := model.C05KindOf(ty, false)
	o := observe(c, v, kind)
	if o.err != "" || o.notNull {
		return false
	}
	u := model.C05UnknownState(ty)
	cl, _ := rangeDiff(o, &u)
	return cl == ""
}

// collapseDiff: the result k of refining an unknown receiver is known; the
// property allows that only if k admits exactly what the constraints admit.
func collapseDiff(c *core.Ctx, k cty.Value, st *model.C05State) string {
	r := st.R
	if k.IsNull() {
		if r.Null != model.TriTrue {
			return "result is null but the constraints do not say definitely null"
		}
		return ""
	}
	if r.Null != model.TriFalse {
		return "result is a known non-null value but the constraints still admit null"
	}
	switch st.Kind {
	case model.C05Num:
		n := model.NumOf(k.AsBigFloat())
		if r.Lo.Cmp(r.Hi) != 0 || !r.LoInc || !r.HiInc || n.Cmp(r.Lo) != 0 {
			return fmt.Sprintf("result is the number %s but the constraints admit %s", n, r)
		}
		return ""
	case model.C05Coll:
		if r.MinLen != r.MaxLen {
			return fmt.Sprintf("result has a known length but the constraints admit lengths %d..%d", r.MinLen, r.MaxLen)
		}
		if !k.Length().IsKnown() || k.LengthInt() != r.MinLen {
			return fmt.Sprintf("result has length %#v, constraints say %d", k.Length(), r.MinLen)
		}
		ty := k.Type()
		n := r.MinLen
		switch {
		case n == 0:
			return ""
		case ty.IsMapType():
			return "a known non-empty map fixes keys that the constraints do not fix"
		case ty.IsSetType() && n > 1:
			return "a known set of several unknown members admits sets of fewer members (members may coalesce)"
		}
		for it := k.ElementIterator(); it.Next(); {
			_, e := it.Element()
			if !isPlainUnknown(c, e, ty.ElementType()) {
				return fmt.Sprintf("member %#v is not an unconstrained unknown of the element type", e)
			}
		}
		return ""
	}
	return "the constraints available for this type can never pin a single non-null value"
}

// ---------------------------------------------------------------------------
// applying calls to the real builder

func apply(b *cty.RefinementBuilder, call model.C05Call) *cty.RefinementBuilder {
	switch call.K {
	case model.C05NotNull:
		return b.NotNull()
	case model.C05Null:
		return b.Null()
	case model.C05Lower:
		return b.NumberRangeLowerBound(call.B.V, call.Inc)
	case model.C05Upper:
		return b.NumberRangeUpperBound(call.B.V, call.Inc)
	case model.C05Inclusive:
		return b.NumberRangeInclusive(call.B.V, call.B2.V)
	case model.C05LenLower:
		return b.CollectionLengthLowerBound(call.N)
	case model.C05LenUpper:
		return b.CollectionLengthUpperBound(call.N)
	case model.C05Len:
		return b.CollectionLength(call.N)
	case model.C05PrefixFull:
		return b.StringPrefixFull(call.S)
	case model.C05PrefixSafe:
		return b.StringPrefix(call.S)
	}
	panic("c05: unknown call kind")
}

type mode int

const (
	modeChain    mode = iota // one builder, all calls, NewValue after every call
	modeReRefine             // value.Refine().call().NewValue() per call
	modeWith                 // value.RefineWith(callbacks...) once
)

func (m mode) String() string { return [...]string{"chain", "re-refine", "RefineWith"}[m] }

type seqCase struct {
	rc        receiver
	calls     []model.C05Call
	mode      mode
	marks     cty.ValueMarks
	probes    []model.C05Probe
	checkFrom int // steps before this index are executed but only their accept/panic outcome is checked
}

func (s *seqCase) desc() string {
	var b strings.Builder
	b.WriteString(s.rc.label)
	if len(s.marks) > 0 {
		fmt.Fprintf(&b, ".WithMarks(%d marks)", len(s.marks))
	}
	switch s.mode {
	case modeChain:
		b.WriteString(".Refine()")
		for _, c := range s.calls {
			b.WriteString("." + c.String())
		}
		b.WriteString(".NewValue() [NewValue also taken after every call]")
	case modeReRefine:
		for _, c := range s.calls {
			b.WriteString(".Refine()." + c.String() + ".NewValue()")
		}
	case modeWith:
		b.WriteString(".RefineWith(")
		for i, c := range s.calls {
			if i > 0 {
				b.WriteString(", ")
			}
			b.WriteString(c.String())
		}
		b.WriteString(")")
	}
	return b.String()
}

func sameMarks(a, b cty.ValueMarks) bool { return mon.MarksSubset(a, b) && mon.MarksSubset(b, a) }

func contradictionFacet(reason string) string {
	switch reason {
	case "wrong-kind", "null-bound":
		return "call documented to panic was accepted"
	}
	return "contradictory constraint accepted"
}

// safeOf observes ctystrings.SafeKnownPrefix for a StringPrefix call and checks
// that nothing was invented: the kept part is a byte prefix of NFC(given).
func safeOf(c *core.Ctx, call model.C05Call, witness func() string) (string, bool) {
	if call.K != model.C05PrefixSafe {
		return "", true
	}
	q, ok := safePrefix(c, call.S)
	if !ok {
		return "", false
	}
	if !strings.HasPrefix(norm.NFC.String(call.S), q) {
		c.Violate("ctystrings.SafeKnownPrefix", "safe prefix is not a byte prefix of the normalized given prefix", cutClass(call.S, ""), witness(),
			fmt.Sprintf("SafeKnownPrefix(%q) = %q; NFC(given) = %q", call.S, q, norm.NFC.String(call.S)))
		return "", false
	}
	return q, true
}

// runSeq executes one sequence against the real builder in lock-step with the model.
func runSeq(c *core.Ctx, idx int64, s *seqCase) {
	c.Begin(idx, s.desc)
	st := s.rc.st // copy
	kind := st.Kind
	recv := s.rc.v
	if len(s.marks) > 0 {
		recv = recv.WithMarks(s.marks)
	}
	c.Count("mode:" + s.mode.String())
	c.Count("receiver:" + kind.String() + "/" + s.rc.class)
	if len(s.marks) > 0 {
		c.Count("receiver:marked")
	}
	nontrivial := false
	defer func() { c.Distinct(s.desc(), nontrivial) }()

	if s.mode == modeWith {
		runWith(c, s, recv, &st, &nontrivial)
		return
	}

	type snap struct {
		v cty.Value
		o obs
	}
	var snaps []snap
	var b *cty.RefinementBuilder
	cur := recv
	before := observe(c, recv, kind)
	recvObs := before
	if before.err != "" {
		c.Violate("Value.Range", "range accessors failed on the receiver", "", s.desc(), before.err)
		return
	}
	if s.mode == modeChain {
		if out := core.Guard(func() { b = recv.Refine() }); out.Panicked {
			c.Violate("Value.Refine", "panic: "+core.PanicClass(out.PanicMsg), kind.String(), s.desc(), out.PanicMsg+"\n"+out.Stack)
			return
		}
		c.Eval(1)
	}
	for i, call := range s.calls {
		site := "RefinementBuilder." + call.K.String()
		safe, ok := safeOf(c, call, s.desc)
		if !ok {
			return
		}
		prevR := st.R
		exp, reason := st.Step(call, safe)
		c.Count("call:" + call.K.String())
		c.Count("expect:" + exp.String())
		if reason != "" {
			c.Count("reason:" + reason)
		}
		if exp != model.C05MustAccept || prevR != st.R {
			nontrivial = true
		}
		// execute the call
		var rb *cty.RefinementBuilder
		out := core.Guard(func() {
			if s.mode == modeReRefine {
				b = cur.Refine()
			}
			rb = apply(b, call)
		})
		c.Eval(1)
		wit := func() string {
			return fmt.Sprintf("%s   [step %d: %s; model before: %s]", s.desc(), i, call, prevR.Show(kind))
		}
		switch exp {
		case model.C05MustPanic:
			if !out.Panicked {
				c.Violate(site, contradictionFacet(reason), reason, wit(), fmt.Sprintf("the call returned normally; the model calls it %s", reason))
			} else {
				c.Count("clause:contradiction-rejected")
			}
			return
		case model.C05Free:
			if out.Panicked {
				c.Count("free:" + reason + ":panicked")
			} else {
				c.Count("free:" + reason + ":accepted")
			}
			return
		}
		if out.Panicked {
			c.Violate(site, "consistent constraint rejected", core.PanicClass(out.PanicMsg), wit(), "panic: "+out.PanicMsg+"\n"+out.Stack)
			return
		}
		c.Count("clause:consistent-accepted")
		if rb != b {
			c.Violate(site, "builder method returned a different builder", "", wit(), "")
			return
		}
		// take the value
		var nv cty.Value
		out = core.Guard(func() { nv = b.NewValue() })
		c.Eval(1)
		if out.Panicked {
			c.Violate("RefinementBuilder.NewValue", "panic: "+core.PanicClass(out.PanicMsg), newValueClass(&st), wit(), out.PanicMsg+"\n"+out.Stack)
			return
		}
		if w := mon.WellFormed(nv); w != "" {
			c.CrossNote("C06", "RefinementBuilder.NewValue: "+w, wit())
		} else if err := cty.VerifWellFormed(nv); err != nil {
			c.CrossNote("C06", "RefinementBuilder.NewValue (hook): "+err.Error(), wit())
		}
		full := i >= s.checkFrom
		after, stop := checkResult(c, s, &st, site, recv, nv, before, full, wit)
		if stop {
			return
		}
		snaps = append(snaps, snap{nv, after})
		if s.mode != modeChain {
			cur = nv
			// the next receiver is what came back: a collapsed result is a known receiver from now on
			if !st.Known && kind != model.C05DynIgnore && after.known {
				st = knownStateOf(&st, after.v)
			}
		}
		before = after
	}
	// Values handed out earlier (and the receiver itself) still report exactly what THEIR constraints imply after the
	// builder was used further (chain) or after they were refined again (re-refine): the range of a value is a
	// function of the constraints stated for it, not of what happened to values derived from it.
	first := observe(c, recv, kind)
	if first.String() != recvObs.String() {
		c.Violate("Value.Refine", "range reported by a value changed after it was refined again", "receiver/"+s.mode.String(), s.desc(),
			fmt.Sprintf("receiver before: %s, after the sequence: %s", recvObs, first))
		return
	}
	for k, sn := range snaps {
		if k == len(snaps)-1 {
			break
		}
		again := observe(c, sn.v, kind)
		c.Count("clause:earlier-value-unchanged")
		if again.String() != sn.o.String() {
			c.Violate("RefinementBuilder.NewValue", "range reported by a value changed after it was refined again", "earlier-result/"+s.mode.String(), s.desc(),
				fmt.Sprintf("value returned after call %d reported %s, after the later calls it reports %s", k, sn.o, again))
			c.CrossNote("C20", "RefinementBuilder.NewValue: a value returned earlier changed when the same builder (or a builder derived from the value) was used further", s.desc())
			break
		}
	}
}

func newValueClass(st *model.C05State) string {
	if st.Kind == model.C05Coll && st.R.MinLen == math.MaxInt {
		return "length-lower-bound-MaxInt"
	}
	return st.Kind.String()
}

// knownStateOf: model of a receiver that is the collapsed result k (already
// verified by collapseDiff against st).
func knownStateOf(st *model.C05State, k cty.Value) model.C05State {
	if k.IsNull() {
		return model.C05KnownState(st.Ty, true, model.Num{}, "", 0, 0)
	}
	switch st.Kind {
	case model.C05Num:
		return model.C05KnownState(st.Ty, false, st.R.Lo, "", 0, 0)
	case model.C05Coll:
		return model.C05KnownState(st.Ty, false, model.Num{}, "", st.R.MinLen, st.R.MinLen)
	}
	return model.C05KnownState(st.Ty, false, model.Num{}, "", 0, 0)
}

// checkResult evaluates every oracle clause on the value nv obtained after a
// step that the model accepted.
func checkResult(c *core.Ctx, s *seqCase, st *model.C05State, site string, recv, nv cty.Value, before obs, full bool, wit func() string) (after obs, stop bool) {
	kind := st.Kind
	// type never changes
	if !nv.Type().Equals(st.Ty) {
		c.Violate(site, "refinement changed the type", "", wit(), fmt.Sprintf("result type %#v, receiver type %#v", nv.Type(), st.Ty))
		return after, true
	}
	c.Count("clause:type-preserved")
	// marks are those of the receiver
	uv, gotMarks := nv.Unmark()
	if !sameMarks(gotMarks, s.marks) {
		c.Violate(site, "result marks differ from the receiver's marks", "", wit(), fmt.Sprintf("got %#v want %#v", gotMarks, s.marks))
		return after, true
	}
	after = observe(c, nv, kind)
	if after.err != "" {
		c.Violate("Value.Range", "range accessors failed on the result", "", wit(), after.err)
		return after, true
	}
	switch {
	case kind == model.C05DynIgnore:
		if uv != cty.DynamicVal {
			c.Violate(site, "refining DynamicVal did not give back DynamicVal", "", wit(), fmt.Sprintf("got %#v", nv))
			return after, true
		}
		c.Count("clause:dynamic-ignored")
		return after, false
	case st.Known:
		ur, _ := recv.Unmark()
		if s.mode == modeReRefine {
			ur = before.v
		}
		if !mon.ModelEqual(uv, ur) {
			c.Violate(site, "a true constraint on a known value did not give the same value back", "", wit(), fmt.Sprintf("got %#v from %#v", uv, ur))
			return after, true
		}
		c.Count("clause:known-value-back")
		return after, false
	}
	// unknown receiver
	if after.known {
		c.Count("result:collapsed-to-known")
		if why := collapseDiff(c, uv, st); why != "" {
			c.Violate("RefinementBuilder.NewValue", "result became known although it does not admit exactly what the constraints admit", kind.String(), wit(),
				fmt.Sprintf("result %#v; constraints imply %s; %s", uv, st.R, why))
			return after, true
		}
		c.Count("clause:collapse-exact")
	} else {
		c.Count("result:unknown")
		if cl, det := rangeDiff(after, st); cl != "" {
			c.Violate("Value.Range", "reported range differs from what the stated constraints imply", cl, wit(), fmt.Sprintf("%s; reported %s; constraints imply %s", det, after, st.R.Show(st.Kind)))
			return after, true
		}
		c.Count("clause:range-exact")
	}
	if !full {
		return after, false
	}
	var rng cty.ValueRange
	core.Guard(func() { rng = uv.Range() })
	for _, p := range s.probes {
		mAdm, _ := st.AdmitsProbe(p)
		bAdm := before.admits(kind, p)
		aAdm := after.admits(kind, p)
		pw := func() string { return wit() + fmt.Sprintf("   probe %#v", p.V) }
		if mAdm {
			c.Count("probe:model-admits")
		} else {
			c.Count("probe:model-excludes")
		}
		if !bAdm && aAdm {
			c.Violate(site, "range widened: a value excluded before is admitted after", kind.String(), pw(), fmt.Sprintf("before %s; after %s", before, after))
		}
		if mAdm && !aAdm {
			c.Violate(site, "a value satisfying every stated constraint is no longer admitted", kind.String(), pw(), fmt.Sprintf("after %s; constraints imply %s", after, st.R.Show(st.Kind)))
		}
		c.Count("clause:no-widening+stays-admitted")
		var inc, eq cty.Value
		out := core.Guard(func() { inc = rng.Includes(p.V) })
		c.Eval(1)
		if out.Panicked {
			c.Violate("ValueRange.Includes", "panic: "+core.PanicClass(out.PanicMsg), kind.String(), pw(), out.PanicMsg+"\n"+out.Stack)
		} else if inc.IsKnown() {
			if inc.False() && mAdm {
				c.Violate("ValueRange.Includes", "answers False for a value the constraints admit", includesClass(st, p), pw(), fmt.Sprintf("range %s; constraints imply %s", after, st.R.Show(st.Kind)))
			} else if inc.True() && !mAdm {
				c.Violate("ValueRange.Includes", "answers True for a value the constraints exclude", includesClass(st, p), pw(), fmt.Sprintf("range %s; constraints imply %s", after, st.R.Show(st.Kind)))
			}
			if inc.False() {
				c.Count("includes:False")
			} else {
				c.Count("includes:True")
			}
		} else {
			c.Count("includes:unknown")
		}
		out = core.Guard(func() { eq = uv.Equals(p.V) })
		c.Eval(1)
		if out.Panicked {
			c.CrossNote("C01", "Value.Equals panicked on a refined value: "+core.PanicClass(out.PanicMsg), pw())
		} else if eq.IsKnown() {
			if eq.False() && mAdm && !after.known {
				c.Violate("Value.Equals", "answers False for a value the constraints admit", includesClass(st, p), pw(), fmt.Sprintf("range %s; constraints imply %s", after, st.R.Show(st.Kind)))
			} else if eq.True() && !mAdm {
				c.Violate("Value.Equals", "answers True for a value the constraints exclude", includesClass(st, p), pw(), fmt.Sprintf("range %s; constraints imply %s", after, st.R.Show(st.Kind)))
			}
			c.Count("equals:known-answer")
		} else {
			c.Count("equals:unknown")
		}
	}
	if c.WantSample() {
		c.Sample(map[string]any{"case": s.desc(), "model": st.R.Show(st.Kind), "observed": after.String()})
	}
	return after, false
}

func includesClass(st *model.C05State, p model.C05Probe) string {
	cl := st.Kind.String()
	switch {
	case p.IsNull:
		cl += "/null-probe"
	case p.WrongType:
		cl += "/wrong-type-probe"
	case st.Kind == model.C05Num && p.N.IsInf():
		cl += "/infinite-probe"
	}
	return cl
}

// runWith: all calls through Value.RefineWith, one observation at the end.
func runWith(c *core.Ctx, s *seqCase, recv cty.Value, st *model.C05State, nontrivial *bool) {
	kind := st.Kind
	before := observe(c, recv, kind)
	if before.err != "" {
		c.Violate("Value.Range", "range accessors failed on the receiver", "", s.desc(), before.err)
		return
	}
	exp, reason, at := model.C05MustAccept, "", -1
	var fns []func(*cty.RefinementBuilder) *cty.RefinementBuilder
	for i, call := range s.calls {
		safe, ok := safeOf(c, call, s.desc)
		if !ok {
			return
		}
		call := call
		fns = append(fns, func(b *cty.RefinementBuilder) *cty.RefinementBuilder { return apply(b, call) })
		if exp == model.C05MustAccept {
			prevR := st.R
			exp, reason = st.Step(call, safe)
			c.Count("call:" + call.K.String())
			c.Count("expect:" + exp.String())
			if exp != model.C05MustAccept || prevR != st.R {
				*nontrivial = true
			}
			if exp != model.C05MustAccept {
				at = i
			}
		}
	}
	var nv cty.Value
	out := core.Guard(func() { nv = recv.RefineWith(fns...) })
	c.Eval(1)
	wit := func() string { return s.desc() }
	switch exp {
	case model.C05MustPanic:
		if !out.Panicked {
			c.Violate("RefinementBuilder."+s.calls[at].K.String(), contradictionFacet(reason), reason, wit(), fmt.Sprintf("RefineWith returned %#v; the model calls callback %d %s", nv, at, reason))
		} else {
			c.Count("clause:contradiction-rejected")
		}
		return
	case model.C05Free:
		c.Count("free:" + reason)
		return
	}
	if out.Panicked {
		if strings.Contains(out.Stack, "RefinementBuilder).NewValue") {
			c.Violate("RefinementBuilder.NewValue", "panic: "+core.PanicClass(out.PanicMsg), newValueClass(st), wit(), out.PanicMsg+"\n"+out.Stack)
			return
		}
		c.Violate("Value.RefineWith", "consistent constraint rejected", core.PanicClass(out.PanicMsg), wit(), "panic: "+out.PanicMsg+"\n"+out.Stack)
		return
	}
	c.Count("clause:consistent-accepted")
	checkResult(c, s, st, "Value.RefineWith", recv, nv, before, true, wit)
}
