// Package c05: refinements only narrow, are faithful, and prefixes are continuation-safe.
package c05

import (
	"fmt"
	"math"
	"math/big"
	"strings"
	"unicode/utf8"

	"github.com/zclconf/go-cty/cty"
	"github.com/zclconf/go-cty/cty/ctystrings"
	"golang.org/x/text/unicode/norm"

	"verif/harness/core"
	"verif/harness/gen"
	"verif/harness/model"
)

type Driver struct{}

func (Driver) ID() string { return "C05" }

func (Driver) Info() core.Info {
	return core.Info{
		Title: "refinements only narrow, are faithful, and prefixes are continuation-safe",
		Rule: "case = (receiver, sequence of refinement-builder calls, way of applying them: one builder with NewValue after every call / Refine..NewValue per call / RefineWith) " +
			"executed in lock-step with a range model, plus candidate concrete values tested for membership after every call; " +
			"every sequence up to the tier's depth over a fixed call menu per type kind is enumerated (pruned where the model predicts a panic), longer sequences are sampled around a hidden target value; " +
			"case = (prefix, continuation) for the safe-prefix clause: all pairs over the 41-code-point alphabet up to the tier's lengths, plus sampled long pairs. " +
			"distinct = hash of the printed case (enumerated pairs are distinct by construction); non-trivial = at least one call changed the model range or was predicted to be rejected " +
			"(sequences), every enumerated pair, sampled pairs whose concatenation composes or whose safe part is non-empty",
		Assumptions: []string{
			"the range model is written from docs/refinements.md: unset bounds are (-Inf, inclusive)/(+Inf, inclusive), lengths 0..MaxInt, numeric/prefix/length constraints speak about the non-null case only",
			"numeric bounds are restricted to numbers on which big.Float comparison and the documented equality coincide (integers, dyadic fractions, infinities, signed zero)",
			"NFC is golang.org/x/text/unicode/norm (trusted base, the same tables the library uses)",
			"a typed constraint stated on a known null receiver is recorded only (documentation is silent); so is a length constraint that a set with unknown members may or may not satisfy",
			"using a builder after one of its methods panicked is outside the contract: a sequence ends at the first predicted panic",
		},
		MinNontrivial: 20000,
	}
}

func (Driver) Batches(tier string) int {
	if tier == "thorough" {
		return 64
	}
	return 16
}

// ---------------------------------------------------------------------------
// call menus and receivers of the exhaustive part

func bnd(v cty.Value, label string) model.C05Bound {
	b := model.C05Bound{V: v, Label: label}
	switch {
	case !v.IsKnown():
		b.Unknown = true
	case v.IsNull():
		b.Null = true
	default:
		b.N = model.NumOf(v.AsBigFloat())
	}
	return b
}

func ibnd(i int64) model.C05Bound {
	return bnd(cty.NumberIntVal(i), fmt.Sprintf("cty.NumberIntVal(%d)", i))
}

func fbnd(f *big.Float) model.C05Bound {
	return bnd(cty.NumberVal(f), fmt.Sprintf("cty.MustParseNumberVal(%q)", f.Text('g', -1)))
}

var (
	negInfSingleton = bnd(cty.NegativeInfinity, "cty.NegativeInfinity")
	posInfSingleton = bnd(cty.PositiveInfinity, "cty.PositiveInfinity")
)

func negInfFresh() model.C05Bound {
	return bnd(cty.NumberFloatVal(math.Inf(-1)), "cty.NumberFloatVal(math.Inf(-1))")
}
func posInfFresh() model.C05Bound {
	return bnd(cty.NumberFloatVal(math.Inf(1)), "cty.NumberFloatVal(math.Inf(1))")
}

// the nine bound values of the enumerated menu: equal neighbours, the same
// number at another precision, and both infinities as singleton and freshly built.
func menuBounds() []model.C05Bound {
	return []model.C05Bound{
		negInfSingleton, negInfFresh(), ibnd(-1), ibnd(0), ibnd(1), bnd(cty.MustParseNumberVal("1"), `cty.MustParseNumberVal("1")`), ibnd(2), posInfSingleton, posInfFresh(),
	}
}

func lower(b model.C05Bound, inc bool) model.C05Call {
	return model.C05Call{K: model.C05Lower, B: b, Inc: inc}
}
func upper(b model.C05Bound, inc bool) model.C05Call {
	return model.C05Call{K: model.C05Upper, B: b, Inc: inc}
}
func lenLower(n int) model.C05Call    { return model.C05Call{K: model.C05LenLower, N: n} }
func lenUpper(n int) model.C05Call    { return model.C05Call{K: model.C05LenUpper, N: n} }
func lenExact(n int) model.C05Call    { return model.C05Call{K: model.C05Len, N: n} }
func prefFull(s string) model.C05Call { return model.C05Call{K: model.C05PrefixFull, S: s} }
func prefSafe(s string) model.C05Call { return model.C05Call{K: model.C05PrefixSafe, S: s} }

var (
	notNull = model.C05Call{K: model.C05NotNull}
	isNull  = model.C05Call{K: model.C05Null}
)

type family struct {
	name           string
	recvs          []receiver
	calls          []model.C05Call
	probes         func(rc receiver) []model.C05Probe
	depthQ, depthT int
}

func rat(s string) *big.Float {
	f, _, err := big.ParseFloat(s, 10, 600, big.ToNearestEven)
	if err != nil {
		panic(err)
	}
	return f
}

func fixedNumProbes() []model.C05Probe {
	ps := []model.C05Probe{numProbeV(cty.NegativeInfinity), numProbeV(cty.PositiveInfinity)}
	for _, s := range []string{"-2", "-1", "-0.5", "0", "0.5", "1", "1.5", "2", "3"} {
		ps = append(ps, numProbe(rat(s)))
	}
	return append(ps, nullProbe(cty.Number), wrongTypeProbe(cty.Number))
}

var menuStrings = []string{"", "a", "ab", "ab:", "ab:c", "ac", "e\u0301", "\u00e9-"}

func fixedStrProbes() []model.C05Probe {
	var ps []model.C05Probe
	for _, s := range []string{"", "a", "ab", "ab:", "ab:c", "ab:cd", "ac", "b", "e", "\u00e9", "e\u0301-", "\u00e9-x", "a\u0301"} {
		ps = append(ps, strProbe(s))
	}
	return append(ps, nullProbe(cty.String), wrongTypeProbe(cty.String))
}

func fixedCollProbes(ty cty.Type) []model.C05Probe {
	var ps []model.C05Probe
	for _, n := range []int{0, 1, 2, 3, 5, 6} {
		ps = append(ps, collProbe(ty, n))
	}
	return append(ps, nullProbe(ty), wrongTypeProbe(ty))
}

var objTy = cty.Object(map[string]cty.Type{"a": cty.String})
var tupTy = cty.Tuple([]cty.Type{cty.Number, cty.Bool})

// further structural types of the same KIND (and the same friendly name) as objTy / tupTy: a range of one
// object type must tell values of the other object types apart, whatever was asked before
var objDynTy = cty.Object(map[string]cty.Type{"a": cty.DynamicPseudoType})
var objOtherTy = cty.Object(map[string]cty.Type{"b": cty.Number})
var tupOtherTy = cty.Tuple([]cty.Type{cty.String})

func nullableValue(ty cty.Type) cty.Value {
	switch {
	case ty == cty.Bool:
		return cty.True
	case ty.Equals(objTy):
		return cty.ObjectVal(map[string]cty.Value{"a": cty.StringVal("x")})
	case ty.Equals(objDynTy):
		return cty.ObjectVal(map[string]cty.Value{"a": cty.NumberIntVal(7)})
	case ty.Equals(objOtherTy):
		return cty.ObjectVal(map[string]cty.Value{"b": cty.NumberIntVal(2)})
	case ty.Equals(tupTy):
		return cty.TupleVal([]cty.Value{cty.NumberIntVal(1), cty.False})
	case ty.Equals(tupOtherTy):
		return cty.TupleVal([]cty.Value{cty.StringVal("t")})
	case ty.Equals(model.CapsuleA):
		return model.NewCapA(1)
	}
	// any other object / tuple type (e.g. the concrete type of a known receiver declared with a dynamic attribute)
	simple := func(t cty.Type) cty.Value {
		switch t {
		case cty.String:
			return cty.StringVal("x")
		case cty.Number:
			return cty.NumberIntVal(7)
		case cty.Bool:
			return cty.True
		}
		return cty.NullVal(t)
	}
	switch {
	case ty.IsObjectType():
		vs := map[string]cty.Value{}
		for k, t := range ty.AttributeTypes() {
			vs[k] = simple(t)
		}
		return cty.ObjectVal(vs)
	case ty.IsTupleType():
		var vs []cty.Value
		for _, t := range ty.TupleElementTypes() {
			vs = append(vs, simple(t))
		}
		return cty.TupleVal(vs)
	}
	panic("no value for " + ty.FriendlyName())
}

func nullableProbes(ty cty.Type) []model.C05Probe {
	if ty == cty.DynamicPseudoType {
		return []model.C05Probe{nullProbe(ty), {V: cty.StringVal("x")}}
	}
	ps := []model.C05Probe{nullProbe(ty), {V: nullableValue(ty)}, wrongTypeProbe(ty)}
	// values of the other types of the same kind: conforming ones (an object{a:string} value conforms to
	// object{a:dynamic}) are admitted like the type's own value, the others are of the wrong type
	if ty.IsObjectType() || ty.IsTupleType() {
		for _, oty := range []cty.Type{objTy, objDynTy, objOtherTy, tupTy, tupOtherTy} {
			if oty.Equals(ty) {
				continue
			}
			v := nullableValue(oty)
			ps = append(ps, model.C05Probe{V: v, WrongType: v.Type().TestConformance(ty) != nil})
			ps = append(ps, model.C05Probe{V: nullableValue(ty)}) // and the own value again, after the foreign one
		}
	}
	return ps
}

func families() []family {
	var fs []family
	// numbers
	{
		calls := []model.C05Call{notNull, isNull}
		for _, b := range menuBounds() {
			for _, inc := range []bool{true, false} {
				calls = append(calls, lower(b, inc), upper(b, inc))
			}
		}
		calls = append(calls,
			lower(bnd(cty.UnknownVal(cty.Number), "cty.UnknownVal(cty.Number)"), true),
			upper(bnd(cty.NullVal(cty.Number), "cty.NullVal(cty.Number)"), true),
			prefFull("a"), lenLower(1))
		recvs := []receiver{unkRecv(cty.Number),
			numRecv(cty.NumberIntVal(0), "cty.NumberIntVal(0)"), numRecv(cty.NumberIntVal(1), "cty.NumberIntVal(1)"), numRecv(cty.NumberFloatVal(0.5), "cty.NumberFloatVal(0.5)"),
			numRecv(cty.PositiveInfinity, "cty.PositiveInfinity"), numRecv(cty.NumberFloatVal(math.Inf(-1)), "cty.NumberFloatVal(math.Inf(-1))"),
			nullRecv(cty.Number)}
		fs = append(fs, family{"number", recvs, calls, func(receiver) []model.C05Probe { return fixedNumProbes() }, 3, 4})
	}
	// strings
	{
		calls := []model.C05Call{notNull, isNull}
		for _, s := range menuStrings {
			calls = append(calls, prefFull(s), prefSafe(s))
		}
		calls = append(calls, lower(ibnd(0), true), lenExact(0))
		recvs := []receiver{unkRecv(cty.String), strRecv(""), strRecv("ab"), strRecv("ab:c"), strRecv("e\u0301-x"), nullRecv(cty.String)}
		fs = append(fs, family{"string", recvs, calls, func(receiver) []model.C05Probe { return fixedStrProbes() }, 3, 4})
	}
	// collections
	{
		calls := []model.C05Call{notNull, isNull}
		for _, n := range []int{-1, 0, 1, 2, 5, math.MaxInt} {
			calls = append(calls, lenLower(n), lenUpper(n))
			if n >= 0 {
				calls = append(calls, lenExact(n))
			}
		}
		calls = append(calls, prefFull("a"), upper(ibnd(1), true))
		s := func(x string) cty.Value { return cty.StringVal(x) }
		us := cty.UnknownVal(cty.String)
		recvs := []receiver{
			unkRecv(cty.List(cty.String)), unkRecv(cty.Set(cty.String)), unkRecv(cty.Map(cty.String)), unkRecv(cty.List(cty.DynamicPseudoType)),
			collRecv(cty.ListValEmpty(cty.String), 0, 0), collRecv(cty.ListVal([]cty.Value{s("a"), s("b")}), 2, 2), collRecv(cty.ListVal([]cty.Value{us, us}), 2, 2),
			collRecv(cty.SetVal([]cty.Value{s("a")}), 1, 1), collRecv(cty.SetVal([]cty.Value{us, s("a")}), 1, 2),
			collRecv(cty.MapVal(map[string]cty.Value{"k": s("a")}), 1, 1),
			nullRecv(cty.List(cty.String)),
		}
		fs = append(fs, family{"collection", recvs, calls, func(rc receiver) []model.C05Probe { return fixedCollProbes(rc.v.Type()) }, 3, 4})
	}
	// nullness only
	{
		calls := []model.C05Call{notNull, isNull, lower(ibnd(0), true), lenUpper(1), prefSafe("a")}
		var recvs []receiver
		for _, ty := range []cty.Type{cty.Bool, objTy, tupTy, model.CapsuleA, objDynTy, objOtherTy, tupOtherTy} {
			recvs = append(recvs, unkRecv(ty), otherRecv(nullableValue(ty)), nullRecv(ty))
		}
		recvs = append(recvs, nullRecv(cty.DynamicPseudoType))
		fs = append(fs, family{"nullable-only", recvs, calls, func(rc receiver) []model.C05Probe { return nullableProbes(rc.v.Type()) }, 3, 4})
	}
	// DynamicVal ignores everything
	{
		calls := []model.C05Call{notNull, isNull, lower(ibnd(1), false), upper(ibnd(0), true), upper(bnd(cty.NullVal(cty.Number), "cty.NullVal(cty.Number)"), true),
			lenLower(3), lenUpper(1), lenExact(2), prefFull("a"), prefSafe("b")}
		fs = append(fs, family{"dynamic", []receiver{unkRecv(cty.DynamicPseudoType)}, calls, func(receiver) []model.C05Probe { return nil }, 2, 3})
	}
	return fs
}

// safeQuiet: SafeKnownPrefix for stepping the model during enumeration (the
// monitored call happens in runSeq).
func safeQuiet(s string) (q string) {
	core.Guard(func() { q = ctystrings.SafeKnownPrefix(s) })
	return
}

// modelAccepts replays the model on calls and reports whether every call is accepted.
func modelAccepts(rc receiver, calls []model.C05Call) bool {
	st := rc.st
	for _, call := range calls {
		safe := ""
		if call.K == model.C05PrefixSafe {
			safe = safeQuiet(call.S)
		}
		if e, _ := st.Step(call, safe); e != model.C05MustAccept {
			return false
		}
	}
	return true
}

// runEnumeration: every sequence of at most depth calls over each family's menu
// (a sequence is extended only while the model accepts it), in chain and in
// re-refine mode. Roots (receiver, first call) are split between the batches.
func runEnumeration(c *core.Ctx, base int64) {
	idx := base
	var root int64
	for _, fam := range families() {
		depth := c.N(fam.depthQ, fam.depthT)
		var nodes int64
		var dfs func(rc receiver, probes []model.C05Probe, path []model.C05Call)
		dfs = func(rc receiver, probes []model.C05Probe, path []model.C05Call) {
			for _, m := range []mode{modeChain, modeReRefine} {
				idx++
				if !c.Want(idx) {
					continue
				}
				runSeq(c, idx, &seqCase{rc: rc, calls: path, mode: m, probes: probes, checkFrom: len(path) - 1})
			}
			nodes++
			if len(path) >= depth || !modelAccepts(rc, path) {
				return
			}
			for _, call := range fam.calls {
				next := append(append(make([]model.C05Call, 0, len(path)+1), path...), call)
				dfs(rc, probes, next)
			}
		}
		for _, rc := range fam.recvs {
			probes := fam.probes(rc)
			if rc.st.Known {
				if c.Batch == 0 {
					checkKnownRange(c, rc)
				}
			}
			for _, call := range fam.calls {
				root++
				if !c.Mine(root) {
					continue
				}
				dfs(rc, probes, []model.C05Call{call})
			}
		}
		c.CountN("enumerated-sequences:"+fam.name, nodes)
		c.Exhaustive(fmt.Sprintf("%s: every call sequence of length <= %d over a menu of %d calls on %d receivers, extended only while the model accepts, x {chain, re-refine}", fam.name, depth, len(fam.calls), len(fam.recvs)))
	}
}

// checkKnownRange: the synthetic range of a known value describes that value.
func checkKnownRange(c *core.Ctx, rc receiver) {
	st := rc.st
	o := observe(c, rc.v, st.Kind)
	wit := rc.label + ".Range()"
	c.Count("clause:known-value-range")
	if o.err != "" {
		c.Violate("Value.Range", "range accessors failed on the receiver", "", wit, o.err)
		return
	}
	bad := func(class, detail string) {
		c.Violate("Value.Range", "synthetic range of a known value does not describe that value", class, wit, detail+"; reported "+o.String())
	}
	if st.KnownNull {
		if o.notNull {
			bad("nullness", "a null value reports DefinitelyNotNull")
		}
		return
	}
	if !o.notNull {
		bad("nullness", "a known non-null value does not report DefinitelyNotNull")
	}
	uv, _ := rc.v.Unmark()
	if uv.IsWhollyKnown() {
		var inc cty.Value
		out := core.Guard(func() { inc = uv.Range().Includes(uv) })
		c.Eval(1)
		if out.Panicked {
			bad("includes-self", "Includes(self) panicked: "+out.PanicMsg)
		} else if inc.IsKnown() && inc.False() {
			bad("includes-self", "Includes(self) answers False")
		}
	}
	switch st.Kind {
	case model.C05Num:
		if o.lo.Cmp(st.KnownNum) != 0 || o.hi.Cmp(st.KnownNum) != 0 || !o.loInc || !o.hiInc {
			bad("number", fmt.Sprintf("expected [%s, %s]", st.KnownNum, st.KnownNum))
		}
	case model.C05Str:
		if o.prefix != st.KnownStr {
			bad("prefix", fmt.Sprintf("expected prefix %q", st.KnownStr))
		}
	case model.C05Coll:
		if o.minLen > st.LenMin || o.maxLen < st.LenMax {
			bad("length", fmt.Sprintf("possible lengths %d..%d are not all admitted", st.LenMin, st.LenMax))
		} else if st.LenMin == st.LenMax && (o.minLen != st.LenMin || o.maxLen != st.LenMax) {
			bad("length", fmt.Sprintf("length is exactly %d", st.LenMin))
		}
	}
}

// ---------------------------------------------------------------------------
// sampled sequences

func addF(f *big.Float, d float64) *big.Float {
	return new(big.Float).SetPrec(700).Add(f, new(big.Float).SetPrec(700).SetFloat64(d))
}

func runePrefix(s string, n int) string {
	i := 0
	for k := 0; k < n && i < len(s); k++ {
		_, w := utf8.DecodeRuneInString(s[i:])
		i += w
	}
	return s[:i]
}

func sampleSeq(c *core.Ctx, r *core.Rand) *seqCase {
	s := &seqCase{}
	switch r.Weighted([]int{20, 25, 40, 15}) {
	case 0:
		s.mode = modeWith
	case 1:
		s.mode = modeReRefine
	default:
		s.mode = modeChain
	}
	if s.mode == modeChain && r.Chance(1, 3) {
		s.mode = modeReRefine
	}
	if r.Chance(15, 100) {
		s.marks = cty.NewValueMarks(gen.Marks[r.Intn(3)])
		if r.Chance(1, 3) {
			s.marks[gen.Marks[r.Intn(3)]] = struct{}{}
		}
	}
	ncalls := 1 + r.Intn(7)
	wrongKind := func(own model.C05Kind) model.C05Call {
		for {
			cand := []model.C05Call{lower(ibnd(0), true), upper(ibnd(0), false), lenLower(0), lenUpper(3), lenExact(1), prefFull(""), prefSafe("a")}[r.Intn(7)]
			if k, _ := cand.KindWanted(); k != own {
				return cand
			}
		}
	}
	recvPick := r.Weighted([]int{55, 35, 10}) // unknown, known target, null
	switch r.Weighted([]int{40, 25, 25, 7, 3}) {
	case 0: // number
		var t *big.Float
		for {
			nc := gen.ExactNumber(r)
			t = nc.V.AsBigFloat()
			if t.IsInf() || t.MantExp(nil) < 400 {
				break
			}
		}
		tv := cty.NumberVal(t)
		switch recvPick {
		case 0:
			s.rc = unkRecv(cty.Number)
		case 1:
			s.rc = numRecv(tv, fmt.Sprintf("%#v", tv))
		default:
			s.rc = nullRecv(cty.Number)
		}
		s.probes = fixedNumProbes()
		s.probes = append(s.probes, numProbe(t))
		pickBound := func() model.C05Bound {
			switch k := r.Intn(100); {
			case k < 3:
				return bnd(cty.UnknownVal(cty.Number), "cty.UnknownVal(cty.Number)")
			case k < 4:
				return bnd(cty.NullVal(cty.Number), "cty.NullVal(cty.Number)")
			case k < 12:
				return []model.C05Bound{negInfSingleton, posInfSingleton, negInfFresh(), posInfFresh()}[r.Intn(4)]
			case k < 25:
				return fbnd(gen.ExactNumber(r).V.AsBigFloat())
			}
			if t.IsInf() {
				return fbnd(new(big.Float).Copy(t))
			}
			d := []float64{0, 0, 0, 1, -1, 0.5, -0.5, 2, -2, 10, -10}[r.Intn(11)]
			return fbnd(addF(t, d))
		}
		for i := 0; i < ncalls; i++ {
			switch k := r.Intn(100); {
			case k < 10:
				s.calls = append(s.calls, notNull)
			case k < 14:
				s.calls = append(s.calls, isNull)
			case k < 17:
				s.calls = append(s.calls, wrongKind(model.C05Num))
			case k < 22:
				a, b := pickBound(), pickBound()
				if !a.Unknown && !a.Null && !b.Unknown && !b.Null && a.N.Cmp(b.N) > 0 && r.Chance(4, 5) {
					a, b = b, a
				}
				s.calls = append(s.calls, model.C05Call{K: model.C05Inclusive, B: a, B2: b})
			default:
				b := pickBound()
				isLower := r.Bool()
				inc := r.Bool()
				if !b.Unknown && !b.Null {
					switch cmp := b.N.Cmp(model.NumOf(t)); {
					case cmp < 0:
						isLower = r.Chance(85, 100)
					case cmp > 0:
						isLower = !r.Chance(85, 100)
					default:
						inc = r.Chance(70, 100)
					}
				}
				if isLower {
					s.calls = append(s.calls, lower(b, inc))
				} else {
					s.calls = append(s.calls, upper(b, inc))
				}
			}
		}
		// probes around every finite bound
		for _, call := range s.calls {
			for _, b := range []model.C05Bound{call.B, call.B2} {
				if b.Label == "" || b.Unknown || b.Null || len(s.probes) > 40 {
					continue
				}
				f := b.V.AsBigFloat()
				s.probes = append(s.probes, numProbe(f))
				if !f.IsInf() {
					s.probes = append(s.probes, numProbe(addF(f, 1)), numProbe(addF(f, -0.5)))
				}
			}
		}
	case 1: // string
		target := gen.String(r, 8)
		if r.Chance(1, 3) {
			target += string([]rune{':', '/', '-', ' ', '"'}[r.Intn(5)]) + gen.String(r, 3)
		}
		switch recvPick {
		case 0:
			s.rc = unkRecv(cty.String)
		case 1:
			s.rc = strRecv(target)
		default:
			s.rc = nullRecv(cty.String)
		}
		nr := utf8.RuneCountInString(target)
		s.probes = append(fixedStrProbes()[:4:4], strProbe(target), strProbe(target+"x"), strProbe(target+"\u0301"), nullProbe(cty.String), wrongTypeProbe(cty.String))
		for i := 0; i < ncalls; i++ {
			switch k := r.Intn(100); {
			case k < 12:
				s.calls = append(s.calls, notNull)
			case k < 16:
				s.calls = append(s.calls, isNull)
			case k < 19:
				s.calls = append(s.calls, wrongKind(model.C05Str))
			default:
				var p string
				isRunePrefix := false
				switch m := r.Intn(10); {
				case m < 8:
					p = runePrefix(target, r.Intn(nr+1))
					isRunePrefix = true
				case m < 9:
					p = runePrefix(target, r.Intn(nr+1)) + string(gen.Alphabet41[r.Intn(len(gen.Alphabet41))])
				default:
					p = gen.String(r, 4)
				}
				if r.Bool() {
					s.calls = append(s.calls, prefFull(p))
				} else {
					s.calls = append(s.calls, prefSafe(p))
					if isRunePrefix {
						// the target extends p: the safe part must be a byte prefix of NFC(target)
						if q, ok := safePrefix(c, p); ok {
							c.Count("clause:continuation-safe(sampled-target)")
							if !strings.HasPrefix(norm.NFC.String(target), q) {
								c.Violate("ctystrings.SafeKnownPrefix", "safe prefix is not a byte prefix of the normalized extended string", cutClass(p, target[len(p):]),
									fmt.Sprintf("SafeKnownPrefix(%q) with continuation %q", p, target[len(p):]), fmt.Sprintf("safe prefix %q; NFC(whole) = %q", q, norm.NFC.String(target)))
							}
						}
					}
				}
				if len(s.probes) < 40 {
					s.probes = append(s.probes, strProbe(p), strProbe(p+"a"), strProbe(p+"\u0323"))
				}
			}
		}
	case 2: // collection
		ety := []cty.Type{cty.String, cty.Number, cty.DynamicPseudoType}[r.Intn(3)]
		var ty cty.Type
		switch r.Intn(3) {
		case 0:
			ty = cty.List(ety)
		case 1:
			ty = cty.Set(ety)
		default:
			ty = cty.Map(ety)
		}
		L := r.Intn(6)
		switch recvPick {
		case 0:
			s.rc = unkRecv(ty)
		case 1:
			if ety == cty.DynamicPseudoType {
				s.rc = unkRecv(ty)
				break
			}
			p := collProbe(ty, L)
			s.rc = collRecv(p.V, L, L)
			if L > 0 && r.Chance(1, 3) && !ty.IsMapType() {
				// some members unknown
				es := p.V.AsValueSlice()
				u := 1 + r.Intn(L)
				for i := 0; i < u; i++ {
					es[i] = cty.UnknownVal(ety)
				}
				if ty.IsListType() {
					s.rc = collRecv(cty.ListVal(es), L, L)
				} else {
					// cty documents the length of a set with unknown members as 1..n
					// (Value.Length: members may coalesce); constraints inside that
					// interval are not decided by the documentation.
					sv := cty.SetVal(es)
					lo := 1
					if sv.LengthInt() == 1 {
						lo = 1
					}
					s.rc = collRecv(sv, lo, sv.LengthInt())
				}
			}
		default:
			s.rc = nullRecv(ty)
		}
		pickLen := func() int {
			switch k := r.Intn(100); {
			case k < 6:
				return math.MaxInt
			case k < 10:
				return -1
			case k < 30:
				return []int{0, 1, 2, 5}[r.Intn(4)]
			}
			n := L + r.Intn(5) - 2
			if n < -1 {
				n = -1
			}
			return n
		}
		seen := map[int]bool{}
		for i := 0; i < ncalls; i++ {
			switch k := r.Intn(100); {
			case k < 12:
				s.calls = append(s.calls, notNull)
			case k < 16:
				s.calls = append(s.calls, isNull)
			case k < 19:
				s.calls = append(s.calls, wrongKind(model.C05Coll))
			default:
				n := pickLen()
				seen[n] = true
				switch r.Intn(5) {
				case 0, 1:
					s.calls = append(s.calls, lenLower(n))
				case 2, 3:
					s.calls = append(s.calls, lenUpper(n))
				default:
					s.calls = append(s.calls, lenExact(n))
				}
			}
		}
		for n := 0; n <= 8; n++ {
			s.probes = append(s.probes, collProbe(ty, n))
		}
		_ = seen
		s.probes = append(s.probes, nullProbe(ty), wrongTypeProbe(ty))
	case 3: // nullness only
		ty := []cty.Type{cty.Bool, objTy, tupTy, model.CapsuleA, cty.DynamicPseudoType}[r.Intn(5)]
		switch {
		case ty == cty.DynamicPseudoType:
			s.rc = nullRecv(ty)
		case recvPick == 0:
			s.rc = unkRecv(ty)
		case recvPick == 1:
			s.rc = otherRecv(nullableValue(ty))
		default:
			s.rc = nullRecv(ty)
		}
		s.probes = nullableProbes(ty)
		for i := 0; i < ncalls; i++ {
			switch k := r.Intn(100); {
			case k < 55:
				s.calls = append(s.calls, notNull)
			case k < 85:
				s.calls = append(s.calls, isNull)
			default:
				s.calls = append(s.calls, wrongKind(model.C05Nullable))
			}
		}
	default: // DynamicVal
		s.rc = unkRecv(cty.DynamicPseudoType)
		menu := families()[4].calls
		for i := 0; i < ncalls; i++ {
			s.calls = append(s.calls, menu[r.Intn(len(menu))])
		}
	}
	return s
}

func (Driver) Run(c *core.Ctx) {
	n := int64(c.N(5000, 25000))
	for i := int64(0); i < n; i++ {
		if !c.Want(i) {
			continue
		}
		r := c.RNG(i)
		s := sampleSeq(c, r)
		if s.rc.st.Known {
			checkKnownRange(c, s.rc)
		}
		runSeq(c, i, s)
		c.Count("sampled-sequences")
	}
	runPrefixSampled(c, 500_000_000, c.N(1500, 15000))
	runEnumeration(c, 1_000_000_000)
	if c.Batch == 0 {
		runCorpus(c, 2_000_000_000)
		runTwinBounds(c, 4_000_000_000)
	}
	runPrefixEnumeration(c, 3_000_000_000, c.N(2, 3), 2)
}
