package c05

import (
	"math"

	"github.com/zclconf/go-cty/cty"

	"verif/harness/core"
	"verif/harness/model"
)

type corpusEntry struct {
	note  string
	rc    receiver
	calls []model.C05Call
}

// corpus: boundary sequences written from reading unknown_refinement.go and
// value_range.go, including the witness of every defect found for this
// property (fixed or listed), so that a regression is reported again. Each
// entry is run in chain, re-refine and RefineWith mode with the fixed probes.
func corpus() []corpusEntry {
	un := unkRecv(cty.Number)
	us := unkRecv(cty.String)
	ul := unkRecv(cty.List(cty.String))
	uset := unkRecv(cty.Set(cty.String))
	umap := unkRecv(cty.Map(cty.String))
	one, two, zero := ibnd(1), ibnd(2), ibnd(0)
	cs := func(c ...model.C05Call) []model.C05Call { return c }
	return []corpusEntry{
		// fixed 90f77b7 (F-05): an unset bound must be reported as an inclusive infinity; the probes +-Inf must not be excluded
		{"F-05 upper bound only: lower bound unset", un, cs(upper(one, true))},
		{"F-05 not-null only", un, cs(notNull)},
		{"F-05 lower bound only: upper bound unset", un, cs(lower(one, false))},
		// fixed bbeb646 (F-04): equal bounds, both exclusive
		{"F-04 (1,1) both exclusive", un, cs(lower(one, false), upper(one, false))},
		{"F-04 reversed order", un, cs(upper(one, false), lower(one, false))},
		{"equal bounds, lower exclusive only", un, cs(lower(one, false), upper(one, true))},
		{"equal bounds, upper exclusive only", un, cs(lower(one, true), upper(one, false))},
		{"equal bounds inclusive, collapses with not-null", un, cs(notNull, lower(one, true), upper(one, true))},
		{"equal bounds inclusive, nullable: no collapse", un, cs(lower(one, true), upper(one, true))},
		{"equal bounds at two precisions", un, cs(notNull, lower(one, true), upper(bnd(cty.MustParseNumberVal("1"), `cty.MustParseNumberVal("1")`), true))},
		// fixed 08db62b: prefix longer than the known string
		{"prefix longer than known empty string", strRecv(""), cs(prefFull("foo"))},
		{"prefix longer than known string", strRecv("fo"), cs(prefFull("foo"))},
		{"prefix equal to known string", strRecv("foo"), cs(prefFull("foo"))},
		{"safe prefix on known string", strRecv("foo:bar"), cs(prefSafe("foo:b"))},
		// keep-the-tighter ties
		{"inclusive after exclusive at the same value", un, cs(lower(one, false), lower(one, true))},
		{"exclusive after inclusive at the same value", un, cs(lower(one, true), lower(one, false))},
		{"upper: inclusive after exclusive", un, cs(upper(one, false), upper(one, true))},
		{"upper: exclusive after inclusive", un, cs(upper(one, true), upper(one, false))},
		{"looser lower bound ignored", un, cs(lower(two, true), lower(one, true))},
		{"crossing bounds", un, cs(lower(two, true), upper(one, true))},
		{"NumberRangeInclusive reversed", un, cs(model.C05Call{K: model.C05Inclusive, B: two, B2: one})},
		{"NumberRangeInclusive equal + not-null", un, cs(model.C05Call{K: model.C05Inclusive, B: zero, B2: zero}, notNull)},
		// infinities
		{"exclusive lower bound at the singleton -Inf", un, cs(lower(negInfSingleton, false))},
		{"exclusive lower bound at a fresh -Inf", un, cs(lower(negInfFresh(), false))},
		{"exclusive upper bound at the singleton +Inf", un, cs(upper(posInfSingleton, false))},
		{"exclusive upper bound at a fresh +Inf", un, cs(upper(posInfFresh(), false))},
		{"exclusive upper bound at +Inf after a finite one", un, cs(upper(one, true), upper(posInfSingleton, false))},
		{"exclusive lower bound at +Inf: empty", un, cs(lower(posInfSingleton, false))},
		{"exclusive lower bound at fresh +Inf: empty", un, cs(lower(posInfFresh(), false))},
		{"exclusive upper bound at -Inf: empty", un, cs(upper(negInfSingleton, false))},
		{"inclusive lower bound at +Inf, not-null", un, cs(notNull, lower(posInfSingleton, true))},
		{"[+Inf,+Inf] fresh, not-null: may collapse", un, cs(notNull, lower(posInfFresh(), true), upper(posInfFresh(), true))},
		{"exclusive -Inf on a known number", numRecv(cty.NumberIntVal(5), "cty.NumberIntVal(5)"), cs(lower(negInfSingleton, false), upper(posInfSingleton, false))},
		{"exclusive +Inf lower on known +Inf", numRecv(cty.PositiveInfinity, "cty.PositiveInfinity"), cs(lower(posInfSingleton, false))},
		{"inclusive +Inf lower on known +Inf", numRecv(cty.PositiveInfinity, "cty.PositiveInfinity"), cs(lower(posInfFresh(), true))},
		// nullness
		{"null then not-null", un, cs(isNull, notNull)},
		{"not-null then null", us, cs(notNull, isNull)},
		{"null then bounds", un, cs(isNull, lower(one, true), upper(zero, true))},
		{"bounds then null", un, cs(lower(one, true), isNull)},
		{"null list then length", ul, cs(isNull, lenLower(3))},
		{"known null: not-null", nullRecv(cty.String), cs(notNull)},
		{"known null: null", nullRecv(cty.String), cs(isNull, isNull)},
		{"known null number: bound (recorded only)", nullRecv(cty.Number), cs(lower(one, true))},
		{"null of unknown type: null", nullRecv(cty.DynamicPseudoType), cs(isNull)},
		{"null of unknown type: not-null", nullRecv(cty.DynamicPseudoType), cs(notNull)},
		// known numbers
		{"known number, true bounds", numRecv(cty.NumberIntVal(1), "cty.NumberIntVal(1)"), cs(lower(one, true), upper(one, true), lower(zero, false), notNull)},
		{"known number, exclusive tie", numRecv(cty.NumberIntVal(1), "cty.NumberIntVal(1)"), cs(lower(one, false))},
		{"known number, exclusive tie above", numRecv(cty.NumberIntVal(1), "cty.NumberIntVal(1)"), cs(upper(one, false))},
		// prefixes
		{"prefix extends", us, cs(prefFull("ab"), prefFull("ab:c"))},
		{"prefix shorter ignored", us, cs(prefFull("ab:c"), prefFull("ab"))},
		{"prefix diverges", us, cs(prefFull("ab"), prefFull("ac"))},
		{"prefix NFD then NFC of the same text", us, cs(prefFull("e\u0301-"), prefFull("\u00e9-x"))},
		{"prefix base letter then composed letter", us, cs(prefFull("e"), prefFull("e\u0301"))},
		{"safe prefix drops the trailing letter", us, cs(prefSafe("ab"), prefFull("a\u0301"))},
		{"safe prefix keeps a delimiter", us, cs(prefSafe("ab:"), notNull)},
		{"safe prefix: Hangul L jamo", us, cs(prefSafe("x:\u1100"))},
		{"safe prefix: regional indicator", us, cs(prefSafe("x:\U0001F1E9"))},
		{"safe prefix: CR", us, cs(prefSafe("x:\r"))},
		{"safe prefix: '=' composes with U+0338", us, cs(prefSafe("a="))},
		// lengths
		{"length 0 collapses (list)", ul, cs(notNull, lenExact(0))},
		{"length 0 collapses (set)", uset, cs(notNull, lenUpper(0))},
		{"length 0 collapses (map)", umap, cs(lenUpper(0), notNull)},
		{"length 2 list collapses", ul, cs(notNull, lenExact(2))},
		{"length 1 set collapses", uset, cs(notNull, lenExact(1))},
		{"length 2 set must not collapse", uset, cs(notNull, lenExact(2))},
		{"length 1 map must not collapse", umap, cs(notNull, lenExact(1))},
		{"nullable length 2: no collapse", ul, cs(lenExact(2))},
		{"length bounds cross", ul, cs(lenLower(3), lenUpper(2))},
		{"negative upper bound", ul, cs(lenUpper(-1))},
		{"negative lower bound ignored", ul, cs(lenLower(-1), lenUpper(0))},
		{"lower bound MaxInt on a list, not-null", ul, cs(notNull, lenLower(math.MaxInt))},
		{"lower bound MaxInt on a list, nullable", ul, cs(lenLower(math.MaxInt))},
		{"exact MaxInt on a list of unknown element type", unkRecv(cty.List(cty.DynamicPseudoType)), cs(lenExact(math.MaxInt), notNull)},
		{"lower bound MaxInt on a set, not-null", uset, cs(notNull, lenLower(math.MaxInt))},
		{"lower bound MaxInt on a map, not-null", umap, cs(notNull, lenLower(math.MaxInt))},
		{"known list: true and false lengths", collRecv(cty.ListVal([]cty.Value{cty.StringVal("a"), cty.StringVal("b")}), 2, 2), cs(lenLower(2), lenUpper(2), lenUpper(1))},
		{"known set with unknown member", collRecv(cty.SetVal([]cty.Value{cty.UnknownVal(cty.String), cty.StringVal("a")}), 1, 2), cs(lenLower(1), lenUpper(2), lenLower(3))},
		// DynamicVal
		{"DynamicVal ignores everything", unkRecv(cty.DynamicPseudoType), cs(notNull, isNull, lower(one, false), upper(zero, false), prefFull("x"), lenExact(3))},
	}
}

func corpusProbes(rc receiver) []model.C05Probe {
	switch rc.st.Kind {
	case model.C05Num:
		return fixedNumProbes()
	case model.C05Str:
		ps := fixedStrProbes()
		for _, s := range []string{"foo", "fo", "foo:bar", "x:", "x:\u1100\u1161", "x:\U0001F1E9\U0001F1EA", "x:\r\n", "a=\u0338", "a\u0301"} {
			ps = append(ps, strProbe(s))
		}
		return ps
	case model.C05Coll:
		return fixedCollProbes(rc.v.Type())
	case model.C05Nullable:
		return nullableProbes(rc.v.Type())
	}
	return nil
}

func runCorpus(c *core.Ctx, base int64) {
	idx := base
	for _, e := range corpus() {
		probes := corpusProbes(e.rc)
		if e.rc.st.Known {
			checkKnownRange(c, e.rc)
		}
		for _, m := range []mode{modeChain, modeReRefine, modeWith} {
			for _, marked := range []bool{false, true} {
				idx++
				if !c.Want(idx) {
					continue
				}
				s := &seqCase{rc: e.rc, calls: e.calls, mode: m, probes: probes}
				if marked {
					s.marks = cty.NewValueMarks("c05-mark")
				}
				runSeq(c, idx, s)
				c.Count("corpus-cases")
			}
		}
	}
}
