package c17

import (
	"bytes"
	"encoding/hex"
	"strings"

	"github.com/zclconf/go-cty/cty"

	m "verif/harness/model"
)

// Fixed, seed-independent corpus written from reading the decoders. It holds
// the witness of every defect this driver found (DESIGN.md F-06, F-19..F-24 and
// the ones found later), so a repaired defect is re-detected if it returns.
//
// Entries whose bytes declare >= 2^21 elements (see risky) have their msgpack
// half executed in the first risk batch; everything else runs in batch 0.

type corpusEntry struct {
	name    string
	fam     int
	format  string
	in      []byte
	targets []cty.Type
}

func obj(kv ...any) cty.Type {
	at := map[string]cty.Type{}
	for i := 0; i+1 < len(kv); i += 2 {
		at[kv[i].(string)] = kv[i+1].(cty.Type)
	}
	return cty.Object(at)
}

func tup(ts ...cty.Type) cty.Type { return cty.Tuple(ts) }

func hx(s string) []byte {
	b, err := hex.DecodeString(strings.ReplaceAll(s, " ", ""))
	if err != nil {
		panic("corpus: bad hex " + s)
	}
	return b
}

// mpDyn builds a msgpack dynamic wrapper [bin(typeJSON), value].
func mpDyn(typeJSON string, val []byte) []byte {
	out := append([]byte{0x92}, mpHeader('b', uint32(len(typeJSON)), false)...)
	out = append(out, typeJSON...)
	return append(out, val...)
}

// mpExt builds the refinement extension (type 0x0c) around a body.
func mpExt(body []byte) []byte {
	return append([]byte{0xc7, byte(len(body)), 0x0c}, body...)
}

func be32(n uint32) []byte { return []byte{byte(n >> 24), byte(n >> 16), byte(n >> 8), byte(n)} }

var (
	dyn = cty.DynamicPseudoType
	str = cty.String
	num = cty.Number
	boo = cty.Bool
)

func buildCorpus() []corpusEntry {
	var cs []corpusEntry
	J := func(name, doc string, targets ...cty.Type) {
		cs = append(cs, corpusEntry{name, famJSON, "json", []byte(doc), targets})
	}
	T := func(name, doc string) {
		cs = append(cs, corpusEntry{name, famJSON, "jsontype", []byte(doc), nil})
	}
	M := func(name string, in []byte, targets ...cty.Type) {
		cs = append(cs, corpusEntry{name, famMP, "msgpack", in, targets})
	}
	allPrim := []cty.Type{str, num, boo, dyn}
	colls := []cty.Type{cty.List(str), cty.Set(str), cty.Map(str), tup(str), obj("a", str), cty.List(dyn), cty.Set(dyn), cty.Map(dyn)}

	// ---------------- JSON: type descriptors ----------------
	T("F-19 undeclared optional", `["object",{"a":"string"},["b"]]`)
	T("optional of an empty object", `["object",{},["a"]]`)
	T("optional with null attribute table", `["object",null,["a"]]`)
	T("optional declared", `["object",{"a":"string"},["a"]]`)
	T("optional NFD name declared as NFC", "[\"object\",{\"é\":\"string\"},[\"é\"]]")
	T("optional NFC name declared as NFD", "[\"object\",{\"é\":\"string\"},[\"é\"]]")
	T("optional duplicate names", `["object",{"a":"string"},["a","a"]]`)
	T("optional list holds a number", `["object",{"a":"string"},[1]]`)
	T("optional list is a string", `["object",{"a":"string"},"a"]`)
	T("optional list empty", `["object",{"a":"string"},[]]`)
	T("optional list null", `["object",{"a":"string"},null]`)
	T("optional list then extra", `["object",{"a":"string"},["a"],[]]`)
	T("nested undeclared optional", `["list",["tuple",[["object",{"a":["map","bool"]},["a","zz"]]]]]`)
	T("object with duplicate keys", `["object",{"a":"string","a":"number"}]`)
	T("object with twin keys", "[\"object\",{\"é\":\"string\",\"é\":\"number\"}]")
	T("object attribute null", `["object",{"a":null}]`)
	T("object attribute number", `["object",{"a":1}]`)
	T("list without element", `["list"]`)
	T("list with two elements", `["list","string","number"]`)
	T("list of null", `["list",null]`)
	T("tuple without list", `["tuple"]`)
	T("tuple of null", `["tuple",null]`)
	T("tuple holding null", `["tuple",["string",null]]`)
	T("tuple given an object", `["tuple",{"a":"string"}]`)
	T("empty array", `[]`)
	T("array of number", `[1]`)
	T("capsule kind", `["capsule","x"]`)
	T("unknown primitive", `"capsule"`)
	T("two values", `"string" "x"`)
	T("trailing garbage", `"string"x`)
	T("extra closing bracket", `["list","string"]]`)
	T("unterminated", `["list","string"`)
	T("bare object", `{"a":1}`)
	T("bare true", `true`)
	T("bare null", `null`)
	T("empty input", ``)
	T("whitespace", ` `)
	T("nested maps of dynamic", `["map",["map",["map","dynamic"]]]`)
	T("kind is a number", `[1,"string"]`)
	T("kind is null", `[null,"string"]`)
	T("deep list descriptor 1500", strings.Repeat(`["list",`, 1500)+`"string"`+strings.Repeat(`]`, 1500))

	// ---------------- JSON: values ----------------
	J("F-06 null of an object type with optionals", `{"type":["object",{"a":"string"},["a"]],"value":null}`, dyn)
	J("F-06 value first", `{"value":null,"type":["object",{"a":"string"},["a"]]}`, dyn)
	J("optional below: missing attribute filled in", `{"type":["object",{"a":["object",{"b":"string"},["b"]]}],"value":{}}`, dyn)
	J("optional below: empty list element type", `{"type":["list",["object",{"a":"string"},["a"]]],"value":[]}`, dyn)
	J("optional below: null tuple member", `{"type":["tuple",[["object",{"a":"string"},["a"]]]],"value":[null]}`, dyn)
	J("optional at top with a value", `{"type":["object",{"a":"string"},["a"]],"value":{"a":"x"}}`, dyn)
	J("optional wrapper inside a list", `[{"type":["object",{"a":"string"},["a"]],"value":null}]`, cty.List(dyn), tup(dyn))
	J("F-19 inside a wrapper", `{"type":["object",{"a":"string"},["b"]],"value":null}`, dyn, cty.List(dyn))
	J("F-33 encoder output: list of maps of dynamic", `[{"a":{"value":1,"type":"number"}},{}]`, cty.List(cty.Map(dyn)), cty.Set(cty.Map(dyn)))
	J("mixed element types under dynamic", `[{"type":"string","value":"a"},{"type":"number","value":1}]`, cty.List(dyn), cty.Set(dyn), tup(dyn, dyn))
	J("mixed map element types under dynamic", `{"a":{"type":"string","value":"a"},"b":{"type":"number","value":1}}`, cty.Map(dyn), obj("a", dyn, "b", dyn))
	J("dynamic null then typed", `[null,{"type":"string","value":"a"}]`, cty.List(dyn), cty.Set(dyn))
	J("typed then dynamic null", `[{"type":"string","value":"a"},{"type":"dynamic","value":null}]`, cty.List(dyn), cty.Set(dyn))
	J("two object shapes under dynamic", `[{"type":["object",{"a":"string"}],"value":{"a":"x"}},{"type":["object",{}],"value":{}}]`, cty.List(dyn), cty.Set(dyn))
	J("wrapper: type only", `{"type":"string"}`, dyn)
	J("wrapper: value only", `{"value":"x"}`, dyn)
	J("wrapper: extra key", `{"type":"string","value":"x","extra":1}`, dyn)
	J("wrapper: type twice", `{"type":"string","type":"number","value":"1"}`, dyn)
	J("wrapper: value twice", `{"type":"string","value":1,"value":"x"}`, dyn)
	J("wrapper: null type", `{"type":null,"value":null}`, dyn)
	J("wrapper: dynamic of dynamic null", `{"value":null,"type":"dynamic"}`, dyn)
	J("wrapper: dynamic of wrapper", `{"type":"dynamic","value":{"type":"string","value":"x"}}`, dyn)
	J("wrapper: capsule type", `{"type":"capsule","value":1}`, dyn)
	J("wrapper: array instead", `[]`, dyn)
	J("wrapper: string instead", `"x"`, dyn)
	J("wrapper: empty object", `{}`, dyn)
	J("wrapper: key is not a string", `{1:2}`, dyn)
	J("empty array", `[]`, colls...)
	J("empty object", `{}`, colls...)
	J("null", `null`, append(append([]cty.Type{}, allPrim...), colls...)...)
	J("null as capsule", `null`, m.CapsuleA)
	J("object as capsule", `{"X":1}`, m.CapsuleA)
	J("array as capsule", `[1]`, m.CapsuleA)
	J("truncated null", `nul`, allPrim...)
	J("empty input", ``, append(append([]cty.Type{}, allPrim...), colls...)...)
	J("whitespace only", " \n\t", allPrim...)
	J("two values", `1 2`, allPrim...)
	J("trailing garbage after array", `[] x`, colls...)
	J("tuple too short", `[]`, tup(str), tup(str, num))
	J("tuple too long", `["a","b"]`, tup(str), tup())
	J("tuple exact", `["a",1]`, tup(str, num), tup(dyn, dyn))
	J("object missing attribute", `{"a":"x"}`, obj("a", str, "b", num))
	J("object unknown attribute", `{"zz":1}`, obj("a", str))
	J("object duplicate attribute", `{"a":1,"a":"x"}`, obj("a", num), obj("a", str), cty.Map(str), cty.Map(num))
	J("twin keys", "{\"é\":1,\"é\":2}", cty.Map(num), obj("é", num), obj("é", num))
	J("twin keys of different types", "{\"é\":1,\"é\":\"x\"}", cty.Map(str), cty.Map(dyn))
	J("huge exponent", `1e999999999`, num, str, dyn)
	J("huge negative exponent", `1e-999999999`, num, str)
	J("huge exponent in a string", `"1e999999999"`, num)
	J("exponent overflowing int", `1e99999999999999999999`, num, str)
	J("exponent 3000000 in a set", `{"k":[0.123e3000000]}`, obj("k", cty.Set(num)), obj("k", cty.List(num)))
	J("exponent -100000 in a set", `[1e-100000]`, cty.Set(num), cty.List(num))
	J("exponent 3000000 in a set inside a wrapper", `{"type":["set","number"],"value":[1e3000000]}`, dyn)
	J("long mantissa", strings.Repeat("9", 5000)+"."+strings.Repeat("9", 5000), num, str)
	J("Inf string as number", `"Inf"`, num)
	J("-Inf string as number", `"-Inf"`, num)
	J("NaN string as number", `"NaN"`, num)
	J("hex string as number", `"0x10"`, num)
	J("underscore string as number", `"1_000"`, num)
	J("empty string as number", `""`, num, boo)
	J("bool strings", `["true","false","1","0","yes",""]`, cty.List(boo), tup(boo, boo, boo, boo, boo, boo))
	J("number as string and bool", `1`, str, boo)
	J("bool as string and number", `true`, str, num)
	J("invalid UTF-8 in a string", "\"\xff\xfe\"", str, cty.List(str))
	J("invalid UTF-8 in a key", "{\"\xff\":1}", cty.Map(num), obj("�", num))
	J("lone surrogates", `"𐀀\ud800"`, str)
	J("NUL in a string", `"\u0000"`, str)
	J("combining sequence", "\"ẹ́\"", str, cty.Set(str))
	J("set with duplicates", `[1,1,1.0,1e0]`, cty.Set(num), cty.List(num))
	J("set of NFC/NFD twins", "[\"é\",\"é\"]", cty.Set(str))
	J("nested empties", `[[],[[]],{}]`, tup(cty.List(str), cty.List(cty.List(num)), obj()), cty.List(dyn))
	J("deep array 10001", strings.Repeat("[", 10001))
	J("deep balanced 300", strings.Repeat("[", 300)+strings.Repeat("]", 300), nestType(0, 300, str), nestType(1, 300, str))
	J("deep objects 300", strings.Repeat(`{"a":`, 300)+`null`+strings.Repeat("}", 300), nestType(3, 300, str), nestType(4, 300, str))
	J("quadratic: deep list 3000", strings.Repeat("[", 3000)+`"x"`+strings.Repeat("]", 3000), nestType(0, 3000, str))
	J("quadratic: deep dynamic wrappers 600", strings.Repeat(`{"value":`, 600)+`null`+strings.Repeat(`,"type":"dynamic"}`, 600), dyn)
	T("quadratic: deep list descriptor 3000", strings.Repeat(`["list",`, 3000)+`"string"`+strings.Repeat(`]`, 3000))
	J("quadratic: deep type inside a wrapper", `{"value":null,"type":`+strings.Repeat(`["list",`, 2500)+`"string"`+strings.Repeat(`]`, 2500)+`}`, dyn)

	// ---------------- MessagePack ----------------
	nanD := hx("cb 7ff8000000000001")
	nanF := hx("ca 7fc00000")
	M("F-20 double NaN", nanD, num, dyn, str)
	M("F-20 float NaN", nanF, num)
	M("F-20 NaN inside a list", append([]byte{0x92, 0x01}, nanD...), cty.List(num), cty.Set(num), tup(num, num))
	M("F-20 NaN inside a wrapper", mpDyn(`"number"`, nanD), dyn)
	M("negative NaN", hx("cb fff8000000000000"), num)
	M("+Inf double", hx("cb 7ff0000000000000"), num, cty.Set(num))
	M("-Inf float", hx("ca ff800000"), num)
	M("-0.0", hx("cb 8000000000000000"), num, cty.Set(num))
	M("max uint64", hx("cf ffffffffffffffff"), num, str)
	M("min int64", hx("d3 8000000000000000"), num)
	M("number strings", hx("96 a3316535 a3496e66 a34e614e a0 a430783130 a5315f303030"), cty.List(num), tup(num, num, num, num, num, num))
	M("exponent 3000000 string in a set", append(hx("91 a9"), []byte("1e3000000")...), cty.Set(num), cty.List(num))
	M("F-21 empty array as tuple", []byte{0x90}, tup(str), tup(str, num), tup())
	M("F-21 empty map as object", []byte{0x80}, obj("a", str), obj())
	M("F-21 empty tuple inside a list", []byte{0x91, 0x90}, cty.List(tup(str)), cty.Set(tup(str)), cty.Map(tup(str)))
	M("F-21 empty and full tuple inside a list", hx("92 90 91a178"), cty.List(tup(str)), cty.Set(tup(str)))
	M("F-21 empty object inside a map", hx("81 a16b 80"), cty.Map(obj("a", str)), obj("k", obj("a", str)))
	M("F-21 empty and full object inside a list", hx("92 80 81a161a178"), cty.List(obj("a", str)))
	M("F-22 duplicate object key", hx("82 a161 01 a161 02"), obj("a", num, "b", num))
	M("F-22 duplicate key three attributes", hx("83 a161 01 a162 02 a161 03"), obj("a", num, "b", num, "c", num))
	M("F-22 duplicate key inside a list", hx("92 82a16101a16202 82a16101a16102"), cty.List(obj("a", num, "b", num)))
	M("object key NFD", hx("81 a36cc381 01"), obj("lÁ", num))
	M("duplicate object key, second time in the other normal form", hx("82 a3 6cc381 01 a4 6c41cc81 02"), obj("l\u00c1", num, "b", num), obj("l\u00c1", num, "a", num, "b", num), cty.Map(num))
	M("duplicate object key, NFD first", hx("83 a4 6c41cc81 01 a3 6cc381 02 a162 03"), obj("l\u00c1", num, "b", num, "c", num), cty.Map(num))
	M("duplicate key in the other normal form inside a list", hx("91 82 a3 6cc381 01 a4 6c41cc81 02"), cty.List(obj("l\u00c1", num, "z", num)), cty.List(cty.Map(num)))
	M("tuple length mismatch", hx("92 01 02"), tup(num), tup(num, num, num))
	M("object attribute count mismatch", hx("81 a161 01"), obj("a", num, "b", num), obj())
	M("map with non-string key", hx("81 01 02"), cty.Map(num), obj("", num))
	M("map with duplicate keys", hx("82 a161 01 a161 02"), cty.Map(num))
	M("map with twin keys", append(append([]byte{0x82, 0xa3}, []byte("é")...), append([]byte{0x01, 0xa2}, append([]byte("é"), 0x02)...)...), cty.Map(num))
	// refinements (F-23)
	refn := map[string][]byte{
		"F-23 not-null then null":            hx("82 01c2 01c3"),
		"F-23 null then not-null":            hx("82 01c3 01c2"),
		"null then null":                     hx("82 01c3 01c3"),
		"F-23 length upper bound -1":         hx("81 06ff"),
		"length lower bound -1":              hx("81 05ff"),
		"F-23 length 3..1":                   hx("82 0503 0601"),
		"F-23 length upper 1 then lower 3":   hx("82 0601 0503"),
		"length bound max uint64":            hx("81 06 cfffffffffffffffff"),
		"length bound min int64":             hx("81 05 d38000000000000000"),
		"length 2..2 not null":               hx("83 01c2 0502 0602"),
		"length 0..0 not null":               hx("83 01c2 0500 0600"),
		"length 1..1 not null":               hx("83 01c2 0501 0601"),
		"length bound is a string":           hx("81 05a161"),
		"F-23 prefix a then b":               hx("82 02a161 02a162"),
		"prefix a then ab":                   hx("82 02a161 02a26162"),
		"prefix invalid UTF-8":               hx("81 02a2fffe"),
		"prefix combining start":             append(hx("81 02 a2"), []byte("́")...),
		"prefix not NFC":                     append(hx("81 02 a3"), []byte("é")...),
		"prefix is a number":                 hx("81 0201"),
		"F-23 lower 5 upper 1":               hx("82 039205c3 049201c3"),
		"F-23 upper 1 then lower 5":          hx("82 049201c3 039205c3"),
		"F-23 exclusive 1..1":                hx("82 039201c2 049201c2"),
		"inclusive 1..1 not null":            hx("83 01c2 039201c3 049201c3"),
		"lower +Inf upper 1":                 append(append(hx("82 03 92"), append(hx("cb 7ff0000000000000"), 0xc3)...), hx("04 9201c3")...),
		"lower -Inf":                         append(hx("81 03 92"), append(hx("cb fff0000000000000"), 0xc3)...),
		"upper -Inf exclusive":               append(hx("81 04 92"), append(hx("cb fff0000000000000"), 0xc2)...),
		"F-20 bound NaN":                     append(hx("81 03 92"), append(nanD, 0xc3)...),
		"bound is an empty array":            hx("81 0390"),
		"bound holds null":                   hx("81 0392c0c3"),
		"bound holds unknown":                hx("81 0392d40000c3"),
		"bound inclusive flag is null":       hx("81 039201c0"),
		"bound is null":                      hx("81 03c0"),
		"bound has three members":            hx("81 039301c3c3"),
		"bound number as string":             hx("81 0392a3316535c3"),
		"unknown key 9":                      hx("81 0901"),
		"key is a string":                    hx("81 a16101"),
		"map longer than its content":        hx("85 01c2"),
		"body is not a map":                  hx("01 02"),
		"body is an array":                   hx("92 0102"),
		"body is a 32-bit map header 2^32-1": hx("df ffffffff 01c2"),
		"null then everything":               hx("84 01c3 02a161 039201c3 0503"),
		"not-null with trailing bytes":       hx("81 01c2 ffffff"),
		"nested extension as bound":          hx("81 0392 c7030c8101c2 c3"),
	}
	rtargets := []cty.Type{str, num, boo, cty.List(str), cty.Set(num), cty.Map(boo), tup(str), obj("a", str), dyn}
	for _, k := range sortedNames(refn) {
		M("refinement: "+k, mpExt(refn[k]), rtargets...)
		M("refinement inside a list: "+k, append([]byte{0x91}, mpExt(refn[k])...), cty.List(str), cty.List(num), cty.List(cty.List(boo)), cty.Set(cty.Set(str)))
	}
	M("extension: fixext1 type 0", hx("d4 00 00"), rtargets...)
	M("extension: fixext1 type 5", hx("d4 05 00"), str)
	M("extension: ext8 empty", hx("c7 00 00"), str, dyn)
	M("extension: ext8 type 5 length 2", hx("c7 02 05 0000"), str)
	M("extension: fixext2 type 0x0c truncated map", hx("d5 0c 8101"), str)
	M("extension: ext16 length 1025", append(hx("c8 0401 0c"), bytes.Repeat([]byte{0x80}, 1025)...), str)
	M("extension: ext16 length 1024 of empty maps", append(hx("c8 0400 0c"), bytes.Repeat([]byte{0x80}, 1024)...), str)
	M("extension: ext32 length 2^32-1", hx("c9 ffffffff 0c 80"), str)
	M("extension: body truncated", hx("c7 20 0c 8101"), str)
	M("extension: header truncated", hx("c7"), str)
	M("extension: length 1 no body", hx("d4 00"), str)
	// dynamic wrappers
	M("F-06 msgpack null of an object type with optionals", mpDyn(`["object",{"a":"string"},["a"]]`, []byte{0xc0}), dyn)
	M("F-06 msgpack unknown of an object type with optionals", mpDyn(`["object",{"a":"string"},["a"]]`, hx("d40000")), dyn)
	M("msgpack optional below: null attribute", mpDyn(`["object",{"a":["object",{"b":"string"},["b"]]}]`, hx("81a161c0")), dyn)
	M("msgpack optional below: empty list", mpDyn(`["list",["object",{"a":"string"},["a"]]]`, []byte{0x90}), dyn)
	M("F-19 msgpack undeclared optional", mpDyn(`["object",{"a":"string"},["b"]]`, []byte{0xc0}), dyn, cty.List(dyn))
	M("wrapper with three members", hx("93 c40622737472696e6722 a178 01"), dyn)
	M("wrapper with one member", hx("91 c40622737472696e6722"), dyn)
	M("wrapper type as str", append(hx("92 a8"), append([]byte(`"string"`), 0xa1, 'x')...), dyn)
	M("wrapper type is a number", hx("92 01 a178"), dyn)
	M("wrapper type empty", hx("92 c400 a178"), dyn)
	M("wrapper type null", mpDyn(`null`, []byte{0xc0}), dyn)
	M("wrapper dynamic of dynamic", mpDyn(`"dynamic"`, mpDyn(`"string"`, []byte{0xa1, 'x'})), dyn)
	M("wrapper dynamic of nil", mpDyn(`"dynamic"`, []byte{0xc0}), dyn)
	M("wrapper capsule", mpDyn(`"capsule"`, []byte{0x01}), dyn)
	M("nil as dynamic", []byte{0xc0}, dyn, cty.List(dyn))
	M("F-33 mixed element types under dynamic", append(append([]byte{0x92}, mpDyn(`"string"`, []byte{0xa1, 'a'})...), mpDyn(`"number"`, []byte{0x01})...), cty.List(dyn), cty.Set(dyn), tup(dyn, dyn))
	M("F-33 mixed map element types", append(append(append([]byte{0x82, 0xa1, 'a'}, mpDyn(`"string"`, []byte{0xa1, 'a'})...), 0xa1, 'b'), mpDyn(`"number"`, []byte{0x01})...), cty.Map(dyn))
	M("F-33 encoder output: list of maps of dynamic", append(append(hx("92 81 a161"), mpDyn(`"number"`, []byte{0x01})...), 0x80), cty.List(cty.Map(dyn)), cty.Set(cty.Map(dyn)))
	M("dynamic nil then typed", append([]byte{0x92, 0xc0}, mpDyn(`"string"`, []byte{0xa1, 'a'})...), cty.List(dyn), cty.Set(dyn))
	// strings
	M("invalid UTF-8 string", hx("a2 fffe"), str, cty.List(str), dyn)
	M("invalid UTF-8 map key", hx("81 a2fffe 01"), cty.Map(num))
	M("bin as string", hx("c4 01 61"), str, num)
	M("string not NFC", append([]byte{0xa3}, []byte("é")...), str, cty.Set(str))
	M("str32 declaring 2^32-1 bytes", hx("db ffffffff 61"), str, num, dyn)
	M("bin32 declaring 2^31 bytes in a wrapper", hx("92 c6 80000000 22"), dyn)
	M("str16 truncated", hx("da 0005 61"), str)
	// truncation / structure
	for _, h := range []string{"", "dc", "dc00", "dd0000", "de", "df000000", "c7", "c703", "d9", "d905 61", "cb7ff0", "92", "81a161", "c1", "c1c1"} {
		M("truncated/odd "+h, hx(h), str, num, cty.List(num), cty.Map(num), tup(num), obj("a", num), dyn)
	}
	M("set with duplicates", hx("93 01 01 01"), cty.Set(num), cty.List(num))
	M("unknown member in a set", hx("91 d40000"), cty.Set(str), cty.List(str))
	M("capsule target", hx("01"), m.CapsuleA)
	M("array16 of 65535 fixints", append(hx("dc ffff"), bytes.Repeat([]byte{0x01}, 65535)...), cty.List(num), cty.Set(num))
	M("array32 with honest count", append(hx("dd 00000003"), 1, 2, 3), cty.List(num), cty.Set(num), tup(num, num, num))
	M("map32 with honest count", hx("df 00000001 a161 01"), cty.Map(num), obj("a", num))
	M("deep arrays 60000", append(bytes.Repeat([]byte{0x91}, 60000), 0xc0))
	M("deep arrays 3000 typed", append(bytes.Repeat([]byte{0x91}, 3000), 0xc0), nestType(0, 3000, str), nestType(1, 3000, str), nestType(2, 9, str))
	M("deep maps 3000 typed", append(bytes.Repeat([]byte{0x81, 0xa1, 'a'}, 3000), 0xc0), nestType(3, 3000, str), nestType(4, 3000, str))
	// length headers (F-24): the moderate ones stay recoverable, the large ones crash an unrepaired decoder
	for _, n := range []uint32{1 << 20, 1<<21 - 1, 1 << 22, 1 << 24, 0x0fffffff, 1<<31 - 1, 1 << 31, 0xffffffff} {
		name := "F-24 length header " + hex.EncodeToString(be32(n))
		M(name+" array", append(append([]byte{0xdd}, be32(n)...), 0x01), cty.List(num), cty.Set(num), tup(num))
		M(name+" map", append(append([]byte{0xdf}, be32(n)...), 0xa1, 'a', 0x01), cty.Map(num), obj("a", num))
		M(name+" nested", append(append([]byte{0x91, 0xdd}, be32(n)...), 0x01), cty.List(cty.List(num)), dyn)
		M(name+" wrapper", mpDyn(`["list","number"]`, append(append([]byte{0xdd}, be32(n)...), 0x01)), dyn)
	}
	M("F-24 design witness", hx("dd 0fffffff 01"), cty.List(num))
	// refinement asking for a known list of N unknown elements
	for _, n := range []uint32{1 << 10, 1 << 20, 1 << 22, 1 << 26, 1<<31 - 1} {
		body := append(append(append(hx("83 01c2 05ce"), be32(n)...), hx("06ce")...), be32(n)...)
		M("refinement exact length "+hex.EncodeToString(be32(n)), mpExt(body), cty.List(str), cty.Set(str), cty.Map(str))
	}
	M("refinement exact length max int64", mpExt(hx("83 01c2 05 cf7fffffffffffffff 06 cf7fffffffffffffff")), cty.List(str))
	return cs
}

func sortedNames(mm map[string][]byte) []string {
	ks := make([]string, 0, len(mm))
	for k := range mm {
		ks = append(ks, k)
	}
	for i := 1; i < len(ks); i++ {
		for j := i; j > 0 && ks[j] < ks[j-1]; j-- {
			ks[j], ks[j-1] = ks[j-1], ks[j]
		}
	}
	return ks
}

const corpusBase = 1_000_000_000

// runCorpus executes the corpus on every run: entry i in regular batch
// i mod nRegular (everything whose msgpack half is not risky), and in the first
// risk batch the risky msgpack halves, ascending by declared size.
func runCorpus(e *executor, riskBatch bool, nRegular int) {
	type item struct {
		idx    int64
		ce     corpusEntry
		weight uint32
	}
	var items []item
	for i, ce := range buildCorpus() {
		items = append(items, item{int64(corpusBase + i), ce, riskWeight(ce.in)})
	}
	if riskBatch {
		// ascending declared size, so that the smallest crashing witness is the one reported
		for i := 1; i < len(items); i++ {
			for j := i; j > 0 && items[j].weight < items[j-1].weight; j-- {
				items[j], items[j-1] = items[j-1], items[j]
			}
		}
	}
	for _, it := range items {
		ce, idx := it.ce, it.idx
		if !e.c.Want(idx) {
			continue
		}
		tc := &tcase{fam: ce.fam, class: "corpus", format: ce.format, input: ce.in, targets: ce.targets, origin: ce.name}
		for k := range ce.targets {
			_ = k
			tc.tnames = append(tc.tnames, "corpus")
		}
		isRisky := ce.fam&famMP != 0 && risky(ce.in)
		switch {
		case riskBatch && isRisky:
			e.runCase(idx, tc, famMP)
		case !riskBatch:
			if int((idx-corpusBase)%int64(nRegular)) != e.c.Batch {
				continue // the corpus is dealt round-robin over the regular batches
			}
			fam := ce.fam
			if isRisky {
				fam &^= famMP
			}
			if fam != 0 {
				e.runCase(idx, tc, fam)
			}
		}
	}
}

// riskWeight orders risky corpus entries: the largest 32-bit count they declare
// (64-bit refinement bounds weigh 0: they make the decoder panic, not die).
func riskWeight(b []byte) uint32 {
	mx, _ := maxDeclaredLen(b, 0)
	for i := 0; i+5 < len(b); i++ {
		if (b[i] == 0x05 || b[i] == 0x06) && b[i+1] == 0xce {
			if v := uint32(b[i+2])<<24 | uint32(b[i+3])<<16 | uint32(b[i+4])<<8 | uint32(b[i+5]); v > mx {
				mx = v
			}
		}
	}
	return mx
}
