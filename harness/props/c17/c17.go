// Package c17: decoders are safe on arbitrary input (error or conforming value,
// no panic, no crash, memory within a fixed multiple of the input size).
package c17

import (
	"encoding/hex"
	"fmt"
	"os"
	"runtime"
	"strconv"
	"strings"

	"github.com/zclconf/go-cty/cty"
	ctyjson "github.com/zclconf/go-cty/cty/json"
	ctymp "github.com/zclconf/go-cty/cty/msgpack"

	"verif/harness/core"
	"verif/harness/gen"
	m "verif/harness/model"
	"verif/harness/mon"
)

type Driver struct{}

func (Driver) ID() string { return "C17" }

const (
	quickRegular, quickRisk       = 16, 4
	thoroughRegular, thoroughRisk = 64, 16
	quickTotal, thoroughTotal     = 160_000, 4_000_000
)

func (Driver) Info() core.Info {
	return core.Info{
		Title: "decoders are safe on arbitrary input: error or conforming value",
		Rule: "case = (byte string, target types): the library's own JSON / MessagePack encoding of a generated value (nulls, unknowns with refinements, " +
			"dynamic wrappers, 16/32-bit headers) after 0..4 mutations (bit/byte edits, truncation, chunk duplication, splices of another encoding, msgpack length-field " +
			"edits up to 2^32-1, duplicated keys, dropped/duplicated values, stock hostile values such as NaN and contradictory refinement maps, JSON token edits); " +
			"type-descriptor documents from a grammar with hostile productions (bare and inside dynamic wrappers of both formats); deep-nesting documents; long valid documents (1023..4097 members); " +
			"msgpack arrays and maps with 1020..70000 REAL small members under a 32-bit header declaring 2^20..2^32-1 (bare, nested, as map values, dynamically typed; list / set / tuple / map / object targets; fixed grid and seeded); raw random " +
			"bytes; each format's bytes fed to the other format's decoders; a fixed corpus. Every input goes to json.Unmarshal / msgpack.Unmarshal with the original " +
			"constraint and a related (one position changed), unrelated or dynamic target, and to json.ImpliedType, SimpleJSONValue.UnmarshalJSON, json.UnmarshalType, " +
			"msgpack.ImpliedType. Oracle per call: no panic; on a nil error the result is not NilVal/NilType, passes both well-formedness walks and (value decoders) its " +
			"type conforms to the requested type; the error value can be formatted; memory: heap+stack growth of the call <= 2048*len(input)+16MiB (screen on cumulative " +
			"allocation and address-space growth, verdict on a repeated run after returning free memory to the OS). Workers run under ulimit -v 4GiB and log each case " +
			"before running it; inputs declaring >= 2^21 elements run in dedicated worker processes so that a fatal out-of-memory costs only that batch. " +
			"distinct = hash of (decoder family, input bytes, targets); non-trivial = hostile input (mutated, hand-written or grammar-generated; not pristine, not raw random)",
		Assumptions: []string{
			"the memory clause is decided for inputs <= 64 KiB (deep-nesting class <= 1 MiB in thorough, long real containers under a lying header <= 140 KiB) with the constants 2048 B/B + 16 MiB derived from valid encodings on the unchanged tree",
			"runtime/metrics heap and stack classes are an accurate account of the process's memory; the worker runs decoder calls on one goroutine",
			"target types carry no optional-attribute annotations (documented as meaningful for conversion only); optional attributes appear in the bytes under attack",
			"mon.WellFormed / cty.VerifWellFormed define well-formedness of values; type well-formedness = no NilType, optional names declared, attribute names NFC",
			"the JSON value decoder is exercised only up to nesting depth x input length <= 6e6 (quick) / 2e7 (thorough): its memory use is quadratic there (listed finding) and beyond that it would exhaust the 4 GiB worker limit",
			"sets nested deeper than 10 are not generated (building them takes time exponential in the depth) and inputs holding a number with an exponent of 7+ digits are kept away from set and dynamic targets outside the corpus (listed finding: minutes and gigabytes); running time is not part of the statement and is not judged",
		},
		MinNontrivial: 20000,
		MemLimitKB:    4 << 20,
		Durable:       true,
	}
}

func (Driver) Batches(tier string) int {
	if tier == "thorough" {
		return thoroughRegular + thoroughRisk
	}
	return quickRegular + quickRisk
}

func split(c *core.Ctx) (regular, risk int) {
	if c.Quick() {
		return quickRegular, quickRisk
	}
	return thoroughRegular, thoroughRisk
}

// ---------------------------------------------------------------------------
// Cases
// ---------------------------------------------------------------------------

const (
	famJSON = 1
	famMP   = 2
)

type tcase struct {
	fam     int
	class   string // pristine | mutated | raw | cross | deep | typedesc | wrapper | corpus
	format  string // what the bytes were built as: json | msgpack | jsontype | raw
	input   []byte
	targets []cty.Type
	tnames  []string
	origin  string
	muts    []string
	depth   int  // deep class: nesting depth
	noValue bool // deep class without a value-decoder target
}

func (t *tcase) hostile() bool { return t.class != "pristine" && t.class != "raw" }

func clipHex(b []byte, n int) string {
	if len(b) <= n {
		return hex.EncodeToString(b)
	}
	return hex.EncodeToString(b[:n]) + fmt.Sprintf("...(+%d bytes)", len(b)-n)
}

func clipText(b []byte, n int) string {
	if len(b) <= n {
		return strconv.Quote(string(b))
	}
	return strconv.Quote(string(b[:n])) + fmt.Sprintf("...(+%d bytes)", len(b)-n)
}

func (t *tcase) describe() string {
	var sb strings.Builder
	fmt.Fprintf(&sb, "class=%s format=%s len=%d", t.class, t.format, len(t.input))
	if t.origin != "" {
		sb.WriteString(" origin={" + t.origin + "}")
	}
	if len(t.muts) > 0 {
		sb.WriteString(" mutations=[" + strings.Join(t.muts, "; ") + "]")
	}
	for i, ty := range t.targets {
		fmt.Fprintf(&sb, " target[%s]=%s", t.tnames[i], typeText(ty))
	}
	sb.WriteString(" hex=" + clipHex(t.input, 1500))
	if t.format != "msgpack" {
		sb.WriteString(" text=" + clipText(t.input, 1500))
	}
	return sb.String()
}

// encodeRandom produces the library's own encoding of a generated value.
func encodeRandom(r *core.Rand, msgpack bool, maxDepth int) (enc []byte, constraint cty.Type, origin string, ok bool) {
	o := guard(func() {
		depth := 1 + r.Intn(maxDepth)
		to := gen.TypeOpts{Dynamic: r.Chance(1, 3), TwinKeys: r.Chance(1, 5)}
		vo := gen.ValueOpts{NullPct: 8, MaxLen: 3, LongStr: r.Chance(1, 3), TwinKeys: to.TwinKeys}
		if r.Chance(1, 12) { // long collections: 16-bit headers
			vo.MaxLen = 18
			if depth > 2 {
				depth = 2
			}
		}
		if msgpack {
			vo.UnknownPct = 10
			vo.Refined = true
		}
		ty := gen.Type(r, depth, to).Cty()
		v := gen.Value(r, ty, vo)
		switch r.Intn(3) {
		case 0:
			constraint = ty
		case 1:
			constraint = v.Type()
		default:
			constraint = gen.DeriveConstraint(r, v.Type(), 20)
		}
		var err error
		if msgpack {
			enc, err = ctymp.Marshal(v, constraint)
		} else {
			enc, err = ctyjson.Marshal(v, constraint)
		}
		if err != nil {
			return
		}
		origin = fmt.Sprintf("value of type %s encoded against %s", typeText(v.Type()), typeText(constraint))
		ok = true
	})
	if o.panicked {
		return nil, cty.NilType, "", false
	}
	return
}

func pickTargets(r *core.Rand, tc *tcase, constraint cty.Type, n int) {
	tc.targets = append(tc.targets, constraint)
	tc.tnames = append(tc.tnames, "original")
	for len(tc.targets) < n {
		switch r.Weighted([]int{45, 30, 15}) {
		case 0:
			tc.targets = append(tc.targets, relatedType(r, constraint))
			tc.tnames = append(tc.tnames, "related")
		case 1:
			tc.targets = append(tc.targets, unrelatedType(r))
			tc.tnames = append(tc.tnames, "unrelated")
		default:
			tc.targets = append(tc.targets, cty.DynamicPseudoType)
			tc.tnames = append(tc.tnames, "dynamic")
		}
	}
}

var fallbackJSON = []byte(`{"a":[1,"x",null],"b":{"value":true,"type":"bool"}}`)
var fallbackMP = []byte{0x82, 0xa1, 'a', 0x93, 0x01, 0xa1, 'x', 0xc0, 0xa1, 'b', 0x92, 0xc4, 0x06, '"', 'b', 'o', 'o', 'l', '"', 0xc3}

// genCase draws case g. With onlyMP the JSON-only classes return nil early
// (used by the risk batches, which only execute msgpack-family inputs).
func genCase(r *core.Rand, thorough, onlyMP bool) *tcase {
	maxDepth := 3
	if thorough {
		maxDepth = 4
	}
	cls := r.Weighted([]int{38, 38, 4, 5, 5, 3, 3, 2, 6, 1})
	// 0 json encoding, 1 msgpack encoding, 2 bare type descriptor, 3 json wrapper, 4 msgpack wrapper, 5 raw, 6 cross, 7 deep,
	// 8 grammar-generated refinement extension (refgen.go)
	if cls == 8 {
		return refinementDoc(r)
	}
	if cls == 9 {
		return longDoc(r, thorough, onlyMP)
	}
	if onlyMP && (cls == 0 || cls == 2 || cls == 3) {
		return nil
	}
	tc := &tcase{}
	switch cls {
	case 0, 1, 6:
		msgpack := cls == 1
		if cls == 6 {
			msgpack = r.Bool()
		}
		enc, constraint, origin, ok := encodeRandom(r, msgpack, maxDepth)
		if !ok {
			constraint = cty.DynamicPseudoType
			origin = "fallback document"
			if msgpack {
				enc = fallbackMP
			} else {
				enc = fallbackJSON
			}
		}
		tc.origin = origin
		tc.format, tc.fam = "json", famJSON
		if msgpack {
			tc.format, tc.fam = "msgpack", famMP
		}
		k := r.Weighted([]int{8, 36, 26, 15, 15})
		var donor []byte
		if k > 0 {
			donor, _, _, _ = encodeRandom(r, msgpack, 2)
		}
		b := enc
		for i := 0; i < k; i++ {
			var d string
			done := false
			if r.Chance(3, 5) {
				if msgpack {
					b, d, done = mpMutate(r, b, donor)
				} else {
					b, d, done = jsonMutate(r, b, donor)
				}
			}
			if !done {
				b, d = byteMutate(r, b, donor)
			}
			tc.muts = append(tc.muts, d)
		}
		tc.input = b
		tc.class = "mutated"
		if k == 0 {
			tc.class = "pristine"
		}
		nt := 2
		if r.Chance(1, 4) {
			nt = 3
		}
		pickTargets(r, tc, constraint, nt)
		if cls == 6 {
			tc.class = "cross"
			tc.fam = famJSON | famMP
		}
	case 2:
		tc.format, tc.fam, tc.class = "jsontype", famJSON, "typedesc"
		if r.Chance(1, 3) {
			o := guard(func() {
				t := gen.Type(r, 1+r.Intn(maxDepth), gen.TypeOpts{Dynamic: true, Optional: true, TwinKeys: r.Bool()}).Cty()
				b, err := ctyjson.MarshalType(t)
				if err == nil {
					tc.input = b
					tc.origin = "MarshalType(" + typeText(t) + ")"
				}
			})
			if o.panicked || tc.input == nil {
				tc.input = []byte(`["object",{"a":"string"},["a"]]`)
			}
			for i, k := 0, r.Intn(3); i < k; i++ {
				nb, d, ok := jsonMutate(r, tc.input, []byte(`["tuple",["dynamic",["set","number"]]]`))
				if !ok {
					nb, d = byteMutate(r, tc.input, nil)
				}
				tc.input = nb
				tc.muts = append(tc.muts, d)
			}
		} else {
			tc.input = []byte(typeDesc(r, 1+r.Intn(4), 12))
			tc.origin = "grammar"
		}
		tc.targets = []cty.Type{cty.DynamicPseudoType, unrelatedType(r)}
		tc.tnames = []string{"dynamic", "unrelated"}
	case 3, 4:
		// dynamic-value wrapper around a grammar-generated type descriptor
		tc.class = "wrapper"
		desc := typeDesc(r, 1+r.Intn(3), 8)
		tc.origin = "wrapper of type descriptor " + desc
		var val []byte
		if cls == 3 {
			tc.format, tc.fam = "json", famJSON
			val = []byte([]string{`null`, `{}`, `[]`, `"x"`, `{"a":null}`, `{"a":"x"}`, `[null]`, `{"a":{}}`, `[{"a":null}]`, `{"a":{"a":null}}`}[r.Intn(10)])
			if r.Bool() {
				tc.input = []byte(`{"type":` + desc + `,"value":` + string(val) + `}`)
			} else {
				tc.input = []byte(`{"value":` + string(val) + `,"type":` + desc + `}`)
			}
			for i, k := 0, r.Weighted([]int{6, 3, 1}); i < k; i++ {
				nb, d, ok := jsonMutate(r, tc.input, fallbackJSON)
				if ok {
					tc.input = nb
					tc.muts = append(tc.muts, d)
				}
			}
		} else {
			tc.format, tc.fam = "msgpack", famMP
			val = [][]byte{{0xc0}, {0x80}, {0x90}, {0xa1, 'x'}, {0x81, 0xa1, 'a', 0xc0}, {0x81, 0xa1, 'a', 0xa1, 'x'}, {0x91, 0xc0}, {0xd4, 0, 0},
				{0x81, 0xa1, 'a', 0x80}, {0x91, 0x81, 0xa1, 'a', 0xc0}, {0x81, 0xa1, 'a', 0x81, 0xa1, 'a', 0xc0}}[r.Intn(11)]
			tc.input = append(append([]byte{0x92}, mpHeader('b', uint32(len(desc)), false)...), desc...)
			tc.input = append(tc.input, val...)
			for i, k := 0, r.Weighted([]int{6, 3, 1}); i < k; i++ {
				nb, d, ok := mpMutate(r, tc.input, fallbackMP)
				if ok {
					tc.input = nb
					tc.muts = append(tc.muts, d)
				}
			}
		}
		tc.targets = []cty.Type{cty.DynamicPseudoType}
		tc.tnames = []string{"dynamic"}
		if r.Chance(1, 3) {
			wrapAt := []cty.Type{cty.List(cty.DynamicPseudoType), cty.Map(cty.DynamicPseudoType), cty.Tuple([]cty.Type{cty.DynamicPseudoType}),
				cty.Object(map[string]cty.Type{"a": cty.DynamicPseudoType}), cty.Set(cty.DynamicPseudoType)}[r.Intn(5)]
			// the same wrapper one level down
			if cls == 3 {
				switch {
				case wrapAt.IsMapType() || wrapAt.IsObjectType():
					tc.input = []byte(`{"a":` + string(tc.input) + `}`)
				default:
					tc.input = []byte(`[` + string(tc.input) + `]`)
				}
			} else {
				switch {
				case wrapAt.IsMapType() || wrapAt.IsObjectType():
					tc.input = append([]byte{0x81, 0xa1, 'a'}, tc.input...)
				default:
					tc.input = append([]byte{0x91}, tc.input...)
				}
			}
			tc.targets = append(tc.targets, wrapAt)
			tc.tnames = append(tc.tnames, "dynamic-below")
		}
	case 5:
		tc.format, tc.fam, tc.class = "raw", famJSON|famMP, "raw"
		n := r.Intn(48)
		tc.input = make([]byte, n)
		for i := range tc.input {
			if r.Chance(1, 3) {
				tc.input[i] = hotBytes[r.Intn(len(hotBytes))]
			} else {
				tc.input[i] = byte(r.Intn(256))
			}
		}
		tc.targets = []cty.Type{unrelatedType(r), cty.DynamicPseudoType}
		tc.tnames = []string{"unrelated", "dynamic"}
	default:
		maxLen := maxInput
		if thorough && r.Chance(1, 4) {
			maxLen = 1 << 20
		}
		dc := deepDoc(r, maxLen, thorough)
		if onlyMP && dc.format != "msgpack" {
			return nil
		}
		tc.format, tc.class, tc.origin, tc.depth = dc.format, "deep", dc.desc, dc.depth
		tc.fam = famJSON
		if dc.format == "msgpack" {
			tc.fam = famMP
		}
		tc.input = dc.input
		if r.Chance(1, 3) {
			nb, d := byteMutate(r, tc.input, nil)
			if len(nb) <= len(tc.input)+8 {
				tc.input = nb
				tc.muts = append(tc.muts, d)
			}
		}
		if dc.target != cty.NilType {
			tc.targets = []cty.Type{dc.target}
			tc.tnames = []string{"matching"}
		} else {
			tc.noValue = true
		}
	}
	return tc
}

// risky reports whether the msgpack decoders could be asked to pre-allocate
// hundreds of megabytes for b: a 32-bit array/map header, or an integer after a
// refinement length key, of at least 2^21 (scanned anywhere in the buffer, also
// inside strings: this only decides in WHICH worker process the case runs).
func risky(b []byte) bool {
	const thr = 1 << 21
	if mx, _ := maxDeclaredLen(b, thr); mx >= thr {
		return true
	}
	for i := 0; i+5 < len(b); i++ {
		if b[i] != 0x05 && b[i] != 0x06 {
			continue
		}
		switch b[i+1] {
		case 0xce, 0xd2:
			if v := uint32(b[i+2])<<24 | uint32(b[i+3])<<16 | uint32(b[i+4])<<8 | uint32(b[i+5]); v >= thr {
				return true
			}
		case 0xcf, 0xd3:
			if i+9 < len(b) {
				var v uint64
				for k := 0; k < 8; k++ {
					v = v<<8 | uint64(b[i+2+k])
				}
				if v >= thr {
					return true
				}
			}
		}
	}
	return false
}

// ---------------------------------------------------------------------------
// Run
// ---------------------------------------------------------------------------

func (Driver) Run(c *core.Ctx) {
	// 16 workers run side by side: one thread for the cases, one for the collector
	runtime.GOMAXPROCS(2)
	nb, nr := split(c)
	total := int64(c.N(quickTotal, thoroughTotal))
	e := &executor{c: c, mm: newMemMon()}
	thorough := !c.Quick()
	corpusOnly := os.Getenv("C17_CORPUS_ONLY") != "" // development aid: fixed corpus only
	if corpusOnly {
		total = 0
	}
	if c.Batch < nb {
		runCorpus(e, false, nb)
		runLongLies(e, nb, nr, -1)
		for g := int64(c.Batch); g < total; g += int64(nb) {
			if !c.Want(g) {
				continue
			}
			tc := genCase(c.GlobalRNG("case:"+strconv.FormatInt(g, 10)), thorough, false)
			fam := tc.fam
			if fam&famMP != 0 && risky(tc.input) {
				fam &^= famMP
				c.Count("routing:msgpack-family-deferred-to-risk-batch")
				if fam == 0 {
					continue
				}
			}
			e.runCase(g, tc, fam)
		}
		return
	}
	k := c.Batch - nb
	if k == 0 {
		runCorpus(e, true, nb)
	}
	runLongLies(e, nb, nr, k)
	for g := int64(k); g < total; g += int64(nr) {
		if !c.Want(g) {
			continue
		}
		tc := genCase(c.GlobalRNG("case:"+strconv.FormatInt(g, 10)), thorough, true)
		if tc == nil || tc.fam&famMP == 0 || !risky(tc.input) {
			continue
		}
		c.Count("routing:risk-batch-case")
		e.runCase(g, tc, famMP)
	}
}

type executor struct {
	c  *core.Ctx
	mm *memMon
}

type guardOut struct {
	panicked bool
	msg      string
	where    string // innermost go-cty function on the panicking stack
	stack    string
}

const ctyPkg = "github.com/zclconf/go-cty/"

// guard runs f under recover and names the innermost go-cty function of the
// panicking stack (by function name, so it does not depend on where the source lives).
func guard(f func()) (out guardOut) {
	defer func() {
		if r := recover(); r != nil {
			out.panicked = true
			out.msg = fmt.Sprint(r)
			pcs := make([]uintptr, 64)
			n := runtime.Callers(2, pcs)
			fr := runtime.CallersFrames(pcs[:n])
			var lines []string
			for {
				f, more := fr.Next()
				if strings.HasPrefix(f.Function, ctyPkg) {
					fn := strings.TrimPrefix(f.Function, ctyPkg)
					if out.where == "" {
						out.where = fn
					}
					if len(lines) < 8 {
						file := f.File
						if i := strings.LastIndex(file, "/cty/"); i >= 0 {
							file = file[i+1:]
						}
						lines = append(lines, fmt.Sprintf("%s @ %s:%d", fn, file, f.Line))
					}
				}
				if !more {
					break
				}
			}
			out.stack = strings.Join(lines, "\n")
		}
	}()
	f()
	return
}

const memFacet = "memory: growth over one call exceeds 2048*len(input)+16MiB"

func depthOfJSON(b []byte) int {
	d, mx := 0, 0
	inStr := false
	for i := 0; i < len(b); i++ {
		c := b[i]
		if inStr {
			if c == '\\' {
				i++
			} else if c == '"' {
				inStr = false
			}
			continue
		}
		switch c {
		case '"':
			inStr = true
		case '[', '{':
			d++
			if d > mx {
				mx = d
			}
		case ']', '}':
			if d > 0 {
				d--
			}
		}
	}
	return mx
}

func depthOfMP(b []byte) int {
	mx := 0
	for _, nd := range mpWalk(b, 1<<20) {
		if nd.depth > mx {
			mx = nd.depth
		}
	}
	return mx
}

// maxExponentDigits returns the largest number of digits (leading zeros not
// counted) that follow an 'e'/'E' (and an optional sign) anywhere in b: the
// size of the largest decimal exponent a number token or number string can carry.
func maxExponentDigits(b []byte) int {
	mx := 0
	for i := 0; i+1 < len(b); i++ {
		if b[i] != 'e' && b[i] != 'E' && b[i] != 'p' && b[i] != 'P' {
			// 'p' / 'P': big.Float's parser (and so cty.ParseNumberVal and the msgpack number strings) also
			// accepts a BINARY exponent, "2767011611p564327421"; seen as a mutation of a digit string
			continue
		}
		j := i + 1
		if j < len(b) && (b[j] == '+' || b[j] == '-') {
			j++
		}
		for j < len(b) && b[j] == '0' {
			j++
		}
		n := 0
		for j < len(b) && b[j] >= '0' && b[j] <= '9' {
			n++
			j++
		}
		if n > mx {
			mx = n
		}
	}
	return mx
}

func hasSetOrDynamic(t cty.Type) bool {
	switch {
	case t == cty.DynamicPseudoType, t.IsSetType():
		return true
	case t.IsListType(), t.IsMapType():
		return hasSetOrDynamic(t.ElementType())
	case t.IsTupleType():
		for _, et := range t.TupleElementTypes() {
			if hasSetOrDynamic(et) {
				return true
			}
		}
	case t.IsObjectType():
		for _, at := range t.AttributeTypes() {
			if hasSetOrDynamic(at) {
				return true
			}
		}
	}
	return false
}

// memClass is the input class of a memory violation.
func memClass(site string, in []byte) string {
	if strings.HasPrefix(site, "msgpack.") {
		if mx, kinds := maxDeclaredLen(in, 1<<18); mx >= 1<<18 {
			return "declared-length:" + kinds
		}
		for i := 0; i+2 < len(in); i++ {
			if (in[i] == 0x05 || in[i] == 0x06) && (in[i+1] == 0xce || in[i+1] == 0xcf || in[i+1] == 0xd2 || in[i+1] == 0xd3) {
				return "refinement-length-bound"
			}
		}
		if maxExponentDigits(in) >= 6 {
			return "number-exponent>=100000"
		}
		if depthOfMP(in) >= 128 { // the structure walker itself stops at depth 200
			return "deep-nesting"
		}
		return ""
	}
	if maxExponentDigits(in) >= 6 {
		return "number-exponent>=100000"
	}
	if depthOfJSON(in) >= 256 {
		return "deep-nesting"
	}
	return ""
}

// call runs one decoder call under the panic guard and the memory monitor.
func (e *executor) call(site string, tc *tcase, target string, f func()) (ok bool) {
	c := e.c
	var g guardOut
	obs := e.mm.observe(len(tc.input), func() { g = guard(f) })
	c.Eval(1)
	c.Count("call:" + site)
	witness := func() string {
		w := tc.describe()
		if target != "" {
			w = "decoder=" + site + " target=" + target + " " + w
		} else {
			w = "decoder=" + site + " " + w
		}
		return w
	}
	if len(tc.input) >= 4096 {
		ratio := obs.cum / int64(len(tc.input))
		switch {
		case ratio <= 64:
			c.Count("mem:cum-alloc-per-input-byte<=64 (inputs>=4KiB)")
		case ratio <= 512:
			c.Count("mem:cum-alloc-per-input-byte<=512 (inputs>=4KiB)")
		case ratio <= 2048:
			c.Count("mem:cum-alloc-per-input-byte<=2048 (inputs>=4KiB)")
		default:
			c.Count("mem:cum-alloc-per-input-byte>2048 (inputs>=4KiB)")
		}
	}
	if obs.screened {
		c.Count("mem:screened:" + site)
		if obs.peak > memBound(len(tc.input)) {
			c.Count("mem:violation:" + site)
			c.Violate(site, memFacet, memClass(site, tc.input), witness(),
				fmt.Sprintf("input %d bytes, bound %d bytes; first run: %d bytes allocated, address space grew by %d; repeated run after GC and release of free memory: mapped memory grew by %d bytes",
					len(tc.input), memBound(len(tc.input)), obs.cum, obs.growth, obs.peak))
		} else {
			c.Count("mem:screened-but-within-bound:" + site)
		}
	}
	if g.panicked {
		c.Count("outcome:panic:" + site)
		c.Violate(site, "panic: "+core.PanicClass(g.msg), "in "+g.where, witness(), "panic: "+g.msg+"\n"+g.stack)
		return false
	}
	return true
}

func wfClass(msg string) string {
	switch {
	case strings.Contains(msg, "optional"):
		return "optional-attributes"
	case strings.Contains(msg, "NFC") || strings.Contains(msg, "normaliz"):
		return "not-nfc"
	case strings.Contains(msg, "UTF-8") || strings.Contains(msg, "utf8"):
		return "invalid-utf8"
	case strings.Contains(msg, "duplicate"):
		return "set-duplicates"
	case strings.Contains(msg, "dynamic pseudo-type"):
		return "dynamic-known"
	case strings.Contains(msg, "empty range"):
		return "refinement-empty-range"
	case strings.Contains(msg, "length bounds"):
		return "refinement-length-bounds"
	case strings.Contains(msg, "NilVal"):
		return "nilval"
	case strings.Contains(msg, "element type") || strings.Contains(msg, "member type") || strings.Contains(msg, "attribute type"):
		return "member-type"
	}
	return "other"
}

// conformDiff names the first way in which t fails to conform to constraint k ("" = conforms).
func conformDiff(t, k *m.TNode) string {
	if k.K == m.KDynamic {
		return ""
	}
	if t.K != k.K {
		return "kind"
	}
	switch t.K {
	case m.KList, m.KSet, m.KMap:
		return conformDiff(t.Elem, k.Elem)
	case m.KTuple:
		if len(t.Elems) != len(k.Elems) {
			return "tuple-arity"
		}
		for i := range t.Elems {
			if d := conformDiff(t.Elems[i], k.Elems[i]); d != "" {
				return d
			}
		}
	case m.KObject:
		if len(t.Attrs) != len(k.Attrs) {
			return "object-attribute-set"
		}
		for _, n := range t.AttrNames() {
			ka, ok := k.Attrs[n]
			if !ok {
				return "object-attribute-set"
			}
			if d := conformDiff(t.Attrs[n], ka); d != "" {
				return d
			}
		}
	case m.KCapsule:
		if t.Capsule != k.Capsule {
			return "capsule"
		}
	}
	return ""
}

// typeWellFormed walks a type through its public accessors. The position of a
// problem is reported by depth only (a path string per level would be quadratic
// on the deep-nesting class).
func typeWellFormed(t cty.Type, allowOptional bool, depth int) string {
	at := func(msg string) string { return fmt.Sprintf("at depth %d: %s", depth, msg) }
	switch {
	case t == cty.NilType:
		return at("NilType")
	case t == cty.Bool, t == cty.Number, t == cty.String, t == cty.DynamicPseudoType:
		return ""
	case t.IsListType(), t.IsSetType(), t.IsMapType():
		return typeWellFormed(t.ElementType(), allowOptional, depth+1)
	case t.IsTupleType():
		for _, et := range t.TupleElementTypes() {
			if r := typeWellFormed(et, allowOptional, depth+1); r != "" {
				return r
			}
		}
		return ""
	case t.IsObjectType():
		ats := t.AttributeTypes()
		for n, aty := range ats {
			if !isNFC(n) {
				return at(fmt.Sprintf("attribute name %q is not NFC-normalized", n))
			}
			if !t.HasAttribute(n) {
				return at(fmt.Sprintf("HasAttribute(%q) is false for a listed attribute", n))
			}
			if r := typeWellFormed(aty, allowOptional, depth+1); r != "" {
				return r
			}
		}
		opt := t.OptionalAttributes()
		if len(opt) > 0 && !allowOptional {
			return at("object type carries optional attributes")
		}
		for n := range opt {
			if _, ok := ats[n]; !ok {
				return at(fmt.Sprintf("optional attribute %q is not declared", n))
			}
		}
		return ""
	case t.IsCapsuleType():
		return ""
	}
	return at("unsupported type implementation")
}

func (e *executor) checkErr(site string, tc *tcase, err error) {
	g := guard(func() {
		_ = err.Error()
		if pe, ok := err.(cty.PathError); ok {
			for _, st := range pe.Path {
				switch s := st.(type) {
				case cty.GetAttrStep:
					_ = s.Name
				case cty.IndexStep:
					_ = s.Key.GoString()
				}
			}
		}
	})
	if g.panicked {
		e.c.Violate(site, "the returned error panics when formatted", "in "+g.where, "decoder="+site+" "+tc.describe(), g.msg+"\n"+g.stack)
	}
}

// checkValue applies the result clauses to a value returned with a nil error.
func (e *executor) checkValue(site string, tc *tcase, tname string, target cty.Type, v cty.Value) {
	c := e.c
	wit := func() string { return "decoder=" + site + " target=" + typeText(target) + " " + tc.describe() }
	if v == cty.NilVal {
		c.Violate(site, "returned NilVal with a nil error", "", wit(), "")
		return
	}
	g := guard(func() {
		bad := mon.WellFormed(v)
		if bad == "" {
			if err := cty.VerifWellFormed(v); err != nil {
				bad = "hook: " + err.Error()
			}
		}
		if bad != "" {
			c.Count("clause:not-well-formed:" + site)
			c.Violate(site, "result is not well-formed", wfClass(bad), wit(), fmt.Sprintf("%s; result %s", bad, showValue(tc, v)))
		} else {
			c.Count("clause:well-formed-ok:" + site)
		}
		if target != cty.NilType {
			got, want := m.TNodeOf(v.Type()), m.TNodeOf(target)
			d := conformDiff(got, want)
			if d != "" || !m.Conforms(got, want) {
				c.Count("clause:nonconforming:" + site)
				c.Violate(site, "result type does not conform to the requested type", d, wit(),
					fmt.Sprintf("result type %s; requested %s; result %s", typeText(v.Type()), typeText(target), showValue(tc, v)))
			} else {
				c.Count("clause:conforms-ok:" + site + ":" + tname)
			}
			if errs := v.Type().TestConformance(target); (len(errs) == 0) != (d == "") {
				c.CrossNote("C07", "TestConformance disagrees with the conformance model", wit())
			}
		}
	})
	if g.panicked {
		c.Count("clause:not-well-formed:" + site)
		c.Violate(site, "result is not well-formed", "walk-panicked", wit(), "inspecting the result panicked: "+g.msg+"\n"+g.stack)
	}
}

func (e *executor) checkType(site string, tc *tcase, t cty.Type, allowOptional bool) {
	c := e.c
	wit := func() string { return "decoder=" + site + " " + tc.describe() }
	if t == cty.NilType {
		c.Violate(site, "returned NilType with a nil error", "", wit(), "")
		return
	}
	g := guard(func() {
		bad := typeWellFormed(t, allowOptional, 0)
		if bad == "" {
			if len(tc.input) <= 2048 { // the library's GoString is quadratic in the nesting depth
				_ = t.GoString()
			}
			_ = t.FriendlyName()
			if !t.Equals(t) {
				bad = "type is not equal to itself"
			}
		}
		if bad != "" {
			c.Count("clause:type-not-well-formed:" + site)
			c.Violate(site, "result type is not well-formed", wfClass(bad), wit(), bad+"; result "+typeText(t))
		} else {
			c.Count("clause:type-well-formed-ok:" + site)
		}
	})
	if g.panicked {
		c.Violate(site, "result type is not well-formed", "walk-panicked", wit(), "inspecting the result type panicked: "+g.msg+"\n"+g.stack)
	}
}

// showValue prints a result for a violation report (not for inputs whose
// numbers would take the library minutes to print).
func showValue(tc *tcase, v cty.Value) string {
	if maxExponentDigits(tc.input) >= 6 || len(tc.input) > 4096 {
		return "(not printed)"
	}
	return clipStr(fmt.Sprintf("%#v", v), 1200)
}

func clipStr(s string, n int) string {
	if len(s) <= n {
		return s
	}
	return s[:n] + fmt.Sprintf("...(+%d)", len(s)-n)
}

// again decodes an accepted input a second time in the same process and judges the second result like the first:
// a decoder that remembers something between calls (parsed type descriptors, refinement blobs, scratch values) is
// right the first time and may be wrong the second. Small inputs only; the statement allows either an error or a
// conforming value, so only an accepted second result is looked at.
func (e *executor) again(site string, tc *tcase, tname string, ty cty.Type, dec func() (cty.Value, error)) {
	if len(tc.input) > 4096 || tc.class == "deep" || tc.class == "long-lie" {
		return
	}
	var v cty.Value
	var err error
	if !e.call(site, tc, typeText(ty), func() { v, err = dec() }) || err != nil {
		return
	}
	e.c.Count("clause:second-decode-of-the-same-input:" + site)
	e.checkValue(site, tc, tname, ty, v)
}

func (e *executor) runCase(idx int64, tc *tcase, fam int) {
	c := e.c
	c.Begin(idx, tc.describe)
	c.Count("class:" + tc.class + ":" + tc.format)
	c.Count(fmt.Sprintf("mutations:%d", len(tc.muts)))
	accepted := 0
	in := tc.input
	// A number with a decimal exponent of millions placed in a set is written out
	// digit by digit when the set hashes it (listed finding): seconds and hundreds
	// of megabytes at 7 digits, effectively a hang at 9. The corpus holds bounded
	// witnesses; elsewhere such inputs are kept away from set and dynamic targets.
	hugeExp := tc.class != "corpus" && maxExponentDigits(in) >= 7

	if fam&famJSON != 0 {
		deepBudget := tc.class != "deep" || int64(tc.depth)*int64(len(in)) <= jsonDeepBudget(!c.Quick())
		for i, ty := range tc.targets {
			ty := ty
			var v cty.Value
			var err error
			if hugeExp && hasSetOrDynamic(ty) {
				c.Count("skipped:exponent-of-7+-digits-into-a-set-or-dynamic-target")
				continue
			}
			if !e.call("json.Unmarshal", tc, typeText(ty), func() { v, err = ctyjson.Unmarshal(in, ty) }) {
				continue
			}
			if err != nil {
				c.Count("outcome:error:json.Unmarshal")
				e.checkErr("json.Unmarshal", tc, err)
				continue
			}
			c.Count("outcome:value:json.Unmarshal:" + tc.class)
			accepted++
			e.checkValue("json.Unmarshal", tc, tc.tnames[i], ty, v)
			e.again("json.Unmarshal", tc, tc.tnames[i], ty, func() (cty.Value, error) { return ctyjson.Unmarshal(in, ty) })
		}
		var ity cty.Type
		var ierr error
		if e.call("json.ImpliedType", tc, "", func() { ity, ierr = ctyjson.ImpliedType(in) }) {
			if ierr != nil {
				c.Count("outcome:error:json.ImpliedType")
				e.checkErr("json.ImpliedType", tc, ierr)
			} else {
				c.Count("outcome:value:json.ImpliedType:" + tc.class)
				accepted++
				e.checkType("json.ImpliedType", tc, ity, false)
			}
		}
		if deepBudget {
			var sv ctyjson.SimpleJSONValue
			var serr error
			if e.call("json.SimpleJSONValue.UnmarshalJSON", tc, "", func() { sv = ctyjson.SimpleJSONValue{}; serr = sv.UnmarshalJSON(in) }) {
				if serr != nil {
					c.Count("outcome:error:json.SimpleJSONValue.UnmarshalJSON")
					e.checkErr("json.SimpleJSONValue.UnmarshalJSON", tc, serr)
				} else {
					c.Count("outcome:value:json.SimpleJSONValue.UnmarshalJSON:" + tc.class)
					accepted++
					// the requested type of this decoder is the implied type of the same bytes
					want := cty.NilType
					if ierr == nil {
						want = ity
					}
					e.checkValue("json.SimpleJSONValue.UnmarshalJSON", tc, "implied", want, sv.Value)
				}
			}
		} else {
			c.Count("skipped:SimpleJSONValue-beyond-depth-x-length-budget")
		}
		var tt cty.Type
		var terr error
		if e.call("json.UnmarshalType", tc, "", func() { tt, terr = ctyjson.UnmarshalType(in) }) {
			if terr != nil {
				c.Count("outcome:error:json.UnmarshalType")
				e.checkErr("json.UnmarshalType", tc, terr)
			} else {
				c.Count("outcome:value:json.UnmarshalType:" + tc.class)
				accepted++
				e.checkType("json.UnmarshalType", tc, tt, true)
			}
		}
	}

	if fam&famMP != 0 {
		for i, ty := range tc.targets {
			ty := ty
			var v cty.Value
			var err error
			if hugeExp && hasSetOrDynamic(ty) {
				c.Count("skipped:exponent-of-7+-digits-into-a-set-or-dynamic-target")
				continue
			}
			if !e.call("msgpack.Unmarshal", tc, typeText(ty), func() { v, err = ctymp.Unmarshal(in, ty) }) {
				continue
			}
			if err != nil {
				c.Count("outcome:error:msgpack.Unmarshal")
				e.checkErr("msgpack.Unmarshal", tc, err)
				continue
			}
			c.Count("outcome:value:msgpack.Unmarshal:" + tc.class)
			accepted++
			if !v.IsWhollyKnown() {
				c.Count("outcome:value-with-unknowns:msgpack.Unmarshal")
			}
			e.checkValue("msgpack.Unmarshal", tc, tc.tnames[i], ty, v)
			e.again("msgpack.Unmarshal", tc, tc.tnames[i], ty, func() (cty.Value, error) { return ctymp.Unmarshal(in, ty) })
		}
		var ity cty.Type
		var ierr error
		if e.call("msgpack.ImpliedType", tc, "", func() { ity, ierr = ctymp.ImpliedType(in) }) {
			if ierr != nil {
				c.Count("outcome:error:msgpack.ImpliedType")
				e.checkErr("msgpack.ImpliedType", tc, ierr)
			} else {
				c.Count("outcome:value:msgpack.ImpliedType:" + tc.class)
				accepted++
				e.checkType("msgpack.ImpliedType", tc, ity, false)
			}
		}
	}

	if tc.hostile() {
		if accepted > 0 {
			c.Count("nontrivial:hostile-input-accepted-by-some-decoder")
		} else {
			c.Count("nontrivial:hostile-input-rejected-by-all")
		}
	}
	var tn []string
	for _, t := range tc.targets {
		tn = append(tn, typeText(t))
	}
	c.DistinctHash(core.HashString(fmt.Sprintf("%d|%x|%s", fam, in, strings.Join(tn, "|"))), tc.hostile())
	if c.WantSample() && (tc.class == "mutated" || tc.class == "wrapper") && accepted > 0 && len(in) < 200 {
		c.Sample(map[string]any{"class": tc.class, "format": tc.format, "input_hex": hex.EncodeToString(in), "mutations": tc.muts, "targets": tn, "decoders_accepting": accepted})
	}
}
