package c17

import (
	"runtime"
	"runtime/debug"
	"runtime/metrics"
)

// Memory monitor.
//
// The property bounds a decoder's memory use by a fixed multiple of the input
// size. What is observed, per decoder call:
//
//	sys    = heap + stack address space obtained from the OS (never shrinks:
//	         a process-lifetime high-water mark; MemStats.HeapSys+StackSys)
//	mapped = sys minus what has been returned to the OS
//	cum    = bytes allocated on the heap during the call (an upper bound of the
//	         heap part of the call's peak)
//
// Screen (every call, ~1 us): cum > bound or growth of sys/mapped > bound.
// A call that passes the screen cannot have used more than bound bytes of heap,
// and its stack growth is seen by the sys/mapped terms.
// Verdict (screened calls only): the call is repeated after a forced GC and
// after returning all free memory to the OS; the growth of `mapped` over the
// repeated call is then the peak the call needed (live data + collector slack
// under the default GOGC). The clause is violated iff that exceeds bound.
//
// The constants were derived from valid encodings on the unchanged tree (see
// NOTES.md): the most expensive valid encodings cost about 900 bytes per input
// byte (a list of one-byte integers: each becomes a 512-bit big.Float) and about
// 1250 bytes per input byte of goroutine stack (60000 nested one-element arrays).
const (
	memFactor = 2048
	memConst  = 16 << 20
)

func memBound(inputLen int) int64 { return int64(memFactor)*int64(inputLen) + memConst }

var memNames = []string{
	"/memory/classes/heap/objects:bytes",
	"/memory/classes/heap/unused:bytes",
	"/memory/classes/heap/free:bytes",
	"/memory/classes/heap/stacks:bytes",
	"/memory/classes/os-stacks:bytes",
	"/memory/classes/heap/released:bytes",
	"/gc/heap/allocs:bytes",
}

type memSnap struct{ sys, mapped, cum int64 }

type memMon struct {
	s     []metrics.Sample
	calls int
}

func newMemMon() *memMon {
	m := &memMon{s: make([]metrics.Sample, len(memNames))}
	for i := range m.s {
		m.s[i].Name = memNames[i]
	}
	return m
}

func (m *memMon) read() memSnap {
	metrics.Read(m.s)
	var sn memSnap
	for i := 0; i < 5; i++ {
		sn.mapped += int64(m.s[i].Value.Uint64())
	}
	sn.sys = sn.mapped + int64(m.s[5].Value.Uint64())
	sn.cum = int64(m.s[6].Value.Uint64())
	return sn
}

// tick keeps the baseline flat: a forced collection every 512 decoder calls.
func (m *memMon) tick() {
	m.calls++
	if m.calls%512 == 0 {
		runtime.GC()
	}
}

type memObs struct {
	cum, growth int64 // first run
	screened    bool
	peak        int64 // repeated run (only if screened)
}

// observe runs f under the screen and, if screened, once more for the verdict.
func (m *memMon) observe(inputLen int, f func()) memObs {
	m.tick()
	b := memBound(inputLen)
	s0 := m.read()
	f()
	s1 := m.read()
	o := memObs{cum: s1.cum - s0.cum, growth: s1.sys - s0.sys}
	if g := s1.mapped - s0.mapped; g > o.growth {
		o.growth = g
	}
	if o.cum <= b && o.growth <= b {
		return o
	}
	o.screened = true
	runtime.GC()
	debug.FreeOSMemory()
	p0 := m.read()
	f()
	p1 := m.read()
	o.peak = p1.mapped - p0.mapped
	return o
}
