package c17

// Grammar-driven hostile refinement extensions (msgpack ext type 0x0c).
//
// The generic msgpack mutators treat an extension as an opaque payload, so the
// refinement map of an unknown value was reached only by byte flips and by the
// fixed corpus. The refinement map is untrusted input like everything else:
// its entries may come in ANY order, repeat a key, contradict each other, carry
// values of the wrong kind or name keys that do not apply to the target type.
// This generator writes such maps directly: 0..6 entries drawn with
// replacement from the six defined keys (and a few undefined ones), in random
// order, with values from pools that sit on the decoders' decision points
// (0, 1, equal bounds, 255/256/257, 2^16, 2^19..2^21, 2^31, 2^32-1, 2^63-1,
// negative; numeric bounds as ints, floats, infinities, NaN, decimal strings).

import (
	"fmt"
	"math"

	"github.com/zclconf/go-cty/cty"

	"verif/harness/core"
)

func mpInt(n int64) []byte {
	switch {
	case n >= 0 && n <= 0x7f:
		return []byte{byte(n)}
	case n < 0 && n >= -32:
		return []byte{byte(0xe0 | (n + 32))}
	case n >= 0 && n <= 0xff:
		return []byte{0xcc, byte(n)}
	case n >= 0 && n <= 0xffff:
		return []byte{0xcd, byte(n >> 8), byte(n)}
	case n >= 0 && n <= 0xffffffff:
		return append([]byte{0xce}, be32(uint32(n))...)
	case n >= 0:
		return append(append([]byte{0xcf}, be32(uint32(uint64(n)>>32))...), be32(uint32(n))...)
	default:
		return append(append([]byte{0xd3}, be32(uint32(uint64(n)>>32))...), be32(uint32(uint64(n)))...)
	}
}

func mpF64(f float64) []byte {
	u := math.Float64bits(f)
	return append(append([]byte{0xcb}, be32(uint32(u>>32))...), be32(uint32(u))...)
}

func mpStr(s string) []byte {
	return append(mpHeader('s', uint32(len(s)), false), s...)
}

var refLenPool = []int64{0, 0, 1, 1, 2, 3, 5, 16, 255, 256, 257, 258, 1000, 65535, 65536, 1 << 19, 1 << 20, 1<<20 + 7, 1<<21 - 1, 1 << 21, 1 << 24, 1<<31 - 1, 1 << 31, 1<<32 - 1, 1 << 32, math.MaxInt64, -1, math.MinInt64}

var refPrefixPool = []string{"", "a", "ab", "abc", "b", "é", "é", "́", "a=", "x\r", "\xff\xfe", "한", "ᄀ", "👍", "1️"}

func refNumber(r *core.Rand) []byte {
	switch r.Intn(12) {
	case 0:
		return mpInt(0)
	case 1:
		return mpInt(1)
	case 2:
		return mpInt(int64(r.Intn(7)) - 3)
	case 3:
		return mpInt(refLenPool[r.Intn(len(refLenPool))])
	case 4:
		return mpF64(0.5)
	case 5:
		return mpF64(math.Inf(1))
	case 6:
		return mpF64(math.Inf(-1))
	case 7:
		return mpF64(math.NaN())
	case 8:
		return mpStr([]string{"1", "0.1", "1e5", "-1e-5", "1e400", "abc", "", "Inf", "1e99999"}[r.Intn(9)])
	case 9:
		return mpF64(math.Copysign(0, -1))
	case 10:
		return mpF64(1e300)
	default:
		return mpStock[r.Intn(len(mpStock))]
	}
}

// refinementBody writes one hostile refinement map. bias names the kind of target the
// entries should mostly (not always) make sense for: 'n' number, 's' string, 'c' collection, 0 anything.
func refinementBody(r *core.Rand, bias byte) ([]byte, string) {
	n := r.Weighted([]int{2, 6, 10, 12, 8, 4, 2})
	var body []byte
	desc := ""
	var lastLen int64 = -1
	var lastNum []byte
	for i := 0; i < n; i++ {
		var key int64
		switch {
		case r.Chance(1, 14):
			key = []int64{0, 7, 9, -1, 100}[r.Intn(5)]
		case r.Chance(1, 3): // nullness
			key = 1
		case bias == 'n' && r.Chance(3, 4):
			key = 3 + int64(r.Intn(2))
		case bias == 's' && r.Chance(3, 4):
			key = 2
		case bias == 'c' && r.Chance(3, 4):
			key = 5 + int64(r.Intn(2))
		default:
			key = 1 + int64(r.Intn(6))
		}
		k := mpInt(key)
		if r.Chance(1, 40) {
			k = mpStr("a")
		}
		var v []byte
		switch {
		case r.Chance(1, 12): // value of the wrong kind
			v = mpStock[r.Intn(len(mpStock))]
		case key == 1:
			v = []byte{0xc2}
			if r.Chance(1, 4) {
				v = []byte{0xc3}
			}
		case key == 2:
			v = mpStr(refPrefixPool[r.Intn(len(refPrefixPool))])
		case key == 3 || key == 4:
			num := refNumber(r)
			if lastNum != nil && r.Chance(1, 3) {
				num = lastNum // equal bounds on both sides
			}
			lastNum = num
			incl := byte(0xc3)
			if r.Chance(1, 3) {
				incl = 0xc2
			}
			v = append(append([]byte{0x92}, num...), incl)
		case key == 5 || key == 6:
			l := refLenPool[r.Intn(len(refLenPool))]
			if lastLen >= 0 && r.Chance(1, 2) {
				l = lastLen // equal bounds: the "exactly n elements" decision point
			}
			lastLen = l
			v = mpInt(l)
		default:
			v = mpInt(int64(r.Intn(3)))
		}
		body = append(append(body, k...), v...)
		desc += fmt.Sprintf("%d:%x ", key, v)
	}
	hdr := mpHeader('m', uint32(n), r.Chance(1, 30))
	if r.Chance(1, 40) { // count disagrees with the content
		hdr = mpHeader('m', uint32(n+1), false)
	}
	return append(hdr, body...), desc
}

func mpExtAny(r *core.Rand, body []byte) []byte {
	n := len(body)
	switch {
	case r.Chance(1, 10) || n > 255:
		return append([]byte{0xc8, byte(n >> 8), byte(n), 0x0c}, body...)
	case r.Chance(1, 3) && (n == 1 || n == 2 || n == 4 || n == 8 || n == 16):
		c := map[int]byte{1: 0xd4, 2: 0xd5, 4: 0xd6, 8: 0xd7, 16: 0xd8}[n]
		return append([]byte{c, 0x0c}, body...)
	}
	return append([]byte{0xc7, byte(n), 0x0c}, body...)
}

// refinementDoc builds case class "refinement-grammar".
func refinementDoc(r *core.Rand) *tcase {
	tc := &tcase{format: "msgpack", fam: famMP, class: "refinement-grammar"}
	str, num, boo := cty.String, cty.Number, cty.Bool
	type tgt struct {
		bias byte
		ty   cty.Type
	}
	leafs := []tgt{{'n', num}, {'s', str}, {0, boo}, {'c', cty.List(str)}, {'c', cty.List(boo)}, {'c', cty.Set(num)}, {'c', cty.Map(boo)},
		{'c', cty.List(cty.List(num))}, {0, cty.Tuple([]cty.Type{str})}, {0, cty.Object(map[string]cty.Type{"a": str})}, {0, cty.EmptyObject}}
	lt := leafs[r.Intn(len(leafs))]
	body, desc := refinementBody(r, lt.bias)
	ext := mpExtAny(r, body)
	tc.origin = "refinement map {" + desc + "}"
	switch r.Intn(6) {
	case 0, 1, 2: // the unknown value is the whole document
		tc.input = ext
		tc.targets = []cty.Type{lt.ty}
		tc.tnames = []string{"matching-kind"}
		if r.Chance(1, 3) {
			o := leafs[r.Intn(len(leafs))]
			tc.targets = append(tc.targets, o.ty)
			tc.tnames = append(tc.tnames, "other-kind")
		}
	case 3: // member of a list / set
		tc.input = append([]byte{0x92}, append(append([]byte(nil), ext...), ext...)...)
		tc.targets = []cty.Type{cty.List(lt.ty), cty.Set(lt.ty), cty.Tuple([]cty.Type{lt.ty, lt.ty})}
		tc.tnames = []string{"list-of", "set-of", "tuple-of"}
	case 4: // attribute / map value
		tc.input = append([]byte{0x81, 0xa1, 'a'}, ext...)
		tc.targets = []cty.Type{cty.Object(map[string]cty.Type{"a": lt.ty}), cty.Map(lt.ty)}
		tc.tnames = []string{"attribute", "map-value"}
	default: // below a dynamic wrapper whose descriptor names the type
		var desc string
		o := guard(func() {
			b, err := lt.ty.MarshalJSON()
			if err == nil {
				desc = string(b)
			}
		})
		if o.panicked || desc == "" {
			desc = `"string"`
		}
		tc.input = mpDyn(desc, ext)
		tc.targets = []cty.Type{cty.DynamicPseudoType, cty.List(cty.DynamicPseudoType)}
		tc.tnames = []string{"dynamic", "unrelated"}
	}
	if r.Chance(1, 6) {
		nb, d := byteMutate(r, tc.input, nil)
		tc.input = nb
		tc.muts = append(tc.muts, d)
	}
	return tc
}
