package c17

import (
	"unicode/utf8"

	"encoding/binary"
	"fmt"
	"golang.org/x/text/unicode/norm"
	"strings"

	"verif/harness/core"
)

// ---------------------------------------------------------------------------
// Byte-level mutations (format independent)
// ---------------------------------------------------------------------------

// interesting bytes: msgpack type codes and JSON punctuation.
var hotBytes = []byte{
	0x00, 0x01, 0x7f, 0x80, 0x81, 0x8f, 0x90, 0x91, 0x92, 0x9f, 0xa0, 0xa1, 0xbf, 0xc0, 0xc1, 0xc2, 0xc3, 0xc4, 0xc5, 0xc6,
	0xc7, 0xc8, 0xc9, 0xca, 0xcb, 0xcc, 0xcd, 0xce, 0xcf, 0xd0, 0xd1, 0xd2, 0xd3, 0xd4, 0xd5, 0xd6, 0xd7, 0xd8, 0xd9, 0xda,
	0xdb, 0xdc, 0xdd, 0xde, 0xdf, 0xe0, 0xff, 0x0c,
	'{', '}', '[', ']', ',', ':', '"', '\\', ' ', '\n', 'n', 't', 'f', '-', '+', '.', 'e', 'E', '0', '9', 'u',
}

const maxInput = 64 << 10

func clampLen(b []byte) []byte {
	if len(b) > maxInput {
		return b[:maxInput]
	}
	return b
}

func cloneBytes(b []byte) []byte { return append([]byte(nil), b...) }

// byteMutate applies one byte-level mutation and returns the new buffer and a
// short description. donor is a fragment source for splices (may be nil).
func byteMutate(r *core.Rand, b []byte, donor []byte) ([]byte, string) {
	b = cloneBytes(b)
	n := len(b)
	if n == 0 {
		nb := []byte{hotBytes[r.Intn(len(hotBytes))]}
		return nb, "insert-into-empty"
	}
	switch r.Intn(9) {
	case 0: // bit flip
		p := r.Intn(n)
		b[p] ^= 1 << uint(r.Intn(8))
		return b, fmt.Sprintf("bitflip@%d", p)
	case 1: // replace by interesting byte
		p := r.Intn(n)
		b[p] = hotBytes[r.Intn(len(hotBytes))]
		return b, fmt.Sprintf("hotbyte@%d", p)
	case 2: // replace by random byte
		p := r.Intn(n)
		b[p] = byte(r.Intn(256))
		return b, fmt.Sprintf("randbyte@%d", p)
	case 3: // insert 1..4 bytes
		p := r.Intn(n + 1)
		k := 1 + r.Intn(4)
		ins := make([]byte, k)
		for i := range ins {
			if r.Bool() {
				ins[i] = hotBytes[r.Intn(len(hotBytes))]
			} else {
				ins[i] = byte(r.Intn(256))
			}
		}
		out := append(append(append([]byte(nil), b[:p]...), ins...), b[p:]...)
		return clampLen(out), fmt.Sprintf("insert%d@%d", k, p)
	case 4: // delete 1..8 bytes
		p := r.Intn(n)
		k := 1 + r.Intn(8)
		if p+k > n {
			k = n - p
		}
		out := append(append([]byte(nil), b[:p]...), b[p+k:]...)
		return out, fmt.Sprintf("delete%d@%d", k, p)
	case 5: // truncate
		p := r.Intn(n)
		if r.Chance(1, 2) && n > 1 {
			p = n - 1 - r.Intn(min(n-1, 4)) // cut near the end
		}
		return b[:p], fmt.Sprintf("truncate@%d", p)
	case 6: // duplicate a chunk in place
		p := r.Intn(n)
		k := 1 + r.Intn(min(n-p, 16))
		out := append(append(append([]byte(nil), b[:p+k]...), b[p:p+k]...), b[p+k:]...)
		return clampLen(out), fmt.Sprintf("dupchunk%d@%d", k, p)
	case 7: // splice a fragment of another encoding (insert)
		if len(donor) == 0 {
			b[r.Intn(n)] ^= 0x80
			return b, "hibit"
		}
		ds := r.Intn(len(donor))
		dk := 1 + r.Intn(min(len(donor)-ds, 24))
		p := r.Intn(n + 1)
		out := append(append(append([]byte(nil), b[:p]...), donor[ds:ds+dk]...), b[p:]...)
		return clampLen(out), fmt.Sprintf("splice-insert%d@%d", dk, p)
	default: // splice a fragment of another encoding (overwrite)
		if len(donor) == 0 {
			b[r.Intn(n)] = 0xc1
			return b, "c1"
		}
		ds := r.Intn(len(donor))
		dk := 1 + r.Intn(min(len(donor)-ds, 24))
		p := r.Intn(n)
		out := append([]byte(nil), b[:p]...)
		out = append(out, donor[ds:ds+dk]...)
		if p+dk < n {
			out = append(out, b[p+dk:]...)
		}
		return clampLen(out), fmt.Sprintf("splice-over%d@%d", dk, p)
	}
}

// ---------------------------------------------------------------------------
// MessagePack structure walker (written from the msgpack specification; used
// only to find where to edit, never to judge a decoder's answer)
// ---------------------------------------------------------------------------

type mpNode struct {
	start, hdrEnd, end int
	kind               byte // 'a' array, 'm' map, 's' str, 'b' bin, 'e' ext, 'p' other
	n                  int  // declared length (elements, pairs or bytes)
	depth              int
	isKey              bool
}

// mpWalk lists the values found when reading b as a sequence of msgpack values.
// It stops silently at the first inconsistency.
func mpWalk(b []byte, limit int) []mpNode {
	var out []mpNode
	pos := 0
	var walk func(depth int, isKey bool) bool
	walk = func(depth int, isKey bool) bool {
		if pos >= len(b) || len(out) >= limit || depth > 200 {
			return false
		}
		start := pos
		c := b[pos]
		pos++
		need := func(k int) bool { return pos+k <= len(b) }
		be := func(k int) int {
			v := 0
			for i := 0; i < k; i++ {
				v = v<<8 | int(b[pos+i])
			}
			pos += k
			return v
		}
		nd := mpNode{start: start, kind: 'p', depth: depth, isKey: isKey}
		children := 0
		payload := 0
		switch {
		case c <= 0x7f, c >= 0xe0, c == 0xc0, c == 0xc2, c == 0xc3, c == 0xc1:
		case c >= 0x80 && c <= 0x8f:
			nd.kind, nd.n = 'm', int(c&0x0f)
			children = 2 * nd.n
		case c >= 0x90 && c <= 0x9f:
			nd.kind, nd.n = 'a', int(c&0x0f)
			children = nd.n
		case c >= 0xa0 && c <= 0xbf:
			nd.kind, nd.n = 's', int(c&0x1f)
			payload = nd.n
		case c == 0xc4, c == 0xc5, c == 0xc6:
			w := 1 << (c - 0xc4)
			if !need(w) {
				return false
			}
			nd.kind, nd.n = 'b', be(w)
			payload = nd.n
		case c == 0xc7, c == 0xc8, c == 0xc9:
			w := 1 << (c - 0xc7)
			if !need(w + 1) {
				return false
			}
			nd.kind, nd.n = 'e', be(w)
			pos++ // type code
			payload = nd.n
		case c == 0xca:
			payload = 4
		case c == 0xcb:
			payload = 8
		case c >= 0xcc && c <= 0xcf:
			payload = 1 << (c - 0xcc)
		case c >= 0xd0 && c <= 0xd3:
			payload = 1 << (c - 0xd0)
		case c >= 0xd4 && c <= 0xd8:
			nd.kind, nd.n = 'e', 1<<(c-0xd4)
			payload = nd.n + 1
		case c == 0xd9, c == 0xda, c == 0xdb:
			w := 1 << (c - 0xd9)
			if !need(w) {
				return false
			}
			nd.kind, nd.n = 's', be(w)
			payload = nd.n
		case c == 0xdc, c == 0xdd:
			w := 2 << (c - 0xdc)
			if !need(w) {
				return false
			}
			nd.kind, nd.n = 'a', be(w)
			children = nd.n
		case c == 0xde, c == 0xdf:
			w := 2 << (c - 0xde)
			if !need(w) {
				return false
			}
			nd.kind, nd.n = 'm', be(w)
			children = 2 * nd.n
		}
		nd.hdrEnd = pos
		if !need(payload) {
			return false
		}
		pos += payload
		idx := len(out)
		out = append(out, nd)
		for i := 0; i < children; i++ {
			if !walk(depth+1, nd.kind == 'm' && i%2 == 0) {
				out[idx].end = pos
				return false
			}
		}
		out[idx].end = pos
		return true
	}
	for pos < len(b) {
		if !walk(0, false) {
			break
		}
	}
	return out
}

// mpHeader encodes a container / string / bin header with the given length.
// wide forces the 32-bit form.
func mpHeader(kind byte, n uint32, wide bool) []byte {
	be16 := func(c byte) []byte { return []byte{c, byte(n >> 8), byte(n)} }
	be32 := func(c byte) []byte { return []byte{c, byte(n >> 24), byte(n >> 16), byte(n >> 8), byte(n)} }
	switch kind {
	case 'a':
		switch {
		case wide:
			return be32(0xdd)
		case n < 16:
			return []byte{0x90 | byte(n)}
		case n < 65536:
			return be16(0xdc)
		}
		return be32(0xdd)
	case 'm':
		switch {
		case wide:
			return be32(0xdf)
		case n < 16:
			return []byte{0x80 | byte(n)}
		case n < 65536:
			return be16(0xde)
		}
		return be32(0xdf)
	case 's':
		switch {
		case wide:
			return be32(0xdb)
		case n < 32:
			return []byte{0xa0 | byte(n)}
		case n < 256:
			return []byte{0xd9, byte(n)}
		case n < 65536:
			return be16(0xda)
		}
		return be32(0xdb)
	case 'b':
		switch {
		case wide:
			return be32(0xc6)
		case n < 256:
			return []byte{0xc4, byte(n)}
		case n < 65536:
			return be16(0xc5)
		}
		return be32(0xc6)
	}
	return nil
}

// editLengths are the replacement values for length fields. Values of 2^24 and
// above make the msgpack decoders pre-allocate gigabytes (F-24); they are kept
// in the distribution (routed to an isolated child process by the driver).
func pickLength(r *core.Rand, old int) uint32 {
	switch r.Intn(16) {
	case 0:
		return 0
	case 1:
		return 1
	case 2:
		if old > 0 {
			return uint32(old - 1)
		}
		return 2
	case 3:
		return uint32(old + 1)
	case 4:
		return uint32(2 * old)
	case 5:
		return 15
	case 6:
		return 16
	case 7:
		return 255
	case 8:
		return 256
	case 9:
		return 65535
	case 10:
		return 65536
	case 11:
		return 1<<20 + uint32(r.Intn(1<<20)) // 1M..2M entries: tens of MiB pre-allocated, no crash
	case 12:
		return 1<<24 - 1
	case 13:
		return 1<<31 - 1
	case 14:
		return 1 << 31
	default:
		return 0xffffffff
	}
}

// Stock msgpack values used by value-level replacement.
var mpStock = [][]byte{
	{0xc0},                               // nil
	{0xc2},                               // false
	{0xc3},                               // true
	{0x00},                               // 0
	{0xff},                               // -1
	{0x90},                               // []
	{0x80},                               // {}
	{0xa0},                               // ""
	{0xc4, 0x00},                         // empty bin
	{0xcb, 0x7f, 0xf8, 0, 0, 0, 0, 0, 1}, // double NaN
	{0xca, 0x7f, 0xc0, 0, 0},             // float NaN
	{0xcb, 0x7f, 0xf0, 0, 0, 0, 0, 0, 0}, // +Inf
	{0xcb, 0xff, 0xf0, 0, 0, 0, 0, 0, 0}, // -Inf
	{0xcb, 0x80, 0, 0, 0, 0, 0, 0, 0},    // -0.0
	{0xcf, 0xff, 0xff, 0xff, 0xff, 0xff, 0xff, 0xff, 0xff},                         // max uint64
	{0xd3, 0x80, 0, 0, 0, 0, 0, 0, 0},                                              // min int64
	{0xd4, 0x00, 0x00},                                                             // unknown
	{0xc7, 0x00, 0x00},                                                             // unknown (ext8, empty)
	{0xc7, 0x03, 0x0c, 0x81, 0x01, 0xc2},                                           // unknown, not null
	{0xc7, 0x03, 0x0c, 0x81, 0x01, 0xc3},                                           // unknown, null
	{0xc7, 0x05, 0x0c, 0x82, 0x01, 0xc2, 0x01, 0xc3},                               // not null then null
	{0xc7, 0x05, 0x0c, 0x82, 0x01, 0xc3, 0x01, 0xc2},                               // null then not null
	{0xc7, 0x03, 0x0c, 0x81, 0x05, 0xff},                                           // length lower bound -1
	{0xc7, 0x05, 0x0c, 0x82, 0x05, 0x03, 0x06, 0x01},                               // length 3..1
	{0xc7, 0x04, 0x0c, 0x81, 0x02, 0xa1, 'a'},                                      // prefix "a"
	{0xc7, 0x07, 0x0c, 0x82, 0x02, 0xa1, 'a', 0x02, 0xa1, 'b'},                     // prefix "a" then "b"
	{0xc7, 0x05, 0x0c, 0x81, 0x03, 0x92, 0x01, 0xc3},                               // >= 1
	{0xc7, 0x09, 0x0c, 0x82, 0x03, 0x92, 0x05, 0xc3, 0x04, 0x92, 0x01, 0xc3},       // >=5, <=1
	{0xc7, 0x09, 0x0c, 0x82, 0x03, 0x92, 0x01, 0xc2, 0x04, 0x92, 0x01, 0xc2},       // >1, <1
	{0xc7, 0x0d, 0x0c, 0x81, 0x03, 0x92, 0xcb, 0x7f, 0xf8, 0, 0, 0, 0, 0, 0, 0xc3}, // >= NaN
	{0xc7, 0x04, 0x0c, 0x81, 0x03, 0x90},                                           // bound is an empty array
	{0xc7, 0x06, 0x0c, 0x81, 0x03, 0x92, 0xc0, 0xc3},                               // bound is null
	{0x92, 0xc4, 0x08, '"', 's', 't', 'r', 'i', 'n', 'g', '"', 0xa1, 'x'},          // dynamic wrapper
	{0x92, 0xc4, 0x09, '"', 'd', 'y', 'n', 'a', 'm', 'i', 'c', '"', 0xc0},          // dynamic wrapper of dynamic
}

// mpMutate applies one msgpack-aware mutation; ok=false when no edit point was found.
func mpMutate(r *core.Rand, b []byte, donor []byte) ([]byte, string, bool) {
	nodes := mpWalk(b, 4096)
	if len(nodes) == 0 {
		return b, "", false
	}
	replace := func(from, to int, with []byte) []byte {
		out := append([]byte(nil), b[:from]...)
		out = append(out, with...)
		return clampLen(append(out, b[to:]...))
	}
	switch r.Intn(7) {
	case 0, 1: // length-field edit
		var cands []int
		for i, nd := range nodes {
			if nd.kind == 'a' || nd.kind == 'm' || nd.kind == 's' || nd.kind == 'b' {
				cands = append(cands, i)
			}
		}
		if len(cands) == 0 {
			return b, "", false
		}
		nd := nodes[cands[r.Intn(len(cands))]]
		nl := pickLength(r, nd.n)
		hdr := mpHeader(nd.kind, nl, r.Chance(1, 6))
		return replace(nd.start, nd.hdrEnd, hdr), fmt.Sprintf("len-edit(%c %d->%d)@%d", nd.kind, nd.n, nl, nd.start), true
	case 2: // replace a value by a stock value
		nd := nodes[r.Intn(len(nodes))]
		st := mpStock[r.Intn(len(mpStock))]
		return replace(nd.start, nd.end, st), fmt.Sprintf("stock(%x)@%d", st, nd.start), true
	case 3: // duplicate a key: overwrite one key of a map with another key of the same map
		var maps []int
		for i, nd := range nodes {
			if nd.kind == 'm' && nd.n >= 2 {
				maps = append(maps, i)
			}
		}
		if len(maps) == 0 {
			return b, "", false
		}
		mi := maps[r.Intn(len(maps))]
		var keys []mpNode
		for _, nd := range nodes[mi+1:] {
			if nd.start >= nodes[mi].end {
				break
			}
			if nd.depth == nodes[mi].depth+1 && nd.isKey {
				keys = append(keys, nd)
			}
		}
		if len(keys) < 2 {
			return b, "", false
		}
		i, j := r.Intn(len(keys)), r.Intn(len(keys)-1)
		if j >= i {
			j++
		}
		dup := b[keys[i].start:keys[i].end]
		note := "dupkey"
		if keys[i].kind == 's' && keys[i].hdrEnd <= keys[i].end && r.Bool() {
			// the same name in the OTHER normal form: the object type normalizes attribute names, so both spellings
			// name one attribute although the bytes differ
			raw := string(b[keys[i].hdrEnd:keys[i].end])
			if utf8.ValidString(raw) {
				alt := norm.NFD.String(raw)
				if alt == raw {
					alt = norm.NFC.String(raw)
				}
				if alt != raw {
					dup = append(mpHeader('s', uint32(len(alt)), false), alt...)
					note = "dupkey-other-normal-form"
				}
			}
		}
		return replace(keys[j].start, keys[j].end, dup), fmt.Sprintf("%s@%d", note, keys[j].start), true
	case 4: // delete a value without adjusting the count
		nd := nodes[r.Intn(len(nodes))]
		return replace(nd.start, nd.end, nil), fmt.Sprintf("drop-value@%d", nd.start), true
	case 5: // duplicate a value in place without adjusting the count
		nd := nodes[r.Intn(len(nodes))]
		return replace(nd.end, nd.end, b[nd.start:nd.end]), fmt.Sprintf("dup-value@%d", nd.start), true
	default: // replace a value by a value taken from another encoding
		dn := mpWalk(donor, 512)
		if len(dn) == 0 {
			return b, "", false
		}
		nd := nodes[r.Intn(len(nodes))]
		d := dn[r.Intn(len(dn))]
		return replace(nd.start, nd.end, donor[d.start:d.end]), fmt.Sprintf("graft@%d", nd.start), true
	}
}

// maxDeclaredLen scans b for 32-bit array/map headers (anywhere, even inside
// strings: this is only used to decide WHERE a case runs) and returns the
// largest declared element count together with the header kinds seen at or
// above thr.
func maxDeclaredLen(b []byte, thr uint32) (uint32, string) {
	var mx uint32
	arr, mp := false, false
	for i := 0; i+5 <= len(b); i++ {
		if b[i] == 0xdd || b[i] == 0xdf {
			n := binary.BigEndian.Uint32(b[i+1:])
			if n > mx {
				mx = n
			}
			if n >= thr {
				if b[i] == 0xdd {
					arr = true
				} else {
					mp = true
				}
			}
		}
	}
	var k []string
	if arr {
		k = append(k, "array32")
	}
	if mp {
		k = append(k, "map32")
	}
	return mx, strings.Join(k, "+")
}

// ---------------------------------------------------------------------------
// JSON token-level mutations
// ---------------------------------------------------------------------------

type jtok struct {
	start, end int
	kind       byte // 'p' punctuation, 's' string, 'l' literal/number
}

func jsonTokens(b []byte) []jtok {
	var out []jtok
	i := 0
	for i < len(b) && len(out) < 8192 {
		c := b[i]
		switch {
		case c == ' ' || c == '\n' || c == '\t' || c == '\r':
			i++
		case strings.IndexByte("{}[],:", c) >= 0:
			out = append(out, jtok{i, i + 1, 'p'})
			i++
		case c == '"':
			j := i + 1
			for j < len(b) && b[j] != '"' {
				if b[j] == '\\' {
					j++
				}
				j++
			}
			if j < len(b) {
				j++
			} else {
				j = len(b)
			}
			out = append(out, jtok{i, j, 's'})
			i = j
		default:
			j := i
			for j < len(b) && strings.IndexByte("{}[],: \n\t\r\"", b[j]) < 0 {
				j++
			}
			if j == i {
				j++
			}
			out = append(out, jtok{i, j, 'l'})
			i = j
		}
	}
	return out
}

var jsonStock = []string{
	"null", "true", "false", "0", "-0", "1", "-1", "0.5", "1e999999999", "-1E+400", "1e-999999999", "0.1e-400",
	"18446744073709551616", "1.0000000000000000000000000000000000000000000000001", "NaN", "Infinity", "-Infinity", "0x10", "01", "1.", ".5", "+1", "1e", "--1",
	`""`, `"a"`, `"true"`, `"false"`, `"1"`, `"Inf"`, `"-Inf"`, `"NaN"`, `"1e999999999"`, `"\u0000"`, `"\ud800"`, `"\udc00\ud800"`, "\"\xff\xfe\"", "\"é\"", "\"é\"",
	`"string"`, `"number"`, `"bool"`, `"dynamic"`, `"capsule"`, `"list"`, `"set"`, `"map"`, `"tuple"`, `"object"`, `"type"`, `"value"`,
	"[]", "{}", "[null]", `{"a":null}`, `["list","string"]`, `["object",{"a":"string"},["a"]]`, `["object",{"a":"string"},["zz"]]`, `["tuple",[]]`, `["map","dynamic"]`,
	`{"value":"x","type":"string"}`, `{"value":null,"type":"dynamic"}`, `{"type":["list","dynamic"],"value":[]}`, `{"value":null,"type":["object",{"a":"string"},["a"]]}`,
	"[", "]", "{", "}", ",", ":", "",
}

// jsonMutate applies one token-level mutation.
func jsonMutate(r *core.Rand, b []byte, donor []byte) ([]byte, string, bool) {
	toks := jsonTokens(b)
	if len(toks) == 0 {
		return b, "", false
	}
	replace := func(from, to int, with []byte) []byte {
		out := append([]byte(nil), b[:from]...)
		out = append(out, with...)
		return clampLen(append(out, b[to:]...))
	}
	t := toks[r.Intn(len(toks))]
	switch r.Intn(9) {
	case 0, 1: // replace a token by a stock token
		st := jsonStock[r.Intn(len(jsonStock))]
		return replace(t.start, t.end, []byte(st)), fmt.Sprintf("tok-stock(%q)@%d", st, t.start), true
	case 2: // delete a token
		return replace(t.start, t.end, nil), fmt.Sprintf("tok-delete@%d", t.start), true
	case 3: // duplicate a token
		return replace(t.end, t.end, b[t.start:t.end]), fmt.Sprintf("tok-dup@%d", t.start), true
	case 4: // swap bracket kinds
		var ps []jtok
		for _, x := range toks {
			if x.kind == 'p' && strings.IndexByte("{}[]", b[x.start]) >= 0 {
				ps = append(ps, x)
			}
		}
		if len(ps) == 0 {
			return b, "", false
		}
		p := ps[r.Intn(len(ps))]
		sw := map[byte]byte{'{': '[', '[': '{', '}': ']', ']': '}'}[b[p.start]]
		return replace(p.start, p.end, []byte{sw}), fmt.Sprintf("bracket-swap@%d", p.start), true
	case 5: // duplicate a "key":value pair (keeps syntax valid for scalar values): duplicate keys
		for tries := 0; tries < 8; tries++ {
			k := r.Intn(len(toks))
			if toks[k].kind == 's' && k+2 < len(toks) && b[toks[k+1].start] == ':' && toks[k+2].kind != 'p' {
				pair := append(append([]byte(nil), b[toks[k].start:toks[k+2].end]...), ',')
				alt := jsonStock[r.Intn(16)]
				if r.Bool() { // same key, different value
					pair = append(append(append([]byte(nil), b[toks[k].start:toks[k].end]...), ':'), []byte(alt+",")...)
				}
				return replace(toks[k].start, toks[k].start, pair), fmt.Sprintf("dup-pair@%d", toks[k].start), true
			}
		}
		return b, "", false
	case 6: // wrap a scalar token into a dynamic-value wrapper, or a list
		if t.kind == 'p' {
			return b, "", false
		}
		ty := []string{`"string"`, `"number"`, `"bool"`, `"dynamic"`, `["list","string"]`, `["object",{"a":"string"},["a"]]`, `["object",{"a":"string"},["b"]]`, `null`, `"x"`}[r.Intn(9)]
		w := fmt.Sprintf(`{"value":%s,"type":%s}`, b[t.start:t.end], ty)
		if r.Chance(1, 4) {
			w = "[" + string(b[t.start:t.end]) + "]"
		}
		return replace(t.start, t.end, []byte(w)), fmt.Sprintf("wrap@%d", t.start), true
	case 7: // edit inside a string/number token: insert a digit, an escape or a raw byte
		if t.kind == 'p' || t.end-t.start < 1 {
			return b, "", false
		}
		p := t.start + r.Intn(t.end-t.start+1)
		ins := []string{"9", "0", "e9", "E-9", ".", "-", "\\", "\\u", "\\ud800", "\\\"", "\x00", "\xc3", "\xff", "\u0301", "\""}[r.Intn(15)]
		return replace(p, p, []byte(ins)), fmt.Sprintf("tok-inner(%q)@%d", ins, p), true
	default: // replace a token by a token of another document
		dt := jsonTokens(donor)
		if len(dt) == 0 {
			return b, "", false
		}
		d := dt[r.Intn(len(dt))]
		return replace(t.start, t.end, donor[d.start:d.end]), fmt.Sprintf("tok-graft@%d", t.start), true
	}
}
