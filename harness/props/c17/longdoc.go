package c17

// Long but VALID documents: arrays / maps whose element count sits just around the sizes at which decoders
// switch strategy (pre-allocation caps, 16-bit headers): 1023..1026, 2048, 4097 members, 65535..65537 in the
// thorough tier. The elements are really present, so a decoder that sizes a buffer from a capped count and
// then indexes by the real count, or the other way round, is driven past the cap.

import (
	"fmt"
	"strings"

	"github.com/zclconf/go-cty/cty"

	"verif/harness/core"
)

func longDoc(r *core.Rand, thorough, onlyMP bool) *tcase {
	sizes := []int{1023, 1024, 1025, 1026, 2048, 4097}
	if thorough {
		sizes = append(sizes, 65535, 65536, 65537)
	}
	n := sizes[r.Intn(len(sizes))]
	msgpack := onlyMP || r.Bool()
	kind := r.Intn(3) // 0 numbers, 1 bools, 2 short strings
	asMap := r.Chance(1, 4)
	tc := &tcase{class: "long-valid", origin: fmt.Sprintf("%d members, kind %d, map=%v", n, kind, asMap)}
	ety := []cty.Type{cty.Number, cty.Bool, cty.String}[kind]
	if msgpack {
		tc.format, tc.fam = "msgpack", famMP
		var b []byte
		if asMap {
			b = mpHeader('m', uint32(n), false)
		} else {
			b = mpHeader('a', uint32(n), false)
		}
		for i := 0; i < n; i++ {
			if asMap {
				b = append(b, mpStr(fmt.Sprintf("k%05d", i))...)
			}
			switch kind {
			case 0:
				b = append(b, mpInt(int64(i%100))...)
			case 1:
				b = append(b, 0xc2+byte(i%2))
			default:
				b = append(b, mpStr(string(rune('a'+i%26)))...)
			}
		}
		tc.input = b
	} else {
		tc.format, tc.fam = "json", famJSON
		var sb strings.Builder
		if asMap {
			sb.WriteByte('{')
		} else {
			sb.WriteByte('[')
		}
		for i := 0; i < n; i++ {
			if i > 0 {
				sb.WriteByte(',')
			}
			if asMap {
				fmt.Fprintf(&sb, "\"k%05d\":", i)
			}
			switch kind {
			case 0:
				fmt.Fprintf(&sb, "%d", i%100)
			case 1:
				sb.WriteString([]string{"false", "true"}[i%2])
			default:
				fmt.Fprintf(&sb, "\"%c\"", rune('a'+i%26))
			}
		}
		if asMap {
			sb.WriteByte('}')
		} else {
			sb.WriteByte(']')
		}
		tc.input = []byte(sb.String())
	}
	if asMap {
		tc.targets = []cty.Type{cty.Map(ety), cty.DynamicPseudoType}
		tc.tnames = []string{"map", "dynamic"}
	} else {
		tc.targets = []cty.Type{cty.List(ety), cty.Set(ety), cty.List(cty.DynamicPseudoType)}
		tc.tnames = []string{"list", "set", "list-of-dynamic"}
	}
	if r.Chance(1, 5) {
		nb, d := byteMutate(r, tc.input, nil)
		if len(nb) <= len(tc.input)+8 {
			tc.input = nb
			tc.muts = append(tc.muts, d)
		}
	}
	return tc
}
