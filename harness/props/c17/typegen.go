package c17

import (
	"bytes"
	"fmt"
	"sort"
	"strings"

	"github.com/zclconf/go-cty/cty"
	"golang.org/x/text/unicode/norm"

	"verif/harness/core"
	"verif/harness/gen"
	m "verif/harness/model"
)

// ---------------------------------------------------------------------------
// Target types: the original constraint, a related one (one position changed),
// an unrelated one.
// ---------------------------------------------------------------------------

func countNodes(t *m.TNode) int {
	n := 1
	switch t.K {
	case m.KList, m.KSet, m.KMap:
		n += countNodes(t.Elem)
	case m.KTuple:
		for _, e := range t.Elems {
			n += countNodes(e)
		}
	case m.KObject:
		for _, k := range t.AttrNames() {
			n += countNodes(t.Attrs[k])
		}
	}
	return n
}

// replaceNode rebuilds t with the node of pre-order index *idx replaced by f(node).
func replaceNode(t *m.TNode, idx *int, f func(*m.TNode) *m.TNode) *m.TNode {
	if *idx == 0 {
		*idx = -1
		return f(t)
	}
	*idx--
	switch t.K {
	case m.KList, m.KSet, m.KMap:
		return &m.TNode{K: t.K, Elem: replaceNode(t.Elem, idx, f)}
	case m.KTuple:
		n := &m.TNode{K: m.KTuple, Elems: make([]*m.TNode, len(t.Elems))}
		for i, e := range t.Elems {
			if *idx >= 0 {
				n.Elems[i] = replaceNode(e, idx, f)
			} else {
				n.Elems[i] = e
			}
		}
		return n
	case m.KObject:
		n := &m.TNode{K: m.KObject, Attrs: map[string]*m.TNode{}}
		for _, k := range t.AttrNames() {
			if *idx >= 0 {
				n.Attrs[k] = replaceNode(t.Attrs[k], idx, f)
			} else {
				n.Attrs[k] = t.Attrs[k]
			}
		}
		return n
	}
	return t
}

func otherPrim(r *core.Rand, t *m.TNode) *m.TNode {
	ps := []*m.TNode{m.TBool, m.TNumber, m.TString}
	for {
		p := ps[r.Intn(3)]
		if p.K != t.K {
			return p
		}
	}
}

// changeNode returns a type that differs from n at its root.
func changeNode(r *core.Rand, n *m.TNode) *m.TNode {
	switch r.Intn(9) {
	case 0:
		return otherPrim(r, n)
	case 1:
		if n.K != m.KDynamic {
			return m.TDynamic
		}
		return m.TString
	case 2:
		return m.ListOf(n)
	case 3:
		return m.TupleOf(n)
	case 4:
		return m.ObjectOf(map[string]*m.TNode{"a": n})
	case 5:
		return m.MapOf(n)
	case 6: // sibling kind with the same members
		switch n.K {
		case m.KList:
			return m.SetOf(n.Elem)
		case m.KSet:
			return m.ListOf(n.Elem)
		case m.KMap:
			return m.ObjectOf(map[string]*m.TNode{"a": n.Elem, "b": n.Elem})
		case m.KTuple:
			if len(n.Elems) > 0 {
				return m.ListOf(n.Elems[0])
			}
			return m.ListOf(m.TString)
		case m.KObject:
			ks := n.AttrNames()
			if len(ks) > 0 {
				return m.MapOf(n.Attrs[ks[0]])
			}
			return m.MapOf(m.TString)
		}
		return m.SetOf(n)
	default: // arity / attribute-set edits
		switch n.K {
		case m.KTuple:
			if len(n.Elems) > 0 && r.Bool() {
				return m.TupleOf(n.Elems[:len(n.Elems)-1]...)
			}
			return m.TupleOf(append(append([]*m.TNode(nil), n.Elems...), m.TString)...)
		case m.KObject:
			at := map[string]*m.TNode{}
			ks := n.AttrNames()
			for _, k := range ks {
				at[k] = n.Attrs[k]
			}
			switch {
			case len(ks) > 0 && r.Chance(1, 3):
				delete(at, ks[r.Intn(len(ks))])
			case len(ks) > 0 && r.Chance(1, 2):
				k := ks[r.Intn(len(ks))]
				at["zz"] = at[k]
				delete(at, k)
			default:
				at["zz"] = m.TString
			}
			return &m.TNode{K: m.KObject, Attrs: at}
		case m.KList, m.KSet, m.KMap:
			return &m.TNode{K: n.K, Elem: otherPrim(r, n.Elem)}
		}
		return otherPrim(r, n)
	}
}

func relatedType(r *core.Rand, ty cty.Type) cty.Type {
	t := m.StripOptional(m.TNodeOf(ty))
	idx := r.Intn(countNodes(t))
	return replaceNode(t, &idx, func(n *m.TNode) *m.TNode { return changeNode(r, n) }).Cty()
}

func unrelatedType(r *core.Rand) cty.Type {
	if r.Chance(1, 40) {
		return m.CapsuleA
	}
	return gen.Type(r, 1+r.Intn(3), gen.TypeOpts{Dynamic: r.Chance(1, 3), TwinKeys: r.Chance(1, 6)}).Cty()
}

// typeText prints a type like %#v but stops after about 400 characters (the
// library's GoString is quadratic in the nesting depth).
func typeText(t cty.Type) string {
	var sb strings.Builder
	writeType(&sb, t)
	if sb.Len() > 400 {
		return sb.String()[:400] + "...(deeper)"
	}
	return sb.String()
}

func writeType(sb *strings.Builder, t cty.Type) {
	if sb.Len() > 400 {
		return
	}
	switch {
	case t == cty.NilType:
		sb.WriteString("cty.NilType")
	case t.IsListType(), t.IsSetType(), t.IsMapType():
		switch {
		case t.IsListType():
			sb.WriteString("cty.List(")
		case t.IsSetType():
			sb.WriteString("cty.Set(")
		default:
			sb.WriteString("cty.Map(")
		}
		writeType(sb, t.ElementType())
		sb.WriteString(")")
	case t.IsTupleType():
		sb.WriteString("cty.Tuple([")
		for i, et := range t.TupleElementTypes() {
			if i > 0 {
				sb.WriteString(", ")
			}
			writeType(sb, et)
		}
		sb.WriteString("])")
	case t.IsObjectType():
		sb.WriteString("cty.Object({")
		ats := t.AttributeTypes()
		opt := t.OptionalAttributes()
		names := make([]string, 0, len(ats))
		for k := range ats {
			names = append(names, k)
		}
		sort.Strings(names)
		for i, k := range names {
			if i > 0 {
				sb.WriteString(", ")
			}
			fmt.Fprintf(sb, "%q", k)
			if _, o := opt[k]; o {
				sb.WriteString("?")
			}
			sb.WriteString(": ")
			writeType(sb, ats[k])
		}
		sb.WriteString("})")
	default:
		sb.WriteString(t.GoString())
	}
}

// ---------------------------------------------------------------------------
// Type-descriptor documents (input of json.UnmarshalType and the "type" part of
// dynamic-value wrappers), written from the format description in the docs:
// "string" | ["list",T] | ["tuple",[T...]] | ["object",{k:T},[optional names]]
// ---------------------------------------------------------------------------

var descKeys = []string{"a", "b", "c", "k", "", "é", "é", "zz", "long-key", "a\u0000"}

func jsonStr(s string) string {
	var b strings.Builder
	b.WriteByte('"')
	for _, c := range s {
		switch {
		case c == '"' || c == '\\':
			b.WriteByte('\\')
			b.WriteRune(c)
		case c < 0x20:
			fmt.Fprintf(&b, "\\u%04x", c)
		default:
			b.WriteRune(c)
		}
	}
	b.WriteByte('"')
	return b.String()
}

// typeDesc draws a type descriptor; hostile parts appear with probability
// hostile/100 at each choice point.
func typeDesc(r *core.Rand, depth, hostile int) string {
	bad := func() bool { return hostile > 0 && r.Chance(hostile, 100) }
	if depth <= 1 || r.Chance(1, 4) {
		if bad() {
			return []string{`"capsule"`, `"x"`, `null`, `1`, `true`, `""`, `"String"`, `"list"`, `[]`, `{}`, `["string"]`}[r.Intn(11)]
		}
		return []string{`"string"`, `"number"`, `"bool"`, `"dynamic"`}[r.Intn(4)]
	}
	switch r.Intn(6) {
	case 0, 1, 2:
		kind := []string{"list", "set", "map"}[r.Intn(3)]
		if bad() {
			switch r.Intn(5) {
			case 0:
				return fmt.Sprintf(`[%q]`, kind)
			case 1:
				return fmt.Sprintf(`[%q,%s,%s]`, kind, typeDesc(r, depth-1, hostile), typeDesc(r, depth-1, hostile))
			case 2:
				return fmt.Sprintf(`[%q,null]`, kind)
			case 3:
				return fmt.Sprintf(`[%s,%q]`, typeDesc(r, depth-1, hostile), kind)
			default:
				return fmt.Sprintf(`{%q:%s}`, kind, typeDesc(r, depth-1, hostile))
			}
		}
		return fmt.Sprintf(`[%q,%s]`, kind, typeDesc(r, depth-1, hostile))
	case 3:
		n := r.Intn(4)
		es := make([]string, n)
		for i := range es {
			es[i] = typeDesc(r, depth-1, hostile)
		}
		if bad() {
			switch r.Intn(4) {
			case 0:
				return `["tuple",null]`
			case 1:
				return `["tuple",{"a":"string"}]`
			case 2:
				return `["tuple",[` + strings.Join(es, ",") + `],[]]`
			default:
				return `["tuple",` + strings.Join(append(es, `"string"`), ",") + `]`
			}
		}
		return `["tuple",[` + strings.Join(es, ",") + `]]`
	default:
		n := r.Intn(4)
		var ks, ps []string
		for i := 0; i < n; i++ {
			k := descKeys[r.Intn(4)]
			if bad() || r.Chance(1, 6) {
				k = descKeys[r.Intn(len(descKeys))]
			}
			ks = append(ks, k)
			ps = append(ps, jsonStr(k)+":"+typeDesc(r, depth-1, hostile))
		}
		body := `{` + strings.Join(ps, ",") + `}`
		if bad() {
			body = []string{`null`, `[]`, `"string"`, `{"a":null}`, `{"a":1}`}[r.Intn(5)]
		}
		if !r.Chance(2, 5) {
			return `["object",` + body + `]`
		}
		// optional-attribute list
		var os []string
		for _, k := range ks {
			if r.Bool() {
				os = append(os, jsonStr(k))
			}
		}
		if bad() || r.Chance(1, 5) {
			switch r.Intn(6) {
			case 0:
				os = append(os, jsonStr(descKeys[r.Intn(len(descKeys))])) // possibly undeclared
			case 1:
				os = append(os, os...) // duplicates
			case 2:
				os = append(os, `1`)
			case 3:
				os = append(os, `null`)
			case 4:
				return `["object",` + body + `,null]`
			default:
				return `["object",` + body + `,[` + strings.Join(os, ",") + `],[]]`
			}
		}
		return `["object",` + body + `,[` + strings.Join(os, ",") + `]]`
	}
}

func isNFC(s string) bool { return norm.NFC.String(s) == s }

// ---------------------------------------------------------------------------
// Deep-nesting documents
// ---------------------------------------------------------------------------

type deepCase struct {
	format string // "json" | "msgpack"
	input  []byte
	target cty.Type // NilType: no value-decoder target (implied-type functions only)
	desc   string
	depth  int
}

func nestType(kind int, d int, leaf cty.Type) cty.Type {
	t := leaf
	for i := 0; i < d; i++ {
		switch kind {
		case 0:
			t = cty.List(t)
		case 1:
			t = cty.Tuple([]cty.Type{t})
		case 2:
			t = cty.Set(t)
		case 3:
			t = cty.Object(map[string]cty.Type{"a": t})
		default:
			t = cty.Map(t)
		}
	}
	return t
}

// jsonDeepBudget bounds depth x length for documents given to the JSON value decoder.
func jsonDeepBudget(thorough bool) int64 {
	if thorough {
		return 20_000_000
	}
	return 6_000_000
}

var kindName = []string{"list", "tuple", "set", "object", "map"}

// deepDoc draws one deep-nesting document. maxLen bounds the input size; the
// JSON value decoder is kept to depth*len <= 2e7 because its memory use is
// quadratic in the nesting depth (reported as a finding) and 16 workers run at once.
func deepDoc(r *core.Rand, maxLen int, thorough bool) deepCase {
	leafJSON := []string{`"x"`, `1`, `true`, `null`, `[]`, `{}`, `"` + strings.Repeat("a", 200) + `"`}
	if r.Chance(1, 12) {
		// ---- JSON type descriptor, bare or as the type of a dynamic wrapper ----
		kinds := []string{"list", "set", "map"}
		k := kinds[r.Intn(3)]
		d := []int{50, 300, 1000, 2500, 5000, 9990, 10001}[r.Intn(7)]
		if !thorough && !r.Chance(1, 4) {
			d = []int{20, 100, 400}[r.Intn(3)]
		}
		open, clos := `["`+k+`",`, `]`
		if r.Chance(1, 4) {
			open, clos = `["tuple",[`, `]]`
		}
		for d > 8 && (d*len(open+clos)+40 > maxLen || int64(d)*int64(d*len(open+clos)) > jsonDeepBudget(thorough)) {
			d /= 2
		}
		doc := strings.Repeat(open, d) + `"string"` + strings.Repeat(clos, d)
		dc := deepCase{format: "json", depth: d}
		if r.Bool() {
			dc.input = []byte(doc)
			dc.desc = fmt.Sprintf("deep type descriptor %s x%d bare", k, d)
			return dc
		}
		dc.input = []byte(`{"value":null,"type":` + doc + `}`)
		dc.target = cty.DynamicPseudoType
		dc.desc = fmt.Sprintf("deep type descriptor %s x%d in a wrapper", k, d)
		return dc
	}
	if r.Bool() {
		// ---- JSON ----
		kind := r.Intn(5) // list tuple set object map
		d := []int{40, 200, 600, 1500, 3000, 9990, 10001, 12000}[r.Intn(8)]
		dynamic := r.Chance(1, 5)
		withTarget := r.Chance(1, 2)
		if withTarget && !thorough && !r.Chance(1, 6) {
			d = []int{10, 40, 120, 300}[r.Intn(4)] // quick: the value decoder's quadratic cost is paid on few cases only
		}
		pad := 0
		if r.Chance(1, 3) {
			pad = []int{1000, 20000, 60000, 900000}[r.Intn(4)]
		}
		open, clos := "[", "]"
		if kind >= 3 {
			open, clos = `{"a":`, `}`
		}
		if dynamic {
			open, clos = `{"value":`, `,"type":"dynamic"}`
			if r.Bool() {
				open, clos = `{"type":"dynamic","value":`, `}`
			}
		}
		for d > 1 && d*len(open+clos)+pad+8 > maxLen {
			if pad > 0 && pad > maxLen/2 {
				pad /= 4
			} else {
				d /= 2
			}
		}
		if kind == 2 && withTarget && !dynamic && d > 10 {
			d = 6 + r.Intn(5) // building nested sets takes time exponential in the depth (see NOTES.md)
		}
		n := d*len(open+clos) + pad + 8
		if withTarget {
			for d > 8 && int64(d)*int64(n) > jsonDeepBudget(thorough) {
				d /= 2
				n = d*len(open+clos) + pad + 8
			}
		}
		leaf := leafJSON[r.Intn(len(leafJSON))]
		if pad > 0 {
			leaf = `"` + strings.Repeat("a", pad) + `"`
		}
		var b bytes.Buffer
		b.Grow(n)
		for i := 0; i < d; i++ {
			b.WriteString(open)
		}
		b.WriteString(leaf)
		for i := 0; i < d; i++ {
			b.WriteString(clos)
		}
		dc := deepCase{format: "json", input: b.Bytes(), depth: d}
		if withTarget {
			switch {
			case dynamic:
				dc.target = cty.DynamicPseudoType
			default:
				dc.target = nestType(kind, d, cty.String)
			}
		}
		dc.desc = fmt.Sprintf("deep json %s x%d dynamic=%v pad=%d target=%v", kindName[kind], d, dynamic, pad, withTarget)
		return dc
	}
	// ---- msgpack ----
	kind := r.Intn(5)
	d := []int{40, 300, 2000, 5000, 20000, 60000, 250000, 1000000}[r.Intn(8)]
	dynamic := r.Chance(1, 5)
	withTarget := r.Chance(1, 2)
	open := []byte{0x91}
	if kind >= 3 {
		open = []byte{0x81, 0xa1, 'a'}
	}
	if dynamic {
		open = append([]byte{0x92, 0xc4, 0x09}, []byte(`"dynamic"`)...)
	}
	if r.Chance(1, 6) { // 32-bit headers with honest counts
		if kind >= 3 {
			open = []byte{0xdf, 0, 0, 0, 1, 0xa1, 'a'}
		} else if !dynamic {
			open = []byte{0xdd, 0, 0, 0, 1}
		}
	}
	for d > 1 && d*len(open)+4 > maxLen {
		d /= 2
	}
	if withTarget && d > 5000 {
		d = 5000 // the harness' own validity walk builds a path string per level
	}
	if withTarget && !thorough && d > 1000 && !r.Chance(1, 4) {
		d = 1000
	}
	if kind == 2 && withTarget && !dynamic && d > 10 {
		d = 6 + r.Intn(5) // nested sets: exponential time in the library
	}
	leaf := [][]byte{{0xc0}, {0x01}, {0xa1, 'x'}, {0xc3}, {0x90}, {0x80}, {0xd4, 0, 0}}[r.Intn(7)]
	var b bytes.Buffer
	b.Grow(d*len(open) + 4)
	for i := 0; i < d; i++ {
		b.Write(open)
	}
	b.Write(leaf)
	dc := deepCase{format: "msgpack", input: b.Bytes(), depth: d}
	if withTarget {
		if dynamic {
			dc.target = cty.DynamicPseudoType
		} else {
			dc.target = nestType(kind, d, cty.String)
		}
	}
	dc.desc = fmt.Sprintf("deep msgpack %s x%d dynamic=%v hdr=%x target=%v", kindName[kind], d, dynamic, open[0], withTarget)
	return dc
}
