package c17

// Long REAL containers under a lying header ("long-lie" class).
//
// The length-field edits of mutate.go work on encodings of generated values,
// whose arrays and maps hold a handful of members, and the long valid documents
// of longdoc.go keep their honest header. Neither reaches a decoder that is
// careful with the header at first and starts to believe it once enough real
// members have arrived (a reservation cap that is lifted after the cap has
// filled up, a growth step taken from the declared count, a second buffer sized
// from the header once the first one overflows ...). This class does: a msgpack
// array or map with n REAL small members - n just below, at and above 1024, a
// few thousand, and above the 16-bit count - whose header declares far more
// (2^20 .. 2^32-1), and where the data then stops or goes bad. The honest cost
// of such an input is what its n real members cost; everything beyond that is
// memory taken on the word of the header.
//
// The documents run through the ordinary executor (panic guard, memory monitor,
// result clauses); those that declare >= 2^21 members are routed to the risk
// batches like every other length bomb, the ones declaring >= 2^28 (a fatal
// out-of-memory if believed) to the upper half of the risk batches, so that a
// dying worker does not take the recoverable observations with it.

import (
	"fmt"
	"strconv"

	"github.com/zclconf/go-cty/cty"

	"verif/harness/core"
)

const (
	lieGridBase   = 1_100_000_000
	lieRandomBase = 1_200_000_000
)

// element kinds
const (
	lieNil = iota
	lieInt
	lieStr
	lieBool
	lieKinds
)

var lieKindName = [...]string{"nil", "small int", "1-byte string", "bool"}

func lieElem(kind, i int) []byte {
	switch kind {
	case lieNil:
		return []byte{0xc0}
	case lieInt:
		return []byte{byte(i % 100)}
	case lieStr:
		return []byte{0xa1, byte('a' + i%26)}
	}
	return []byte{0xc2 + byte(i%2)}
}

func lieElemType(kind, i int) cty.Type {
	switch kind {
	case lieNil:
		return []cty.Type{cty.String, cty.Number, cty.Bool}[i%3] // a nil is a null of whatever is asked for
	case lieInt:
		return cty.Number
	case lieStr:
		return cty.String
	}
	return cty.Bool
}

func lieElemTypeJSON(kind int) string {
	switch kind {
	case lieInt:
		return `"number"`
	case lieBool:
		return `"bool"`
	}
	return `"string"`
}

// container shapes: where the long container sits and what it is decoded as
const (
	shapeArray        = iota // the array is the document: list / set / (tuple) targets
	shapeArrayInArray        // [ array ]: list of lists, tuple holding a set
	shapeArrayInMap          // {"a": array}: object / map holding a list or set
	shapeArrayDynamic        // [type, array]: a dynamically-typed list or set
	shapeMap                 // the map is the document: map / object targets
	shapeMapInArray          // [ map ]
	lieShapes
)

var lieShapeName = [...]string{"array", "array in a one-element array", "array as the value of a one-entry map", "array as a dynamically-typed value", "map", "map in a one-element array"}

// lieKey gives map entry i a key of its own (2..4 bytes).
func lieKey(i int) string { return strconv.FormatInt(int64(i), 36) }

// lieDoc builds one document: n real members under a header declaring `claim`,
// followed by tail. setWrapper chooses "set" for the dynamic wrapper.
func lieDoc(shape, kind, n int, claim uint32, tail []byte, variant int) *tcase {
	isMap := shape == shapeMap || shape == shapeMapInArray
	var body []byte
	if isMap {
		body = mpHeader('m', claim, true)
	} else {
		body = mpHeader('a', claim, true)
	}
	for i := 0; i < n; i++ {
		if isMap {
			body = append(body, mpStr(lieKey(i))...)
		}
		body = append(body, lieElem(kind, i)...)
	}
	body = append(body, tail...)
	ety := lieElemType(kind, variant)
	tc := &tcase{class: "long-lie", format: "msgpack", fam: famMP,
		origin: fmt.Sprintf("%s with %d real members (%s) under a 32-bit header declaring %d, then %d more bytes (%x)", lieShapeName[shape], n, lieKindName[kind], claim, len(tail), tail)}
	add := func(name string, t cty.Type) {
		tc.targets = append(tc.targets, t)
		tc.tnames = append(tc.tnames, name)
	}
	switch shape {
	case shapeArray:
		tc.input = body
		add("list", cty.List(ety))
		add("set", cty.Set(ety))
		if n <= 1100 {
			// a tuple type with as many elements as are really there (the declared count is compared first)
			etys := make([]cty.Type, n)
			for i := range etys {
				etys[i] = ety
			}
			add("tuple", cty.Tuple(etys))
		} else {
			add("list-of-dynamic", cty.List(cty.DynamicPseudoType))
		}
	case shapeArrayInArray:
		tc.input = append([]byte{0x91}, body...)
		add("list-of-lists", cty.List(cty.List(ety)))
		add("tuple-of-set", cty.Tuple([]cty.Type{cty.Set(ety)}))
		add("set-of-lists", cty.Set(cty.List(ety)))
	case shapeArrayInMap:
		tc.input = append([]byte{0x81, 0xa1, 'a'}, body...)
		add("object-of-list", cty.Object(map[string]cty.Type{"a": cty.List(ety)}))
		add("map-of-sets", cty.Map(cty.Set(ety)))
	case shapeArrayDynamic:
		desc := `["list",` + lieElemTypeJSON(kind) + `]`
		if variant%2 == 1 {
			desc = `["set",` + lieElemTypeJSON(kind) + `]`
		}
		tc.input = append(append(append([]byte{0x92}, mpHeader('b', uint32(len(desc)), false)...), desc...), body...)
		add("dynamic", cty.DynamicPseudoType)
		if variant%3 == 0 {
			tc.input = append([]byte{0x91}, tc.input...)
			tc.targets[0], tc.tnames[0] = cty.List(cty.DynamicPseudoType), "list-of-dynamic"
			add("tuple-of-dynamic", cty.Tuple([]cty.Type{cty.DynamicPseudoType}))
		}
	case shapeMap:
		tc.input = body
		add("map", cty.Map(ety))
		add("object", cty.Object(map[string]cty.Type{lieKey(0): ety, lieKey(1): ety}))
		add("map-of-dynamic", cty.Map(cty.DynamicPseudoType))
	default:
		tc.input = append([]byte{0x91}, body...)
		add("list-of-maps", cty.List(cty.Map(ety)))
		add("set-of-maps", cty.Set(cty.Map(ety)))
	}
	return tc
}

var lieClaims = []uint32{1 << 20, 1 << 24, 1<<31 - 1, 1<<32 - 1}

// lieGrid is the seed-independent part: sizes x declared counts x shapes, the
// member kind and the tail going round.
func lieGrid() []*tcase {
	arraySizes := []int{1024, 1025, 1100, 4096, 70000}
	mapSizes := []int{1024, 1025, 1100, 4096, 8000}
	tails := [][]byte{nil, {0xc1}, nil, {0xc0, 0xc1}}
	var out []*tcase
	k := 0
	for shape := 0; shape < lieShapes; shape++ {
		sizes := arraySizes
		if shape == shapeMap || shape == shapeMapInArray {
			sizes = mapSizes
		}
		for _, n := range sizes {
			for _, claim := range lieClaims {
				kind := k % lieKinds
				if n > 8000 && kind == lieInt {
					kind = lieBool // 70000 numbers are 60 MB of big.Float on an honest decoder: nothing to learn from that here
				}
				out = append(out, lieDoc(shape, kind, n, claim, tails[(k/lieKinds)%len(tails)], k))
				k++
			}
		}
	}
	return out
}

// lieRandom is the seeded part: sizes, declared counts, member kinds and tails drawn.
func lieRandom(r *core.Rand) *tcase {
	var n int
	switch r.Weighted([]int{4, 4, 3, 1}) {
	case 0:
		n = 1020 + r.Intn(12)
	case 1:
		n = 1025 + r.Intn(200)
	case 2:
		n = 1025 + r.Intn(7000)
	default:
		n = 65530 + r.Intn(5000)
	}
	shape := r.Intn(lieShapes)
	if (shape == shapeMap || shape == shapeMapInArray) && n > 8000 {
		n = 1025 + n%7000
	}
	kind := r.Intn(lieKinds)
	if n > 8000 && kind == lieInt {
		kind = lieNil
	}
	var claim uint32
	switch r.Intn(10) {
	case 0:
		claim = uint32(n) + 1 + uint32(r.Intn(4)) // small lies: harmless whatever the decoder does
	case 1:
		claim = uint32(2*n + r.Intn(n))
	case 2:
		claim = 1<<20 + uint32(r.Intn(1<<20))
	case 3:
		claim = 1 << 20
	case 4:
		claim = 1<<21 + uint32(r.Intn(1<<25))
	case 5:
		claim = 1 << 24
	case 6:
		claim = 1<<31 - 1
	case 7:
		claim = 1 << 31
	case 8:
		claim = 1<<28 + uint32(r.Intn(1<<30))
	default:
		claim = 1<<32 - 1
	}
	var tail []byte
	switch r.Intn(5) {
	case 0, 1:
	case 2:
		tail = []byte{0xc1}
	case 3:
		tail = []byte{0x90} // a value of another kind than the members
	default:
		tail = make([]byte, 1+r.Intn(6))
		for i := range tail {
			tail[i] = hotBytes[r.Intn(len(hotBytes))]
		}
	}
	return lieDoc(shape, kind, n, claim, tail, r.Intn(6))
}

// lieRiskBatch says in which of the nRisk risk batches a routed document runs:
// declared counts below 2^28 in the lower half, the rest in the upper half.
func lieRiskBatch(tc *tcase, j, nRisk int) int {
	half := nRisk / 2
	if half == 0 {
		return 0
	}
	mx, _ := maxDeclaredLen(tc.input, 0)
	if mx >= 1<<28 {
		return half + j%(nRisk-half)
	}
	return j % half
}

// runLongLies executes this batch's share of the class. riskK < 0: a regular
// batch (documents that are not routed away); otherwise risk batch riskK.
func runLongLies(e *executor, nRegular, nRisk, riskK int) {
	c := e.c
	run := func(idx int64, j int, tc *tcase) {
		if !c.Want(idx) {
			return
		}
		isRisky := risky(tc.input)
		switch {
		case riskK < 0 && !isRisky && j%nRegular == c.Batch:
		case riskK >= 0 && isRisky && lieRiskBatch(tc, j, nRisk) == riskK:
		default:
			return
		}
		mx, _ := maxDeclaredLen(tc.input, 0)
		switch {
		case mx >= 1<<28:
			c.Count("long-lie:declared>=2^28")
		case mx >= 1<<21:
			c.Count("long-lie:declared>=2^21")
		case mx >= 1<<20:
			c.Count("long-lie:declared>=2^20")
		default:
			c.Count("long-lie:declared<2^20")
		}
		e.runCase(idx, tc, famMP)
	}
	for j, tc := range lieGrid() {
		run(lieGridBase+int64(j), j, tc)
	}
	nRandom := c.N(320, 3200)
	for j := 0; j < nRandom; j++ {
		// the document is a function of (seed, j) alone, so the regular and the risk batches agree on it
		idx := lieRandomBase + int64(j)
		if !c.Want(idx) {
			continue
		}
		if riskK < 0 && j%nRegular != c.Batch {
			continue // (a routed document is needed in a risk batch whatever j is: it is drawn there)
		}
		run(idx, j, lieRandom(c.GlobalRNG("long-lie:"+strconv.Itoa(j))))
	}
}
