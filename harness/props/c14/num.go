package c14

import (
	"fmt"
	"math"
	"math/big"
	"strings"

	"github.com/zclconf/go-cty/cty"
	"github.com/zclconf/go-cty/cty/function/stdlib"

	"verif/harness/core"
	"verif/harness/gen"
	"verif/harness/model"
)

// ---------- helpers on numbers ----------

func numOf(v cty.Value) model.Num { return model.NumOf(v.AsBigFloat()) }

func isNegZero(v cty.Value) bool {
	bf := v.AsBigFloat()
	return !bf.IsInf() && bf.Sign() == 0 && bf.Signbit()
}

// numKind is the input class of a number.
func numKind(v cty.Value) string {
	bf := v.AsBigFloat()
	switch {
	case bf.IsInf() && bf.Sign() > 0:
		return "+inf"
	case bf.IsInf():
		return "-inf"
	case bf.Sign() == 0 && bf.Signbit():
		return "-0"
	case bf.Sign() == 0:
		return "0"
	case bf.IsInt():
		if bf.IsInt() {
			if _, acc := bf.Int64(); acc == big.Exact {
				return "int64"
			}
		}
		return "bigint"
	}
	return "frac"
}

func precOf(v cty.Value) uint {
	p := v.AsBigFloat().Prec()
	if p == 0 {
		return 1 << 20 // an exact zero does not constrain the precision
	}
	return p
}

func minPrec(vs ...cty.Value) uint {
	p := uint(1 << 20)
	for _, v := range vs {
		if q := precOf(v); q < p {
			p = q
		}
	}
	if p == 1<<20 {
		p = 64
	}
	return p
}

func infVal(sign int) cty.Value {
	if sign < 0 {
		return cty.NegativeInfinity
	}
	return cty.PositiveInfinity
}

func ratVal(r *big.Rat) cty.Value {
	if r.IsInt() {
		return cty.NumberVal(new(big.Float).SetInt(r.Num()))
	}
	return cty.NumberVal(new(big.Float).SetPrec(512).SetRat(r))
}

// sigBits is the number of significant bits of a non-zero integer.
func sigBits(i *big.Int) uint {
	if i.Sign() == 0 {
		return 0
	}
	a := new(big.Int).Abs(i)
	return uint(a.BitLen()) - a.TrailingZeroBits()
}

func gotNum(got cty.Value) (model.Num, string) {
	if got.IsNull() || !got.IsKnown() {
		return model.Num{}, "result is null or unknown"
	}
	return numOf(got), ""
}

// expectExact: the result must be exactly this extended rational (-0 = 0).
func expectExact(n model.Num, class string) expect {
	var v cty.Value
	if n.IsInf() {
		v = infVal(n.Inf)
	} else {
		v = ratVal(n.R)
	}
	return expect{kind: expValue, val: v, class: class, check: func(got cty.Value) string {
		g, why := gotNum(got)
		if why != "" {
			return why
		}
		if g.Cmp(n) != 0 || g.IsInf() != n.IsInf() {
			return fmt.Sprintf("exact value %s, expected exactly %s", g, n)
		}
		return ""
	}}
}

// expectTol: finite exact result, compared to the tolerance of the C02 rule:
// exact when the exact result is an integer whose significant bits fit in p
// bits, otherwise |got-exact| <= scale * 2^-(p-2).
func expectTol(exact *big.Rat, p uint, scale *big.Rat, class string) expect {
	return expect{kind: expValue, val: ratVal(exact), class: class, check: func(got cty.Value) string {
		g, why := gotNum(got)
		if why != "" {
			return why
		}
		if g.IsInf() {
			return fmt.Sprintf("infinite result, expected %s", exact.RatString())
		}
		if exact.IsInt() && sigBits(exact.Num()) <= p {
			if g.R.Cmp(exact) != 0 {
				return fmt.Sprintf("exact value %s, expected exactly %s (an integer representable in %d bits)", g, exact.RatString(), p)
			}
			return ""
		}
		diff := new(big.Rat).Sub(g.R, exact)
		diff.Abs(diff)
		tol := new(big.Rat).Abs(scale)
		if p < 3 {
			p = 3
		}
		tol.Mul(tol, new(big.Rat).SetFrac(big.NewInt(1), new(big.Int).Lsh(big.NewInt(1), p-2)))
		if diff.Cmp(tol) > 0 {
			df, _ := diff.Float64()
			tf, _ := tol.Float64()
			return fmt.Sprintf("|result-exact| = %.6g exceeds the tolerance %.6g (p=%d); exact = %s", df, tf, p, ratShort(exact))
		}
		return ""
	}}
}

func ratShort(r *big.Rat) string {
	s := r.RatString()
	if len(s) > 120 {
		f := new(big.Float).SetPrec(128).SetRat(r)
		return f.Text('g', 30)
	}
	return s
}

func floorRat(r *big.Rat) *big.Int {
	// big.Int.Div is Euclidean; with a positive divisor that is the floor.
	return new(big.Int).Div(r.Num(), r.Denom())
}

func truncRat(r *big.Rat) *big.Int {
	return new(big.Int).Quo(r.Num(), r.Denom())
}

// ---------- generators ----------

// boundaryFractions is the pool class "fraction attached to an integer boundary": for every
// boundary B in +-{2^31, 2^32, 2^53, 2^63, 2^64, 2^127, 10^18, 10^19, 10^30} the values
// B+d for d in {0, +-0.25, +-0.5, +-1, +-1.5} and B*(1 +- 2^-70), each (a) parsed from decimal text
// at 512 bits and (b) as the result of arithmetic on the boundary. These are non-integers whose
// whole part does not fit the precision (or the machine integer width) a shortcut might assume.
var boundaryFractionPool []cty.Value

func boundaryFractions() []cty.Value {
	if boundaryFractionPool != nil {
		return boundaryFractionPool
	}
	pow := func(b, e int64) *big.Int { return new(big.Int).Exp(big.NewInt(b), big.NewInt(e), nil) }
	bounds := []*big.Int{pow(2, 31), pow(2, 32), pow(2, 53), pow(2, 63), pow(2, 64), pow(2, 127), pow(10, 18), pow(10, 19), pow(10, 30)}
	deltas := []*big.Rat{big.NewRat(0, 1), big.NewRat(1, 4), big.NewRat(-1, 4), big.NewRat(1, 2), big.NewRat(-1, 2), big.NewRat(1, 1), big.NewRat(-1, 1), big.NewRat(3, 2), big.NewRat(-3, 2)}
	eps := new(big.Rat).SetFrac(big.NewInt(1), pow(2, 70))
	var p []cty.Value
	for _, b := range bounds {
		for _, sign := range []int64{1, -1} {
			br := new(big.Rat).SetInt(new(big.Int).Mul(b, big.NewInt(sign)))
			for _, d := range deltas {
				x := new(big.Rat).Add(br, d)
				// (a) parsed from its exact decimal text (all deltas are multiples of 1/4)
				p = append(p, cty.MustParseNumberVal(x.FloatString(2)))
				// (b) through arithmetic: boundary (parsed) plus the delta (a float64-derived number)
				df, _ := d.Float64()
				p = append(p, cty.MustParseNumberVal(br.FloatString(0)).Add(cty.NumberFloatVal(df)))
			}
			for _, s := range []int64{1, -1} {
				f := new(big.Rat).Add(big.NewRat(1, 1), new(big.Rat).Mul(eps, big.NewRat(s, 1)))
				x := new(big.Rat).Mul(br, f)
				p = append(p, cty.NumberVal(new(big.Float).SetPrec(512).SetRat(x)))
			}
		}
	}
	boundaryFractionPool = p
	return p
}

func genNum(r *core.Rand) (cty.Value, string) {
	if r.Chance(1, 6) {
		p := boundaryFractions()
		return p[r.Intn(len(p))], "boundary-fraction"
	}
	c := gen.Number(r)
	return c.V, c.Class
}

func gen1Num(r *core.Rand) tcase {
	v, cl := genNum(r)
	return tcase{args: []cty.Value{v}, tags: []string{cl}}
}

func gen2Num(r *core.Rand) tcase {
	a, ca := genNum(r)
	var b cty.Value
	var cb string
	switch r.Intn(12) {
	case 0:
		b, cb = a, ca // tie
	case 1:
		b, cb = a.Negate(), "negated-twin"
	default:
		b, cb = genNum(r)
	}
	return tcase{args: []cty.Value{a, b}, tags: []string{ca, cb}}
}

func genNNum(r *core.Rand) tcase {
	n := r.Intn(6) // 0..5 (0 is outside the domain)
	if n == 0 && r.Chance(3, 4) {
		n = 1
	}
	tc := tcase{}
	for i := 0; i < n; i++ {
		v, cl := genNum(r)
		if i > 0 && r.Chance(1, 8) {
			v = tc.args[r.Intn(i)]
			cl = "repeat"
		}
		tc.args = append(tc.args, v)
		tc.tags = append(tc.tags, cl)
	}
	if n == 0 {
		tc.tags = []string{"no-arguments"}
	}
	return tc
}

// genLogPow draws operand pairs for log / pow: moderate magnitudes are the
// common case, plus the whole pool for the special values.
func genLogPow(r *core.Rand) tcase {
	pick := func() (cty.Value, string) {
		switch r.Intn(6) {
		case 0:
			return genNum(r)
		case 1:
			return cty.NumberIntVal(int64(r.Intn(41) - 8)), "small-int"
		case 2:
			return cty.NumberFloatVal(float64(r.Intn(4000)-500) / 64), "dyadic-fraction"
		case 3:
			return cty.MustParseNumberVal(fmt.Sprintf("%d.%03d", r.Intn(30), r.Intn(1000))), "parsed-decimal"
		case 4:
			return []cty.Value{cty.NumberIntVal(2), cty.NumberIntVal(10), cty.NumberFloatVal(math.E), cty.NumberIntVal(1), cty.Zero, cty.NumberFloatVal(0.5)}[r.Intn(6)], "common-base"
		}
		return cty.NumberFloatVal(math.Exp(float64(r.Intn(1400)-700) / 3)), "float64-wide-exponent"
	}
	a, ca := pick()
	b, cb := pick()
	return tcase{args: []cty.Value{a, b}, tags: []string{ca, cb}}
}

var parseIntDigits = "0123456789abcdefghijklmnopqrstuvwxyzABCDEFGHIJKLMNOPQRSTUVWXYZ"

func genParseInt(r *core.Rand) tcase {
	var base int
	tags := []string{}
	switch r.Intn(10) {
	case 0:
		base = []int{-1, 0, 1, 63, 64, 100}[r.Intn(6)]
		tags = append(tags, "base-out-of-range")
	case 1, 2:
		base = []int{2, 8, 10, 16, 36, 37, 62}[r.Intn(7)]
		tags = append(tags, "base-boundary")
	default:
		base = 2 + r.Intn(61)
		tags = append(tags, "base-any")
	}
	baseV := cty.NumberIntVal(int64(base))
	if r.Chance(1, 30) {
		baseV = cty.NumberFloatVal(float64(base) + 0.5)
		tags = append(tags, "base-fraction")
	}
	var sb strings.Builder
	if r.Chance(1, 4) {
		sb.WriteByte("+-"[r.Intn(2)])
	}
	nd := r.Intn(24)
	if r.Chance(1, 10) {
		nd = 60 + r.Intn(40) // beyond 64 bits
	}
	lim := base
	if lim < 2 || lim > 62 {
		lim = 10
	}
	for i := 0; i < nd; i++ {
		switch {
		case r.Chance(1, 40):
			sb.WriteByte(parseIntDigits[r.Intn(62)]) // possibly not a digit of this base
		case r.Chance(1, 80):
			sb.WriteString([]string{"_", " ", ".", "é", "x", "-", "+"}[r.Intn(7)])
		default:
			sb.WriteByte(parseIntDigits[r.Intn(lim)])
		}
	}
	s := sb.String()
	if r.Chance(1, 25) {
		s = []string{"", "+", "-", "0x1f", "0b101", "1_000", " 12", "12 ", "1e3", "١٢"}[r.Intn(10)]
		tags = append(tags, "odd-literal")
	}
	var first cty.Value = cty.StringVal(s)
	switch r.Intn(40) {
	case 0:
		first = cty.NumberIntVal(12)
		tags = append(tags, "first-not-a-string")
	case 1:
		first = cty.True
		tags = append(tags, "first-not-a-string")
	case 2:
		first = cty.NullVal(cty.String)
		tags = append(tags, "first-null")
	}
	return tcase{args: []cty.Value{first, baseV}, tags: tags}
}

// ---------- references ----------

func kinds(a ...cty.Value) string {
	p := make([]string, len(a))
	for i, v := range a {
		p[i] = numKind(v)
	}
	return strings.Join(p, ",")
}

func refArith(op string) func(args []cty.Value) expect {
	return func(args []cty.Value) expect {
		a, b := numOf(args[0]), numOf(args[1])
		class := kinds(args[0], args[1])
		p := minPrec(args[0], args[1])
		switch op {
		case "add", "subtract":
			bb := b
			if op == "subtract" {
				bb = model.Num{Inf: -b.Inf, R: b.R}
				if b.R != nil {
					bb.R = new(big.Rat).Neg(b.R)
				}
			}
			switch {
			case a.IsInf() && bb.IsInf():
				if a.Inf != bb.Inf {
					return failure("sum of opposing infinities", class)
				}
				return expectExact(a, class)
			case a.IsInf():
				return expectExact(a, class)
			case bb.IsInf():
				return expectExact(bb, class)
			}
			e := new(big.Rat).Add(a.R, bb.R)
			return expectTol(e, p, e, class)
		case "multiply":
			if a.IsInf() || b.IsInf() {
				if a.Sign() == 0 || b.Sign() == 0 {
					return failure("zero times infinity", class)
				}
				return expectExact(model.Num{Inf: a.Sign() * b.Sign()}, class)
			}
			e := new(big.Rat).Mul(a.R, b.R)
			return expectTol(e, p, e, class)
		case "divide":
			switch {
			case a.IsInf() && b.IsInf():
				return failure("infinity divided by infinity", class)
			case a.Sign() == 0 && b.Sign() == 0:
				return failure("zero divided by zero", class)
			case b.Sign() == 0:
				// documented on Value.Divide: an exactly zero divisor gives the infinity with the sign of the receiver
				return expectExact(model.Num{Inf: a.Sign()}, class)
			case a.IsInf():
				return expectExact(model.Num{Inf: a.Sign() * b.Sign()}, class)
			case b.IsInf():
				return expectExact(model.NumInt(0), class)
			}
			e := new(big.Rat).Quo(a.R, b.R)
			return expectTol(e, p, e, class)
		case "modulo":
			if a.IsInf() || b.IsInf() || b.Sign() == 0 {
				return free("modulo-zero-or-infinite-operand") // special cases belong to C02 (Value.Modulo)
			}
			return refModulo(args[0], args[1], class)
		}
		panic("unknown op " + op)
	}
}

func fitsBits(r *big.Rat, p uint) bool { return r.IsInt() && sigBits(r.Num()) <= p }

// refModulo is the C02 oracle for Modulo on a finite receiver and a finite non-zero divisor:
// r = a - b*trunc(a/b). Exact when r is an integer that fits the operand precision; otherwise
// within 2^-(p-2) of max(|a|,|b|); when the exact quotient is within operand precision of an
// integer, the truncation may resolve to either neighbour; when the divisor itself is below the
// tolerance only the magnitude bound |result| <= |b| can be demanded.
func refModulo(av, bv cty.Value, class string) expect {
	a, b := numOf(av).R, numOf(bv).R
	p := minPrec(av, bv)
	quo := new(big.Rat).Quo(a, b)
	q := new(big.Int).Quo(quo.Num(), quo.Denom())
	r := new(big.Rat).Sub(a, new(big.Rat).Mul(b, new(big.Rat).SetInt(q)))
	return expect{kind: expValue, val: ratVal(r), class: class, check: func(got cty.Value) string {
		gn, why := gotNum(got)
		if why != "" {
			return why
		}
		if gn.IsInf() {
			return "finite remainder expected, got an infinity"
		}
		g := gn.R
		if g.Cmp(r) == 0 {
			return ""
		}
		absB := new(big.Rat).Abs(b)
		scale := new(big.Rat).Abs(a)
		if absB.Cmp(scale) > 0 {
			scale = absB
		}
		zero := new(big.Rat)
		vacuous := closeAbs(absB, zero, scale, p)
		absR := new(big.Rat).Abs(r)
		nearInteger := !vacuous && r.Sign() != 0 && (closeAbs(r, zero, scale, p) || closeAbs(absR, absB, scale, p))
		altMatches := func() bool {
			for _, s := range []int64{1, -1} {
				alt := new(big.Rat).Mul(b, big.NewRat(s, 1))
				alt.Sub(r, alt)
				if closeAbs(g, alt, scale, p) {
					return true
				}
			}
			return false
		}
		detail := fmt.Sprintf("exact trunc(a/b) has %d bits, exact remainder %s, p=%d", q.BitLen(), ratShort(r), p)
		if fitsBits(r, p) {
			if nearInteger && altMatches() {
				return ""
			}
			return "exact integer remainder expected (it fits in the operand precision); " + detail
		}
		if new(big.Rat).Abs(g).Cmp(absB) > 0 {
			return "result magnitude exceeds the divisor; " + detail
		}
		if vacuous || closeAbs(g, r, scale, p) || (nearInteger && altMatches()) {
			return ""
		}
		return "result differs from a - b*trunc(a/b) beyond operand precision; " + detail
	}}
}

// closeRel reports |a-b| <= 2^-(p-2) * |b| (the C02 tolerance).
func closeRel(a, b *big.Rat, p uint) bool {
	return closeAbs(a, b, new(big.Rat).Abs(b), p)
}

// closeAbs reports |a-b| <= 2^-(p-2) * scale.
func closeAbs(a, b, scale *big.Rat, p uint) bool {
	d := new(big.Rat).Sub(a, b)
	d.Abs(d)
	if d.Sign() == 0 {
		return true
	}
	if p < 3 {
		p = 3
	}
	d.Mul(d, new(big.Rat).SetInt(new(big.Int).Lsh(big.NewInt(1), p-2)))
	return d.Cmp(scale) <= 0
}

// refCompare: lt/gt compare exactly; lte/gte are documented (as in C02) as "lt/gt OR equals",
// and documented number equality is "same shortest decimal text": two non-integers that are
// equal in that sense and lie within operand precision of each other are a tie.
func refCompare(op string) func(args []cty.Value) expect {
	return func(args []cty.Value) expect {
		an, bn := numOf(args[0]), numOf(args[1])
		c := an.Cmp(bn)
		class := kinds(args[0], args[1])
		var res bool
		switch op {
		case "lt":
			res = c < 0
		case "gt":
			res = c > 0
		case "lte", "gte":
			res = c == 0 || (op == "lte" && c < 0) || (op == "gte" && c > 0)
			if !res && !an.IsInf() && !bn.IsInf() && model.NumEqualDoc(args[0].AsBigFloat(), args[1].AsBigFloat()) &&
				closeRel(an.R, bn.R, minPrec(args[0], args[1])) {
				res = true
				class += ",documented-equality-tie"
			}
		}
		return value(cty.BoolVal(res), class)
	}
}

func refUnary(op string) func(args []cty.Value) expect {
	return func(args []cty.Value) expect {
		a := numOf(args[0])
		class := numKind(args[0])
		switch op {
		case "negate":
			if a.IsInf() {
				return expectExact(model.Num{Inf: -a.Inf}, class)
			}
			return expectExact(model.Num{R: new(big.Rat).Neg(a.R)}, class)
		case "abs":
			if a.IsInf() {
				return expectExact(model.Num{Inf: 1}, class)
			}
			return expectExact(model.Num{R: new(big.Rat).Abs(a.R)}, class)
		case "ceil":
			if a.IsInf() {
				return expectExact(a, class)
			}
			neg := new(big.Rat).Neg(a.R)
			f := floorRat(neg)
			return expectExact(model.Num{R: new(big.Rat).SetInt(f.Neg(f))}, class)
		case "floor":
			if a.IsInf() {
				return expectExact(a, class)
			}
			return expectExact(model.Num{R: new(big.Rat).SetInt(floorRat(a.R))}, class)
		case "int":
			if a.IsInf() {
				return failure("infinity cannot be truncated to an integer", class)
			}
			return expectExact(model.Num{R: new(big.Rat).SetInt(truncRat(a.R))}, class)
		case "signum":
			return expectExact(model.NumInt(int64(a.Sign())), class)
		}
		panic("unknown op " + op)
	}
}

func refMinMax(isMin bool) func(args []cty.Value) expect {
	return func(args []cty.Value) expect {
		if len(args) == 0 {
			return failure("no arguments", "no-arguments")
		}
		best := numOf(args[0])
		for _, v := range args[1:] {
			n := numOf(v)
			if (isMin && n.Cmp(best) < 0) || (!isMin && n.Cmp(best) > 0) {
				best = n
			}
		}
		return expectExact(best, fmt.Sprintf("n=%d", len(args)))
	}
}

// float64Of is the float64 rounding of a number; ok=false when a finite number
// is beyond the float64 range (not pinned by the documentation).
func float64Of(v cty.Value) (float64, bool) {
	bf := v.AsBigFloat()
	f, _ := bf.Float64()
	if math.IsInf(f, 0) && !bf.IsInf() {
		return f, false
	}
	return f, true
}

func ulpClose(got cty.Value, want float64) string {
	g, why := gotNum(got)
	if why != "" {
		return why
	}
	if math.IsInf(want, 0) {
		if !g.IsInf() || (g.Inf > 0) != (want > 0) {
			return fmt.Sprintf("result %s, float64 reference %v", g, want)
		}
		return ""
	}
	if g.IsInf() {
		return fmt.Sprintf("infinite result, float64 reference %v", want)
	}
	gf, _ := got.AsBigFloat().Float64()
	if gf == want {
		return ""
	}
	lo, hi := math.Nextafter(want, math.Inf(-1)), math.Nextafter(want, math.Inf(1))
	if gf >= lo && gf <= hi {
		return ""
	}
	return fmt.Sprintf("result %v, float64 reference %v (more than 1 ulp apart)", gf, want)
}

func refLogPow(isLog bool) func(args []cty.Value) expect {
	return func(args []cty.Value) expect {
		class := kinds(args[0], args[1])
		x, ok1 := float64Of(args[0])
		y, ok2 := float64Of(args[1])
		if !ok1 || !ok2 {
			return free("operand-beyond-float64-range")
		}
		var want float64
		if isLog {
			want = math.Log(x) / math.Log(y)
		} else {
			want = math.Pow(x, y)
		}
		if math.IsNaN(want) {
			return failure("the float64 reference result is NaN", class+",NaN")
		}
		var v cty.Value
		if math.IsInf(want, 0) {
			v = infVal(int(math.Copysign(1, want)))
		} else {
			v = cty.NumberFloatVal(want)
		}
		return expect{kind: expValue, val: v, class: class, check: func(got cty.Value) string { return ulpClose(got, want) }}
	}
}

// refParseInt is written from the description (digits 0-9, a-z, A-Z; letters
// are case-insensitive up to base 36 and a-z = 10..35, A-Z = 36..61 above) and
// cross-checked against big.Int.SetString, which the design names as reference.
func refParseInt(args []cty.Value) expect {
	if args[0].IsNull() || args[1].IsNull() {
		return failure("null argument", "null-argument")
	}
	if !args[0].Type().Equals(cty.String) {
		return failure("first argument is not a string", "first-not-a-string")
	}
	bn := numOf(args[1])
	if !bn.IsWhole() {
		return failure("base is not a whole number", "base-not-whole")
	}
	if bn.Cmp(model.NumInt(2)) < 0 || bn.Cmp(model.NumInt(62)) > 0 {
		return failure("base outside 2..62", "base-out-of-range")
	}
	base := int(bn.R.Num().Int64())
	s := args[0].AsString()
	class := fmt.Sprintf("base=%d", base)
	body := s
	neg := false
	if len(body) > 0 && (body[0] == '+' || body[0] == '-') {
		neg = body[0] == '-'
		body = body[1:]
	}
	ok := len(body) > 0
	acc := new(big.Int)
	bb := big.NewInt(int64(base))
	for i := 0; ok && i < len(body); i++ {
		ch := body[i]
		var d int
		switch {
		case ch >= '0' && ch <= '9':
			d = int(ch - '0')
		case ch >= 'a' && ch <= 'z':
			d = int(ch-'a') + 10
		case ch >= 'A' && ch <= 'Z':
			if base <= 36 {
				d = int(ch-'A') + 10
			} else {
				d = int(ch-'A') + 36
			}
		default:
			d = 99
		}
		if d >= base {
			ok = false
			break
		}
		acc.Mul(acc, bb).Add(acc, big.NewInt(int64(d)))
	}
	if neg {
		acc.Neg(acc)
	}
	// cross-check with the Go function the design names
	g, gok := new(big.Int).SetString(s, base)
	if gok != ok || (ok && g.Cmp(acc) != 0) {
		return free("harness-digit-parser-disagrees-with-big.Int.SetString")
	}
	if !ok {
		return failure("not a base-N integer literal", class+",bad-digits")
	}
	return expectExact(model.Num{R: new(big.Rat).SetInt(acc)}, class)
}

func numberFns() []fnDef {
	return []fnDef{
		{"add", stdlib.AddFunc, gen2Num, refArith("add")},
		{"subtract", stdlib.SubtractFunc, gen2Num, refArith("subtract")},
		{"multiply", stdlib.MultiplyFunc, gen2Num, refArith("multiply")},
		{"divide", stdlib.DivideFunc, gen2Num, refArith("divide")},
		{"modulo", stdlib.ModuloFunc, gen2Num, refArith("modulo")},
		{"negate", stdlib.NegateFunc, gen1Num, refUnary("negate")},
		{"abs", stdlib.AbsoluteFunc, gen1Num, refUnary("abs")},
		{"lt", stdlib.LessThanFunc, gen2Num, refCompare("lt")},
		{"lte", stdlib.LessThanOrEqualToFunc, gen2Num, refCompare("lte")},
		{"gt", stdlib.GreaterThanFunc, gen2Num, refCompare("gt")},
		{"gte", stdlib.GreaterThanOrEqualToFunc, gen2Num, refCompare("gte")},
		{"min", stdlib.MinFunc, genNNum, refMinMax(true)},
		{"max", stdlib.MaxFunc, genNNum, refMinMax(false)},
		{"ceil", stdlib.CeilFunc, gen1Num, refUnary("ceil")},
		{"floor", stdlib.FloorFunc, gen1Num, refUnary("floor")},
		{"int", stdlib.IntFunc, gen1Num, refUnary("int")},
		{"signum", stdlib.SignumFunc, gen1Num, refUnary("signum")},
		{"log", stdlib.LogFunc, genLogPow, refLogPow(true)},
		{"pow", stdlib.PowFunc, genLogPow, refLogPow(false)},
		{"parseint", stdlib.ParseIntFunc, genParseInt, refParseInt},
	}
}
