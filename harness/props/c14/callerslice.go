package c14

import (
	"bytes"
	"fmt"
	"strings"

	"github.com/zclconf/go-cty/cty"

	"verif/harness/core"
	"verif/harness/mon"
)

// Function.Call hands the slice it is given straight to the implementation. A
// caller may hold its arguments in a longer slice (params[:2] of a
// three-element params) and use that slice again afterwards, so the library is
// called that way: the arguments are the first n elements of a backing array
// with room for two more, the spare elements being values of the caller's own.
// After every call each element of the backing array must be the very value
// that was put there (complete internal state, cty.VerifFingerprint, against
// the record taken before the call). One call in four is repeated through the
// same slice and must answer as the first call did; for variadic functions one
// call in four is followed by the longer form buf[:n+1], whose last argument is
// the first spare element (one of the variadic arguments again), next to the reference.

const spareRoom = 2

// beyond is the value of a spare element that is never meant to be an argument.
var beyond = cty.StringVal("verif: the caller's own value past the end of the arguments")

type callerSlice struct {
	buf    []cty.Value // len n, cap n+spareRoom: what the library is given
	priv   []cty.Value // the harness's own record of all cap(buf) elements
	fps    [][]byte    // their complete internal state before the first call
	second bool
	longer bool
}

func newCallerSlice(fd *fnDef, tc tcase, idx int64) *callerSlice {
	n := len(tc.args)
	fixedPart := idx >= 1_000_000_000
	cs := &callerSlice{}
	cs.second = fixedPart || idx%4 == 3
	// the longer form needs a further argument the reference is defined on: one of the variadic arguments again
	nfix := len(fd.fn.Params())
	cs.longer = fd.fn.VarParam() != nil && n > nfix && tc.override == nil && (fixedPart || idx%4 == 1)
	cs.buf = make([]cty.Value, n, n+spareRoom)
	copy(cs.buf, tc.args)
	full := cs.buf[:n+spareRoom]
	full[n], full[n+1] = beyond, beyond
	if cs.longer {
		full[n] = tc.args[nfix+int((idx/4)%int64(n-nfix))]
	}
	cs.priv = append([]cty.Value(nil), full...)
	cs.fps = make([][]byte, len(full))
	for i, v := range full {
		cs.fps[i] = cty.VerifFingerprint(v)
	}
	return cs
}

// after checks the caller's slice after a call of buf[:len(own)] and puts back what was overwritten.
func (cs *callerSlice) after(c *core.Ctx, fd *fnDef, own []cty.Value, prefix string) {
	c.Count("oracle:caller-slice-untouched:" + fd.name)
	n := len(own)
	full := cs.buf[:cap(cs.buf)]
	var out []string
	for i := range full {
		if full[i].Type().Equals(cs.priv[i].Type()) && bytes.Equal(cty.VerifFingerprint(full[i]), cs.fps[i]) {
			continue
		}
		where := fmt.Sprintf("argument %d of %d", i, n)
		if i >= n {
			where = fmt.Sprintf("element %d of the backing array (the call had %d arguments)", i, n)
		}
		out = append(out, fmt.Sprintf("%s was %#v, is now %#v", where, cs.priv[i], full[i]))
		full[i] = cs.priv[i]
	}
	if len(out) > 0 {
		c.Violate("stdlib."+fd.name, facetSliceWritten, fmt.Sprintf("%d arguments in a slice with room for %d", n, len(full)),
			prefix+fd.name+"("+fmtArgs(own)+")", strings.Join(out, "\n"))
	}
}

// followUps: the further calls through the same slice after a first call that returned.
func (cs *callerSlice) followUps(c *core.Ctx, idx int64, fd *fnDef, tc tcase, own []cty.Value, got cty.Value, err error) {
	site := "stdlib." + fd.name
	call := fd.name + "(" + fmtArgs(own) + ")"
	if cs.second {
		c.Count("oracle:second-call-same-slice:" + fd.name)
		var got2 cty.Value
		var err2 error
		o := core.Guard(func() { got2, err2 = fd.fn.Call(cs.buf) })
		c.Eval(1)
		wit := call + " called a second time through the same slice"
		switch {
		case o.Panicked:
			c.Violate(site, "panic: "+core.PanicClass(o.PanicMsg), "second call through the same slice", wit, o.PanicMsg+"\n"+o.Stack)
		case (err == nil) != (err2 == nil):
			c.Violate(site, facetSecondCall, "one call fails, the other does not", wit, fmt.Sprintf("first call: value %#v, error %v; second call: value %#v, error %v", got, err != nil, got2, err2 != nil))
		case err == nil && !(got2.Type().Equals(got.Type()) && mon.ModelEqual(got2, got)):
			c.Violate(site, facetSecondCall, "two values", wit, fmt.Sprintf("first call %#v; second call %#v", got, got2))
		}
		cs.after(c, fd, own, "second call of ")
	}
	if cs.longer {
		c.Count("oracle:longer-form-same-slice:" + fd.name)
		n := len(own)
		own2 := append(append([]cty.Value(nil), own...), cs.priv[n])
		tc2 := tcase{args: cs.buf[:n+1]}
		prefix := fmt.Sprintf("after %s, the first %d arguments being the same slice elements: ", call, n)
		runCall(c, idx, fd, tc2, own2, prefix)
		cs.after(c, fd, own2, prefix)
	}
}
