package c14

import (
	"fmt"
	"math"

	"github.com/zclconf/go-cty/cty"

	"verif/harness/core"
	"verif/harness/gen"
)

// ccase is a fixed, seed-independent case: boundary inputs written from reading the code and
// the witnesses of every finding of this property.
type ccase struct {
	fn   string
	args []cty.Value
	note string
}

func n(i int64) cty.Value    { return cty.NumberIntVal(i) }
func fl(f float64) cty.Value { return cty.NumberFloatVal(f) }
func pn(s string) cty.Value  { return cty.MustParseNumberVal(s) }
func ls(ss ...string) cty.Value {
	if len(ss) == 0 {
		return cty.ListValEmpty(cty.String)
	}
	vs := make([]cty.Value, len(ss))
	for i, s := range ss {
		vs[i] = sv(s)
	}
	return cty.ListVal(vs)
}

func corpus() []ccase {
	a := func(vs ...cty.Value) []cty.Value { return vs }
	noel := "noe\u0308l"
	wee := "we\u0301\u0301\u0301e\u0301\u0301\u0301e\u0301\u0301\u0301!"
	cs := []ccase{
		// --- witnesses of the findings of this property ---
		{"substr", a(sv("hello"), n(-2), n(0)), "F-16: negative offset with length 0"},
		{"substr", a(sv("hello"), n(3), n(0)), "F-16 counterpart (positive offset)"},
		{"substr", a(sv("hello"), n(-5), n(0)), "F-16: offset = -len"},
		{"substr", a(sv(noel), n(-1), n(0)), "F-16 with a multi-code-point cluster"},
		{"signum", a(fl(0.5)), "F-17"},
		{"signum", a(fl(-0.5)), "F-17"},
		{"signum", a(pn("18446744073709551616")), "F-17: beyond int64"},
		{"signum", a(pn("-1e30")), "F-17: beyond int64"},
		{"signum", a(cty.PositiveInfinity), "F-17: infinity"},
		{"signum", a(cty.NegativeInfinity), "F-17: infinity"},
		{"signum", a(pn("1e-40")), "F-17"},
		{"format", a(sv("%.0s"), sv("abc")), "F-18"},
		{"format", a(sv("%.0q"), sv("abc")), "F-18 (%q)"},
		{"format", a(sv("%5.0s|"), sv("abc")), "F-18 with width"},
		{"formatlist", a(sv("%.0s"), ls("abc", "d")), "F-18 through formatlist"},
		{"format", a(sv("%5t|"), cty.True), "width on %t"},
		{"format", a(sv("%-6t|"), cty.False), "width on %t"},
		{"format", a(sv("%+v"), n(5)), "%v of a number is %g: flags"},
		{"format", a(sv("% v"), n(5)), "%v of a number is %g: flags"},
		{"format", a(sv("%.3v"), fl(3.14159)), "%v of a number is %g: precision"},
		{"format", a(sv("%05v"), n(-5)), "%v of a number is %g: zero padding"},
		{"format", a(sv("%.1v"), sv("abc")), "%v of a string is %s: precision"},
		{"formatdate", a(sv("'abc''"), sv("2006-01-02T15:04:05Z")), "unterminated literal ending in an escaped quote"},
		{"jsondecode", a(sv("false}")), "value followed by a closing brace"},
		{"jsondecode", a(sv("[1]]")), "value followed by a closing bracket"},
		{"jsondecode", a(sv("1 ]")), "value followed by a closing bracket"},
		{"jsondecode", a(sv("{\"a\":1}}")), "value followed by a closing brace"},
		{"jsonencode", a(sv("\n\u0327")), "json-representable"},
		{"jsonencode", a(sv("\u001e\u0301")), "json-representable"},
		{"jsonencode", a(sv(")-\n\u0f71\u0f72\u0323")), "json-representable"},
		{"jsonencode", a(sv("\n\u0f71\u0307\u0327")), "json-representable"},
		{"jsonencode", a(sv("\x1a\u0f71\u0301")), "json-representable"},
		{"jsonencode", a(cty.ObjectVal(map[string]cty.Value{"\t\u0327": cty.TupleVal([]cty.Value{sv("a\r\u0301")})})), "json-representable"},
		{"jsonencode", a(fl(1e300)), "json-representable"},
		{"format", a(sv("%s|%q"), fl(math.Copysign(0, -1)), fl(math.Copysign(0, -1))), "text of negative zero: unpinned"},
		{"formatdate", a(sv("'''"), sv("2006-01-02T15:04:05Z")), "escaped quote then unterminated literal"},

		// --- numbers ---
		{"ceil", a(fl(-0.5)), ""}, {"ceil", a(fl(0.5)), ""}, {"ceil", a(fl(-1.5)), ""}, {"ceil", a(pn("1.0000000000000000000000000000000000001")), ""},
		{"ceil", a(pn("-1.0000000000000000000000000000000000001")), ""}, {"ceil", a(pn("1e-40")), ""}, {"ceil", a(pn("-1e-40")), ""},
		{"floor", a(fl(-0.5)), ""}, {"floor", a(fl(0.5)), ""}, {"floor", a(fl(-1.5)), ""}, {"floor", a(pn("-1.0000000000000000000000000000000000001")), ""},
		{"floor", a(pn("99999999999.5")), ""}, {"floor", a(pn("-1e-40")), ""}, {"floor", a(cty.PositiveInfinity), ""}, {"ceil", a(cty.NegativeInfinity), ""},
		{"int", a(pn("9223372036854775808.5")), "non-integer in [2^63, 2^64): seeded regression 2"}, {"int", a(pn("-18446744073709551615.75")), ""}, {"int", a(pn("9223372036854775807.5")), ""},
		{"int", a(fl(-1.5)), ""}, {"int", a(fl(1.5)), ""}, {"int", a(pn("-0.9999999999999999999999999")), ""}, {"int", a(pn("1e300")), ""}, {"int", a(cty.PositiveInfinity), ""},
		{"int", a(fl(math.Inf(-1))), "fresh infinity"},
		{"abs", a(fl(math.Copysign(0, -1))), ""}, {"abs", a(cty.NegativeInfinity), ""}, {"negate", a(cty.Zero), ""},
		{"add", a(cty.PositiveInfinity, cty.NegativeInfinity), ""}, {"subtract", a(cty.PositiveInfinity, cty.PositiveInfinity), ""},
		{"multiply", a(cty.Zero, cty.PositiveInfinity), ""}, {"divide", a(cty.Zero, cty.Zero), ""}, {"divide", a(cty.PositiveInfinity, cty.NegativeInfinity), ""},
		{"divide", a(n(1), cty.Zero), ""}, {"divide", a(n(-1), cty.Zero), ""}, {"divide", a(n(1), n(3)), ""},
		{"modulo", a(n(10), n(3)), ""}, {"modulo", a(n(-10), n(3)), ""}, {"modulo", a(n(10), n(-3)), ""}, {"modulo", a(fl(5.5), n(2)), ""},
		{"add", a(fl(0.1), fl(0.2)), ""}, {"add", a(pn("0.1"), pn("0.2")), ""}, {"multiply", a(n(math.MaxInt64), n(math.MaxInt64)), ""},
		{"min", a(), ""}, {"max", a(), ""}, {"min", a(cty.PositiveInfinity), ""}, {"max", a(cty.NegativeInfinity), ""}, {"min", a(n(1), fl(0.5), n(-3)), ""},
		{"max", a(cty.PositiveInfinity, n(1)), ""}, {"min", a(pn("1.00000000001"), pn("1.00000000002")), ""},
		{"lt", a(n(1), n(2)), ""}, {"lt", a(n(2), n(1)), ""}, {"lte", a(n(1), n(1)), ""}, {"gt", a(n(2), n(1)), ""}, {"gte", a(pn("0.1"), fl(0.1)), ""},
		{"lt", a(cty.NegativeInfinity, cty.PositiveInfinity), ""}, {"gte", a(cty.PositiveInfinity, cty.PositiveInfinity), ""},
		{"log", a(n(8), n(2)), ""}, {"log", a(n(1), n(10)), ""}, {"log", a(n(0), n(10)), ""}, {"log", a(n(-1), n(10)), ""}, {"log", a(n(10), n(1)), ""}, {"log", a(n(1), n(1)), ""},
		{"log", a(cty.PositiveInfinity, n(2)), ""}, {"log", a(n(16), fl(0.5)), ""},
		{"pow", a(n(2), n(10)), ""}, {"pow", a(n(2), fl(0.5)), ""}, {"pow", a(n(-1), fl(0.5)), ""}, {"pow", a(n(0), n(-1)), ""}, {"pow", a(n(0), n(0)), ""}, {"pow", a(n(10), n(400)), ""},
		{"pow", a(n(-8), pn("0.3333333333333333333333")), ""}, {"pow", a(cty.PositiveInfinity, n(0)), ""},
		{"parseint", a(sv("FF"), n(16)), ""}, {"parseint", a(sv("ff"), n(16)), ""}, {"parseint", a(sv("-77"), n(8)), ""}, {"parseint", a(sv("+12"), n(10)), ""}, {"parseint", a(sv("z"), n(36)), ""},
		{"parseint", a(sv("Z"), n(36)), ""}, {"parseint", a(sv("Z"), n(62)), ""}, {"parseint", a(sv("z"), n(62)), ""}, {"parseint", a(sv("12"), n(1)), ""}, {"parseint", a(sv("12"), n(63)), ""},
		{"parseint", a(sv("12"), fl(10.5)), ""}, {"parseint", a(sv(""), n(10)), ""}, {"parseint", a(sv("-"), n(10)), ""}, {"parseint", a(sv("1_000"), n(10)), ""}, {"parseint", a(sv("0x1f"), n(16)), ""},
		{"parseint", a(n(12), n(10)), ""}, {"parseint", a(cty.NullVal(cty.String), n(10)), ""}, {"parseint", a(sv("123456789012345678901234567890123456789"), n(10)), ""},
		{"parseint", a(sv("2"), n(2)), ""}, {"parseint", a(sv(" 12"), n(10)), ""},

		// --- strings ---
		{"upper", a(sv("hello \u00df \ufb01 \u01c6 i\u0307")), ""}, {"lower", a(sv("HELLO \u0130 \u03a3\u0391\u03a3 \u01c4")), ""},
		{"title", a(sv("hello wORLD o'neil x-ray 1a _a \u01c6x \u00e9a")), ""}, {"title", a(sv("")), ""},
		{"trimspace", a(sv(" \t\r\n\u00a0\u2003\u3000\u0085a b\u200b \n")), ""}, {"trimspace", a(sv("\u200b")), ""},
		{"trim", a(sv("xxhixx"), sv("x")), ""}, {"trim", a(sv("e\u0323\u0301a"), sv("\u0301")), ""}, {"trim", a(sv("abc"), sv("")), ""}, {"trim", a(sv("\U0001F44D\U0001F3FDa\U0001F3FD"), sv("\U0001F3FD")), ""},
		{"trimprefix", a(sv("hello"), sv("he")), ""}, {"trimprefix", a(sv("hello"), sv("lo")), ""}, {"trimprefix", a(sv("hello"), sv("")), ""}, {"trimprefix", a(sv("\u00e9a"), sv("e")), ""},
		{"trimsuffix", a(sv("hello"), sv("lo")), ""}, {"trimsuffix", a(sv("hello"), sv("he")), ""}, {"trimsuffix", a(sv("hello"), sv("hello")), ""},
		{"chomp", a(sv("a\n")), ""}, {"chomp", a(sv("a\r\n")), ""}, {"chomp", a(sv("a\n\n\r\n")), ""}, {"chomp", a(sv("a\n b")), ""}, {"chomp", a(sv("\n")), ""}, {"chomp", a(sv("")), ""}, {"chomp", a(sv("a\r")), ""},
		{"chomp", a(sv("a\n\r")), ""}, {"chomp", a(sv("\na")), ""},
		{"indent", a(n(2), sv("a\nb\n\nc")), ""}, {"indent", a(n(0), sv("a\nb")), ""}, {"indent", a(n(3), sv("a\r\nb")), ""}, {"indent", a(n(-1), sv("a\nb")), ""}, {"indent", a(fl(1.5), sv("a\nb")), ""},
		{"indent", a(n(2), sv("")), ""}, {"indent", a(n(2), sv("\n")), ""},
		{"replace", a(sv("hello"), sv("l"), sv("L")), ""}, {"replace", a(sv("hello"), sv(""), sv("-")), ""}, {"replace", a(sv("a=b"), sv("b"), sv("\u0338")), "result composes under NFC"},
		{"replace", a(sv("\U0001F44D\U0001F3FD"), sv("\U0001F3FD"), sv("")), ""}, {"replace", a(sv(""), sv(""), sv("x")), ""}, {"replace", a(sv("aaa"), sv("aa"), sv("b")), ""},
		{"split", a(sv(","), sv("a,b,,c")), ""}, {"split", a(sv(","), sv("")), ""}, {"split", a(sv(""), sv("")), ""}, {"split", a(sv(""), sv("a\u0301b")), ""}, {"split", a(sv(","), sv(",")), ""},
		{"split", a(sv("ab"), sv("cabbabd")), ""}, {"split", a(sv("\u0301"), sv("x\u0301y")), ""},
		{"join", a(sv("-"), ls("hello", "world")), ""}, {"join", a(sv("-"), ls("chicken"), ls("egg")), ""}, {"join", a(sv(""), ls("horse", "face")), ""}, {"join", a(sv("-")), ""},
		{"join", a(sv("-"), ls()), ""}, {"join", a(sv("-"), cty.ListVal([]cty.Value{sv("a"), cty.NullVal(cty.String)})), ""}, {"join", a(sv("\u0301"), ls("e", "e")), ""},
		{"join", a(sv("-"), cty.TupleVal([]cty.Value{sv("a")})), ""}, {"join", a(sv("-"), cty.NullVal(cty.List(cty.String))), ""},
		{"substr", a(sv("hello"), n(0), n(2)), ""}, {"substr", a(sv("hello"), n(1), n(-1)), ""}, {"substr", a(sv("hello"), n(1), n(-10)), ""}, {"substr", a(sv("hello"), n(1), n(10)), ""},
		{"substr", a(sv("hello"), n(-3), n(-1)), ""}, {"substr", a(sv("hello"), n(-3), n(2)), ""}, {"substr", a(sv("hello"), n(10), n(10)), ""}, {"substr", a(sv("hello"), n(0), n(0)), ""},
		{"substr", a(sv("hello"), n(5), n(1)), ""}, {"substr", a(sv("hello"), n(5), n(-1)), ""}, {"substr", a(sv("hello"), n(-10), n(2)), ""}, {"substr", a(sv("hello"), n(-5), n(2)), ""},
		{"substr", a(sv(noel), n(0), n(3)), ""}, {"substr", a(sv(noel), n(3), n(-1)), ""}, {"substr", a(sv(noel), n(-2), n(-1)), ""}, {"substr", a(sv(wee), n(2), n(2)), ""}, {"substr", a(sv(wee), n(3), n(2)), ""},
		{"substr", a(sv(wee), n(-2), n(-1)), ""}, {"substr", a(sv("\U0001F638\U0001F63E"), n(0), n(1)), ""}, {"substr", a(sv("\U0001F638\U0001F63E"), n(1), n(1)), ""}, {"substr", a(sv(""), n(0), n(1)), ""},
		{"substr", a(sv(""), n(1), n(1)), ""}, {"substr", a(sv(""), n(-1), n(1)), ""}, {"substr", a(sv("hello"), fl(0.5), n(1)), ""}, {"substr", a(sv("hello"), n(0), fl(1.5)), ""},
		{"substr", a(sv("hello"), pn("18446744073709551616"), n(1)), ""}, {"substr", a(sv("hello"), n(0), cty.PositiveInfinity), ""}, {"substr", a(sv("hello"), n(math.MinInt64), n(1)), ""},
		{"substr", a(sv("hello"), n(1), n(math.MaxInt64)), ""}, {"substr", a(sv("a\r\nb"), n(1), n(1)), ""}, {"substr", a(sv("\U0001F1E9\U0001F1EA\U0001F1E9"), n(1), n(1)), ""},
		{"strlen", a(sv("")), ""}, {"strlen", a(sv("hello")), ""}, {"strlen", a(sv(noel)), ""}, {"strlen", a(sv(wee)), ""}, {"strlen", a(sv("\r\n")), ""}, {"strlen", a(sv("\n\r")), ""},
		{"strlen", a(sv("\U0001F468\u200d\U0001F469\u200d\U0001F467")), ""}, {"strlen", a(sv("\U0001F1E9\U0001F1EA\U0001F1E9")), ""}, {"strlen", a(sv("\u0301")), ""}, {"strlen", a(sv("1\ufe0f\u20e3")), ""},
		{"strlen", a(sv("\u1100\u1161\u11a8")), ""},
		{"reverse", a(sv("")), ""}, {"reverse", a(sv("hello")), ""}, {"reverse", a(sv(noel)), ""}, {"reverse", a(sv(wee)), ""}, {"reverse", a(sv("a\r\nb")), ""}, {"reverse", a(sv("\u0301a")), "reversal composes under NFC"},
		{"reverse", a(sv("\U0001F44D\U0001F3FDa\U0001F1E9\U0001F1EA")), ""},

		// --- regular expressions ---
		{"regex", a(sv("[a-z]+"), sv("135abc456def789")), ""}, {"regex", a(sv("([0-9]*)-([0-9]*)"), sv("1-2")), ""}, {"regex", a(sv("(?P<a>[0-9]*)-(?P<b>[0-9]*)"), sv("1-2")), ""},
		{"regex", a(sv("(?P<a>[0-9]*)-([0-9]*)"), sv("1-2")), ""}, {"regex", a(sv("(a)|(b)"), sv("b")), "unmatched group is null"}, {"regex", a(sv("(?P<x>a)?b"), sv("b")), ""},
		{"regex", a(sv("a"), sv("b")), "no match"}, {"regex", a(sv("("), sv("b")), ""}, {"regex", a(sv(""), sv("")), ""}, {"regex", a(sv("."), sv("e\u0301")), "matches one code point"},
		{"regexall", a(sv("[a-z]+"), sv("135abc456def")), ""}, {"regexall", a(sv("a"), sv("b")), ""}, {"regexall", a(sv("(a)|(b)"), sv("ab")), ""}, {"regexall", a(sv("(?P<k>\\w)=(?P<v>\\d)"), sv("a=1,b=2")), ""},
		{"regexall", a(sv(""), sv("ab")), ""}, {"regexall", a(sv("(a)(?P<n>b)"), sv("ab")), ""}, {"regexall", a(sv("[a"), sv("ab")), ""}, {"regexall", a(sv("()"), sv("")), ""},
		{"regexreplace", a(sv("hello"), sv("l+"), sv("L")), ""}, {"regexreplace", a(sv("hello"), sv("(l+)"), sv("[$1]")), ""}, {"regexreplace", a(sv("hello"), sv("(?P<x>l+)"), sv("${x}${x}")), ""},
		{"regexreplace", a(sv("hello"), sv("(l"), sv("L")), ""}, {"regexreplace", a(sv("hello"), sv(""), sv("-")), ""}, {"regexreplace", a(sv("hello"), sv("l"), sv("$$")), ""}, {"regexreplace", a(sv("hello"), sv("(l)"), sv("$1x")), ""},

		// --- format ---
		{"format", a(sv("100%% successful")), ""}, {"format", a(sv("%%%v"), cty.False), ""}, {"format", a(sv("%v"), cty.NullVal(cty.Bool)), ""}, {"format", a(sv("%v"), cty.NullVal(cty.DynamicPseudoType)), ""},
		{"format", a(sv("%#v"), sv("a")), ""}, {"format", a(sv("%#v"), n(5)), ""}, {"format", a(sv("%v"), cty.ObjectVal(map[string]cty.Value{"b": n(1), "a": sv("<x>")})), ""},
		{"format", a(sv("%v"), cty.TupleVal([]cty.Value{n(1), sv("a"), cty.True, cty.NullVal(cty.String)})), ""}, {"format", a(sv("%v"), cty.EmptyObjectVal), ""}, {"format", a(sv("%v"), cty.ListValEmpty(cty.String)), ""},
		{"format", a(sv("%10s|"), sv("hello")), ""}, {"format", a(sv("%-10s|"), sv("hello")), ""}, {"format", a(sv("%4s|"), sv(noel)), ""}, {"format", a(sv("%6q|"), sv(noel)), ""}, {"format", a(sv("%.2s"), sv(wee)), ""},
		{"format", a(sv("%.2q"), sv(wee)), ""}, {"format", a(sv("%.10s"), sv("hello")), ""}, {"format", a(sv("%4.2s|"), sv("hello")), ""}, {"format", a(sv("%-4.2s|"), sv("hello")), ""}, {"format", a(sv("%05s"), sv("ab")), ""},
		{"format", a(sv("%-05s|"), sv("ab")), "minus and zero together: unpinned"}, {"format", a(sv("%q"), sv("Hello\nWorld <&>")), ""}, {"format", a(sv("%s"), n(12)), ""}, {"format", a(sv("%s"), cty.True), ""},
		{"format", a(sv("%s"), cty.EmptyTupleVal), ""}, {"format", a(sv("%s"), cty.NullVal(cty.String)), ""}, {"format", a(sv("%t"), sv("false")), ""}, {"format", a(sv("%t"), sv("yes")), ""}, {"format", a(sv("%t"), n(1)), ""},
		{"format", a(sv("%d"), n(10)), ""}, {"format", a(sv("%+d"), n(10)), ""}, {"format", a(sv("% d"), n(10)), ""}, {"format", a(sv("%5d|"), n(10)), ""}, {"format", a(sv("%-5d|"), n(10)), ""}, {"format", a(sv("%05d"), n(-10)), ""},
		{"format", a(sv("%d"), fl(1.5)), ""}, {"format", a(sv("%d"), cty.True), ""}, {"format", a(sv("%d"), sv("12")), ""}, {"format", a(sv("%d"), sv("abc")), ""}, {"format", a(sv("%d"), pn("123456789012345678901234567890")), ""},
		{"format", a(sv("%d"), cty.PositiveInfinity), ""}, {"format", a(sv("%b"), n(5)), ""}, {"format", a(sv("%o"), n(8)), ""}, {"format", a(sv("%x"), n(255)), ""}, {"format", a(sv("%X"), n(255)), ""}, {"format", a(sv("%#x"), n(255)), ""},
		{"format", a(sv("%#o"), n(8)), ""}, {"format", a(sv("%.5d"), n(42)), ""}, {"format", a(sv("%8.3x|"), n(-255)), ""},
		{"format", a(sv("%f"), fl(1.5)), ""}, {"format", a(sv("%+f"), fl(1.5)), ""}, {"format", a(sv("% f"), fl(-1.5)), ""}, {"format", a(sv("%.4f"), pn("3.14159265")), ""}, {"format", a(sv("%.1f"), fl(0.25)), ""},
		{"format", a(sv("%e"), n(1000)), ""}, {"format", a(sv("%E"), n(1000)), ""}, {"format", a(sv("%g"), n(1000)), ""}, {"format", a(sv("%G"), sv("0.00000000000000000000001")), ""}, {"format", a(sv("%10.3f|"), fl(-2.5)), ""},
		{"format", a(sv("%010.3f|"), fl(-2.5)), ""}, {"format", a(sv("%f"), cty.PositiveInfinity), ""}, {"format", a(sv("%g"), fl(math.Copysign(0, -1))), ""}, {"format", a(sv("%.0f"), fl(2.5)), ""}, {"format", a(sv("%.f"), fl(1.5)), "period without digits: unpinned"},
		{"format", a(sv("%[2]s %[1]s"), sv("a"), sv("b")), ""}, {"format", a(sv("%[2]s %s"), sv("a"), sv("b")), ""}, {"format", a(sv("%[2]s"), sv("a"), sv("b")), ""}, {"format", a(sv("%s"), sv("a"), sv("b")), ""},
		{"format", a(sv("%s %s"), sv("a")), ""}, {"format", a(sv("%[3]s"), sv("a"), sv("b")), ""}, {"format", a(sv("%[0]s"), sv("a")), ""}, {"format", a(sv("%z"), sv("a")), ""}, {"format", a(sv("%#z"), sv("a")), ""},
		{"format", a(sv("%012z"), sv("a")), ""}, {"format", a(sv("%\u2620"), sv("a")), ""}, {"format", a(sv("%"), sv("a")), ""}, {"format", a(sv("a%"), sv("a")), ""}, {"format", a(sv("no verbs"), sv("a")), ""},
		{"format", a(sv("%[1]s%[1]s"), sv("a")), ""}, {"format", a(sv("%s"), cty.ListVal([]cty.Value{sv("a")})), ""},
		{"formatlist", a(sv("%s")), ""}, {"formatlist", a(sv("100%%")), ""}, {"formatlist", a(sv("%s"), ls("a", "b")), ""}, {"formatlist", a(sv("%s-%s"), ls("a", "b"), sv("x")), ""},
		{"formatlist", a(sv("%s-%d"), ls("a", "b"), cty.TupleVal([]cty.Value{n(1), n(2)})), ""}, {"formatlist", a(sv("%s-%s"), ls("a", "b"), ls("c")), "length mismatch"}, {"formatlist", a(sv("%s"), ls()), ""},
		{"formatlist", a(sv("%z"), ls()), "empty sequence with a bad verb: unpinned"}, {"formatlist", a(sv("%s"), sv("x")), "no sequences: one element"}, {"formatlist", a(sv("%v"), cty.NullVal(cty.List(cty.String))), ""},
		{"formatlist", a(sv("%s"), cty.SetVal([]cty.Value{sv("m")})), ""}, {"formatlist", a(sv("%d"), ls("a")), ""}, {"formatlist", a(sv("%v"), cty.MapVal(map[string]cty.Value{"k": n(1)})), "map is a single value"},
		{"formatlist", a(sv("%s %s"), ls("a", "b")), "not enough arguments"},

		// --- JSON / CSV ---
		{"jsonencode", a(cty.ObjectVal(map[string]cty.Value{"b": n(1), "a": sv("<x>&\u2028"), "c": cty.TupleVal([]cty.Value{cty.True, cty.NullVal(cty.DynamicPseudoType)})})), "json-representable"},
		{"jsonencode", a(cty.NullVal(cty.DynamicPseudoType)), "json-representable"}, {"jsonencode", a(cty.NullVal(cty.String)), ""}, {"jsonencode", a(sv("")), "json-representable"}, {"jsonencode", a(fl(0.1)), "json-representable"},
		{"jsonencode", a(pn("0.1")), "json-representable"}, {"jsonencode", a(fl(1e300)), "json-representable"}, {"jsonencode", a(fl(1e23)), "json-representable"}, {"jsonencode", a(pn("1e300")), "json-representable"},
		{"jsonencode", a(fl(math.SmallestNonzeroFloat64)), "json-representable"}, {"jsonencode", a(fl(math.Copysign(0, -1))), "json-representable"}, {"jsonencode", a(cty.PositiveInfinity), ""},
		{"jsonencode", a(cty.TupleVal([]cty.Value{cty.NegativeInfinity})), ""}, {"jsonencode", a(cty.EmptyObjectVal), "json-representable"}, {"jsonencode", a(cty.EmptyTupleVal), "json-representable"},
		{"jsonencode", a(cty.ListValEmpty(cty.String)), ""}, {"jsonencode", a(cty.MapVal(map[string]cty.Value{"b": n(2), "a": n(1), "\u00e9": n(3)})), ""}, {"jsonencode", a(cty.SetVal([]cty.Value{sv("b"), sv("a")})), ""},
		{"jsonencode", a(n(math.MaxInt64)), "json-representable"}, {"jsonencode", a(pn("18446744073709551616")), "json-representable"}, {"jsonencode", a(sv("\x00\x1f\x7f\"\\/")), "json-representable"},
		{"jsondecode", a(sv("{\"a\":1,\"b\":[true,false,null],\"c\":{\"d\":\"e\"}}")), ""}, {"jsondecode", a(sv("null")), ""}, {"jsondecode", a(sv(" [ 1 , 2 ] ")), ""}, {"jsondecode", a(sv("1 2")), ""},
		{"jsondecode", a(sv("")), ""}, {"jsondecode", a(sv("[1,]")), ""}, {"jsondecode", a(sv("{\"a\":1,}")), ""}, {"jsondecode", a(sv("{\"a\":1,\"a\":2}")), "repeated key: unpinned"}, {"jsondecode", a(sv("\"\\ud83d\\ude00\"")), ""},
		{"jsondecode", a(sv("\"\\ud800\"")), ""}, {"jsondecode", a(sv("\"e\\u0301\"")), ""}, {"jsondecode", a(sv("1e2")), ""}, {"jsondecode", a(sv("-0")), ""}, {"jsondecode", a(sv("01")), ""}, {"jsondecode", a(sv("1.")), ""},
		{"jsondecode", a(sv("0.30000000000000004")), ""}, {"jsondecode", a(sv("123456789012345678901234567890")), ""}, {"jsondecode", a(sv("[] []")), ""}, {"jsondecode", a(sv("{} x")), ""}, {"jsondecode", a(sv("true false")), ""},
		{"jsondecode", a(sv("NaN")), ""}, {"jsondecode", a(sv("[[[[[[[[[[]]]]]]]]]]")), ""}, {"jsondecode", a(sv("\ufeff1")), ""},
		{"csvdecode", a(sv("a,b\n1,2\n")), ""}, {"csvdecode", a(sv("a,b\n1,2")), ""}, {"csvdecode", a(sv("a,b\r\n1,2\r\n")), ""}, {"csvdecode", a(sv("")), ""}, {"csvdecode", a(sv("a,b")), ""}, {"csvdecode", a(sv("a,a\n1,2")), ""},
		{"csvdecode", a(sv("a,b\n1")), ""}, {"csvdecode", a(sv("a,b\n1,2,3")), ""}, {"csvdecode", a(sv("a,b\n\"1,2")), ""}, {"csvdecode", a(sv("a,b\n\"x\ny\",\"q\"\"\"\n")), ""}, {"csvdecode", a(sv("a,b\n\n1,2\n\n")), ""},
		{"csvdecode", a(sv(",\n,")), ""}, {"csvdecode", a(sv("\n")), ""}, {"csvdecode", a(sv("\u00e9,e\u0301\n1,2")), ""},

		// --- dates ---
		{"formatdate", a(sv("YYYY-MM-DD'T'hh:mm:ssZ"), sv("2006-01-02T15:04:05Z")), ""}, {"formatdate", a(sv("YYYY-MM-DD'T'hh:mm:ssZ"), sv("2006-01-02T15:04:05-08:00")), ""},
		{"formatdate", a(sv("EEE, DD MMM YYYY hh:mm:ss ZZZ"), sv("2006-01-02T15:04:05Z")), ""}, {"formatdate", a(sv("EEE, DD MMM YYYY hh:mm:ss ZZZ"), sv("2006-01-02T15:04:05+00:00")), ""},
		{"formatdate", a(sv("EEEE, DD-MMM-YY hh:mm:ss ZZZ"), sv("2006-01-02T15:04:05+05:30")), ""}, {"formatdate", a(sv("EEE, MMM D ''YY"), sv("2006-01-02T15:04:05Z")), ""}, {"formatdate", a(sv("H 'o''clock' AA"), sv("2006-01-02T00:04:05Z")), ""},
		{"formatdate", a(sv("H h HH hh aa AA"), sv("2006-01-02T12:00:00Z")), ""}, {"formatdate", a(sv("H h HH hh aa AA"), sv("2006-01-02T23:59:59Z")), ""}, {"formatdate", a(sv("M MM MMM MMMM D DD m mm s ss"), sv("2006-09-07T08:03:09Z")), ""},
		{"formatdate", a(sv("ZZZZ ZZZZZ Z ZZZ"), sv("2006-01-02T15:04:05-00:00")), ""}, {"formatdate", a(sv("ZZZZ ZZZZZ Z ZZZ"), sv("2006-01-02T15:04:05-23:59")), ""}, {"formatdate", a(sv("YYYY YY"), sv("0000-01-01T00:00:00Z")), ""},
		{"formatdate", a(sv("YYYY YY"), sv("0987-01-01T00:00:00Z")), ""}, {"formatdate", a(sv("YYYY"), sv("9999-12-31T23:59:59.999999999+23:59")), ""}, {"formatdate", a(sv("YYYYY"), sv("2006-01-02T15:04:05Z")), ""},
		{"formatdate", a(sv("A"), sv("2006-01-02T15:04:05Z")), ""}, {"formatdate", a(sv("'blah blah"), sv("2006-01-02T15:04:05Z")), ""}, {"formatdate", a(sv("'"), sv("2006-01-02T15:04:05Z")), ""}, {"formatdate", a(sv("x"), sv("2006-01-02T15:04:05Z")), ""},
		{"formatdate", a(sv(""), sv("2006-01-02T15:04:05Z")), ""}, {"formatdate", a(sv("\u00e9 1,-:/"), sv("2006-01-02T15:04:05Z")), ""}, {"formatdate", a(sv("YYYY"), sv("2006-01-02 15:04:05Z")), ""}, {"formatdate", a(sv("YYYY"), sv("2006-01-02T15:04:05")), ""},
		{"formatdate", a(sv("YYYY"), sv("2006-01-02T24:00:00Z")), ""}, {"formatdate", a(sv("YYYY"), sv("2006-13-02T00:00:00Z")), ""}, {"formatdate", a(sv("YYYY"), sv("2023-02-29T00:00:00Z")), ""}, {"formatdate", a(sv("DD"), sv("2000-02-29T00:00:00Z")), ""},
		{"formatdate", a(sv("DD"), sv("1900-02-29T00:00:00Z")), ""}, {"formatdate", a(sv("YYYY"), sv("2006-01-02T1:04:05Z")), ""}, {"formatdate", a(sv("YYYY"), sv("2006-01-02T15:04:05,5Z")), ""}, {"formatdate", a(sv("YYYY"), sv("2006-01-02T15:04:05+24:00")), ""},
		{"formatdate", a(sv("YYYY"), sv("2006-01-02T15:04:05+01:60")), ""}, {"formatdate", a(sv("YYYY"), sv("2006-01-02T15:04:60Z")), "leap second: unpinned"}, {"formatdate", a(sv("YYYY"), sv("2006-01-02t15:04:05z")), "lower case: unpinned"},
		{"formatdate", a(sv("YYYY"), sv("2006-01-02T15:04:05.Z")), ""}, {"formatdate", a(sv("ss"), sv("2006-01-02T15:04:05.123456789123Z")), ""}, {"formatdate", a(sv("YYYY"), sv("")), ""},
		{"timeadd", a(sv("2017-11-22T00:00:00Z"), sv("1s")), ""}, {"timeadd", a(sv("2017-11-22T00:00:00Z"), sv("10m1s")), ""}, {"timeadd", a(sv("2017-11-22T00:00:00Z"), sv("-1s")), ""}, {"timeadd", a(sv("2017-11-22T00:00:00+02:00"), sv("1.5h")), ""},
		{"timeadd", a(sv("2016-02-28T23:59:59Z"), sv("1s")), "leap day"}, {"timeadd", a(sv("2017-02-28T23:59:59Z"), sv("1s")), ""}, {"timeadd", a(sv("9999-12-31T23:59:59Z"), sv("1s")), "year 10000"}, {"timeadd", a(sv("0000-01-01T00:00:00Z"), sv("-1s")), "year -1"},
		{"timeadd", a(sv("2017-11-22T00:00:00.999999999Z"), sv("1ns")), ""}, {"timeadd", a(sv("2017-11-22T00:00:00Z"), sv("1d")), ""}, {"timeadd", a(sv("2017-11-22T00:00:00Z"), sv("")), ""}, {"timeadd", a(sv("2017-11-22 00:00:00Z"), sv("1s")), ""},
		{"timeadd", a(sv("2017-11-22T00:00:00Z"), sv("2562047h47m16.854775808s")), ""}, {"timeadd", a(sv("2017-11-22T00:00:00Z"), sv("1\u00b5s")), ""}, {"timeadd", a(sv("2017-11-22T00:00:00+00:00"), sv("0")), ""},
	}
	return cs
}

func runCorpus(c *core.Ctx, fns []fnDef, base int64) {
	byName := map[string]*fnDef{}
	for i := range fns {
		byName[fns[i].name] = &fns[i]
	}
	idx := base
	run := func(fn string, args []cty.Value, tags ...string) {
		i := idx
		idx++
		if !c.Want(i) {
			return
		}
		fd := byName[fn]
		if fd == nil {
			panic("corpus names an unknown function " + fn)
		}
		runCase(c, i, fd, tcase{args: args, tags: tags})
	}
	for _, cc := range corpus() {
		tag := "corpus"
		if cc.fn == "jsonencode" && cc.note == "json-representable" {
			run(cc.fn, cc.args, "json-representable", "corpus")
			continue
		}
		run(cc.fn, cc.args, tag)
	}
	c.Count("corpus:cases")

	// ---- complete enumerations of small sub-spaces ----
	strs := []string{"", "hello", "noe\u0308l", "we\u0301\u0301e\u0301\u0301!", "\U0001F44D\U0001F3FDa\U0001F1E9\U0001F1EA", "a\r\nb", "\u1100\u1161\u11a8x"}
	cnt := int64(0)
	for _, s := range strs {
		k := int64(len(clusters(s)))
		for off := -(k + 2); off <= k+2; off++ {
			for ln := int64(-2); ln <= k+2; ln++ {
				run("substr", []cty.Value{sv(s), n(off), n(ln)}, "enumerated")
				cnt++
			}
		}
	}
	c.Exhaustive(fmt.Sprintf("substr: %d fixed strings (ASCII, combining marks, emoji modifier, regional indicators, CRLF, Hangul jamo) x every offset in [-(len+2), len+2] x every length in [-2, len+2]: %d cases", len(strs), cnt))

	cnt = 0
	for _, s := range strs {
		for _, verb := range []string{"s", "q", "v"} {
			for _, fl := range []string{"", "-", "0"} {
				for w := 0; w <= 8; w += 2 {
					for p := -1; p <= 4; p++ {
						f := "%" + fl
						if w > 0 {
							f += fmt.Sprint(w)
						}
						if p >= 0 {
							f += fmt.Sprintf(".%d", p)
						}
						run("format", []cty.Value{sv(f + verb + "|"), sv(s)}, "enumerated")
						cnt++
					}
				}
			}
		}
	}
	c.Exhaustive(fmt.Sprintf("format %%s/%%q/%%v on %d fixed strings x flags {none,-,0} x width {none,2,4,6,8} x precision {none,0..4}: %d cases", len(strs), cnt))

	cnt = 0
	for _, nc := range gen.NumberPool() {
		for _, fn := range []string{"ceil", "floor", "int", "signum", "abs", "negate"} {
			run(fn, []cty.Value{nc.V}, "enumerated", nc.Class)
			cnt++
		}
	}
	c.Exhaustive(fmt.Sprintf("ceil/floor/int/signum/abs/negate on every member of the number pool (%d numbers): %d cases", len(gen.NumberPool()), cnt))

	cnt = 0
	for _, v := range boundaryFractions() {
		for _, fn := range []string{"ceil", "floor", "int", "signum", "abs", "negate"} {
			run(fn, []cty.Value{v}, "enumerated", "boundary-fraction")
			cnt++
		}
		for _, fn := range []string{"min", "max", "add", "subtract", "multiply", "divide", "modulo", "lt", "gte"} {
			run(fn, []cty.Value{v, fl(0.5)}, "enumerated", "boundary-fraction")
			run(fn, []cty.Value{n(1), v}, "enumerated", "boundary-fraction")
			cnt += 2
		}
		run("format", []cty.Value{sv("%d|%f|%v"), v, v, v}, "enumerated", "boundary-fraction")
		cnt++
	}
	c.Exhaustive(fmt.Sprintf("boundary fractions: +-{2^31,2^32,2^53,2^63,2^64,2^127,10^18,10^19,10^30} + {0,+-0.25,+-0.5,+-1,+-1.5} (parsed at 512 bits and via arithmetic) and B*(1+-2^-70), %d numbers x 6 unary and 9 binary number functions and format %%d/%%f/%%v: %d cases", len(boundaryFractions()), cnt))

	cnt = 0
	small := []cty.Value{n(0), n(1), n(-1), n(2), n(-7), n(7), fl(0.5), fl(-0.5), fl(2.5), pn("0.1"), cty.PositiveInfinity, cty.NegativeInfinity, fl(math.Copysign(0, -1)), pn("1e30"), n(math.MaxInt64)}
	for _, x := range small {
		for _, y := range small {
			for _, fn := range []string{"add", "subtract", "multiply", "divide", "modulo", "lt", "lte", "gt", "gte", "min", "max", "log", "pow"} {
				run(fn, []cty.Value{x, y}, "enumerated")
				cnt++
			}
		}
	}
	c.Exhaustive(fmt.Sprintf("13 binary number functions on all pairs of %d boundary numbers: %d cases", len(small), cnt))

	cnt = 0
	verbs := []string{"v", "t", "d", "b", "o", "x", "X", "e", "E", "f", "g", "G", "s", "q", "z"}
	vals := []cty.Value{sv("ab"), sv("12"), sv("true"), sv(""), n(42), n(-42), fl(2.5), fl(-0.125), cty.True, cty.False, cty.NullVal(cty.String), cty.NullVal(cty.DynamicPseudoType),
		cty.PositiveInfinity, pn("123456789012345678901234567890"), cty.EmptyTupleVal, ls("a"), cty.ObjectVal(map[string]cty.Value{"k": n(1)})}
	for _, vb := range verbs {
		for _, fl := range []string{"", "+", " ", "#", "0", "-"} {
			for _, wp := range []string{"", "7", ".2", "7.2", ".0"} {
				for _, v := range vals {
					run("format", []cty.Value{sv("%" + fl + wp + vb + "|"), v}, "enumerated")
					cnt++
				}
			}
		}
	}
	c.Exhaustive(fmt.Sprintf("format: every verb letter x single flag {none,+,space,#,0,-} x {none, width 7, .2, 7.2, .0} x %d argument values of every kind: %d cases", len(vals), cnt))
}
