package c14

import (
	"fmt"
	"regexp"
	"strconv"
	"strings"
	"time"

	"github.com/zclconf/go-cty/cty"
	"github.com/zclconf/go-cty/cty/function/stdlib"

	"verif/harness/core"
)

// ---------- RFC 3339 ----------

var reRFC3339 = regexp.MustCompile(`^([0-9]{4})-([0-9]{2})-([0-9]{2})([Tt])([0-9]{2}):([0-9]{2}):([0-9]{2})(\.[0-9]+)?([Zz]|[+-][0-9]{2}:[0-9]{2})$`)

const (
	tsValid = iota
	tsInvalid
	tsUnpinned
)

// classifyTimestamp decides, from the RFC 3339 grammar (section 5.6) alone, whether s is a
// timestamp. Things the RFC allows but the time package cannot represent or cty's documentation
// does not mention (lower-case t/z, leap second 60) are unpinned.
func classifyTimestamp(s string) (int, string) {
	m := reRFC3339.FindStringSubmatch(s)
	if m == nil {
		return tsInvalid, "not in the RFC 3339 date-time grammar"
	}
	atoi := func(x string) int { n, _ := strconv.Atoi(x); return n }
	year, month, day := atoi(m[1]), atoi(m[2]), atoi(m[3])
	hour, minute, sec := atoi(m[5]), atoi(m[6]), atoi(m[7])
	if month < 1 || month > 12 {
		return tsInvalid, "month out of range"
	}
	dim := []int{31, 28, 31, 30, 31, 30, 31, 31, 30, 31, 30, 31}[month-1]
	if month == 2 && year%4 == 0 && (year%100 != 0 || year%400 == 0) {
		dim = 29
	}
	if day < 1 || day > dim {
		return tsInvalid, "day out of range"
	}
	if hour > 23 {
		return tsInvalid, "hour out of range"
	}
	if minute > 59 {
		return tsInvalid, "minute out of range"
	}
	if sec > 60 {
		return tsInvalid, "second out of range"
	}
	if z := m[9]; len(z) == 6 {
		if atoi(z[1:3]) > 23 {
			return tsInvalid, "offset hour out of range"
		}
		if atoi(z[4:6]) > 59 {
			return tsInvalid, "offset minute out of range"
		}
	}
	if sec == 60 {
		return tsUnpinned, "leap-second"
	}
	if m[4] == "t" || m[9] == "z" {
		return tsUnpinned, "lower-case-t-or-z"
	}
	return tsValid, ""
}

// parseTimestampRef: validity by classifyTimestamp, the instant by the time package.
func parseTimestampRef(s string) (time.Time, int, string) {
	st, why := classifyTimestamp(s)
	if st != tsValid {
		return time.Time{}, st, why
	}
	t, err := time.Parse(time.RFC3339Nano, s)
	if err != nil {
		return time.Time{}, tsUnpinned, "time.Parse-rejects-a-grammatical-timestamp"
	}
	return t, tsValid, ""
}

func genTimestamp(r *core.Rand) (string, string) {
	year := []int{1970, 2000, 2006, 2024, 1900, 2100, 1999, 9999, 1, 0, 1600, 2023}[r.Intn(12)]
	if r.Chance(1, 3) {
		year = r.Intn(10000)
	}
	month := 1 + r.Intn(12)
	dim := []int{31, 28, 31, 30, 31, 30, 31, 31, 30, 31, 30, 31}[month-1]
	leap := year%4 == 0 && (year%100 != 0 || year%400 == 0)
	if month == 2 && leap {
		dim = 29
	}
	day := 1 + r.Intn(dim)
	if r.Chance(1, 5) {
		day = dim
	}
	if r.Chance(1, 8) {
		month, day = 2, 28
		if leap {
			day = 29
		}
	}
	hour, minute, sec := r.Intn(24), r.Intn(60), r.Intn(60)
	switch r.Intn(8) {
	case 0:
		hour, minute, sec = 0, 0, 0
	case 1:
		hour, minute, sec = 23, 59, 59
	case 2:
		hour = 12
	}
	frac := ""
	if r.Chance(1, 3) {
		n := 1 + r.Intn(12)
		var sb strings.Builder
		sb.WriteByte('.')
		for i := 0; i < n; i++ {
			sb.WriteByte(byte('0' + r.Intn(10)))
		}
		frac = sb.String()
	}
	zone := "Z"
	switch r.Intn(6) {
	case 0:
		zone = pick(r, []string{"+00:00", "-00:00"})
	case 1, 2:
		zone = fmt.Sprintf("%c%02d:%02d", "+-"[r.Intn(2)], r.Intn(24), []int{0, 30, 45, 59, 15}[r.Intn(5)])
	case 3:
		zone = pick(r, []string{"+14:00", "-12:00", "+05:30", "+05:45", "-08:00", "+23:59", "-23:59"})
	}
	s := fmt.Sprintf("%04d-%02d-%02dT%02d:%02d:%02d%s%s", year, month, day, hour, minute, sec, frac, zone)
	tag := "timestamp-valid"
	if r.Chance(1, 6) {
		tag = "timestamp-mutated"
		b := []byte(s)
		switch r.Intn(16) {
		case 0:
			s = strings.Replace(s, "T", " ", 1)
		case 1:
			s = strings.Replace(s, "T", "t", 1)
		case 2:
			s = s[:19] + frac // zone dropped
		case 3:
			s = s[:10] // date only
		case 4:
			s = fmt.Sprintf("%04d-%02d-%02dT24:00:00Z", year, month, day)
		case 5:
			s = fmt.Sprintf("%04d-13-%02dT%02d:%02d:%02dZ", year, day, hour, minute, sec)
		case 6:
			s = fmt.Sprintf("%04d-%02d-%02dT%02d:%02d:%02dZ", year, month, dim+1, hour, minute, sec)
		case 7:
			s = fmt.Sprintf("%04d-%02d-%02dT%02d:60:%02dZ", year, month, day, hour, sec)
		case 8:
			s = fmt.Sprintf("%04d-%02d-%02dT%02d:%02d:60Z", year, month, day, hour, minute)
		case 9:
			s = fmt.Sprintf("%04d-%02d-%02dT%02d:%02d:%02d%c%02d:%02d", year, month, day, hour, minute, sec, "+-"[r.Intn(2)], 24+r.Intn(3), r.Intn(60))
		case 10:
			s = fmt.Sprintf("%04d-%02d-%02dT%02d:%02d:%02d%c%02d:%02d", year, month, day, hour, minute, sec, "+-"[r.Intn(2)], r.Intn(24), 60+r.Intn(40))
		case 11:
			s = fmt.Sprintf("%04d-%02d-%02dT%d:%02d:%02dZ", year, month, day, hour%10, minute, sec) // one-digit hour
		case 12:
			s = fmt.Sprintf("%04d-%02d-%02dT%02d:%02d:%02d,5Z", year, month, day, hour, minute, sec) // comma fraction
		case 13:
			s = strings.TrimSuffix(s, "Z") + "z"
		case 14:
			i := r.Intn(len(b))
			b[i] = "x-:0 9TZ+."[r.Intn(10)]
			s = string(b)
		default:
			s = pick(r, []string{"", "now", "2006-01-02", "2006-01-02T15:04:05", "2006-01-02T15:04:05.Z", "06-01-02T15:04:05Z", "2006-1-2T15:04:05Z", "2006-01-02T15:04Z", "2006-01-02T15:04:05+0100", "2006-01-02T15:04:05+01", "2006-01-02T15:04:05Z ", " 2006-01-02T15:04:05Z", "2006-01-02T15:04:05ZZ", "2006-01-02T15:04:05 Z", "Mon, 02 Jan 2006 15:04:05 MST", "2006-01-02T15:04:05+01:00Z", "20060102T150405Z", "2006-00-10T00:00:00Z", "2006-01-00T00:00:00Z", "2023-02-29T00:00:00Z", "1900-02-29T00:00:00Z", "2000-02-29T00:00:00Z"})
		}
	}
	return s, tag
}

// ---------- formatdate ----------

var dateVerbs = []string{"YY", "YYYY", "M", "MM", "MMM", "MMMM", "D", "DD", "EEE", "EEEE", "h", "hh", "H", "HH", "AA", "aa", "m", "mm", "s", "ss", "ZZZZ", "ZZZZZ", "Z", "ZZZ"}
var dateBadVerbs = []string{"Y", "YYY", "YYYYY", "MMMMM", "DDD", "E", "EE", "EEEEE", "hhh", "HHH", "A", "AAA", "a", "aaa", "mmm", "sss", "ZZ", "ZZZZZZ", "x", "T", "d", "y", "S", "n", "z", "e", "am", "PM"}
var dateLiterals = []string{"-", ":", " ", "/", ".", ",", "1", "2006", "", "\u00e9", "\U0001F44D\U0001F3FD", "(", ")", "+", "%", "\n", "\\", "\""}
var dateQuoted = []string{"'T'", "'at'", "'o''clock'", "''", "'Z'", "' '", "'a''b''c'", "'''x'", "'x'''", "''''", "'YYYY'", "'\u00e9'"}
var dateBadQuoted = []string{"'", "'T", "'''", "'abc''", "'' '"}

func genDateFormat(r *core.Rand) (string, string) {
	if r.Chance(1, 10) {
		return pick(r, []string{"YYYY-MM-DD'T'hh:mm:ssZ", "EEE, DD MMM YYYY hh:mm:ss ZZZ", "EEEE, DD-MMM-YY hh:mm:ss ZZZ", "MMM D, YYYY", "H 'o''clock' AA", "h:mm:ss aa", "EEE, MMM D ''YY", "YYYYMMDDhhmmss", "", "D/M/YY"}), "dateformat-common"
	}
	n := r.Intn(7)
	var sb strings.Builder
	tag := "dateformat-valid"
	for i := 0; i < n; i++ {
		switch r.Intn(12) {
		case 0, 1, 2, 3, 4:
			sb.WriteString(pick(r, dateVerbs))
		case 5, 6, 7:
			sb.WriteString(pick(r, dateLiterals))
		case 8, 9:
			sb.WriteString(pick(r, dateQuoted))
		case 10:
			if r.Chance(1, 2) {
				sb.WriteString(pick(r, dateBadVerbs))
				tag = "dateformat-with-bad-verb"
			} else {
				sb.WriteString(pick(r, dateLiterals))
			}
		default:
			if r.Chance(1, 3) {
				sb.WriteString(pick(r, dateBadQuoted))
				tag = "dateformat-with-bad-quote"
			} else {
				sb.WriteString(pick(r, dateLiterals))
			}
		}
	}
	return sb.String(), tag
}

func genFormatDate(r *core.Rand) tcase {
	f, ft := genDateFormat(r)
	ts, tt := genTimestamp(r)
	return tcase{args: []cty.Value{sv(f), sv(ts)}, tags: []string{ft, tt}}
}

func isASCIILetter(b byte) bool { return b >= 'a' && b <= 'z' || b >= 'A' && b <= 'Z' }

// renderDateFormat is the reference: the verb table of the doc comment of stdlib.FormatDate,
// each verb mapped to a time.Format layout; letters are verbs (a run of one letter), '...'
// quotes literal text with ” standing for one quote (inside and outside quotes); everything
// else is literal. ok=false: not a valid format string.
func renderDateFormat(f string, t time.Time) (string, bool, string) {
	layouts := map[string]string{
		"YY": "06", "YYYY": "2006", "M": "1", "MM": "01", "MMM": "Jan", "MMMM": "January", "D": "2", "DD": "02",
		"EEE": "Mon", "EEEE": "Monday", "hh": "15", "H": "3", "HH": "03", "AA": "PM", "aa": "pm",
		"m": "4", "mm": "04", "s": "5", "ss": "05", "ZZZZ": "-0700", "ZZZZZ": "-07:00", "Z": "Z07:00",
	}
	var sb strings.Builder
	for i := 0; i < len(f); {
		c := f[i]
		switch {
		case c == '\'':
			if i+1 < len(f) && f[i+1] == '\'' {
				sb.WriteByte('\'')
				i += 2
				continue
			}
			j := i + 1
			closed := false
			for j < len(f) {
				if f[j] == '\'' {
					if j+1 < len(f) && f[j+1] == '\'' {
						sb.WriteByte('\'')
						j += 2
						continue
					}
					closed = true
					j++
					break
				}
				sb.WriteByte(f[j])
				j++
			}
			if !closed {
				return "", false, "unterminated-quote"
			}
			i = j
		case isASCIILetter(c):
			j := i
			for j < len(f) && f[j] == c {
				j++
			}
			verb := f[i:j]
			i = j
			switch verb {
			case "h":
				sb.WriteString(strconv.Itoa(t.Hour()))
			case "ZZZ":
				if _, off := t.Zone(); off == 0 {
					sb.WriteString("UTC")
				} else {
					sb.WriteString(t.Format("-0700"))
				}
			default:
				l, ok := layouts[verb]
				if !ok {
					return "", false, "unknown-verb"
				}
				sb.WriteString(t.Format(l))
			}
		default:
			sb.WriteByte(c)
			i++
		}
	}
	return sb.String(), true, ""
}

func refFormatDate(args []cty.Value) expect {
	f, ts := args[0].AsString(), args[1].AsString()
	t, st, why := parseTimestampRef(ts)
	_, fok, fwhy := renderDateFormat(f, time.Date(2006, 1, 2, 15, 4, 5, 0, time.UTC))
	switch {
	case st == tsInvalid:
		return failure("timestamp: "+why, "invalid-timestamp")
	case !fok:
		return failure("format string: "+fwhy, "invalid-format-"+fwhy)
	case st == tsUnpinned:
		return free("timestamp-" + why)
	}
	out, _, _ := renderDateFormat(f, t)
	class := "utc"
	if _, off := t.Zone(); off != 0 {
		class = "offset"
	}
	return value(sv(out), class)
}

// ---------- timeadd ----------

func genDuration(r *core.Rand) (string, string) {
	if r.Chance(1, 8) {
		return pick(r, []string{"", "1", "h", "1d", "1w", "1 h", " 1h", "1h ", "1.h", ".5h", "1..5h", "--1h", "+-1h", "1H", "1hr", "1m1", "9999999h", "-9999999h", "2562047h47m16.854775807s", "2562047h47m16.854775808s", "0", "+0", "-0", "1e3s", "0x10s", "\u0661h"}), "duration-odd"
	}
	units := []string{"h", "m", "s", "ms", "us", "\u00b5s", "\u03bcs", "ns"}
	n := 1 + r.Intn(3)
	var sb strings.Builder
	if r.Chance(1, 3) {
		sb.WriteByte("-+"[r.Intn(2)])
	}
	for i := 0; i < n; i++ {
		switch r.Intn(5) {
		case 0:
			fmt.Fprintf(&sb, "%d.%d", r.Intn(100), r.Intn(1000))
		case 1:
			fmt.Fprintf(&sb, "%d", r.Intn(100000))
		default:
			fmt.Fprintf(&sb, "%d", r.Intn(60))
		}
		sb.WriteString(units[r.Intn(len(units))])
	}
	if r.Chance(1, 12) {
		// far enough to cross year boundaries and the year 0 / 9999 ends
		fmt.Fprintf(&sb, "%dh", r.Intn(2000000))
	}
	return sb.String(), "duration-grammar"
}

func genTimeAdd(r *core.Rand) tcase {
	ts, tt := genTimestamp(r)
	d, dt := genDuration(r)
	return tcase{args: []cty.Value{sv(ts), sv(d)}, tags: []string{tt, dt}}
}

func refTimeAdd(args []cty.Value) expect {
	ts, ds := args[0].AsString(), args[1].AsString()
	t, st, why := parseTimestampRef(ts)
	d, derr := time.ParseDuration(ds)
	switch {
	case st == tsInvalid:
		return failure("timestamp: "+why, "invalid-timestamp")
	case derr != nil:
		return failure("time.ParseDuration rejects the duration", "invalid-duration")
	case st == tsUnpinned:
		return free("timestamp-" + why)
	}
	class := "positive"
	if d < 0 {
		class = "negative"
	}
	if _, off := t.Zone(); off != 0 {
		class += ",offset"
	}
	return value(sv(t.Add(d).Format(time.RFC3339)), class)
}

func dateFns() []fnDef {
	return []fnDef{
		{"formatdate", stdlib.FormatDateFunc, genFormatDate, refFormatDate},
		{"timeadd", stdlib.TimeAddFunc, genTimeAdd, refTimeAdd},
	}
}
