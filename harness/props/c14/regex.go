package c14

import (
	"fmt"
	"regexp"
	"strings"

	"github.com/zclconf/go-cty/cty"
	"github.com/zclconf/go-cty/cty/function/stdlib"

	"verif/harness/core"
)

// ---------- pattern generator: a small RE2 grammar ----------

var reLiterals = []string{"a", "b", "ab", "c", "1", "2", "-", " ", "\u00e9", "x\u0301", "\U0001F44D\U0001F3FD", "\\.", "\\d", "\\w", "\\s", ".", "[a-c]", "[^a]", "\\pL", "[0-9]", "\\b"}

var reSubjects = []string{"a", "b", "ab", "c", "1", "2", "12", "-", " ", "\u00e9", "x\u0301", "\U0001F44D\U0001F3FD", ".", "abc", "z", "\n"}

type reGenState struct {
	named, unnamed int
	mode           int // 0 = no groups, 1 = unnamed only, 2 = named only, 3 = mixed (outside the domain)
}

func genReAtom(r *core.Rand, st *reGenState, depth int) string {
	if depth < 2 && r.Chance(1, 3) && st.mode != 0 {
		inner := genReSeq(r, st, depth+1)
		useNamed := st.mode == 2 || (st.mode == 3 && r.Bool())
		switch {
		case r.Chance(1, 6):
			return "(?:" + inner + ")"
		case useNamed:
			st.named++
			return fmt.Sprintf("(?P<%s>%s)", []string{"n", "m", "key", "a1", "_x", "Z"}[(st.named-1)%6]+strings.Repeat("x", (st.named-1)/6), inner)
		default:
			st.unnamed++
			return "(" + inner + ")"
		}
	}
	return pick(r, reLiterals)
}

func genReSeq(r *core.Rand, st *reGenState, depth int) string {
	n := 1 + r.Intn(3)
	var sb strings.Builder
	for i := 0; i < n; i++ {
		sb.WriteString(genReAtom(r, st, depth))
		switch r.Intn(9) {
		case 0:
			sb.WriteString("*")
		case 1:
			sb.WriteString("+")
		case 2:
			sb.WriteString("?")
		case 3:
			sb.WriteString("{1,2}")
		}
		if r.Chance(1, 8) {
			sb.WriteString("|")
			sb.WriteString(genReAtom(r, st, depth))
		}
	}
	return sb.String()
}

func genPattern(r *core.Rand) (string, string) {
	if r.Chance(1, 14) {
		return pick(r, []string{"(", ")", "a**", "[a", "(?P<n>a", "\\", "a{2,1}", "(?P<1>a)", "(?P<n>a)(?P<n>b)", "*a", "(?i", "\\pX", "[z-a]", "a{1001}"}), "pattern-invalid"
	}
	st := &reGenState{mode: r.Weighted([]int{4, 5, 5, 1})}
	p := genReSeq(r, st, 0)
	if r.Chance(1, 6) {
		p = "^" + p
	}
	if r.Chance(1, 6) {
		p += "$"
	}
	if r.Chance(1, 10) {
		p = "(?i)" + p
	}
	tag := []string{"pattern-no-groups", "pattern-unnamed-groups", "pattern-named-groups", "pattern-mixed-groups"}[st.mode]
	return p, tag
}

func genSubject(r *core.Rand) string {
	n := r.Intn(7)
	var sb strings.Builder
	for i := 0; i < n; i++ {
		sb.WriteString(pick(r, reSubjects))
	}
	return sb.String()
}

func genRegex(r *core.Rand) tcase {
	p, t := genPattern(r)
	subj := genSubject(r)
	// generator-side only: prefer a subject the pattern matches (otherwise most cases of "regex"
	// would be the no-match error)
	if re, err := regexp.Compile(p); err == nil && r.Chance(5, 6) {
		for i := 0; i < 12 && !re.MatchString(subj); i++ {
			subj = genSubject(r)
		}
		if re.MatchString(subj) {
			t += ",subject-matches"
		} else {
			t += ",subject-does-not-match"
		}
	}
	return tcase{args: []cty.Value{sv(p), sv(subj)}, tags: []string{t}}
}

func genRegexReplace(r *core.Rand) tcase {
	p, t := genPattern(r)
	rep := ""
	for i := r.Intn(4); i > 0; i-- {
		rep += pick(r, []string{"x", "-", "$0", "$1", "${1}", "$2", "${n}", "$n", "$$", "$", "${", "\u0301", "\\1", "$1x", "${key}"})
	}
	return tcase{args: []cty.Value{sv(genSubject(r)), sv(p), sv(rep)}, tags: []string{t}}
}

// ---------- references (Go regexp is the documented engine) ----------

// reShape decides the documented result shape of a pattern: the element type
// and, for object results, the group names.
func reShape(re *regexp.Regexp) (ty cty.Type, names []string, mixed bool) {
	all := re.SubexpNames()[1:]
	named, unnamed := 0, 0
	for _, n := range all {
		if n == "" {
			unnamed++
		} else {
			named++
		}
	}
	switch {
	case named == 0 && unnamed == 0:
		return cty.String, nil, false
	case named > 0 && unnamed > 0:
		return cty.NilType, nil, true
	case unnamed > 0:
		tys := make([]cty.Type, unnamed)
		for i := range tys {
			tys[i] = cty.String
		}
		return cty.Tuple(tys), nil, false
	}
	at := map[string]cty.Type{}
	for _, n := range all {
		at[n] = cty.String
	}
	return cty.Object(at), all, false
}

// reMatchValue builds the documented value of one match from the sub-match index pairs.
func reMatchValue(ty cty.Type, names []string, s string, loc []int) cty.Value {
	grp := func(i int) cty.Value {
		if loc[2*i] < 0 {
			return cty.NullVal(cty.String)
		}
		return sv(s[loc[2*i]:loc[2*i+1]])
	}
	switch {
	case ty == cty.String:
		return grp(0)
	case ty.IsTupleType():
		vs := make([]cty.Value, len(loc)/2-1)
		for i := range vs {
			vs[i] = grp(i + 1)
		}
		return cty.TupleVal(vs)
	}
	m := map[string]cty.Value{}
	for i, n := range names {
		m[n] = grp(i + 1)
	}
	return cty.ObjectVal(m)
}

func reClass(ty cty.Type) string {
	switch {
	case ty == cty.String:
		return "no-groups"
	case ty.IsTupleType():
		return "unnamed-groups"
	}
	return "named-groups"
}

func refRegex(all bool) func(args []cty.Value) expect {
	return func(args []cty.Value) expect {
		p, s := args[0].AsString(), args[1].AsString()
		re, err := regexp.Compile(p)
		if err != nil {
			return failure("pattern does not compile", "pattern-invalid")
		}
		ty, names, mixed := reShape(re)
		if mixed {
			return failure("named and unnamed capture groups mixed", "pattern-mixed-groups")
		}
		if !all {
			loc := re.FindStringSubmatchIndex(s)
			if loc == nil {
				return failure("pattern does not match", "no-match")
			}
			return value(reMatchValue(ty, names, s, loc), reClass(ty))
		}
		locs := re.FindAllStringSubmatchIndex(s, -1)
		if len(locs) == 0 {
			return value(cty.ListValEmpty(ty), reClass(ty)+",no-match")
		}
		vs := make([]cty.Value, len(locs))
		for i, loc := range locs {
			vs[i] = reMatchValue(ty, names, s, loc)
		}
		return value(cty.ListVal(vs), reClass(ty))
	}
}

func refRegexReplace(args []cty.Value) expect {
	s, p, rep := args[0].AsString(), args[1].AsString(), args[2].AsString()
	re, err := regexp.Compile(p)
	if err != nil {
		return failure("pattern does not compile", "pattern-invalid")
	}
	class := "plain-replacement"
	if strings.Contains(rep, "$") {
		class = "template-replacement"
	}
	return value(sv(re.ReplaceAllString(s, rep)), class)
}

func regexFns() []fnDef {
	return []fnDef{
		{"regex", stdlib.RegexFunc, genRegex, refRegex(false)},
		{"regexall", stdlib.RegexAllFunc, genRegex, refRegex(true)},
		{"regexreplace", stdlib.RegexReplaceFunc, genRegexReplace, refRegexReplace},
	}
}
