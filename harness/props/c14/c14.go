// Package c14: number, string, encoding and date functions of the stdlib match
// reference semantics (math/big, Go strings/regexp/fmt/encoding/json/
// encoding/csv/time, textseg grapheme segmentation) on wholly known arguments.
package c14

import (
	"fmt"
	"strings"

	"github.com/zclconf/go-cty/cty"
	"github.com/zclconf/go-cty/cty/function"

	"verif/harness/core"
	"verif/harness/mon"
)

type Driver struct{}

func (Driver) ID() string { return "C14" }

func (Driver) Info() core.Info {
	return core.Info{
		Title: "number, string, encoding and date functions match reference semantics",
		Rule: "case = (stdlib function, wholly known argument list); 45 functions (20 number, 15 string, 3 regex, format/formatlist, jsonencode/jsondecode/csvdecode, formatdate/timeadd), 2000 (quick) / 300000 (thorough) generated cases each. " +
			"Per function a dedicated generator draws the arguments: numbers from gen.NumberPool()/gen.Number (every magnitude/precision class, zeros, infinities), strings from random code points over gen.Alphabet41 and from a pool of " +
			"multi-code-point grapheme clusters (combining marks, emoji modifiers, ZWJ families, regional indicators, keycaps, Hangul jamo, CRLF), format strings from the documented verb grammar (flags, width, precision, [n] index, " +
			"unsupported verbs, malformed sequences) with arguments fitted to the verbs, regular expressions from a small RE2 grammar (named/unnamed/mixed groups, invalid patterns), JSON texts written by encoding/json then mutated, " +
			"JSON-representable and typed values, CSV texts written by encoding/csv plus odd texts, RFC 3339 timestamps (offsets, fractions, leap days, 16 kinds of invalid mutation), durations and date format strings from the verb table. " +
			"1 case in 64 replaces an argument by null (parameters that do not allow null). Batch 0 adds a fixed corpus (witnesses of every finding, transcribed boundary rows) and five completely enumerated sub-spaces. " +
			"Every call is made the way a caller holding a longer slice would make it (callerslice.go): the arguments are the first n elements of a backing array with two spare elements of the caller's own, and after the call every element " +
			"of that array must have the complete internal state (VerifFingerprint) recorded before it; one case in 4 is called a second time through the same slice and must answer as before, and for variadic functions one in 4 is followed by the longer form buf[:n+1] through the full oracle. " +
			"The real Function.Call runs next to an independent reference computation; the oracle is: error exactly where the reference says the input is outside the documented domain, otherwise the documented result type and a " +
			"model-equal result (numbers to the stated tolerance); for jsonencode additionally jsondecode(jsonencode(v)) = v. Inputs whose outcome the documentation does not pin are executed (no Go panic; substr results must still " +
			"be whole clusters) but not asserted and are counted under free:*. distinct = hash of (function, arguments); non-trivial = the reference asserted an outcome for the case",
		Assumptions: []string{
			"trusted base: math/big, math, strings, regexp, fmt, encoding/json, encoding/csv, time, unicode/utf8 of the Go standard library; textseg v15 grapheme segmentation; x/text NFC normalisation",
			"strings are valid UTF-8 (cty documents anything else as undefined); cty.StringVal normalises to NFC, references work on the NFC string and results are compared after NFC",
			"log/pow are compared with math.Log/math.Pow on the float64 rounding of the operands, tolerance 1 ulp; operands beyond the float64 range are not asserted",
			"arithmetic and comparison oracles are those of C02: exact when the exact result is an integer representable at the smaller operand precision, else relative error 2^-(p-2); lte/gte count two non-integers with the same shortest decimal text as a tie; modulo as a - b*trunc(a/b) with the C02 near-integer-quotient rule",
			"a function.PanicError returned for an input OUTSIDE the documented domain is an error and therefore not a C14 violation; it is logged as a cross-property note for C11",
			"lt/lte/gt/gte follow the doc comments of the Go wrappers and the table tests (lt(a,b) = a<b); their Description strings state the operands the other way round",
			"format: %v is asserted as the verb the documentation says it selects (%s, %g, %t, JSON); numbers are rendered by Go's fmt on *big.Int / *big.Float; widths and %s/%q precisions count grapheme clusters; '-' together with '0', a period without digits, precision on JSON output, the text of non-integer numbers under %s and string to bool from \"1\"/\"0\" are not pinned and not asserted",
			"jsonencode is compared through encoding/json: the result must parse to the value (a number text must denote the number at the number's own precision or be its shortest decimal text) and be byte-identical to encoding/json's compact re-encoding whenever that is NFC-stable; set members may come in any order",
			"RFC 3339 validity is decided from the grammar of RFC 3339 section 5.6; lower-case t/z and the leap second :60 are not asserted; the instant of a valid timestamp is taken from time.Parse",
		},
		MinNontrivial: 50000,
	}
}

func (Driver) Batches(tier string) int {
	if tier == "thorough" {
		return 64
	}
	return 16
}

// expectation kinds
const (
	expValue = iota // must succeed with a model-equal value of exactly that type
	expError        // must return an error (outside the documented domain)
	expFree         // the documentation does not pin the outcome: executed, never asserted (but must not Go-panic)
)

// expect is what the reference says about one argument list.
type expect struct {
	kind  int
	val   cty.Value                  // expValue: the reference result (its type is the documented result type)
	check func(got cty.Value) string // expValue: optional comparator replacing ModelEqual ("" = agrees)
	class string                     // narrow, stable input class (used in violation signatures)
	why   string                     // expFree: which unpinned clause; expError: which domain rule
	// inv (optional) is an invariant the property states for every outcome (e.g. "never splits a
	// grapheme cluster"); it is checked on successful results of unpinned cases too.
	inv func(got cty.Value) string
	// attribute (optional) is called when a composite result differs: it returns the narrower input
	// classes (e.g. the single format verbs) that reproduce a difference on their own.
	attribute func() []string
}

func value(v cty.Value, class string) expect { return expect{kind: expValue, val: v, class: class} }
func failure(why, class string) expect       { return expect{kind: expError, why: why, class: class} }
func free(why string) expect                 { return expect{kind: expFree, why: why, class: why} }

// tcase is a generated argument list plus the input classes it was drawn from.
type tcase struct {
	args []cty.Value
	tags []string
	// override replaces the function's reference (used for the generic "null argument" class)
	override *expect
}

type fnDef struct {
	name string
	fn   function.Function
	gen  func(r *core.Rand) tcase
	ref  func(args []cty.Value) expect
}

const (
	facetDiffers      = "result differs from the reference"
	facetType         = "result type differs from the documented type"
	facetErrInside    = "error inside the documented domain"
	facetNoError      = "no error outside the documented domain"
	facetUnknown      = "wholly known arguments gave a result that is not wholly known"
	facetInvariant    = "result splits a grapheme cluster of the input"
	facetSliceWritten = "the call wrote into the caller's argument slice (an element of its backing array is not the value the caller put there)"
	facetSecondCall   = "a second call through the same argument slice does not answer as the first call did"
)

func fmtArgs(a []cty.Value) string {
	p := make([]string, len(a))
	for i, v := range a {
		p[i] = fmt.Sprintf("%#v", v)
	}
	return strings.Join(p, ", ")
}

func allFns() []fnDef {
	var f []fnDef
	f = append(f, numberFns()...)
	f = append(f, stringFns()...)
	f = append(f, regexFns()...)
	f = append(f, formatFns()...)
	f = append(f, encodingFns()...)
	f = append(f, dateFns()...)
	return f
}

// nullAllowed: parameters documented to accept null (AllowNull); every other parameter of the
// functions under test rejects a null argument with an error before the implementation runs.
var nullAllowed = map[string]bool{"format": true, "formatlist": true, "jsonencode": true}

func (Driver) Run(c *core.Ctx) {
	fns := allFns()
	perFn := int64(c.N(60000, 2400000))
	nb := int64(c.NBatches)
	per := (perFn + nb - 1) / nb // cases per function in this batch
	for fi := range fns {
		fd := &fns[fi]
		for j := int64(0); j < per; j++ {
			idx := int64(fi)*per + j
			if !c.Want(idx) {
				continue
			}
			r := c.RNG(idx)
			tc := fd.gen(r)
			if !nullAllowed[fd.name] && len(tc.args) > 0 && r.Chance(1, 64) {
				i := r.Intn(len(tc.args))
				tc.args[i] = cty.NullVal(tc.args[i].Type())
				tc.tags = append(tc.tags, "null-argument")
				e := failure("null argument for a parameter that does not allow null", "null-argument")
				tc.override = &e
			}
			runCase(c, idx, fd, tc)
		}
	}
	if c.Batch == 0 {
		runCorpus(c, fns, 1_000_000_000)
	}
}

// runCase runs one case the way a caller holding a longer argument slice would (callerslice.go): the first call,
// the check of the caller's slice, and the follow-up calls through the same slice.
func runCase(c *core.Ctx, idx int64, fd *fnDef, tc tcase) {
	cs := newCallerSlice(fd, tc, idx)
	own := tc.args
	tc.args = cs.buf
	c.Begin(idx, func() string { return fd.name + "(" + fmtArgs(own) + ")" })
	got, err, settled := runCall(c, idx, fd, tc, own, "")
	cs.after(c, fd, own, "")
	if settled {
		cs.followUps(c, idx, fd, tc, own, got, err)
	}
}

// runCall makes one call next to the reference. tc.args is the slice the library is given; own holds the same
// values in a slice of the harness's own, which the reference and the witness use. settled reports that the call
// returned (value or error) without a Go panic.
func runCall(c *core.Ctx, idx int64, fd *fnDef, tc tcase, own []cty.Value, prefix string) (got cty.Value, err error, settled bool) {
	desc := func() string { return prefix + fd.name + "(" + fmtArgs(own) + ")" }
	site := "stdlib." + fd.name

	// reference first (it never touches the library function under test)
	var exp expect
	ro := core.Guard(func() {
		if tc.override != nil {
			exp = *tc.override
		} else {
			exp = fd.ref(own)
		}
	})
	if ro.Panicked {
		// a bug in the harness, not in the library: make it loud but distinguishable
		c.Violate(site, "HARNESS: reference panicked", "", desc(), ro.PanicMsg+"\n"+ro.Stack)
		return got, err, false
	}

	o := core.Guard(func() { got, err = fd.fn.Call(tc.args) })
	c.Eval(1)
	c.Count("fn:" + fd.name)
	for _, t := range tc.tags {
		c.Count("in:" + fd.name + ":" + t)
	}
	canon := desc()
	c.Distinct(canon, exp.kind != expFree)

	if o.Panicked {
		c.Violate(site, "panic: "+core.PanicClass(o.PanicMsg), exp.class, canon, "Go panic escaped Function.Call: "+o.PanicMsg+"\n"+o.Stack)
		return got, err, false
	}
	if pe, ok := err.(function.PanicError); ok {
		msg := fmt.Sprint(pe.Value)
		switch exp.kind {
		case expValue:
			c.Violate(site, "panic: "+core.PanicClass(msg), exp.class, canon,
				fmt.Sprintf("function.PanicError for an in-domain input (reference result %#v): %s", exp.val, msg))
		default:
			// outside the documented domain (or unpinned): an error is allowed by C14; totality is C11's subject
			c.Count("outside-domain:PanicError:" + fd.name)
			c.CrossNote("C11", site+": function.PanicError ("+core.PanicClass(msg)+") for input class "+exp.class, canon)
		}
		return got, err, true
	}

	switch exp.kind {
	case expFree:
		c.Count("free:" + fd.name + ":" + exp.why)
		if err != nil {
			c.Count("free-outcome:" + fd.name + ":" + exp.why + ":error")
		} else {
			c.Count("free-outcome:" + fd.name + ":" + exp.why + ":value")
			if exp.inv != nil {
				c.Count("oracle:invariant:" + fd.name)
				if why := exp.inv(got); why != "" {
					c.Violate(site, facetInvariant, exp.class, canon, fmt.Sprintf("result %#v; %s", got, why))
				}
			}
		}
	case expError:
		c.Count("oracle:error-expected:" + fd.name)
		if err == nil {
			c.Violate(site, facetNoError, exp.class, canon, fmt.Sprintf("returned %#v; the reference says this input is outside the documented domain (%s)", got, exp.why))
		}
	case expValue:
		c.Count("oracle:value-expected:" + fd.name)
		if err != nil {
			c.Violate(site, facetErrInside, exp.class, canon, fmt.Sprintf("error %q; reference result %#v", clipMsg(err.Error()), exp.val))
			break
		}
		if !got.IsWhollyKnown() {
			c.Violate(site, facetUnknown, exp.class, canon, fmt.Sprintf("result %#v", got))
			break
		}
		if !got.Type().Equals(exp.val.Type()) {
			c.Violate(site, facetType, exp.class, canon, fmt.Sprintf("result %#v has type %#v; documented type %#v (reference %#v)", got, got.Type(), exp.val.Type(), exp.val))
			break
		}
		differs, why := false, ""
		if exp.check != nil {
			why = exp.check(got)
			differs = why != ""
		} else {
			differs = !mon.ModelEqual(got, exp.val)
		}
		if differs {
			c.Count("oracle:differs:" + fd.name)
			detail := fmt.Sprintf("result %#v; reference %#v", got, exp.val)
			if why != "" {
				detail += "; " + why
			}
			classes := []string{exp.class}
			if exp.attribute != nil {
				if a := exp.attribute(); len(a) > 0 {
					classes = a
					detail += "; verbs that differ on their own: " + strings.Join(a, " ")
				}
			}
			for _, cl := range classes {
				c.Violate(site, facetDiffers, cl, canon, detail)
			}
		}
	}
	if err == nil {
		if w := mon.WellFormed(got); w != "" {
			c.CrossNote("C06", site+": "+w, canon)
		}
		if e := cty.VerifWellFormed(got); e != nil {
			c.CrossNote("C06", site+": (hook) "+e.Error(), canon)
		}
	}
	if fd.name == "jsonencode" && tc.override == nil {
		representable := len(tc.tags) > 0 && tc.tags[0] == "json-representable"
		roundTrip(c, own[0], representable)
	}
	if c.WantSample() && exp.kind == expValue && err == nil {
		c.Sample(map[string]any{"fn": fd.name, "args": fmtArgs(own), "result": fmt.Sprintf("%#v", got), "reference": fmt.Sprintf("%#v", exp.val)})
	}
	return got, err, true
}

func clipMsg(s string) string {
	if len(s) > 300 {
		return s[:300] + "..."
	}
	return s
}
