package c14

import (
	"fmt"
	"math/big"
	"strings"
	"unicode/utf8"

	"github.com/apparentlymart/go-textseg/v15/textseg"
	"github.com/zclconf/go-cty/cty"
	"github.com/zclconf/go-cty/cty/function/stdlib"

	"verif/harness/core"
	"verif/harness/gen"
)

// ---------- grapheme helpers (trusted base: textseg) ----------

// clusters splits s into its grapheme clusters.
func clusters(s string) []string {
	toks, _ := textseg.AllTokens([]byte(s), textseg.ScanGraphemeClusters)
	out := make([]string, len(toks))
	for i, t := range toks {
		out[i] = string(t)
	}
	return out
}

// strKind is the input class of a string.
func strKind(s string) string {
	if s == "" {
		return "empty"
	}
	ascii := true
	for i := 0; i < len(s); i++ {
		if s[i] >= 0x80 {
			ascii = false
			break
		}
	}
	multi := false
	for _, c := range clusters(s) {
		if utf8.RuneCountInString(c) > 1 {
			multi = true
			break
		}
	}
	switch {
	case multi:
		return "multi-code-point-clusters"
	case ascii:
		return "ascii"
	}
	return "non-ascii"
}

// wholeClusters reports whether res is a concatenation of consecutive whole
// grapheme clusters of in (the "never splits a cluster" clause).
func wholeClusters(in, res string) bool {
	if res == "" {
		return true
	}
	cl := clusters(in)
	for i := range cl {
		if !strings.HasPrefix(res, cl[i]) {
			continue
		}
		rest := res
		for j := i; j < len(cl) && strings.HasPrefix(rest, cl[j]); j++ {
			rest = rest[len(cl[j]):]
			if rest == "" {
				return true
			}
		}
	}
	return false
}

// ---------- string generators ----------

// clusterPool: single grapheme clusters, many of them made of several code points.
var clusterPool = []string{
	"a", "b", "e", "o", "A", "Z", "1", "9", " ", ".", ",", "-", "_", "/", ":", "=",
	"\u00e9",               // precomposed e-acute
	"x\u0301",              // x + combining acute (no precomposed form)
	"e\u0323\u0301",        // two marks (NFC recomposes the first)
	"=\u0338",              // composes to U+2260 under NFC
	"\U0001F44D\U0001F3FD", // thumbs up + skin tone
	"\U0001F468\u200d\U0001F469\u200d\U0001F467", // ZWJ family
	"\U0001F1E9\U0001F1EA",                       // regional indicator pair
	"1\ufe0f\u20e3",                              // keycap
	"\u1100\u1161\u11a8",                         // Hangul L+V+T jamo (NFC: one syllable)
	"\uac00",                                     // Hangul LV syllable
	"\r\n", "\n", "\r", "\t",
	"\u00df", "\u01c5", "\u0130", "\ufb01", "\u03a3", "\u03c2", "\u4e2d", "\u2764\ufe0f",
}

func pick(r *core.Rand, p []string) string { return p[r.Intn(len(p))] }

// genStr draws a string and names the generator class it came from.
func genStr(r *core.Rand, maxClusters int) (string, string) {
	switch r.Intn(8) {
	case 0:
		if r.Chance(1, 3) {
			return "", "str-empty"
		}
		fallthrough
	case 1, 2:
		// random code points over gen.Alphabet41: hostile cluster structure
		// (lone combining marks, ZWJ chains, odd numbers of regional indicators)
		return gen.String(r, maxClusters), "str-random-code-points"
	case 3:
		n := r.Intn(maxClusters + 1)
		var sb strings.Builder
		for i := 0; i < n; i++ {
			sb.WriteByte("abcxyzABC019 .,-_"[r.Intn(17)])
		}
		return sb.String(), "str-ascii"
	}
	n := r.Intn(maxClusters + 1)
	var sb strings.Builder
	for i := 0; i < n; i++ {
		sb.WriteString(pick(r, clusterPool))
	}
	return sb.String(), "str-cluster-pool"
}

func sv(s string) cty.Value { return cty.StringVal(s) }

func gen1Str(r *core.Rand) tcase {
	s, t := genStr(r, 12)
	return tcase{args: []cty.Value{sv(s)}, tags: []string{t}}
}

// genCaseStr adds words and separators so that title/upper/lower see word boundaries.
func genCaseStr(r *core.Rand) tcase {
	if r.Chance(1, 2) {
		return gen1Str(r)
	}
	words := []string{"hello", "wORLD", "\u00e9a", "\u01c6x", "\u00dfz", "\ufb01n", "i\u0307stanbul", "\u03c3\u03b1\u03c2", "o'neil", "x-ray", "a1b", "1a", "_a", "\u4e2da", "\U0001F44Da", "e\u0301e"}
	seps := []string{" ", "  ", "-", "\n", "\t", ".", ",", "'", "_", "1", "\u00a0", "\u2003"}
	n := r.Intn(5)
	var sb strings.Builder
	for i := 0; i < n; i++ {
		sb.WriteString(pick(r, words))
		if r.Chance(3, 4) {
			sb.WriteString(pick(r, seps))
		}
	}
	return tcase{args: []cty.Value{sv(sb.String())}, tags: []string{"str-words"}}
}

// genSpaceStr wraps a string in Unicode space / newline runs.
func genSpaceStr(r *core.Rand) tcase {
	spaces := []string{" ", "\t", "\n", "\r", "\r\n", "\u00a0", "\u2003", "\u3000", "\u0085", "\v", "\f", "\u200b" /* not a space */, "\ufeff" /* not a space */}
	s, t := genStr(r, 8)
	var pre, post strings.Builder
	for i := r.Intn(4); i > 0; i-- {
		pre.WriteString(pick(r, spaces))
	}
	for i := r.Intn(4); i > 0; i-- {
		post.WriteString(pick(r, spaces))
	}
	return tcase{args: []cty.Value{sv(pre.String() + s + post.String())}, tags: []string{t, "space-wrapped"}}
}

func genChompStr(r *core.Rand) tcase {
	s, t := genStr(r, 8)
	var post strings.Builder
	for i := r.Intn(5); i > 0; i-- {
		post.WriteString([]string{"\n", "\r\n", "\r", "\n\n", " "}[r.Weighted([]int{8, 8, 1, 2, 1})])
	}
	return tcase{args: []cty.Value{sv(s + post.String())}, tags: []string{t, "newline-tail"}}
}

// runeSubstring cuts a substring of s at code point boundaries.
func runeSubstring(r *core.Rand, s string) string {
	rs := []rune(s)
	if len(rs) == 0 {
		return ""
	}
	i := r.Intn(len(rs))
	j := i + 1 + r.Intn(len(rs)-i)
	return string(rs[i:j])
}

func genTrim(r *core.Rand) tcase {
	s, t := genStr(r, 10)
	var cut string
	var ct string
	rs := []rune(s)
	switch r.Intn(6) {
	case 0:
		cut, ct = "", "cut-empty"
	case 1:
		cut, ct = string(rs[:r.Intn(len(rs)+1)]), "cut-prefix"
	case 2:
		cut, ct = string(rs[r.Intn(len(rs)+1):]), "cut-suffix"
	case 3:
		cut, ct = runeSubstring(r, s), "cut-substring"
	case 4:
		cut, ct = s, "cut-whole"
	default:
		cut, _ = genStr(r, 3)
		ct = "cut-random"
	}
	return tcase{args: []cty.Value{sv(s), sv(cut)}, tags: []string{t, ct}}
}

func genReplace(r *core.Rand) tcase {
	s, t := genStr(r, 12)
	var sub, st string
	switch r.Intn(5) {
	case 0:
		sub, st = "", "substr-empty"
	case 1, 2:
		sub, st = runeSubstring(r, s), "substr-present"
	case 3:
		sub, st = pick(r, clusterPool), "substr-cluster"
	default:
		sub, _ = genStr(r, 2)
		st = "substr-random"
	}
	rep, _ := genStr(r, 3)
	if r.Chance(1, 5) {
		rep = ""
	}
	return tcase{args: []cty.Value{sv(s), sv(sub), sv(rep)}, tags: []string{t, st}}
}

func genSplit(r *core.Rand) tcase {
	var sep, st string
	switch r.Intn(6) {
	case 0:
		sep, st = "", "sep-empty"
	case 1:
		sep, st = pick(r, clusterPool), "sep-cluster"
	case 2:
		sep, _ = genStr(r, 2)
		st = "sep-random"
	default:
		sep, st = pick(r, []string{",", ", ", "-", "::", "\n", "ab", " "}), "sep-ascii"
	}
	var sb strings.Builder
	n := r.Intn(5)
	for i := 0; i < n; i++ {
		p, _ := genStr(r, 3)
		sb.WriteString(p)
		if i < n-1 || r.Chance(1, 4) {
			sb.WriteString(sep)
		}
	}
	if r.Chance(1, 8) {
		sb.Reset()
		sb.WriteString(sep)
	}
	return tcase{args: []cty.Value{sv(sep), sv(sb.String())}, tags: []string{st, fmt.Sprintf("pieces=%d", n)}}
}

func genJoin(r *core.Rand) tcase {
	sep := pick(r, []string{"", ",", ", ", "-", "\u0301", "\U0001F3FD", "\u200d", "\n"})
	nl := r.Intn(4) // 0 lists is outside the domain
	if nl == 0 && r.Chance(2, 3) {
		nl = 1
	}
	tc := tcase{args: []cty.Value{sv(sep)}, tags: []string{fmt.Sprintf("lists=%d", nl)}}
	for i := 0; i < nl; i++ {
		n := r.Intn(4)
		var es []cty.Value
		for j := 0; j < n; j++ {
			if r.Chance(1, 25) {
				es = append(es, cty.NullVal(cty.String))
				tc.tags = append(tc.tags, "null-element")
				continue
			}
			s, _ := genStr(r, 3)
			es = append(es, sv(s))
		}
		switch {
		case r.Chance(1, 40):
			tc.args = append(tc.args, cty.TupleVal(es))
			tc.tags = append(tc.tags, "tuple-instead-of-list")
		case r.Chance(1, 40):
			tc.args = append(tc.args, cty.ListVal([]cty.Value{cty.NumberIntVal(1)}))
			tc.tags = append(tc.tags, "list-of-number")
		case len(es) == 0:
			tc.args = append(tc.args, cty.ListValEmpty(cty.String))
			tc.tags = append(tc.tags, "empty-list")
		default:
			tc.args = append(tc.args, cty.ListVal(es))
		}
	}
	return tc
}

func genIndent(r *core.Rand) tcase {
	var n cty.Value
	var nt string
	switch r.Intn(12) {
	case 0:
		n, nt = cty.NumberIntVal(int64(-1-r.Intn(3))), "spaces-negative"
	case 1:
		n, nt = cty.NumberFloatVal(float64(r.Intn(4))+0.5), "spaces-fraction"
	case 2:
		n, nt = cty.Zero, "spaces-zero"
	default:
		n, nt = cty.NumberIntVal(int64(r.Intn(9))), "spaces-small"
	}
	s, t := genStr(r, 6)
	var sb strings.Builder
	sb.WriteString(s)
	for i := r.Intn(4); i > 0; i-- {
		sb.WriteString(pick(r, []string{"\n", "\r\n", "\n\n", "\r"}))
		p, _ := genStr(r, 4)
		sb.WriteString(p)
	}
	return tcase{args: []cty.Value{n, sv(sb.String())}, tags: []string{nt, t}}
}

func genSubstr(r *core.Rand) tcase {
	s, t := genStr(r, 10)
	n := len(clusters(s))
	num := func() (cty.Value, string) {
		switch r.Intn(16) {
		case 0:
			return cty.NumberFloatVal(float64(r.Intn(5)) + 0.5), "fraction"
		case 1:
			return []cty.Value{cty.NumberIntVal(1 << 40), cty.NumberIntVal(-(1 << 40)), cty.NumberIntVal(9223372036854775807), cty.NumberIntVal(-9223372036854775808),
				cty.MustParseNumberVal("18446744073709551616"), cty.PositiveInfinity, cty.NegativeInfinity}[r.Intn(7)], "huge"
		}
		return cty.NumberIntVal(int64(r.Intn(2*n+5) - (n + 2))), "small"
	}
	off, ot := num()
	ln, lt := num()
	if r.Chance(1, 6) {
		ln, lt = cty.Zero, "zero"
	}
	if r.Chance(1, 8) {
		ln, lt = cty.NumberIntVal(-1), "minus-one"
	}
	return tcase{args: []cty.Value{sv(s), off, ln}, tags: []string{t, "offset-" + ot, "length-" + lt}}
}

// ---------- references ----------

func strRef1(f func(string) string) func(args []cty.Value) expect {
	return func(args []cty.Value) expect {
		s := args[0].AsString()
		return value(sv(f(s)), strKind(s))
	}
}

func refChomp(args []cty.Value) expect {
	s := args[0].AsString()
	// documented: removes the newline characters at the end. "\n" and "\r\n" are
	// newlines beyond doubt; whether a CR that is not followed by LF counts is not pinned.
	body := s
	for {
		switch {
		case strings.HasSuffix(body, "\r\n"):
			body = body[:len(body)-2]
			continue
		case strings.HasSuffix(body, "\n"):
			body = body[:len(body)-1]
			continue
		}
		break
	}
	if strings.HasSuffix(body, "\r") {
		return free("chomp-lone-CR-at-end")
	}
	cl := "no-trailing-newline"
	if body != s {
		cl = "trailing-newlines"
	}
	return value(sv(body), cl)
}

func int64Of(v cty.Value) (int64, string) {
	n := numOf(v)
	if !n.IsWhole() {
		return 0, "non-whole"
	}
	if !n.R.Num().IsInt64() {
		return 0, "beyond-int64"
	}
	return n.R.Num().Int64(), ""
}

func refIndent(args []cty.Value) expect {
	n, why := int64Of(args[0])
	if why != "" {
		return free("indent-spaces-" + why)
	}
	if n < 0 {
		return failure("negative number of spaces", "spaces-negative")
	}
	s := args[1].AsString()
	return value(sv(strings.ReplaceAll(s, "\n", "\n"+strings.Repeat(" ", int(n)))), fmt.Sprintf("newlines=%v", strings.Contains(s, "\n")))
}

func refSubstr(args []cty.Value) expect {
	s := args[0].AsString()
	off, w1 := int64Of(args[1])
	ln, w2 := int64Of(args[2])
	inv := func(got cty.Value) string {
		if got.Type() != cty.String || got.IsNull() || !got.IsKnown() {
			return fmt.Sprintf("result %#v is not a known string", got)
		}
		if !wholeClusters(s, got.AsString()) {
			return "result is not a sequence of whole consecutive grapheme clusters of the input"
		}
		return ""
	}
	if w1 != "" || w2 != "" {
		w := w1
		if w == "" {
			w = w2
		}
		e := free("substr-offset-or-length-" + w)
		e.inv = inv
		return e
	}
	cl := clusters(s)
	n := int64(len(cl))
	var oc, lc string
	switch {
	case off < 0 && -off > n:
		oc = "off<-len"
	case off < 0:
		oc = "off<0"
	case off == 0:
		oc = "off=0"
	case off < n:
		oc = "0<off<len"
	case off == n:
		oc = "off=len"
	default:
		oc = "off>len"
	}
	switch {
	case ln < 0:
		lc = "len<0"
	case ln == 0:
		lc = "len=0"
	default:
		lc = "len>0"
	}
	class := oc + "," + lc
	if off < 0 {
		off += n
		if off < 0 {
			// "relative to the end of the string" does not say what a position before the start means
			e := free("substr-negative-offset-before-start")
			e.inv = inv
			return e
		}
	}
	if off >= n || ln == 0 {
		return value(sv(""), class)
	}
	end := n
	if ln > 0 && ln < n-off {
		end = off + ln
	}
	return value(sv(strings.Join(cl[off:end], "")), class)
}

func refStrlen(args []cty.Value) expect {
	s := args[0].AsString()
	e := expectExact(numOf(cty.NumberIntVal(int64(len(clusters(s))))), strKind(s))
	return e
}

func refReverse(args []cty.Value) expect {
	s := args[0].AsString()
	cl := clusters(s)
	var sb strings.Builder
	for i := len(cl) - 1; i >= 0; i-- {
		sb.WriteString(cl[i])
	}
	return value(sv(sb.String()), strKind(s))
}

func refJoin(args []cty.Value) expect {
	sep := args[0].AsString()
	if len(args) < 2 {
		return failure("at least one list is required", "no-lists")
	}
	var items []string
	for _, l := range args[1:] {
		if !l.Type().Equals(cty.List(cty.String)) {
			return failure("argument is not a list of string", "not-a-list-of-string")
		}
		if l.IsNull() {
			return failure("null list", "null-argument")
		}
		for it := l.ElementIterator(); it.Next(); {
			_, e := it.Element()
			if e.IsNull() {
				return failure("null element", "null-element")
			}
			items = append(items, e.AsString())
		}
	}
	return value(sv(strings.Join(items, sep)), fmt.Sprintf("lists=%d", len(args)-1))
}

func refSplit(args []cty.Value) expect {
	sep, s := args[0].AsString(), args[1].AsString()
	parts := strings.Split(s, sep)
	class := "sep-nonempty"
	if sep == "" {
		class = "sep-empty"
	}
	if len(parts) == 0 {
		return value(cty.ListValEmpty(cty.String), class)
	}
	vs := make([]cty.Value, len(parts))
	for i, p := range parts {
		vs[i] = sv(p)
	}
	return value(cty.ListVal(vs), class)
}

func strRef2(f func(a, b string) string) func(args []cty.Value) expect {
	return func(args []cty.Value) expect {
		a, b := args[0].AsString(), args[1].AsString()
		return value(sv(f(a, b)), strKind(a)+"/"+strKind(b))
	}
}

func refReplace(args []cty.Value) expect {
	s, sub, rep := args[0].AsString(), args[1].AsString(), args[2].AsString()
	class := "substr-nonempty"
	if sub == "" {
		class = "substr-empty"
	}
	return value(sv(strings.Replace(s, sub, rep, -1)), class)
}

func stringFns() []fnDef {
	return []fnDef{
		{"upper", stdlib.UpperFunc, genCaseStr, strRef1(strings.ToUpper)},
		{"lower", stdlib.LowerFunc, genCaseStr, strRef1(strings.ToLower)},
		{"title", stdlib.TitleFunc, genCaseStr, strRef1(strings.Title)}, //nolint:staticcheck // strings.Title is the documented reference
		{"trimspace", stdlib.TrimSpaceFunc, genSpaceStr, strRef1(strings.TrimSpace)},
		{"trim", stdlib.TrimFunc, genTrim, strRef2(strings.Trim)},
		{"trimprefix", stdlib.TrimPrefixFunc, genTrim, strRef2(strings.TrimPrefix)},
		{"trimsuffix", stdlib.TrimSuffixFunc, genTrim, strRef2(strings.TrimSuffix)},
		{"chomp", stdlib.ChompFunc, genChompStr, refChomp},
		{"indent", stdlib.IndentFunc, genIndent, refIndent},
		{"replace", stdlib.ReplaceFunc, genReplace, refReplace},
		{"split", stdlib.SplitFunc, genSplit, refSplit},
		{"join", stdlib.JoinFunc, genJoin, refJoin},
		{"substr", stdlib.SubstrFunc, genSubstr, refSubstr},
		{"strlen", stdlib.StrlenFunc, gen1Str, refStrlen},
		{"reverse", stdlib.ReverseFunc, gen1Str, refReverse},
	}
}

var _ = big.NewInt
