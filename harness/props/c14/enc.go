package c14

import (
	"bytes"
	"encoding/csv"
	"encoding/json"
	"fmt"
	"io"
	"math/big"
	"strings"

	"github.com/zclconf/go-cty/cty"
	"github.com/zclconf/go-cty/cty/function/stdlib"
	"golang.org/x/text/unicode/norm"

	"verif/harness/core"
	"verif/harness/mon"
)

// ---------- JSON: decoding a text with encoding/json into the documented cty shape ----------

type jsonTree struct {
	val      cty.Value
	dupKeys  bool // an object repeats a key (encoding/json keeps the last; not pinned for cty)
	bigExp   bool // a number with a large exponent
	hasFrac  bool
	hasNull  bool
	numbers  int
	maxDepth int
}

// decodeJSONRef parses text with encoding/json's tokenizer and builds the value the
// documentation describes: objects -> object values, arrays -> tuples, strings, numbers
// (512-bit decimal parse), bools, null -> null of the dynamic pseudo-type.
// ok=false when encoding/json rejects the text.
func decodeJSONRef(text string) (jsonTree, bool) {
	var t jsonTree
	if !json.Valid([]byte(text)) {
		return t, false
	}
	dec := json.NewDecoder(strings.NewReader(text))
	dec.UseNumber()
	v, err := readJSONValue(dec, &t, 1)
	if err != nil {
		return t, false
	}
	if _, err := dec.Token(); err != io.EOF {
		return t, false
	}
	t.val = v
	return t, true
}

func readJSONValue(dec *json.Decoder, t *jsonTree, depth int) (cty.Value, error) {
	if depth > t.maxDepth {
		t.maxDepth = depth
	}
	tok, err := dec.Token()
	if err != nil {
		return cty.NilVal, err
	}
	switch x := tok.(type) {
	case nil:
		t.hasNull = true
		return cty.NullVal(cty.DynamicPseudoType), nil
	case bool:
		return cty.BoolVal(x), nil
	case string:
		return cty.StringVal(x), nil
	case json.Number:
		t.numbers++
		s := string(x)
		if i := strings.IndexAny(s, "eE"); i >= 0 && len(s)-i > 5 {
			t.bigExp = true
		}
		if strings.ContainsAny(s, ".eE") {
			t.hasFrac = true
		}
		f, _, err := big.ParseFloat(s, 10, 512, big.ToNearestEven)
		if err != nil {
			t.bigExp = true
			return cty.Zero, nil
		}
		return cty.NumberVal(f), nil
	case json.Delim:
		switch x {
		case '[':
			vs := []cty.Value{}
			for dec.More() {
				e, err := readJSONValue(dec, t, depth+1)
				if err != nil {
					return cty.NilVal, err
				}
				vs = append(vs, e)
			}
			if _, err := dec.Token(); err != nil {
				return cty.NilVal, err
			}
			return cty.TupleVal(vs), nil
		case '{':
			m := map[string]cty.Value{}
			for dec.More() {
				kt, err := dec.Token()
				if err != nil {
					return cty.NilVal, err
				}
				k, ok := kt.(string)
				if !ok {
					return cty.NilVal, fmt.Errorf("object key is not a string")
				}
				k = cty.StringVal(k).AsString() // attribute names are NFC-normalised like every cty string
				e, err := readJSONValue(dec, t, depth+1)
				if err != nil {
					return cty.NilVal, err
				}
				if _, dup := m[k]; dup {
					t.dupKeys = true
				}
				m[k] = e
			}
			if _, err := dec.Token(); err != nil {
				return cty.NilVal, err
			}
			return cty.ObjectVal(m), nil
		}
	}
	return cty.NilVal, fmt.Errorf("unexpected token %v", tok)
}

func refJSONDecode(args []cty.Value) expect {
	text := args[0].AsString()
	t, ok := decodeJSONRef(text)
	if !ok {
		return failure("encoding/json rejects the text", invalidJSONClass(text))
	}
	switch {
	case t.dupKeys:
		return free("jsondecode-object-with-a-repeated-key")
	case t.bigExp:
		return free("jsondecode-number-with-a-large-exponent")
	}
	return value(t.val, jsonShapeClass(t.val))
}

// invalidJSONClass names the kind of invalid text: a complete JSON value followed by a stray
// closing bracket or brace is its own class.
func invalidJSONClass(text string) string {
	dec := json.NewDecoder(strings.NewReader(text))
	dec.UseNumber()
	var v any
	if err := dec.Decode(&v); err != nil {
		return "invalid-json"
	}
	rest := strings.TrimLeft(text[dec.InputOffset():], " \t\r\n")
	if rest != "" && (rest[0] == ']' || rest[0] == '}') {
		return "invalid-json:value-followed-by-a-closing-bracket-or-brace"
	}
	return "invalid-json:value-followed-by-more-text"
}

func jsonShapeClass(v cty.Value) string {
	ty := v.Type()
	switch {
	case v.IsNull():
		return "null"
	case ty.IsPrimitiveType():
		return ty.FriendlyName()
	case ty.IsTupleType():
		return "array"
	case ty.IsObjectType():
		return "object"
	case ty.IsListType():
		return "list"
	case ty.IsSetType():
		return "set"
	case ty.IsMapType():
		return "map"
	}
	return "other"
}

// jsonShape maps a value to the shape JSON can carry: lists and sets become tuples (in
// iteration order), maps become objects, nulls become nulls of the dynamic pseudo-type.
func jsonShape(v cty.Value) cty.Value {
	if v.IsNull() {
		return cty.NullVal(cty.DynamicPseudoType)
	}
	ty := v.Type()
	switch {
	case ty.IsPrimitiveType():
		return v
	case ty.IsListType() || ty.IsSetType() || ty.IsTupleType():
		vs := []cty.Value{}
		for it := v.ElementIterator(); it.Next(); {
			_, e := it.Element()
			vs = append(vs, jsonShape(e))
		}
		return cty.TupleVal(vs)
	case ty.IsMapType() || ty.IsObjectType():
		m := map[string]cty.Value{}
		for it := v.ElementIterator(); it.Next(); {
			k, e := it.Element()
			m[k.AsString()] = jsonShape(e)
		}
		return cty.ObjectVal(m)
	}
	return v
}

// numbersExactIn reports whether every number inside v is finite.
func finiteNumbers(v cty.Value) bool {
	ok := true
	_ = cty.Walk(v, func(_ cty.Path, e cty.Value) (bool, error) {
		if e.Type() == cty.Number && e.IsKnown() && !e.IsNull() && e.AsBigFloat().IsInf() {
			ok = false
		}
		return true, nil
	})
	return ok
}

func precForCompare(v cty.Value) uint {
	p := v.AsBigFloat().Prec()
	if p == 0 {
		return 64
	}
	return p
}

// sameJSONValue compares what encoding/json read back (numbers parsed exactly) with the
// expected shape: strings, bools, nulls and structure exactly, numbers by exact value.
func sameJSONValue(got, want cty.Value, path string) string {
	if got.IsNull() || want.IsNull() {
		if got.IsNull() != want.IsNull() {
			return path + ": null on one side only"
		}
		return ""
	}
	gt, wt := got.Type(), want.Type()
	switch {
	case wt == cty.Number:
		if gt != cty.Number {
			return path + ": not a number"
		}
		// the text must denote the number: read back at the number's own precision it is the number
		// (that is what a shortest-digits text promises, and what encoding/json does for float64)
		// or, for non-integers, it is the number's own shortest decimal text (documented equality)
		back := new(big.Float).SetPrec(precForCompare(want)).SetMode(big.ToNearestEven).Set(got.AsBigFloat())
		if back.Cmp(want.AsBigFloat()) != 0 && !(!numOf(want).IsWhole() && mon.ModelEqual(got, want)) {
			return fmt.Sprintf("%s: number text denotes %s, the value is %s", path, ratShort(numOf(got).R), ratShort(numOf(want).R))
		}
		return ""
	case wt.IsPrimitiveType():
		if !gt.Equals(wt) || !mon.ModelEqual(got, want) {
			return fmt.Sprintf("%s: %#v instead of %#v", path, got, want)
		}
		return ""
	case wt.IsTupleType():
		if !gt.IsTupleType() || got.LengthInt() != want.LengthInt() {
			return path + ": array shape differs"
		}
		g, w := got.AsValueSlice(), want.AsValueSlice()
		for i := range w {
			if why := sameJSONValue(g[i], w[i], fmt.Sprintf("%s[%d]", path, i)); why != "" {
				return why
			}
		}
		return ""
	case wt.IsObjectType():
		if !gt.IsObjectType() || got.LengthInt() != want.LengthInt() {
			return path + ": object shape differs"
		}
		g, w := got.AsValueMap(), want.AsValueMap()
		for k, wv := range w {
			gv, ok := g[k]
			if !ok {
				return path + ": key " + k + " missing"
			}
			if why := sameJSONValue(gv, wv, path+"."+k); why != "" {
				return why
			}
		}
		return ""
	}
	return path + ": unexpected shape"
}

// refJSONEncode: the result must be a text that (1) encoding/json reads back as exactly
// the value (JSON shape, numbers by exact value), (2) is byte-identical to encoding/json's own
// compact rendering of what it read (no insignificant whitespace, object keys sorted, Go's
// string escaping), and (3) jsondecode maps back to the value (checked in the round-trip pass).
func refJSONEncode(args []cty.Value) expect {
	v := args[0]
	if v.IsNull() {
		return value(sv("null"), "null")
	}
	if !finiteNumbers(v) {
		return failure("infinity has no JSON form", "contains-infinity")
	}
	shape := jsonShape(v)
	class := jsonShapeClass(v)
	if escapeThenMark(v) {
		class = "string-with-a-combining-mark-after-an-escaped-character"
	}
	hasMultiSet := false
	_ = cty.Walk(v, func(_ cty.Path, e cty.Value) (bool, error) {
		if e.Type().IsSetType() && !e.IsNull() && e.LengthInt() > 1 {
			hasMultiSet = true
		}
		return true, nil
	})
	ref := sv("")
	if t, ok := jsonText(v); ok {
		ref = sv(t)
	}
	return expect{kind: expValue, val: ref, class: class, check: func(got cty.Value) string {
		text := got.AsString()
		t, ok := decodeJSONRef(text)
		if !ok {
			return "encoding/json rejects the result"
		}
		if hasMultiSet {
			// a set's members may come in any order: compare as JSON shapes with sets as sets
			if why := sameJSONValueUnordered(t.val, v); why != "" {
				return why
			}
		} else if why := sameJSONValue(t.val, shape, "$"); why != "" {
			return why
		}
		var anyv any
		dec := json.NewDecoder(strings.NewReader(text))
		dec.UseNumber()
		if err := dec.Decode(&anyv); err != nil {
			return "encoding/json rejects the result: " + err.Error()
		}
		canon, err := json.Marshal(anyv)
		if err != nil {
			return "encoding/json cannot re-encode the result: " + err.Error()
		}
		// (a cty string is NFC-normalised: when encoding/json's own rendering is not, e.g. a
		// combining mark right after an escape sequence, no cty string can hold it and only (1) applies)
		if norm.NFC.IsNormal(canon) && !bytes.Equal(canon, []byte(text)) {
			return fmt.Sprintf("not the compact encoding/json form: encoding/json writes %q", clipMsg(string(canon)))
		}
		return ""
	}}
}

// escapeThenMark reports whether some string (or key) inside v has a JSON form that is not
// NFC-stable: a character that JSON writes as an escape sequence directly followed by a
// combining mark that composes with the last letter of the escape.
func escapeThenMark(v cty.Value) bool {
	bad := func(s string) bool {
		b, err := json.Marshal(s)
		return err == nil && !norm.NFC.IsNormal(b)
	}
	if v.IsNull() {
		return false
	}
	ty := v.Type()
	switch {
	case ty == cty.String:
		return bad(v.AsString())
	case ty.IsPrimitiveType():
		return false
	}
	for it := v.ElementIterator(); it.Next(); {
		k, e := it.Element()
		if k.Type() == cty.String && bad(k.AsString()) {
			return true
		}
		if escapeThenMark(e) {
			return true
		}
	}
	return false
}

// sameJSONValueUnordered: like sameJSONValue against jsonShape(v), but members of sets of v
// may appear in any order.
func sameJSONValueUnordered(got, v cty.Value) string {
	if v.IsNull() || v.Type().IsPrimitiveType() {
		return sameJSONValue(got, jsonShape(v), "$")
	}
	ty := v.Type()
	switch {
	case ty.IsSetType():
		if !got.Type().IsTupleType() || got.LengthInt() != v.LengthInt() {
			return "set: array shape differs"
		}
		g := got.AsValueSlice()
		used := make([]bool, len(g))
	next:
		for it := v.ElementIterator(); it.Next(); {
			_, e := it.Element()
			for i := range g {
				if !used[i] && sameJSONValueUnordered(g[i], e) == "" {
					used[i] = true
					continue next
				}
			}
			return fmt.Sprintf("set member %#v not found in the array", e)
		}
		return ""
	case ty.IsListType() || ty.IsTupleType():
		if !got.Type().IsTupleType() || got.LengthInt() != v.LengthInt() {
			return "array shape differs"
		}
		g := got.AsValueSlice()
		i := 0
		for it := v.ElementIterator(); it.Next(); i++ {
			_, e := it.Element()
			if why := sameJSONValueUnordered(g[i], e); why != "" {
				return why
			}
		}
		return ""
	default:
		if !got.Type().IsObjectType() || got.LengthInt() != v.LengthInt() {
			return "object shape differs"
		}
		g := got.AsValueMap()
		for it := v.ElementIterator(); it.Next(); {
			k, e := it.Element()
			gv, ok := g[k.AsString()]
			if !ok {
				return "key missing: " + k.AsString()
			}
			if why := sameJSONValueUnordered(gv, e); why != "" {
				return why
			}
		}
		return ""
	}
}

// ---------- JSON generators ----------

var jsonKeys = []string{"a", "b", "k", "Z", "\u00e9", "e\u0301", "", "a b", "<k>", "10", "9", "\U0001F44D\U0001F3FD"}

func genJSONNumber(r *core.Rand) cty.Value {
	switch r.Intn(6) {
	case 0:
		v, _ := genNum(r)
		if v.AsBigFloat().IsInf() && r.Chance(3, 4) {
			return cty.NumberIntVal(7)
		}
		return v
	case 1:
		return cty.NumberFloatVal(float64(r.Intn(20001)-10000) / 64)
	case 2:
		return cty.MustParseNumberVal(fmt.Sprintf("%d.%d", r.Intn(100)-50, r.Intn(10000)))
	}
	return cty.NumberIntVal(int64(r.Intn(2001) - 1000))
}

// genJSONValue draws a JSON-representable value: objects, tuples, strings, numbers, bools and
// nulls of the dynamic pseudo-type.
func genJSONValue(r *core.Rand, depth int) cty.Value {
	k := r.Intn(9)
	if depth >= 3 && k >= 6 {
		k = r.Intn(6)
	}
	switch k {
	case 0, 1:
		s, _ := genStr(r, 5)
		if r.Chance(1, 5) {
			s = pick(r, []string{"<a>", "&", "\"q\"", "back\\slash", "\u2028", "\t", "\x7f", "\x00", "\u001f", "/"})
		}
		if r.Chance(1, 12) {
			// a character that JSON writes as an escape sequence, followed by a run of combining marks
			s += pick(r, []string{"\n", "\t", "\r", "\b", "\f", "\x1e", "\x1a", "\x0b", "\"", "\\"})
			for k := 1 + r.Intn(3); k > 0; k-- {
				s += pick(r, []string{"\u0301", "\u0323", "\u0327", "\u0338", "\u0f71", "\u0f72", "\u05b0", "\u0308", "\u030a", "\u0307", "\U0001d165"})
			}
		}
		return sv(s)
	case 2, 3:
		return genJSONNumber(r)
	case 4:
		return cty.BoolVal(r.Bool())
	case 5:
		return cty.NullVal(cty.DynamicPseudoType)
	case 6, 7:
		n := r.Intn(4)
		vs := make([]cty.Value, n)
		for i := range vs {
			vs[i] = genJSONValue(r, depth+1)
		}
		return cty.TupleVal(vs)
	}
	n := r.Intn(4)
	m := map[string]cty.Value{}
	for i := 0; i < n; i++ {
		m[pick(r, jsonKeys)] = genJSONValue(r, depth+1)
	}
	return cty.ObjectVal(m)
}

// genOtherValue draws values whose type JSON cannot carry: lists, maps, sets, typed nulls.
func genOtherValue(r *core.Rand) cty.Value {
	n := r.Intn(4)
	switch r.Intn(6) {
	case 0:
		if n == 0 {
			return cty.ListValEmpty(cty.Number)
		}
		vs := make([]cty.Value, n)
		for i := range vs {
			vs[i] = genJSONNumber(r)
			if r.Chance(1, 10) {
				vs[i] = cty.NullVal(cty.Number)
			}
		}
		return cty.ListVal(vs)
	case 1:
		if n == 0 {
			return cty.MapValEmpty(cty.String)
		}
		m := map[string]cty.Value{}
		for i := 0; i < n; i++ {
			s, _ := genStr(r, 3)
			m[pick(r, jsonKeys)] = sv(s)
		}
		return cty.MapVal(m)
	case 2:
		if n == 0 {
			return cty.SetValEmpty(cty.String)
		}
		vs := make([]cty.Value, n)
		for i := range vs {
			vs[i] = sv(pick(r, []string{"a", "b", "\u00e9", "", "10", "9", "Z"}))
		}
		return cty.SetVal(vs)
	case 3:
		return []cty.Value{cty.NullVal(cty.String), cty.NullVal(cty.Number), cty.NullVal(cty.List(cty.String)), cty.NullVal(cty.EmptyObject), cty.NullVal(cty.Bool)}[r.Intn(5)]
	case 4:
		vs := []cty.Value{genOtherValue(r), genJSONValue(r, 2)}
		return cty.TupleVal(vs)
	}
	return cty.ObjectVal(map[string]cty.Value{"l": cty.ListVal([]cty.Value{cty.True, cty.False}), "n": cty.NullVal(cty.Map(cty.Bool)), "m": cty.MapVal(map[string]cty.Value{"x": genJSONNumber(r)})})
}

func genJSONEncode(r *core.Rand) tcase {
	if r.Chance(1, 4) {
		return tcase{args: []cty.Value{genOtherValue(r)}, tags: []string{"typed-collections"}}
	}
	return tcase{args: []cty.Value{genJSONValue(r, 0)}, tags: []string{"json-representable"}}
}

// goTree draws a Go value for encoding/json to write (the generator of JSON texts).
func goTree(r *core.Rand, depth int) any {
	k := r.Intn(9)
	if depth >= 3 && k >= 6 {
		k = r.Intn(6)
	}
	switch k {
	case 0, 1:
		s, _ := genStr(r, 5)
		return s
	case 2:
		return json.Number(pick(r, []string{"0", "-0", "1", "-12", "3.5", "1e3", "1E+2", "2.5e-3", "0.1", "123456789012345678901234567890", "1.0", "-0.0", "1e400", "1e-400", "0.30000000000000004", "9007199254740993", "1e100000"}))
	case 3:
		return r.Intn(2001) - 1000
	case 4:
		return r.Bool()
	case 5:
		return nil
	case 6, 7:
		n := r.Intn(4)
		vs := make([]any, n)
		for i := range vs {
			vs[i] = goTree(r, depth+1)
		}
		return vs
	}
	n := r.Intn(4)
	m := map[string]any{}
	for i := 0; i < n; i++ {
		m[pick(r, jsonKeys)] = goTree(r, depth+1)
	}
	return m
}

var jsonOddTexts = []string{
	"", " ", "nul", "tru", "True", "NaN", "Infinity", "-", "01", "1.", ".5", "+1", "1e", "0x10", "'a'", "\"a", "\"\\x\"", "\"\\ud800\"", "\"\\ud83d\\ude00\"", "\"\\u00e9\"", "\"e\\u0301\"",
	"[", "]", "[1,]", "[,1]", "[1 2]", "{", "}", "{\"a\"}", "{\"a\":}", "{\"a\":1,}", "{a:1}", "{\"a\":1 \"b\":2}", "{\"a\":1,\"a\":2}", "{\"\u00e9\":1,\"e\\u0301\":2}",
	"1 2", "[] []", "{} x", "null null", "\"a\" ", " \n\t[ 1 , 2 ]\r\n", "[[[[[[[[[[]]]]]]]]]]", "{\"\":{\"\":{\"\":null}}}", "\"\t\"", "\"\n\"", "/* c */ 1", "1 // c", "\ufeff1", "[1]\x00",
	"{\"a\":1,\"b\":[true,false,null],\"c\":{\"d\":\"e\"}}", "-0", "-0.0", "1e2", "1E2", "1e+2", "1e-2", "1.50", "100000000000000000000000000000000000000000000000000.5",
}

func genJSONDecode(r *core.Rand) tcase {
	if r.Chance(1, 6) {
		return tcase{args: []cty.Value{sv(pick(r, jsonOddTexts))}, tags: []string{"json-odd-text"}}
	}
	g := goTree(r, 0)
	var b []byte
	tag := "json-compact"
	if r.Chance(1, 3) {
		b, _ = json.MarshalIndent(g, pick(r, []string{"", " "}), pick(r, []string{" ", "\t", "  "}))
		tag = "json-indented"
	} else {
		b, _ = json.Marshal(g)
	}
	text := string(b)
	if r.Chance(1, 5) && len(text) > 0 {
		tag = "json-mutated"
		rs := []rune(text)
		i := r.Intn(len(rs))
		switch r.Intn(4) {
		case 0:
			rs = append(rs[:i:i], rs[i+1:]...)
		case 1:
			ins := []rune(pick(r, []string{",", ":", "\"", "{", "}", "[", "]", " ", "0", "x", "\\", "-", "."}))
			rs = append(rs[:i:i], append(ins, rs[i:]...)...)
		case 2:
			rs = rs[:i]
		default:
			rs = append(rs, []rune(pick(r, []string{" ", ",", "1", "x", "}", "]", "null", "\n"}))...)
		}
		text = string(rs)
	}
	return tcase{args: []cty.Value{sv(text)}, tags: []string{tag}}
}

// ---------- CSV ----------

var csvFields = []string{"a", "b", "c", "", "x y", "q\"uote", "com,ma", "line\nbreak", "\u00e9", " lead", "trail ", "1", "e\u0301", "\U0001F44D\U0001F3FD", "a;b", "tab\there"}
var csvHeaders = []string{"a", "b", "c", "name", "", "x y", "\u00e9", "e\u0301", "h\"q", "h,c", "A"}

var csvOddTexts = []string{
	"", "\n", "\r\n", "a", "a\n", "a,b", "a,b\n1,2", "a,b\n1,2\n", "a,b\r\n1,2\r\n", "a,b\n1", "a,b\n1,2,3", "a,a\n1,2", "a,b\n\n1,2\n\n", "a,b\n\"1,2",
	"a,b\n\"1\"x,2", "a,b\n1\"x,2", "\"a\",\"b\"\n\"1\",\"2\"", "a,b\n\"1\n2\",3", "a, b\n1, 2", "a;b\n1;2", "a,b\n1,2\r", "a,b\r1,2", "a,\n1,", ",\n,", ",,\n1,2,3", "a,b\n \n1,2",
	"a,b\n#c,d\n1,2", "\ufeffa,b\n1,2", "a,b\n\"\",\"\"", "a,b\n\"\"\"\",2", "\u00e9,e\u0301\n1,2", "a,A\n1,2",
}

func genCSV(r *core.Rand) tcase {
	if r.Chance(1, 4) {
		return tcase{args: []cty.Value{sv(pick(r, csvOddTexts))}, tags: []string{"csv-odd-text"}}
	}
	nc := 1 + r.Intn(3)
	nr := r.Intn(4)
	var buf bytes.Buffer
	w := csv.NewWriter(&buf)
	w.UseCRLF = r.Chance(1, 4)
	hdr := make([]string, nc)
	perm := r.Perm(len(csvHeaders))
	for i := range hdr {
		hdr[i] = csvHeaders[perm[i]]
	}
	tags := []string{fmt.Sprintf("csv-cols=%d", nc), fmt.Sprintf("csv-rows=%d", nr)}
	if nc > 1 && r.Chance(1, 12) {
		hdr[1] = hdr[0]
		tags = append(tags, "duplicate-header")
	}
	_ = w.Write(hdr)
	for i := 0; i < nr; i++ {
		n := nc
		if r.Chance(1, 15) {
			n = nc + 1 - 2*r.Intn(2)
			tags = append(tags, "ragged-row")
		}
		if n < 1 {
			n = 1
		}
		row := make([]string, n)
		for j := range row {
			row[j] = pick(r, csvFields)
		}
		_ = w.Write(row)
	}
	w.Flush()
	text := buf.String()
	if r.Chance(1, 6) {
		text = strings.TrimRight(text, "\r\n")
		tags = append(tags, "no-final-newline")
	}
	return tcase{args: []cty.Value{sv(text)}, tags: tags}
}

func refCSVDecode(args []cty.Value) expect {
	text := args[0].AsString()
	recs, err := csv.NewReader(strings.NewReader(text)).ReadAll()
	if err != nil {
		return failure("encoding/csv rejects the text: "+err.Error(), "invalid-csv")
	}
	if len(recs) == 0 {
		return failure("no header record", "no-header")
	}
	hdr := recs[0]
	atys := map[string]cty.Type{}
	norm := map[string]bool{}
	for _, h := range hdr {
		if _, dup := atys[h]; dup {
			return failure("duplicate column name", "duplicate-header")
		}
		atys[h] = cty.String
		n := cty.StringVal(h).AsString()
		if norm[n] {
			return free("csvdecode-column-names-that-differ-only-by-normalisation")
		}
		norm[n] = true
	}
	ety := cty.Object(atys)
	if len(recs) == 1 {
		return value(cty.ListValEmpty(ety), "header-only")
	}
	rows := make([]cty.Value, 0, len(recs)-1)
	for _, rec := range recs[1:] {
		m := map[string]cty.Value{}
		for i, h := range hdr {
			m[h] = sv(rec[i])
		}
		rows = append(rows, cty.ObjectVal(m))
	}
	return value(cty.ListVal(rows), fmt.Sprintf("cols=%d", len(hdr)))
}

func encodingFns() []fnDef {
	return []fnDef{
		{"jsonencode", stdlib.JSONEncodeFunc, genJSONEncode, refJSONEncode},
		{"jsondecode", stdlib.JSONDecodeFunc, genJSONDecode, refJSONDecode},
		{"csvdecode", stdlib.CSVDecodeFunc, genCSV, refCSVDecode},
	}
}

// ---------- decoding is the inverse of encoding ----------

const (
	facetRoundTrip = "jsondecode(jsonencode(v)) differs from v"
)

// roundTrip runs jsondecode(jsonencode(v)) on the real functions and compares with v (for
// JSON-representable v: model equality and the same type) or with the JSON shape of v.
func roundTrip(c *core.Ctx, v cty.Value, representable bool) {
	site := "stdlib.jsondecode\u2218jsonencode"
	var enc, dec cty.Value
	var err1, err2 error
	o := core.Guard(func() {
		enc, err1 = stdlib.JSONEncodeFunc.Call([]cty.Value{v})
		if err1 == nil {
			dec, err2 = stdlib.JSONDecodeFunc.Call([]cty.Value{enc})
		}
	})
	c.Eval(2)
	c.Count("oracle:round-trip")
	wit := fmt.Sprintf("%#v", v)
	if o.Panicked {
		c.Violate(site, "panic: "+core.PanicClass(o.PanicMsg), "", wit, o.PanicMsg+"\n"+o.Stack)
		return
	}
	if err1 != nil {
		return // judged by the jsonencode oracle
	}
	class := "json-representable"
	want := v
	if !representable {
		class = "typed-collections"
		want = jsonShape(v)
	}
	if escapeThenMark(v) {
		class = "string-with-a-combining-mark-after-an-escaped-character"
	}
	if err2 != nil {
		c.Violate(site, "jsondecode rejects the output of jsonencode", class, wit, fmt.Sprintf("jsonencode gave %#v; jsondecode: %s", enc, clipMsg(err2.Error())))
		return
	}
	if why := roundTripDiff(dec, want); why != "" {
		cl := class
		if strings.HasPrefix(why, "number:") {
			cl = class + ",number-text-not-exact"
		}
		c.Violate(site, facetRoundTrip, cl, wit, fmt.Sprintf("jsonencode gave %s; decoded %#v; %s", clipMsg(enc.AsString()), dec, why))
	}
}

// roundTripDiff: same type, model-equal, and numbers exactly equal.
func roundTripDiff(got, want cty.Value) string {
	if !got.Type().Equals(want.Type()) {
		return fmt.Sprintf("type %#v instead of %#v", got.Type(), want.Type())
	}
	if !got.IsWhollyKnown() {
		return "decoded value is not wholly known"
	}
	var why string
	var walk func(g, w cty.Value)
	walk = func(g, w cty.Value) {
		if why != "" {
			return
		}
		if g.IsNull() || w.IsNull() {
			if g.IsNull() != w.IsNull() {
				why = "null on one side only"
			}
			return
		}
		ty := w.Type()
		switch {
		case ty == cty.Number:
			if !mon.ModelEqual(g, w) {
				why = fmt.Sprintf("number: %s came back as %s", ratShort(numOf(w).R), ratShort(numOf(g).R))
			}
		case ty.IsPrimitiveType():
			if !mon.ModelEqual(g, w) {
				why = fmt.Sprintf("%#v came back as %#v", w, g)
			}
		default:
			if g.LengthInt() != w.LengthInt() {
				why = "length differs"
				return
			}
			gi, wi := g.ElementIterator(), w.ElementIterator()
			for gi.Next() && wi.Next() {
				gk, ge := gi.Element()
				wk, we := wi.Element()
				if !mon.ModelEqual(gk, wk) {
					why = fmt.Sprintf("key %#v came back as %#v", wk, gk)
					return
				}
				walk(ge, we)
			}
		}
	}
	walk(got, want)
	return why
}
