package c14

import (
	"encoding/json"
	"fmt"
	"math/big"
	"regexp"
	"sort"
	"strconv"
	"strings"

	"github.com/zclconf/go-cty/cty"
	"github.com/zclconf/go-cty/cty/function/stdlib"

	"verif/harness/core"
)

// ---------- reference parser for the documented verb grammar ----------
//
//	%[flags][width][.precision][[n]]verb      (doc comment of stdlib.Format)
//	flags: any of "0#-+ "; width: decimal without leading zero; precision: '.' digits;
//	[n]: one-based argument index, immediately before the verb letter; "%%" = literal percent.

type fverb struct {
	zero, sharp, plus, minus, space bool
	hasW                            bool
	w                               int
	hasP                            bool
	pNoDigits                       bool
	p                               int
	hasIdx                          bool
	idx                             int
	letter                          byte
}

type fseg struct {
	lit string
	v   *fverb
}

// parseFormat returns the segments, or bad != "" when the string is not in the grammar, or
// unpinned != "" when it uses numbers too large to be meaningful.
func parseFormat(f string) (segs []fseg, bad string, unpinned string) {
	var lit strings.Builder
	flush := func() {
		if lit.Len() > 0 {
			segs = append(segs, fseg{lit: lit.String()})
			lit.Reset()
		}
	}
	i := 0
	num := func() (int, bool) {
		st := i
		for i < len(f) && f[i] >= '0' && f[i] <= '9' {
			i++
		}
		if i-st > 6 {
			unpinned = "format-number-with-more-than-6-digits"
		}
		n, _ := strconv.Atoi(f[st:min(i, st+9)])
		return n, i > st
	}
	for i < len(f) {
		if f[i] != '%' {
			lit.WriteByte(f[i])
			i++
			continue
		}
		i++
		if i >= len(f) {
			return nil, "format string ends inside a verb", unpinned
		}
		if f[i] == '%' {
			lit.WriteByte('%')
			i++
			continue
		}
		v := &fverb{}
	flags:
		for i < len(f) {
			switch f[i] {
			case '0':
				v.zero = true
			case '#':
				v.sharp = true
			case '-':
				v.minus = true
			case '+':
				v.plus = true
			case ' ':
				v.space = true
			default:
				break flags
			}
			i++
		}
		if i < len(f) && f[i] >= '1' && f[i] <= '9' {
			v.w, _ = num()
			v.hasW = true
		}
		if i < len(f) && f[i] == '.' {
			i++
			v.hasP = true
			var ok bool
			v.p, ok = num()
			v.pNoDigits = !ok
		}
		if i < len(f) && f[i] == '[' {
			i++
			if i >= len(f) || f[i] < '1' || f[i] > '9' {
				return nil, "argument index is not a positive decimal number", unpinned
			}
			v.idx, _ = num()
			v.hasIdx = true
			if i >= len(f) || f[i] != ']' {
				return nil, "argument index is not closed", unpinned
			}
			i++
		}
		if i >= len(f) {
			return nil, "format string ends inside a verb", unpinned
		}
		c := f[i]
		if !(c >= 'a' && c <= 'z' || c >= 'A' && c <= 'Z') {
			return nil, "verb character is not a letter", unpinned
		}
		v.letter = c
		i++
		flush()
		segs = append(segs, fseg{v: v})
	}
	flush()
	return segs, "", unpinned
}

// goVerb rebuilds a Go fmt verb from the parsed parts (the [n] index is resolved by the reference itself).
func (v *fverb) goVerb(letter byte) string {
	var sb strings.Builder
	sb.WriteByte('%')
	if v.plus {
		sb.WriteByte('+')
	}
	if v.minus {
		sb.WriteByte('-')
	}
	if v.sharp {
		sb.WriteByte('#')
	}
	if v.space {
		sb.WriteByte(' ')
	}
	if v.zero {
		sb.WriteByte('0')
	}
	if v.hasW {
		sb.WriteString(strconv.Itoa(v.w))
	}
	if v.hasP {
		sb.WriteByte('.')
		sb.WriteString(strconv.Itoa(v.p))
	}
	sb.WriteByte(letter)
	return sb.String()
}

// desc is the input class of one verb applied to one argument.
func (v *fverb) desc(arg cty.Value) string {
	var sb strings.Builder
	sb.WriteByte('%')
	if v.plus {
		sb.WriteByte('+')
	}
	if v.minus {
		sb.WriteByte('-')
	}
	if v.sharp {
		sb.WriteByte('#')
	}
	if v.space {
		sb.WriteByte(' ')
	}
	if v.zero {
		sb.WriteByte('0')
	}
	if v.hasW {
		sb.WriteByte('W')
	}
	if v.hasP {
		switch {
		case v.pNoDigits:
			sb.WriteString(".")
		case v.p == 0:
			sb.WriteString(".0")
		default:
			sb.WriteString(".P")
		}
	}
	sb.WriteByte(v.letter)
	sb.WriteByte(':')
	sb.WriteString(argKind(arg))
	return sb.String()
}

func argKind(a cty.Value) string {
	ty := a.Type()
	pre := ""
	if a.IsNull() {
		pre = "null-"
	}
	switch {
	case ty == cty.String:
		return pre + "string"
	case ty == cty.Number:
		return pre + "number"
	case ty == cty.Bool:
		return pre + "bool"
	case ty == cty.DynamicPseudoType:
		return pre + "dynamic"
	case ty.IsListType():
		return pre + "list"
	case ty.IsSetType():
		return pre + "set"
	case ty.IsMapType():
		return pre + "map"
	case ty.IsTupleType():
		return pre + "tuple"
	case ty.IsObjectType():
		return pre + "object"
	}
	return pre + "other"
}

// verdict of rendering one verb
const (
	rOK = iota
	rErr
	rFree
)

type rendered struct {
	status int
	text   string
	why    string
}

func rok(s string) rendered     { return rendered{status: rOK, text: s} }
func rerr(why string) rendered  { return rendered{status: rErr, why: why} }
func rfree(why string) rendered { return rendered{status: rFree, why: why} }
func (r rendered) isOK() bool   { return r.status == rOK }

// padWidth: width counts grapheme clusters; spaces on the left by default, '-' pads on the
// other side, '0' pads with zeros (D). '-' together with '0' is not pinned (the doc would give
// trailing zeros, Go's fmt gives trailing spaces).
func (v *fverb) padWidth(s string) rendered {
	if !v.hasW {
		return rok(s)
	}
	n := len(clusters(s))
	if n >= v.w {
		return rok(s)
	}
	if v.minus && v.zero {
		return rfree("format-minus-and-zero-flags-together")
	}
	switch {
	case v.minus:
		return rok(s + strings.Repeat(" ", v.w-n))
	case v.zero:
		return rok(strings.Repeat("0", v.w-n) + s)
	}
	return rok(strings.Repeat(" ", v.w-n) + s)
}

var reSimpleDecimal = regexp.MustCompile(`^-?[0-9]+(\.[0-9]+)?(e[0-9]{1,2})?$`)
var reDigit = regexp.MustCompile(`[0-9]`)

// toNumber applies the documented conversion to number: numbers as they are, strings through
// the decimal number syntax (unsafe conversion), anything else is an impossible conversion.
func toNumber(a cty.Value) (*big.Float, rendered) {
	switch a.Type() {
	case cty.Number:
		return a.AsBigFloat(), rok("")
	case cty.String:
		s := a.AsString()
		if reSimpleDecimal.MatchString(s) {
			f, _, err := big.ParseFloat(s, 10, 512, big.ToNearestEven)
			if err != nil {
				return nil, rfree("format-numeric-string-not-parsed-by-big.ParseFloat")
			}
			return f, rok("")
		}
		if !reDigit.MatchString(s) && !strings.Contains(strings.ToLower(s), "inf") {
			return nil, rerr("string is not a number") // the decimal syntax needs at least one digit
		}
		return nil, rfree("format-string-with-unusual-number-syntax")
	}
	return nil, rerr("value cannot be converted to number")
}

func toBool(a cty.Value) (bool, rendered) {
	switch a.Type() {
	case cty.Bool:
		return a.True(), rok("")
	case cty.String:
		switch a.AsString() {
		case "true":
			return true, rok("")
		case "false":
			return false, rok("")
		case "1", "0":
			return false, rfree("format-bool-from-string-1-or-0")
		}
		return false, rerr("string is not a bool")
	}
	return false, rerr("value cannot be converted to bool")
}

func toString(a cty.Value) (string, rendered) {
	switch a.Type() {
	case cty.String:
		return a.AsString(), rok("")
	case cty.Bool:
		if a.True() {
			return "true", rok("")
		}
		return "false", rok("")
	case cty.Number:
		n := numOf(a)
		if isNegZero(a) {
			return "", rfree("format-text-of-negative-zero")
		}
		if n.IsWhole() && n.R.Num().IsInt64() {
			return n.R.Num().String(), rok("")
		}
		return "", rfree("format-text-of-a-number-that-is-not-a-small-integer")
	}
	return "", rerr("value cannot be converted to string")
}

// goJSON converts a wholly known value into the Go value whose encoding/json form is the
// documented JSON serialization. ok=false when the value has no JSON form pinned by the
// documentation (infinities; sets with more than one member, whose order is the set's business).
func goJSON(v cty.Value) (any, bool) {
	if v.IsNull() {
		return nil, true
	}
	ty := v.Type()
	switch {
	case ty == cty.String:
		return v.AsString(), true
	case ty == cty.Bool:
		return v.True(), true
	case ty == cty.Number:
		bf := v.AsBigFloat()
		if bf.IsInf() {
			return nil, false
		}
		if isNegZero(v) {
			return nil, false
		}
		n := numOf(v)
		if n.IsWhole() && n.R.Num().IsInt64() {
			return json.Number(n.R.Num().String()), true
		}
		// other numbers: the decimal text is pinned only in the range where every JSON writer uses
		// plain positional notation
		abs := new(big.Float).Abs(bf)
		if abs.Cmp(big.NewFloat(1e-6)) < 0 || abs.Cmp(big.NewFloat(1e21)) >= 0 || bf.Prec() > 64 {
			return nil, false
		}
		if n.IsWhole() {
			// a whole number beyond int64 held at a narrow precision (float64(2^63)): its shortest
			// identifying text (9223372036854776000) denotes ANOTHER integer; whole numbers compare
			// exactly, so the JSON text must be the integer itself (json.Marshal since fix b1d72a1)
			return json.Number(n.R.Num().String()), true
		}
		return json.Number(bf.Text('f', -1)), true
	case ty.IsSetType() && v.LengthInt() > 1:
		return nil, false
	case ty.IsListType() || ty.IsTupleType() || ty.IsSetType():
		out := []any{}
		for it := v.ElementIterator(); it.Next(); {
			_, e := it.Element()
			g, ok := goJSON(e)
			if !ok {
				return nil, false
			}
			out = append(out, g)
		}
		return out, true
	case ty.IsMapType() || ty.IsObjectType():
		out := map[string]any{}
		for it := v.ElementIterator(); it.Next(); {
			k, e := it.Element()
			g, ok := goJSON(e)
			if !ok {
				return nil, false
			}
			out[k.AsString()] = g
		}
		return out, true
	}
	return nil, false
}

func jsonText(v cty.Value) (string, bool) {
	g, ok := goJSON(v)
	if !ok {
		return "", false
	}
	b, err := json.Marshal(g)
	if err != nil {
		return "", false
	}
	return string(b), true
}

// renderVerb is the reference rendering of one verb applied to its argument.
func renderVerb(v *fverb, a cty.Value) rendered {
	switch v.letter {
	case 'v', 't', 'b', 'd', 'o', 'x', 'X', 'e', 'E', 'f', 'g', 'G', 's', 'q':
	default:
		return rerr("unsupported format verb")
	}
	if a.IsNull() {
		if v.letter != 'v' {
			return rerr("null value for a verb other than %v")
		}
		if v.hasP {
			return rfree("format-precision-on-null")
		}
		return v.padWidth("null")
	}
	if v.hasP && v.pNoDigits {
		return rfree("format-period-without-digits") // documented as invalid, accepted by Go's fmt
	}
	letter := v.letter
	if letter == 'v' {
		switch {
		case v.sharp:
			letter = 'J'
		case a.Type() == cty.String:
			letter = 's'
		case a.Type() == cty.Number:
			letter = 'g'
		case a.Type() == cty.Bool:
			letter = 't'
		default:
			letter = 'J'
		}
	}
	switch letter {
	case 'J':
		t, ok := jsonText(a)
		if !ok {
			return rfree("format-json-of-a-value-without-pinned-json-form")
		}
		if v.hasP {
			return rfree("format-precision-on-json")
		}
		return v.padWidth(t)
	case 't':
		b, st := toBool(a)
		if !st.isOK() {
			return st
		}
		if b {
			return v.padWidth("true")
		}
		return v.padWidth("false")
	case 'b', 'd', 'o', 'x', 'X':
		f, st := toNumber(a)
		if !st.isOK() {
			return st
		}
		if f.IsInf() || !f.IsInt() {
			return rerr("an integer is required")
		}
		bi, _ := f.Int(nil)
		return rok(fmt.Sprintf(v.goVerb(letter), bi))
	case 'e', 'E', 'f', 'g', 'G':
		f, st := toNumber(a)
		if !st.isOK() {
			return st
		}
		return rok(fmt.Sprintf(v.goVerb(letter), f))
	case 's', 'q':
		s, st := toString(a)
		if !st.isOK() {
			return st
		}
		if v.hasP {
			cl := clusters(s)
			if v.p < len(cl) {
				s = strings.Join(cl[:v.p], "")
			}
		}
		if letter == 'q' {
			b, err := json.Marshal(s)
			if err != nil {
				return rfree("format-encoding/json-refused-the-string")
			}
			s = string(b)
		}
		return v.padWidth(s)
	}
	panic("unreachable")
}

type fmtOutcome struct {
	exp   expect
	descs []string // per-verb input classes
	used  []struct {
		v   *fverb
		arg cty.Value
	}
}

// formatOnce is the reference for one format call.
func formatOnce(f string, args []cty.Value) fmtOutcome {
	var out fmtOutcome
	segs, bad, unpinned := parseFormat(f)
	if bad != "" {
		out.exp = failure(bad, "malformed-format-string")
		return out
	}
	if unpinned != "" {
		out.exp = free(unpinned)
		return out
	}
	next, highest := 1, 0
	var sb strings.Builder
	var firstErr, firstFree string
	var errClass string
	for _, sg := range segs {
		if sg.v == nil {
			sb.WriteString(sg.lit)
			continue
		}
		v := sg.v
		n := next
		if v.hasIdx {
			n = v.idx
		}
		if n > highest {
			highest = n
		}
		next = n + 1
		if n > len(args) {
			if firstErr == "" {
				firstErr, errClass = "verb refers to an argument that was not given", "not-enough-arguments"
			}
			continue
		}
		a := args[n-1]
		d := v.desc(a)
		out.descs = append(out.descs, d)
		out.used = append(out.used, struct {
			v   *fverb
			arg cty.Value
		}{v, a})
		rv := renderVerb(v, a)
		switch rv.status {
		case rErr:
			if firstErr == "" {
				firstErr, errClass = rv.why, d
			}
		case rFree:
			if firstFree == "" {
				firstFree = rv.why
			}
		default:
			sb.WriteString(rv.text)
		}
	}
	if firstErr == "" && highest < len(args) {
		firstErr, errClass = "more arguments than the format string uses", "too-many-arguments"
	}
	switch {
	case firstErr != "":
		out.exp = failure(firstErr, errClass)
	case firstFree != "":
		out.exp = free(firstFree)
	default:
		out.exp = value(sv(sb.String()), classOf(out.descs))
	}
	return out
}

func classOf(descs []string) string {
	if len(descs) == 0 {
		return "no-verbs"
	}
	u := map[string]bool{}
	var l []string
	for _, d := range descs {
		if !u[d] {
			u[d] = true
			l = append(l, d)
		}
	}
	sort.Strings(l)
	if len(l) > 3 {
		return fmt.Sprintf("%d-distinct-verbs", len(l))
	}
	return strings.Join(l, ";")
}

func refFormat(args []cty.Value) expect {
	o := formatOnce(args[0].AsString(), args[1:])
	e := o.exp
	if e.kind == expValue && len(o.used) > 0 {
		// when a result differs, name the smallest verb that differs on its own
		used := o.used
		e.attribute = func() []string { return attributeVerbs(used) }
	}
	return e
}

// verbDiffers runs one verb on its own against the real function and reports whether the
// result disagrees with the reference rendering (only where the reference pins a rendering).
func verbDiffers(v fverb, arg cty.Value) bool {
	v.hasIdx = false
	rv := renderVerb(&v, arg)
	if rv.status != rOK {
		return false
	}
	var got cty.Value
	var err error
	o := core.Guard(func() { got, err = stdlib.FormatFunc.Call([]cty.Value{sv(v.source()), arg}) })
	return o.Panicked || err != nil || !got.IsKnown() || got.IsNull() || got.Type() != cty.String || !sameNFC(got.AsString(), rv.text)
}

// minimiseVerb drops flags, width and precision from a differing verb while it still differs
// (delta debugging of the witness), so that the violation class names the smallest verb that
// shows the difference.
func minimiseVerb(v fverb, arg cty.Value) fverb {
	muts := []func(*fverb){
		func(x *fverb) { x.plus = false }, func(x *fverb) { x.minus = false }, func(x *fverb) { x.sharp = false },
		func(x *fverb) { x.space = false }, func(x *fverb) { x.zero = false }, func(x *fverb) { x.hasW, x.w = false, 0 },
		func(x *fverb) { x.hasP, x.p, x.pNoDigits = false, 0, false },
	}
	for changed := true; changed; {
		changed = false
		for _, m := range muts {
			y := v
			m(&y)
			if y != v && verbDiffers(y, arg) {
				v, changed = y, true
			}
		}
	}
	return v
}

// attributeVerbs re-runs every verb of a failing case on its own against the real function and
// returns the classes of the (minimised) verbs that disagree with the reference alone.
func attributeVerbs(used []struct {
	v   *fverb
	arg cty.Value
}) []string {
	var out []string
	seen := map[string]bool{}
	for _, u := range used {
		if !verbDiffers(*u.v, u.arg) {
			continue
		}
		m := minimiseVerb(*u.v, u.arg)
		d := m.desc(u.arg)
		if !seen[d] {
			seen[d] = true
			out = append(out, d)
		}
	}
	sort.Strings(out)
	return out
}

// source writes the verb in the documented grammar.
func (v *fverb) source() string {
	s := v.goVerb(v.letter)
	if v.hasP && v.pNoDigits {
		s = strings.Replace(s, ".0", ".", 1)
	}
	if v.hasIdx {
		s = s[:len(s)-1] + fmt.Sprintf("[%d]", v.idx) + string(v.letter)
	}
	return s
}

func sameNFC(a, b string) bool {
	return a == b || sv(a).AsString() == sv(b).AsString()
}

func refFormatList(args []cty.Value) expect {
	f := args[0].AsString()
	rest := args[1:]
	if len(rest) == 0 {
		o := formatOnce(f, nil)
		if o.exp.kind == expValue {
			return value(cty.ListVal([]cty.Value{o.exp.val}), "no-arguments")
		}
		return o.exp
	}
	iterLen := -1
	cols := make([][]cty.Value, len(rest))
	for i, a := range rest {
		ty := a.Type()
		if (ty.IsListType() || ty.IsSetType() || ty.IsTupleType()) && !a.IsNull() {
			if ty.IsSetType() && a.LengthInt() > 1 {
				return free("formatlist-set-argument-with-several-members")
			}
			col := []cty.Value{}
			for it := a.ElementIterator(); it.Next(); {
				_, e := it.Element()
				col = append(col, e)
			}
			cols[i] = col
			if iterLen == -1 {
				iterLen = len(col)
			} else if iterLen != len(col) {
				return failure("sequence arguments of different lengths", "inconsistent-lengths")
			}
		}
	}
	if iterLen == 0 {
		// the result length is dictated by the sequences; whether the format string is still
		// validated is not pinned
		if o := formatOnce(f, rest); o.exp.kind != expValue {
			return free("formatlist-empty-sequences-with-a-format-string-that-would-not-render")
		}
		return value(cty.ListValEmpty(cty.String), "empty-sequences")
	}
	if iterLen == -1 {
		iterLen = 1
	}
	var vals []cty.Value
	var descs []string
	var firstFree string
	var used []struct {
		v   *fverb
		arg cty.Value
	}
	for k := 0; k < iterLen; k++ {
		row := make([]cty.Value, len(rest))
		for i := range rest {
			if cols[i] != nil {
				row[i] = cols[i][k]
			} else {
				row[i] = rest[i]
			}
		}
		o := formatOnce(f, row)
		switch o.exp.kind {
		case expError:
			return failure(o.exp.why, o.exp.class)
		case expFree:
			if firstFree == "" {
				firstFree = o.exp.why
			}
		default:
			vals = append(vals, o.exp.val)
			descs = append(descs, o.descs...)
			used = append(used, o.used...)
		}
	}
	if firstFree != "" {
		return free(firstFree)
	}
	e := value(cty.ListVal(vals), classOf(descs))
	e.attribute = func() []string {
		a := attributeVerbs(used)
		for i := range a {
			a[i] = "via-format:" + a[i]
		}
		return a
	}
	return e
}

// ---------- generators ----------

var fmtVerbLetters = "vvvssqqtdddboxXeEfgG"

func genVerbText(r *core.Rand, nargs int) string {
	var sb strings.Builder
	sb.WriteByte('%')
	for k := r.Weighted([]int{8, 5, 2, 1}); k > 0; k-- {
		sb.WriteByte("0#-+ "[r.Intn(5)])
	}
	if r.Chance(2, 5) {
		sb.WriteString(strconv.Itoa(1 + r.Intn(12)))
	}
	if r.Chance(1, 3) {
		sb.WriteByte('.')
		switch {
		case r.Chance(1, 20):
		case r.Chance(1, 4):
			sb.WriteString("0")
		default:
			sb.WriteString(strconv.Itoa(r.Intn(9)))
		}
	}
	if r.Chance(1, 8) && nargs > 0 {
		sb.WriteString(fmt.Sprintf("[%d]", 1+r.Intn(nargs+1)))
	}
	if r.Chance(1, 40) {
		sb.WriteByte("zcpUTnw"[r.Intn(7)])
	} else {
		sb.WriteByte(fmtVerbLetters[r.Intn(len(fmtVerbLetters))])
	}
	return sb.String()
}

var fmtLiterals = []string{"", "a", " ", "x=", "%%", "100%%", "\u00e9", "\U0001F44D\U0001F3FD", ": ", "\n", "[", "]", "1", "."}

func genFormatString(r *core.Rand, nargs int) (string, string) {
	if r.Chance(1, 25) {
		return pick(r, []string{"%", "a%", "%5", "%.", "%[", "%[1", "%[1]", "%[0]s", "%[a]s", "%[1]5d", "%5+d", "%!", "%\u2620", "%\u00e9", "%-", "% ", "%.5", "%[01]s", "%*d", "%1$s", "%[-1]s", "%[1][1]s"}), "format-malformed"
	}
	nv := r.Weighted([]int{1, 10, 5, 3, 1})
	var sb strings.Builder
	for i := 0; i < nv; i++ {
		sb.WriteString(pick(r, fmtLiterals))
		sb.WriteString(genVerbText(r, nargs))
	}
	sb.WriteString(pick(r, fmtLiterals))
	return sb.String(), fmt.Sprintf("format-verbs=%d", nv)
}

var fmtJSONNumbers = []float64{0, 1, -2, 10, 255, 0.5, -1.25, 1000000}

func genFmtScalar(r *core.Rand) cty.Value {
	switch r.Intn(14) {
	case 0, 1:
		s, _ := genStr(r, 6)
		return sv(s)
	case 2:
		return sv(pick(r, []string{"12", "-7", "3.5", "1e3", "0", "true", "false", "1", "abc", "", "yes", "TRUE", "0x10", "Inf", " 5"}))
	case 3, 4:
		return cty.NumberIntVal(int64(r.Intn(2001) - 1000))
	case 5:
		v, _ := genNum(r)
		return v
	case 6:
		return cty.NumberFloatVal(float64(r.Intn(20001)-10000) / 64)
	case 7:
		return cty.MustParseNumberVal(fmt.Sprintf("%d.%d", r.Intn(100)-50, r.Intn(10000)))
	case 8:
		return cty.BoolVal(r.Bool())
	case 9:
		return []cty.Value{cty.NullVal(cty.String), cty.NullVal(cty.Number), cty.NullVal(cty.Bool), cty.NullVal(cty.DynamicPseudoType), cty.NullVal(cty.List(cty.String)), cty.NullVal(cty.EmptyObject)}[r.Intn(6)]
	case 10:
		return cty.NumberIntVal(r.Int63() - r.Int63())
	}
	return genFmtCompound(r, 0)
}

func genFmtLeaf(r *core.Rand) cty.Value {
	switch r.Intn(5) {
	case 0:
		return cty.NumberFloatVal(fmtJSONNumbers[r.Intn(len(fmtJSONNumbers))])
	case 1:
		return cty.BoolVal(r.Bool())
	case 2:
		return cty.NullVal(cty.String)
	}
	s, _ := genStr(r, 3)
	if r.Chance(1, 4) {
		s = pick(r, []string{"<a>", "&", "\"q\"", "back\\slash", "\u2028", "\t", "\x7f", "\u00e9"})
	}
	return sv(s)
}

func genFmtCompound(r *core.Rand, depth int) cty.Value {
	leaf := func() cty.Value {
		if depth < 1 && r.Chance(1, 4) {
			return genFmtCompound(r, depth+1)
		}
		return genFmtLeaf(r)
	}
	n := r.Intn(4)
	switch r.Intn(5) {
	case 0: // list of strings
		if n == 0 {
			return cty.ListValEmpty(cty.String)
		}
		vs := make([]cty.Value, n)
		for i := range vs {
			s, _ := genStr(r, 3)
			vs[i] = sv(s)
		}
		return cty.ListVal(vs)
	case 1: // tuple
		vs := make([]cty.Value, n)
		for i := range vs {
			vs[i] = leaf()
		}
		return cty.TupleVal(vs)
	case 2: // object
		m := map[string]cty.Value{}
		for i := 0; i < n; i++ {
			m[pick(r, []string{"a", "b", "k", "Z", "\u00e9", "", "a b", "<k>"})] = leaf()
		}
		return cty.ObjectVal(m)
	case 3: // map of numbers
		if n == 0 {
			return cty.MapValEmpty(cty.Number)
		}
		m := map[string]cty.Value{}
		for i := 0; i < n; i++ {
			m[pick(r, []string{"a", "b", "k", "Z", "\u00e9", "10", "9"})] = cty.NumberFloatVal(fmtJSONNumbers[r.Intn(len(fmtJSONNumbers))])
		}
		return cty.MapVal(m)
	}
	// set with at most one member
	if n == 0 || r.Bool() {
		return cty.SetValEmpty(cty.String)
	}
	return cty.SetVal([]cty.Value{sv(pick(r, []string{"a", "\u00e9", ""}))})
}

// fitArg draws an argument that suits the verb letter most of the time.
func fitArg(r *core.Rand, letter byte) cty.Value {
	if r.Chance(1, 6) {
		return genFmtScalar(r)
	}
	switch letter {
	case 't':
		if r.Chance(1, 4) {
			return sv(pick(r, []string{"true", "false", "1", "0", "yes"}))
		}
		return cty.BoolVal(r.Bool())
	case 'b', 'd', 'o', 'x', 'X':
		switch r.Intn(8) {
		case 0:
			return sv(pick(r, []string{"12", "-7", "255", "3.5", "1e3"}))
		case 1:
			return cty.NumberIntVal(r.Int63() - r.Int63())
		case 2:
			v, _ := genNum(r)
			return v
		}
		return cty.NumberIntVal(int64(r.Intn(70000) - 35000))
	case 'e', 'E', 'f', 'g', 'G':
		switch r.Intn(8) {
		case 0:
			return sv(pick(r, []string{"12", "-7.25", "3.5", "1e3", "0.00000000000000000000001"}))
		case 1, 2:
			v, _ := genNum(r)
			return v
		case 3:
			return cty.MustParseNumberVal(fmt.Sprintf("%d.%d", r.Intn(100)-50, r.Intn(1000000)))
		}
		return cty.NumberFloatVal(float64(r.Intn(2000001)-1000000) / 1024)
	case 's', 'q':
		if r.Chance(1, 6) {
			return []cty.Value{cty.NumberIntVal(int64(r.Intn(100))), cty.True, cty.False, cty.NumberFloatVal(1.5)}[r.Intn(4)]
		}
		s, _ := genStr(r, 8)
		return sv(s)
	}
	return genFmtScalar(r)
}

var reVerbLetter = regexp.MustCompile(`%[-+# 0]*[0-9]*(?:\.[0-9]*)?(?:\[[0-9]+\])?([a-zA-Z])`)

// verbLetters lists the verb letters of a generated format string in order (generator-side
// helper only; "%%" is removed first).
func verbLetters(f string) []byte {
	f = strings.ReplaceAll(f, "%%", "")
	var out []byte
	for _, m := range reVerbLetter.FindAllStringSubmatch(f, -1) {
		out = append(out, m[1][0])
	}
	return out
}

func genFormat(r *core.Rand) tcase {
	nargs := r.Weighted([]int{1, 8, 5, 3, 1})
	f, tag := genFormatString(r, nargs)
	letters := verbLetters(f)
	// usually give exactly as many arguments as there are verbs
	if r.Chance(5, 6) {
		nargs = len(letters)
	}
	args := []cty.Value{sv(f)}
	for i := 0; i < nargs; i++ {
		l := byte('v')
		if i < len(letters) {
			l = letters[i]
		}
		args = append(args, fitArg(r, l))
	}
	return tcase{args: args, tags: []string{tag, fmt.Sprintf("args=%d", nargs)}}
}

func genFormatList(r *core.Rand) tcase {
	nargs := r.Weighted([]int{1, 6, 5, 3})
	f, tag := genFormatString(r, nargs)
	letters := verbLetters(f)
	if r.Chance(5, 6) {
		nargs = len(letters)
	}
	n := r.Weighted([]int{1, 3, 4, 3})
	args := []cty.Value{sv(f)}
	tags := []string{tag, fmt.Sprintf("args=%d", nargs)}
	for i := 0; i < nargs; i++ {
		l := byte('v')
		if i < len(letters) {
			l = letters[i]
		}
		switch r.Intn(8) {
		case 0, 1: // scalar, repeated
			args = append(args, fitArg(r, l))
			tags = append(tags, "scalar")
		case 2: // tuple
			m := n
			if r.Chance(1, 10) {
				m = n + 1
				tags = append(tags, "length-mismatch")
			}
			vs := make([]cty.Value, m)
			for k := range vs {
				vs[k] = fitArg(r, l)
			}
			args = append(args, cty.TupleVal(vs))
			tags = append(tags, "tuple")
		case 3: // set with at most one member, or null list
			if r.Bool() {
				args = append(args, cty.NullVal(cty.List(cty.String)))
				tags = append(tags, "null-list")
			} else if n == 1 {
				args = append(args, cty.SetVal([]cty.Value{sv("m")}))
				tags = append(tags, "set-1")
			} else {
				args = append(args, cty.SetValEmpty(cty.String))
				tags = append(tags, "set-0")
			}
		default: // list of one element type
			m := n
			if r.Chance(1, 10) {
				m = n + 1
				tags = append(tags, "length-mismatch")
			}
			if m == 0 {
				args = append(args, cty.ListValEmpty(cty.String))
				tags = append(tags, "list-0")
				break
			}
			first := fitArg(r, l)
			for !first.Type().IsPrimitiveType() || first.IsNull() {
				first = fitArg(r, l)
			}
			vs := []cty.Value{first}
			for len(vs) < m {
				e := fitArg(r, l)
				if e.Type().Equals(first.Type()) {
					vs = append(vs, e)
				}
			}
			args = append(args, cty.ListVal(vs))
			tags = append(tags, "list")
		}
	}
	return tcase{args: args, tags: tags}
}

func formatFns() []fnDef {
	return []fnDef{
		{"format", stdlib.FormatFunc, genFormat, refFormat},
		{"formatlist", stdlib.FormatListFunc, genFormatList, refFormatList},
	}
}
