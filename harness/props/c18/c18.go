// Package c18: Go-value bridging (gocty) is exact or refuses: no silent loss.
package c18

import (
	"fmt"
	"reflect"
	"strings"

	"github.com/zclconf/go-cty/cty"
	"github.com/zclconf/go-cty/cty/gocty"

	"verif/harness/core"
	"verif/harness/gen"
	"verif/harness/model"
	"verif/harness/mon"
)

type Driver struct{}

func (Driver) ID() string { return "C18" }

func (Driver) Info() core.Info {
	return core.Info{
		Title: "Go-value bridging is exact or refuses: no silent loss",
		Rule: "three case kinds over a fixed family of Go types (every numeric kind, string, bool, named types, slices, arrays, string-keyed maps, tagged structs nested, " +
			"structs as tuples, pointers to each, cty.Value leaves, big.Int/big.Float). (a) round trip: reflection-generated Go value g -> ImpliedType (checked against the documented mapping) " +
			"-> ToCtyValue (checked: the cty value carries g exactly) -> FromCtyValue into a zero or a previously populated target -> compared with g, nil-ness significant. " +
			"The same round trip, with name-agnostic comparisons (attributes paired off with tagged fields), over 17 more Go types whose struct tags are not plain names (comma, option-looking suffix, spaces, punctuation, non-ASCII, escapes). " +
			"(b) number x numeric target: boundary corpus (limits of every width +-1 and +-fraction, float32/float64 range edges, half-ulp bands, float32 midpoints, denormals, huge, infinite) " +
			"and random numbers x every numeric target type (and pointers to them); accept/refuse compared with an exact-rational reference, stored value compared with the exact value / correct rounding. " +
			"(c) value x target: encodings of family values (also mutated: sub-values replaced by unknown / null / other numbers; lists as sets), values generated for the target's natural type and arbitrary values " +
			"x every target type; outcome compared with a prediction written from the statement and docs/gocty.md (refuse / accept / left open), accepted targets compared with the value. " +
			"distinct = hash of (kind, Go type, printable value, target state); non-trivial = the library call returned normally and the prediction was not 'left open' (round trips: g is not the zero value)",
		Assumptions: []string{
			"strings and map keys are NFC-normalized valid UTF-8, floats are never NaN (documented restrictions of cty strings and numbers)",
			"cty.Value leaves are valid unmarked values; dynamic members of one Go slice / map share one cty type (a cty list / map has a single element type)",
			"float targets: 'stores that number' is read as the correctly rounded value (nearest, ties to even); the half-ulp band above the largest finite float is left open",
			"nulls of a foreign type into nil-able targets, empty collections of a foreign element type, collections into structs and a missing attribute for a nil-able field are left open (not stated)",
			"math/big rationals and reflect are the trusted reference",
		},
		MinNontrivial: 20000,
	}
}

func (Driver) Batches(tier string) int {
	if tier == "thorough" {
		return 64
	}
	return 16
}

const siteFrom = "gocty.FromCtyValue"
const siteTo = "gocty.ToCtyValue"
const siteImplied = "gocty.ImpliedType"

func (Driver) Run(c *core.Ctx) {
	fam := family()
	nts := numTargets()
	n := int64(c.N(64000, 600000))
	for i := int64(0); i < n; i++ {
		if !c.Want(i) {
			continue
		}
		r := c.RNG(i)
		switch k := r.Intn(20); {
		case k < 8: // (a) round trip
			e := fam[r.Intn(len(fam))]
			g := e.generate(r)
			var dirty *reflect.Value
			if r.Chance(1, 3) {
				d := e.generate(r)
				dirty = &d
			}
			roundTrip(c, i, e, g, dirty, r.Chance(1, 4))
		case k < 13: // (b) number x numeric target
			nc := randNumber(r)
			t := nts[r.Intn(len(nts))]
			decodeCase(c, i, "num", nc.v, t, dirtyFor(r, t, 3), nc.class)
		default: // (c) value x target
			v, t, src := valueAndTarget(r, fam)
			decodeCase(c, i, "val", v, t, dirtyFor(r, t, 4), src)
		}
	}
	// seed-independent enumerations, split between the batches
	runEnumerations(c, fam, nts)
	runTagCases(c, 5_000_000_000)
	if c.Batch == 0 {
		runCorpus(c, 3_000_000_000)
	}
}

// dirtyFor returns (with chance 1/den) a previously populated target of type t.
func dirtyFor(r *core.Rand, t reflect.Type, den int) *reflect.Value {
	if !r.Chance(1, den) {
		return nil
	}
	d := generateFor(r, t)
	return &d
}

// generateFor generates a Go value of any type of the family (or a numeric target).
func generateFor(r *core.Rand, t reflect.Type) reflect.Value {
	for _, e := range family() {
		if e.t == t {
			return e.generate(r)
		}
	}
	return gen.GoValue(r, t, gen.GoValueOpts{NilPct: 15})
}

// runEnumerations: (1) ImpliedType over the whole family, (2) number corpus x
// every numeric target (zero target and populated target), (3) value corpus x
// every target type of the family.
func runEnumerations(c *core.Ctx, fam []entry, nts []reflect.Type) {
	idx := int64(1_000_000_000)
	if c.Batch == 0 {
		for _, e := range fam {
			if c.Want(idx) {
				c.Begin(idx, func() string { return "ImpliedType(" + e.name + ")" })
				impliedCheck(c, e, reflect.New(e.t).Elem())
				c.BulkDistinct(1)
			}
			idx++
		}
		c.Exhaustive(fmt.Sprintf("ImpliedType over the %d Go types of the family", len(fam)))
	}
	idx = 1_100_000_000
	nums := numCorpus()
	for k, nc := range nums {
		for j, t := range nts {
			id := idx + int64(k*len(nts)+j)
			if !c.Mine(id) || !c.Want(id) {
				continue
			}
			var dirty *reflect.Value
			if (k+j)%3 == 0 {
				d := reflect.New(t).Elem()
				fillNumeric(d)
				dirty = &d
			}
			decodeCase(c, id, "num", nc.v, t, dirty, nc.class)
		}
	}
	if c.Batch == 0 {
		c.Exhaustive(fmt.Sprintf("number corpus (%d boundary numbers) x %d numeric target types", len(nums), len(nts)))
	}
	idx = 2_000_000_000
	vals := valueCorpus()
	for k, vc := range vals {
		for j, e := range fam {
			id := idx + int64(k*len(fam)+j)
			if !c.Mine(id) || !c.Want(id) {
				continue
			}
			decodeCase(c, id, "val", vc.v, e.t, nil, "corpus:"+vc.note)
		}
	}
	if c.Batch == 0 {
		c.Exhaustive(fmt.Sprintf("value corpus (%d values) x %d target types of the family", len(vals), len(fam)))
	}
}

// fillNumeric puts a recognisable non-zero number behind a numeric target
// (allocating pointers), so that "stored" can be told from "left alone".
func fillNumeric(v reflect.Value) {
	for v.Kind() == reflect.Ptr {
		v.Set(reflect.New(v.Type().Elem()))
		v = v.Elem()
	}
	switch {
	case isSignedKind(v.Kind()):
		v.SetInt(77)
	case isIntKind(v.Kind()):
		v.SetUint(77)
	case isFloatKind(v.Kind()):
		v.SetFloat(77.5)
	}
}

// ---- (a) round trip ---------------------------------------------------------

func impliedCheck(c *core.Ctx, e entry, g reflect.Value) (cty.Type, bool) {
	if e.explicit != nil {
		return *e.explicit, true
	}
	var ty cty.Type
	var err error
	o := core.Guard(func() { ty, err = gocty.ImpliedType(g.Interface()) })
	c.Eval(1)
	c.Count("op:ImpliedType")
	switch {
	case o.Panicked:
		c.Violate(siteImplied, "panic: "+core.PanicClass(o.PanicMsg), e.name, e.name, o.PanicMsg+"\n"+o.Stack)
		return ty, false
	case err != nil:
		c.Violate(siteImplied, "refused a Go type of the documented mapping", e.name, e.name, err.Error())
		return ty, false
	}
	want := shapeType(e.t)
	if !model.TypeEq(model.TNodeOf(ty), model.TNodeOf(want)) {
		c.Violate(siteImplied, "implied type differs from the documented mapping", e.name, e.name, fmt.Sprintf("got %#v, documented mapping gives %#v", ty, want))
		return ty, false
	}
	c.Count("held:implied-type")
	return ty, true
}

func isZeroGo(v reflect.Value) bool {
	z := false
	core.Guard(func() { z = v.IsZero() })
	return z
}

func roundTrip(c *core.Ctx, idx int64, e entry, g reflect.Value, dirty *reflect.Value, viaPtr bool) {
	how := "zero-target"
	if dirty != nil {
		how = "populated-target"
	}
	desc := func() string {
		s := fmt.Sprintf("round trip %s: %s [%s", e.name, goText(g), how)
		if dirty != nil {
			s += " " + goText(*dirty)
		}
		if viaPtr {
			s += ", passed by pointer"
		}
		return s + "]"
	}
	c.Begin(idx, desc)
	c.Count("kind:round-trip")
	c.Count("roundtrip-type:" + e.name)
	c.Count("roundtrip:" + how)
	nontrivial := false
	defer func() { c.Distinct(desc(), nontrivial) }()

	in := g.Interface()
	if viaPtr {
		in = g.Addr().Interface()
		c.Count("roundtrip:passed-by-pointer")
	}
	ty, ok := impliedCheck(c, e, g)
	if !ok {
		return
	}
	var v cty.Value
	var err error
	o := core.Guard(func() { v, err = gocty.ToCtyValue(in, ty) })
	c.Eval(1)
	c.Count("op:ToCtyValue")
	switch {
	case o.Panicked:
		c.Violate(siteTo, "panic: "+core.PanicClass(o.PanicMsg), e.name, desc(), o.PanicMsg+"\n"+o.Stack)
		return
	case err != nil:
		c.Violate(siteTo, "refused a Go value of the family", e.name, desc(), "error: "+err.Error())
		return
	}
	if w := mon.WellFormed(v); w != "" {
		c.CrossNote("C06", siteTo+": "+w, desc())
	}
	if !model.Conforms(model.TNodeOf(v.Type()), model.TNodeOf(ty)) {
		c.Violate(siteTo, "result does not conform to the requested type", e.name, desc(), fmt.Sprintf("result %#v, requested %#v", v, ty))
		return
	}
	if w, cls := holds(v, g, false, "$"); w != "" {
		c.Violate(siteTo, "cty value does not carry the Go value exactly", cls, desc(), fmt.Sprintf("%s; cty value %#v", w, v))
		return
	}
	c.Count("held:encode-exact")

	target := reflect.New(e.t).Elem()
	var kept reflect.Value
	keptText := ""
	if dirty != nil {
		target = *dirty
	}
	if dirty != nil && storageOnly(e.t) {
		// (only for types whose shared storage is slices and maps: a non-nil pointer in a target is documented
		// to be populated in place, so a kept copy legitimately sees the new pointee)
		// what a caller holds who kept the result of an earlier decode into this target: a copy of the variable,
		// sharing backing arrays, maps and pointees with it
		kept = reflect.New(e.t).Elem()
		kept.Set(*dirty)
		keptText = goText(kept)
	}
	o = core.Guard(func() { err = gocty.FromCtyValue(v, target.Addr().Interface()) })
	c.Eval(1)
	c.Count("op:FromCtyValue")
	if kept.IsValid() && !o.Panicked && err == nil {
		c.Count("clause:earlier-content-of-the-target-untouched")
		if now := goText(kept); now != keptText {
			c.Violate(siteFrom, "decoding into a used target rewrote the value it held before (still held by the caller)", "earlier-result:"+e.name, desc(),
				fmt.Sprintf("the target held %s; after decoding %#v into it, the copy kept by the caller reads %s", keptText, v, now))
			return
		}
	}
	switch {
	case o.Panicked:
		c.Violate(siteFrom, "panic: "+core.PanicClass(o.PanicMsg), "round-trip:"+e.name, desc(), fmt.Sprintf("encoded as %#v; %s\n%s", v, o.PanicMsg, o.Stack))
		return
	case err != nil:
		c.Violate(siteFrom, "round trip refused: the encoding of a Go value does not decode into its own type", errClass(err, v, e.t), desc(),
			fmt.Sprintf("encoded as %#v; error: %s", v, errText(err)))
		return
	}
	if w, cls := diff(g, target, "$"); w != "" {
		c.Violate(siteFrom, "round trip changed the Go value", cls, desc(), fmt.Sprintf("%s; encoded as %#v; decoded %s", w, v, goText(target)))
		return
	}
	nfc := nullFormChanged(g, target)
	if nfc {
		c.Count("observed:null-carried-by-another-go-form")
	}
	if e.plain && !nfc && !reflect.DeepEqual(g.Interface(), target.Interface()) {
		c.Violate(siteFrom, "round trip changed the Go value", "reflect.DeepEqual", desc(), fmt.Sprintf("reflect.DeepEqual is false; decoded %s", goText(target)))
		return
	}
	if e.hasFloat && signOfZeroLost(g, target) {
		c.Count("observed:sign-of-zero-not-preserved")
	}
	c.Count("held:round-trip")
	nontrivial = !isZeroGo(g)
	if nontrivial {
		c.Count("nontrivial:round-trip")
	}
	if c.WantSample() && nontrivial && c.Batch%4 == 0 {
		c.Sample(map[string]any{"kind": "round-trip", "go_type": e.name, "go_value": goText(g), "cty_type": fmt.Sprintf("%#v", ty), "cty_value": fmt.Sprintf("%#v", v), "target": how})
	}
}

// ---- (b), (c): decoding a value into a target --------------------------------

func errText(err error) string {
	if pe, ok := err.(cty.PathError); ok {
		return fmt.Sprintf("%s (at path of %d steps)", pe.Error(), len(pe.Path))
	}
	return err.Error()
}

// goClass names a Go type for classes, keeping the pointer levels.
func goClass(t reflect.Type) string {
	s := ""
	for t.Kind() == reflect.Ptr {
		s += "*"
		t = t.Elem()
	}
	return s + kindName(t)
}

// valueClass names the shape of a cty value for classes.
func valueClass(v cty.Value) string {
	switch {
	case !v.IsKnown():
		return "unknown"
	case v.IsNull():
		return "null-" + typeKindName(v.Type())
	case v.Type() == cty.Number:
		return "number(" + numShape(v.AsBigFloat()) + ")"
	case (v.Type().IsListType() || v.Type().IsSetType() || v.Type().IsMapType()) && v.LengthInt() == 0:
		return "empty-" + typeKindName(v.Type())
	}
	return ctyKindName(v)
}

func typeKindName(ty cty.Type) string {
	switch {
	case ty == cty.DynamicPseudoType:
		return "dynamic"
	case ty == cty.Bool:
		return "bool"
	case ty == cty.Number:
		return "number"
	case ty == cty.String:
		return "string"
	case ty.IsListType():
		return "list"
	case ty.IsSetType():
		return "set"
	case ty.IsMapType():
		return "map"
	case ty.IsObjectType():
		return "object"
	case ty.IsTupleType():
		return "tuple"
	case ty.IsCapsuleType():
		return "capsule"
	}
	return "other"
}

// errClass walks the error's path through the value and the target type and
// names what met what at the position that was refused.
func errClass(err error, v cty.Value, t reflect.Type) string {
	var path cty.Path
	if pe, ok := err.(cty.PathError); ok {
		path = pe.Path
	}
walk:
	for _, step := range path {
		for t.Kind() == reflect.Ptr {
			t = t.Elem()
		}
		if t == gen.GoCtyValueType || !v.IsKnown() || v.IsNull() {
			break
		}
		ty := v.Type()
		switch s := step.(type) {
		case cty.GetAttrStep:
			if !ty.IsObjectType() || !ty.HasAttribute(s.Name) || t.Kind() != reflect.Struct {
				break walk
			}
			fi, ok := tagIndex(t)[s.Name]
			if !ok {
				return "attribute-without-field->struct"
			}
			v, t = v.GetAttr(s.Name), t.Field(fi).Type
		case cty.IndexStep:
			k := s.Key
			if !k.IsKnown() || k.IsNull() {
				break walk
			}
			switch {
			case (ty.IsListType() || ty.IsTupleType()) && k.Type() == cty.Number:
				i, _ := k.AsBigFloat().Int64()
				if i < 0 || int(i) >= v.LengthInt() {
					break walk
				}
				switch t.Kind() {
				case reflect.Slice, reflect.Array:
					t = t.Elem()
				case reflect.Struct:
					if int(i) >= t.NumField() {
						break walk
					}
					t = t.Field(int(i)).Type
				default:
					break walk
				}
				v = v.Index(k)
			case ty.IsMapType() && k.Type() == cty.String && t.Kind() == reflect.Map:
				if v.HasIndex(k).False() {
					break walk
				}
				v, t = v.Index(k), t.Elem()
			default:
				break walk
			}
		default:
			break walk
		}
	}
	return valueClass(v) + "->" + goClass(t)
}

func decodeCase(c *core.Ctx, idx int64, kind string, v cty.Value, t reflect.Type, dirty *reflect.Value, src string) {
	how := "zero-target"
	if dirty != nil {
		how = "populated-target"
	}
	desc := func() string {
		s := fmt.Sprintf("FromCtyValue(%#v, *%s) [%s", v, t, how)
		if dirty != nil {
			s += " " + goText(*dirty)
		}
		return s + "; source " + src + "]"
	}
	c.Begin(idx, desc)
	c.Count("kind:" + kind)
	c.Count(kind + ":" + how)
	nontrivial := false
	defer func() { c.Distinct(desc(), nontrivial) }()

	want, pcls := predict(v, t)
	target := reflect.New(t).Elem()
	if dirty != nil {
		target = *dirty
	}
	var err error
	o := core.Guard(func() { err = gocty.FromCtyValue(v, target.Addr().Interface()) })
	c.Eval(1)
	c.Count("op:FromCtyValue")
	top := ctyKindName(v) + "->" + kindName(t)
	if kind == "num" {
		c.Count("num-target:" + goClass(t))
		c.Count("num-source:" + strings.SplitN(src, ":", 2)[0])
	} else {
		c.Count("val-pair:" + top)
		c.Count("val-source:" + strings.SplitN(src, ":", 2)[0])
	}
	if o.Panicked {
		cls := pcls
		if cls == "" {
			cls = top
		}
		c.Count("outcome:" + kind + ":panic")
		c.Violate(siteFrom, "panic: "+core.PanicClass(o.PanicMsg), cls, desc(), fmt.Sprintf("predicted %s; %s\n%s", want, o.PanicMsg, o.Stack))
		return
	}
	got := "accepted"
	if err != nil {
		got = "refused"
	}
	c.Count(fmt.Sprintf("outcome:%s:predicted-%s:%s", kind, want, got))
	if kind == "num" && pcls != "" {
		c.Count("num-class:" + pcls + ":" + got)
	}
	if want == vFree {
		c.Count("left-open:" + pcls + ":" + got)
	}
	switch {
	case want == vErr && err == nil:
		c.Violate(siteFrom, "accepted a value that must be refused", pcls, desc(), fmt.Sprintf("no error; target now %s", goText(target)))
		return
	case want == vOK && err != nil:
		c.Violate(siteFrom, "refused a value that fits the target", errClass(err, v, t), desc(), "error: "+errText(err))
		return
	}
	if err == nil && (want == vOK || dirty == nil) {
		// whatever was accepted must now be carried by the target: no silent loss
		if w, cls := holds(v, target, true, "$"); w != "" {
			c.Violate(siteFrom, "accepted, but the target does not hold the value", cls, desc(), fmt.Sprintf("%s; target now %s", w, goText(target)))
			return
		}
		c.Count("held:" + kind + ":target-holds-value")
	}
	if err != nil {
		c.Count("held:" + kind + ":refused-as-predicted-or-open")
	}
	nontrivial = want != vFree
	if nontrivial {
		c.Count("nontrivial:" + kind)
	}
	if c.WantSample() && nontrivial && c.Batch%4 == 1 {
		m := map[string]any{"kind": kind, "value": fmt.Sprintf("%#v", v), "target_type": t.String(), "predicted": want.String(), "observed": got, "source": src}
		if err != nil {
			m["error"] = err.Error()
		} else {
			m["target_after"] = goText(target)
		}
		c.Sample(m)
	}
}

// storageOnly: t has a slice or a map somewhere and no pointer, interface, big number or cty.Value anywhere.
func storageOnly(t reflect.Type) bool {
	has := false
	var ok func(t reflect.Type, depth int) bool
	ok = func(t reflect.Type, depth int) bool {
		if depth > 8 {
			return false
		}
		switch t {
		case gen.GoCtyValueType, gen.GoBigIntType, gen.GoBigFloatType:
			return false
		}
		switch t.Kind() {
		case reflect.Ptr, reflect.Interface, reflect.Func, reflect.Chan, reflect.UnsafePointer:
			return false
		case reflect.Slice:
			has = true
			return ok(t.Elem(), depth+1)
		case reflect.Array:
			return ok(t.Elem(), depth+1)
		case reflect.Map:
			has = true
			return ok(t.Key(), depth+1) && ok(t.Elem(), depth+1)
		case reflect.Struct:
			for i := 0; i < t.NumField(); i++ {
				if !ok(t.Field(i).Type, depth+1) {
					return false
				}
			}
		}
		return true
	}
	return ok(t, 0) && has
}
