package c18

import (
	"fmt"
	"math"
	"math/big"
	"reflect"

	"github.com/zclconf/go-cty/cty"

	"verif/harness/core"
	"verif/harness/gen"
	"verif/harness/mon"
)

// ctyLeafEqual: a cty.Value that was passed through must be the same value.
func ctyLeafEqual(a, b cty.Value) bool {
	if a == cty.NilVal || b == cty.NilVal {
		return a == cty.NilVal && b == cty.NilVal
	}
	if reflect.DeepEqual(a, b) {
		return true
	}
	ok := false
	core.Guard(func() { ok = mon.ModelEqual(a, b) })
	return ok
}

// diff compares two Go values of the same type the way the property does:
// reflect.DeepEqual semantics (nil-ness of pointers, slices and maps is
// significant), except that cty.Value leaves are compared as cty values and
// big numbers numerically. It returns "" when equal, otherwise where and what
// differs, plus a narrow class.
func diff(want, got reflect.Value, path string) (string, string) {
	t := want.Type()
	switch t {
	case gen.GoCtyValueType:
		a, b := want.Interface().(cty.Value), got.Interface().(cty.Value)
		if !ctyLeafEqual(a, b) {
			return fmt.Sprintf("%s: cty.Value %#v became %#v", path, a, b), "dynamic-value-differs"
		}
		return "", ""
	case gen.GoBigIntType:
		a, b := want.Interface().(big.Int), got.Interface().(big.Int)
		if a.Cmp(&b) != 0 {
			return fmt.Sprintf("%s: big.Int %s became %s", path, a.String(), b.String()), "big.Int-value-differs"
		}
		return "", ""
	case gen.GoBigFloatType:
		a, b := want.Interface().(big.Float), got.Interface().(big.Float)
		if a.Cmp(&b) != 0 {
			return fmt.Sprintf("%s: big.Float %s became %s", path, a.Text('p', 0), b.Text('p', 0)), "big.Float-value-differs"
		}
		return "", ""
	}
	switch t.Kind() {
	case reflect.Ptr:
		if nullish(want) && nullish(got) {
			// *[]T, *map[..]T, **T have several Go forms of null (nil pointer, pointer
			// to nil); all of them encode as the same null, so no decoder can
			// reproduce each of them: any null form is accepted for any other.
			return "", ""
		}
		if want.IsNil() != got.IsNil() {
			if want.IsNil() {
				return path + ": nil pointer became non-nil", "nil-pointer-became-non-nil:" + kindName(t)
			}
			return path + ": non-nil pointer became nil", "pointer-became-nil:" + kindName(t)
		}
		if want.IsNil() {
			return "", ""
		}
		return diff(want.Elem(), got.Elem(), path+".*")
	case reflect.Slice:
		if want.IsNil() != got.IsNil() {
			if want.IsNil() {
				return path + ": nil slice became non-nil", "nil-slice-became-non-nil"
			}
			return path + ": non-nil slice became nil", "slice-became-nil"
		}
		fallthrough
	case reflect.Array:
		if want.Len() != got.Len() {
			return fmt.Sprintf("%s: length %d became %d", path, want.Len(), got.Len()), "length-differs"
		}
		for i := 0; i < want.Len(); i++ {
			if w, c := diff(want.Index(i), got.Index(i), fmt.Sprintf("%s[%d]", path, i)); w != "" {
				return w, c
			}
		}
		return "", ""
	case reflect.Map:
		if want.IsNil() != got.IsNil() {
			if want.IsNil() {
				return path + ": nil map became non-nil", "nil-map-became-non-nil"
			}
			return path + ": non-nil map became nil", "map-became-nil"
		}
		if want.Len() != got.Len() {
			return fmt.Sprintf("%s: map length %d became %d", path, want.Len(), got.Len()), "map-keys-differ"
		}
		for _, k := range want.MapKeys() {
			g := got.MapIndex(k)
			if !g.IsValid() {
				return fmt.Sprintf("%s: key %q lost", path, k.String()), "map-keys-differ"
			}
			if w, c := diff(want.MapIndex(k), g, fmt.Sprintf("%s[%q]", path, k.String())); w != "" {
				return w, c
			}
		}
		return "", ""
	case reflect.Struct:
		for i := 0; i < t.NumField(); i++ {
			if w, c := diff(want.Field(i), got.Field(i), path+"."+t.Field(i).Name); w != "" {
				return w, c
			}
		}
		return "", ""
	case reflect.Bool:
		if want.Bool() != got.Bool() {
			return fmt.Sprintf("%s: %v became %v", path, want.Bool(), got.Bool()), "bool-value-differs"
		}
	case reflect.String:
		if want.String() != got.String() {
			return fmt.Sprintf("%s: %q became %q", path, want.String(), got.String()), "string-value-differs"
		}
	case reflect.Int, reflect.Int8, reflect.Int16, reflect.Int32, reflect.Int64:
		if want.Int() != got.Int() {
			return fmt.Sprintf("%s: %d became %d", path, want.Int(), got.Int()), t.Kind().String() + "-value-differs"
		}
	case reflect.Uint, reflect.Uint8, reflect.Uint16, reflect.Uint32, reflect.Uint64:
		if want.Uint() != got.Uint() {
			return fmt.Sprintf("%s: %d became %d", path, want.Uint(), got.Uint()), t.Kind().String() + "-value-differs"
		}
	case reflect.Float32, reflect.Float64:
		if want.Float() != got.Float() {
			return fmt.Sprintf("%s: %b became %b", path, want.Float(), got.Float()), t.Kind().String() + "-value-differs"
		}
	default:
		return path + ": unsupported kind " + t.Kind().String(), "other"
	}
	return "", ""
}

// signOfZeroLost reports whether some float leaf changed the sign of a zero
// (equal under ==, so not a violation; counted).
func signOfZeroLost(want, got reflect.Value) bool {
	lost := false
	var walk func(a, b reflect.Value)
	walk = func(a, b reflect.Value) {
		if lost || isSpecial(a.Type()) {
			return
		}
		switch a.Kind() {
		case reflect.Float32, reflect.Float64:
			if a.Float() == 0 && b.Float() == 0 && math.Signbit(a.Float()) != math.Signbit(b.Float()) {
				lost = true
			}
		case reflect.Ptr:
			if !a.IsNil() && !b.IsNil() {
				walk(a.Elem(), b.Elem())
			}
		case reflect.Slice, reflect.Array:
			for i := 0; i < a.Len() && i < b.Len(); i++ {
				walk(a.Index(i), b.Index(i))
			}
		case reflect.Map:
			for _, k := range a.MapKeys() {
				if e := b.MapIndex(k); e.IsValid() {
					walk(a.MapIndex(k), e)
				}
			}
		case reflect.Struct:
			for i := 0; i < a.NumField(); i++ {
				walk(a.Field(i), b.Field(i))
			}
		}
	}
	walk(want, got)
	return lost
}

// holds decides whether the Go value g carries exactly the cty value v under
// the documented mapping (null <-> nil pointer / slice / map; list and set <->
// slice or array; map <-> map; object <-> struct by tags; tuple <-> struct by
// position; dynamic <-> cty.Value verbatim). With decode=false numbers must be
// exactly equal (Go -> cty is exact for every Go number); with decode=true a
// float leaf must hold the correct rounding of the number.
// It returns "" or where/what is wrong, plus a narrow class.
func holds(v cty.Value, g reflect.Value, decode bool, path string) (string, string) {
	for g.Kind() == reflect.Ptr {
		if g.IsNil() {
			if v.IsNull() {
				return "", ""
			}
			return fmt.Sprintf("%s: nil pointer, value is %#v", path, v), "non-null-as-nil-pointer"
		}
		g = g.Elem()
	}
	t := g.Type()
	if t == gen.GoCtyValueType {
		if gv := g.Interface().(cty.Value); !ctyLeafEqual(gv, v) {
			return fmt.Sprintf("%s: cty.Value leaf is %#v, value is %#v", path, gv, v), "dynamic-value-differs"
		}
		return "", ""
	}
	if !v.IsKnown() {
		return fmt.Sprintf("%s: an unknown value cannot be carried by Go type %s", path, t), "unknown-carried"
	}
	if v.IsNull() {
		if (g.Kind() == reflect.Slice || g.Kind() == reflect.Map) && g.IsNil() {
			return "", ""
		}
		return fmt.Sprintf("%s: null carried by a non-nil %s", path, t), "null-as-non-nil-" + kindName(t)
	}
	if (g.Kind() == reflect.Slice || g.Kind() == reflect.Map) && g.IsNil() {
		return fmt.Sprintf("%s: nil %s, value is %#v", path, g.Kind(), v), "non-null-as-nil-" + g.Kind().String()
	}
	ty := v.Type()
	switch {
	case ty == cty.Bool:
		if g.Kind() != reflect.Bool {
			break
		}
		if g.Bool() != v.True() {
			return fmt.Sprintf("%s: bool %v, value is %#v", path, g.Bool(), v), "bool-value-differs"
		}
		return "", ""
	case ty == cty.String:
		if g.Kind() != reflect.String {
			break
		}
		if g.String() != v.AsString() {
			return fmt.Sprintf("%s: string %q, value is %q", path, g.String(), v.AsString()), "string-value-differs"
		}
		return "", ""
	case ty == cty.Number:
		if !(isIntKind(g.Kind()) || isFloatKind(g.Kind()) || isBig(t)) {
			break
		}
		bf := v.AsBigFloat()
		if !decode && isFloatKind(g.Kind()) {
			f := g.Float()
			same := false
			switch {
			case math.IsInf(f, 0):
				same = bf.IsInf() && bf.Signbit() == (f < 0)
			case bf.IsInf():
			default:
				same = new(big.Float).SetFloat64(f).Cmp(bf) == 0
			}
			if !same {
				return fmt.Sprintf("%s: float %b, number is %s", path, f, bf.Text('g', 40)), t.Kind().String() + "-value-differs"
			}
			return "", ""
		}
		ex := expectNumber(bf, t)
		if ex.v == vErr {
			return fmt.Sprintf("%s: number %s is not representable in %s (%s)", path, bf.Text('g', 40), t, ex.class), ex.class
		}
		if w, c := checkStored(bf, ex, g); w != "" {
			return path + ": " + w, c
		}
		return "", ""
	case ty.IsListType() || ty.IsSetType():
		if g.Kind() != reflect.Slice && g.Kind() != reflect.Array {
			break
		}
		es := v.AsValueSlice()
		if len(es) != g.Len() {
			return fmt.Sprintf("%s: %d Go elements, value has %d", path, g.Len(), len(es)), "length-differs"
		}
		if ty.IsListType() {
			for i, e := range es {
				if w, c := holds(e, g.Index(i), decode, fmt.Sprintf("%s[%d]", path, i)); w != "" {
					return w, c
				}
			}
			return "", ""
		}
		// sets: any order
		used := make([]bool, g.Len())
		for _, e := range es {
			found := false
			var fw, fc string
			for j := 0; j < g.Len(); j++ {
				if used[j] {
					continue
				}
				w, c := holds(e, g.Index(j), decode, fmt.Sprintf("%s[%d]", path, j))
				if w == "" {
					used[j], found = true, true
					break
				}
				fw, fc = w, c
			}
			if !found {
				return fmt.Sprintf("%s: set member %#v has no counterpart (%s)", path, e, fw), fc
			}
		}
		return "", ""
	case ty.IsMapType():
		if g.Kind() != reflect.Map || g.Type().Key().Kind() != reflect.String {
			break
		}
		em := v.AsValueMap()
		if len(em) != g.Len() {
			return fmt.Sprintf("%s: %d Go keys, value has %d", path, g.Len(), len(em)), "map-keys-differ"
		}
		for k, e := range em {
			kv := reflect.New(g.Type().Key()).Elem()
			kv.SetString(k)
			ge := g.MapIndex(kv)
			if !ge.IsValid() {
				return fmt.Sprintf("%s: key %q missing", path, k), "map-keys-differ"
			}
			if w, c := holds(e, ge, decode, fmt.Sprintf("%s[%q]", path, k)); w != "" {
				return w, c
			}
		}
		return "", ""
	case ty.IsObjectType():
		if g.Kind() != reflect.Struct || isBig(t) {
			break
		}
		tags := tagIndex(t)
		for k := range ty.AttributeTypes() {
			fi, ok := tags[k]
			if !ok {
				return fmt.Sprintf("%s: attribute %q has no tagged field in %s", path, k, t), "attribute-without-field"
			}
			if w, c := holds(v.GetAttr(k), g.Field(fi), decode, path+"."+k); w != "" {
				return w, c
			}
		}
		for k, fi := range tags {
			if !ty.HasAttribute(k) {
				f := g.Field(fi)
				switch f.Kind() {
				case reflect.Ptr, reflect.Slice, reflect.Map:
					if f.IsNil() {
						continue
					}
				}
				return fmt.Sprintf("%s: field tagged %q holds data but the value has no such attribute", path, k), "field-without-attribute"
			}
		}
		return "", ""
	case ty.IsTupleType():
		if g.Kind() != reflect.Struct || isBig(t) {
			break
		}
		ets := ty.TupleElementTypes()
		if len(ets) != t.NumField() {
			return fmt.Sprintf("%s: struct has %d fields, tuple has %d elements", path, t.NumField(), len(ets)), "length-differs"
		}
		for i := range ets {
			if w, c := holds(v.Index(cty.NumberIntVal(int64(i))), g.Field(i), decode, fmt.Sprintf("%s.%d", path, i)); w != "" {
				return w, c
			}
		}
		return "", ""
	}
	return fmt.Sprintf("%s: %s value cannot be carried by Go type %s", path, ty.FriendlyName(), t), ctyKindName(v) + "->" + kindName(t)
}

// kindName names a Go type for classes: the special struct types by name, the
// rest by kind.
func kindName(t reflect.Type) string {
	for t.Kind() == reflect.Ptr {
		t = t.Elem()
	}
	switch t {
	case gen.GoCtyValueType:
		return "cty.Value"
	case gen.GoBigIntType:
		return "big.Int"
	case gen.GoBigFloatType:
		return "big.Float"
	}
	return t.Kind().String()
}

func ctyKindName(v cty.Value) string {
	ty := v.Type()
	switch {
	case !v.IsKnown():
		return "unknown"
	case v.IsNull():
		return "null"
	case ty == cty.Bool:
		return "bool"
	case ty == cty.Number:
		return "number"
	case ty == cty.String:
		return "string"
	case ty.IsListType():
		return "list"
	case ty.IsSetType():
		return "set"
	case ty.IsMapType():
		return "map"
	case ty.IsObjectType():
		return "object"
	case ty.IsTupleType():
		return "tuple"
	case ty.IsCapsuleType():
		return "capsule"
	}
	return "other"
}

// nullish: v is a Go form of null: a nil pointer / slice / map, or a non-nil
// pointer to such a form.
func nullish(v reflect.Value) bool {
	if v.Type() == gen.GoCtyValueType {
		// a nil *cty.Value and a pointer to the null of unknown type have the same encoding
		x := v.Interface().(cty.Value)
		return x != cty.NilVal && x.Type() == cty.DynamicPseudoType && x.IsKnown() && x.IsNull()
	}
	switch v.Kind() {
	case reflect.Slice, reflect.Map:
		return v.IsNil()
	case reflect.Ptr:
		return v.IsNil() || nullish(v.Elem())
	}
	return false
}

// nullFormChanged: somewhere in the two values a null is carried by two
// different Go forms (nil pointer vs pointer to nil). Counted, not a violation.
func nullFormChanged(a, b reflect.Value) bool {
	if isSpecial(a.Type()) {
		return false
	}
	switch a.Kind() {
	case reflect.Ptr:
		if nullish(a) && nullish(b) {
			for a.Kind() == reflect.Ptr && b.Kind() == reflect.Ptr {
				if a.IsNil() != b.IsNil() {
					return true
				}
				if a.IsNil() {
					return false
				}
				a, b = a.Elem(), b.Elem()
			}
			return false
		}
		if !a.IsNil() && !b.IsNil() {
			return nullFormChanged(a.Elem(), b.Elem())
		}
	case reflect.Slice, reflect.Array:
		for i := 0; i < a.Len() && i < b.Len(); i++ {
			if nullFormChanged(a.Index(i), b.Index(i)) {
				return true
			}
		}
	case reflect.Map:
		for _, k := range a.MapKeys() {
			if e := b.MapIndex(k); e.IsValid() && nullFormChanged(a.MapIndex(k), e) {
				return true
			}
		}
	case reflect.Struct:
		for i := 0; i < a.NumField(); i++ {
			if nullFormChanged(a.Field(i), b.Field(i)) {
				return true
			}
		}
	}
	return false
}
