package c18

import (
	"fmt"
	"math/big"
	"reflect"
	"sort"
	"strconv"
	"strings"

	"github.com/zclconf/go-cty/cty"

	"verif/harness/core"
	"verif/harness/gen"
)

// ---- the fixed family of Go types ------------------------------------------

type Inner struct {
	N int32    `cty:"n"`
	S string   `cty:"s"`
	P *float64 `cty:"p"`
}

type Outer struct {
	Name string            `cty:"name"`
	In   Inner             `cty:"in"`
	PIn  *Inner            `cty:"pin"`
	L    []Inner           `cty:"l"`
	M    map[string]Inner  `cty:"m"`
	MP   map[string]*Inner `cty:"mp"`
	U8   uint8             `cty:"u8"`
	F32  float32           `cty:"f32"`
	B    bool              `cty:"b"`
	SS   []string          `cty:"ss"`
}

type AllNums struct {
	I   int     `cty:"i"`
	I8  int8    `cty:"i8"`
	I16 int16   `cty:"i16"`
	I32 int32   `cty:"i32"`
	I64 int64   `cty:"i64"`
	U   uint    `cty:"u"`
	U8  uint8   `cty:"u8"`
	U16 uint16  `cty:"u16"`
	U32 uint32  `cty:"u32"`
	U64 uint64  `cty:"u64"`
	F32 float32 `cty:"f32"`
	F64 float64 `cty:"f64"`
}

type PtrNums struct {
	I   *int     `cty:"i"`
	I8  *int8    `cty:"i8"`
	U16 *uint16  `cty:"u16"`
	U64 *uint64  `cty:"u64"`
	F32 *float32 `cty:"f32"`
	F64 *float64 `cty:"f64"`
	S   *string  `cty:"s"`
	B   *bool    `cty:"b"`
}

type WithDyn struct {
	Name string    `cty:"name"`
	V    cty.Value `cty:"v"`
	W    cty.Value `cty:"w"`
}

type DynNest struct {
	D  WithDyn            `cty:"d"`
	PD *WithDyn           `cty:"pd"`
	M  map[string]WithDyn `cty:"m"`
}

// BigHolder needs an explicit type: ImpliedType has no mapping for big numbers.
type BigHolder struct {
	I  big.Int    `cty:"i"`
	F  big.Float  `cty:"f"`
	PI *big.Int   `cty:"pi"`
	PF *big.Float `cty:"pf"`
}

// Tup is decoded from / encoded to a tuple (fields by position, no tags).
type Tup struct {
	A int
	B string
	C []bool
}

type TupNest struct {
	X Inner
	Y *Tup
}

type MyInt int16
type MyStr string
type MyBool bool
type MyF float32

type Named struct {
	I MyInt            `cty:"i"`
	S MyStr            `cty:"s"`
	B MyBool           `cty:"b"`
	F MyF              `cty:"f"`
	L []MyStr          `cty:"l"`
	M map[string]MyInt `cty:"m"`
}

// Two pairs of DIFFERENT struct types that print the same reflect.Type.String() ("c18.Rec", "c18.Pos"): types
// declared inside functions share their name. Anything keyed by the printed type name instead of the
// reflect.Type itself (a cache of tag indices, say) confuses the members of a pair.
func localRecA() reflect.Type {
	type Rec struct {
		A string `cty:"a"`
		B int    `cty:"b"`
	}
	return typeOf[Rec]()
}

func localRecB() reflect.Type {
	type Rec struct {
		B int     `cty:"b"`
		X bool    `cty:"x"`
		A string  `cty:"a"`
		Y float64 `cty:"y"`
	}
	return typeOf[Rec]()
}

func localPosA() reflect.Type {
	type Pos struct {
		Name string `cty:"name"`
		N    int8   `cty:"n"`
	}
	return typeOf[Pos]()
}

func localPosB() reflect.Type {
	type Pos struct {
		N    int8   `cty:"n"`
		Name string `cty:"name"`
	}
	return typeOf[Pos]()
}

// MixedTags: the cty key is not the first (or not the only) key of the struct tag.
type MixedTags struct {
	Name string            `json:"name" cty:"name"`
	Age  int               `json:"age,omitempty" yaml:"age" cty:"age"`
	Tags []string          `cty:"tags" json:"tags"`
	M    map[string]*int16 `xml:"m,attr"  cty:"m"`
	In   *Inner            `json:"-" cty:"in"`
}

type entry struct {
	name     string
	t        reflect.Type
	explicit *cty.Type // nil: the type comes from ImpliedType
	plain    bool      // no cty.Value / big leaves: reflect.DeepEqual is the comparator
	hasFloat bool
	gen      func(r *core.Rand) reflect.Value // custom generator (nil: gen.GoValue)
}

func typeOf[T any]() reflect.Type { var z T; return reflect.TypeOf(&z).Elem() }

var familyCache []entry

// family returns the fixed family of Go types (seed-independent).
func family() []entry {
	if familyCache != nil {
		return familyCache
	}
	var f []entry
	add := func(t reflect.Type) { f = append(f, entry{t: t}) }
	addX := func(t reflect.Type, ty cty.Type) { f = append(f, entry{t: t, explicit: &ty}) }

	// all numeric kinds, string, bool, and pointers to each
	add(typeOf[int]())
	add(typeOf[int8]())
	add(typeOf[int16]())
	add(typeOf[int32]())
	add(typeOf[int64]())
	add(typeOf[uint]())
	add(typeOf[uint8]())
	add(typeOf[uint16]())
	add(typeOf[uint32]())
	add(typeOf[uint64]())
	add(typeOf[float32]())
	add(typeOf[float64]())
	add(typeOf[string]())
	add(typeOf[bool]())
	add(typeOf[*int]())
	add(typeOf[*int8]())
	add(typeOf[*int16]())
	add(typeOf[*int32]())
	add(typeOf[*int64]())
	add(typeOf[*uint]())
	add(typeOf[*uint8]())
	add(typeOf[*uint16]())
	add(typeOf[*uint32]())
	add(typeOf[*uint64]())
	add(typeOf[*float32]())
	add(typeOf[*float64]())
	add(typeOf[*string]())
	add(typeOf[*bool]())
	// named types of each primitive kind
	add(typeOf[MyInt]())
	add(typeOf[MyStr]())
	add(typeOf[MyBool]())
	add(typeOf[MyF]())
	add(typeOf[*MyInt]())
	add(typeOf[Named]())
	add(typeOf[**int]())
	// slices
	add(typeOf[[]int]())
	add(typeOf[[]string]())
	add(typeOf[[]float64]())
	add(typeOf[[]float32]())
	add(typeOf[[]bool]())
	add(typeOf[[]uint8]())
	add(typeOf[[]*int]())
	add(typeOf[[][]string]())
	add(typeOf[*[]int]())
	// string-keyed maps
	add(typeOf[map[string]int]())
	add(typeOf[map[string]string]())
	add(typeOf[map[string]*bool]())
	add(typeOf[map[string][]int16]())
	add(typeOf[map[string]map[string]uint32]())
	add(typeOf[*map[string]string]())
	// tagged structs, nested, and pointers to them
	add(typeOf[Inner]())
	add(typeOf[*Inner]())
	add(typeOf[Outer]())
	add(typeOf[*Outer]())
	add(typeOf[AllNums]())
	add(typeOf[PtrNums]())
	add(typeOf[[]Inner]())
	add(typeOf[map[string]*Outer]())
	add(typeOf[MixedTags]())
	add(typeOf[[]MixedTags]())
	// same printed name, different types (see localRecA)
	add(localRecA())
	add(localRecB())
	add(localPosA())
	add(localPosB())
	add(reflect.SliceOf(localRecB()))
	// embedded dynamic values
	add(typeOf[cty.Value]())
	add(typeOf[WithDyn]())
	add(typeOf[*WithDyn]())
	add(typeOf[*cty.Value]())
	f = append(f, entry{t: typeOf[DynNest](), gen: genDynNest})
	f = append(f, entry{t: typeOf[[]cty.Value](), gen: genDynSlice})
	f = append(f, entry{t: typeOf[map[string]cty.Value](), gen: genDynMap})
	// arrays and big numbers: explicit types (ImpliedType has no mapping for them)
	addX(typeOf[[3]int](), cty.List(cty.Number))
	addX(typeOf[[2]string](), cty.List(cty.String))
	addX(typeOf[[0]bool](), cty.List(cty.Bool))
	addX(typeOf[[2][]int8](), cty.List(cty.List(cty.Number)))
	addX(typeOf[*[2]Inner](), cty.List(shapeType(typeOf[Inner]())))
	addX(typeOf[[2]*int](), cty.List(cty.Number))
	addX(typeOf[[]big.Float](), cty.List(cty.Number))
	addX(typeOf[map[string]*big.Int](), cty.Map(cty.Number))
	addX(typeOf[big.Int](), cty.Number)
	addX(typeOf[big.Float](), cty.Number)
	addX(typeOf[*big.Int](), cty.Number)
	addX(typeOf[*big.Float](), cty.Number)
	addX(typeOf[BigHolder](), cty.Object(map[string]cty.Type{"i": cty.Number, "f": cty.Number, "pi": cty.Number, "pf": cty.Number}))
	addX(typeOf[[]big.Int](), cty.List(cty.Number))
	// structs as tuples: explicit tuple types
	addX(typeOf[Tup](), shapeType(typeOf[Tup]()))
	addX(typeOf[*Tup](), shapeType(typeOf[Tup]()))
	addX(typeOf[TupNest](), cty.Tuple([]cty.Type{shapeType(typeOf[Inner]()), shapeType(typeOf[Tup]())}))

	seen := map[string]int{}
	for i := range f {
		f[i].name = f[i].t.String()
		seen[f[i].name]++
		if n := seen[f[i].name]; n > 1 {
			f[i].name += "#" + strconv.Itoa(n) // a second type that prints the same name
		}
		f[i].plain = !hasLeaf(f[i].t, func(t reflect.Type) bool {
			return t == gen.GoCtyValueType || t == gen.GoBigIntType || t == gen.GoBigFloatType
		})
		f[i].hasFloat = hasLeaf(f[i].t, func(t reflect.Type) bool {
			return t.Kind() == reflect.Float32 || t.Kind() == reflect.Float64
		})
	}
	familyCache = f
	return f
}

func entryByName(name string) entry {
	for _, e := range family() {
		if e.name == name {
			return e
		}
	}
	panic("c18: no family entry " + name)
}

func hasLeaf(t reflect.Type, pred func(reflect.Type) bool) bool {
	if pred(t) {
		return true
	}
	if isSpecial(t) {
		return false
	}
	switch t.Kind() {
	case reflect.Ptr, reflect.Slice, reflect.Array, reflect.Map:
		return hasLeaf(t.Elem(), pred)
	case reflect.Struct:
		for i := 0; i < t.NumField(); i++ {
			if hasLeaf(t.Field(i).Type, pred) {
				return true
			}
		}
	}
	return false
}

func isSpecial(t reflect.Type) bool {
	return t == gen.GoCtyValueType || t == gen.GoBigIntType || t == gen.GoBigFloatType
}

func isBig(t reflect.Type) bool { return t == gen.GoBigIntType || t == gen.GoBigFloatType }

// genDynSlice / genDynMap: a cty list or map needs one element type, so the
// dynamic members of a Go slice / map of cty.Value all get the same type.
func genDynSlice(r *core.Rand) reflect.Value {
	v := reflect.New(typeOf[[]cty.Value]()).Elem()
	if r.Chance(15, 100) {
		return v
	}
	ty := gen.Type(r, 2, gen.TypeOpts{}).Cty()
	n := r.Intn(4)
	s := make([]cty.Value, n)
	for i := range s {
		s[i] = gen.Value(r, ty, gen.ValueOpts{UnknownPct: 10, NullPct: 10, Refined: true, MaxLen: 2})
	}
	v.Set(reflect.ValueOf(s))
	return v
}

func genDynMap(r *core.Rand) reflect.Value {
	v := reflect.New(typeOf[map[string]cty.Value]()).Elem()
	if r.Chance(15, 100) {
		return v
	}
	ty := gen.Type(r, 2, gen.TypeOpts{}).Cty()
	n := r.Intn(4)
	m := make(map[string]cty.Value, n)
	for i := 0; i < n; i++ {
		m[gen.GoKey(r)] = gen.Value(r, ty, gen.ValueOpts{UnknownPct: 10, NullPct: 10, Refined: true, MaxLen: 2})
	}
	v.Set(reflect.ValueOf(m))
	return v
}

// genDynNest: the dynamic leaves of the members of M share their types (a cty
// map has one element type).
func genDynNest(r *core.Rand) reflect.Value {
	v := gen.GoValue(r, typeOf[DynNest](), gen.GoValueOpts{NilPct: 15})
	d := v.Addr().Interface().(*DynNest)
	if len(d.M) > 0 {
		tv, tw := gen.Type(r, 2, gen.TypeOpts{}).Cty(), gen.Type(r, 2, gen.TypeOpts{}).Cty()
		o := gen.ValueOpts{UnknownPct: 10, NullPct: 10, Refined: true, MaxLen: 2}
		for _, k := range sortedKeys(d.M) {
			e := d.M[k]
			e.V, e.W = gen.Value(r, tv, o), gen.Value(r, tw, o)
			d.M[k] = e
		}
	}
	return v
}

func (e entry) generate(r *core.Rand) reflect.Value {
	if e.gen != nil {
		return e.gen(r)
	}
	return gen.GoValue(r, e.t, gen.GoValueOpts{NilPct: 15})
}

// ---- the documented Go-type -> cty-type mapping (docs/gocty.md), as a model --

// tagIndex maps cty attribute names to field indices (from the struct tags).
func tagIndex(t reflect.Type) map[string]int {
	m := map[string]int{}
	for i := 0; i < t.NumField(); i++ {
		if n := t.Field(i).Tag.Get("cty"); n != "" {
			m[n] = i
		}
	}
	return m
}

// shapeType is the cty type that naturally corresponds to a Go type: the
// documented ImpliedType mapping, extended to arrays (lists), big numbers
// (number) and untagged structs (tuples) for which callers pass explicit types.
func shapeType(t reflect.Type) cty.Type {
	switch {
	case t == gen.GoCtyValueType:
		return cty.DynamicPseudoType
	case isBig(t):
		return cty.Number
	}
	switch t.Kind() {
	case reflect.Ptr:
		return shapeType(t.Elem())
	case reflect.Bool:
		return cty.Bool
	case reflect.String:
		return cty.String
	case reflect.Int, reflect.Int8, reflect.Int16, reflect.Int32, reflect.Int64,
		reflect.Uint, reflect.Uint8, reflect.Uint16, reflect.Uint32, reflect.Uint64,
		reflect.Float32, reflect.Float64:
		return cty.Number
	case reflect.Slice, reflect.Array:
		return cty.List(shapeType(t.Elem()))
	case reflect.Map:
		return cty.Map(shapeType(t.Elem()))
	case reflect.Struct:
		tags := tagIndex(t)
		if len(tags) == 0 {
			ets := make([]cty.Type, t.NumField())
			for i := range ets {
				ets[i] = shapeType(t.Field(i).Type)
			}
			return cty.Tuple(ets)
		}
		atys := map[string]cty.Type{}
		for k, i := range tags {
			atys[k] = shapeType(t.Field(i).Type)
		}
		return cty.Object(atys)
	}
	panic("c18.shapeType: unsupported Go type " + t.String())
}

// ---- printing and comparing Go values ---------------------------------------

// goText prints a Go value canonically (no addresses, sorted map keys).
func goText(v reflect.Value) string {
	var b strings.Builder
	writeGo(&b, v)
	return b.String()
}

func writeGo(b *strings.Builder, v reflect.Value) {
	t := v.Type()
	switch t {
	case gen.GoCtyValueType:
		fmt.Fprintf(b, "%#v", v.Interface())
		return
	case gen.GoBigIntType:
		x := v.Interface().(big.Int)
		fmt.Fprintf(b, "big.Int(%s)", x.String())
		return
	case gen.GoBigFloatType:
		x := v.Interface().(big.Float)
		fmt.Fprintf(b, "big.Float(%s prec=%d)", x.Text('p', 0), x.Prec())
		return
	}
	switch t.Kind() {
	case reflect.Ptr:
		if v.IsNil() {
			fmt.Fprintf(b, "(%s)(nil)", t)
			return
		}
		b.WriteString("&")
		writeGo(b, v.Elem())
	case reflect.Slice:
		if v.IsNil() {
			fmt.Fprintf(b, "%s(nil)", t)
			return
		}
		fallthrough
	case reflect.Array:
		fmt.Fprintf(b, "%s{", t)
		for i := 0; i < v.Len(); i++ {
			if i > 0 {
				b.WriteString(", ")
			}
			writeGo(b, v.Index(i))
		}
		b.WriteString("}")
	case reflect.Map:
		if v.IsNil() {
			fmt.Fprintf(b, "%s(nil)", t)
			return
		}
		keys := v.MapKeys()
		sort.Slice(keys, func(i, j int) bool { return keys[i].String() < keys[j].String() })
		fmt.Fprintf(b, "%s{", t)
		for i, k := range keys {
			if i > 0 {
				b.WriteString(", ")
			}
			fmt.Fprintf(b, "%q: ", k.String())
			writeGo(b, v.MapIndex(k))
		}
		b.WriteString("}")
	case reflect.Struct:
		fmt.Fprintf(b, "%s{", t)
		for i := 0; i < v.NumField(); i++ {
			if i > 0 {
				b.WriteString(", ")
			}
			b.WriteString(t.Field(i).Name + ": ")
			writeGo(b, v.Field(i))
		}
		b.WriteString("}")
	case reflect.Float32:
		fmt.Fprintf(b, "float32(%b)", float32(v.Float()))
	case reflect.Float64:
		fmt.Fprintf(b, "float64(%b)", v.Float())
	case reflect.String:
		fmt.Fprintf(b, "%q", v.String())
	case reflect.Bool:
		fmt.Fprintf(b, "%v", v.Bool())
	case reflect.Int, reflect.Int8, reflect.Int16, reflect.Int32, reflect.Int64:
		fmt.Fprintf(b, "%d", v.Int())
	case reflect.Uint, reflect.Uint8, reflect.Uint16, reflect.Uint32, reflect.Uint64:
		fmt.Fprintf(b, "%d", v.Uint())
	default:
		fmt.Fprintf(b, "%v", v)
	}
}
