package c18

import (
	"reflect"

	"github.com/zclconf/go-cty/cty"

	"verif/harness/gen"
)

// predict decides, from the property statement and docs/gocty.md alone, what
// FromCtyValue(v, &target) must do for a target of Go type t:
//
//	vErr  - unknown value (unless it lands in a cty.Value), null into a target
//	        that cannot be nil, number not representable in the numeric target,
//	        or a shape mismatch (a value kind the Go type has no mapping for,
//	        wrong array length, tuple arity, attribute without field, missing
//	        attribute for a field that cannot be nil);
//	vOK   - the value fits the target exactly;
//	vFree - everything the statement leaves open (see the comments below).
//
// The class names the first position that forces the verdict, as
// "<value kind>-><Go kind>" or a numeric class of numref.go.
func predict(v cty.Value, t reflect.Type) (verdict, string) {
	ptr := false
	for t.Kind() == reflect.Ptr {
		ptr = true
		t = t.Elem()
	}
	if t == gen.GoCtyValueType {
		return vOK, "" // dynamic leaf: any value, verbatim (the only place unknowns are allowed)
	}
	if !v.IsKnown() {
		return vErr, "unknown->" + kindName(t)
	}
	ty := v.Type()
	if v.IsNull() {
		sliceOrMap := t.Kind() == reflect.Slice || t.Kind() == reflect.Map
		if !ptr && !sliceOrMap {
			return vErr, "null->" + kindName(t)
		}
		natural := ptr || (t.Kind() == reflect.Slice && ty.IsListType()) || (t.Kind() == reflect.Map && ty.IsMapType())
		if natural && shapeCompat(ty, t) {
			return vOK, ""
		}
		// a null of another type into something that can be nil (e.g. null string
		// into *[]int, null set into []int): nothing is lost either way.
		return vFree, "null-of-other-shape->" + kindName(t)
	}
	pair := ctyKindName(v) + "->" + kindName(t)
	switch {
	case ty == cty.Bool:
		if t.Kind() == reflect.Bool {
			return vOK, ""
		}
		return vErr, pair
	case ty == cty.String:
		if t.Kind() == reflect.String {
			return vOK, ""
		}
		return vErr, pair
	case ty == cty.Number:
		if isIntKind(t.Kind()) || isFloatKind(t.Kind()) || isBig(t) {
			ex := expectNumber(v.AsBigFloat(), t)
			return ex.v, ex.class
		}
		return vErr, pair
	case ty.IsListType() || ty.IsSetType():
		if isBig(t) {
			return vErr, pair
		}
		switch t.Kind() {
		case reflect.Slice, reflect.Array:
			es := v.AsValueSlice()
			if t.Kind() == reflect.Array && len(es) != t.Len() {
				return vErr, ctyKindName(v) + "-of-wrong-length->array"
			}
			res, cls := combine(len(es), func(i int) (verdict, string) { return predict(es[i], t.Elem()) })
			if res == vOK && len(es) == 0 && !shapeCompat(ty.ElementType(), t.Elem()) {
				return vFree, "empty-collection-of-other-element-type"
			}
			return res, cls
		}
		// structs correspond to objects and tuples only (docs/gocty.md), in both
		// directions: a list or set into a struct is a shape mismatch
		return vErr, pair
	case ty.IsMapType():
		if isBig(t) {
			return vErr, pair
		}
		switch t.Kind() {
		case reflect.Map:
			if t.Key().Kind() != reflect.String {
				return vErr, pair
			}
			em := v.AsValueMap()
			keys := sortedKeys(em)
			res, cls := combine(len(keys), func(i int) (verdict, string) { return predict(em[keys[i]], t.Elem()) })
			if res == vOK && len(keys) == 0 && !shapeCompat(ty.ElementType(), t.Elem()) {
				return vFree, "empty-collection-of-other-element-type"
			}
			return res, cls
		}
		return vErr, pair // incl. map -> struct: structs correspond to objects and tuples only
	case ty.IsObjectType():
		if isBig(t) {
			return vErr, pair // big.Int / big.Float are number targets, not attribute containers
		}
		switch t.Kind() {
		case reflect.Struct:
			tags := tagIndex(t)
			atys := ty.AttributeTypes()
			names := sortedKeys(atys)
			for _, k := range names {
				if _, ok := tags[k]; !ok {
					return vErr, "object-attribute-without-field->struct"
				}
			}
			res, cls := combine(len(names), func(i int) (verdict, string) {
				return predict(v.GetAttr(names[i]), t.Field(tags[names[i]]).Type)
			})
			if res == vErr {
				return res, cls
			}
			for _, k := range sortedKeys(tags) {
				if _, ok := atys[k]; ok {
					continue
				}
				switch t.Field(tags[k]).Type.Kind() {
				case reflect.Ptr, reflect.Slice, reflect.Map:
					// docs: "error messages will be generated for any ... missing
					// attributes"; the code fills nil instead. Left open.
					if res == vOK {
						res, cls = vFree, "object-missing-attribute-for-nilable-field"
					}
				default:
					return vErr, "object-missing-attribute->struct"
				}
			}
			return res, cls
		case reflect.Map:
			// ToCtyValue encodes a Go map as an object and the library's own message for map
			// targets reads "map or object value is required"; decoding is not documented: left open
			return vFree, pair
		}
		return vErr, pair
	case ty.IsTupleType():
		if isBig(t) {
			return vErr, pair
		}
		switch t.Kind() {
		case reflect.Struct:
			ets := ty.TupleElementTypes()
			if len(ets) != t.NumField() {
				return vErr, "tuple-of-wrong-arity->struct"
			}
			for i := 0; i < t.NumField(); i++ {
				if t.Field(i).PkgPath != "" {
					return vFree, "tuple->struct-with-unexported-fields" // docs: such a struct "must have all public attributes"
				}
			}
			return combine(len(ets), func(i int) (verdict, string) {
				return predict(v.Index(cty.NumberIntVal(int64(i))), t.Field(i).Type)
			})
		case reflect.Slice, reflect.Array:
			return vFree, pair // ToCtyValue encodes a Go slice as a tuple; decoding one is not documented: left open
		}
		return vErr, pair
	case ty.IsCapsuleType():
		if ty.EncapsulatedType().AssignableTo(t) {
			return vFree, pair
		}
		return vErr, pair
	}
	return vFree, pair
}

// combine: refused if any member must be refused, else open if any member is
// open, else accepted. The class is that of the first deciding member.
func combine(n int, f func(i int) (verdict, string)) (verdict, string) {
	res, cls := vOK, ""
	for i := 0; i < n; i++ {
		r, c := f(i)
		switch {
		case r == vErr:
			return vErr, c
		case r == vFree && res == vOK:
			res, cls = vFree, c
		}
	}
	return res, cls
}

// shapeCompat: a value of cty type ty has a mapping into Go type t at the type
// level (used for nulls and empty collections, where no member is inspected).
func shapeCompat(ty cty.Type, t reflect.Type) bool {
	for t.Kind() == reflect.Ptr {
		t = t.Elem()
	}
	if t == gen.GoCtyValueType || ty == cty.DynamicPseudoType {
		return true
	}
	switch {
	case ty == cty.Bool:
		return t.Kind() == reflect.Bool
	case ty == cty.String:
		return t.Kind() == reflect.String
	case ty == cty.Number:
		return isIntKind(t.Kind()) || isFloatKind(t.Kind()) || isBig(t)
	case ty.IsListType() || ty.IsSetType():
		return (t.Kind() == reflect.Slice || t.Kind() == reflect.Array) && shapeCompat(ty.ElementType(), t.Elem())
	case ty.IsMapType():
		return t.Kind() == reflect.Map && t.Key().Kind() == reflect.String && shapeCompat(ty.ElementType(), t.Elem())
	case ty.IsObjectType():
		if t.Kind() != reflect.Struct || isBig(t) {
			return false
		}
		tags := tagIndex(t)
		atys := ty.AttributeTypes()
		if len(tags) != len(atys) {
			return false
		}
		for k, at := range atys {
			fi, ok := tags[k]
			if !ok || !shapeCompat(at, t.Field(fi).Type) {
				return false
			}
		}
		return true
	case ty.IsTupleType():
		if t.Kind() != reflect.Struct || isBig(t) {
			return false
		}
		ets := ty.TupleElementTypes()
		if len(ets) != t.NumField() {
			return false
		}
		for i, et := range ets {
			if !shapeCompat(et, t.Field(i).Type) {
				return false
			}
		}
		return true
	}
	return false
}
