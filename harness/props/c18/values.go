package c18

import (
	"reflect"

	"github.com/zclconf/go-cty/cty"
	"github.com/zclconf/go-cty/cty/gocty"

	"verif/harness/core"
	"verif/harness/gen"
	"verif/harness/model"
)

// valueAndTarget draws a (value, target type) pair for clause (c). Sources:
//
//	encoded          the encoding of a generated value of some family type, decoded into
//	                 the same type (a fit) or into another type of the family (near misses)
//	encoded-mutated  the same with sub-values replaced by unknown / null / other numbers
//	encoded-as-set   lists of the encoding turned into sets
//	natural          a value generated for the target's natural cty type (nulls, unknowns, pool numbers)
//	arbitrary        a value of an arbitrary type (incl. sets, tuples, capsules, dynamic)
func valueAndTarget(r *core.Rand, fam []entry) (cty.Value, reflect.Type, string) {
	te := fam[r.Intn(len(fam))]
	switch k := r.Intn(10); {
	case k < 5:
		se := te
		if r.Chance(2, 5) {
			se = fam[r.Intn(len(fam))]
		}
		v, ok := encode(se, se.generate(r))
		if !ok {
			break
		}
		switch r.Intn(5) {
		case 0:
			return v, te.t, "encoded"
		case 1:
			return listsToSets(v), te.t, "encoded-as-set"
		}
		return mutate(r, v, 6+r.Intn(20)), te.t, "encoded-mutated"
	case k < 8:
		o := gen.ValueOpts{UnknownPct: r.Intn(8), NullPct: r.Intn(15), Refined: true, MaxLen: 3, LongStr: true, TwinKeys: true}
		o.SmallNums = r.Bool()
		ty := shapeType(te.t)
		if r.Chance(1, 6) {
			ty = looseType(r, ty)
		}
		return gen.Value(r, ty, o), te.t, "natural"
	}
	ty := gen.Type(r, 3, gen.TypeOpts{Dynamic: true, Capsule: true}).Cty()
	o := gen.ValueOpts{UnknownPct: r.Intn(8), NullPct: r.Intn(12), Refined: true, MaxLen: 3, SmallNums: r.Bool()}
	return gen.Value(r, ty, o), te.t, "arbitrary"
}

// encode is ToCtyValue with the entry's type; ok=false if the library refused
// or panicked (the round-trip clause reports that; here it is just no source).
func encode(e entry, g reflect.Value) (cty.Value, bool) {
	ty := shapeType(e.t)
	if e.explicit != nil {
		ty = *e.explicit
	}
	var v cty.Value
	var err error
	o := core.Guard(func() { v, err = gocty.ToCtyValue(g.Interface(), ty) })
	if o.Panicked || err != nil || v == cty.NilVal {
		return cty.NilVal, false
	}
	return v, true
}

// looseType varies a natural type: lists become sets, objects lose or gain an
// attribute, tuples gain an element.
func looseType(r *core.Rand, ty cty.Type) cty.Type {
	switch {
	case ty.IsListType():
		if r.Bool() {
			return cty.Set(ty.ElementType())
		}
		return cty.List(looseType(r, ty.ElementType()))
	case ty.IsMapType():
		return cty.Map(looseType(r, ty.ElementType()))
	case ty.IsObjectType():
		atys := map[string]cty.Type{}
		names := model.TNodeOf(ty).AttrNames()
		drop := -1
		if len(names) > 0 && r.Bool() {
			drop = r.Intn(len(names))
		}
		for i, k := range names {
			if i == drop {
				continue
			}
			atys[k] = ty.AttributeType(k)
		}
		if drop < 0 {
			atys["extra"] = cty.String
		}
		return cty.Object(atys)
	case ty.IsTupleType():
		return cty.Tuple(append(append([]cty.Type{}, ty.TupleElementTypes()...), cty.Bool))
	}
	return ty
}

// listsToSets rebuilds v with every known non-empty list (whose members are
// wholly known) as a set.
func listsToSets(v cty.Value) cty.Value {
	if !v.IsKnown() || v.IsNull() {
		return v
	}
	ty := v.Type()
	switch {
	case ty.IsListType():
		if v.LengthInt() == 0 {
			return cty.SetValEmpty(ty.ElementType())
		}
		if !v.IsWhollyKnown() {
			return v
		}
		return cty.SetVal(v.AsValueSlice())
	case ty.IsObjectType():
		m := map[string]cty.Value{}
		for k, e := range v.AsValueMap() {
			m[k] = listsToSets(e)
		}
		if len(m) == 0 {
			return v
		}
		return cty.ObjectVal(m)
	case ty.IsTupleType():
		es := v.AsValueSlice()
		for i := range es {
			es[i] = listsToSets(es[i])
		}
		return cty.TupleVal(es)
	}
	return v
}

// mutate replaces sub-values (each position with chance pct%) by an unknown or
// null of the same type or, for numbers, by another number. Types are kept, so
// collections stay homogeneous.
func mutate(r *core.Rand, v cty.Value, pct int) cty.Value {
	ty := v.Type()
	if r.Chance(pct, 100) {
		switch k := r.Intn(5); {
		case k == 0:
			return gen.Unknown(r, ty, true)
		case k == 1:
			return cty.NullVal(ty)
		case ty == cty.Number:
			return randNumber(r).v
		}
	}
	if !v.IsKnown() || v.IsNull() {
		return v
	}
	switch {
	case ty.IsListType() || ty.IsSetType():
		if v.LengthInt() == 0 {
			return v
		}
		es := v.AsValueSlice()
		for i := range es {
			es[i] = mutate(r, es[i], pct)
		}
		if ty.IsSetType() {
			return cty.SetVal(es)
		}
		return cty.ListVal(es)
	case ty.IsMapType():
		if v.LengthInt() == 0 {
			return v
		}
		m := v.AsValueMap()
		for _, k := range sortedKeys(m) {
			m[k] = mutate(r, m[k], pct)
		}
		return cty.MapVal(m)
	case ty.IsObjectType():
		m := v.AsValueMap()
		if len(m) == 0 {
			return v
		}
		for _, k := range sortedKeys(m) {
			m[k] = mutate(r, m[k], pct)
		}
		return cty.ObjectVal(m)
	case ty.IsTupleType():
		es := v.AsValueSlice()
		for i := range es {
			es[i] = mutate(r, es[i], pct)
		}
		return cty.TupleVal(es)
	}
	return v
}
