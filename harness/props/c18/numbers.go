package c18

import (
	"fmt"
	"math"
	"math/big"
	"reflect"
	"sort"

	"github.com/zclconf/go-cty/cty"

	"verif/harness/core"
	"verif/harness/gen"
)

// numCase is a number with the class it was drawn from.
type numCase struct {
	v     cty.Value
	class string
}

func sortedKeys[V any](m map[string]V) []string {
	ks := make([]string, 0, len(m))
	for k := range m {
		ks = append(ks, k)
	}
	sort.Strings(ks)
	return ks
}

func bfInt(z *big.Int) *big.Float {
	prec := uint(z.BitLen()) + 8
	if prec < 512 {
		prec = 512
	}
	return new(big.Float).SetPrec(prec).SetInt(z)
}

func bfPow2(n int) *big.Float {
	f := new(big.Float).SetPrec(512).SetInt64(1)
	return f.SetMantExp(f, n)
}

func bfAdd(a, b *big.Float) *big.Float { return new(big.Float).SetPrec(2048).Add(a, b) }
func bfSub(a, b *big.Float) *big.Float { return new(big.Float).SetPrec(2048).Sub(a, b) }
func bfF(f float64) *big.Float         { return new(big.Float).SetPrec(512).SetFloat64(f) }

var numCorpusCache []numCase

// numCorpus is the fixed, seed-independent list of boundary numbers: the shared
// pool, the limits of every integer width with their neighbours (whole and
// fractional), the edges of the float32 / float64 ranges with the half-ulp
// bands above them, float32 rounding midpoints (where narrowing through
// float64 rounds twice), denormal edges, huge and infinite values.
func numCorpus() []numCase {
	if numCorpusCache != nil {
		return numCorpusCache
	}
	var p []numCase
	add := func(f *big.Float, class string) { p = append(p, numCase{cty.NumberVal(f), class}) }
	for _, n := range gen.NumberPool() {
		p = append(p, numCase{n.V, "pool:" + n.Class})
	}
	one := big.NewInt(1)
	half := bfF(0.5)
	tiny := bfPow2(-300)
	for _, bits := range []uint{7, 8, 15, 16, 31, 32, 63, 64} {
		lim := new(big.Int).Lsh(one, bits) // 2^bits: max+1 of the (un)signed width
		for _, d := range []int64{-2, -1, 0, 1} {
			z := new(big.Int).Add(lim, big.NewInt(d))
			add(bfInt(z), fmt.Sprintf("int-limit:2^%d%+d", bits, d))
			add(bfInt(new(big.Int).Neg(z)), fmt.Sprintf("int-limit:-2^%d%+d", bits, -d))
		}
		// fractions next to the limits
		add(bfSub(bfInt(lim), half), fmt.Sprintf("int-limit-fraction:2^%d-0.5", bits))
		add(bfSub(bfInt(lim), bfAdd(bfF(1), tiny)), fmt.Sprintf("int-limit-fraction:2^%d-1-tiny", bits))
		add(bfAdd(bfInt(new(big.Int).Neg(lim)), half), fmt.Sprintf("int-limit-fraction:-2^%d+0.5", bits))
		add(bfAdd(bfInt(new(big.Int).Neg(lim)), tiny), fmt.Sprintf("int-limit-fraction:-2^%d+tiny", bits))
	}
	add(tiny, "fraction:tiny")
	add(new(big.Float).Neg(tiny), "fraction:-tiny")
	add(bfSub(bfF(1), tiny), "fraction:1-tiny")
	add(bfAdd(bfF(-1), tiny), "fraction:-1+tiny")
	add(bfF(-0.5), "fraction:-0.5")
	// float32 range edge
	max32 := bfF(math.MaxFloat32)
	hulp32 := bfPow2(103)
	for _, neg := range []bool{false, true} {
		s := func(f *big.Float) *big.Float {
			if neg {
				return new(big.Float).SetPrec(2048).Neg(f)
			}
			return f
		}
		sg := ""
		if neg {
			sg = "-"
		}
		add(s(max32), "float32-edge:"+sg+"max")
		add(s(bfSub(max32, tiny)), "float32-edge:"+sg+"max-tiny")
		add(s(bfAdd(max32, tiny)), "float32-band:"+sg+"max+tiny")
		add(s(bfF(math.Nextafter(math.MaxFloat32, math.Inf(1)))), "float32-band:"+sg+"max-next-float64")
		add(s(bfSub(bfAdd(max32, hulp32), tiny)), "float32-band:"+sg+"max+halfulp-tiny")
		add(s(bfAdd(max32, hulp32)), "float32-over:"+sg+"max+halfulp")
		add(s(bfAdd(bfAdd(max32, hulp32), tiny)), "float32-over:"+sg+"max+halfulp+tiny")
		add(s(bfPow2(128)), "float32-over:"+sg+"2^128")
		add(s(bfF(1e39)), "float32-over:"+sg+"1e39")
		add(s(bfF(1e300)), "float32-over:"+sg+"1e300")
		add(s(bfF(math.MaxFloat64)), "float64-edge:"+sg+"max")
		max64 := bfF(math.MaxFloat64)
		hulp64 := bfPow2(970)
		add(s(bfAdd(max64, tiny)), "float64-band:"+sg+"max+tiny")
		add(s(bfSub(bfAdd(max64, hulp64), bfF(1))), "float64-band:"+sg+"max+halfulp-1")
		add(s(bfAdd(max64, hulp64)), "float64-over:"+sg+"max+halfulp")
		add(s(bfPow2(1024)), "float64-over:"+sg+"2^1024")
		add(s(bfPow2(5000)), "float64-over:"+sg+"2^5000")
		// denormal edges
		add(s(bfF(math.SmallestNonzeroFloat32)), "float32-denormal:"+sg+"min")
		add(s(bfPow2(-150)), "float32-denormal:"+sg+"min/2")
		add(s(bfAdd(bfPow2(-150), tiny)), "float32-denormal:"+sg+"min/2+tiny")
		add(s(bfPow2(-200)), "float32-underflow:"+sg+"2^-200")
		add(s(bfF(math.SmallestNonzeroFloat64)), "float64-denormal:"+sg+"min")
		add(s(bfPow2(-1075)), "float64-denormal:"+sg+"min/2")
		add(s(bfAdd(bfPow2(-1075), bfPow2(-1200))), "float64-denormal:"+sg+"min/2+tiny")
		add(s(bfPow2(-2000)), "float64-underflow:"+sg+"2^-2000")
		// float32 midpoints: 1 + 2^-24 is halfway between 1 and the next float32
		mid := bfAdd(bfF(1), bfPow2(-24))
		add(s(mid), "float32-midpoint:"+sg+"1+2^-24")
		add(s(bfAdd(mid, bfPow2(-60))), "float32-midpoint:"+sg+"1+2^-24+2^-60")
		add(s(bfSub(mid, bfPow2(-60))), "float32-midpoint:"+sg+"1+2^-24-2^-60")
		mid3 := bfAdd(bfF(1), bfAdd(bfPow2(-23), bfPow2(-24))) // between two float32, lower one odd
		add(s(bfAdd(mid3, bfPow2(-70))), "float32-midpoint:"+sg+"1+3*2^-24+2^-70")
		add(s(bfSub(mid3, bfPow2(-70))), "float32-midpoint:"+sg+"1+3*2^-24-2^-70")
		// float64 midpoints
		mid64 := bfAdd(bfF(1), bfPow2(-53))
		add(s(mid64), "float64-midpoint:"+sg+"1+2^-53")
		add(s(bfAdd(mid64, bfPow2(-200))), "float64-midpoint:"+sg+"1+2^-53+2^-200")
		add(s(bfSub(mid64, bfPow2(-200))), "float64-midpoint:"+sg+"1+2^-53-2^-200")
	}
	for _, s := range []string{"1e309", "-1e309", "1e400", "1e-400", "3.4028235677973366e38", "3.4028234663852886e38", "3.4028235e38", "3.4028236e38",
		"16777217", "9007199254740993", "0.1", "123456789012345678901234567890.5"} {
		p = append(p, numCase{cty.MustParseNumberVal(s), "decimal:" + s})
	}
	numCorpusCache = p
	return p
}

// randNumber draws a number: corpus, random integers of random width, random
// float64 / float32 bit patterns, values next to a random float32 midpoint,
// random decimals, random big.Floats.
func randNumber(r *core.Rand) numCase {
	switch r.Intn(12) {
	case 0, 1, 2:
		c := numCorpus()
		return c[r.Intn(len(c))]
	case 3:
		w := 1 + r.Intn(64)
		return numCase{cty.NumberIntVal(int64(r.Uint64()) >> uint(64-w)), "random-int"}
	case 4:
		w := 1 + r.Intn(64)
		return numCase{cty.NumberUIntVal(r.Uint64() >> uint(64-w)), "random-uint"}
	case 5:
		return numCase{cty.NumberVal(bfInt(gen.GoBigInt(r))), "random-bigint"}
	case 6:
		f := gen.GoFloat64(r)
		if math.IsInf(f, 0) {
			return numCase{cty.NumberFloatVal(f), "inf"}
		}
		return numCase{cty.NumberFloatVal(f), "random-float64"}
	case 7:
		f := gen.GoFloat32(r)
		return numCase{cty.NumberFloatVal(float64(f)), "random-float32"}
	case 8:
		// next to the midpoint between a random finite float32 and its successor
		var f float32
		for {
			f = math.Float32frombits(uint32(r.Uint64()))
			if f == f && !math.IsInf(float64(f), 0) && !math.IsInf(float64(math.Nextafter32(f, float32(math.Inf(1)))), 0) {
				break
			}
		}
		nx := math.Nextafter32(f, float32(math.Inf(1)))
		mid := bfAdd(bfF(float64(f)), bfF(float64(nx)))
		mid.SetMantExp(mid, -1)
		_, e := math.Frexp(float64(nx) - float64(f))
		eps := bfPow2(e - 40 - r.Intn(60))
		switch r.Intn(3) {
		case 0:
			return numCase{cty.NumberVal(bfAdd(mid, eps)), "near-float32-midpoint:above"}
		case 1:
			return numCase{cty.NumberVal(bfSub(mid, eps)), "near-float32-midpoint:below"}
		}
		return numCase{cty.NumberVal(mid), "near-float32-midpoint:exact"}
	case 9:
		s := fmt.Sprintf("%d.%d", r.Intn(70000)-35000, r.Intn(100000))
		if r.Chance(1, 3) {
			s += fmt.Sprintf("e%d", r.Intn(90)-45)
		}
		return numCase{cty.MustParseNumberVal(s), "random-decimal"}
	case 10:
		// an integer limit plus or minus a small whole or fractional offset
		bits := []uint{7, 8, 15, 16, 31, 32, 63, 64}[r.Intn(8)]
		z := bfInt(new(big.Int).Lsh(big.NewInt(1), bits))
		off := bfF(float64(r.Intn(9)-4) / float64(int(1)<<uint(r.Intn(3))))
		z = bfAdd(z, off)
		if r.Bool() {
			z.Neg(z)
		}
		return numCase{cty.NumberVal(z), "near-int-limit"}
	}
	return numCase{cty.NumberVal(gen.GoBigFloat(r)), "random-bigfloat"}
}

// numShape is the coarse shape of a number, used in classes.
func numShape(bf *big.Float) string {
	switch {
	case bf.IsInf():
		return "inf"
	case bf.Sign() == 0 && bf.Signbit():
		return "neg-zero"
	case bf.Sign() == 0:
		return "zero"
	case bf.IsInt():
		return "whole"
	}
	return "fraction"
}

// numTargets: every Go numeric target type of clause (b): the ten integer
// kinds, the two float kinds, named types of an integer and a float kind, the
// two big number types, and a pointer to each (plus one double pointer).
func numTargets() []reflect.Type {
	base := []reflect.Type{
		typeOf[int](), typeOf[int8](), typeOf[int16](), typeOf[int32](), typeOf[int64](),
		typeOf[uint](), typeOf[uint8](), typeOf[uint16](), typeOf[uint32](), typeOf[uint64](),
		typeOf[float32](), typeOf[float64](), typeOf[MyInt](), typeOf[MyF](), typeOf[big.Int](), typeOf[big.Float](),
	}
	out := append([]reflect.Type{}, base...)
	for _, t := range base {
		out = append(out, reflect.PointerTo(t))
	}
	out = append(out, typeOf[**int8](), typeOf[**float32]())
	return out
}
