package c18

import (
	"math"
	"math/big"
	"reflect"
	"strconv"
)

// Reference for "a number is representable in a Go numeric type", written with
// exact arithmetic (math/big rationals), independent of cty/gocty.

type verdict int

const (
	vOK   verdict = iota // must be accepted (and the target must then hold the value)
	vErr                 // must be refused with an error
	vFree                // the property leaves the outcome open (recorded, not asserted)
)

func (v verdict) String() string { return [...]string{"accept", "refuse", "free"}[v] }

// numRef is an exact extended rational.
type numRef struct {
	inf int      // -1, 0, +1
	rat *big.Rat // finite value (negative zero is zero)
}

func refOf(bf *big.Float) numRef {
	if bf.IsInf() {
		if bf.Signbit() {
			return numRef{inf: -1}
		}
		return numRef{inf: 1}
	}
	r, _ := bf.Rat(nil) // exact for every finite big.Float
	if r == nil {
		r = new(big.Rat)
	}
	return numRef{rat: r}
}

func intLimits(t reflect.Type) (min, max *big.Int) {
	bits := uint(t.Bits())
	one := big.NewInt(1)
	switch t.Kind() {
	case reflect.Int, reflect.Int8, reflect.Int16, reflect.Int32, reflect.Int64:
		max = new(big.Int).Sub(new(big.Int).Lsh(one, bits-1), one)
		min = new(big.Int).Neg(new(big.Int).Lsh(one, bits-1))
	default:
		max = new(big.Int).Sub(new(big.Int).Lsh(one, bits), one)
		min = new(big.Int)
	}
	return
}

func isIntKind(k reflect.Kind) bool {
	switch k {
	case reflect.Int, reflect.Int8, reflect.Int16, reflect.Int32, reflect.Int64,
		reflect.Uint, reflect.Uint8, reflect.Uint16, reflect.Uint32, reflect.Uint64:
		return true
	}
	return false
}

func isSignedKind(k reflect.Kind) bool {
	switch k {
	case reflect.Int, reflect.Int8, reflect.Int16, reflect.Int32, reflect.Int64:
		return true
	}
	return false
}

func isFloatKind(k reflect.Kind) bool { return k == reflect.Float32 || k == reflect.Float64 }

var (
	ratMaxF32  = new(big.Rat).SetFloat64(math.MaxFloat32)
	ratMaxF64  = new(big.Rat).SetFloat64(math.MaxFloat64)
	ratBandF32 = new(big.Rat).Add(ratMaxF32, new(big.Rat).SetInt(new(big.Int).Lsh(big.NewInt(1), 103))) // MaxFloat32 + half ulp
	ratBandF64 = new(big.Rat).Add(ratMaxF64, new(big.Rat).SetInt(new(big.Int).Lsh(big.NewInt(1), 970))) // MaxFloat64 + half ulp
)

// numExpect is what the property says about decoding one number into one Go
// numeric type (a non-pointer type: one of the ten integer kinds, the two float
// kinds, big.Int, big.Float).
type numExpect struct {
	v     verdict
	class string  // why it is not representable ("" when it is)
	wantF float64 // floats, v==vOK: the correct rounding (nearest, ties to even)
	wantI *big.Int
	band  bool // in the half-ulp band just above the largest finite float
}

func expectNumber(bf *big.Float, t reflect.Type) numExpect {
	x := refOf(bf)
	kname := t.Kind().String()
	switch {
	case t == typeOf[big.Float]():
		return numExpect{v: vOK}
	case t == typeOf[big.Int]():
		if x.inf != 0 {
			return numExpect{v: vErr, class: "big.Int-infinite"}
		}
		if !x.rat.IsInt() {
			return numExpect{v: vErr, class: "big.Int-fraction"}
		}
		return numExpect{v: vOK, wantI: new(big.Int).Set(x.rat.Num())}
	case isIntKind(t.Kind()):
		if x.inf != 0 {
			return numExpect{v: vErr, class: kname + "-infinite"}
		}
		if !x.rat.IsInt() {
			return numExpect{v: vErr, class: kname + "-fraction"}
		}
		min, max := intLimits(t)
		n := x.rat.Num()
		if n.Cmp(min) < 0 {
			return numExpect{v: vErr, class: kname + "-below-min"}
		}
		if n.Cmp(max) > 0 {
			return numExpect{v: vErr, class: kname + "-above-max"}
		}
		return numExpect{v: vOK, wantI: new(big.Int).Set(n)}
	case isFloatKind(t.Kind()):
		if x.inf != 0 {
			return numExpect{v: vOK, wantF: math.Inf(x.inf)}
		}
		maxR, bandR := ratMaxF64, ratBandF64
		maxF := math.MaxFloat64
		if t.Kind() == reflect.Float32 {
			maxR, bandR = ratMaxF32, ratBandF32
			maxF = math.MaxFloat32
		}
		abs := new(big.Rat).Abs(x.rat)
		if abs.Cmp(maxR) <= 0 {
			var want float64
			if t.Kind() == reflect.Float32 {
				f32, _ := x.rat.Float32()
				want = float64(f32)
			} else {
				want, _ = x.rat.Float64()
			}
			return numExpect{v: vOK, wantF: want}
		}
		if abs.Cmp(bandR) < 0 {
			// strictly outside the finite range, but nearer to the largest finite
			// float than to the next power of two: recorded, not asserted.
			return numExpect{v: vFree, band: true, wantF: math.Copysign(maxF, float64(x.rat.Sign())), class: kname + "-half-ulp-band"}
		}
		return numExpect{v: vErr, class: kname + "-overflow"}
	}
	return numExpect{v: vErr, class: "number->" + kname}
}

// checkStored compares what a successful decode stored with the reference.
// g is the (non-pointer) numeric Go value. Returns "" or what is wrong, plus a
// narrow class.
func checkStored(bf *big.Float, ex numExpect, g reflect.Value) (string, string) {
	t := g.Type()
	kname := t.Kind().String()
	switch {
	case t == typeOf[big.Float]():
		got := g.Interface().(big.Float)
		if bf.IsInf() || got.IsInf() {
			if bf.IsInf() && got.IsInf() && bf.Signbit() == got.Signbit() {
				return "", ""
			}
			return "stored " + got.Text('g', 40) + ", number is " + bf.Text('g', 40), "big.Float-stores-wrong-value"
		}
		if got.Cmp(bf) != 0 {
			return "stored " + got.Text('g', 40) + ", number is " + bf.Text('g', 40), "big.Float-stores-wrong-value"
		}
		return "", ""
	case t == typeOf[big.Int]():
		got := g.Interface().(big.Int)
		if ex.wantI == nil || got.Cmp(ex.wantI) != 0 {
			return "stored " + got.String() + ", number is " + bf.Text('g', 40), "big.Int-stores-wrong-value"
		}
		return "", ""
	case isIntKind(t.Kind()):
		var got *big.Int
		if isSignedKind(t.Kind()) {
			got = big.NewInt(g.Int())
		} else {
			got = new(big.Int).SetUint64(g.Uint())
		}
		if ex.wantI == nil || got.Cmp(ex.wantI) != 0 {
			return "stored " + got.String() + ", number is " + bf.Text('g', 40), kname + "-stores-wrong-value"
		}
		return "", ""
	case isFloatKind(t.Kind()):
		got := g.Float()
		if got == ex.wantF { // also +0 == -0 and equal infinities
			return "", ""
		}
		cls := kname + "-stores-wrong-value"
		if !math.IsInf(got, 0) && !math.IsNaN(got) && !bf.IsInf() && neighbours(bf, got, t.Kind() == reflect.Float32) {
			cls = kname + "-rounding-not-nearest"
		}
		return "stored " + fmtF(got) + ", the correct rounding of " + bf.Text('g', 40) + " is " + fmtF(ex.wantF), cls
	}
	return "unexpected target kind " + kname, "other"
}

func fmtF(f float64) string { return strconv.FormatFloat(f, 'g', -1, 64) }

// neighbours: got is one of the two floats of the kind that bracket x (so the
// stored value is a rounding of x, only not the nearest one).
func neighbours(bf *big.Float, got float64, f32 bool) bool {
	x := refOf(bf)
	if x.inf != 0 {
		return false
	}
	var lo, hi float64
	if f32 {
		g := float32(got)
		lo, hi = float64(math.Nextafter32(g, float32(math.Inf(-1)))), float64(math.Nextafter32(g, float32(math.Inf(1))))
	} else {
		lo, hi = math.Nextafter(got, math.Inf(-1)), math.Nextafter(got, math.Inf(1))
	}
	if math.IsInf(lo, 0) || math.IsInf(hi, 0) {
		return false
	}
	rl, rh := new(big.Rat).SetFloat64(lo), new(big.Rat).SetFloat64(hi)
	return x.rat.Cmp(rl) > 0 && x.rat.Cmp(rh) < 0
}
