package c18

import (
	"math"
	"math/big"
	"reflect"

	"github.com/zclconf/go-cty/cty"

	"verif/harness/core"
	"verif/harness/gen"
	"verif/harness/model"
)

// Fixed, seed-independent corpus. Three parts:
//
//  1. goCorpus: Go values of every family type that are round-tripped on every
//     run (zero values = nil pointers / slices / maps, empty non-nil values,
//     fully populated values without any nil), each into a zero target and
//     into a populated target.
//  2. valueCorpus: cty values decoded into EVERY target type of the family
//     (runEnumerations).
//  3. witnesses: the inputs of the genuine defects this check found, and of
//     DESIGN.md F-25, re-executed on every run.

type valCase struct {
	note string
	v    cty.Value
}

func fixedRand(name string) *core.Rand { return core.NewRand(core.HashString("c18-corpus:" + name)) }

// emptyNonNil: pointers allocated, slices and maps empty but non-nil (one level
// below each pointer as well).
func emptyNonNil(t reflect.Type) reflect.Value {
	v := reflect.New(t).Elem()
	fillEmpty(v)
	return v
}

func fillEmpty(v reflect.Value) {
	t := v.Type()
	if t == gen.GoCtyValueType {
		v.Set(reflect.ValueOf(cty.EmptyObjectVal))
		return
	}
	if isBig(t) {
		return
	}
	switch t.Kind() {
	case reflect.Ptr:
		p := reflect.New(t.Elem())
		fillEmpty(p.Elem())
		v.Set(p)
	case reflect.Slice:
		v.Set(reflect.MakeSlice(t, 0, 0))
	case reflect.Map:
		v.Set(reflect.MakeMap(t))
	case reflect.Array:
		for i := 0; i < v.Len(); i++ {
			fillEmpty(v.Index(i))
		}
	case reflect.Struct:
		for i := 0; i < v.NumField(); i++ {
			if t.Field(i).PkgPath == "" {
				fillEmpty(v.Field(i))
			}
		}
	}
}

// zeroWithDyn: the zero value, except that cty.Value leaves (whose Go zero
// value is not a valid cty value) hold a null of unknown type.
func zeroWithDyn(t reflect.Type) reflect.Value {
	v := reflect.New(t).Elem()
	var fix func(v reflect.Value)
	fix = func(v reflect.Value) {
		t := v.Type()
		if t == gen.GoCtyValueType {
			v.Set(reflect.ValueOf(cty.NullVal(cty.DynamicPseudoType)))
			return
		}
		if isBig(t) {
			return
		}
		switch t.Kind() {
		case reflect.Array:
			for i := 0; i < v.Len(); i++ {
				fix(v.Index(i))
			}
		case reflect.Struct:
			for i := 0; i < v.NumField(); i++ {
				if t.Field(i).PkgPath == "" {
					fix(v.Field(i))
				}
			}
		}
	}
	fix(v)
	return v
}

func fullValue(e entry, salt string) reflect.Value {
	r := fixedRand(e.name + salt)
	if e.gen != nil {
		for k := 0; k < 20; k++ {
			if v := e.gen(r); !isZeroGo(v) {
				return v
			}
		}
	}
	return gen.GoValue(r, e.t, gen.GoValueOpts{NilPct: 0})
}

func runCorpus(c *core.Ctx, base int64) {
	idx := base
	next := func() int64 { idx++; return idx - 1 }
	for _, e := range family() {
		vals := []reflect.Value{zeroWithDyn(e.t), emptyNonNil(e.t), fullValue(e, "/1"), fullValue(e, "/2")}
		for k, g := range vals {
			for _, dirtyKind := range []int{0, 1, 2} {
				id := next()
				if !c.Want(id) {
					continue
				}
				var dirty *reflect.Value
				switch dirtyKind {
				case 1:
					d := fullValue(e, "/dirty")
					dirty = &d
				case 2:
					d := emptyNonNil(e.t)
					dirty = &d
				}
				roundTrip(c, id, e, g, dirty, k%2 == 1)
			}
		}
	}
	c.Exhaustive("zero, empty-non-nil and two fully populated values of every family type x {zero, populated, empty-non-nil} target")
	for _, w := range witnesses() {
		id := next()
		if !c.Want(id) {
			continue
		}
		switch {
		case w.goVal.IsValid():
			e := entryByName(w.typ)
			roundTrip(c, id, e, w.goVal, w.dirty, false)
		default:
			t := typeByName(w.typ)
			decodeCase(c, id, w.kind, w.v, t, w.dirty, "witness:"+w.note)
		}
	}
}

func typeByName(name string) reflect.Type {
	for _, e := range family() {
		if e.name == name {
			return e.t
		}
	}
	for _, t := range numTargets() {
		if t.String() == name {
			return t
		}
	}
	panic("c18: no type " + name)
}

type witness struct {
	note  string
	kind  string // "num" or "val" (decode), ignored for round trips
	typ   string
	v     cty.Value
	goVal reflect.Value
	dirty *reflect.Value
}

func ptrTo[T any](x T) *T { return &x }

func addr(x any) reflect.Value {
	// x is a pointer to the value; the result is addressable
	return reflect.ValueOf(x).Elem()
}

func witnesses() []witness {
	big2p64 := cty.NumberVal(new(big.Float).SetPrec(512).SetMantExp(big.NewFloat(1), 64))
	dirtyF32 := func() *reflect.Value { d := addr(ptrTo(float32(77.5))); return &d }
	dirtyPI := func() *reflect.Value { d := addr(ptrTo(ptrTo(5))); return &d }
	dirtyPS := func() *reflect.Value { d := addr(ptrTo(ptrTo([]int{1, 2}))); return &d }
	return []witness{
		// --- DESIGN.md F-25: 1e300 into float32 stores +Inf with a nil error
		{note: "F-25 1e300 into *float32", kind: "num", typ: "*float32", v: cty.NumberFloatVal(1e300)},
		{note: "F-25 1e300 into float32", kind: "num", typ: "float32", v: cty.NumberFloatVal(1e300)},
		{note: "F-25 -1e300 into float32 (populated)", kind: "num", typ: "float32", v: cty.NumberFloatVal(-1e300), dirty: dirtyF32()},
		{note: "F-25 2^128 into float32", kind: "num", typ: "float32", v: cty.NumberFloatVal(math.Ldexp(1, 128))},
		{note: "F-25 MaxFloat64 into MyF", kind: "num", typ: "c18.MyF", v: cty.NumberFloatVal(math.MaxFloat64)},
		{note: "F-25 nested: 1e39 in Outer.f32", kind: "val", typ: "c18.AllNums", v: allNumsWith("f32", cty.NumberFloatVal(1e39))},
		{note: "F-25 nested: []float32", kind: "val", typ: "[]float32", v: cty.ListVal([]cty.Value{cty.NumberIntVal(1), cty.NumberFloatVal(1e300)})},
		// --- float32 is narrowed through float64: double rounding next to a float32 midpoint
		{note: "double rounding 1+2^-24+2^-60 into float32", kind: "num", typ: "float32", v: cty.MustParseNumberVal("1.000000059604644775390625000000000000867361737988403547205962240695953369140625")},
		{note: "double rounding 1+3*2^-24-2^-60 into float32", kind: "num", typ: "float32", v: cty.MustParseNumberVal("1.000000178813934326171874999999999999132638262011596452794037759304046630859375")},
		// --- in range and exact
		{note: "MaxFloat32 into float32", kind: "num", typ: "float32", v: cty.NumberFloatVal(math.MaxFloat32)},
		{note: "+Inf into float32", kind: "num", typ: "float32", v: cty.PositiveInfinity},
		{note: "-Inf into *float64", kind: "num", typ: "*float64", v: cty.NegativeInfinity},
		{note: "2^64 into uint64", kind: "num", typ: "uint64", v: big2p64},
		{note: "2^64-1 into uint64", kind: "num", typ: "uint64", v: cty.NumberUIntVal(math.MaxUint64)},
		{note: "-0 into uint8", kind: "num", typ: "uint8", v: cty.NumberFloatVal(math.Copysign(0, -1))},
		{note: "-1 into uint", kind: "num", typ: "uint", v: cty.NumberIntVal(-1)},
		{note: "+Inf into big.Int", kind: "num", typ: "big.Int", v: cty.PositiveInfinity},
		{note: "+Inf into int64", kind: "num", typ: "int64", v: cty.PositiveInfinity},
		// --- nil pointers to slices / maps / arrays and back
		{note: "nil *[]int round trip", typ: "*[]int", goVal: addr(ptrTo((*[]int)(nil)))},
		{note: "nil *[]int round trip into a populated target", typ: "*[]int", goVal: addr(ptrTo((*[]int)(nil))), dirty: dirtyPS()},
		{note: "nil *map[string]string round trip", typ: "*map[string]string", goVal: addr(ptrTo((*map[string]string)(nil)))},
		{note: "nil *[2]Inner round trip", typ: "*[2]c18.Inner", goVal: addr(ptrTo((*[2]Inner)(nil)))},
		{note: "pointer to nil slice round trip", typ: "*[]int", goVal: addr(ptrTo(ptrTo([]int(nil))))},
		{note: "null number into a populated *int", kind: "val", typ: "*int", v: cty.NullVal(cty.Number), dirty: dirtyPI()},
		{note: "null of unknown type into a populated *int", kind: "val", typ: "*int", v: cty.NullVal(cty.DynamicPseudoType), dirty: dirtyPI()},
		{note: "null list into a populated *[]int", kind: "val", typ: "*[]int", v: cty.NullVal(cty.List(cty.Number)), dirty: dirtyPS()},
		// --- structs with unexported fields as tuple targets
		{note: "tuple of two into big.Int", kind: "val", typ: "big.Int", v: cty.TupleVal([]cty.Value{cty.True, cty.ListVal([]cty.Value{cty.NumberIntVal(1)})})},
		{note: "tuple of two into *big.Int", kind: "val", typ: "*big.Int", v: cty.TupleVal([]cty.Value{cty.False, cty.ListValEmpty(cty.Number)})},
		{note: "tuple of seven into big.Float", kind: "val", typ: "big.Float", v: cty.TupleVal([]cty.Value{cty.NumberIntVal(53), cty.Zero, cty.Zero, cty.NumberIntVal(1), cty.False, cty.ListVal([]cty.Value{cty.NumberIntVal(1)}), cty.NumberIntVal(1)})},
		{note: "empty object into big.Int", kind: "val", typ: "big.Int", v: cty.EmptyObjectVal},
	}
}

func allNumsWith(attr string, v cty.Value) cty.Value {
	m := map[string]cty.Value{}
	for _, k := range []string{"i", "i8", "i16", "i32", "i64", "u", "u8", "u16", "u32", "u64", "f32", "f64"} {
		m[k] = cty.NumberIntVal(1)
	}
	m[attr] = v
	return cty.ObjectVal(m)
}

var valueCorpusCache []valCase

// valueCorpus: the values decoded into every target type of the family.
func valueCorpus() []valCase {
	if valueCorpusCache != nil {
		return valueCorpusCache
	}
	n := func(i int64) cty.Value { return cty.NumberIntVal(i) }
	s := cty.StringVal
	lv := func(vs ...cty.Value) cty.Value { return cty.ListVal(vs) }
	tv := func(vs ...cty.Value) cty.Value { return cty.TupleVal(vs) }
	ov := func(kv ...any) cty.Value {
		m := map[string]cty.Value{}
		for i := 0; i+1 < len(kv); i += 2 {
			m[kv[i].(string)] = kv[i+1].(cty.Value)
		}
		return cty.ObjectVal(m)
	}
	innerT := shapeType(typeOf[Inner]())
	p := []valCase{
		{"true", cty.True}, {"0", n(0)}, {"1", n(1)}, {"-1", n(-1)}, {"127", n(127)}, {"128", n(128)}, {"255", n(255)}, {"256", n(256)},
		{"0.5", cty.NumberFloatVal(0.5)}, {"1e300", cty.NumberFloatVal(1e300)}, {"+Inf", cty.PositiveInfinity}, {"2^63", cty.NumberUIntVal(1 << 63)},
		{"empty string", s("")}, {"string", s("a")}, {"string 1", s("1")},
		{"unknown number", cty.UnknownVal(cty.Number)}, {"unknown string", cty.UnknownVal(cty.String)}, {"unknown bool", cty.UnknownVal(cty.Bool)},
		{"unknown list", cty.UnknownVal(cty.List(cty.Number))}, {"unknown map", cty.UnknownVal(cty.Map(cty.String))}, {"unknown inner", cty.UnknownVal(innerT)},
		{"unknown empty object", cty.UnknownVal(cty.EmptyObject)}, {"dynamic", cty.DynamicVal},
		{"refined unknown number", cty.UnknownVal(cty.Number).Refine().NotNull().NumberRangeLowerBound(n(1), true).NumberRangeUpperBound(n(1), true).NewValue()},
		{"null bool", cty.NullVal(cty.Bool)}, {"null number", cty.NullVal(cty.Number)}, {"null string", cty.NullVal(cty.String)},
		{"null list", cty.NullVal(cty.List(cty.Number))}, {"null list of string", cty.NullVal(cty.List(cty.String))}, {"null set", cty.NullVal(cty.Set(cty.Number))},
		{"null map", cty.NullVal(cty.Map(cty.String))}, {"null empty object", cty.NullVal(cty.EmptyObject)}, {"null inner", cty.NullVal(innerT)},
		{"null tuple", cty.NullVal(cty.EmptyTuple)}, {"null dynamic", cty.NullVal(cty.DynamicPseudoType)}, {"null capsule", cty.NullVal(model.CapsuleA)},
		{"capsule", model.NewCapA(1)},
		{"empty list of number", cty.ListValEmpty(cty.Number)}, {"empty list of string", cty.ListValEmpty(cty.String)}, {"empty list of dynamic", cty.ListValEmpty(cty.DynamicPseudoType)},
		{"list 1,2,3", lv(n(1), n(2), n(3))}, {"list a,b", lv(s("a"), s("b"))}, {"list 1,300", lv(n(1), n(300))}, {"list 0.5", lv(cty.NumberFloatVal(0.5))},
		{"list with null", lv(n(1), cty.NullVal(cty.Number))}, {"list with unknown", lv(n(1), cty.UnknownVal(cty.Number))}, {"list of lists", lv(lv(s("a")), cty.ListValEmpty(cty.String))},
		{"list true,false", lv(cty.True, cty.False)},
		{"empty set", cty.SetValEmpty(cty.Number)}, {"set 1,2,3", cty.SetVal([]cty.Value{n(1), n(2), n(3)})}, {"set a,b", cty.SetVal([]cty.Value{s("a"), s("b")})},
		{"set with unknown", cty.SetVal([]cty.Value{n(1), cty.UnknownVal(cty.Number)})},
		{"empty map of string", cty.MapValEmpty(cty.String)}, {"empty map of number", cty.MapValEmpty(cty.Number)},
		{"map a:x", cty.MapVal(map[string]cty.Value{"a": s("x")})}, {"map a:1", cty.MapVal(map[string]cty.Value{"a": n(1), "b": n(70000)})},
		{"map with null", cty.MapVal(map[string]cty.Value{"a": cty.NullVal(cty.Bool), "b": cty.True})},
		{"map of maps", cty.MapVal(map[string]cty.Value{"a": cty.MapVal(map[string]cty.Value{"x": n(1)})})},
		{"empty tuple", cty.EmptyTupleVal}, {"tuple for Tup", tv(n(1), s("a"), lv(cty.True))}, {"tuple for Tup, null list", tv(n(1), s("a"), cty.NullVal(cty.List(cty.Bool)))},
		{"tuple of two", tv(cty.True, lv(n(1)))}, {"tuple of two, empty", tv(cty.False, cty.ListValEmpty(cty.Number))}, {"tuple 1,2,3", tv(n(1), n(2), n(3))},
		{"tuple of seven", tv(n(53), n(0), n(0), n(1), cty.False, lv(n(1)), n(1))},
		{"tuple for TupNest", tv(ov("n", n(1), "s", s("x"), "p", cty.NullVal(cty.Number)), cty.NullVal(shapeType(typeOf[Tup]())))},
		{"empty object", cty.EmptyObjectVal},
		{"inner", ov("n", n(1), "s", s("x"), "p", cty.NumberFloatVal(0.5))}, {"inner null p", ov("n", n(1), "s", s("x"), "p", cty.NullVal(cty.Number))},
		{"inner without p", ov("n", n(1), "s", s("x"))}, {"inner without n", ov("s", s("x"), "p", n(1))}, {"inner with extra", ov("n", n(1), "s", s("x"), "p", n(1), "q", n(1))},
		{"inner n overflows", ov("n", n(1<<31), "s", s("x"), "p", n(1))}, {"inner n unknown", ov("n", cty.UnknownVal(cty.Number), "s", s("x"), "p", n(1))},
		{"inner s null", ov("n", n(1), "s", cty.NullVal(cty.String), "p", n(1))}, {"inner n fraction", ov("n", cty.NumberFloatVal(1.5), "s", s("x"), "p", n(1))},
		{"inner dynamic null attrs", ov("n", cty.NullVal(cty.DynamicPseudoType), "s", s("x"), "p", cty.NullVal(cty.DynamicPseudoType))},
		{"withdyn", ov("name", s("x"), "v", cty.DynamicVal, "w", cty.NullVal(cty.DynamicPseudoType))},
		{"withdyn unknown name", ov("name", cty.UnknownVal(cty.String), "v", n(1), "w", n(2))},
		{"allnums ones", allNumsWith("i", n(1))}, {"allnums f32 1e39", allNumsWith("f32", cty.NumberFloatVal(1e39))}, {"allnums u8 256", allNumsWith("u8", n(256))},
		{"allnums i64 2^63", allNumsWith("i64", cty.NumberUIntVal(1<<63))},
	}
	// the encodings of one fully populated value of every family type
	for _, e := range family() {
		if v, ok := encode(e, fullValue(e, "/enc")); ok {
			p = append(p, valCase{"encoding of " + e.name, v})
		}
	}
	valueCorpusCache = p
	return p
}
