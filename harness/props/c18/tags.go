package c18

// Struct tags that are not plain names.
//
// Every struct of the main family has tags like `cty:"name"`. Three functions
// read those tags - ImpliedType (attribute names of the implied object type),
// ToCtyValue (which field fills which attribute) and FromCtyValue (which
// attribute goes to which field) - and the round-trip law only holds while all
// three derive the SAME attribute name from a tag. For a plain name there is
// nothing to disagree about. This file adds struct types whose cty tags hold a
// comma, an option-looking suffix (as in tags copied from encoding/json),
// spaces, or unusual but legal characters, and round-trips them through the type
// implied by their Go type.
//
// docs/gocty.md does not say what the attribute name of such a tag is, so the
// oracle here does not either: it never looks at a name. It asks that
//   - ImpliedType gives an object type with one attribute per tagged field, and
//     that the attributes can be paired off with the tagged fields so that each
//     attribute has the type the documented mapping gives for its field;
//   - the value ToCtyValue makes for that type carries the Go value exactly:
//     its attributes can be paired off with the tagged fields so that every
//     attribute holds what the field holds (an attribute that holds no field's
//     value - a null where the field has data - is a silent loss);
//   - FromCtyValue takes that value back and reproduces the Go value.
//
// Whatever naming rule the library follows, these hold as long as its three
// readers of a tag follow the same one.

import (
	"fmt"
	"reflect"
	"sort"
	"strings"

	"github.com/zclconf/go-cty/cty"
	"github.com/zclconf/go-cty/cty/gocty"

	"verif/harness/core"
	"verif/harness/gen"
	"verif/harness/model"
	"verif/harness/mon"
)

// TagComma: tags written in the style of json tags.
type TagComma struct {
	Name  string   `cty:"name" json:"name"`
	Size  int64    `cty:"size,omitempty" json:"size,omitempty"`
	Label *string  `cty:"label,omitempty" json:"label,omitempty"`
	Tags  []string `cty:"tags" json:"tags"`
}

// TagOptions: several commas, a trailing comma, a space after the comma.
type TagOptions struct {
	A int16            `cty:"a,optional"`
	B string           `cty:"b,"`
	C bool             `cty:"c,x,y"`
	D map[string]uint8 `cty:"d,omitempty,string"`
	E *float64         `cty:"e, omitempty"`
}

// TagSpaces: spaces inside, before and after the name; a space-separated option.
type TagSpaces struct {
	A string  `cty:"with space"`
	B int32   `cty:" lead"`
	C bool    `cty:"trail "`
	D []int8  `cty:"opt omitempty"`
	E *uint16 `cty:"two  spaces"`
}

// TagChars: punctuation, upper case, non-ASCII (NFC), digits first, escapes.
type TagChars struct {
	A string  `cty:"dash-name"`
	B int     `cty:"dot.name"`
	C bool    `cty:"slash/name"`
	D *string `cty:"colon:name"`
	E []bool  `cty:"semi;name=1"`
	F uint32  `cty:"UPPER"`
	G float64 `cty:"\u00fcn\u00ef"`
	H int8    `cty:"\u65e5\u672c"`
	I string  `cty:"q\"uote"`
	J *bool   `cty:"1digit"`
	K uint8   `cty:"back\\slash"`
}

// TagSameTypes: fields of one Go type, so that nothing but the name tells them apart.
type TagSameTypes struct {
	A string `cty:"a"`
	B string `cty:"b,omitempty"`
	C string `cty:"c"`
	D string `cty:"d omitempty"`
}

// TagNested: such structs as members, under tags of the same kinds.
type TagNested struct {
	ID    string                `cty:"id"`
	Vol   TagComma              `cty:"vol,inline"`
	PVol  *TagComma             `cty:"pvol"`
	Vols  []TagComma            `cty:"vols,omitempty"`
	ByKey map[string]TagOptions `cty:"by key"`
}

func localTagged() reflect.Type {
	type Rec struct {
		Key   string `cty:"key,required"`
		Value *int   `cty:"value,omitempty"`
	}
	return typeOf[Rec]()
}

var tagFamilyCache []entry

// tagFamily is the family of Go types for this check (all plain: no cty.Value or big leaves).
func tagFamily() []entry {
	if tagFamilyCache != nil {
		return tagFamilyCache
	}
	ts := []reflect.Type{
		typeOf[TagComma](), typeOf[*TagComma](), typeOf[[]TagComma](), typeOf[map[string]*TagComma](),
		typeOf[TagOptions](), typeOf[*TagOptions](),
		typeOf[TagSpaces](), typeOf[[]*TagSpaces](),
		typeOf[TagChars](), typeOf[map[string]TagChars](),
		typeOf[TagSameTypes](), typeOf[[]TagSameTypes](),
		typeOf[TagNested](), typeOf[*TagNested](), typeOf[[]TagNested](),
		localTagged(), reflect.SliceOf(localTagged()),
	}
	var f []entry
	for _, t := range ts {
		f = append(f, entry{name: t.String(), t: t, plain: true,
			hasFloat: hasLeaf(t, func(t reflect.Type) bool { return t.Kind() == reflect.Float32 || t.Kind() == reflect.Float64 })})
	}
	tagFamilyCache = f
	return f
}

// taggedFields lists the fields of a struct type that carry a cty tag at all.
// (Every tag of the tag family has a name part under any reading: none is
// empty, none starts with a comma.)
func taggedFields(t reflect.Type) []int {
	var out []int
	for i := 0; i < t.NumField(); i++ {
		if t.Field(i).Tag.Get("cty") != "" {
			out = append(out, i)
		}
	}
	return out
}

// pairOff looks for a one-to-one assignment of n attributes to n fields under
// fits(attribute, field). It returns the assignment, or the first attribute
// (in the given order) that fits no field at all (-1 if every attribute fits
// some field but no one-to-one assignment exists).
func pairOff(n int, fits func(a, f int) bool) (assign []int, orphan int, ok bool) {
	ok2 := make([][]bool, n)
	for a := 0; a < n; a++ {
		ok2[a] = make([]bool, n)
		any := false
		for f := 0; f < n; f++ {
			ok2[a][f] = fits(a, f)
			any = any || ok2[a][f]
		}
		if !any {
			return nil, a, false
		}
	}
	assign = make([]int, n)
	used := make([]bool, n)
	var place func(a int) bool
	place = func(a int) bool {
		if a == n {
			return true
		}
		for f := 0; f < n; f++ {
			if !used[f] && ok2[a][f] {
				used[f], assign[a] = true, f
				if place(a + 1) {
					return true
				}
				used[f] = false
			}
		}
		return false
	}
	if place(0) {
		return assign, -1, true
	}
	return nil, -1, false
}

func sortedAttrNames(ty cty.Type) []string {
	atys := ty.AttributeTypes()
	names := make([]string, 0, len(atys))
	for k := range atys {
		names = append(names, k)
	}
	sort.Strings(names)
	return names
}

// shapeAnyNames: does ty have the shape the documented mapping gives for Go
// type t, attribute names aside? "" = yes.
func shapeAnyNames(ty cty.Type, t reflect.Type, path string) string {
	for t.Kind() == reflect.Ptr {
		t = t.Elem()
	}
	switch t.Kind() {
	case reflect.Slice:
		if !ty.IsListType() {
			return fmt.Sprintf("%s: %s for Go type %s", path, ty.FriendlyName(), t)
		}
		return shapeAnyNames(ty.ElementType(), t.Elem(), path+"[]")
	case reflect.Map:
		if !ty.IsMapType() {
			return fmt.Sprintf("%s: %s for Go type %s", path, ty.FriendlyName(), t)
		}
		return shapeAnyNames(ty.ElementType(), t.Elem(), path+"[]")
	case reflect.Struct:
		fields := taggedFields(t)
		if !ty.IsObjectType() {
			return fmt.Sprintf("%s: %s for struct type %s", path, ty.FriendlyName(), t)
		}
		names := sortedAttrNames(ty)
		if len(names) != len(fields) {
			return fmt.Sprintf("%s: %d attributes %q for the %d tagged fields of %s (tags %s)", path, len(names), names, len(fields), t, tagList(t))
		}
		_, orphan, ok := pairOff(len(names), func(a, f int) bool {
			return shapeAnyNames(ty.AttributeType(names[a]), t.Field(fields[f]).Type, "") == ""
		})
		switch {
		case ok:
			return ""
		case orphan >= 0:
			return fmt.Sprintf("%s: attribute %q of type %#v corresponds to no tagged field of %s (tags %s)", path, names[orphan], ty.AttributeType(names[orphan]), t, tagList(t))
		}
		return fmt.Sprintf("%s: the attributes %q cannot be paired off with the tagged fields of %s (tags %s)", path, names, t, tagList(t))
	}
	if want := shapeType(t); !model.TypeEq(model.TNodeOf(ty), model.TNodeOf(want)) {
		return fmt.Sprintf("%s: %#v for Go type %s (documented mapping: %#v)", path, ty, t, want)
	}
	return ""
}

// hasTaggedStruct: does a value of type t hold a struct with cty tags somewhere?
func hasTaggedStruct(t reflect.Type) bool {
	return hasLeaf(t, func(t reflect.Type) bool {
		return t.Kind() == reflect.Struct && !isSpecial(t) && len(taggedFields(t)) > 0
	})
}

func clip(s string, n int) string {
	if len(s) <= n {
		return s
	}
	return s[:n] + "..."
}

func tagList(t reflect.Type) string {
	var p []string
	for _, i := range taggedFields(t) {
		p = append(p, fmt.Sprintf("%s `cty:%q`", t.Field(i).Name, t.Field(i).Tag.Get("cty")))
	}
	return "{" + strings.Join(p, "; ") + "}"
}

// carriesAnyNames: does the cty value v carry the Go value g exactly, attribute
// names aside? Structs with tags are compared by pairing attributes off with
// tagged fields; everything else as holds does (Go -> cty direction).
func carriesAnyNames(v cty.Value, g reflect.Value, path string) (string, string) {
	for g.Kind() == reflect.Ptr {
		if g.IsNil() {
			if v.IsNull() {
				return "", ""
			}
			return fmt.Sprintf("%s: nil pointer, value is %#v", path, v), "non-null-as-nil-pointer"
		}
		g = g.Elem()
	}
	t := g.Type()
	if isSpecial(t) || (t.Kind() != reflect.Struct && t.Kind() != reflect.Slice && t.Kind() != reflect.Map) {
		return holds(v, g, false, path)
	}
	if !v.IsKnown() {
		return fmt.Sprintf("%s: an unknown value cannot be carried by Go type %s", path, t), "unknown-carried"
	}
	if v.IsNull() {
		if t.Kind() != reflect.Struct && g.IsNil() {
			return "", ""
		}
		return fmt.Sprintf("%s: null carried by a non-nil %s", path, t), "null-as-non-nil-" + kindName(t)
	}
	ty := v.Type()
	switch t.Kind() {
	case reflect.Slice:
		if g.IsNil() {
			return fmt.Sprintf("%s: nil slice, value is %#v", path, v), "non-null-as-nil-slice"
		}
		if !ty.IsListType() {
			break
		}
		es := v.AsValueSlice()
		if len(es) != g.Len() {
			return fmt.Sprintf("%s: %d Go elements, value has %d", path, g.Len(), len(es)), "length-differs"
		}
		for i, e := range es {
			if w, c := carriesAnyNames(e, g.Index(i), fmt.Sprintf("%s[%d]", path, i)); w != "" {
				return w, c
			}
		}
		return "", ""
	case reflect.Map:
		if g.IsNil() {
			return fmt.Sprintf("%s: nil map, value is %#v", path, v), "non-null-as-nil-map"
		}
		if !ty.IsMapType() || t.Key().Kind() != reflect.String {
			break
		}
		em := v.AsValueMap()
		if len(em) != g.Len() {
			return fmt.Sprintf("%s: %d Go keys, value has %d", path, g.Len(), len(em)), "map-keys-differ"
		}
		for _, k := range sortedKeys(em) {
			kv := reflect.New(t.Key()).Elem()
			kv.SetString(k)
			ge := g.MapIndex(kv)
			if !ge.IsValid() {
				return fmt.Sprintf("%s: key %q missing", path, k), "map-keys-differ"
			}
			if w, c := carriesAnyNames(em[k], ge, fmt.Sprintf("%s[%q]", path, k)); w != "" {
				return w, c
			}
		}
		return "", ""
	case reflect.Struct:
		if !ty.IsObjectType() {
			break
		}
		fields := taggedFields(t)
		names := sortedAttrNames(ty)
		if len(names) != len(fields) {
			return fmt.Sprintf("%s: value has %d attributes %q, %s has %d tagged fields (tags %s)", path, len(names), names, t, len(fields), tagList(t)), "attribute-count-differs"
		}
		var lastWhy string
		_, orphan, ok := pairOff(len(names), func(a, f int) bool {
			w, _ := carriesAnyNames(v.GetAttr(names[a]), g.Field(fields[f]), path+"."+names[a])
			if w != "" {
				lastWhy = w
			}
			return w == ""
		})
		switch {
		case ok:
			return "", ""
		case orphan >= 0:
			// what is wrong inside the pairs whose field has the shape of this attribute (where a member struct is the cause)
			inside := ""
			at := ty.AttributeType(names[orphan])
			for _, fi := range fields {
				if len(inside) < 600 && hasTaggedStruct(t.Field(fi).Type) && shapeAnyNames(at, t.Field(fi).Type, "") == "" {
					if w, _ := carriesAnyNames(v.GetAttr(names[orphan]), g.Field(fi), path+"."+names[orphan]); w != "" {
						inside += fmt.Sprintf("; against field %s: %s", t.Field(fi).Name, clip(w, 400))
					}
				}
			}
			if inside != "" {
				return fmt.Sprintf("%s: attribute %q holds the value of none of the tagged fields of %s (tags %s)%s", path, names[orphan], t, tagList(t), inside), "attribute-holds-no-field"
			}
			return fmt.Sprintf("%s: attribute %q = %#v holds the value of none of the tagged fields of %s (tags %s; Go value %s)", path, names[orphan], v.GetAttr(names[orphan]), t, tagList(t), goText(g)),
				"attribute-holds-no-field"
		}
		return fmt.Sprintf("%s: the attributes cannot be paired off with the tagged fields of %s so that each holds its field's value (tags %s; Go value %s; e.g. %s)", path, t, tagList(t), goText(g), lastWhy),
			"attributes-do-not-pair-off"
	}
	return fmt.Sprintf("%s: %s value cannot be carried by Go type %s", path, ty.FriendlyName(), t), ctyKindName(v) + "->" + kindName(t)
}

// tagRoundTrip is roundTrip for the tag family: same steps, same facets, but
// the two model comparisons (implied type, carried value) are name-agnostic.
func tagRoundTrip(c *core.Ctx, idx int64, e entry, g reflect.Value, dirty *reflect.Value, viaPtr bool) {
	how := "zero-target"
	if dirty != nil {
		how = "populated-target"
	}
	desc := func() string {
		s := fmt.Sprintf("round trip (tags that are not plain names) %s: %s [%s", e.name, goText(g), how)
		if dirty != nil {
			s += " " + goText(*dirty)
		}
		if viaPtr {
			s += ", passed by pointer"
		}
		return s + "]"
	}
	c.Begin(idx, desc)
	c.Count("kind:tag-round-trip")
	c.Count("tag-roundtrip-type:" + e.name)
	nontrivial := false
	defer func() { c.Distinct(desc(), nontrivial) }()

	in := g.Interface()
	if viaPtr {
		in = g.Addr().Interface()
	}
	var ty cty.Type
	var err error
	o := core.Guard(func() { ty, err = gocty.ImpliedType(in) })
	c.Eval(1)
	c.Count("op:ImpliedType")
	switch {
	case o.Panicked:
		c.Violate(siteImplied, "panic: "+core.PanicClass(o.PanicMsg), e.name, e.name, o.PanicMsg+"\n"+o.Stack)
		return
	case err != nil:
		c.Violate(siteImplied, "refused a Go type of the documented mapping", e.name, e.name, err.Error())
		return
	}
	if w := shapeAnyNames(ty, e.t, "$"); w != "" {
		c.Violate(siteImplied, "implied type does not have one attribute of the mapped type per tagged field", e.name, e.name, fmt.Sprintf("%s; implied type %#v", w, ty))
		return
	}
	c.Count("held:tag-implied-shape")

	var v cty.Value
	o = core.Guard(func() { v, err = gocty.ToCtyValue(in, ty) })
	c.Eval(1)
	c.Count("op:ToCtyValue")
	switch {
	case o.Panicked:
		c.Violate(siteTo, "panic: "+core.PanicClass(o.PanicMsg), e.name, desc(), o.PanicMsg+"\n"+o.Stack)
		return
	case err != nil:
		c.Violate(siteTo, "refused a Go value of the family", e.name, desc(), fmt.Sprintf("type from ImpliedType: %#v; error: %s", ty, err))
		return
	}
	if w := mon.WellFormed(v); w != "" {
		c.CrossNote("C06", siteTo+": "+w, desc())
	}
	if !model.Conforms(model.TNodeOf(v.Type()), model.TNodeOf(ty)) {
		c.Violate(siteTo, "result does not conform to the requested type", e.name, desc(), fmt.Sprintf("result %#v, requested %#v", v, ty))
		return
	}
	if w, cls := carriesAnyNames(v, g, "$"); w != "" {
		c.Violate(siteTo, "cty value does not carry the Go value exactly", "struct tags: "+cls, desc(), fmt.Sprintf("%s; type from ImpliedType: %#v; cty value %#v", w, ty, v))
		return
	}
	c.Count("held:tag-encode-exact")

	target := reflect.New(e.t).Elem()
	if dirty != nil {
		target = *dirty
	}
	o = core.Guard(func() { err = gocty.FromCtyValue(v, target.Addr().Interface()) })
	c.Eval(1)
	c.Count("op:FromCtyValue")
	switch {
	case o.Panicked:
		c.Violate(siteFrom, "panic: "+core.PanicClass(o.PanicMsg), "round-trip:"+e.name, desc(), fmt.Sprintf("encoded as %#v; %s\n%s", v, o.PanicMsg, o.Stack))
		return
	case err != nil:
		c.Violate(siteFrom, "round trip refused: the encoding of a Go value does not decode into its own type", "struct tags: "+e.name, desc(),
			fmt.Sprintf("encoded as %#v; error: %s", v, errText(err)))
		return
	}
	if w, cls := diff(g, target, "$"); w != "" {
		c.Violate(siteFrom, "round trip changed the Go value", "struct tags: "+cls, desc(), fmt.Sprintf("%s; encoded as %#v; decoded %s", w, v, goText(target)))
		return
	}
	if !nullFormChanged(g, target) && !reflect.DeepEqual(g.Interface(), target.Interface()) {
		c.Violate(siteFrom, "round trip changed the Go value", "struct tags: reflect.DeepEqual", desc(), fmt.Sprintf("reflect.DeepEqual is false; decoded %s", goText(target)))
		return
	}
	c.Count("held:tag-round-trip")
	nontrivial = !isZeroGo(g)
	if nontrivial {
		c.Count("nontrivial:tag-round-trip")
	}
	if c.WantSample() && nontrivial && c.Batch%4 == 2 {
		c.Sample(map[string]any{"kind": "tag-round-trip", "go_type": e.name, "go_value": goText(g), "cty_type": fmt.Sprintf("%#v", ty), "cty_value": fmt.Sprintf("%#v", v), "target": how})
	}
}

// runTagCases: seeded round trips over the tag family (split between the
// batches) and, in batch 0, a fixed part: zero, empty-non-nil and two fully
// populated values of every type x {zero, populated, empty-non-nil} target.
func runTagCases(c *core.Ctx, base int64) {
	fam := tagFamily()
	n := int64(c.N(6400, 64000))
	for i := int64(0); i < n; i++ {
		id := base + i
		if !c.Mine(i) || !c.Want(id) {
			continue
		}
		r := c.RNG(id)
		e := fam[r.Intn(len(fam))]
		g := gen.GoValue(r, e.t, gen.GoValueOpts{NilPct: 15})
		var dirty *reflect.Value
		if r.Chance(1, 3) {
			d := gen.GoValue(r, e.t, gen.GoValueOpts{NilPct: 15})
			dirty = &d
		}
		tagRoundTrip(c, id, e, g, dirty, r.Chance(1, 4))
	}
	if c.Batch != 0 {
		return
	}
	id := base + 500_000_000
	for _, e := range fam {
		vals := []reflect.Value{reflect.New(e.t).Elem(), emptyNonNil(e.t), fullValue(e, "/1"), fullValue(e, "/2")}
		for k, g := range vals {
			for dirtyKind := 0; dirtyKind < 3; dirtyKind++ {
				id++
				if !c.Want(id) {
					continue
				}
				var dirty *reflect.Value
				switch dirtyKind {
				case 1:
					d := fullValue(e, "/dirty")
					dirty = &d
				case 2:
					d := emptyNonNil(e.t)
					dirty = &d
				}
				tagRoundTrip(c, id, e, g, dirty, k%2 == 1)
			}
		}
	}
	c.Exhaustive(fmt.Sprintf("zero, empty-non-nil and two fully populated values of the %d Go types whose struct tags are not plain names x {zero, populated, empty-non-nil} target", len(fam)))
}
