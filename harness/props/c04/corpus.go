package c04

import (
	"github.com/zclconf/go-cty/cty"
	"github.com/zclconf/go-cty/cty/function"

	"verif/harness/core"
	"verif/harness/gen"
	"verif/harness/mon"
)

var (
	m1 = gen.Marks[0]
	m2 = gen.Marks[1]
	m3 = gen.Marks[2]
)

func n(i int64) cty.Value           { return cty.NumberIntVal(i) }
func s(x string) cty.Value          { return cty.StringVal(x) }
func lst(vs ...cty.Value) cty.Value { return cty.ListVal(vs) }
func tup(vs ...cty.Value) cty.Value { return cty.TupleVal(vs) }
func obj(kv ...any) cty.Value {
	m := map[string]cty.Value{}
	for i := 0; i+1 < len(kv); i += 2 {
		m[kv[i].(string)] = kv[i+1].(cty.Value)
	}
	return cty.ObjectVal(m)
}
func mp(kv ...any) cty.Value {
	m := map[string]cty.Value{}
	for i := 0; i+1 < len(kv); i += 2 {
		m[kv[i].(string)] = kv[i+1].(cty.Value)
	}
	return cty.MapVal(m)
}

func stdByName(name string) function.Function {
	for _, f := range stdFns {
		if f.name == name {
			return f.fn
		}
	}
	panic("no stdlib function " + name)
}

// strip derives the unmarked tuple from a marked one.
func strip(m []cty.Value) []cty.Value {
	u := make([]cty.Value, len(m))
	for i, v := range m {
		u[i] = mon.StripMarks(v)
	}
	return u
}

func corpusOp(name, attr string, marked ...cty.Value) *pair {
	return opPair(opByName(name), attr, strip(marked), marked)
}
func corpusConv(want cty.Type, marked cty.Value) *pair {
	return convertPair("Convert", want, mon.StripMarks(marked), marked)
}
func corpusFn(name string, marked ...cty.Value) *pair {
	return funcPair("stdlib."+name, "stdlib", "", stdByName(name), strip(marked), marked)
}
func corpusSet(marked ...cty.Value) *pair { return setValPair(strip(marked), marked) }

// corpus is the fixed, seed-independent list of boundary cases written from
// reading the code. It contains the witness of every defect this driver found.
func corpus() []*pair {
	unkN := cty.UnknownVal(cty.Number)
	unkB := cty.UnknownVal(cty.Bool)
	setOfMaps := cty.SetVal([]cty.Value{mp("k", s("é"))})
	return []*pair{
		// F-40: HasElement unmarks only the top level of the element before hashing it
		corpusOp("HasElement", "", setOfMaps, mp("k", s("é").Mark(m1))),
		corpusOp("HasElement", "", setOfMaps, mp("k", s("x").Mark(m1))),
		corpusOp("HasElement", "", cty.SetVal([]cty.Value{lst(n(1), n(2))}), lst(n(1).Mark(m2), n(2))),
		corpusOp("HasElement", "", cty.SetVal([]cty.Value{obj("a", tup(s("x")))}).Mark(m3), obj("a", tup(s("x").Mark(m1))).Mark(m2)),
		corpusOp("HasElement", "", cty.SetVal([]cty.Value{lst(n(1))}), lst(unkN.Mark(m1))),
		corpusOp("HasElement", "", cty.SetVal([]cty.Value{n(1)}).Mark(m1), n(1).Mark(m2)),
		corpusOp("HasElement", "", cty.SetVal([]cty.Value{n(1)}), s("a").Mark(m2)),
		corpusOp("HasElement", "", cty.UnknownVal(cty.Set(cty.Number)).Mark(m1), n(1)),
		// short-circuit returns of the arithmetic and logic methods
		corpusOp("Multiply", "", cty.Zero.Mark(m1), unkN.Mark(m2)),
		corpusOp("Multiply", "", unkN, cty.Zero.Mark(m1)),
		corpusOp("Multiply", "", n(3), n(4).Mark(m1)),
		corpusOp("Multiply", "", n(3).Mark(m2), n(4)),
		corpusOp("And", "", cty.False.Mark(m1), unkB.Mark(m2)),
		corpusOp("And", "", unkB.Mark(m2), cty.False),
		corpusOp("Or", "", cty.True, unkB.Mark(m3)),
		corpusOp("Or", "", cty.DynamicVal.Mark(m3), cty.True.Mark(m1)),
		corpusOp("Add", "", unkN.Mark(m1), cty.DynamicVal.Mark(m2)),
		corpusOp("Modulo", "", cty.PositiveInfinity.Mark(m1), n(2).Mark(m2)),
		corpusOp("Modulo", "", n(5).Mark(m1), cty.Zero.Mark(m2)),
		corpusOp("Divide", "", n(5).Mark(m1), cty.Zero),
		corpusOp("LessThan", "", unkN.Refine().NumberRangeUpperBound(n(1), true).NewValue().Mark(m1), n(5).Mark(m2)),
		corpusOp("GreaterThanOrEqualTo", "", n(1).Mark(m1), n(1).Mark(m2)),
		corpusOp("Absolute", "", unkN.Mark(m1)),
		corpusOp("Not", "", cty.NullVal(cty.Bool).Mark(m1)),
		// equality with marks at depth, nulls, unknowns, early returns
		corpusOp("Equals", "", cty.NullVal(cty.String).Mark(m1), s("a").Mark(m2)),
		corpusOp("Equals", "", cty.NullVal(cty.String).Mark(m1), cty.NullVal(cty.Number)),
		corpusOp("Equals", "", lst(n(1).Mark(m1)), lst(n(1)).Mark(m2)),
		corpusOp("Equals", "", obj("a", unkN.Mark(m1), "b", n(1)), obj("a", n(2), "b", n(2).Mark(m3))),
		corpusOp("Equals", "", s("a").Mark(m1), n(1)),
		corpusOp("Equals", "", unkN.RefineNotNull().Mark(m1), cty.NullVal(cty.Number)),
		corpusOp("NotEqual", "", mp("k", lst(s("x").Mark(m1))), mp("k", lst(s("x")))),
		corpusOp("Equals", "", cty.SetVal([]cty.Value{n(1).Mark(m1)}), cty.SetVal([]cty.Value{n(1)})),
		corpusOp("Equals", "", newCapC(1).Mark(m1), newCapC(1).Mark(m2)),
		corpusOp("Equals", "", lst(newCapC(1).Mark(m1)), lst(newCapC(2))),
		// element access: marks of the container, of the key and of the member
		corpusOp("Index", "", lst(n(1).Mark(m1), n(2)).Mark(m2), n(0).Mark(m3)),
		corpusOp("Index", "", lst(n(1).Mark(m1), n(2)), n(1)),
		corpusOp("Index", "", mp("a", s("x").Mark(m1)), s("a").Mark(m2)),
		corpusOp("Index", "", tup(n(1), s("x").Mark(m1)), cty.UnknownVal(cty.Number).Mark(m2)),
		corpusOp("Index", "", cty.UnknownVal(cty.List(cty.String)).Mark(m1), cty.DynamicVal.Mark(m2)),
		corpusOp("Index", "", cty.DynamicVal.Mark(m1), n(0)),
		corpusOp("HasIndex", "", lst(n(1)).Mark(m1), s("a").Mark(m2)),
		corpusOp("HasIndex", "", mp("a", n(1).Mark(m3)), s("b").Mark(m2)),
		corpusOp("HasIndex", "", cty.DynamicVal, n(0).Mark(m2)),
		corpusOp("GetAttr", "a", obj("a", n(1).Mark(m1)).Mark(m2)),
		corpusOp("GetAttr", "a", cty.UnknownVal(cty.Object(map[string]cty.Type{"a": cty.String})).Mark(m2)),
		corpusOp("GetAttr", "a", cty.DynamicVal.Mark(m2)),
		corpusOp("Length", "", tup(n(1).Mark(m1)).Mark(m2)),
		corpusOp("Length", "", cty.UnknownVal(cty.List(cty.String)).Mark(m2)),
		corpusOp("Length", "", cty.SetVal([]cty.Value{unkN, n(1)}).Mark(m3)),
		corpusOp("Length", "", lst(n(1).Mark(m1))),

		// conversion: pass-throughs, nulls, unknowns, nested marks, set targets
		// F-152: the marks of a null member survive every conversion that keeps the member (the conversions that strip
		// optional-attribute annotations from a null member's type rebuilt it from the type alone)
		corpusConv(cty.List(cty.Number), lst(cty.NullVal(cty.String).Mark(m1), s("1"))),
		corpusConv(cty.Set(cty.String), lst(cty.NullVal(cty.String).Mark(m1), s("1"))),
		corpusConv(cty.Set(cty.Number), tup(cty.NullVal(cty.String).Mark(m2), s("1"))),
		corpusConv(cty.Object(map[string]cty.Type{"a": cty.Number, "b": cty.Number}), mp("a", cty.NullVal(cty.String).Mark(m3), "b", s("1"))),
		corpusConv(cty.Object(map[string]cty.Type{"a": cty.Number, "b": cty.Number}), obj("a", cty.NullVal(cty.String).Mark(m1), "b", s("1"))),
		corpusConv(cty.List(cty.List(cty.Number)), lst(lst(cty.NullVal(cty.String).Mark(m2)))),
		corpusConv(cty.List(cty.DynamicPseudoType), lst(cty.NullVal(cty.String).Mark(m1), s("1"))),
		corpusConv(cty.List(cty.Set(cty.String)), lst(cty.NullVal(cty.List(cty.String)).Mark(m3))),
		corpusConv(cty.String, n(1).Mark(m1)),
		corpusConv(cty.Number, cty.NullVal(cty.String).Mark(m1)),
		corpusConv(cty.Number, cty.UnknownVal(cty.String).Mark(m1)),
		corpusConv(cty.DynamicPseudoType, s("a").Mark(m1)),
		corpusConv(cty.String, cty.DynamicVal.Mark(m1)),
		corpusConv(cty.String, s("a").Mark(m2)),
		corpusConv(cty.Bool, s("maybe").Mark(m2)),
		corpusConv(cty.List(cty.String), lst(n(1).Mark(m1), n(2)).Mark(m2)),
		corpusConv(cty.Set(cty.String), lst(n(1).Mark(m1), n(1).Mark(m2))),
		corpusConv(cty.Set(cty.Number), lst(n(1).Mark(m1), n(2))),
		corpusConv(cty.List(cty.Number), cty.SetVal([]cty.Value{n(1).Mark(m1), n(2)})),
		corpusConv(cty.List(cty.DynamicPseudoType), tup(n(1).Mark(m1), s("a")).Mark(m3)),
		corpusConv(cty.Set(cty.DynamicPseudoType), tup(n(1).Mark(m1), s("a").Mark(m2))),
		corpusConv(cty.Map(cty.String), obj("a", n(1).Mark(m1), "b", s("x")).Mark(m2)),
		corpusConv(cty.Map(cty.DynamicPseudoType), obj("a", lst(n(1).Mark(m1)), "b", lst(s("x")))),
		corpusConv(cty.Object(map[string]cty.Type{"a": cty.String}), mp("a", n(1).Mark(m1)).Mark(m2)),
		corpusConv(cty.ObjectWithOptionalAttrs(map[string]cty.Type{"a": cty.String, "z": cty.Number}, []string{"z"}), obj("a", s("x").Mark(m1))),
		corpusConv(cty.Object(map[string]cty.Type{"a": cty.String}), obj("a", cty.NullVal(cty.Number).Mark(m1), "b", s("dropped").Mark(m2))),
		corpusConv(cty.Tuple([]cty.Type{cty.String, cty.DynamicPseudoType}), tup(n(1).Mark(m1), cty.UnknownVal(cty.Bool).Mark(m2))),
		corpusConv(cty.List(cty.String), cty.NullVal(cty.List(cty.Number)).Mark(m1)),
		corpusConv(cty.Map(cty.String), cty.UnknownVal(cty.Object(map[string]cty.Type{"a": cty.Number})).Mark(m1)),
		corpusConv(cty.List(cty.List(cty.String)), lst(lst(n(1).Mark(m1)).Mark(m2))),
		corpusConv(cty.Number, lst(n(1)).Mark(m1)), // no conversion available
		corpusConv(cty.String, newCapC(3).Mark(m1)),
		corpusConv(capsuleC, n(3).Mark(m1)),
		corpusConv(capsuleC, n(99).Mark(m1)), // conversion callback reports an error
		corpusConv(cty.List(capsuleC), lst(n(1).Mark(m1), n(2)).Mark(m2)),
		corpusConv(cty.Set(capsuleC), lst(n(1).Mark(m1), n(1).Mark(m3))),
		corpusConv(cty.List(cty.String), lst(newCapC(1).Mark(m1), newCapC(2))),

		// set constructor
		corpusSet(n(1).Mark(m1), n(1).Mark(m2), n(2)),
		corpusSet(lst(n(1).Mark(m1)), lst(n(1)).Mark(m2)),
		corpusSet(obj("a", tup(s("x").Mark(m3))), obj("a", tup(s("y")))),
		corpusSet(cty.UnknownVal(cty.String).Mark(m1), s("a")),
		corpusSet(cty.NullVal(cty.String).Mark(m1)),
		corpusSet(cty.DynamicVal.Mark(m1), n(1).Mark(m2)),
		corpusSet(mp("k", cty.NullVal(cty.Number).Mark(m2)).Mark(m1)),

		// function system: unknown short-circuit, dynamic-type short-circuit, errors, variadic marks
		corpusFn("upper", s("a").Mark(m1)),
		corpusFn("upper", cty.UnknownVal(cty.String).Mark(m1)),
		corpusFn("upper", cty.DynamicVal.Mark(m1)),
		corpusFn("upper", cty.NullVal(cty.String).Mark(m1)),
		corpusFn("add", cty.DynamicVal.Mark(m1), n(1).Mark(m2)),
		corpusFn("add", unkN.Mark(m1), n(1).Mark(m2)),
		corpusFn("min", n(1), n(2).Mark(m1), n(0).Mark(m2)),
		corpusFn("max", n(1), unkN.Mark(m1), n(0).Mark(m2)),
		corpusFn("join", s(","), lst(s("a").Mark(m1)), lst(s("b")).Mark(m2)),
		corpusFn("join", s(",").Mark(m3), lst(s("a"), cty.UnknownVal(cty.String).Mark(m1))),
		corpusFn("format", s("%s-%d"), s("a").Mark(m1), n(1).Mark(m2)),
		corpusFn("format", s("%v"), lst(n(1).Mark(m1))),
		corpusFn("format", s("p%v"), cty.UnknownVal(cty.String).Mark(m1)),
		corpusFn("formatlist", s("%s"), lst(s("a").Mark(m1), s("b"))),
		corpusFn("jsonencode", obj("a", n(1).Mark(m1))),
		corpusFn("jsondecode", s(`{"a":1}`).Mark(m1)),
		corpusFn("coalesce", cty.NullVal(cty.String).Mark(m1), s("a").Mark(m2)),
		corpusFn("coalesce", s("a").Mark(m2), s("b").Mark(m3)),
		corpusFn("coalescelist", cty.ListValEmpty(cty.String).Mark(m1), lst(s("a").Mark(m2))),
		corpusFn("equal", lst(n(1).Mark(m1)), lst(n(1))),
		corpusFn("contains", lst(n(1).Mark(m1), n(2)), n(2).Mark(m2)),
		corpusFn("contains", cty.SetVal([]cty.Value{lst(n(1))}), lst(n(1).Mark(m1))),
		corpusFn("distinct", lst(n(1).Mark(m1), n(1), n(2))),
		corpusFn("sethaselement", cty.SetVal([]cty.Value{lst(n(1))}), lst(n(1).Mark(m1))),
		corpusFn("setunion", cty.SetVal([]cty.Value{n(1)}).Mark(m1), cty.SetVal([]cty.Value{n(2)}).Mark(m2)),
		corpusFn("range", n(3).Mark(m1)),
		corpusFn("index", lst(n(1).Mark(m1)), n(0).Mark(m2)),
		corpusFn("hasindex", lst(n(1).Mark(m1)), n(5).Mark(m2)),
		corpusFn("to(string)", n(1).Mark(m1)),
		corpusFn("to(list of any single type)", tup(n(1).Mark(m1), s("a"))),
		corpusFn("assertnotnull", obj("a", n(1).Mark(m1))),
		// functions that declare AllowMarked: non-interference and no invention only
		corpusFn("length", lst(n(1).Mark(m1)).Mark(m2)),
		corpusFn("element", lst(n(1).Mark(m1), n(2)).Mark(m2), n(3).Mark(m3)),
		corpusFn("element", tup(n(1).Mark(m1), s("x")), n(1).Mark(m3)),
		corpusFn("chunklist", lst(n(1).Mark(m1), n(2), n(3)).Mark(m2), n(2).Mark(m3)),
		corpusFn("chunklist", cty.UnknownVal(cty.List(cty.Number)).Mark(m2), n(2)),
		corpusFn("concat", lst(n(1).Mark(m1)), lst(n(2)).Mark(m2)),
		corpusFn("concat", tup(n(1).Mark(m1)), lst(s("x")).Mark(m2)),
		corpusFn("flatten", lst(lst(n(1).Mark(m1)), lst(n(2)).Mark(m2)).Mark(m3)),
		corpusFn("flatten", tup(cty.SetVal([]cty.Value{n(1).Mark(m1)}), cty.UnknownVal(cty.List(cty.Number)).Mark(m2))),
		corpusFn("keys", mp("a", n(1).Mark(m1)).Mark(m2)),
		corpusFn("keys", obj("a", n(1).Mark(m1)).Mark(m2)),
		corpusFn("values", mp("a", n(1).Mark(m1), "b", n(2)).Mark(m2)),
		corpusFn("values", obj("a", n(1).Mark(m1), "b", s("x")).Mark(m2)),
		corpusFn("lookup", mp("a", n(1).Mark(m1)).Mark(m2), s("a").Mark(m3), n(0)),
		corpusFn("lookup", mp("a", n(1)), s("zz").Mark(m3), n(0).Mark(m1)),
		corpusFn("lookup", obj("a", n(1).Mark(m1)), s("a"), s("d").Mark(m2)),
		corpusFn("merge", mp("a", n(1).Mark(m1)).Mark(m2), mp("b", n(2)).Mark(m3)),
		corpusFn("merge", obj("a", n(1).Mark(m1)), cty.NullVal(cty.EmptyObject).Mark(m2), obj("a", s("x")).Mark(m3)),
		corpusFn("reverselist", lst(n(1).Mark(m1), n(2)).Mark(m2)),
		corpusFn("reverselist", cty.SetVal([]cty.Value{n(1).Mark(m1), n(2)})),
		corpusFn("setproduct", lst(n(1).Mark(m1), n(2)), cty.SetVal([]cty.Value{s("a")}).Mark(m2)),
		corpusFn("setproduct", tup(n(1).Mark(m1)), lst(s("a")).Mark(m2)),
		corpusFn("setproduct", cty.UnknownVal(cty.Set(cty.String)).Mark(m1), lst(s("a").Mark(m2))),
		corpusFn("slice", lst(n(1).Mark(m1), n(2), n(3)).Mark(m2), n(0).Mark(m3), n(2)),
		corpusFn("slice", tup(n(1).Mark(m1), s("x")), n(1), n(2).Mark(m3)),
		corpusFn("zipmap", lst(s("a").Mark(m1), s("b")).Mark(m2), lst(n(1), n(2).Mark(m3))),
		corpusFn("zipmap", lst(s("a"), s("b").Mark(m1)), tup(n(1), s("x").Mark(m3)).Mark(m2)),
		corpusFn("abs", n(-1).Mark(m1)),
		corpusFn("and", cty.False.Mark(m1), unkB.Mark(m2)),
		corpusFn("lessthan", unkN.Mark(m1), n(2).Mark(m2)),
	}
}

func runCorpus(c *core.Ctx, base int64) {
	var ps []*pair
	g := core.Guard(func() { ps = corpus() })
	if g.Panicked {
		c.Begin(base, func() string { return "building the corpus" })
		c.Violate("corpus", "building the fixed corpus panicked", core.PanicClass(g.PanicMsg), "corpus()", g.PanicMsg+"\n"+g.Stack)
		return
	}
	for k, p := range ps {
		idx := base + int64(k)
		if !c.Want(idx) {
			continue
		}
		c.Count("corpus-case")
		checkPair(c, idx, p)
	}
}

// ---- exhaustive enumeration of top-level mark subsets ------------------------

type enumEntry struct {
	op   string
	attr string
	args []cty.Value
}

func enumCatalogue() []enumEntry {
	unkN := cty.UnknownVal(cty.Number)
	unkB := cty.UnknownVal(cty.Bool)
	numsA := []cty.Value{n(0), n(3), cty.NumberFloatVal(-2.5), cty.PositiveInfinity, unkN, unkN.RefineNotNull(), cty.DynamicVal, cty.NullVal(cty.Number)}
	numsB := []cty.Value{n(0), n(2), unkN, cty.DynamicVal}
	var out []enumEntry
	for _, op := range []string{"Add", "Subtract", "Multiply", "Divide", "Modulo", "LessThan", "GreaterThan", "LessThanOrEqualTo", "GreaterThanOrEqualTo", "Equals", "NotEqual"} {
		for _, a := range numsA {
			for _, b := range numsB {
				out = append(out, enumEntry{op, "", []cty.Value{a, b}})
			}
		}
	}
	for _, a := range numsA {
		out = append(out, enumEntry{"Negate", "", []cty.Value{a}}, enumEntry{"Absolute", "", []cty.Value{a}})
	}
	bools := []cty.Value{cty.True, cty.False, unkB, cty.DynamicVal, cty.NullVal(cty.Bool)}
	for _, a := range bools {
		out = append(out, enumEntry{"Not", "", []cty.Value{a}})
		for _, b := range bools {
			out = append(out, enumEntry{"And", "", []cty.Value{a, b}}, enumEntry{"Or", "", []cty.Value{a, b}}, enumEntry{"Equals", "", []cty.Value{a, b}})
		}
	}
	list12 := lst(n(1), n(2))
	mapAB := mp("a", n(1), "b", n(2))
	tupl := tup(n(1), s("x"))
	o := obj("a", n(1), "b", lst(s("x")))
	set12 := cty.SetVal([]cty.Value{n(1), n(2)})
	colls := []cty.Value{list12, mapAB, tupl, cty.ListValEmpty(cty.String), cty.UnknownVal(cty.List(cty.Number)), cty.UnknownVal(cty.Map(cty.Number)),
		cty.UnknownVal(tupl.Type()), cty.DynamicVal}
	keys := []cty.Value{n(0), n(1), n(7), s("a"), s("zz"), unkN, cty.UnknownVal(cty.String), cty.DynamicVal}
	for _, cl := range colls {
		for _, k := range keys {
			out = append(out, enumEntry{"Index", "", []cty.Value{cl, k}}, enumEntry{"HasIndex", "", []cty.Value{cl, k}})
		}
	}
	for _, v := range []cty.Value{list12, mapAB, tupl, set12, cty.SetVal([]cty.Value{unkN, n(1)}), cty.UnknownVal(cty.List(cty.Number)), cty.UnknownVal(cty.Set(cty.Number)), cty.DynamicVal, cty.NullVal(cty.List(cty.Number))} {
		out = append(out, enumEntry{"Length", "", []cty.Value{v}})
	}
	for _, v := range []cty.Value{o, cty.UnknownVal(o.Type()), cty.DynamicVal, cty.NullVal(o.Type())} {
		out = append(out, enumEntry{"GetAttr", "a", []cty.Value{v}}, enumEntry{"GetAttr", "b", []cty.Value{v}})
	}
	for _, st := range []cty.Value{set12, cty.SetVal([]cty.Value{unkN, n(1)}), cty.SetValEmpty(cty.Number), cty.UnknownVal(cty.Set(cty.Number)), cty.SetVal([]cty.Value{list12})} {
		for _, e := range []cty.Value{n(1), n(9), unkN, cty.DynamicVal, s("a"), list12, cty.NullVal(cty.Number)} {
			out = append(out, enumEntry{"HasElement", "", []cty.Value{st, e}})
		}
	}
	eqs := [][2]cty.Value{{list12, list12}, {list12, lst(n(1), n(3))}, {o, o}, {o, tupl}, {cty.NullVal(cty.String), cty.NullVal(cty.Number)}, {cty.NullVal(cty.String), s("a")},
		{s("a"), s("a")}, {set12, set12}, {cty.UnknownVal(o.Type()), o}, {cty.DynamicVal, o}, {tup(unkN), tup(n(1))}}
	for _, p := range eqs {
		out = append(out, enumEntry{"Equals", "", []cty.Value{p[0], p[1]}}, enumEntry{"NotEqual", "", []cty.Value{p[0], p[1]}})
	}
	return out
}

// markSets are the mark combinations applied to each chosen operand.
var enumMarkSets = []cty.ValueMarks{
	cty.NewValueMarks(m1), cty.NewValueMarks(m2), cty.NewValueMarks(m3), cty.NewValueMarks(m1, m3),
}

// runEnumeration applies every non-empty subset of top-level mark placements,
// with every mark set of enumMarkSets (a different one per operand), to every
// catalogue entry. Seed-independent; split between batches with c.Mine.
func runEnumeration(c *core.Ctx, base int64) {
	cat := enumCatalogue()
	var k int64
	for _, e := range cat {
		op := opByName(e.op)
		ar := len(e.args)
		for subset := 1; subset < 1<<ar; subset++ {
			for ms := range enumMarkSets {
				idx := base + k
				k++
				if !c.Mine(k) || !c.Want(idx) {
					continue
				}
				m := make([]cty.Value, ar)
				for i, v := range e.args {
					m[i] = v
					if subset&(1<<i) != 0 {
						m[i] = v.WithMarks(enumMarkSets[(ms+i)%len(enumMarkSets)])
					}
				}
				c.Count("enumeration-case")
				checkPair(c, idx, opPair(op, e.attr, e.args, m))
			}
		}
	}
	if c.Batch == 0 {
		c.Exhaustive("operation-method catalogue (" + itoa(len(cat)) + " operand tuples incl. unknown, dynamic and null operands) x every non-empty subset of top-level operands x 4 mark sets")
	}
}

func itoa(n int) string {
	if n == 0 {
		return "0"
	}
	var b []byte
	for n > 0 {
		b = append([]byte{byte('0' + n%10)}, b...)
		n /= 10
	}
	return string(b)
}
